/-
  C02 (extension) — bases when a CATEGORICAL ARRAY is crossed with another variable, and in the
  transposed layout.  Property theorems only; helpers in Lemmas/SliceArr.lean; the per-respondent
  reading of every `specCount` below is `C01.cmXca_reading` / `C01.caXcm_reading` / `C01.ca_reading`.

  The library's rule for an array-items dimension (ARR): items are different questions, so nothing
  is ever added ACROSS items — "an array item is its own eligibility".  Hence, for a slice whose
  ROWS are items (ARR×CAT, ARR×MR): the row base of cell (i, j) is what it would be for a
  categorical row; the column base of a cell is the cell's own count; the table base is the row
  base.  For a slice whose COLUMNS are items (CAT×ARR) the mirror image holds.

  The unweighted bases are the same statements for `unweight s`; by
  `C02.unweighted_counts_respondents` they count respondents.
-/
import CrCube.Lemmas.SliceArr
import CrCube.Props.C01_Arr
import CrCube.Props.C02

set_option linter.unusedSimpArgs false

namespace CrCube.C02
open CrCube

/-! ### (a) T × categorical array: partition k is an ARR×CAT slice -/

/-- row base of cell (i, j) of partition k: respondents in element k of T with a VALID answer on
    item i (whatever j); the table base is the same number; the column base is the weighted
    number of respondents in element k who answered the j-th valid category on item i — the
    cell's own count. -/
theorem cmXca_bases_spec (T A : Var) (hT : T.CM) (hA : A.IsCA) (s : Survey) (k i j : Nat)
    (hk : k < T.ext) (hi : i < A.n) (hj : j < A.np) :
    let m := sliceCounts [T, A] (cubeOf [T, A] s) k
    m.rowBases i j = .fin (specCount [T, A] s [k, i, j] [false, false, true]) ∧
    m.tableBases i j = .fin (specCount [T, A] s [k, i, j] [false, true, true]) ∧
    m.columnBases i j = .fin (specCount [T, A] s [k, i, j] [false, true, false]) ∧
    m.columnBases i j = m.counts i j ∧ m.tableBases i j = m.rowBases i j := by
  intro m
  have hm : m = sliceCounts [A] (cubeOf [A] (restrictTo T k s)) 0 :=
    C06.partition_restricts_ca T A hT hA.1 hA.2 s k hk
  refine ⟨?_, ?_, ?_, ?_, ?_⟩
  · rw [hm, ca_rowBases_spec A hA _ i j hi false, restrict_specCount_ca T A hT]
  · rw [hm, ca_tableBases_eq_rowBases A hA, ca_rowBases_spec A hA _ i j hi true,
      restrict_specCount_ca T A hT]
  · rw [hm, ca_columnBases_eq_counts A hA, ca_counts_spec A hA _ i j hi hj true,
      restrict_specCount_ca T A hT]
  · rw [hm]; exact ca_columnBases_eq_counts A hA _ i j
  · rw [hm]; exact ca_tableBases_eq_rowBases A hA _ i j

/-- the row base does not depend on the column: it is a genuine per-item base -/
theorem cmXca_rowBase_const (T A : Var) (hT : T.CM) (hA : A.IsCA) (s : Survey) (k i j j' : Nat) :
    specCount [T, A] s [k, i, j] [false, false, true]
      = specCount [T, A] s [k, i, j'] [false, false, true] := by
  rw [C01.cmXca_reading T A hT hA, C01.cmXca_reading T A hT hA]
  apply wsum_congr
  intro r _
  match r.ans with
  | [aT, aA] => simp [caAnswer]
  | [] => rfl
  | [_] => rfl
  | _ :: _ :: _ :: _ => rfl

/-- which margins exist for an ARR×CAT partition: a rows base (= the row bases, also serving as
    rows table base), no columns base, no scalar table base -/
theorem cmXca_margins (T A : Var) (hT : T.CM) (hA : A.IsCA) (s : Survey) (k : Nat)
    (hk : k < T.ext) :
    let m := sliceCounts [T, A] (cubeOf [T, A] s) k
    m.rowsBase = some (fun i => m.rowBases i 0) ∧ m.rowsTableBase = some (fun i => m.rowBases i 0) ∧
    m.columnsBase = none ∧ m.columnsTableBase = none ∧ m.tableBase = none := by
  intro m
  have hm : m = sliceCounts [A] (cubeOf [A] (restrictTo T k s)) 0 :=
    C06.partition_restricts_ca T A hT hA.1 hA.2 s k hk
  rw [hm]
  simp [sliceCounts, apparentKinds, Var.dks, hA.1, hA.2, MatCounts.factory, MatCounts.arrXcat]

/-! ### (b) categorical array × X: partition k = item k, a CAT×CAT / CAT×MR slice -/

/-- row base: answered the i-th valid category on item k AND has a valid answer on X
    (multiple-response X: is non-missing on item j) -/
theorem caXcm_rowBase_spec (A X : Var) (hA : A.IsCA) (hX : X.CM) (s : Survey) (k i j : Nat)
    (hk : k < A.n) (hi : i < A.np) (hj : j < X.ext) :
    (sliceCounts [A, X] (cubeOf [A, X] s) k).rowBases i j
      = .fin (specCount [A, X] s [k, i, j] [false, false, true]) := by
  rw [C06.partition_ca_item A X hA.1 hA.2 hX s k hk,
    rowBase_spec_2d A.itemVar X (itemVar_CM A) hX _ i j (by rw [itemVar_ext]; exact hi) hj,
    recode_specCount A X hA hX s k i j false]

/-- column base: has a VALID answer on item k AND belongs to element j of X -/
theorem caXcm_colBase_spec (A X : Var) (hA : A.IsCA) (hX : X.CM) (s : Survey) (k i j : Nat)
    (hk : k < A.n) (hi : i < A.np) (hj : j < X.ext) :
    (sliceCounts [A, X] (cubeOf [A, X] s) k).columnBases i j
      = .fin (specCount [A, X] s [k, i, j] [false, true, false]) := by
  rw [C06.partition_ca_item A X hA.1 hA.2 hX s k hk,
    colBase_spec_2d A.itemVar X (itemVar_CM A) hX _ i j (by rw [itemVar_ext]; exact hi) hj,
    recode_specCount A X hA hX s k i j false]

/-- table base: valid answer on item k AND valid on X -/
theorem caXcm_tableBase_spec (A X : Var) (hA : A.IsCA) (hX : X.CM) (s : Survey) (k i j : Nat)
    (hk : k < A.n) (hi : i < A.np) (hj : j < X.ext) :
    (sliceCounts [A, X] (cubeOf [A, X] s) k).tableBases i j
      = .fin (specCount [A, X] s [k, i, j] [false, true, true]) := by
  rw [C06.partition_ca_item A X hA.1 hA.2 hX s k hk,
    tableBase_spec_2d A.itemVar X (itemVar_CM A) hX _ i j (by rw [itemVar_ext]; exact hi) hj,
    recode_specCount A X hA hX s k i j false]

/-! ### (c) the transposed array alone: a CAT×ARR slice (rows = categories, columns = items) -/

/-- column base of cell (i, j): respondents with a VALID answer on item j (whatever the row);
    the table base is the same number; the row base is the cell's own count. -/
theorem caT_bases_spec (A : Var) (hA : A.IsCA) (s : Survey) (i j : Nat)
    (hi : i < A.np) (hj : j < A.n) :
    let m := sliceCountsT A [] (cubeOfT A [] s) 0
    m.columnBases i j = .fin (specCount [A] s [j, i] [false, true]) ∧
    m.tableBases i j = .fin (specCount [A] s [j, i] [true, true]) ∧
    m.rowBases i j = .fin (specCount [A] s [j, i] [true, false]) ∧
    m.rowBases i j = m.counts i j ∧ m.tableBases i j = m.columnBases i j := by
  intro m
  obtain ⟨h1, h2, h3, h4⟩ := sliceT1_mirror A hA (cubeOf [A] s) i j
  refine ⟨?_, ?_, ?_, ?_, ?_⟩
  · show (sliceCountsT A [] (cubeOf [A] s).swap01 0).columnBases i j = _
    rw [h3]; exact ca_rowBases_spec A hA s j i hj false
  · show (sliceCountsT A [] (cubeOf [A] s).swap01 0).tableBases i j = _
    rw [h4, ca_tableBases_eq_rowBases A hA]; exact ca_rowBases_spec A hA s j i hj true
  · show (sliceCountsT A [] (cubeOf [A] s).swap01 0).rowBases i j = _
    rw [h2, ca_columnBases_eq_counts A hA]; exact ca_counts_spec A hA s j i hj hi true
  · show (sliceCountsT A [] (cubeOf [A] s).swap01 0).rowBases i j
      = (sliceCountsT A [] (cubeOf [A] s).swap01 0).counts i j
    rw [h2, h1]; exact ca_columnBases_eq_counts A hA _ j i
  · show (sliceCountsT A [] (cubeOf [A] s).swap01 0).tableBases i j
      = (sliceCountsT A [] (cubeOf [A] s).swap01 0).columnBases i j
    rw [h4, h3]; exact ca_tableBases_eq_rowBases A hA _ j i

/-- which margins exist for the CAT×ARR slice: a columns base only -/
theorem caT_margins (A : Var) (rawT : FT) :
    let m := sliceCountsT A [] rawT 0
    m.columnsBase = some (fun j => m.columnBases 0 j) ∧
    m.columnsTableBase = some (fun j => m.columnBases 0 j) ∧
    m.rowsBase = none ∧ m.rowsTableBase = none ∧ m.tableBase = none := by
  simp [sliceCountsT, sliceCountsOf, kindsT, apparentKinds, MatCounts.factory, MatCounts.catXarr]

/-! ### (d) transposed array × X: partition k = valid category k, an ARR×CAT / ARR×MR slice -/

/-- row base of cell (i, j) of partition k: answered the k-th valid category on item i AND has a
    valid answer on X (multiple-response X: non-missing on item j); table base = row base;
    column base = the cell's own count (rows are array items). -/
theorem caTXcm_bases_spec (A X : Var) (hA : A.IsCA) (hX : X.CM) (s : Survey) (k i j : Nat)
    (hk : k < A.np) (hi : i < A.n) (hj : j < X.ext) :
    let m := sliceCountsT A [X] (cubeOfT A [X] s) k
    m.rowBases i j = .fin (specCount [A, X] s [i, k, j] [false, false, true]) ∧
    m.tableBases i j = .fin (specCount [A, X] s [i, k, j] [false, false, true]) ∧
    m.columnBases i j = .fin (specCount [A, X] s [i, k, j] [false, false, false]) ∧
    m.columnBases i j = m.counts i j ∧ m.tableBases i j = m.rowBases i j := by
  intro m
  have hr : m.rowBases i j = .fin (specCount [A, X] s [i, k, j] [false, false, true]) := by
    show (sliceCountsT A [X] (cubeOf [A, X] s).swap01 k).rowBases i j = _
    rw [sliceT2_rowBases A X hX]
    exact rawT2_rowBases A X hA hX s k i j hk hi hj false
  have hc : m.counts i j = .fin (specCount [A, X] s [i, k, j] [false, false, false]) :=
    C01.caTXcm_counts_faithful A X hA hX s k i j hk hi hj
  have ht : m.tableBases i j = m.rowBases i j := sliceT2_tableBases A X hX k i j _
  have hcc : m.columnBases i j = m.counts i j := sliceT2_columnBases A X hX k i j _
  exact ⟨hr, by rw [ht, hr], by rw [hcc, hc], hcc, ht⟩

/-! ### (f) T × transposed array: partition k is a CAT×ARR slice -/

/-- column base of cell (i, j) of partition k: respondents in element k of T with a VALID answer on
    item j; table base = column base; row base = the cell's own count. -/
theorem cmXcaT_bases_spec (T A : Var) (hT : T.CM) (hA : A.IsCA) (s : Survey) (k i j : Nat)
    (hk : k < T.ext) (hi : i < A.np) (hj : j < A.n) :
    let m := sliceCountsTT T A (cubeOfTT T A s) k
    m.columnBases i j = .fin (specCount [T, A] s [k, j, i] [false, false, true]) ∧
    m.tableBases i j = .fin (specCount [T, A] s [k, j, i] [false, true, true]) ∧
    m.rowBases i j = .fin (specCount [T, A] s [k, j, i] [false, true, false]) ∧
    m.rowBases i j = m.counts i j ∧ m.tableBases i j = m.columnBases i j := by
  intro m
  have hc : ∀ m1, m.columnBases i j = .fin (specCount [T, A] s [k, j, i] [false, m1, true]) := by
    intro m1
    show (sliceCountsTT T A ((cubeOf [T, A] s).swapAt T.rank) k).columnBases i j = _
    rw [sliceTT_columnBases T A hT]
    exact rawTT_columnBases T A hT hA s k i j hk hj m1
  have hn : m.counts i j = .fin (specCount [T, A] s [k, j, i] [false, true, false]) := by
    show (sliceCountsTT T A ((cubeOf [T, A] s).swapAt T.rank) k).counts i j = _
    rw [sliceTT_counts T A hT]
    exact rawTT_counts T A hT hA s k i j hk hi hj true
  have hr : m.rowBases i j = m.counts i j := sliceTT_rowBases T A hT k i j _
  have ht : m.tableBases i j = m.columnBases i j := sliceTT_tableBases T A hT k i j _
  exact ⟨hc false, by rw [ht, hc true], by rw [hr, hn], hr, ht⟩

/-! ### (e) CA-as-0th strands -/

/-- the base of every row of strand k (and its table base): respondents with a VALID answer on
    item k -/
theorem ca0th_bases_spec (A : Var) (hA : A.IsCA) (s : Survey) (k i : Nat) (hk : k < A.n)
    (hi : i < A.np) :
    (strandCountsCA0 A (cubeOf [A] s) k).bases i = .fin (specCount [A] s [k, i] [false, true]) ∧
    (strandCountsCA0 A (cubeOf [A] s) k).tableBase = some (.fin (specCount [A] s [k, i] [false, true])) := by
  have hb : (strandCountsCA0 A (cubeOf [A] s) k).bases i
      = .fin (specCount [A] s [k, i] [false, true]) := by
    rw [strandCA0_item A hA s k hk,
      CrCube.strand_bases_spec A.itemVar (itemVar_CM A) _ i (by rw [itemVar_ext]; exact hi),
      recode_specCount_one A hA s k i false]
  refine ⟨hb, ?_⟩
  rw [← hb]
  rfl

/-! ### non-vacuity (hypotheses as in C01_Arr) and worked instances (tests) -/

example : (⟨.arr, 2, [false, false, true], true⟩ : Var).CM ∧
    (⟨.arr, 2, [false, true, false], false⟩ : Var).IsCA ∧
    (1 : Nat) < (⟨.arr, 2, [false, true, false], false⟩ : Var).np :=
  ⟨Or.inr ⟨rfl, rfl, by decide⟩, ⟨rfl, rfl⟩, by decide⟩

-- (a) MR table variable, partition 1 = selected item 1: the row base of item 0 counts the
-- selectors with a valid answer on item 0 (the one who answered the missing category is out)
example :
    let T : Var := ⟨.arr, 2, [false, false, true], true⟩
    let A : Var := ⟨.arr, 2, [false, true, false], false⟩
    let s : Survey := [⟨2, [[1, 0], [0, 2]]⟩, ⟨1/2, [[0, 0], [1, 2]]⟩, ⟨3, [[0, 1], [0, 2]]⟩,
      ⟨5, [[2, 0], [2, 1]]⟩]
    let m := sliceCounts [T, A] (cubeOf [T, A] s) 1
    m.rowBases 0 0 = .fin 7 ∧ m.rowBases 0 1 = .fin 7 ∧ m.columnBases 0 1 = .fin 5 ∧
    m.tableBases 1 0 = .fin (5/2) := by decide +kernel

-- (b) item 0 of the array × MR: column base of MR item 1 = valid on array item 0 and selected
example :
    let A : Var := ⟨.arr, 2, [false, true, false], false⟩
    let X : Var := ⟨.arr, 2, [false, false, true], true⟩
    let s : Survey := [⟨2, [[0, 2], [0, 0]]⟩, ⟨1/2, [[1, 2], [1, 0]]⟩, ⟨3, [[2, 2], [0, 0]]⟩,
      ⟨5, [[2, 1], [0, 1]]⟩]
    let m := sliceCounts [A, X] (cubeOf [A, X] s) 0
    m.columnBases 0 1 = .fin 5 ∧ m.rowBases 1 1 = .fin 8 ∧ m.tableBases 0 1 = .fin 10 := by
  decide +kernel

-- (c) transposed: the column base of item j counts the valid answers on item j
example :
    let A : Var := ⟨.arr, 2, [false, true, false], false⟩
    let s : Survey := [⟨2, [[0, 2]]⟩, ⟨1/2, [[1, 2]]⟩, ⟨3, [[2, 0]]⟩]
    let m := sliceCountsT A [] (cubeOfT A [] s) 0
    m.columnBases 1 0 = .fin 5 ∧ m.columnBases 0 1 = .fin (11/2) ∧ m.rowBases 1 1 = .fin (5/2) ∧
    m.tableBases 0 0 = .fin 5 := by decide +kernel

-- (d) partition = valid category 1 (raw 2), an ARR×MR slice: row base = answered raw 2 on the item
-- and non-missing on the MR item
example :
    let A : Var := ⟨.arr, 2, [false, true, false], false⟩
    let X : Var := ⟨.arr, 2, [false, false, true], true⟩
    let s : Survey := [⟨2, [[2, 2], [0, 0]]⟩, ⟨1/2, [[2, 0], [1, 1]]⟩, ⟨3, [[0, 2], [0, 0]]⟩,
      ⟨5, [[2, 1], [0, 2]]⟩]
    let m := sliceCountsT A [X] (cubeOfT A [X] s) 1
    m.counts 0 1 = .fin 2 ∧ m.rowBases 0 1 = .fin (5/2) ∧ m.columnBases 0 1 = .fin 2 ∧
    m.tableBases 0 1 = .fin (5/2) ∧ m.rowBases 0 0 = .fin (15/2) := by decide +kernel

-- (f) MR table variable (selected item 1) over the transposed array
example :
    let T : Var := ⟨.arr, 2, [false, false, true], true⟩
    let A : Var := ⟨.arr, 2, [false, true, false], false⟩
    let s : Survey := [⟨2, [[1, 0], [0, 2]]⟩, ⟨1/2, [[0, 0], [2, 2]]⟩, ⟨3, [[0, 1], [2, 2]]⟩,
      ⟨5, [[2, 0], [2, 1]]⟩]
    let m := sliceCountsTT T A (cubeOfTT T A s) 1
    m.columnBases 1 0 = .fin (15/2) ∧ m.columnBases 0 1 = .fin (5/2) ∧ m.rowBases 1 0 = .fin (11/2) ∧
    m.tableBases 0 1 = .fin (5/2) := by decide +kernel

-- (e) CA-as-0th, strand of item 0
example :
    let A : Var := ⟨.arr, 2, [false, true, false], false⟩
    let s : Survey := [⟨2, [[0, 2]]⟩, ⟨1/2, [[1, 2]]⟩, ⟨3, [[2, 0]]⟩]
    (strandCountsCA0 A (cubeOf [A] s) 0).bases 1 = .fin 5 ∧
    (strandCountsCA0 A (cubeOf [A] s) 0).tableBase = some (.fin 5) := by decide +kernel

end CrCube.C02
