/-
  C13 (legacy pairwise objects) — pairwise comparison of column SCALE MEANS and of the column
  margin proportions: statistic, degrees of freedom, p-value, index sets.

  The library's scale-mean test is Student's POOLED two-sample test with n_a + n_b − 2 degrees of
  freedom (not Welch); see `Model/PairwiseLegacy.lean` for the quirks that are mirrored.
  Values are spoken about through `interpT` / `interpP` of `Props/C13.lean` (Mathlib `Real.sqrt`,
  the Student-t CDF a parameter `T`; facts about it are hypotheses).
-/
import CrCube.Model.PairwiseLegacy
import CrCube.Spec.PairwiseLegacySpec
import CrCube.Spec.PairwiseSpec
import CrCube.Lemmas.PairwiseLegacy
import CrCube.Props.C13
import Mathlib.Tactic.FieldSimp

namespace CrCube.C13
open CrCube CrCube.Pairwise CrCube.PairwiseLegacy CrCube.PairwiseLegacySpec CrCube.PairwiseLegacyL

/-! ### statistic, degrees of freedom, p-value -/

/-- **legacy_t_def**: comparing column b with selected column a is the pooled statistic on the
    columns' scale means, valued counts and variances, and a two-sided Student-t tail with
    n_a + n_b − 2 degrees of freedom -/
theorem legacy_t_def (x : LegIn) (a b : Nat) :
    x.tScale a b = tPooled (x.mean a) (x.n a) (x.variance a) (x.mean b) (x.n b) (x.variance b)
    ∧ x.pScale a b = .tTail2 (x.tScale a b) (x.n a + x.n b - 2) := ⟨rfl, rfl⟩

/-- **legacy_t_eq_spec**: the statistic is (m_b − m_a)/sqrt(s²·(1/n_a + 1/n_b)) with the pooled
    s² = ((n_a−1)v_a + (n_b−1)v_b)/(n_a+n_b−2), whenever s² and 1/n_a + 1/n_b are non-negative, NaN
    or +inf (numpy takes the two roots separately: a negative factor gives NaN, which the model's
    guard reproduces; both can only be negative together with negative counts, i.e. on
    difference columns) -/
theorem legacy_t_eq_spec (ma na va mb nb vb : Val)
    (hX : ValL.nonnegOrNan (pooledVar na va nb vb) = true) (hY : ValL.nonnegOrNan (invSum na nb) = true) :
    tPooled ma na va mb nb vb = tPooledSpec ma na va mb nb vb := by
  unfold tPooled
  rw [lt_zero_of_nonnegOrNan _ hX, lt_zero_of_nonnegOrNan _ hY]
  rfl

/-- **legacy_sqrt_merge**: on non-negative reals the product of the two roots the library takes is
    the root of the product the model's single term carries -/
theorem legacy_sqrt_merge (num X Y : ℝ) (hX : 0 ≤ X) :
    num / (Real.sqrt X * Real.sqrt Y) = num / Real.sqrt (X * Y) := by
  rw [Real.sqrt_mul hX]

/-- **legacy_pooled_eq_unpooled_equal_n**: for two columns of equal valued count n (n ≠ 0, 1) the
    pooled form is the unpooled (m_b − m_a)/sqrt(v_a/n_a + v_b/n_b) -/
theorem legacy_pooled_eq_unpooled_equal_n (ma mb : Val) (n va vb : Rat) (h0 : n ≠ 0) (h1 : n ≠ 1) :
    tPooledSpec ma (.fin n) (.fin va) mb (.fin n) (.fin vb) = tUnpooled ma (.fin n) (.fin va) mb (.fin n) (.fin vb) := by
  have h2 : n + n - 2 ≠ 0 := by
    intro h; apply h1; linarith
  unfold tPooledSpec tUnpooled pooledVarSpec
  simp only [ValL.one_val, ValL.two_val', ValL.sub_fin', Val.mul_fin, Val.add_fin, ValL.fin_div_fin _ _ h2,
    ValL.fin_div_fin _ _ h0]
  congr 2
  have h3 : n - 1 ≠ 0 := sub_ne_zero.mpr h1
  have h4 : n + n - 2 = 2 * (n - 1) := by ring
  rw [h4]
  field_simp
  ring

/-- **legacy_df_def**: n_a + n_b − 2 degrees of freedom on the (weighted) valued counts – symmetric -/
theorem legacy_df_def (x : LegIn) (a b : Nat) :
    x.dfScale a b = x.n a + x.n b - 2 ∧ x.dfScale a b = x.dfScale b a := by
  refine ⟨rfl, ?_⟩
  unfold LegIn.dfScale dfPooled
  rw [ValL.add_comm']

/-- **legacy_variance_is_scale_variance**: the variance and the count the test uses are the
    expressions under `columns_scale_mean_stddev` (C14: population variance of the respondents'
    values, `C14.scale_std_spec`) and its denominator, taken on the displayed rows -/
theorem legacy_variance_is_scale_variance (x : LegIn) (j : Nat) :
    x.variance j = Scale.variance (x.col j) x.values (x.mean j)
    ∧ x.n j = Val.sum ((Scale.valuedPairs x.values (x.col j)).map (·.2)) := ⟨rfl, rfl⟩

/-! ### antisymmetry, symmetry, self comparison -/

/-- **legacy_antisymmetric_term**: the two statistics of a pair of columns are either both NaN or
    `num/√D` and `(−num)/√D` with the SAME D -/
theorem legacy_antisymmetric_term (ma na va mb nb vb : Val) :
    (tPooled ma na va mb nb vb = .v .nan ∧ tPooled mb nb vb ma na va = .v .nan)
    ∨ ∃ num D, tPooled ma na va mb nb vb = .divSqrt num D ∧ tPooled mb nb vb ma na va = .divSqrt (-num) D := by
  unfold tPooled
  rw [pooledVar_comm na va nb vb, invSum_comm na nb]
  by_cases hg : (Val.lt (pooledVar na va nb vb) 0 || Val.lt (invSum na nb) 0) = true
  · left; simp only [hg, if_true, and_self]
  · right
    refine ⟨mb - ma, pooledVar na va nb vb * invSum na nb, ?_, ?_⟩
    · simp only [hg]; rfl
    · simp only [hg]
      rw [ValL.sub_eq_neg_sub mb ma]; rfl

/-- **legacy_antisymmetric**: ⟦t(b, a)⟧ = −⟦t(a, b)⟧ -/
theorem legacy_antisymmetric (ma na va mb nb vb : Val) :
    interpT (tPooled mb nb vb ma na va) = (interpT (tPooled ma na va mb nb vb)).map (fun y => -y) := by
  rcases legacy_antisymmetric_term ma na va mb nb vb with ⟨h1, h2⟩ | ⟨num, D, h1, h2⟩
  · rw [h1, h2]; rfl
  · rw [h1, h2]
    cases num <;> cases D <;> simp [interpT, Val.neg_fin, neg_div]

/-- **legacy_symmetric_p**: p is symmetric in (a, b): same degrees of freedom, |t| equal -/
theorem legacy_symmetric_p (T : ℝ → ℝ → ℝ) (ma na va mb nb vb : Val) :
    interpP T (.tTail2 (tPooled ma na va mb nb vb) (dfPooled na nb))
      = interpP T (.tTail2 (tPooled mb nb vb ma na va) (dfPooled nb na)) := by
  have hdf : dfPooled nb na = dfPooled na nb := by unfold dfPooled; rw [ValL.add_comm']
  rw [hdf]
  rcases legacy_antisymmetric_term ma na va mb nb vb with ⟨h1, h2⟩ | ⟨num, D, h1, h2⟩
  · rw [h1, h2]
  · rw [h1, h2]
    cases hd : dfPooled na nb <;> cases num <;> cases D <;>
      simp [interpP, interpT, Val.neg_fin, ValL.neg_nan, ValL.neg_pinf, ValL.neg_ninf, neg_div, abs_neg]

/-- **legacy_self_zero**: a column against itself gives NaN or the term 0/√D, whose value is 0 -/
theorem legacy_self_zero (m : Rat) (n v : Val) :
    tPooled (.fin m) n v (.fin m) n v = .v .nan
    ∨ ∃ D, tPooled (.fin m) n v (.fin m) n v = .divSqrt (.fin 0) D
        ∧ ∀ d : Rat, D = .fin d → interpT (.divSqrt (.fin 0) D) = some 0 := by
  unfold tPooled
  by_cases hg : (Val.lt (pooledVar n v n v) 0 || Val.lt (invSum n n) 0) = true
  · left; simp only [hg, if_true]
  · right
    refine ⟨pooledVar n v n v * invSum n n, ?_, ?_⟩
    · simp only [hg]; rw [ValL.sub_self_fin]; rfl
    · intro d hd; rw [hd]; simp [interpT]

/-- **legacy_self_p_one**: … and then p = 1 (given T_df(0) = 1/2) -/
theorem legacy_self_p_one (T : ℝ → ℝ → ℝ) (hT : ∀ df, T df 0 = 1 / 2) (d df : Rat) (n : Val)
    (hdf : dfPooled n n = .fin df) :
    interpP T (.tTail2 (.divSqrt (.fin 0) (.fin d)) (dfPooled n n)) = some 1 := by
  rw [hdf]
  simp [interpP, interpT, hT]
  norm_num

/-! ### index sets -/

/-- the set reported for selected display column a -/
def cellL (I : List (List Nat)) (a : Nat) : List Nat := I.getD a []

theorem cellL_idxOf (ev : Out → Val) (alpha : Rat) (ol : Bool) (n : Nat) (P T : Nat → Nat → Out)
    (a : Nat) (ha : a < n) :
    cellL (idxOf ev alpha ol n P T) a = (List.range n).filter (fun b => sig ev alpha ol (P a b) (T a b)) := by
  unfold cellL idxOf
  simp only [List.getD_eq_getElem?_getD, List.getElem?_map, List.getElem?_range ha, Option.map_some,
    Option.getD_some]

/-- **legacy_indices_def**: the set of selected column a contains exactly the display positions b
    with p(a, b) < alpha and, in only-larger mode, t(a, b) < 0 (b's mean smaller than a's) -/
theorem legacy_indices_def (ev : Out → Val) (alpha : Rat) (ol : Bool) (n : Nat) (P T : Nat → Nat → Out)
    (a b : Nat) (ha : a < n) :
    b ∈ cellL (idxOf ev alpha ol n P T) a ↔
      b < n ∧ Val.lt (ev (P a b)) (.fin alpha) = true ∧ (ol = true → Val.lt (ev (T a b)) (.fin 0) = true) := by
  rw [cellL_idxOf _ _ _ _ _ _ _ ha]
  simp only [List.mem_filter, List.mem_range, sig, Bool.and_eq_true, Bool.or_eq_true, Bool.not_eq_true']
  constructor
  · rintro ⟨h1, h3, h4⟩
    refine ⟨h1, h3, ?_⟩
    intro hol
    rcases h4 with h4 | h4
    · rw [hol] at h4; exact absurd h4 (by simp)
    · exact h4
  · rintro ⟨h1, h3, h4⟩
    refine ⟨h1, h3, ?_⟩
    cases ol with
    | false => left; rfl
    | true => right; exact h4 rfl

/-- **legacy_never_self**: no mask protects the selected column; it is never listed because its
    own p-value is 1 (or NaN) and alpha ≤ 1 (alpha read from the transforms is < 1, `alpha_parse`) -/
theorem legacy_never_self (ev : Out → Val) (alpha : Rat) (ol : Bool) (n : Nat) (P T : Nat → Nat → Out)
    (a : Nat) (ha : a < n) (hα : alpha ≤ 1) (hp : ev (P a a) = .fin 1 ∨ ev (P a a) = .nan) :
    a ∉ cellL (idxOf ev alpha ol n P T) a := by
  rw [legacy_indices_def _ _ _ _ _ _ _ _ ha]
  rintro ⟨_, h, _⟩
  rcases hp with hp | hp <;> rw [hp] at h
  · simp only [Val.lt, decide_eq_true_eq] at h
    exact absurd h (not_lt.mpr hα)
  · simp [Val.lt] at h

/-- … and the bound on alpha is needed: a `PairwiseSignificance` built directly with alpha > 1 and
    only_larger off lists every column with p(a,a) = 1 in its own set -/
theorem legacy_self_listed_without_alpha_bound (ev : Out → Val) (alpha : Rat) (n : Nat)
    (P T : Nat → Nat → Out) (a : Nat) (ha : a < n) (hα : 1 < alpha) (hp : ev (P a a) = .fin 1) :
    a ∈ cellL (idxOf ev alpha false n P T) a := by
  rw [legacy_indices_def _ _ _ _ _ _ _ _ ha]
  refine ⟨ha, ?_, by intro h; cases h⟩
  rw [hp]; simp only [Val.lt, decide_eq_true_eq]; exact hα

/-- **legacy_alt_superset**: a larger alpha gives a superset, column by column -/
theorem legacy_alt_superset (ev : Out → Val) (a1 a2 : Rat) (h : a1 ≤ a2) (ol : Bool) (n : Nat)
    (P T : Nat → Nat → Out) (a : Nat) (ha : a < n) :
    ∀ b ∈ cellL (idxOf ev a1 ol n P T) a, b ∈ cellL (idxOf ev a2 ol n P T) a := by
  intro b hb
  rw [legacy_indices_def _ _ _ _ _ _ _ _ ha] at hb ⊢
  exact ⟨hb.1, ValL.lt_fin_mono _ _ _ h hb.2.1, hb.2.2⟩

/-- **legacy_slice_alt_superset**: whatever alpha pair the transforms carry, the sets of
    `columns_scale_mean_pairwise_indices_alt` contain those of `columns_scale_mean_pairwise_indices` -/
theorem legacy_slice_alt_superset (ev : Out → Val) (arg : AlphaArg) (ol : OlArg) (x : LegIn)
    (I J : List (List Nat))
    (hI : sliceScaleIdx ev arg ol x = .ok I) (hJ : sliceScaleIdxAlt ev arg ol x = .ok (some J))
    (a : Nat) (ha : a < x.ncols) :
    ∀ b ∈ cellL I a, b ∈ cellL J a := by
  unfold sliceScaleIdx at hI
  unfold sliceScaleIdxAlt at hJ
  cases hav : alphaValues arg with
  | error e => cases e <;> simp [alphaOf, hav] at hI
  | ok r =>
    obtain ⟨al, o⟩ := r
    have hao : alphaOf arg = .ok (al, o) := by simp [alphaOf, hav]
    rw [hao] at hI hJ
    cases o with
    | none => simp at hJ
    | some y =>
      have hle : al ≤ y := alpha_sorted arg al y hav
      simp only [scaleMeanIdx] at hI hJ
      have hn : ¬ x.ncols = 0 := by omega
      simp only [hn, if_false] at hI hJ
      by_cases hv : (!x.hasValues) = true
      · simp [hv] at hI
      · simp only [hv] at hI hJ
        simp only [Bool.false_eq_true, if_false, Except.ok.injEq, Option.some.injEq] at hI hJ
        subst hI; subst hJ
        exact legacy_alt_superset ev al y hle _ _ _ _ a ha

/-- **legacy_indices_equivariant**: position-valued: if arrangement 2 shows at position k the column
    arrangement 1 shows at position σ k (reordering, hiding, other insertion points), the sets are
    the position-map images of each other -/
theorem legacy_indices_equivariant (ev : Out → Val) (alpha : Rat) (ol : Bool) (n₁ n₂ : Nat)
    (P₁ T₁ P₂ T₂ : Nat → Nat → Out) (σ : Nat → Nat) (hσ : ∀ k, k < n₂ → σ k < n₁)
    (hP : ∀ a b, a < n₂ → b < n₂ → P₂ a b = P₁ (σ a) (σ b))
    (hT : ∀ a b, a < n₂ → b < n₂ → T₂ a b = T₁ (σ a) (σ b))
    (c b : Nat) (hc : c < n₂) (hb : b < n₂) :
    b ∈ cellL (idxOf ev alpha ol n₂ P₂ T₂) c ↔ σ b ∈ cellL (idxOf ev alpha ol n₁ P₁ T₁) (σ c) := by
  rw [legacy_indices_def _ _ _ _ _ _ _ _ hc, legacy_indices_def _ _ _ _ _ _ _ _ (hσ c hc), hP c b hc hb, hT c b hc hb]
  constructor
  · rintro ⟨_, h2, h3⟩; exact ⟨hσ b hb, h2, h3⟩
  · rintro ⟨_, h2, h3⟩; exact ⟨hb, h2, h3⟩

/-- **legacy_indices_follow_columns**: for the slice itself – scale-mean sets and summary sets follow
    any re-arrangement of the columns (same rows shown) -/
theorem legacy_indices_follow_columns (ev : Out → Val) (alpha : Rat) (ol : Bool) (x : FullIn)
    (ro co₁ co₂ : List Int) (σ : Nat → Nat)
    (hσ : ∀ k, k < co₂.length → σ k < co₁.length ∧ co₂.getD k 0 = co₁.getD (σ k) 0)
    (c b : Nat) (hc : c < co₂.length) (hb : b < co₂.length) :
    (b ∈ cellL (idxOf ev alpha ol (x.display ro co₂).ncols (x.display ro co₂).pScale (x.display ro co₂).tScale) c
      ↔ σ b ∈ cellL (idxOf ev alpha ol (x.display ro co₁).ncols (x.display ro co₁).pScale (x.display ro co₁).tScale) (σ c))
    ∧ (b ∈ cellL (idxOf ev alpha ol (x.display ro co₂).ncols (x.display ro co₂).summaryP (x.display ro co₂).summaryT) c
      ↔ σ b ∈ cellL (idxOf ev alpha ol (x.display ro co₁).ncols (x.display ro co₁).summaryP (x.display ro co₁).summaryT) (σ c)) := by
  have hn₁ : (x.display ro co₁).ncols = co₁.length := rfl
  have hn₂ : (x.display ro co₂).ncols = co₂.length := rfl
  constructor
  · apply legacy_indices_equivariant ev alpha ol _ _ _ _ _ _ σ
    · intro k hk; rw [hn₂] at hk; rw [hn₁]; exact (hσ k hk).1
    · intro a b' ha hb'; rw [hn₂] at ha hb'
      rw [display_pScale x ro co₂ a b' ha hb', display_pScale x ro co₁ _ _ (hσ a ha).1 (hσ b' hb').1,
        (hσ a ha).2, (hσ b' hb').2]
    · intro a b' ha hb'; rw [hn₂] at ha hb'
      rw [display_tScale x ro co₂ a b' ha hb', display_tScale x ro co₁ _ _ (hσ a ha).1 (hσ b' hb').1,
        (hσ a ha).2, (hσ b' hb').2]
    · exact hc
    · exact hb
  · apply legacy_indices_equivariant ev alpha ol _ _ _ _ _ _ σ
    · intro k hk; rw [hn₂] at hk; rw [hn₁]; exact (hσ k hk).1
    · intro a b' ha hb'; rw [hn₂] at ha hb'
      rw [display_summaryP x ro co₂ a b' ha hb', display_summaryP x ro co₁ _ _ (hσ a ha).1 (hσ b' hb').1,
        (hσ a ha).2, (hσ b' hb').2]
    · intro a b' ha hb'; rw [hn₂] at ha hb'
      rw [display_summaryT x ro co₂ a b' ha hb', display_summaryT x ro co₁ _ _ (hσ a ha).1 (hσ b' hb').1,
        (hσ a ha).2, (hσ b' hb').2]
    · exact hc
    · exact hb

/-! ### NaN rules and errors -/

theorem interpT_divSqrt_nan_num (D : Val) : interpT (.divSqrt .nan D) = none := by
  cases D <;> rfl

theorem interpT_divSqrt_nan_den (num : Val) : interpT (.divSqrt num .nan) = none := by
  cases num <;> rfl

/-- **legacy_nan_mean**: a column without valued respondents (scale mean NaN) has no t against any
    column, in either role -/
theorem legacy_nan_mean (m na va nb vb : Val) :
    interpT (tPooled .nan na va m nb vb) = none ∧ interpT (tPooled m na va .nan nb vb) = none := by
  unfold tPooled
  constructor
  · split
    · rfl
    · rw [ValL.sub_nan]; exact interpT_divSqrt_nan_num _
  · split
    · rfl
    · rw [ValL.nan_sub]; exact interpT_divSqrt_nan_num _

/-- **legacy_nan_variance**: an undefined variance (0/0 on an empty displayed column) on either side
    makes t undefined -/
theorem legacy_nan_variance (ma mb na nb v : Val) :
    interpT (tPooled ma na .nan mb nb v) = none ∧ interpT (tPooled ma na v mb nb .nan) = none := by
  have h1 : pooledVar na .nan nb v = .nan := by
    unfold pooledVar; rw [ValL.mul_nan, ValL.nan_add, ValL.nan_div]
  have h2 : pooledVar na v nb .nan = .nan := by
    unfold pooledVar; rw [ValL.mul_nan, ValL.add_nan, ValL.nan_div]
  unfold tPooled
  constructor
  · rw [h1]; split
    · rfl
    · rw [ValL.nan_mul]; exact interpT_divSqrt_nan_den _
  · rw [h2]; split
    · rfl
    · rw [ValL.nan_mul]; exact interpT_divSqrt_nan_den _

/-- a displayed column with zero valued count has no finite variance (x/0) -/
theorem legacy_zero_count_variance (x : LegIn) (j : Nat) (h : x.n j = .fin 0) (q : Rat) :
    x.variance j ≠ .fin q := by
  have hv : x.variance j
      = Val.nansum ((Scale.valuedPairs x.values (x.col j)).map (fun p => p.2 * ((p.1 - x.mean j) * (p.1 - x.mean j)))) / x.n j := rfl
  rw [hv, h]
  generalize Val.nansum _ = s
  cases s with
  | fin r =>
    rw [Val.div_fin]; simp only [if_true]
    split
    · simp
    · split <;> simp
  | nan => simp [ValL.nan_div]
  | pinf => intro hh; cases hh
  | ninf => intro hh; cases hh

/-- **legacy_zero_variance**: two columns whose valued respondents all sit on one value each
    (variances 0) give the term (m_b − m_a)/√0 – ±inf for different means (p = 0: always listed),
    NaN for equal ones -/
theorem legacy_zero_variance (ma mb : Val) (na nb : Rat) (ha : 0 < na) (hb : 0 < nb) (h2 : na + nb ≠ 2) :
    tPooled ma (.fin na) (.fin 0) mb (.fin nb) (.fin 0) = .divSqrt (mb - ma) (.fin 0) := by
  have hdf : na + nb - 2 ≠ 0 := by intro h; apply h2; linarith
  have hX : pooledVar (.fin na) (.fin 0) (.fin nb) (.fin 0) = .fin 0 := by
    unfold pooledVar
    simp only [ValL.one_val, ValL.two_val', ValL.sub_fin', Val.mul_fin, Val.add_fin, ValL.fin_div_fin _ _ hdf]
    congr 1; simp
  have hY : invSum (.fin na) (.fin nb) = .fin (1 / na + 1 / nb) := by
    unfold invSum
    simp only [ValL.one_val, ValL.fin_div_fin _ _ (ne_of_gt ha), ValL.fin_div_fin _ _ (ne_of_gt hb), Val.add_fin]
  have hYpos : (0 : Rat) ≤ 1 / na + 1 / nb := by positivity
  unfold tPooled
  rw [hX, hY]
  have g1 : Val.lt (Val.fin 0) 0 = false := lt_zero_of_nonnegOrNan _ (by simp [ValL.nonnegOrNan])
  have g2 : Val.lt (Val.fin (1 / na + 1 / nb)) 0 = false :=
    lt_zero_of_nonnegOrNan _ (by simp only [ValL.nonnegOrNan, decide_eq_true_eq]; exact hYpos)
  rw [g1, g2]
  simp only [Bool.or_self, Bool.false_eq_true, if_false, Val.mul_fin, zero_mul]

/-- **legacy_nan_not_listed**: a comparison whose p-value is NaN is never listed -/
theorem legacy_nan_not_listed (ev : Out → Val) (alpha : Rat) (ol : Bool) (n : Nat) (P T : Nat → Nat → Out)
    (a b : Nat) (ha : a < n) (hp : ev (P a b) = .nan) : b ∉ cellL (idxOf ev alpha ol n P T) a := by
  rw [legacy_indices_def _ _ _ _ _ _ _ _ ha]
  rintro ⟨_, h, _⟩
  rw [hp] at h; simp [Val.lt] at h

/-- **legacy_no_values_raises**: the scale-mean index sets raise (TypeError) exactly when there are
    columns but no displayed row carries a numeric value; without columns the result is empty -/
theorem legacy_no_values_raises (ev : Out → Val) (alpha : Rat) (ol : Bool) (x : LegIn) :
    (scaleMeanIdx ev alpha ol x = .error .typeError ↔ (x.ncols ≠ 0 ∧ x.hasValues = false))
    ∧ (x.ncols = 0 → scaleMeanIdx ev alpha ol x = .ok [])
    ∧ (x.ncols ≠ 0 → x.hasValues = true →
        scaleMeanIdx ev alpha ol x = .ok (idxOf ev alpha ol x.ncols x.pScale x.tScale)) := by
  unfold scaleMeanIdx
  refine ⟨?_, ?_, ?_⟩
  · by_cases hn : x.ncols = 0
    · simp [hn]
    · cases hv : x.hasValues <;> simp [hn]
  · intro hn; simp [hn]
  · intro hn hv; simp [hn, hv]

/-- **legacy_summary_no_columns_raises**: the summary index sets raise (IndexError) exactly on a
    slice without displayed columns -/
theorem legacy_summary_no_columns_raises (ev : Out → Val) (alpha : Rat) (ol : Bool) (x : LegIn) :
    (summaryIdx ev alpha ol x = .error .indexError ↔ x.ncols = 0)
    ∧ (x.ncols ≠ 0 → summaryIdx ev alpha ol x = .ok (idxOf ev alpha ol x.ncols x.summaryP x.summaryT)) := by
  unfold summaryIdx
  constructor
  · by_cases hn : x.ncols = 0 <;> simp [hn]
  · intro hn; simp [hn]

/-! ### summary test (column margin proportions) -/

/-- **legacy_summary_t_def**: the summary statistic is C13's column-test formula on the margin
    proportions p_x = unweighted column base / table margin, both with n = the (weighted) table
    margin; its p-value has base_a + base_b − 2 degrees of freedom (unweighted column bases) -/
theorem legacy_summary_t_def (x : LegIn) (a b : Nat) :
    x.summaryT a b = PairwiseSpec.tFormula (x.mprop a) x.tableMargin (x.mprop b) x.tableMargin
    ∧ x.summaryT a b = tSummarySpec (x.mprop a) (x.mprop b) x.tableMargin
    ∧ x.summaryP a b = PairwiseSpec.pFormula (x.summaryT a b) (x.colsBase.getD a .nan) (x.colsBase.getD b .nan) := by
  refine ⟨?_, ?_, ?_⟩
  · unfold LegIn.summaryT PairwiseSpec.tFormula LegIn.mvar
    rw [ValL.add_comm']
  · unfold LegIn.summaryT tSummarySpec LegIn.mvar
    rw [ValL.add_comm']
  · unfold LegIn.summaryP PairwiseSpec.pFormula LegIn.summaryDf
    rw [ValL.add_comm' (x.colsBase.getD b .nan)]

/-- **legacy_summary_antisymmetric_term**: numerators opposite, same D -/
theorem legacy_summary_antisymmetric_term (x : LegIn) (a b : Nat) :
    ∃ num D, x.summaryT a b = .divSqrt num D ∧ x.summaryT b a = .divSqrt (-num) D := by
  refine ⟨x.mprop b - x.mprop a, x.mvar b + x.mvar a, rfl, ?_⟩
  unfold LegIn.summaryT
  rw [ValL.sub_eq_neg_sub (x.mprop b) (x.mprop a), ValL.add_comm' (x.mvar a)]

/-- **legacy_summary_df_symmetric** -/
theorem legacy_summary_df_symmetric (x : LegIn) (a b : Nat) : x.summaryDf a b = x.summaryDf b a := by
  unfold LegIn.summaryDf
  rw [ValL.add_comm']

/-- **legacy_tests_use_defaults**: `pairwise_significance_tests` ignores the transforms: its summary
    sets are those the slice reports for an absent alpha and an absent only_larger flag -/
theorem legacy_tests_use_defaults (ev : Out → Val) (x : LegIn) (hn : x.ncols ≠ 0) :
    sliceSummaryIdx ev .falsy .absent x = .ok (testsSummaryIdx ev x)
    ∧ sliceScaleIdx ev .falsy .absent x = testsScaleIdx ev x := by
  constructor
  · simp [sliceSummaryIdx, alphaOf, alphaValues, summaryIdx, hn, testsSummaryIdx, onlyLarger, defaultAlpha]
  · simp [sliceScaleIdx, alphaOf, alphaValues, testsScaleIdx, onlyLarger, defaultAlpha]

/-! ### rows shown (C05) -/

/-- **legacy_rows_hidden_partial**: which rows are shown does not touch the scale means, the column
    bases, the table margin – hence not the summary test; and showing every valid row IS the
    repaired reading -/
theorem legacy_rows_hidden_partial (x : FullIn) (ro ro' co : List Int) (a b : Nat) :
    (x.display ro co).mean a = (x.display ro' co).mean a
    ∧ (x.display ro co).summaryT a b = (x.display ro' co).summaryT a b
    ∧ (x.display ro co).summaryP a b = (x.display ro' co).summaryP a b
    ∧ x.display x.allRows co = x.displayFixed co := ⟨rfl, rfl, rfl, rfl⟩

/-- the slice of the counterexample: values 1, 2 on two rows, counts [[1, 1], [1, 2]] -/
def hiddenRowWitness : FullIn :=
  { nr := 2, nc := 2, counts := [[.fin 1, .fin 1], [.fin 1, .fin 2]], rowValues := [.fin 1, .fin 2]
    ucolsBase := [.fin 2, .fin 3], tableMargin := .fin 5, rowSubs := [], colSubs := [] }

/-- **legacy_hidden_row_counterexample**: as found, hiding the second (numeric-valued) row changes
    the valued counts and the degrees of freedom of the scale-mean test (2, 3 and 3 become 1, 1
    and 0) while the scale means keep counting it – contradicting C05 ("hiding changes no value,
    hidden elements still count") -/
theorem legacy_hidden_row_counterexample :
    (hiddenRowWitness.display [0, 1] [0, 1]).n 0 = .fin 2
    ∧ (hiddenRowWitness.display [0] [0, 1]).n 0 = .fin 1
    ∧ (hiddenRowWitness.display [0, 1] [0, 1]).dfScale 0 1 = .fin 3
    ∧ (hiddenRowWitness.display [0] [0, 1]).dfScale 0 1 = .fin 0
    ∧ (hiddenRowWitness.display [0, 1] [0, 1]).mean 0 = (hiddenRowWitness.display [0] [0, 1]).mean 0 := by
  refine ⟨?_, ?_, ?_, ?_, rfl⟩ <;> decide +kernel

/-! ### non-vacuity -/

/-- hypotheses of `legacy_t_eq_spec`: n = 6, 7 and variances 6/25, 2 -/
example : ValL.nonnegOrNan (pooledVar (.fin 6) (.fin (6 / 25)) (.fin 7) (.fin 2)) = true
    ∧ ValL.nonnegOrNan (invSum (.fin 6) (.fin 7)) = true := by
  unfold pooledVar invSum
  simp only [ValL.one_val, ValL.two_val', ValL.sub_fin', Val.mul_fin, Val.add_fin]
  rw [ValL.fin_div_fin _ _ (by norm_num), ValL.fin_div_fin _ _ (by norm_num), ValL.fin_div_fin _ _ (by norm_num)]
  simp only [Val.add_fin, ValL.nonnegOrNan, decide_eq_true_eq]
  constructor <;> norm_num

/-- hypotheses of `legacy_pooled_eq_unpooled_equal_n` / `legacy_zero_variance` -/
example : (6 : Rat) ≠ 0 ∧ (6 : Rat) ≠ 1 ∧ (0 : Rat) < 6 ∧ (0 : Rat) < 7 ∧ (6 : Rat) + 7 ≠ 2 := by norm_num

/-- hypothesis of `legacy_self_p_one`: n = 6 gives 10 degrees of freedom -/
example : dfPooled (.fin 6) (.fin 6) = .fin 10 := by
  unfold dfPooled
  simp only [ValL.two_val', ValL.sub_fin', Val.add_fin]
  congr 1; norm_num

/-- hypotheses of `legacy_never_self` / `legacy_nan_not_listed` with a concrete evaluator -/
example : let ev : Out → Val := fun o => match o with | .v x => x | _ => .nan
    (ev (.v (.fin 1)) = .fin 1 ∨ ev (.v (.fin 1)) = .nan) ∧ ev (.sqrt (.fin 2)) = .nan := by
  intro ev; exact ⟨Or.inl rfl, rfl⟩

/-- hypotheses of `legacy_slice_alt_superset`: two thresholds, one column, one valued row -/
example : let x : LegIn := { values := [.fin 1], counts := [[.fin 2]], means := [.fin 1], colsBase := [.fin 2],
                             tableMargin := .fin 2, ncols := 1 }
    let ev : Out → Val := fun _ => .nan
    sliceScaleIdx ev (.list [.float (1 / 10), .float (1 / 100)]) .absent x = .ok [[]]
    ∧ sliceScaleIdxAlt ev (.list [.float (1 / 10), .float (1 / 100)]) .absent x = .ok (some [[]]) := by
  intro x ev
  constructor <;> decide +kernel

/-- a position map as in `legacy_indices_follow_columns`: arrangement 2 = columns [−1, 0] of
    arrangement 1 = [0, 1, −1] (base column 1 hidden, the inserted column moved first) -/
example : let co₁ : List Int := [0, 1, -1]; let co₂ : List Int := [-1, 0]
    let σ : Nat → Nat := fun k => if k = 0 then 2 else 0
    ∀ k, k < co₂.length → σ k < co₁.length ∧ co₂.getD k 0 = co₁.getD (σ k) 0 := by
  intro co₁ co₂ σ k hk
  have : k = 0 ∨ k = 1 := by simp [co₂] at hk; omega
  rcases this with rfl | rfl <;> simp [σ, co₁, co₂]

/-- hypothesis of `legacy_zero_count_variance`: an empty displayed column -/
example : let x : LegIn := { values := [.fin 1], counts := [[.fin 0]], means := [.nan], colsBase := [.fin 0],
                             tableMargin := .fin 0, ncols := 1 }
    x.n 0 = .fin 0 := by
  intro x; decide +kernel

end CrCube.C13
