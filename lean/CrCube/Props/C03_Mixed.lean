/-
  C03 — regular subtotals that stand next to difference subtotals.

  On a categorical-date dimension the subtotal block of the proportions goes through
  `WaveDiffSubtotals` (stripe) / `WaveDiffSubtotal` (matrix), which treats every subtotal of the list.
  These theorems say that, in the model, a subtotal WITHOUT subtrahends keeps "count over base"
  whatever else is in the list and wherever it is listed: the wave-difference rule touches only the
  subtotals that are differences.  (What a difference reads is C04's `wave_diff_*`.)
  Property theorems only.
-/
import CrCube.Model.SubtotalMeasures

namespace CrCube.C03
open CrCube

/-- subtracting the empty sum changes nothing, for every value incl. NaN / ±inf -/
theorem sub_emptySum (x : Val) (f : Nat → Val) : x - sumAt [] f = x := by
  cases x <;> simp [sumAt, Val.sum, HSub.hSub, Sub.sub, Val.sub, Val.neg, Val.add, Rat.add_zero]

/-- `WaveDiffSubtotals._subtotal_value`: a subtotal that is not a difference keeps its default,
    on every dimension type. -/
theorem waveVal_regular (bases counts : Nat → Val) (catDate : Bool) (s : Subtotal) (default : Val)
    (hreg : s.subtrahendIdxs = []) :
    Stripe.waveVal bases counts catDate s default = default := by
  simp [Stripe.waveVal, Subtotal.isDiff, hreg]

/-- **strand, regular subtotal: table proportion = (sum of the addends' counts) / table base**,
    whatever the other subtotals of the list are (differences included), on categorical and
    categorical-date dimensions alike. -/
theorem strand_regular_subtotal_prop (c : StripeCounts) (t : Val) (ht : c.tableBase = some t)
    (catDate : Bool) (subs : List Subtotal) (k : Nat)
    (hreg : (subAt subs k).subtrahendIdxs = []) :
    (StripeMsr.tableProportions c catDate subs).subs k
      = sumAt (subAt subs k).addendIdxs c.counts / t := by
  simp only [StripeMsr.tableProportions, ht]
  rw [waveVal_regular _ _ _ _ _ hreg, Stripe.sumVal, hreg, sub_emptySum]

/-- the value of a subtotal depends on that subtotal only: not on its position in the list, nor on
    its neighbours (two lists, two positions, the same subtotal ↦ the same value). -/
theorem strand_regular_subtotal_order_free (c : StripeCounts) (catDate : Bool)
    (subs subs' : List Subtotal) (k k' : Nat) (h : subAt subs k = subAt subs' k') :
    (StripeMsr.tableProportions c catDate subs).subs k
      = (StripeMsr.tableProportions c catDate subs').subs k' := by
  simp only [StripeMsr.tableProportions, h]

/-- matrix twin, rows: a regular subtotal row keeps its default vector -/
theorem waveRow_regular (bases counts : Nat → Nat → Val) (catDate : Bool) (s : Subtotal)
    (default : Nat → Val) (j : Nat) (hreg : s.subtrahendIdxs = []) :
    WaveDiff.row bases counts catDate s default j = default j := by
  simp [WaveDiff.row, Subtotal.isDiff, hreg]

/-- matrix twin, columns -/
theorem waveCol_regular (bases counts : Nat → Nat → Val) (catDate : Bool) (s : Subtotal)
    (default : Nat → Val) (i : Nat) (hreg : s.subtrahendIdxs = []) :
    WaveDiff.col bases counts catDate s default i = default i := by
  simp [WaveDiff.col, Subtotal.isDiff, hreg]

/-! non-vacuity / samples: a regular subtotal listed BEFORE a wave difference on a date stripe -/

private def demo : StripeCounts :=
  { n := 3, counts := fun i => .fin ([3, 5, 8].getD i 0), bases := fun _ => .fin 16,
    tableBase := some (.fin 16), pruningBase := fun _ => .fin 16 }

example : (subAt [⟨[0, 1], []⟩, ⟨[2], [1]⟩] 0).subtrahendIdxs = [] := by decide
example : (StripeMsr.tableProportions demo true [⟨[0, 1], []⟩, ⟨[2], [1]⟩]).subs 0 = .fin (1 / 2) := by
  rw [strand_regular_subtotal_prop demo (.fin 16) rfl true _ 0 (by decide)]; decide +kernel
example : (StripeMsr.tableProportions demo true [⟨[0, 1], []⟩, ⟨[2], [1]⟩]).subs 1 = .fin (3 / 16) := by
  decide +kernel

end CrCube.C03
