/-
  C09 (metadata part) — "explicitly hidden" and "the insertion itself is flagged hidden".

  `Dimension.hidden_idxs` (the explicit-hide input of every collator, `_BaseCollator._hidden_idxs`) lists
  EXACTLY the valid positions whose transforms entry says `hide: true` (the JSON bool, no other truthy
  value); an insertion dict flagged `hide: true` never becomes a subtotal (no label, code, alias, fill),
  and a subtotal dict that IS reported is not flagged.  The order-level "absent iff hidden or pruned" is
  `C07.visible_iff` / `C08.…` over this hidden set.
-/
import CrCube.Model.Meta
import CrCube.Spec.MetaSpec
import CrCube.Lemmas.Meta
import CrCube.Props.C05_Meta

namespace CrCube.C09
open CrCube CrCube.Glue CrCube.Meta CrCube.MetaSpec CrCube.MetaL

theorem mem_trueIdxs (fl : List Bool) (p : Nat) : p ∈ trueIdxs fl ↔ fl[p]? = some true := by
  unfold trueIdxs
  simp only [List.mem_map, List.mem_filter]
  constructor
  · rintro ⟨⟨b, i⟩, ⟨hm, hb⟩, rfl⟩
    have := List.mem_zipIdx_iff_getElem?.mp hm
    simp at hb
    simpa [hb] using this
  · intro h
    exact ⟨(true, p), ⟨List.mem_zipIdx_iff_getElem?.mpr (by simpa using h), rfl⟩, rfl⟩

theorem forall₂_getElem? {α β : Type} {R : α → β → Prop} {l : List α} {r : List β}
    (h : List.Forall₂ R l r) (i : Nat) :
    (∀ a, l[i]? = some a → ∃ b, r[i]? = some b ∧ R a b) ∧
    (∀ b, r[i]? = some b → ∃ a, l[i]? = some a ∧ R a b) := by
  induction h generalizing i with
  | nil => simp
  | cons hab _ ih =>
    cases i with
    | zero => simp; exact hab
    | succ i => simpa using ih i

/-- **hidden_idxs = exactly the valid positions whose transforms say `hide: true`.**
    (`ps` = the valid elements with their transforms entries; the flag is read with `MetaSpec.hidden`:
    the JSON value `true`, nothing else.) -/
theorem hidden_idxs_exact (x : Glue.Dim) (t : DimXf) (ps : List (J × J)) (l : List Nat)
    (hp : validPairs x t = .ok ps) (hl : hiddenIdxs x t = .ok l) (p : Nat) :
    p ∈ l ↔ ∃ e xk, ps[p]? = some (e, .obj xk) ∧ MetaSpec.hidden (.obj xk) = true := by
  unfold hiddenIdxs hiddenFlags at hl
  simp only [hp, bind, Except.bind] at hl
  cases hf : mapR (fun p => elemHidden p.2) ps with
  | error e => simp [hf] at hl
  | ok fl =>
    simp only [hf, pure, Except.pure] at hl
    injection hl with hl
    subst hl
    rw [mem_trueIdxs]
    have h2 := (mapR_ok_iff _ _ _).mp hf
    obtain ⟨h2a, h2b⟩ := forall₂_getElem? h2 p
    constructor
    · intro hfl
      obtain ⟨⟨e, xf⟩, hps, hh⟩ := h2b true hfl
      cases xf with
      | obj xk =>
        refine ⟨e, xk, hps, ?_⟩
        have := (C05.hidden_cascade xk).2
        simp only at hh
        rw [this] at hh
        injection hh
      | _ => simp [elemHidden, xfHide, Glue.get, bind, Except.bind] at hh
    · rintro ⟨e, xk, hps, hh⟩
      obtain ⟨b, hb, hb2⟩ := h2a (e, .obj xk) hps
      simp only at hb2
      rw [(C05.hidden_cascade xk).2, hh] at hb2
      injection hb2 with hb2
      rw [hb, hb2]

/-- an insertion dict flagged `hide: true` fails the gauntlet whatever else it says -/
theorem hidden_insertion_dropped (ids : List Collator.Eid) (kvs : List (String × J)) (r : Collator.RawIns)
    (hh : MetaSpec.insertionHidden (.obj kvs) = true) (hr : decodeIns (.obj kvs) = .ok r) :
    r.valid ids = false := by
  unfold decodeIns at hr
  cases hq : insParts kvs with
  | error e => simp [hq, bind, Except.bind] at hr
  | ok q =>
    simp only [hq, bind, Except.bind, pure, Except.pure] at hr
    injection hr with hr
    subst hr
    have : insHideFlag kvs = true := by
      unfold MetaSpec.insertionHidden MetaSpec.given at hh
      unfold insHideFlag
      exact hh
    simp [Collator.RawIns.valid, this]

/-- only `hide: true` (the bool) hides an insertion: any other value leaves the flag off -/
theorem insertion_hide_flag (kvs : List (String × J)) :
    insHideFlag kvs = MetaSpec.insertionHidden (.obj kvs) := rfl

theorem mapR_zip_mem {α β : Type} {f : α → R β} {l : List α} {r : List β} (h : mapR f l = .ok r)
    {a : α} {b : β} (hm : (a, b) ∈ l.zip r) : f a = .ok b := by
  have h2 := (mapR_ok_iff f l r).mp h
  clear h
  induction h2 with
  | nil => simp at hm
  | cons hab _ ih =>
    simp only [List.zip_cons_cons, List.mem_cons, Prod.mk.injEq] at hm
    rcases hm with ⟨rfl, rfl⟩ | hm
    · exact hab
    · exact ih hm

/-- every subtotal that IS reported (label, code, alias, fill) comes from an insertion DICT that is not
    flagged hidden -/
theorem reported_subtotals_not_hidden (x : Glue.Dim) (t : DimXf) (l : List (J × Option Int))
    (h : subtotalDicts x t = .ok l) (p : J × Option Int) (hp : p ∈ l) :
    ∃ kvs, p.1 = .obj kvs ∧ MetaSpec.insertionHidden (.obj kvs) = false := by
  unfold subtotalDicts at h
  cases hs : insertionSource x t with
  | error e => simp [hs, bind, Except.bind] at h
  | ok src =>
    cases src with
    | none =>
      simp only [hs, bind, Except.bind, pure, Except.pure] at h
      injection h with h; subst h; simp at hp
    | some sf =>
      obtain ⟨ins, fromView⟩ := sf
      simp only [hs, bind, Except.bind] at h
      cases h1 : elementIds x t with
      | error e => simp [h1] at h
      | ok ej =>
        simp only [h1] at h
        cases h2 : mapR eidOfJ ej with
        | error e => simp [h2] at h
        | ok ids =>
          simp only [h2] at h
          cases h3 : iter ins with
          | error e => simp [h3] at h
          | ok dicts =>
            simp only [h3] at h
            cases h4 : mapR decodeIns dicts with
            | error e => simp [h4] at h
            | ok raws =>
              simp only [h4, pure, Except.pure] at h
              injection h with h
              subst h
              have hp1 : p.1 ∈ ((dicts.zip raws).filter (fun q => q.2.valid ids)).map (·.1) := by
                have := List.of_mem_zip hp
                exact this.1
              simp only [List.mem_map, List.mem_filter] at hp1
              obtain ⟨⟨d, r⟩, ⟨hm, hv⟩, hd⟩ := hp1
              simp only at hd hv
              have hdec := mapR_zip_mem h4 hm
              rw [← hd]
              cases d with
              | obj kvs =>
                refine ⟨kvs, rfl, ?_⟩
                cases hflag : MetaSpec.insertionHidden (.obj kvs) with
                | false => rfl
                | true =>
                  have := hidden_insertion_dropped ids kvs r hflag hdec
                  rw [this] at hv
                  cases hv
              | _ =>
                all_goals (
                  simp only [decodeIns, pure, Except.pure] at hdec
                  injection hdec with hdec
                  subst hdec
                  simp [Collator.RawIns.valid] at hv)

/-! ### non-vacuity -/

example : MetaSpec.insertionHidden (.obj [("function", .str "subtotal"), ("hide", .bool true)]) = true := rfl
example : MetaSpec.insertionHidden (.obj [("function", .str "subtotal"), ("hide", .num 1)]) = false := rfl
example : MetaSpec.hidden (.obj [("hide", .bool true)]) = true ∧ MetaSpec.hidden (.obj [("hide", .str "true")]) = false :=
  ⟨rfl, rfl⟩
example : (decodeIns (.obj [("function", .str "subtotal"), ("hide", .bool true), ("anchor", .str "top"),
    ("name", .str "S"), ("args", .arr [.num 1])])).toOption.map (·.hide) = some true := rfl

end CrCube.C09
