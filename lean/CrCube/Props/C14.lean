/-
  C14 — scale mean / median / standard deviation / standard error from category numeric values.

  Setting of every theorem: a vector (row, column, subtotal row/column) counts the respondents
  `rs`; each respondent has a weight and a category position `cat` on the opposing dimension,
  whose categories carry optional numeric values `vals`.  The library sees only the tabulated
  counts `countsOf vals.length rs` (C01) and the vector's weighted base `margin rs`; the
  theorems say that what the model computes from those equals the respondent-level statistic.
-/
import CrCube.Model.Scale
import CrCube.Spec.ScaleSpec
import CrCube.Lemmas.ScaleAlg
import CrCube.Lemmas.ScaleTab
import CrCube.Lemmas.Median
import CrCube.Lemmas.MedianTab
import Mathlib.Data.Rat.Floor

namespace CrCube.C14
open CrCube CrCube.Scale CrCube.ScaleSpec CrCube.ScaleLemmas CrCube.MedianLemmas

/-- `np.array(dimension.numeric_values)`: None ↦ NaN -/
def valuesV (vals : List (Option Rat)) : List Val := vals.map optVal
/-- the vector's weighted counts per opposing category (the tabulation) -/
def countsV (vals : List (Option Rat)) (rs : List SResp) : List Val := (countsOf vals.length rs).map Val.fin
/-- the vector's weighted base, broadcast over the opposing categories -/
def basesV (vals : List (Option Rat)) (rs : List SResp) : List Val :=
  List.replicate vals.length (Val.fin (margin rs))

/-- what the model computes for the vector -/
def theVec (vals : List (Option Rat)) (rs : List SResp) : VecStats :=
  vecStats (valuesV vals) (countsV vals rs) (basesV vals rs) (countsV vals rs) (Val.fin (margin rs))

/-- hypotheses: non-negative weights, category positions within range -/
structure Ok (vals : List (Option Rat)) (rs : List SResp) : Prop where
  wnn : ∀ r ∈ rs, 0 ≤ r.w
  inRange : ∀ r ∈ rs, r.cat < vals.length

theorem zipWith_replicate {α β γ : Type} (f : α → β → γ) (l : List α) (b : β) :
    List.zipWith f l (List.replicate l.length b) = l.map (fun a => f a b) := by
  induction l with
  | nil => rfl
  | cons x xs ih => simp [List.replicate_succ, ih]

theorem props_eq (vals : List (Option Rat)) (rs : List SResp) :
    proportions (countsV vals rs) (basesV vals rs)
      = (catsOf vals rs).map (fun x => Val.fin x.2 / Val.fin (margin rs)) := by
  unfold proportions countsV basesV
  rw [← countsOfCats_catsOf vals rs]
  have hl : (countsOfCats (catsOf vals rs)).length = vals.length := by
    simp [countsOfCats, length_catsOf]
  rw [← hl, zipWith_replicate]
  simp [countsOfCats, List.map_map, Function.comp]

theorem weights_zero_of_margin_zero (rs : List SResp) (h : ∀ r ∈ rs, 0 ≤ r.w) (hm : margin rs = 0) :
    ∀ r ∈ rs, r.w = 0 := by
  intro r hr
  have hnn : ∀ x ∈ rs.map (·.w), 0 ≤ x := by
    intro x hx
    simp only [List.mem_map] at hx
    obtain ⟨r', hr', rfl⟩ := hx
    exact h r' hr'
  exact pw_sum_eq_zero hnn hm r.w (List.mem_map_of_mem hr)

theorem countOf_zero_of_weights_zero (rs : List SResp) (h : ∀ r ∈ rs, r.w = 0) (k : Nat) :
    countOf rs k = 0 := by
  unfold countOf
  have : (rs.filter (fun r => r.cat == k)).map (·.w) = (rs.filter (fun r => r.cat == k)).map (fun _ => (0 : Rat)) := by
    apply List.map_congr_left
    intro r hr
    exact h r (List.mem_filter.mp hr).1
  rw [this]; simp

theorem sumW_zero_of_weights_zero (vals : List (Option Rat)) (rs : List SResp) (h : ∀ r ∈ rs, r.w = 0) :
    sumW (valued vals rs) = 0 := by
  unfold sumW
  have : (valued vals rs).map (·.1) = (valued vals rs).map (fun _ => (0 : Rat)) := by
    apply List.map_congr_left
    intro p hp
    simp only [valued, List.mem_filterMap] at hp
    obtain ⟨r, hr, hrp⟩ := hp
    cases hv : valOf vals r.cat with
    | none => simp [hv] at hrp
    | some v => simp [hv] at hrp; rw [← hrp]; exact h r hr
  rw [this]; simp

/-- **scale mean = weighted mean of the respondents' numeric values** (NaN without valued respondents) -/
theorem scale_mean_spec (vals : List (Option Rat)) (rs : List SResp) (ok : Ok vals rs) :
    (theVec vals rs).mean = ScaleSpec.mean (valued vals rs) := by
  show weightedMean (proportions (countsV vals rs) (basesV vals rs)) (valuesV vals) = _
  rw [props_eq, show valuesV vals = valuesOf (catsOf vals rs) from (valuesOf_catsOf vals rs).symm]
  by_cases hm : margin rs = 0
  · have hw := weights_zero_of_margin_zero rs ok.wnn hm
    rw [hm, weightedMean_cats_zero]
    · unfold ScaleSpec.mean
      rw [if_pos (sumW_zero_of_weights_zero vals rs hw)]
    · intro x hx
      simp only [catsOf, List.mem_map] at hx
      obtain ⟨k, _, rfl⟩ := hx
      exact countOf_zero_of_weights_zero rs hw k
  · rw [weightedMean_cats _ _ hm (catsOf_nonneg vals rs ok.wnn)]
    rw [S0_catsOf vals rs ok.inRange, S1_catsOf vals rs ok.inRange]
    rfl

theorem variance_spec (vals : List (Option Rat)) (rs : List SResp) (ok : Ok vals rs) :
    variance (countsV vals rs) (valuesV vals) (ScaleSpec.mean (valued vals rs)) = ScaleSpec.var (valued vals rs) := by
  rw [show valuesV vals = valuesOf (catsOf vals rs) from (valuesOf_catsOf vals rs).symm,
      show countsV vals rs = countsOfCats (catsOf vals rs) from (countsOfCats_catsOf vals rs).symm]
  unfold ScaleSpec.mean ScaleSpec.var
  by_cases h0 : sumW (valued vals rs) = 0
  · rw [if_pos h0, if_pos h0]
    exact variance_cats_nan _ (by rw [S0_catsOf vals rs ok.inRange]; exact h0)
  · rw [if_neg h0, if_neg h0]
    rw [variance_cats _ _ (by rw [S0_catsOf vals rs ok.inRange]; exact h0)]
    rw [S2_catsOf vals rs _ ok.inRange, S0_catsOf vals rs ok.inRange]
    rfl

/-- **scale std-dev = population standard deviation of the respondents' numeric values** -/
theorem scale_std_spec (vals : List (Option Rat)) (rs : List SResp) (ok : Ok vals rs) :
    (theVec vals rs).stddev = ScaleSpec.stddev (valued vals rs) := by
  show SOut.sqrt (variance (countsV vals rs) (valuesV vals) (theVec vals rs).mean) = _
  rw [scale_mean_spec vals rs ok, variance_spec vals rs ok]
  rfl

/-- **scale std-err = that deviation over the square root of the vector's weighted margin** -/
theorem scale_stderr_def (vals : List (Option Rat)) (rs : List SResp) (ok : Ok vals rs) :
    (theVec vals rs).stderr = ScaleSpec.stderr (valued vals rs) (margin rs) := by
  show SOut.sqrtDivSqrt (variance (countsV vals rs) (valuesV vals) (theVec vals rs).mean) _ = _
  rw [scale_mean_spec vals rs ok, variance_spec vals rs ok]
  rfl

/-! ### median -/

def leN (p q : VN) : Bool := decide (p.1 ≤ q.1)

theorem leN_trans : ∀ a b c : VN, leN a b = true → leN b c = true → leN a c = true := by
  intro a b c hab hbc
  simp only [leN, decide_eq_true_eq] at *
  exact le_trans hab hbc

theorem leN_total : ∀ a b : VN, (leN a b || leN b a) = true := by
  intro a b
  simp only [leN, Bool.or_eq_true, decide_eq_true_eq]
  exact le_total _ _

theorem sortedPairs_unit (vals : List (Option Rat)) (rs : List SResp) (hu : ∀ r ∈ rs, r.w = 1) :
    sortedPairs (valuesV vals) (countsV vals rs) = ((valuedN vals rs).mergeSort leN).map enc := by
  unfold sortedPairs
  rw [show valuesV vals = valuesOf (catsOf vals rs) from (valuesOf_catsOf vals rs).symm,
      show countsV vals rs = countsOfCats (catsOf vals rs) from (countsOfCats_catsOf vals rs).symm,
      valuedPairs_counts, valuedQ_catsOf_unit vals rs hu, List.map_map]
  have : ((fun p : Rat × Rat => (Val.fin p.1, Val.fin p.2)) ∘ fun p : VN => (p.1, ((p.2 : Nat) : Rat))) = enc := by
    funext p; rfl
  rw [this]
  symm
  apply List.map_mergeSort
  intro a _ b _
  rfl

/-- median of the repaired scan on pairs sorted by value -/
theorem weightedMedian_sorted (L : List VN) (hs : L.Pairwise (fun p q => p.1 ≤ q.1))
    (xs : List Rat) (hp : (expandN L).Perm xs) :
    weightedMedian (L.map enc) = ScaleSpec.median xs := by
  rw [weightedMedian_nat]
  have hE := mergeSort_eq_of_sorted_perm xs (expandN L) (expandN_sorted L hs) hp
  unfold ScaleSpec.median
  simp only [hE, length_expandN]
  by_cases h0 : totalN L = 0
  · simp [h0]
  · rw [if_neg h0, if_neg h0]
    unfold medFrom
    simp

/-- **scale median (integer counts) = median of the respondents' numeric values** -/
theorem scale_median_spec (vals : List (Option Rat)) (rs : List SResp)
    (hr : ∀ r ∈ rs, r.cat < vals.length) (hu : ∀ r ∈ rs, r.w = 1) :
    (theVec vals rs).median = ScaleSpec.median (respValues vals rs) := by
  show weightedMedian (sortedPairs (valuesV vals) (countsV vals rs)) = _
  rw [sortedPairs_unit vals rs hu]
  apply weightedMedian_sorted
  · have := List.pairwise_mergeSort leN_trans leN_total (valuedN vals rs)
    exact this.imp (by intro a b h; simpa [leN] using h)
  · exact (expandN_perm (List.mergeSort_perm _ _)).trans (expand_valuedN_perm vals rs hr)

/-- the repaired median does not depend on how ties between equal values are ordered -/
theorem median_order_irrelevant (l₁ l₂ : List VN) (hp : l₁.Perm l₂)
    (h₁ : l₁.Pairwise (fun p q => p.1 ≤ q.1)) (h₂ : l₂.Pairwise (fun p q => p.1 ≤ q.1)) :
    weightedMedian (l₁.map enc) = weightedMedian (l₂.map enc) := by
  rw [weightedMedian_sorted l₁ h₁ (expandN l₁) (List.Perm.refl _),
      weightedMedian_sorted l₂ h₂ (expandN l₁) (expandN_perm hp.symm)]


/-- the code AS FOUND (before repair F6) is refuted: counts [2,0,2] on values [1,2,3] give 3/2,
    while the four respondents' values 1,1,3,3 have median 2 -/
theorem old_median_counterexample :
    weightedMedianOld ([(1, 2), (2, 0), (3, 2)].map enc) = Val.fin (3 / 2)
    ∧ ScaleSpec.median [1, 1, 3, 3] = Val.fin 2
    ∧ weightedMedian ([(1, 2), (2, 0), (3, 2)].map enc) = Val.fin 2 := by
  refine ⟨?_, ?_, ?_⟩
  · simp only [weightedMedianOld, numPairs, List.map_cons, List.map_nil, enc, nanToNum, List.sum_cons,
      List.sum_nil, medianGoOld]
    norm_num
    rw [two_val, ValL.fin_div_fin _ _ (by norm_num)]
  · have hs : ([1, 1, 3, 3] : List Rat).Pairwise (· ≤ ·) := by
      simp only [List.pairwise_cons, List.mem_cons, List.not_mem_nil, or_false, List.Pairwise.nil, and_true]
      norm_num
    have := mergeSort_eq_of_sorted_perm [1, 1, 3, 3] [1, 1, 3, 3] hs (List.Perm.refl _)
    unfold ScaleSpec.median
    simp only [this]
    norm_num
  · rw [weightedMedian_nat]
    simp only [totalN, expandN, medFrom, List.map_cons, List.map_nil, List.sum_cons, List.sum_nil,
      List.flatMap_cons, List.flatMap_nil]
    norm_num [List.replicate]

/-! ### absence -/

/-- **None iff no category carries a numeric value** (`is_defined` of the four marginals) -/
theorem none_iff_no_values (vals : List (Option Rat)) :
    isDefined (valuesV vals) = false ↔ ∀ o ∈ vals, o = none := by
  unfold isDefined valuesV
  rw [← Bool.not_eq_true, List.any_eq_true]
  constructor
  · intro h o ho
    cases o with
    | none => rfl
    | some q => exact absurd ⟨Val.fin q, List.mem_map.mpr ⟨some q, ho, rfl⟩, rfl⟩ h
  · rintro h ⟨v, hv, hh⟩
    obtain ⟨o, ho, rfl⟩ := List.mem_map.mp hv
    rw [h o ho] at hh
    simp at hh

/-- **NaN iff the vector has no numeric-valued respondents** (mean; positive weights) -/
theorem nan_iff_no_valued_respondents (vals : List (Option Rat)) (rs : List SResp) (ok : Ok vals rs) :
    (theVec vals rs).mean = Val.nan ↔ sumW (valued vals rs) = 0 := by
  rw [scale_mean_spec vals rs ok]
  unfold ScaleSpec.mean
  by_cases h : sumW (valued vals rs) = 0
  · simp [h]
  · simp [h]

/-- … and with unit weights, for the median: NaN iff no respondent carries a value -/
theorem median_nan_iff (vals : List (Option Rat)) (rs : List SResp)
    (hr : ∀ r ∈ rs, r.cat < vals.length) (hu : ∀ r ∈ rs, r.w = 1) :
    (theVec vals rs).median = Val.nan ↔ respValues vals rs = [] := by
  rw [scale_median_spec vals rs hr hu]
  unfold ScaleSpec.median
  have hlen : ((respValues vals rs).mergeSort (fun a b => decide (a ≤ b))).length = (respValues vals rs).length :=
    (List.mergeSort_perm _ _).length_eq
  simp only [hlen]
  by_cases h : (respValues vals rs).length = 0
  · simp [List.length_eq_zero_iff.mp h]
  · have hne : respValues vals rs ≠ [] := fun e => h (by rw [e]; rfl)
    rw [if_neg h]
    constructor
    · intro hh; split at hh <;> simp at hh
    · intro hh; exact absurd hh hne

/-- counts of a subtotal vector are the tabulated counts of the union of its members' respondents -/
theorem subtotal_counts (rs₁ rs₂ : List SResp) (k : Nat) :
    countOf (rs₁ ++ rs₂) k = countOf rs₁ k + countOf rs₂ k := by
  unfold countOf
  simp [List.filter_append, List.map_append, List.sum_append]


/-! ### strand (`_ScaledCounts`) -/

theorem valuedPairs_strand (vals : List (Option Rat)) (rs : List SResp) :
    valuedPairs (valuesV vals) (countsV vals rs)
      = (valuedQ (catsOf vals rs)).map (fun p => (Val.fin p.1, Val.fin p.2)) := by
  rw [show valuesV vals = valuesOf (catsOf vals rs) from (valuesOf_catsOf vals rs).symm,
      show countsV vals rs = countsOfCats (catsOf vals rs) from (countsOfCats_catsOf vals rs).symm,
      valuedPairs_counts]

theorem strand_total (vals : List (Option Rat)) (rs : List SResp) (hr : ∀ r ∈ rs, r.cat < vals.length) :
    Val.sum ((valuedPairs (valuesV vals) (countsV vals rs)).map (·.2)) = Val.fin (sumW (valued vals rs)) := by
  rw [valuedPairs_strand, List.map_map]
  have : ((fun p : Val × Val => p.2) ∘ fun p : Rat × Rat => (Val.fin p.1, Val.fin p.2)) = fun p => Val.fin p.2 := by
    funext p; rfl
  rw [this, ValL.sum_map_fin']
  congr 1
  exact S0_catsOf vals rs hr

theorem valuedQ_nil_sumW (vals : List (Option Rat)) (rs : List SResp) (hr : ∀ r ∈ rs, r.cat < vals.length)
    (h : valuedQ (catsOf vals rs) = []) : sumW (valued vals rs) = 0 := by
  rw [← S0_catsOf vals rs hr]; unfold S0; rw [h]; rfl

/-- **strand scale mean**: the respondents' weighted mean; None when no respondent carries a value
    (in particular when no category has one) -/
theorem strand_mean_spec (vals : List (Option Rat)) (rs : List SResp) (hr : ∀ r ∈ rs, r.cat < vals.length) :
    strandMean (valuesV vals) (countsV vals rs)
      = if sumW (valued vals rs) = 0 then none else some (Val.fin (meanQ (valued vals rs))) := by
  unfold strandMean
  simp only [strand_total vals rs hr]
  rw [valuedPairs_strand]
  by_cases hemp : valuedQ (catsOf vals rs) = []
  · rw [hemp, if_pos (valuedQ_nil_sumW vals rs hr hemp)]; rfl
  · have hne : ((valuedQ (catsOf vals rs)).map (fun p => (Val.fin p.1, Val.fin p.2))).isEmpty = false := by
      cases hq : valuedQ (catsOf vals rs) with
      | nil => exact absurd hq hemp
      | cons a as => rfl
    rw [hne]
    simp only [Bool.false_eq_true, if_false]
    by_cases h0 : sumW (valued vals rs) = 0
    · rw [if_pos h0, h0]; simp
    · rw [if_neg h0]
      have hb : (Val.fin (sumW (valued vals rs)) == Val.fin 0) = false := by
        simp [h0]
      rw [hb]
      simp only [Bool.false_eq_true, if_false, List.map_map]
      have : ((fun p : Val × Val => p.2 * p.1) ∘ fun p : Rat × Rat => (Val.fin p.1, Val.fin p.2))
          = fun p => Val.fin (p.2 * p.1) := by
        funext p; rfl
      rw [this, ValL.sum_map_fin', ValL.fin_div_fin _ _ h0]
      congr 2
      unfold meanQ
      congr 1
      rw [← S1_catsOf vals rs hr]
      unfold S1
      congr 1
      apply List.map_congr_left
      intro p _; ring

theorem strand_variance_spec (vals : List (Option Rat)) (rs : List SResp) (hr : ∀ r ∈ rs, r.cat < vals.length) :
    strandVariance (valuesV vals) (countsV vals rs)
      = if sumW (valued vals rs) = 0 then none else some (Val.fin (varQ (valued vals rs))) := by
  unfold strandVariance
  rw [strand_mean_spec vals rs hr]
  by_cases h0 : sumW (valued vals rs) = 0
  · simp [h0]
  · simp only [h0, if_false, strand_total vals rs hr]
    rw [valuedPairs_strand, List.map_map]
    have : ((fun p : Val × Val => p.2 * ((p.1 - Val.fin (meanQ (valued vals rs))) * (p.1 - Val.fin (meanQ (valued vals rs)))))
          ∘ fun p : Rat × Rat => (Val.fin p.1, Val.fin p.2))
        = fun p => Val.fin (p.2 * ((p.1 - meanQ (valued vals rs)) * (p.1 - meanQ (valued vals rs)))) := by
      funext p
      show Val.fin p.2 * ((Val.fin p.1 - Val.fin _) * (Val.fin p.1 - Val.fin _)) = _
      rw [ValL.sub_fin']; rfl
    rw [this, ValL.sum_map_fin', ValL.fin_div_fin _ _ h0]
    congr 2
    unfold varQ
    congr 1
    exact S2_catsOf vals rs _ hr

/-- **strand std-dev** = population standard deviation of the respondents' values, None without them -/
theorem strand_std_spec (vals : List (Option Rat)) (rs : List SResp) (hr : ∀ r ∈ rs, r.cat < vals.length) :
    (strandStats (valuesV vals) (countsV vals rs)).stddev
      = if sumW (valued vals rs) = 0 then SOut.none_ else ScaleSpec.stddev (valued vals rs) := by
  show (match strandVariance (valuesV vals) (countsV vals rs) with
        | none => SOut.none_ | some var => SOut.sqrt var) = _
  rw [strand_variance_spec vals rs hr]
  by_cases h0 : sumW (valued vals rs) = 0
  · simp [h0]
  · simp [h0, ScaleSpec.stddev, ScaleSpec.var]

/-- **strand std-err** = sqrt(variance / weighted count of numeric-valued respondents) -/
theorem strand_stderr_def (vals : List (Option Rat)) (rs : List SResp) (hr : ∀ r ∈ rs, r.cat < vals.length) :
    (strandStats (valuesV vals) (countsV vals rs)).stderr
      = if sumW (valued vals rs) = 0 then SOut.none_ else ScaleSpec.stderrStrand (valued vals rs) := by
  show (match strandVariance (valuesV vals) (countsV vals rs) with
        | none => SOut.none_
        | some var => SOut.sqrt (var / Val.sum ((valuedPairs (valuesV vals) (countsV vals rs)).map (fun p : Val × Val => p.2)))) = _
  rw [strand_variance_spec vals rs hr, strand_total vals rs hr]
  by_cases h0 : sumW (valued vals rs) = 0
  · simp [h0]
  · simp [h0, ScaleSpec.stderrStrand, ValL.fin_div_fin _ _ h0]

/-- **strand: None exactly when no respondent carries a numeric value** (mean) -/
theorem strand_none_iff (vals : List (Option Rat)) (rs : List SResp) (hr : ∀ r ∈ rs, r.cat < vals.length) :
    (strandStats (valuesV vals) (countsV vals rs)).mean = SOut.none_ ↔ sumW (valued vals rs) = 0 := by
  show optOut (strandMean (valuesV vals) (countsV vals rs)) = SOut.none_ ↔ _
  rw [strand_mean_spec vals rs hr]
  by_cases h0 : sumW (valued vals rs) = 0
  · simp [h0, optOut]
  · simp [h0, optOut]


/-! ### strand median -/

theorem expand_enc (l : List VN) : expand (l.map enc) = (expandN l).map Val.fin := by
  unfold expand expandN
  rw [List.flatMap_map, List.map_flatMap]
  apply List.flatMap_congr
  intro p _
  have : ((nanToNum (enc p).2).floor).toNat = p.2 := by
    show (((p.2 : Nat) : Rat).floor).toNat = p.2
    have h : ((p.2 : Nat) : Rat) = ((p.2 : Int) : Rat) := by push_cast; rfl
    rw [h, Rat.floor_intCast]; simp
  rw [this]
  simp [enc]

theorem getD_map_fin (S : List Rat) (i : Nat) (h : i < S.length) :
    (S.map Val.fin).getD i Val.nan = Val.fin (S.getD i 0) := by
  rw [List.getD_eq_getElem?_getD, List.getD_eq_getElem?_getD, List.getElem?_map,
    List.getElem?_eq_getElem h]
  rfl

/-- `np.median` of finite values is the median of the rationals -/
theorem medianOf_map_fin (E : List Rat) : medianOf (E.map Val.fin) = ScaleSpec.median E := by
  unfold medianOf ScaleSpec.median
  have hs : (E.map Val.fin).mergeSort (fun a b => Val.le a b)
      = (E.mergeSort (fun a b => decide (a ≤ b))).map Val.fin := by
    symm
    apply List.map_mergeSort
    intro a _ b _; rfl
  simp only [hs, List.length_map]
  set S := E.mergeSort (fun a b => decide (a ≤ b)) with hS
  by_cases h0 : S.length = 0
  · simp [h0]
  · rw [if_neg h0, if_neg h0]
    by_cases hodd : S.length % 2 = 1
    · rw [if_pos hodd, if_pos hodd, getD_map_fin S _ (by omega)]
    · rw [if_neg hodd, if_neg hodd, getD_map_fin S _ (by omega), getD_map_fin S _ (by omega)]
      rw [two_val, Val.add_fin, ValL.fin_div_fin _ _ (by norm_num)]

theorem median_perm {xs ys : List Rat} (h : xs.Perm ys) : ScaleSpec.median xs = ScaleSpec.median ys := by
  have hsorted : (xs.mergeSort (fun a b => decide (a ≤ b))).Pairwise (· ≤ ·) := by
    have := List.pairwise_mergeSort (le := fun a b : Rat => decide (a ≤ b))
      (by intro a b c hab hbc; simp only [decide_eq_true_eq] at *; exact le_trans hab hbc)
      (by intro a b; simp only [Bool.or_eq_true, decide_eq_true_eq]; exact le_total a b) xs
    exact this.imp (by intro a b h; simpa using h)
  have := mergeSort_eq_of_sorted_perm ys _ hsorted ((List.mergeSort_perm xs _).trans h)
  unfold ScaleSpec.median
  rw [this]

/-- **strand scale median (integer counts)** = median of the respondents' numeric values,
    None when no respondent carries one (repair F11) -/
theorem strand_median_spec (vals : List (Option Rat)) (rs : List SResp)
    (hr : ∀ r ∈ rs, r.cat < vals.length) (hu : ∀ r ∈ rs, r.w = 1) :
    (strandStats (valuesV vals) (countsV vals rs)).median
      = if respValues vals rs = [] then SOut.none_ else SOut.v (ScaleSpec.median (respValues vals rs)) := by
  have hvc : valuedPairs (valuesV vals) (countsV vals rs) = (valuedN vals rs).map enc := by
    rw [valuedPairs_strand, valuedQ_catsOf_unit vals rs hu, List.map_map]
    rfl
  have hperm := expand_valuedN_perm vals rs hr
  show (if (valuedPairs (valuesV vals) (countsV vals rs)).isEmpty then SOut.none_
        else if (expand (valuedPairs (valuesV vals) (countsV vals rs))).isEmpty then SOut.none_
        else SOut.v (medianOf (expand (valuedPairs (valuesV vals) (countsV vals rs))))) = _
  rw [hvc, expand_enc, medianOf_map_fin, median_perm hperm]
  by_cases he : respValues vals rs = []
  · rw [if_pos he]
    have hnil : expandN (valuedN vals rs) = [] := by
      rw [he] at hperm; exact List.perm_nil.mp hperm
    rw [hnil]
    by_cases h1 : ((valuedN vals rs).map enc).isEmpty <;> simp [h1]
  · rw [if_neg he]
    have hne : expandN (valuedN vals rs) ≠ [] := by
      intro hnil; rw [hnil] at hperm; exact he (List.nil_perm.mp hperm)
    have hvn : valuedN vals rs ≠ [] := by
      intro hnil; rw [hnil] at hne; exact hne rfl
    have h1 : ((valuedN vals rs).map enc).isEmpty = false := by
      cases hq : valuedN vals rs with
      | nil => exact absurd hq hvn
      | cons a as => rfl
    have h2 : ((expandN (valuedN vals rs)).map Val.fin).isEmpty = false := by
      cases hq : expandN (valuedN vals rs) with
      | nil => exact absurd hq hne
      | cons a as => rfl
    rw [h1, h2]
    simp


/-! ### overall margins of a slice (`*_scale_mean_margin`, `*_scale_median_margin`)
    `rs`: all respondents of the table, by category of the dimension carrying the values -/

theorem div_one_cats (cats : List Cat) :
    cats.map (fun x => Val.fin x.2 / Val.fin 1) = countsOfCats cats := by
  unfold countsOfCats
  apply List.map_congr_left
  intro x _
  rw [ValL.fin_div_fin _ _ (by norm_num)]; simp

/-- **overall scale mean** = weighted mean of all the table's respondents' values (None when no
    category has a value, NaN when no respondent carries one) -/
theorem margin_mean_spec (vals : List (Option Rat)) (rs : List SResp) (ok : Ok vals rs) :
    marginMean (valuesV vals) (countsV vals rs)
      = if isDefined (valuesV vals) then SOut.v (ScaleSpec.mean (valued vals rs)) else SOut.none_ := by
  unfold marginMean
  by_cases hd : isDefined (valuesV vals) = true
  · rw [if_pos hd, if_pos hd]
    congr 1
    have h := weightedMean_cats (catsOf vals rs) 1 (by norm_num) (catsOf_nonneg vals rs ok.wnn)
    rw [div_one_cats, S0_catsOf vals rs ok.inRange, S1_catsOf vals rs ok.inRange] at h
    unfold weightedMean at h
    rw [show valuesV vals = valuesOf (catsOf vals rs) from (valuesOf_catsOf vals rs).symm,
        show countsV vals rs = countsOfCats (catsOf vals rs) from (countsOfCats_catsOf vals rs).symm, h]
    rfl
  · rw [if_neg hd, if_neg hd]

/-- **overall scale median (integer counts)** = median of all the table's respondents' values -/
theorem margin_median_spec (vals : List (Option Rat)) (rs : List SResp)
    (hr : ∀ r ∈ rs, r.cat < vals.length) (hu : ∀ r ∈ rs, r.w = 1) :
    marginMedian (valuesV vals) (countsV vals rs)
      = if isDefined (valuesV vals) = false ∨ respValues vals rs = [] then SOut.none_
        else SOut.v (ScaleSpec.median (respValues vals rs)) := by
  have hvc : valuedPairs (valuesV vals) (countsV vals rs) = (valuedN vals rs).map enc := by
    rw [valuedPairs_strand, valuedQ_catsOf_unit vals rs hu, List.map_map]
    rfl
  have hperm := expand_valuedN_perm vals rs hr
  unfold marginMedian
  by_cases hd : isDefined (valuesV vals) = true
  · rw [if_pos hd, hvc, expand_enc]
    show (if ((expandN (valuedN vals rs)).map Val.fin).isEmpty = true then SOut.none_
          else SOut.v (medianOf ((expandN (valuedN vals rs)).map Val.fin))) = _
    rw [medianOf_map_fin, median_perm hperm]
    by_cases he : respValues vals rs = []
    · have hnil : expandN (valuedN vals rs) = [] := by
        rw [he] at hperm; exact List.perm_nil.mp hperm
      simp [hnil, he]
    · have hne : expandN (valuedN vals rs) ≠ [] := by
        intro hnil; rw [hnil] at hperm; exact he (List.nil_perm.mp hperm)
      have h2 : ((expandN (valuedN vals rs)).map Val.fin).isEmpty = false := by
        cases hq : expandN (valuedN vals rs) with
        | nil => exact absurd hq hne
        | cons a as => rfl
      simp [h2, he, hd]
  · have hd' : isDefined (valuesV vals) = false := by simpa using hd
    simp [hd']

/-! ### non-vacuity: the hypotheses are satisfiable by non-trivial inputs -/

/-- values [1, –, 3]; respondents of weight 1/2, 2, 1 in categories 0, 2, 1 -/
example : Ok [some 1, none, some 3] [⟨1 / 2, 0⟩, ⟨2, 2⟩, ⟨1, 1⟩] := by
  constructor
  · intro r hr
    simp only [List.mem_cons, List.not_mem_nil, or_false] at hr
    rcases hr with rfl | rfl | rfl <;> norm_num
  · intro r hr
    simp only [List.mem_cons, List.not_mem_nil, or_false] at hr
    rcases hr with rfl | rfl | rfl <;> simp

/-- unit weights, all categories in range, two distinct values among the respondents -/
example : (∀ r ∈ ([⟨1, 0⟩, ⟨1, 2⟩, ⟨1, 2⟩, ⟨1, 1⟩] : List SResp), r.w = 1)
    ∧ (∀ r ∈ ([⟨1, 0⟩, ⟨1, 2⟩, ⟨1, 2⟩, ⟨1, 1⟩] : List SResp), r.cat < [some (1 : Rat), none, some 3].length)
    ∧ respValues [some 1, none, some 3] [⟨1, 0⟩, ⟨1, 2⟩, ⟨1, 2⟩, ⟨1, 1⟩] = [1, 3, 3] := by
  refine ⟨?_, ?_, ?_⟩
  · intro r hr
    simp only [List.mem_cons, List.not_mem_nil, or_false] at hr
    rcases hr with rfl | rfl | rfl | rfl <;> rfl
  · intro r hr
    simp only [List.mem_cons, List.not_mem_nil, or_false] at hr
    rcases hr with rfl | rfl | rfl | rfl <;> simp
  · simp [respValues, valued, valOf]

/-- sorted-by-value pair lists that are permutations of each other but differ in tie order -/
example : ([(1, 2), (1, 0), (3, 2)] : List VN).Perm [(1, 0), (1, 2), (3, 2)]
    ∧ ([(1, 2), (1, 0), (3, 2)] : List VN).Pairwise (fun p q => p.1 ≤ q.1)
    ∧ ([(1, 0), (1, 2), (3, 2)] : List VN).Pairwise (fun p q => p.1 ≤ q.1) := by
  refine ⟨List.Perm.swap _ _ _, ?_, ?_⟩ <;>
  · simp only [List.pairwise_cons, List.mem_cons, List.not_mem_nil, or_false, List.Pairwise.nil, and_true]
    norm_num

end CrCube.C14
