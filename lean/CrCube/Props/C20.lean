/-
  C20 — smoothing is a trailing moving average over categorical-date periods.
  Model: CrCube/Model/Smoothing.lean (smoothing.py as coded).  Spec: CrCube/Spec/SmoothingSpec.lean.
-/
import CrCube.Lemmas.Smoothing
import CrCube.Lemmas.ValScale
import CrCube.Lemmas.ScaleMean

namespace CrCube.C20
open CrCube CrCube.Smoothing CrCube.SmoothingSpec

/-- the NaN prefix + valid-mode convolution equals the index-level trailing mean (any `1 ≤ w ≤ n`) -/
theorem pad_conv_eq_series (w : Nat) (v : List Val) (hw : 1 ≤ w) (hn : w ≤ v.length) :
    List.replicate (v.length - (convMean w v).length) Val.nan ++ convMean w v = smoothSeries w v := by
  apply List.ext_getElem?
  intro t
  rw [convMean_length w hw]
  have hpad : v.length - (v.length + 1 - w) = w - 1 := by omega
  rw [hpad]
  unfold smoothSeries
  by_cases h1 : t < v.length
  · rw [List.getElem?_map, List.getElem?_range h1]
    by_cases ht : t < w - 1
    · have h2 : t + 1 < w := by omega
      rw [List.getElem?_append_left (by simpa using ht)]
      simp [ht, h2, smoothedAt]
    · have hge : w - 1 ≤ t := by omega
      rw [List.getElem?_append_right (by simpa using hge)]
      simp only [List.length_replicate]
      rw [convMean_getElem? w hw]
      have h2 : ¬ (t + 1 < w) := by omega
      have h3 : t - (w - 1) + w ≤ v.length := by omega
      have h4 : t - (w - 1) = t + 1 - w := by omega
      rw [if_pos h3, h4]
      simp [h2, smoothedAt, windowMean]
  · rw [List.getElem?_eq_none (by simp [convMean_length w hw]; omega),
        List.getElem?_eq_none (by simp; omega)]

theorem applies_zero (cd : Bool) (w : Int) : applies cd w 0 = false := by
  unfold applies
  by_cases h2 : (2 : Int) ≤ w
  · have : ¬ (w ≤ ((0 : Nat) : Int)) := by omega
    simp only [this, decide_false, Bool.and_false]
  · simp only [h2, decide_false, Bool.and_false, Bool.false_and]

/-- `_can_smooth` is exactly the applicability condition of the property (1-D) -/
theorem canSmooth_iff (s : Smoother) (n : Nat) :
    s.canSmooth n n = applies s.isCatDate s.window n := by
  by_cases h0 : n = 0
  · subst h0
    rw [applies_zero]; simp [Smoother.canSmooth]
  · unfold Smoother.canSmooth applies
    cases hc : s.isCatDate
    · simp [h0]
    · by_cases h2 : (2 : Int) ≤ s.window
      · by_cases h3 : s.window ≤ (n : Int)
        · simp [h0, h2, h3]
        · simp [h0, h2, h3]
      · by_cases h3 : s.window ≤ (n : Int)
        · simp [h0, h2, h3]; omega
        · simp [h0, h2, h3]

/-- **smooth_eq_spec** (1-D, every smoother, every series, every window valid or not):
    the code's result is the property's smoothed series. -/
theorem smooth_eq_spec (s : Smoother) (v : List Val) :
    s.smooth1 v = smoothed s.isCatDate s.window v := by
  unfold Smoother.smooth1 smoothed
  rw [canSmooth_iff]
  by_cases h : applies s.isCatDate s.window v.length = true
  · have hh := h
    simp only [applies, Bool.and_eq_true, decide_eq_true_eq] at hh
    have hw : 1 ≤ s.window.toNat := by omega
    have hn : s.window.toNat ≤ v.length := by omega
    simp only [h, if_true]
    exact pad_conv_eq_series _ v hw hn
  · simp [h]

/-- **smooth_spec**: for a categorical-date dimension and `2 ≤ w ≤ n`, the value at period `t` is NaN for
    `t < w-1` and the arithmetic mean of `v[t-w+1..t]` otherwise — all `n`, `w`, `t`, all values incl. NaN. -/
theorem smooth_spec (s : Smoother) (v : List Val) (hcd : s.isCatDate = true)
    (h2 : 2 ≤ s.window) (hn : s.window ≤ (v.length : Int)) (t : Nat) (ht : t < v.length) :
    (s.smooth1 v)[t]? =
      some (if t + 1 < s.window.toNat then Val.nan else windowMean s.window.toNat v t) := by
  rw [smooth_eq_spec]
  have : applies s.isCatDate s.window v.length = true := by
    simp [applies, hcd, h2, hn]
  simp [smoothed, this, smoothSeries, ht, smoothedAt]

/-- the smoothed series has the length of the input -/
theorem smooth_length (s : Smoother) (v : List Val) : (s.smooth1 v).length = v.length := by
  rw [smooth_eq_spec]
  unfold smoothed smoothSeries
  split <;> simp

/-- **smooth_guards**: not categorical-date, or window below 2, or window above the number of periods
    ⇒ the values come back unchanged (1-D). -/
theorem smooth_guards (s : Smoother) (v : List Val)
    (h : s.isCatDate = false ∨ s.window < 2 ∨ s.window > (v.length : Int)) : s.smooth1 v = v := by
  rw [smooth_eq_spec]
  have : applies s.isCatDate s.window v.length = false := by
    unfold applies
    rcases h with h | h | h
    · simp [h]
    · have : ¬ (2 ≤ s.window) := by omega
      simp [this]
    · have : ¬ (s.window ≤ (v.length : Int)) := by omega
      simp [this]
  simp [smoothed, this]

/-! ### 2-D -/

/-- all rows have the width `values.shape[-1]` -/
def Rect (m : List (List Val)) : Prop := ∀ r ∈ m, r.length = lastDim m

theorem lastDim_map_convMean (w : Nat) (hw : 1 ≤ w) (m : List (List Val)) :
    lastDim (m.map (convMean w)) = lastDim m + 1 - w ∨ m = [] := by
  cases m with
  | nil => right; rfl
  | cons r rs => left; simp [lastDim, convMean_length w hw]

/-- **smooth2_eq_spec**: a 2-D measure is smoothed row by row, along the LAST axis, each row obeying the
    1-D statement; guards as in 1-D with n = number of columns. -/
theorem smooth2_eq_spec (s : Smoother) (m : List (List Val)) (hr : Rect m) :
    s.smooth2 m = smoothedRows s.isCatDate s.window m := by
  unfold Smoother.smooth2 smoothedRows
  by_cases hm : m = []
  · subst hm; simp [Smoother.canSmooth]
  by_cases h0 : lastDim m = 0
  · -- zero-width rows: size 0, nothing to do; the spec leaves every (empty) row unchanged
    have hc : s.canSmooth (m.length * lastDim m) (lastDim m) = false := by
      simp [Smoother.canSmooth, h0]
    rw [hc]
    simp only [Bool.false_eq_true, if_false]
    symm
    have : ∀ r ∈ m, smoothed s.isCatDate s.window r = r := by
      intro r hrm
      have hl : r.length = 0 := by rw [hr r hrm, h0]
      have : applies s.isCatDate s.window r.length = false := by
        rw [hl]; exact applies_zero _ _
      simp [smoothed, this]
    calc m.map (smoothed s.isCatDate s.window) = m.map id := List.map_congr_left this
      _ = m := by simp
  · have hsz : m.length * lastDim m ≠ 0 := by
      have : m.length ≠ 0 := by simpa using hm
      exact Nat.mul_ne_zero this h0
    have hcs : s.canSmooth (m.length * lastDim m) (lastDim m) = applies s.isCatDate s.window (lastDim m) := by
      rw [← canSmooth_iff]
      unfold Smoother.canSmooth
      simp [hsz, h0]
    rw [hcs]
    by_cases h : applies s.isCatDate s.window (lastDim m) = true
    · have hh := h
      simp only [applies, Bool.and_eq_true, decide_eq_true_eq] at hh
      have hw : 1 ≤ s.window.toNat := by omega
      have hn : s.window.toNat ≤ lastDim m := by omega
      simp only [h, if_true, List.map_map]
      apply List.map_congr_left
      intro r hrm
      have hl : r.length = lastDim m := hr r hrm
      have hld : lastDim (m.map (convMean s.window.toNat)) = lastDim m + 1 - s.window.toNat := by
        rcases lastDim_map_convMean _ hw m with h' | h'
        · exact h'
        · exact absurd h' hm
      have happ : applies s.isCatDate s.window r.length = true := by rw [hl]; exact h
      simp only [Function.comp, smoothed, happ, if_true, hld]
      have := pad_conv_eq_series s.window.toNat r hw (by omega)
      rw [convMean_length _ hw] at this
      rw [← this, hl]
    · have hf : applies s.isCatDate s.window (lastDim m) = false := by simpa using h
      simp only [hf, Bool.false_eq_true, if_false]
      symm
      have : ∀ r ∈ m, smoothed s.isCatDate s.window r = r := by
        intro r hrm
        have hl : r.length = lastDim m := hr r hrm
        simp [smoothed, hl, hf]
      calc m.map (smoothed s.isCatDate s.window) = m.map id := List.map_congr_left this
        _ = m := by simp

/-- 2-D guards -/
theorem smooth2_guards (s : Smoother) (m : List (List Val)) (hr : Rect m)
    (h : s.isCatDate = false ∨ s.window < 2 ∨ s.window > (lastDim m : Int)) : s.smooth2 m = m := by
  rw [smooth2_eq_spec s m hr]
  unfold smoothedRows
  have : ∀ r ∈ m, smoothed s.isCatDate s.window r = r := by
    intro r hrm
    have hl : r.length = lastDim m := hr r hrm
    have := smooth_guards s r (by rw [hl]; exact h)
    rwa [smooth_eq_spec] at this
  calc m.map (smoothed s.isCatDate s.window) = m.map id := List.map_congr_left this
    _ = m := by simp

/-! ### window default and factory -/

theorem effWindow_eq (d : SmoothingDict) : d.effWindow = windowOf d.window := by
  unfold SmoothingDict.effWindow windowOf
  cases d.window <;> rfl

/-- **default_window**: absent / null / 0 window ⇒ 2; any other window is taken as given -/
theorem default_window (d : SmoothingDict) :
    d.effWindow = windowOf d.window ∧
    (d.window = none ∨ d.window = some 0 → d.effWindow = 2) := by
  constructor
  · exact effWindow_eq d
  · intro h; rcases h with h | h <;> simp [SmoothingDict.effWindow, h]

/-- **factory**: absent / null / empty function ⇒ the moving average with the effective window;
    any other name raises NotImplementedError -/
theorem factory_spec (d : SmoothingDict) (cd : Bool) :
    factory d cd =
      if d.function = none ∨ d.function = some "" ∨ d.function = some movingAvg
      then .ok ⟨windowOf d.window, cd⟩ else .error "NotImplementedError" := by
  unfold factory SmoothingDict.effFunction
  rw [effWindow_eq]
  cases hf : d.function with
  | none => simp
  | some f =>
    by_cases h1 : f = ""
    · simp [h1]
    · by_cases h2 : f = movingAvg
      · simp [h2]
      · simp [h1, h2]

/-! ### smoothed measures -/

/-- `_ColumnProportionsSmoothed`: body rows and row-subtotal rows are smoothed along the columns,
    each row obeying `smoothed`; subtotal COLUMNS and intersections are the unsmoothed ones. -/
theorem smoothed_column_proportions (s : Smoother) (b : Blocks) (hb : Rect b.base) (hs : Rect b.subRows) :
    (smoothedColumnProportions s b).base = smoothedRows s.isCatDate s.window b.base ∧
    (smoothedColumnProportions s b).subRows = smoothedRows s.isCatDate s.window b.subRows ∧
    (smoothedColumnProportions s b).subCols = b.subCols ∧
    (smoothedColumnProportions s b).inter = b.inter := by
  refine ⟨?_, ?_, rfl, rfl⟩
  · exact smooth2_eq_spec s b.base hb
  · exact smooth2_eq_spec s b.subRows hs

/-- `_ColumnIndexSmoothed`, `_MeansSmoothed` (matrix): body smoothed row-wise, every subtotal NaN -/
theorem smoothed_nan_subtotals (s : Smoother) (x : List (List Val)) (hx : Rect x) (nrb ncb nr nc : Nat) :
    (smoothedNanSubtotals s x nrb ncb nr nc).base = smoothedRows s.isCatDate s.window x ∧
    (∀ r ∈ (smoothedNanSubtotals s x nrb ncb nr nc).subRows, ∀ y ∈ r, y = Val.nan) ∧
    (∀ r ∈ (smoothedNanSubtotals s x nrb ncb nr nc).subCols, ∀ y ∈ r, y = Val.nan) ∧
    (∀ r ∈ (smoothedNanSubtotals s x nrb ncb nr nc).inter, ∀ y ∈ r, y = Val.nan) := by
  refine ⟨smooth2_eq_spec s x hx, ?_, ?_, ?_⟩ <;>
  · intro r hr y hy
    simp only [smoothedNanSubtotals, nanSubtotals] at hr
    rw [List.mem_replicate] at hr
    rw [hr.2, List.mem_replicate] at hy
    exact hy.2

/-- stripe `_MeansSmoothed` -/
theorem smoothed_means_strand (s : Smoother) (means : List Val) :
    smoothedMeansStripe s means = smoothed s.isCatDate s.window means := smooth_eq_spec s means

/-- `_ScaleMeanSmoothed`, body columns: the smoothed scale mean is the scale mean (same reduction as the
    unsmoothed `_ScaleMean`) of the smoothed column proportions. -/
theorem smoothed_scale_mean (s : Smoother) (values : List Val) (cp : Blocks) (hb : Rect cp.base) :
    (smoothedColumnsScaleMean s values cp).1 =
      scaleMeanCols values (smoothedColumnProportions s cp).base ∧
    (smoothedColumnsScaleMean s values cp).1 =
      scaleMeanCols values (smoothedRows s.isCatDate s.window cp.base) := by
  constructor
  · rfl
  · simp [smoothedColumnsScaleMean, smooth2_eq_spec s cp.base hb]

/-- … and that reduction is the plain scale mean Σ value·p / Σ p over the rows with a numeric value
    (`SmoothingSpec.scaleMean`), for finite-or-NaN values and proportions: the driver's Spec value. -/
theorem smoothed_scale_mean_spec (s : Smoother) (values : List Val) (cp : Blocks) (hb : Rect cp.base)
    (hv : ∀ x ∈ values, finOrNan x = true)
    (hp : ∀ j, ∀ x ∈ column (smoothedRows s.isCatDate s.window cp.base) j, finOrNan x = true) :
    (smoothedColumnsScaleMean s values cp).1 =
      (List.range (lastDim (smoothedRows s.isCatDate s.window cp.base))).map
        (fun j => SmoothingSpec.scaleMean values (column (smoothedRows s.isCatDate s.window cp.base) j)) := by
  rw [(smoothed_scale_mean s values cp hb).2]
  unfold scaleMeanCols
  apply List.map_congr_left
  intro j _
  exact weightedMean_eq_scaleMean values _ hv (hp j)

/-- The same for the block of inserted (subtotal) COLUMNS holds whenever that block is not itself smoothable
    (fewer inserted columns than the window, in particular none) … -/
theorem smoothed_scale_mean_subcols_partial (s : Smoother) (values : List Val) (cp : Blocks)
    (hsc : Rect cp.subCols)
    (hfew : s.isCatDate = false ∨ s.window < 2 ∨ s.window > (lastDim cp.subCols : Int)) :
    (smoothedColumnsScaleMean s values cp).2 =
      scaleMeanCols values (smoothedColumnProportions s cp).subCols := by
  simp [smoothedColumnsScaleMean, smoothedColumnProportions, smooth2_guards s cp.subCols hsc hfew]

/-- … and fails otherwise: with two inserted columns and window 2 the code averages ACROSS the inserted
    columns (outside C20's quantifier, which has row subtotals only; reported as an observation). -/
theorem smoothed_scale_mean_subcols_counterexample :
    let s : Smoother := ⟨2, true⟩
    let cp : Blocks := { base := [[1, 1]], subCols := [[Val.fin (1/2), Val.fin (1/4)]], subRows := [], inter := [] }
    (smoothedColumnsScaleMean s [3] cp).2 ≠ scaleMeanCols [3] (smoothedColumnProportions s cp).subCols := by
  decide +kernel

/-! ### percentages -/

theorem getD_map_scale (v : List Val) (k : Rat) (i : Nat) :
    (v.map (· * Val.fin k)).getD i Val.nan = v.getD i Val.nan * Val.fin k := by
  simp only [List.getD_eq_getElem?_getD, List.getElem?_map]
  cases v[i]? <;> rfl

theorem windowMean_scale (w : Nat) (hw : 1 ≤ w) (v : List Val) (t : Nat) (k : Rat) (hk : 0 < k) :
    windowMean w v t * Val.fin k = windowMean w (v.map (· * Val.fin k)) t := by
  unfold windowMean
  have hwq : (0 : Rat) < (w : Rat) := by exact_mod_cast hw
  show (_ / Val.fin (w : Rat)) * _ = _ / Val.fin (w : Rat)
  rw [Val.div_mul_pos _ _ _ hwq hk, Val.sum_mul_pos _ _ hk, List.map_map]
  congr 2
  apply List.map_congr_left
  intro j _
  simp only [Function.comp, getD_map_scale]

/-- **smoothed_percentages**: multiplying by a positive constant (100 for percentages) commutes with smoothing:
    the smoothed percentages `100 · smoothed(p)` are the trailing means of the unsmoothed percentages `100 · p`
    (NaN prefix, guards and all). -/
theorem smoothed_percentages (cd : Bool) (w : Int) (v : List Val) (k : Rat) (hk : 0 < k) :
    (smoothed cd w v).map (· * Val.fin k) = smoothed cd w (v.map (· * Val.fin k)) := by
  unfold smoothed
  rw [List.length_map]
  by_cases h : applies cd w v.length = true
  · have hh := h
    simp only [applies, Bool.and_eq_true, decide_eq_true_eq] at hh
    have hw : 1 ≤ w.toNat := by omega
    simp only [h, if_true, smoothSeries, List.map_map, List.length_map]
    apply List.map_congr_left
    intro t _
    simp only [Function.comp, smoothedAt]
    by_cases ht : t + 1 < w.toNat
    · simp only [ht, if_true]; rfl
    · simp only [ht, if_false]
      exact windowMean_scale _ hw v t k hk
  · simp [h]

/-! ### non-vacuity and samples -/

example : (⟨3, true⟩ : Smoother).smooth1 [1, 2, 3, Val.nan, 5, 6, 7] =
    [Val.nan, Val.nan, 2, Val.nan, Val.nan, Val.nan, 6] := by decide +kernel
example : (⟨2, true⟩ : Smoother).smooth2 [[1, 3, 5], [2, 2, Val.nan]] =
    [[Val.nan, 2, 4], [Val.nan, 2, Val.nan]] := by decide +kernel
example : (⟨3, true⟩ : Smoother).smooth1 [1, 2] = [1, 2] := by decide +kernel          -- w > n
example : (⟨2, true⟩ : Smoother).smooth1 [1, 2] = [Val.nan, Val.fin (3/2)] := by decide +kernel  -- w = n smooths
example : (⟨1, true⟩ : Smoother).smooth1 [1, 2] = [1, 2] := by decide +kernel          -- w < 2
example : (⟨2, false⟩ : Smoother).smooth1 [1, 2] = [1, 2] := by decide +kernel         -- not CAT_DATE
example : ((⟨2, true⟩ : Smoother).isCatDate = true ∧ (2:Int) ≤ 2 ∧ (2:Int) ≤ ([1, 2] : List Val).length) := by decide +kernel
example : Rect [[1, 3, 5], [2, 2, Val.nan]] := by intro r hr; simp at hr; rcases hr with h | h <;> simp [h, lastDim]
example : (∀ x ∈ ([3, Val.nan] : List Val), finOrNan x = true) := by decide
example : factory {} true = .ok ⟨2, true⟩ := by
  simp [factory, SmoothingDict.effFunction, SmoothingDict.effWindow]
example : factory { function := some "one_sided_moving_avg", window := some 3 } true = .ok ⟨3, true⟩ := by
  simp [factory, SmoothingDict.effFunction, SmoothingDict.effWindow, movingAvg]
example : factory { function := some "two_sided" } true = .error "NotImplementedError" := by
  simp [factory, SmoothingDict.effFunction, movingAvg]

end CrCube.C20
