/-
  Helper lemmas for Props/C15: the assembled table `Blocks.ext`, the Spec totals in terms of the
  blocks, nansum / sum of finite lists, and the "shares add up to 1" core lemma.
-/
import CrCube.Model.SubtotalMeasures
import CrCube.Spec.SubtotalSpec
import CrCube.Lemmas.ValAlgebra
import CrCube.Lemmas.SubtotalFacts
import CrCube.Lemmas.Wsum
import Mathlib.Tactic.FieldSimp
import Mathlib.Algebra.BigOperators.Group.List.Basic

namespace CrCube
open ShareSpec

theorem tab1_congr {α : Type} (n : Nat) (f g : Nat → α) (h : ∀ i < n, f i = g i) : tab1 n f = tab1 n g := by
  unfold tab1
  exact List.map_congr_left (fun i hi => h i (List.mem_range.mp hi))

theorem tab2_congr {α : Type} (n m : Nat) (f g : Nat → Nat → α) (h : ∀ i < n, ∀ j < m, f i j = g i j) :
    tab2 n m f = tab2 n m g := by
  unfold tab2
  apply List.map_congr_left
  intro i hi
  apply List.map_congr_left
  intro j hj
  exact h i (List.mem_range.mp hi) j (List.mem_range.mp hj)

section ext
variable (b : Blocks)

theorem ext_body (i j : Nat) (hi : i < b.nr) (hj : j < b.nc) : b.ext i j = b.body i j := by
  simp [Blocks.ext, hi, hj]
theorem ext_insCols (i l : Nat) (hi : i < b.nr) : b.ext i (b.nc + l) = b.insCols i l := by
  simp [Blocks.ext, hi]
theorem ext_insRows (k j : Nat) (hj : j < b.nc) : b.ext (b.nr + k) j = b.insRows k j := by
  simp [Blocks.ext, hj]
theorem ext_inter (k l : Nat) : b.ext (b.nr + k) (b.nc + l) = b.inter k l := by
  simp [Blocks.ext]

end ext

section spec
variable (v : Nat → Nat → Val) (nr nc : Nat) (x : SubCtx)

/-- totals of the Spec on the assembled table, in terms of the blocks -/
theorem rowTotal_base (i : Nat) (hi : i < nr) :
    rowTotal (Msr.sums v nr nc x).ext nc i = nansumRow nc (Msr.sums v nr nc x).body i := by
  unfold rowTotal nansumRow
  congr 1
  apply tab1_congr
  intro j hj
  exact ext_body _ i j hi hj

theorem rowTotal_ins (k : Nat) :
    rowTotal (Msr.sums v nr nc x).ext nc (nr + k) = nansumRow nc (Msr.sums v nr nc x).insRows k := by
  unfold rowTotal nansumRow
  congr 1
  apply tab1_congr
  intro j hj
  exact ext_insRows (Msr.sums v nr nc x) k j hj

theorem colTotal_base (j : Nat) (hj : j < nc) :
    colTotal (Msr.sums v nr nc x).ext nr j = nansumCol nr (Msr.sums v nr nc x).body j := by
  unfold colTotal nansumCol
  congr 1
  apply tab1_congr
  intro i hi
  exact ext_body _ i j hi hj

theorem colTotal_ins (l : Nat) :
    colTotal (Msr.sums v nr nc x).ext nr (nc + l) = nansumCol nr (Msr.sums v nr nc x).insCols l := by
  unfold colTotal nansumCol
  congr 1
  apply tab1_congr
  intro i hi
  exact ext_insCols (Msr.sums v nr nc x) i l hi

theorem tableTotal_eq :
    tableTotal (Msr.sums v nr nc x).ext nr nc = nansumAll nr nc (Msr.sums v nr nc x).body := by
  unfold tableTotal nansumAll
  congr 2
  apply tab2_congr
  intro i hi j hj
  exact ext_body _ i j hi hj

theorem sums_ext_body (i j : Nat) (hi : i < nr) (hj : j < nc) :
    (Msr.sums v nr nc x).ext i j = (Msr.sums v nr nc x).body i j := ext_body _ i j hi hj
theorem sums_ext_insCols (i l : Nat) (hi : i < nr) :
    (Msr.sums v nr nc x).ext i (nc + l) = (Msr.sums v nr nc x).insCols i l :=
  ext_insCols (Msr.sums v nr nc x) i l hi
theorem sums_ext_insRows (k j : Nat) (hj : j < nc) :
    (Msr.sums v nr nc x).ext (nr + k) j = (Msr.sums v nr nc x).insRows k j :=
  ext_insRows (Msr.sums v nr nc x) k j hj
theorem sums_ext_inter (k l : Nat) :
    (Msr.sums v nr nc x).ext (nr + k) (nc + l) = (Msr.sums v nr nc x).inter k l :=
  ext_inter (Msr.sums v nr nc x) k l

end spec

theorem nansum_fin (l : List Rat) : Val.nansum (l.map Val.fin) = .fin l.sum := by
  unfold Val.nansum
  suffices h : ∀ acc : Rat, List.foldl (fun acc x => if x.isNan then acc else acc + x) (Val.fin acc)
      (l.map Val.fin) = .fin (acc + l.sum) by simpa using h 0
  induction l with
  | nil => intro acc; simp
  | cons x l ih =>
    intro acc
    have hx : (Val.fin x).isNan = false := rfl
    simp only [List.map_cons, List.foldl_cons, hx, Bool.false_eq_true, if_false, Val.add_fin, List.sum_cons]
    rw [ih]; congr 1; ring

theorem list_sum_div {α : Type} (l : List α) (q : α → Rat) (T : Rat) :
    (l.map (fun a => q a / T)).sum = (l.map q).sum / T := by
  induction l with
  | nil => simp
  | cons x l ih => simp only [List.map_cons, List.sum_cons, ih]; ring

theorem sumAt_fin_of (A : List Nat) (f : Nat → Val) (q : Nat → Rat) (h : ∀ a ∈ A, f a = .fin (q a)) :
    sumAt A f = .fin ((A.map q).sum) := by
  rw [sumAt_congr A f (fun a => .fin (q a)) h]
  unfold sumAt
  rw [← Val.sum_fin, List.map_map]
  rfl

theorem fin_div_fin (a b : Rat) (hb : b ≠ 0) : (Val.fin a) / (Val.fin b) = .fin (a / b) := by
  rw [Val.div_fin]; simp [hb]

/-- core: the shares of a list of finite sums with non-zero total add up to 1 -/
theorem shares_sum_one_list (L : List Rat) (h : L.sum ≠ 0) :
    Val.sum (L.map (fun q => Val.fin q / Val.nansum (L.map Val.fin))) = .fin 1 := by
  rw [nansum_fin]
  have : L.map (fun q => Val.fin q / Val.fin L.sum) = (L.map (fun q => q / L.sum)).map Val.fin := by
    rw [List.map_map]
    apply List.map_congr_left
    intro q _
    simp [fin_div_fin _ _ h]
  rw [this, Val.sum_fin, list_sum_div L (fun q => q) L.sum]
  simp [div_self h]

end CrCube
