/-
  The rendered dimension dicts: field lookups, `dimensionType`, `shimCheck`, `Dim.alias`,
  `allElements`, `missingFlags` on them.
-/
import CrCube.Lemmas.GlueObjects

set_option linter.unusedSimpArgs false

namespace CrCube.Glue
open CrCube

/-- the unpacked well-formedness of a variable -/
structure RVar.WFP (v : RVar) : Prop where
  refs : lacks v.refsExtra ["alias", "subreferences"] = true
  fmt : formatOk v.refsExtra = true
  typeE : lacks v.typeExtra ["class", "categories", "elements", "order", "subtype"] = true
  catTypeE : lacks v.catTypeExtra ["class", "categories", "elements", "order", "subtype"] = true
  subtypeE : lacks v.subtypeExtra ["class"] = true
  dimE : lacks v.dimExtra ["type", "references"] = true
  cats : ∀ c ∈ v.cats, c.Lk
  elems : ∀ e ∈ v.elems, e.Lk
  items : ∀ it ∈ v.items, it.Lk
  perm : ∀ p, v.typedefPerm = some p →
    (v.cats.map (·.id)).Nodup ∧ ∀ i < v.cats.length, i ∈ p
  kind : (match v.kind with
      | .mr => logicalCats v.cats && v.typedefPerm.isNone && !v.items.isEmpty && !v.transposed
      | .ca => !logicalCats v.typedefCats && !v.items.isEmpty
      | .logical => logicalCats v.cats && v.typedefPerm.isNone && !v.transposed
      | .cat => !logicalCats v.typedefCats && v.cats.all (·.date.isNone) && !v.transposed
      | .catDate => !logicalCats v.typedefCats && v.cats.any (·.date.isSome) && !v.transposed
      | .datetime => !v.transposed && v.elems.all (fun e => isDict e.value || hashable e.value)
      | _ => !v.transposed) = true

theorem RVar.wf_wfp {v : RVar} (h : v.wf = true) : v.WFP := by
  simp only [RVar.wf, Bool.and_eq_true] at h
  obtain ⟨⟨⟨⟨⟨⟨⟨⟨⟨⟨h1, h2⟩, h3⟩, h4⟩, h5⟩, h6⟩, h7⟩, h8⟩, h9⟩, h10⟩, h11⟩ := h
  refine ⟨h1, h2, h3, h4, h5, h6, ?_, ?_, ?_, ?_, h11⟩
  · intro c hc; exact RCat.wf_lk (List.all_eq_true.mp h7 c hc)
  · intro e he; exact RElem.wf_lk (List.all_eq_true.mp h8 e he)
  · intro it hit; exact RItem.wf_lk (List.all_eq_true.mp h9 it hit)
  · intro p hp
    rw [hp] at h10
    simp only [Bool.and_eq_true, decide_eq_true_eq, List.all_eq_true, List.mem_range,
      List.contains_iff_mem] at h10
    exact ⟨h10.1, fun i hi => by simpa using h10.2 i hi⟩

/-! ### references -/

theorem get_references_alias (v : RVar) (d : J) : get v.references "alias" d = .ok (.str v.alias) := by
  simp [RVar.references, get, List.lookup]

theorem get_references_subrefs (v : RVar) (h : v.WFP) :
    get v.references "subreferences" .null
      = .ok (if v.isArray then J.arr (v.items.map (fun it => .obj it.refs)) else .null) := by
  have := lacks_lookup h.refs (k := "subreferences") (by simp)
  cases hv : v.isArray <;> simp [RVar.references, get, List.lookup, hv, this]

theorem get_references_format (v : RVar) (h : v.WFP) :
    get v.references "format" .null = .ok ((v.refsExtra.lookup "format").getD .null) := by
  cases hv : v.isArray <;> simp [RVar.references, get, List.lookup, hv]

/-! ### the two kinds of dimension dict -/

/-- `type` of the categorical dimension dict -/
def RVar.catTypeJ (v : RVar) (te : List (String × J)) : J :=
  .obj ([("class", .str "categorical"), ("categories", .arr (v.typedefCats.map renderCat))]
        ++ v.orderField ++ te)

/-- `type` of the enum dimension dict -/
def RVar.enumTypeJ (v : RVar) (elements : List J) : J :=
  .obj ([("class", .str "enum"), ("elements", .arr elements),
         ("subtype", .obj (("class", .str v.kind.subtypeClass) :: v.subtypeExtra))]
        ++ (if v.isArray then [] else v.typeExtra))

theorem catDim_eq (v : RVar) (te : List (String × J)) :
    v.catDim te = .obj ([("references", v.references), ("type", v.catTypeJ te)] ++ v.dimExtra) := rfl

theorem enumDim_eq (v : RVar) (els : List J) :
    v.enumDim els = .obj ([("references", v.references), ("type", v.enumTypeJ els)] ++ v.dimExtra) := rfl

section catdim
variable (v : RVar) (te : List (String × J))

theorem item_catDim_type : item (v.catDim te) "type" = .ok (v.catTypeJ te) := by
  simp [catDim_eq, item, List.lookup]
theorem get_catDim_type (d : J) : get (v.catDim te) "type" d = .ok (v.catTypeJ te) := by
  simp [catDim_eq, get, List.lookup]
theorem item_catDim_references : item (v.catDim te) "references" = .ok v.references := by
  simp [catDim_eq, item, List.lookup]
theorem get_catDim_references (d : J) : get (v.catDim te) "references" d = .ok v.references := by
  simp [catDim_eq, get, List.lookup]
theorem item_catType_class : item (v.catTypeJ te) "class" = .ok (.str "categorical") := by
  simp [RVar.catTypeJ, item, List.lookup]
theorem get_catType_categories (d : J) :
    get (v.catTypeJ te) "categories" d = .ok (.arr (v.typedefCats.map renderCat)) := by
  simp [RVar.catTypeJ, get, List.lookup]
theorem item_catType_categories :
    item (v.catTypeJ te) "categories" = .ok (.arr (v.typedefCats.map renderCat)) := by
  simp [RVar.catTypeJ, item, List.lookup]

theorem get_catType_order (hte : te.lookup "order" = none) :
    get (v.catTypeJ te) "order" .null
      = .ok (match v.typedefPerm with
             | none => .null
             | some _ => .arr (v.cats.map (fun c => jInt c.id))) := by
  cases hp : v.typedefPerm <;> simp [RVar.catTypeJ, RVar.orderField, get, List.lookup, hp, hte]

theorem get_catType_subtype (hte : te.lookup "subtype" = none) :
    get (v.catTypeJ te) "subtype" J.empty = .ok J.empty := by
  cases hp : v.typedefPerm <;> simp [RVar.catTypeJ, RVar.orderField, get, List.lookup, hp, hte]

end catdim

section enumdim
variable (v : RVar) (els : List J)

theorem item_enumDim_type : item (v.enumDim els) "type" = .ok (v.enumTypeJ els) := by
  simp [enumDim_eq, item, List.lookup]
theorem get_enumDim_type (d : J) : get (v.enumDim els) "type" d = .ok (v.enumTypeJ els) := by
  simp [enumDim_eq, get, List.lookup]
theorem item_enumDim_references : item (v.enumDim els) "references" = .ok v.references := by
  simp [enumDim_eq, item, List.lookup]
theorem get_enumDim_references (d : J) : get (v.enumDim els) "references" d = .ok v.references := by
  simp [enumDim_eq, get, List.lookup]
theorem item_enumType_class : item (v.enumTypeJ els) "class" = .ok (.str "enum") := by
  simp [RVar.enumTypeJ, item, List.lookup]
theorem item_enumType_elements : item (v.enumTypeJ els) "elements" = .ok (.arr els) := by
  simp [RVar.enumTypeJ, item, List.lookup]
theorem item_enumType_subtype :
    item (v.enumTypeJ els) "subtype" = .ok (.obj (("class", .str v.kind.subtypeClass) :: v.subtypeExtra)) := by
  simp [RVar.enumTypeJ, item, List.lookup]
theorem get_enumType_subtype (d : J) :
    get (v.enumTypeJ els) "subtype" d = .ok (.obj (("class", .str v.kind.subtypeClass) :: v.subtypeExtra)) := by
  simp [RVar.enumTypeJ, get, List.lookup]
theorem get_enumType_order (h : v.WFP) : get (v.enumTypeJ els) "order" .null = .ok .null := by
  have := lacks_lookup h.typeE (k := "order") (by simp)
  cases hv : v.isArray <;> simp [RVar.enumTypeJ, get, List.lookup, hv, this]

end enumdim


/-! ### `mapR` / `anyR` over rendered lists -/

theorem anyR_map_ok {α β : Type} {f : β → R Bool} {r : α → β} {g : α → Bool} {l : List α}
    (h : ∀ x ∈ l, f (r x) = .ok (g x)) : anyR f (l.map r) = .ok (l.any g) := by
  induction l with
  | nil => rfl
  | cons x xs ih =>
    simp only [List.map_cons, anyR, h x List.mem_cons_self, R_bind_ok, List.any_cons]
    cases g x with
    | true => simp
    | false => simpa using ih (fun y hy => h y (List.mem_cons_of_mem _ hy))

theorem mapR_map_ok {α β γ : Type} {f : β → R γ} {r : α → β} {g : α → γ} {l : List α}
    (h : ∀ x ∈ l, f (r x) = .ok (g x)) : mapR f (l.map r) = .ok (l.map g) := by
  induction l with
  | nil => rfl
  | cons x xs ih =>
    simp only [List.map_cons, mapR, h x List.mem_cons_self,
      ih (fun y hy => h y (List.mem_cons_of_mem _ hy)), R_bind_ok, R_pure]

/-! ### `dimensionType` -/

theorem typedefCats_mem (v : RVar) (c : RCat) (hc : c ∈ v.typedefCats) : c ∈ v.cats := by
  unfold RVar.typedefCats at hc
  cases hp : v.typedefPerm with
  | none => simpa [hp] using hc
  | some p =>
    simp only [hp, List.mem_filterMap] at hc
    obtain ⟨i, _, hi⟩ := hc
    exact List.mem_of_getElem? hi

theorem isLogical_render (cs : List RCat) (h : ∀ c ∈ cs, c.Lk) :
    isLogical (cs.map renderCat) = .ok (logicalCats cs) := by
  unfold isLogical
  have hsel : anyR (fun c => do pure (← get c "selected" .null).truthy) (cs.map renderCat)
      = .ok (cs.any (·.selected)) := by
    apply anyR_map_ok
    intro c hc
    rw [get_renderCat_selected c (h c hc)]
    cases c.selected <;> simp [J.truthy]
  have hids : mapR (fun c => get c "id" .null) (cs.map renderCat) = .ok ((cs.map (·.id)).map jInt) := by
    rw [List.map_map]
    apply mapR_map_ok
    intro c hc
    simpa using get_renderCat_id c (h c hc)
  rw [hsel]
  simp only [R_bind_ok]
  cases hany : cs.any (·.selected) with
  | false => simp [logicalCats, hany]
  | true =>
    simp only [if_true, hids, R_bind_ok, R_pure, logicalIds_eq, listEq_jInt, logicalCats, hany,
      Bool.true_and]

theorem anyDate_render (cs : List RCat) (h : ∀ c ∈ cs, c.Lk) :
    anyR (hasKey "date") (cs.map renderCat) = .ok (cs.any (·.date.isSome)) :=
  anyR_map_ok (fun c hc => hasKey_date_renderCat c (h c hc))

/-- the library's type of the categorical dimension dict -/
def RVar.catDimType (v : RVar) : DT :=
  if v.isArray && !v.items.isEmpty then (if logicalCats v.typedefCats then .mrCat else .caCat)
  else if logicalCats v.typedefCats then .logical
  else if v.typedefCats.any (·.date.isSome) then .catDate else .cat

theorem dimensionType_catDim (v : RVar) (te : List (String × J)) (h : v.WFP) :
    dimensionType (v.catDim te) = .ok v.catDimType := by
  have hlk : ∀ c ∈ v.typedefCats, c.Lk := fun c hc => h.cats c (typedefCats_mem v c hc)
  unfold dimensionType
  simp only [item_catDim_type, R_bind_ok, item_catType_class, scalarEq_str, beq_self_eq_true, if_true,
    get_catType_categories, iter, isLogical_render _ hlk, get_catDim_references,
    get_references_subrefs v h, anyDate_render _ hlk, R_pure, RVar.catDimType]
  cases hv : v.isArray with
  | false => simp [J.truthy]; split <;> (try rfl) <;> (split <;> rfl)
  | true =>
    cases hi : v.items with
    | nil => simp [J.truthy]; split <;> (try rfl) <;> (split <;> rfl)
    | cons it its => simp [J.truthy]

def RKind.enumDT : RKind → DT
  | .datetime => .datetime
  | .text => .text
  | .binned => .binnedNumeric
  | _ => .caSubvar

theorem dimensionType_enumDim (v : RVar) (els : List J) :
    dimensionType (v.enumDim els) = .ok v.kind.enumDT := by
  unfold dimensionType
  simp only [item_enumDim_type, R_bind_ok, item_enumType_class, scalarEq_str, item_enumType_subtype]
  cases v.kind <;> simp [item, List.lookup, enumType, RKind.subtypeClass, RKind.enumDT]

end CrCube.Glue
