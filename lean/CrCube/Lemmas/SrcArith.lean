/-
  Support for the GENERATED source-formula file (tools/srcformulas.py, harness/props/_srcformulas.py).

  * `Src.vmul` — the one arithmetic reading the translator needs beyond `Val`'s own operations and the `Out`
    constructors: a `Val` factor times a symbolic (`Out`) term.
  * commutativity of `Val`'s `*` and commutativity / associativity of its `+` on ALL values (NaN, ±inf included;
    it does commute: no signed zeros, NaN absorbing, `0 · ∞ = NaN` either way round), used as ordered rewrite
    rules by the generic closing tactic of the generated theorems (tools/srcformulas.py `TACTIC`), so that a
    reordering of commutative factors / terms in the Python still proves;
  * associativity of `*` (`mul_assoc'`, via the sign description `mul_eq_ofSign` / `sgn_mul` / `mul3`) and
    `x / c = x * inv' c` for all values (`div_eq_mul_inv'`; `inv' 0 = +inf` because the model has no signed
    zeros), hence `a * b / c = a * (b / c)`: the last alternative of the tactic rewrites quotients into products
    with `inv'` and AC-normalises, so re-bracketing products and moving a factor in or out of a quotient proves.
-/
import CrCube.Model.Val
import CrCube.Lemmas.ValAlgebra
import Mathlib.Tactic.Ring
import Mathlib.Tactic.Linarith
import Mathlib.Tactic.NormNum
import Mathlib.Algebra.Order.Field.Rat
import Mathlib.Tactic.FieldSimp
import Mathlib.Tactic.Tauto

set_option linter.unusedSimpArgs false
set_option linter.unusedTactic false
set_option linter.unreachableTactic false

namespace CrCube
namespace Src

/-- `v * o` for a numeric factor and a symbolic term (`Z_975 * std_err`, `Z_975 * population * fraction * std_err`):
    a finite factor scales the term; a NaN factor gives NaN.  An INFINITE factor is read as NaN as well — the
    `Out` language has no infinite scaling, `Population.moe` takes the same reading, and the factor is a product
    of a literal constant, the caller's finite population and a fraction in [0, 1]. -/
def vmul (v : Val) (o : Out) : Out :=
  match v with
  | .fin t => .scale t o
  | _ => .v .nan

@[simp] theorem vmul_fin (t : Rat) (o : Out) : vmul (.fin t) o = .scale t o := rfl

end Src

namespace Val

theorem mul_def (a b : Val) : a * b = Val.mul a b := rfl

theorem sgn_mul_fin (a b : Rat) : sgn (.fin (a * b)) = sgn (.fin a) * sgn (.fin b) := by
  simp only [sgn]
  rcases lt_trichotomy a 0 with ha | ha | ha <;> rcases lt_trichotomy b 0 with hb | hb | hb
  all_goals first
    | (subst ha; simp)
    | (subst hb; simp)
    | skip
  · have := mul_pos_of_neg_of_neg ha hb
    simp [this, ha, hb, not_lt.mpr (le_of_lt ha), not_lt.mpr (le_of_lt hb), not_lt.mpr (le_of_lt this)]
  · have := mul_neg_of_neg_of_pos ha hb
    simp [this, ha, hb, not_lt.mpr (le_of_lt ha), not_lt.mpr (le_of_lt hb), not_lt.mpr (le_of_lt this)]
  · have := mul_neg_of_pos_of_neg ha hb
    simp [this, ha, hb, not_lt.mpr (le_of_lt ha), not_lt.mpr (le_of_lt hb), not_lt.mpr (le_of_lt this)]
  · have := mul_pos ha hb
    simp [this, ha, hb, not_lt.mpr (le_of_lt ha), not_lt.mpr (le_of_lt hb), not_lt.mpr (le_of_lt this)]

theorem mul_comm' (a b : Val) : a * b = b * a := by
  cases a <;> cases b <;> simp only [mul_def, Val.mul, Int.mul_comm, Rat.mul_comm]

theorem add_left_comm' (a b c : Val) : a + (b + c) = b + (a + c) := by
  rw [← add_assoc', add_comm' a b, add_assoc']

/-- the value of a product with an infinite factor, by the product of the signs -/
def ofSign (s : Int) : Val := if s > 0 then .pinf else if s < 0 then .ninf else .nan

theorem nan_mul' (a : Val) : Val.nan * a = .nan := by cases a <;> rfl
theorem mul_nan' (a : Val) : a * Val.nan = .nan := by cases a <;> rfl

theorem ofSign_not_fin (s : Int) : (ofSign s).isFin = false := by
  unfold ofSign; split_ifs <;> rfl

theorem mul_eq_ofSign (a b : Val) (ha : a ≠ .nan) (hb : b ≠ .nan) (h : a.isFin = false ∨ b.isFin = false) :
    a * b = ofSign (sgn a * sgn b) := by
  cases a <;> cases b <;> simp_all [mul_def, Val.mul, ofSign, isFin]

theorem sgn_mul (a b : Val) : sgn (a * b) = sgn a * sgn b := by
  cases a <;> cases b
  case fin.fin => exact sgn_mul_fin _ _
  all_goals first
    | (simp [mul_def, Val.mul, sgn]; done)
    | (simp only [mul_def, Val.mul]
       simp only [sgn]
       split_ifs <;> simp_all <;> omega)

theorem mul3 (a b c : Val) (ha : a ≠ .nan) (hb : b ≠ .nan) (hc : c ≠ .nan)
    (h : a.isFin = false ∨ b.isFin = false ∨ c.isFin = false) :
    a * b * c = ofSign (sgn a * sgn b * sgn c) := by
  by_cases hab : a * b = .nan
  · have h0 : sgn a * sgn b = 0 := by rw [← sgn_mul, hab]; rfl
    rw [hab, nan_mul', h0]; simp [ofSign]
  · have h2 : (a * b).isFin = false ∨ c.isFin = false := by
      rcases h with h | h | h
      · left; rw [mul_eq_ofSign a b ha hb (Or.inl h)]; exact ofSign_not_fin _
      · left; rw [mul_eq_ofSign a b ha hb (Or.inr h)]; exact ofSign_not_fin _
      · right; exact h
    rw [mul_eq_ofSign (a * b) c hab hc h2, sgn_mul]

theorem mul_assoc' (a b c : Val) : a * b * c = a * (b * c) := by
  by_cases ha : a = .nan
  · subst ha; simp [nan_mul']
  by_cases hb : b = .nan
  · subst hb; simp [nan_mul', mul_nan']
  by_cases hc : c = .nan
  · subst hc; simp [mul_nan']
  by_cases h : a.isFin = false ∨ b.isFin = false ∨ c.isFin = false
  · rw [mul3 a b c ha hb hc h, mul_comm' a (b * c), mul3 b c a hb hc ha (by tauto)]
    congr 1; ring
  · cases a <;> cases b <;> cases c <;> simp_all [isFin]
    exact Rat.mul_assoc _ _ _

theorem mul_left_comm' (a b c : Val) : a * (b * c) = b * (a * c) := by
  rw [← mul_assoc', mul_comm' a b, mul_assoc']

theorem div_def (a b : Val) : a / b = Val.div a b := rfl

/-- the factor division multiplies by: `x / c = x * inv' c` for ALL values (no signed zeros: `1/0 = +inf`) -/
def inv' : Val → Val
  | .fin b => if b = 0 then .pinf else .fin (1 / b)
  | .nan => .nan
  | _ => .fin 0

theorem div_eq_mul_inv' (x c : Val) : x / c = x * inv' c := by
  cases x <;> cases c
  case fin.fin a b =>
    by_cases hb : b = 0
    · subst hb
      rcases lt_trichotomy a 0 with h | h | h
      · simp [div_def, Val.div, inv', mul_def, Val.mul, sgn, h, not_lt.mpr (le_of_lt h)]
      · subst h; simp [div_def, Val.div, inv', mul_def, Val.mul, sgn]
      · simp [div_def, Val.div, inv', mul_def, Val.mul, sgn, h, not_lt.mpr (le_of_lt h)]
    · simp [div_def, Val.div, inv', mul_def, Val.mul, hb, div_eq_mul_inv]
  case pinf.fin b =>
    rcases lt_trichotomy b 0 with h | h | h
    · have : (1 / b) < 0 := one_div_neg.mpr h
      simp [div_def, Val.div, inv', mul_def, Val.mul, sgn, h, ne_of_lt h, this, not_lt.mpr (le_of_lt this), not_lt.mpr (le_of_lt h)]
    · subst h; simp [div_def, Val.div, inv', mul_def, Val.mul, sgn]
    · have : 0 < (1 / b) := one_div_pos.mpr h
      simp [div_def, Val.div, inv', mul_def, Val.mul, sgn, h, ne_of_gt h, this, not_lt.mpr (le_of_lt this), not_lt.mpr (le_of_lt h)]
  case ninf.fin b =>
    rcases lt_trichotomy b 0 with h | h | h
    · have : (1 / b) < 0 := one_div_neg.mpr h
      simp [div_def, Val.div, inv', mul_def, Val.mul, sgn, h, ne_of_lt h, this, not_lt.mpr (le_of_lt this), not_lt.mpr (le_of_lt h)]
    · subst h; simp [div_def, Val.div, inv', mul_def, Val.mul, sgn]
    · have : 0 < (1 / b) := one_div_pos.mpr h
      simp [div_def, Val.div, inv', mul_def, Val.mul, sgn, h, ne_of_gt h, this, not_lt.mpr (le_of_lt this), not_lt.mpr (le_of_lt h)]
  all_goals simp [div_def, Val.div, inv', mul_def, Val.mul, sgn]

/-- `a * b / c = a * (b / c)` on ALL of `Val` (this model has no signed zeros) -/
theorem mul_div_assoc' (a b c : Val) : a * b / c = a * (b / c) := by
  rw [div_eq_mul_inv', div_eq_mul_inv', mul_assoc']

end Val
end CrCube

namespace CrCube
namespace Src

instance : Std.Commutative (α := Val) (· * ·) := ⟨Val.mul_comm'⟩
instance : Std.Commutative (α := Val) (· + ·) := ⟨Val.add_comm'⟩
instance : Std.Associative (α := Val) (· + ·) := ⟨Val.add_assoc'⟩
instance : Std.Associative (α := Val) (· * ·) := ⟨Val.mul_assoc'⟩

/-- numerals of `Val` written `(1 : Val)` in the model are the same values as the translator's `Val.fin 1` -/
theorem ofNat_eq_fin (n : Nat) : (OfNat.ofNat n : Val) = Val.fin (n : Rat) := rfl

end Src
end CrCube
