/-
  Support for the GENERATED source-formula file (tools/srcformulas.py, harness/props/_srcformulas.py).

  * `Src.vmul` — the one arithmetic reading the translator needs beyond `Val`'s own operations and the `Out`
    constructors: a `Val` factor times a symbolic (`Out`) term.
  * commutativity of `Val`'s `*` and commutativity / associativity of its `+` on ALL values (NaN, ±inf included;
    it does commute: no signed zeros, NaN absorbing, `0 · ∞ = NaN` either way round), used as ordered rewrite
    rules by the generic closing tactic of the generated theorems (tools/srcformulas.py `TACTIC`), so that a
    reordering of commutative factors / terms in the Python still proves.  (Associativity of `*` is not proved
    here; a re-bracketing of a product is therefore reported as a broken obligation.)
-/
import CrCube.Model.Val
import CrCube.Lemmas.ValAlgebra
import Mathlib.Tactic.Ring
import Mathlib.Tactic.Linarith
import Mathlib.Tactic.NormNum
import Mathlib.Algebra.Order.Field.Rat

set_option linter.unusedSimpArgs false

namespace CrCube
namespace Src

/-- `v * o` for a numeric factor and a symbolic term (`Z_975 * std_err`, `Z_975 * population * fraction * std_err`):
    a finite factor scales the term; a NaN factor gives NaN.  An INFINITE factor is read as NaN as well — the
    `Out` language has no infinite scaling, `Population.moe` takes the same reading, and the factor is a product
    of a literal constant, the caller's finite population and a fraction in [0, 1]. -/
def vmul (v : Val) (o : Out) : Out :=
  match v with
  | .fin t => .scale t o
  | _ => .v .nan

@[simp] theorem vmul_fin (t : Rat) (o : Out) : vmul (.fin t) o = .scale t o := rfl

end Src

namespace Val

theorem mul_def (a b : Val) : a * b = Val.mul a b := rfl

theorem sgn_mul_fin (a b : Rat) : sgn (.fin (a * b)) = sgn (.fin a) * sgn (.fin b) := by
  simp only [sgn]
  rcases lt_trichotomy a 0 with ha | ha | ha <;> rcases lt_trichotomy b 0 with hb | hb | hb
  all_goals first
    | (subst ha; simp)
    | (subst hb; simp)
    | skip
  · have := mul_pos_of_neg_of_neg ha hb
    simp [this, ha, hb, not_lt.mpr (le_of_lt ha), not_lt.mpr (le_of_lt hb), not_lt.mpr (le_of_lt this)]
  · have := mul_neg_of_neg_of_pos ha hb
    simp [this, ha, hb, not_lt.mpr (le_of_lt ha), not_lt.mpr (le_of_lt hb), not_lt.mpr (le_of_lt this)]
  · have := mul_neg_of_pos_of_neg ha hb
    simp [this, ha, hb, not_lt.mpr (le_of_lt ha), not_lt.mpr (le_of_lt hb), not_lt.mpr (le_of_lt this)]
  · have := mul_pos ha hb
    simp [this, ha, hb, not_lt.mpr (le_of_lt ha), not_lt.mpr (le_of_lt hb), not_lt.mpr (le_of_lt this)]

theorem mul_comm' (a b : Val) : a * b = b * a := by
  cases a <;> cases b <;> simp only [mul_def, Val.mul, Int.mul_comm, Rat.mul_comm]

theorem add_left_comm' (a b c : Val) : a + (b + c) = b + (a + c) := by
  rw [← add_assoc', add_comm' a b, add_assoc']

end Val
end CrCube

namespace CrCube
namespace Src

instance : Std.Commutative (α := Val) (· * ·) := ⟨Val.mul_comm'⟩
instance : Std.Commutative (α := Val) (· + ·) := ⟨Val.add_comm'⟩
instance : Std.Associative (α := Val) (· + ·) := ⟨Val.add_assoc'⟩

/-- numerals of `Val` written `(1 : Val)` in the model are the same values as the translator's `Val.fin 1` -/
theorem ofNat_eq_fin (n : Nat) : (OfNat.ofNat n : Val) = Val.fin (n : Rat) := rfl

end Src
end CrCube
