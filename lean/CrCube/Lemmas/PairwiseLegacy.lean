/-
  Helper lemmas for the legacy pairwise objects (Props/C13_Legacy.lean).
-/
import CrCube.Model.PairwiseLegacy
import CrCube.Lemmas.ValAlg

namespace CrCube.PairwiseLegacyL
open CrCube CrCube.Pairwise CrCube.PairwiseLegacy

theorem getD_map {α β : Type} (l : List α) (f : α → β) (i : Nat) (d : β) (d0 : α) (h : i < l.length) :
    (l.map f).getD i d = f (l.getD i d0) := by
  simp [List.getD_eq_getElem?_getD, List.getElem?_map, List.getElem?_eq_getElem h]

theorem lt_zero_of_nonnegOrNan (v : Val) (h : ValL.nonnegOrNan v = true) : Val.lt v 0 = false := by
  rw [ValL.zero_val]
  cases v with
  | fin q =>
    simp only [ValL.nonnegOrNan, decide_eq_true_eq] at h
    simp only [Val.lt, decide_eq_false_iff_not, not_lt]; exact h
  | nan => rfl
  | pinf => rfl
  | ninf => simp [ValL.nonnegOrNan] at h

theorem pooledVar_comm (na va nb vb : Val) : pooledVar nb vb na va = pooledVar na va nb vb := by
  unfold pooledVar
  rw [ValL.add_comm' ((nb - 1) * vb), ValL.add_comm' nb na]

theorem invSum_comm (na nb : Val) : invSum nb na = invSum na nb := by
  unfold invSum; rw [ValL.add_comm']

/-! ### the displayed primitives are functions of the signed column indexes -/

theorem mat_get_assemble (nfr nfc : Nat) (ro co : List Int) (f : Nat → Nat → Val) (i a : Nat)
    (hi : i < ro.length) (ha : a < co.length) :
    Mat.get (assemble nfr nfc ro co f) i a = f (pos nfr (ro.getD i 0)) (pos nfc (co.getD a 0)) := by
  unfold Mat.get assemble
  rw [getD_map ro _ i [] 0 hi]
  exact getD_map co _ a Val.nan 0 ha

/-- column of `slice.counts` shown for the signed column index k, under row order `ro` -/
def colAt (x : FullIn) (ro : List Int) (k : Int) : List Val :=
  (List.range ro.length).map (fun i => x.fullCounts.get (pos x.nFullRows (ro.getD i 0)) (pos x.nFullCols k))

def meanAt (x : FullIn) (k : Int) : Val := x.fullMean (pos x.nFullCols k)
def baseAt (x : FullIn) (k : Int) : Val := x.fullUBase (pos x.nFullCols k)

def nAt (x : FullIn) (ro : List Int) (k : Int) : Val := Val.sum (Scale.selValued (ro.map x.rowValue) (colAt x ro k))
def varAt (x : FullIn) (ro : List Int) (k : Int) : Val := Scale.variance (colAt x ro k) (ro.map x.rowValue) (meanAt x k)

def tAt (x : FullIn) (ro : List Int) (ka kb : Int) : Out :=
  tPooled (meanAt x ka) (nAt x ro ka) (varAt x ro ka) (meanAt x kb) (nAt x ro kb) (varAt x ro kb)
def pAt (x : FullIn) (ro : List Int) (ka kb : Int) : Out := .tTail2 (tAt x ro ka kb) (dfPooled (nAt x ro ka) (nAt x ro kb))

def mpropAt (x : FullIn) (k : Int) : Val := baseAt x k / x.tableMargin
def mvarAt (x : FullIn) (k : Int) : Val := mpropAt x k * (1 - mpropAt x k) / x.tableMargin
def stAt (x : FullIn) (ka kb : Int) : Out := .divSqrt (mpropAt x kb - mpropAt x ka) (mvarAt x kb + mvarAt x ka)
def spAt (x : FullIn) (ka kb : Int) : Out := .tTail2 (stAt x ka kb) (baseAt x kb + baseAt x ka - 2)

theorem display_col (x : FullIn) (ro co : List Int) (a : Nat) (ha : a < co.length) :
    (x.display ro co).col a = colAt x ro (co.getD a 0) := by
  unfold LegIn.col colAt FullIn.display
  simp only [List.length_map]
  apply List.map_congr_left
  intro i hi
  exact mat_get_assemble _ _ ro co _ i a (List.mem_range.mp hi) ha

theorem display_mean (x : FullIn) (ro co : List Int) (a : Nat) (ha : a < co.length) :
    (x.display ro co).mean a = meanAt x (co.getD a 0) := by
  unfold LegIn.mean FullIn.display meanAt
  exact getD_map co _ a Val.nan 0 ha

theorem display_base (x : FullIn) (ro co : List Int) (a : Nat) (ha : a < co.length) :
    (x.display ro co).colsBase.getD a .nan = baseAt x (co.getD a 0) := by
  unfold FullIn.display baseAt
  exact getD_map co _ a Val.nan 0 ha

theorem display_n (x : FullIn) (ro co : List Int) (a : Nat) (ha : a < co.length) :
    (x.display ro co).n a = nAt x ro (co.getD a 0) := by
  unfold LegIn.n nAt
  rw [display_col x ro co a ha]
  rfl

theorem display_variance (x : FullIn) (ro co : List Int) (a : Nat) (ha : a < co.length) :
    (x.display ro co).variance a = varAt x ro (co.getD a 0) := by
  unfold LegIn.variance varAt
  rw [display_col x ro co a ha, display_mean x ro co a ha]
  rfl

theorem display_tScale (x : FullIn) (ro co : List Int) (a b : Nat) (ha : a < co.length) (hb : b < co.length) :
    (x.display ro co).tScale a b = tAt x ro (co.getD a 0) (co.getD b 0) := by
  unfold LegIn.tScale tAt
  rw [display_mean x ro co a ha, display_mean x ro co b hb, display_n x ro co a ha, display_n x ro co b hb,
    display_variance x ro co a ha, display_variance x ro co b hb]

theorem display_pScale (x : FullIn) (ro co : List Int) (a b : Nat) (ha : a < co.length) (hb : b < co.length) :
    (x.display ro co).pScale a b = pAt x ro (co.getD a 0) (co.getD b 0) := by
  unfold LegIn.pScale pAt LegIn.dfScale
  rw [display_tScale x ro co a b ha hb, display_n x ro co a ha, display_n x ro co b hb]

theorem display_mprop (x : FullIn) (ro co : List Int) (a : Nat) (ha : a < co.length) :
    (x.display ro co).mprop a = mpropAt x (co.getD a 0) := by
  unfold LegIn.mprop mpropAt
  rw [display_base x ro co a ha]
  rfl

theorem display_summaryT (x : FullIn) (ro co : List Int) (a b : Nat) (ha : a < co.length) (hb : b < co.length) :
    (x.display ro co).summaryT a b = stAt x (co.getD a 0) (co.getD b 0) := by
  unfold LegIn.summaryT stAt LegIn.mvar mvarAt
  rw [display_mprop x ro co a ha, display_mprop x ro co b hb]
  rfl

theorem display_summaryP (x : FullIn) (ro co : List Int) (a b : Nat) (ha : a < co.length) (hb : b < co.length) :
    (x.display ro co).summaryP a b = spAt x (co.getD a 0) (co.getD b 0) := by
  unfold LegIn.summaryP spAt LegIn.summaryDf
  rw [display_summaryT x ro co a b ha hb, display_base x ro co a ha, display_base x ro co b hb]

end CrCube.PairwiseLegacyL
