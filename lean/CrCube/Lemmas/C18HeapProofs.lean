/-
  Proofs behind Props/C18_Heap.lean (heap model of aliased lazy caches).
-/
import CrCube.Model.Heap

namespace CrCube.C18HeapL
open CrCube.Heap

/-- `h'` extends `h`: every address allocated in `h` is allocated in `h'` with the same contents -/
def Ext (h h' : List Arr) : Prop := ∃ t, h' = h ++ t

theorem Ext.refl (h : List Arr) : Ext h h := ⟨[], by simp⟩

theorem Ext.trans {a b c : List Arr} (h1 : Ext a b) (h2 : Ext b c) : Ext a c := by
  obtain ⟨t, rfl⟩ := h1
  obtain ⟨u, rfl⟩ := h2
  exact ⟨t ++ u, by simp⟩

theorem Ext.length_le {a b : List Arr} (h : Ext a b) : a.length ≤ b.length := by
  obtain ⟨t, rfl⟩ := h
  simp

theorem Ext.get {a b : List Arr} (h : Ext a b) {x : Addr} (hx : x < a.length) : get b x = get a x := by
  obtain ⟨t, rfl⟩ := h
  simp [Heap.get, List.getD, List.getElem?_append_left hx]

theorem Ext.snoc (h : List Arr) (x : Arr) : Ext h (h ++ [x]) := ⟨[x], rfl⟩

theorem get_snoc (h : List Arr) (x : Arr) : get (h ++ [x]) h.length = x := by
  simp [Heap.get, List.getD]

/-! ### the four shapes of a body without in-place write, as equations -/

theorem set_snoc (h : List Arr) (x y : Arr) : (h ++ [x]).set h.length y = h ++ [y] := by
  simp

theorem nipw_cases {d : Def} (hd : NoInPlaceWrite d = true) :
    (d.write = none ∧ d.ret = .fresh) ∨ (∃ i, d.write = none ∧ d.ret = .alias i) ∨
    (∃ g, d.write = some (.result, g) ∧ d.ret = .fresh) := by
  unfold NoInPlaceWrite at hd
  cases hw : d.write with
  | none =>
    cases hr : d.ret with
    | fresh => exact Or.inl ⟨rfl, rfl⟩
    | alias i => exact Or.inr (Or.inl ⟨i, rfl, rfl⟩)
  | some p =>
    obtain ⟨tg, g⟩ := p
    cases tg with
    | result =>
      simp [hw] at hd
      exact Or.inr (Or.inr ⟨g, rfl, hd⟩)
    | dep i => simp [hw] at hd

theorem exec_fresh {d : Def} (hw : d.write = none) (hr : d.ret = .fresh) (as : List Addr) (st : St) :
    exec d as st = (st.heap.length, { heap := st.heap ++ [d.f (as.map (get st.heap))], cache := st.cache }) := by
  simp [exec, place, target, hw, hr]

theorem exec_alias_some {d : Def} {i : Nat} (hw : d.write = none) (hr : d.ret = .alias i) {as : List Addr}
    {a : Addr} (ha : as[i]? = some a) (st : St) :
    exec d as st = (a, { heap := st.heap, cache := st.cache }) := by
  simp [exec, place, target, hw, hr, ha]

theorem exec_alias_none {d : Def} {i : Nat} (hw : d.write = none) (hr : d.ret = .alias i) {as : List Addr}
    (ha : as[i]? = none) (st : St) :
    exec d as st = (st.heap.length, { heap := st.heap ++ [d.f (as.map (get st.heap))], cache := st.cache }) := by
  simp [exec, place, target, hw, hr, ha]

theorem exec_write_fresh {d : Def} {g : List Arr → Arr → Arr} (hw : d.write = some (.result, g)) (hr : d.ret = .fresh)
    (as : List Addr) (st : St) :
    exec d as st = (st.heap.length,
      { heap := st.heap ++ [g (as.map (get st.heap)) (d.f (as.map (get st.heap)))], cache := st.cache }) := by
  simp [exec, place, target, hw, hr, get_snoc]

theorem den_fresh {d : Def} (hw : d.write = none) (hr : d.ret = .fresh) (rest : List Def) :
    den (d :: rest) rest.length = d.f (d.deps.map (den rest)) := by
  simp [den, hw, hr]

theorem den_alias {d : Def} {i : Nat} (hw : d.write = none) (hr : d.ret = .alias i) (rest : List Def) :
    den (d :: rest) rest.length =
      ((d.deps.map (den rest))[i]?).getD (d.f (d.deps.map (den rest))) := by
  simp only [den, hw, hr, if_true]

theorem den_write_fresh {d : Def} {g : List Arr → Arr → Arr} (hw : d.write = some (.result, g)) (hr : d.ret = .fresh)
    (rest : List Def) :
    den (d :: rest) rest.length = g (d.deps.map (den rest)) (d.f (d.deps.map (den rest))) := by
  simp [den, hw, hr]

/-! ### integrity: the heap only grows -/

theorem exec_ext {d : Def} (hd : NoInPlaceWrite d = true) (as : List Addr) (st : St) :
    Ext st.heap (exec d as st).2.heap := by
  rcases nipw_cases hd with ⟨hw, hr⟩ | ⟨i, hw, hr⟩ | ⟨g, hw, hr⟩
  · rw [exec_fresh hw hr]; exact Ext.snoc _ _
  · cases ha : as[i]? with
    | some a => rw [exec_alias_some hw hr ha]; exact Ext.refl _
    | none => rw [exec_alias_none hw hr ha]; exact Ext.snoc _ _
  · rw [exec_write_fresh hw hr]; exact Ext.snoc _ _

theorem exec_cache (d : Def) (as : List Addr) (st : St) : (exec d as st).2.cache = st.cache := rfl

theorem readDeps_ext {rd : Nat → St → Addr × St} (hrd : ∀ s st, Ext st.heap (rd s st).2.heap) :
    ∀ ds st, Ext st.heap (readDeps rd ds st).2.heap := by
  intro ds
  induction ds with
  | nil => intro st; exact Ext.refl _
  | cons d ds ih => intro st; exact (hrd d st).trans (ih _)

theorem read_ext : ∀ (prog : List Def), (∀ d ∈ prog, NoInPlaceWrite d = true) →
    ∀ s st, Ext st.heap (Heap.read prog s st).2.heap := by
  intro prog
  induction prog with
  | nil => intro _ s st; exact Ext.snoc _ _
  | cons d rest ih =>
    intro hp s st
    have ihr := ih (fun d' hd' => hp d' (List.mem_cons_of_mem _ hd'))
    unfold Heap.read
    by_cases hs : s = rest.length
    · simp only [hs, if_true]
      cases lookup rest.length st.cache with
      | some a => exact Ext.refl _
      | none =>
        exact (readDeps_ext ihr d.deps st).trans (exec_ext (hp d (List.mem_cons_self ..)) _ _)
    · simp only [hs, if_false]
      exact ihr s st

theorem run_ext (prog : List Def) (hp : ∀ d ∈ prog, NoInPlaceWrite d = true) :
    ∀ ops st, Ext st.heap (run prog ops st).2.heap := by
  intro ops
  induction ops with
  | nil => intro st; exact Ext.refl _
  | cons s ss ih => intro st; exact (read_ext prog hp s st).trans (ih _)

/-! ### the cache invariant: every cached address holds the slot's value -/

def Inv (D : Nat → Arr) (st : St) : Prop :=
  ∀ s a, lookup s st.cache = some a → a < st.heap.length ∧ get st.heap a = D s

theorem Inv.ext_heap {D : Nat → Arr} {st : St} (hi : Inv D st) {h' : List Arr} (he : Ext st.heap h') :
    Inv D { heap := h', cache := st.cache } := by
  intro s a hl
  obtain ⟨h1, h2⟩ := hi s a hl
  exact ⟨Nat.lt_of_lt_of_le h1 he.length_le, by rw [← h2]; exact he.get h1⟩

/-- what one `read` establishes -/
structure Good (D : Nat → Arr) (v : Arr) (st : St) (r : Addr × St) : Prop where
  inv : Inv D r.2
  ext : Ext st.heap r.2.heap
  lt : r.1 < r.2.heap.length
  val : get r.2.heap r.1 = v

theorem readDeps_good {D : Nat → Arr} {rd : Nat → St → Addr × St} {dn : Nat → Arr}
    (hrd : ∀ s st, Inv D st → Good D (dn s) st (rd s st)) :
    ∀ ds st, Inv D st →
      let r := readDeps rd ds st
      Inv D r.2 ∧ Ext st.heap r.2.heap ∧ (∀ a ∈ r.1, a < r.2.heap.length) ∧
        r.1.map (get r.2.heap) = ds.map dn ∧ r.1.length = ds.length := by
  intro ds
  induction ds with
  | nil => intro st hi; exact ⟨hi, Ext.refl _, by simp [readDeps], by simp [readDeps], by simp [readDeps]⟩
  | cons d ds ih =>
    intro st hi
    have g := hrd d st hi
    obtain ⟨i2, e2, l2, v2, n2⟩ := ih (rd d st).2 g.inv
    refine ⟨i2, g.ext.trans e2, ?_, ?_, ?_⟩
    · intro a ha
      simp only [readDeps, List.mem_cons] at ha
      rcases ha with rfl | ha
      · exact Nat.lt_of_lt_of_le g.lt e2.length_le
      · exact l2 a ha
    · simp only [readDeps, List.map_cons]
      rw [e2.get g.lt, g.val]
      exact congrArg _ v2
    · simp [readDeps, n2]

theorem map_get_ext {h h' : List Arr} (he : Ext h h') :
    ∀ (as : List Addr), (∀ a ∈ as, a < h.length) → as.map (get h') = as.map (get h) := by
  intro as
  induction as with
  | nil => intro _; rfl
  | cons a as ih =>
    intro hl
    simp only [List.map_cons]
    rw [he.get (hl a (List.mem_cons_self ..)), ih (fun x hx => hl x (List.mem_cons_of_mem _ hx))]

theorem getElem?_map_get {h : List Arr} {as : List Addr} {cs : List Arr} (hm : as.map (get h) = cs) (i : Nat) :
    cs[i]? = (as[i]?).map (get h) := by
  subst hm
  simp

/-- a body without in-place write into old addresses, run on dependencies that hold their values -/
theorem exec_good {D : Nat → Arr} {d : Def} (hd : NoInPlaceWrite d = true) {rest : List Def}
    (as : List Addr) (st : St) (hi : Inv D st) (hl : ∀ a ∈ as, a < st.heap.length)
    (hv : as.map (get st.heap) = d.deps.map (den rest)) :
    let e := exec d as st
    Inv D e.2 ∧ Ext st.heap e.2.heap ∧ e.1 < e.2.heap.length ∧
      get e.2.heap e.1 = den (d :: rest) rest.length := by
  have hext := exec_ext hd as st
  refine ⟨hi.ext_heap hext, hext, ?_⟩
  rcases nipw_cases hd with ⟨hw, hr⟩ | ⟨i, hw, hr⟩ | ⟨g, hw, hr⟩
  · rw [exec_fresh hw hr, den_fresh hw hr, hv]
    exact ⟨by simp, get_snoc _ _⟩
  · rw [den_alias hw hr, getElem?_map_get hv i]
    cases ha : as[i]? with
    | some a =>
      rw [exec_alias_some hw hr ha]
      exact ⟨hl a (List.mem_of_getElem? ha), rfl⟩
    | none =>
      rw [exec_alias_none hw hr ha, hv]
      exact ⟨by simp, get_snoc _ _⟩
  · rw [exec_write_fresh hw hr, den_write_fresh hw hr, hv]
    exact ⟨by simp, get_snoc _ _⟩

theorem read_good : ∀ (prog : List Def), (∀ d ∈ prog, NoInPlaceWrite d = true) →
    ∀ (D : Nat → Arr), (∀ s, s < prog.length → D s = den prog s) →
    ∀ s st, Inv D st → Good D (den prog s) st (Heap.read prog s st) := by
  intro prog
  induction prog with
  | nil =>
    intro _ D _ s st hi
    exact ⟨hi.ext_heap (Ext.snoc _ _), Ext.snoc _ _, by simp [Heap.read], by simp [Heap.read, den, get_snoc]⟩
  | cons d rest ih =>
    intro hp D hD s st hi
    have hrest : ∀ s, s < rest.length → D s = den rest s := by
      intro s hs
      have := hD s (by simp; omega)
      simpa [den, Nat.ne_of_lt hs] using this
    have ihr := ih (fun d' hd' => hp d' (List.mem_cons_of_mem _ hd')) D hrest
    unfold Heap.read
    by_cases hs : s = rest.length
    · subst hs
      simp only [if_true]
      cases hl : lookup rest.length st.cache with
      | some a =>
        obtain ⟨h1, h2⟩ := hi _ a hl
        exact ⟨hi, Ext.refl _, h1, by rw [h2]; exact hD _ (by simp)⟩
      | none =>
        obtain ⟨i2, e2, l2, v2, _⟩ := readDeps_good (dn := den rest) ihr d.deps st hi
        obtain ⟨i3, e3, l3, v3⟩ := exec_good (hp d (List.mem_cons_self ..)) (rest := rest) _ _ i2 l2 v2
        refine ⟨?_, e2.trans e3, l3, v3⟩
        intro s' a' hl'
        simp only [lookup] at hl'
        by_cases hq : rest.length = s'
        · subst hq
          simp at hl'
          subst hl'
          exact ⟨l3, by rw [v3]; exact (hD _ (by simp)).symm⟩
        · simp only [hq, if_false] at hl'
          exact i3 s' a' hl'
    · simp only [hs, if_false]
      have g := ihr s st hi
      exact ⟨g.inv, g.ext, g.lt, by rw [g.val]; simp [den, hs]⟩

theorem inv_init (D : Nat → Arr) : Inv D {} := by
  intro s a hl
  simp [lookup] at hl

theorem readVal_eq_den (prog : List Def) (hp : ∀ d ∈ prog, NoInPlaceWrite d = true) (s : Nat) (st : St)
    (hi : Inv (den prog) st) : (readVal prog s st).1 = den prog s ∧ Inv (den prog) (readVal prog s st).2 := by
  have g := read_good prog hp (den prog) (fun _ _ => rfl) s st hi
  exact ⟨g.val, g.inv⟩

theorem fresh_eq_den (prog : List Def) (hp : ∀ d ∈ prog, NoInPlaceWrite d = true) (s : Nat) :
    fresh prog s = den prog s := (readVal_eq_den prog hp s {} (inv_init _)).1

theorem run_eq_fresh (prog : List Def) (hp : ∀ d ∈ prog, NoInPlaceWrite d = true) :
    ∀ ops st, Inv (den prog) st → (run prog ops st).1 = ops.map (fresh prog) := by
  intro ops
  induction ops with
  | nil => intro _ _; rfl
  | cons s ss ih =>
    intro st hi
    obtain ⟨h1, h2⟩ := readVal_eq_den prog hp s st hi
    simp only [run, List.map_cons]
    rw [h1, ih _ h2, fresh_eq_den prog hp s]

theorem zip_map_self {α β : Type} (f : α → β) : ∀ (l : List α), ∀ x ∈ l.zip (l.map f), x.2 = f x.1 := by
  intro l
  induction l with
  | nil => intro x hx; simp at hx
  | cons a l ih =>
    intro x hx
    simp only [List.map_cons, List.zip_cons_cons, List.mem_cons] at hx
    rcases hx with rfl | hx
    · rfl
    · exact ih x hx

end CrCube.C18HeapL
