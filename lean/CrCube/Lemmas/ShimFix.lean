/-
  The shim is a fixed point: lemmas for C18 `shim_idempotent` / `observe_shim` and C19 `slots_*`.
-/
import CrCube.Lemmas.Shim
namespace CrCube.Shim
theorem aliases_shimDim (d : Dim) : (shimDim d).aliases = d.aliases := by
  simp [shimDim, Dim.aliases, List.map_map, Function.comp_def]
theorem eids_shimDim (d : Dim) : (shimDim d).eids = d.eids := by
  simp [shimDim, Dim.eids, List.map_map, Function.comp_def]
theorem subvarIds_shimDim (d : Dim) : (shimDim d).subvarIds = d.subvarIds := by
  simp [shimDim, Dim.subvarIds, List.map_map, Function.comp_def]
theorem size_shimDim (d : Dim) : (shimDim d).size = d.size := by
  simp [shimDim, Dim.size]
theorem aliasAt_shimDim (d : Dim) (i : Nat) : aliasAt (shimDim d) i = aliasAt d i := by
  simp [aliasAt, aliases_shimDim]
theorem byEid_shimDim (d : Dim) (n : Int) : byEid (shimDim d) n = byEid d n := by
  simp only [byEid, eids_shimDim]
  cases idxOf n d.eids <;> simp [aliasAt_shimDim]
theorem rule3_shimDim (d : Dim) (r : Ref) : rule3 (shimDim d) r = rule3 d r := by
  cases r with
  | str s =>
    simp only [rule3]
    have hm : (shimDim d).mrIns = d.mrIns := rfl
    rw [hm]
    split
    · simp only [shimDim, List.filter_map, List.find?_map, Function.comp_def]
      cases hf : List.find? (fun it => decStr it.eid == s) (List.filter (fun it => !it.anchor) d.items) with
      | none => simp
      | some it => simp only [Option.map_some]; exact byEid_shimDim d it.eid
    · rfl
  | int n => rfl
  | null => rfl
theorem translate_shimDim (d : Dim) (r : Ref) : translate (shimDim d) r = translate d r := by
  simp only [translate_unfold, rule3_shimDim]
  have e1 : rule1 (shimDim d) r = rule1 d r := by cases r <;> simp [rule1, aliases_shimDim]
  have e2 : rule2 (shimDim d) r = rule2 d r := by cases r <;> simp [rule2, byEid_shimDim]
  have e4 : rule4 (shimDim d) r = rule4 d r := by
    cases r with
    | str s => simp only [rule4, subvarIds_shimDim]; cases idxOf s d.subvarIds <;> simp [aliasAt_shimDim]
    | int n => rfl
    | null => rfl
  have e5 : rule5 (shimDim d) r = rule5 d r := by
    simp only [rule5]; cases asInt r <;> simp [byEid_shimDim]
  have e6 : rule6 (shimDim d) r = rule6 d r := by
    simp only [rule6, size_shimDim]; cases asInt r <;> simp [aliasAt_shimDim]
  rw [e1, e2, e4, e5, e6]

theorem shimDim_idem (d : Dim) : shimDim (shimDim d) = shimDim d := by
  simp [shimDim, List.map_map, Function.comp_def]

theorem rule4_shimDim (d : Dim) (r : Ref) : rule4 (shimDim d) r = rule4 d r := by
  cases r with
  | str s => simp only [rule4, subvarIds_shimDim]; cases idxOf s d.subvarIds <;> simp [aliasAt_shimDim]
  | int n => rfl
  | null => rfl

theorem translate_null (d : Dim) : translate d .null = none := by
  simp [translate_unfold, rule1, rule2, rule3, rule4, rule5, rule6, asInt]

theorem translate_alias {d : Dim} {a : String} (h : a ∈ d.aliases) : translate d (.str a) = some a := by
  simp [translate_unfold, rule1, h]

/-- re-translating what the shim wrote back gives the same thing: alias ↦ alias, `None` ↦ `None` -/
theorem translate_back (d : Dim) (r : Ref) : translate d (back (translate d r)) = translate d r := by
  cases h : translate d r with
  | none => simp [back, translate_null]
  | some a => simp [back, translate_alias (translate_mem h)]

theorem shimIds_idem (d : Dim) (l : List Ref) : shimIds d (shimIds d l) = shimIds d l := by
  simp [shimIds, List.map_map, Function.comp_def, translate_back]

theorem shimIds_shimDim (d : Dim) (l : List Ref) : shimIds (shimDim d) l = shimIds d l := by
  simp [shimIds, translate_shimDim]

/-! ### the rebuilt element-transforms dict -/

theorem keyTranslate_shimDim (d : Dim) (m : KeyMode) (r : Ref) :
    keyTranslate (shimDim d) m r = keyTranslate d m r := by
  cases m <;> simp [keyTranslate, translate_shimDim, rule4_shimDim]

theorem keyTranslate_mem {d : Dim} {m : KeyMode} {r : Ref} {a : String}
    (h : keyTranslate d m r = some a) : a ∈ d.aliases := by
  cases m with
  | subvarId =>
    obtain ⟨j, hj, ha⟩ := rule4_sound (by simpa [keyTranslate] using h)
    exact ha ▸ alias_mem hj.1
  | absent => exact translate_mem (by simpa [keyTranslate] using h)
  | alias => exact translate_mem (by simpa [keyTranslate] using h)

def keysOf (l : List (Ref × ElXf)) : List Ref := l.map (·.1)

theorem keysOf_dictSet (k : Ref) (v : ElXf) :
    ∀ l : List (Ref × ElXf), keysOf (dictSet k v l) = if k ∈ keysOf l then keysOf l else keysOf l ++ [k]
  | [] => by simp [dictSet, keysOf]
  | (k', v') :: l => by
    by_cases hk : k' = k
    · simp [dictSet, hk, keysOf]
    · have ih := keysOf_dictSet k v l
      simp only [keysOf] at ih
      have hk' : ¬ k = k' := fun e => hk e.symm
      simp only [dictSet, hk, if_false, keysOf, List.map_cons, List.mem_cons, hk', false_or, ih]
      split
      · next h => simp [h]
      · next h => simp [h]

theorem dictSet_append {k : Ref} {v : ElXf} :
    ∀ {l : List (Ref × ElXf)}, k ∉ keysOf l → dictSet k v l = l ++ [(k, v)]
  | [], _ => rfl
  | (k', v') :: l, h => by
    have hk : ¬ k' = k := fun e => h (by simp [keysOf, e])
    have hl : k ∉ keysOf l := fun e => h (by simp [keysOf] at e ⊢; exact Or.inr e)
    simp [dictSet, hk, dictSet_append hl]

/-- invariant of the dict comprehension: keys stay distinct and stay inside `P` -/
theorem foldl_dictSet_inv (g : Ref → Option Ref) (P : Ref → Prop) (hg : ∀ r k, g r = some k → P k) :
    ∀ (es acc : List (Ref × ElXf)), (keysOf acc).Nodup → (∀ k ∈ keysOf acc, P k) →
      let out := es.foldl (fun acc kv => match g kv.1 with
                                          | some k => dictSet k kv.2 acc
                                          | none => acc) acc
      (keysOf out).Nodup ∧ ∀ k ∈ keysOf out, P k
  | [], acc, hn, hp => ⟨hn, hp⟩
  | kv :: es, acc, hn, hp => by
    simp only [List.foldl_cons]
    cases hk : g kv.1 with
    | none => exact foldl_dictSet_inv g P hg es acc hn hp
    | some k =>
      apply foldl_dictSet_inv g P hg es
      · rw [keysOf_dictSet]
        split
        · exact hn
        · next hnot => exact List.nodup_append.mpr ⟨hn, by simp, by
            intro a ha b hb; simp at hb; subst hb; exact fun e => hnot (e ▸ ha)⟩
      · intro k' hk'
        rw [keysOf_dictSet] at hk'
        split at hk'
        · exact hp k' hk'
        · rcases List.mem_append.mp hk' with h | h
          · exact hp k' h
          · simp at h; subst h; exact hg _ _ hk

/-- a dict whose keys are distinct fixed points of `g` is rebuilt to itself -/
theorem foldl_dictSet_fixed (g : Ref → Option Ref) :
    ∀ (es acc : List (Ref × ElXf)), (∀ kv ∈ es, g kv.1 = some kv.1) → (keysOf (acc ++ es)).Nodup →
      es.foldl (fun acc kv => match g kv.1 with
                              | some k => dictSet k kv.2 acc
                              | none => acc) acc = acc ++ es
  | [], acc, _, _ => by simp
  | kv :: es, acc, hfix, hn => by
    have hk : g kv.1 = some kv.1 := hfix kv (by simp)
    have hnot : kv.1 ∉ keysOf acc := by
      intro hmem
      simp only [keysOf, List.map_append, List.map_cons] at hn
      have := (List.nodup_append.mp hn).2.2 kv.1 (by simpa [keysOf] using hmem) kv.1 (by simp)
      exact this rfl
    simp only [List.foldl_cons, hk]
    rw [dictSet_append hnot]
    have := foldl_dictSet_fixed g es (acc ++ [(kv.1, kv.2)]) (fun x hx => hfix x (by simp [hx]))
      (by simpa [List.append_assoc] using hn)
    simpa [List.append_assoc] using this

theorem rebuild_eq (d : Dim) (m : KeyMode) (es : List (Ref × ElXf)) :
    rebuild d m es = es.foldl (fun acc kv => match (keyTranslate d m kv.1).map Ref.str with
                                              | some k => dictSet k kv.2 acc
                                              | none => acc) [] := by
  unfold rebuild
  congr 1
  funext acc kv
  cases keyTranslate d m kv.1 <;> rfl

theorem rebuild_idem (d : Dim) (m : KeyMode) (es : List (Ref × ElXf)) :
    rebuild d .absent (rebuild d m es) = rebuild d m es := by
  have hinv := foldl_dictSet_inv (fun r => (keyTranslate d m r).map Ref.str)
    (fun k => ∃ a, a ∈ d.aliases ∧ k = Ref.str a)
    (by
      intro r k h
      cases hk : keyTranslate d m r with
      | none => simp [hk] at h
      | some a => simp [hk] at h; exact ⟨a, keyTranslate_mem hk, h.symm⟩)
    es [] (by simp [keysOf]) (by simp [keysOf])
  rw [← rebuild_eq] at hinv
  obtain ⟨hn, hp⟩ := hinv
  rw [rebuild_eq d .absent]
  have := foldl_dictSet_fixed (fun r => (keyTranslate d .absent r).map Ref.str) (rebuild d m es) []
    (by
      intro kv hkv
      obtain ⟨a, ha, hka⟩ := hp kv.1 (by simp [keysOf]; exact ⟨kv.2, hkv⟩)
      simp [keyTranslate, hka, translate_alias ha])
    (by simpa using hn)
  simpa using this

theorem shimElems_idem (d : Dim) (e : ElemDict) : shimElems d (shimElems d e) = shimElems d e := by
  cases e with
  | mk mode entries =>
    cases mode <;> simp [shimElems, rebuild_idem]

theorem rebuild_shimDim (d : Dim) (m : KeyMode) (es : List (Ref × ElXf)) :
    rebuild (shimDim d) m es = rebuild d m es := by
  simp [rebuild, keyTranslate_shimDim]

theorem shimElems_shimDim (d : Dim) (e : ElemDict) : shimElems (shimDim d) e = shimElems d e := by
  cases e with
  | mk mode entries => cases mode <;> simp [shimElems, rebuild_shimDim]

theorem shimXf_shimDim (d : Dim) (x : DimXf) : shimXf (shimDim d) x = shimXf d x := by
  simp only [shimXf]
  congr 1
  · cases x.elements <;> simp [shimElems_shimDim]
  · cases x.orderIds <;> simp [shimIds_shimDim]
  · cases x.fixedTop <;> simp [shimIds_shimDim]
  · cases x.fixedBottom <;> simp [shimIds_shimDim]

theorem shimXf_idem (d : Dim) (x : DimXf) : shimXf d (shimXf d x) = shimXf d x := by
  cases x with
  | mk els o t b opp =>
    simp only [shimXf]
    congr 1
    · cases els <;> simp [shimElems_idem]
    · cases o <;> simp [shimIds_idem]
    · cases t <;> simp [shimIds_idem]
    · cases b <;> simp [shimIds_idem]

end CrCube.Shim
