/-
  Facts about the id → index resolution of subtotals and about merging positions,
  used by Props/C04 and Props/C15.
-/
import CrCube.Lemmas.ValAlgebra
import CrCube.Spec.SubtotalSpec
import Mathlib.Data.List.Perm.Basic
import Mathlib.Data.List.Nodup
import Mathlib.Data.List.Range

namespace CrCube

theorem contains_keepValidIds (validIds ids : List Int) (x : Int) :
    (keepValidIds validIds ids).contains x = (ids.contains x && validIds.contains x) := by
  unfold keepValidIds
  rw [Bool.eq_iff_iff]
  simp [List.mem_filter]

theorem getD_of_lt {α : Type} (l : List α) (d : α) (k : Nat) (h : k < l.length) : l.getD k d = l[k] := by
  simp [List.getD_eq_getElem?_getD, List.getElem?_eq_getElem h]

theorem getD_mem_of_lt (l : List Int) (k : Nat) (h : k < l.length) : l.getD k 0 ∈ l := by
  rw [getD_of_lt _ _ _ h]; exact List.getElem_mem h

/-- the two-step resolution of the code (filter the ids, then look the elements up) is the
    one-step "positions whose id is listed" -/
theorem idxsOfIds_keepValidIds (validIds ids : List Int) :
    idxsOfIds validIds (keepValidIds validIds ids) = idxsOfIds validIds ids := by
  unfold idxsOfIds
  apply List.filter_congr
  intro k hk
  rw [contains_keepValidIds]
  have : validIds.contains (validIds.getD k 0) = true := by
    simp only [List.contains_iff_mem]
    exact getD_mem_of_lt _ _ (List.mem_range.mp hk)
  rw [this, Bool.and_true]

theorem mem_idxsOfIds (validIds ids : List Int) (k : Nat) :
    k ∈ idxsOfIds validIds ids ↔ k < validIds.length ∧ validIds.getD k 0 ∈ ids := by
  simp [idxsOfIds, List.mem_filter]

theorem idxsOfIds_nodup (validIds ids : List Int) : (idxsOfIds validIds ids).Nodup :=
  List.Nodup.filter _ List.nodup_range

theorem idxsOfIds_sorted (validIds ids : List Int) : (idxsOfIds validIds ids).Pairwise (· < ·) :=
  List.Pairwise.filter _ List.pairwise_lt_range

theorem idxsOfIds_lt (validIds ids : List Int) : ∀ k ∈ idxsOfIds validIds ids, k < validIds.length :=
  fun k hk => ((mem_idxsOfIds validIds ids k).mp hk).1

/-- an id list none of whose members exists resolves to no index -/
theorem idxsOfIds_stale (validIds ids : List Int) (h : ∀ x ∈ ids, x ∉ validIds) :
    idxsOfIds validIds ids = [] := by
  rw [List.eq_nil_iff_forall_not_mem]
  intro k hk
  obtain ⟨hlt, hmem⟩ := (mem_idxsOfIds validIds ids k).mp hk
  exact h _ hmem (getD_mem_of_lt _ _ hlt)

/-- `is_difference` (some listed subtrahend exists) ⇔ the subtrahend index list is non-empty -/
theorem isDiff_iff (validIds : List Int) (i : Insertion) :
    (i.toSubtotal validIds).isDiff = SubSpec.isDifference validIds i.negative := by
  unfold Subtotal.isDiff Insertion.toSubtotal SubSpec.isDifference
  simp only [idxsOfIds_keepValidIds]
  rw [Bool.eq_iff_iff]
  simp only [Bool.not_eq_true', List.isEmpty_eq_false_iff, List.any_eq_true, List.contains_iff_mem]
  constructor
  · intro hne
    obtain ⟨k, hk⟩ := List.exists_mem_of_ne_nil _ hne
    obtain ⟨hlt, hmem⟩ := (mem_idxsOfIds _ _ k).mp hk
    exact ⟨_, hmem, getD_mem_of_lt _ _ hlt⟩
  · rintro ⟨x, hx, hv⟩
    obtain ⟨k, hk, rfl⟩ := List.getElem_of_mem hv
    apply List.ne_nil_of_mem (a := k)
    rw [mem_idxsOfIds]
    exact ⟨hk, by rw [getD_of_lt _ _ _ hk]; exact hx⟩

/-! ### merged positions -/

open SubSpec

theorem map_getD_range {α : Type} (l : List α) (d : α) :
    (List.range l.length).map (fun i => l.getD i d) = l := by
  apply List.ext_getElem
  · simp
  · intro i h1 h2
    simp at h1
    simp [List.getElem?_eq_getElem h1]

theorem keep_append_perm (n : Nat) (A : List Nat) (hn : A.Nodup) (hlt : ∀ a ∈ A, a < n) :
    (keepIdxs n A ++ A).Perm (List.range n) := by
  have h1 : (List.filter (fun i => !A.contains i) (List.range n)
      ++ List.filter (fun i => !(!A.contains i)) (List.range n)).Perm (List.range n) :=
    List.filter_append_perm _ _
  have h2 : A.Perm (List.filter (fun i => !(!A.contains i)) (List.range n)) := by
    rw [List.perm_ext_iff_of_nodup hn (List.Nodup.filter _ List.nodup_range)]
    intro a
    simp only [Bool.not_not, List.mem_filter, List.mem_range, List.contains_iff_mem]
    exact ⟨fun h => ⟨hlt a h, h⟩, fun h => h.2⟩
  exact (List.Perm.append_left _ h2).trans h1

/-- kept positions + merged positions cover every position exactly once -/
theorem sumAt_keep_add (n : Nat) (A : List Nat) (hn : A.Nodup) (hlt : ∀ a ∈ A, a < n) (f : Nat → Val) :
    sumAt (keepIdxs n A) f + sumAt A f = vsum n f := by
  rw [← sumAt_append, vsum_eq_sumAt]
  exact sumAt_perm (keep_append_perm n A hn hlt) f

theorem vsum_succ (n : Nat) (f : Nat → Val) : vsum (n + 1) f = vsum n f + f n := by
  simp [vsum, List.range_succ, Val.sum_append]

/-- summing a vector over the positions of the merged table = summing the original vector -/
theorem vsum_merged (n : Nat) (A : List Nat) (hn : A.Nodup) (hlt : ∀ a ∈ A, a < n) (f : Nat → Val) :
    vsum ((keepIdxs n A).length + 1)
        (fun i => if i < (keepIdxs n A).length then f ((keepIdxs n A).getD i 0) else sumAt A f)
      = vsum n f := by
  rw [vsum_succ]
  simp only [Nat.lt_irrefl, if_false]
  rw [← sumAt_keep_add n A hn hlt f]
  congr 1
  rw [vsum_eq_sumAt]
  have : sumAt (List.range (keepIdxs n A).length)
      (fun i => if i < (keepIdxs n A).length then f ((keepIdxs n A).getD i 0) else sumAt A f)
      = sumAt (List.range (keepIdxs n A).length) (fun i => f ((keepIdxs n A).getD i 0)) := by
    apply sumAt_congr
    intro i hi
    simp [List.mem_range.mp hi]
  rw [this]
  unfold sumAt
  have hm : List.map (fun i => f ((keepIdxs n A).getD i 0)) (List.range (keepIdxs n A).length)
      = List.map f (List.map (fun i => (keepIdxs n A).getD i 0) (List.range (keepIdxs n A).length)) := by
    rw [List.map_map]; rfl
  rw [hm, map_getD_range]

end CrCube
