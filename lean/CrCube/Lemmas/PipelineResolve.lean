/-
  `TDim.resolve`: the two views of one insertion list (`Model/Subtotals` offsets and
  `Model/Collator` anchors / ids) have the same length; strip commutes with resolution.
-/
import CrCube.Model.Pipeline
import Mathlib.Data.List.Basic

set_option linter.unusedSimpArgs false

namespace CrCube.Pipeline
open CrCube CrCube.Collator

theorem contains_validIds (d : TDim) (x : Int) :
    d.validIds.contains x = d.ids.contains (Eid.int x) := by
  rw [Bool.eq_iff_iff]
  simp only [List.contains_iff_mem, TDim.validIds, TDim.ids, List.mem_filterMap, List.mem_map]
  constructor
  · rintro ⟨e, he, h⟩
    refine ⟨e, he, ?_⟩
    cases hid : e.id with
    | int n => simp [hid] at h; rw [h]
    | str s => simp [hid] at h
    | null => simp [hid] at h
  · rintro ⟨e, he, h⟩
    exact ⟨e, he, by simp [h]⟩

theorem any_int_ids (d : TDim) (l : List Int) :
    (l.map Eid.int).any (fun a => d.ids.contains a) = l.any (fun x => d.validIds.contains x) := by
  induction l with
  | nil => rfl
  | cons x l ih => simp only [List.map_cons, List.any_cons, ih, contains_validIds]

theorem valid_eq_passes (d : TDim) (t : TIns) :
    RawIns.valid d.ids t.toRawIns = t.toInsertion.passes d.validIds := by
  have e1 : t.toInsertion.isSubtotalFn = t.isSubtotalFn := rfl
  have e2 : t.toInsertion.hide = t.hide := rfl
  have e3 : t.toInsertion.hasAnchorName = t.hasAnchorName := rfl
  have e4 : t.toInsertion.negative = t.negative := rfl
  simp only [RawIns.valid, Insertion.passes, TIns.toRawIns, List.any_append, any_int_ids, List.isEmpty_map,
    Bool.true_and, Bool.not_and, e1, e2, e3, e4]

theorem filter_views_length (d : TDim) (l : List TIns) :
    ((l.map TIns.toRawIns).filter (RawIns.valid d.ids)).length
      = ((l.map TIns.toInsertion).filter (Insertion.passes d.validIds)).length := by
  induction l with
  | nil => rfl
  | cons t l ih =>
    simp only [List.map_cons, List.filter_cons, valid_eq_passes]
    split <;> simp [ih]

theorem mkSubs_length (ids : List Eid) :
    ∀ (l : List (RawAnchor × Option Int)) (subs : List Sub), mkSubs ids l = some subs → subs.length = l.length := by
  intro l
  induction l with
  | nil =>
    intro subs h
    simp [mkSubs] at h
    subst h; rfl
  | cons a l ih =>
    intro subs h
    unfold mkSubs at h ih
    rw [List.mapM_cons] at h
    simp only [Option.bind_eq_bind, Option.pure_def, Option.bind_eq_some_iff] at h
    obtain ⟨s, _, rest, hrest, hsubs⟩ := h
    simp only [Option.some.injEq] at hsubs
    rw [← hsubs, List.length_cons, List.length_cons, ih rest hrest]

theorem withIdsGen_length (cls : RawAnchor → XClass) (fv : Bool) (ids : List Eid) (ins : List RawIns) :
    (withIdsGen cls fv ids ins).length = (ins.filter (RawIns.valid ids)).length := by
  unfold withIdsGen
  dsimp only
  by_cases h1 : ((ins.filter (RawIns.valid ids)).all fun r => r.id.isSome) = true
  · rw [if_pos h1]; simp
  · rw [if_neg h1]
    by_cases h2 : fv = true
    · rw [if_pos h2]; simp
    · rw [if_neg h2]; simp

theorem subtotalsOf_length (fv : Bool) (ids : List Eid) (ins : List RawIns) (subs : List Sub)
    (h : subtotalsOf fv ids ins = some subs) :
    subs.length = (ins.filter (RawIns.valid ids)).length := by
  unfold subtotalsOf at h
  rw [mkSubs_length ids _ subs h]
  exact withIdsGen_length _ fv ids ins

theorem resolveSubtotals_length (v : List Int) (ins : List Insertion) :
    (resolveSubtotals v ins).length = (ins.filter (Insertion.passes v)).length := by
  simp [resolveSubtotals]

/-- the two resolutions of a dimension's insertions agree in number -/
theorem collSubs_length (d : TDim) (subs : List Sub) (h : d.collSubs = some subs) :
    d.subtotals.length = subs.length ∧ d.subLabels.length = subs.length := by
  unfold TDim.collSubs at h
  unfold TDim.subtotals TDim.subLabels dimensionSubtotals TDim.liveIns
  cases ha : d.isArray
  · simp only [ha, Bool.false_eq_true, if_false] at h ⊢
    cases ht : d.trIns with
    | none =>
      simp only [ht] at h ⊢
      rw [subtotalsOf_length _ _ _ _ h, filter_views_length, Option.map_none, resolveSubtotals_length]
      refine ⟨rfl, ?_⟩
      rw [List.length_map, List.filter_map, List.length_map]
      rfl
    | some t =>
      simp only [ht] at h ⊢
      rw [subtotalsOf_length _ _ _ _ h, filter_views_length, Option.map_some, resolveSubtotals_length]
      refine ⟨rfl, ?_⟩
      rw [List.length_map, List.filter_map, List.length_map]
      rfl
  · simp only [ha, if_true, Option.some.injEq] at h ⊢
    rw [← h]
    exact ⟨rfl, rfl⟩

theorem resolve_fields (d : TDim) (r : RDim) (h : d.resolve = some r) :
    r.cdim.elems = d.elems ∧ r.cdim.hidden = d.hidden ∧ r.cdim.prune = d.prune ∧
    r.kind = d.kind ∧ r.labels = d.labels ∧ r.order = d.order ∧
    r.subtotals.length = r.cdim.subs.length ∧ r.subLabels.length = r.cdim.subs.length := by
  unfold TDim.resolve at h
  cases hs : d.collSubs with
  | none => simp [hs] at h
  | some subs =>
    simp only [hs, Option.map_some, Option.some.injEq] at h
    obtain ⟨h1, h2⟩ := collSubs_length d subs hs
    rw [← h]
    exact ⟨rfl, rfl, rfl, rfl, rfl, rfl, h1, h2⟩

/-- strip commutes with resolution (insertions are kept, so they resolve the same) -/
theorem resolve_strip_eq (d : TDim) : d.strip.resolve = d.resolve.map RDim.strip := by
  unfold TDim.resolve
  have hc : d.strip.collSubs = d.collSubs := rfl
  rw [hc]
  cases d.collSubs with
  | none => rfl
  | some subs => rfl

end CrCube.Pipeline
