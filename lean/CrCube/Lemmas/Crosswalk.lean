/-
  Id assignment for id-less insertions (`_valid_subtotal_dicts_with_ids`, `_position_crosswalk`):
  view insertions get their 1-based rank in payload display order, transform insertions their
  1-based definition position.
-/
import CrCube.Lemmas.AnchoredFinal

namespace CrCube.Lemmas.Crosswalk
open CrCube.Collator CrCube.OrderSpec CrCube.Lemmas.SortKeys CrCube.Lemmas.Layout CrCube.Lemmas.Bridge
open CrCube.Lemmas.AnchoredSpec CrCube.Lemmas.Explicit CrCube.Lemmas.AnchoredFinal

/-! ### easy cases -/

theorem not_all_of_exists {v : List RawIns} (h : ∃ r ∈ v, r.id = none) :
    v.all (fun r => r.id.isSome) = false := by
  obtain ⟨r, hr, hn⟩ := h
  rw [Bool.eq_false_iff]
  intro hall
  have := List.all_eq_true.1 hall r hr
  simp [hn] at this

theorem given_id_kept_lemma (fromView : Bool) (ids : List Eid) (ins : List RawIns) (i : Nat) (r : RawIns)
    (k : Int) (hi : (ins.filter (RawIns.valid ids))[i]? = some r) (hr : r.id = some k) :
    (withIds fromView ids ins)[i]? = some (r.anchor, some k) := by
  unfold withIds withIdsGen
  simp only
  split
  · simp [List.getElem?_map, hi, hr]
  · split
    · simp [List.getElem?_map, List.getElem?_zipIdx, hi, hr]
    · simp [List.getElem?_map, List.getElem?_zipIdx, hi, hr]

theorem transform_id_eq_position (ids : List Eid) (ins : List RawIns)
    (hsome : ∃ r ∈ ins.filter (RawIns.valid ids), r.id = none) (i : Nat) (r : RawIns)
    (hi : (ins.filter (RawIns.valid ids))[i]? = some r) (hr : r.id = none) :
    (withIds false ids ins)[i]? = some (r.anchor, some ((i : Int) + 1)) := by
  unfold withIds withIdsGen
  simp only [not_all_of_exists hsome]
  simp [List.getElem?_map, List.getElem?_zipIdx, hi, hr]

/-! ### buckets of definition positions -/

/-- definition positions (from offset `k`) whose anchor satisfies `Q` -/
def bucket {β : Type} (Q : β → Bool) (A : List β) (k : Nat) : List Nat :=
  (A.zipIdx k).filterMap (fun x => if Q x.1 then some x.2 else none)

theorem subsAt_bucket_aux {β : Type} (Q : β → Bool) (p : Place) (m : Int) :
    ∀ (places : List Place) (A : List β) (k : Nat), places.length = A.length →
      (∀ j (h1 : j < places.length) (h2 : j < A.length), decide (places[j] = p) = Q A[j]) →
      ((places.zip ((List.range' k places.length).map (fun (i : Nat) => (i : Int) - m))).filter
          (fun q => q.1 = p)).map (·.2) = (bucket Q A k).map (fun (i : Nat) => (i : Int) - m) := by
  intro places
  induction places with
  | nil =>
    intro A k hl _
    have : A = [] := List.length_eq_zero_iff.1 hl.symm
    subst this
    rfl
  | cons pl ps ih =>
    intro A k hl hq
    cases A with
    | nil => simp at hl
    | cons a as =>
      have hl' : ps.length = as.length := by simpa using hl
      have h0 := hq 0 (by simp) (by simp)
      simp only [List.getElem_cons_zero] at h0
      have hrest := ih as (k + 1) hl' (by
        intro j h1 h2
        have := hq (j + 1) (by simp; omega) (by simp; omega)
        simpa using this)
      simp only [List.length_cons, List.range'_succ, List.map_cons, List.zip_cons_cons, bucket,
        List.zipIdx_cons, List.filterMap_cons]
      simp only [bucket] at hrest
      by_cases hp : pl = p
      · have hQ : Q a = true := by rw [← h0]; simp [hp]
        subst hp
        simp only [List.filter_cons, decide_true, if_true, List.map_cons, hQ]
        rw [hrest]
      · have hQ : Q a = false := by rw [← h0]; simp [hp]
        simp only [List.filter_cons, hp, decide_false, Bool.false_eq_true, if_false, hQ]
        exact hrest

theorem subsAt_bucket {β : Type} (Q : β → Bool) (p : Place) (places : List Place) (A : List β)
    (hl : places.length = A.length)
    (hq : ∀ j (h1 : j < places.length) (h2 : j < A.length), decide (places[j] = p) = Q A[j]) :
    subsAt places p = (bucket Q A 0).map (fun (i : Nat) => (i : Int) - (places.length : Int)) := by
  have := subsAt_bucket_aux Q p (places.length : Int) places A 0 hl hq
  unfold subsAt negIdxs
  rw [List.range_eq_range']
  exact this

/-! ### the subtotal subsequence of the payload display order -/

theorem filter_neg_subsAt (places : List Place) (p : Place) :
    (subsAt places p).filter (fun idx => idx < 0) = subsAt places p := by
  rw [List.filter_eq_self]
  intro a ha
  obtain ⟨k, hk, _, rfl⟩ := (mem_subsAt_iff places p a).1 ha
  simp only [decide_eq_true_eq]
  omega

theorem subs_of_specSequence (n : Nat) (places : List Place) :
    (specSequence (List.range n) places []).filter (fun idx => idx < 0) =
      subsAt places .top ++ (List.range n).flatMap (fun e => subsAt places (.after e)) ++ subsAt places .bottom := by
  unfold specSequence
  have hd : ∀ p, dersAt ([] : List (Nat × Place)) p = [] := fun p => rfl
  simp only [hd, List.append_nil, List.nil_append, List.filter_append, filter_neg_subsAt,
    List.filter_flatMap]
  congr 2

/-! ### classes vs places -/

theorem normAnchor_elem_mem {ids : List Eid} {a : RawAnchor} {n : Int}
    (h : normAnchor ids a = some (.elem n)) : Eid.int n ∈ ids := by
  unfold normAnchor at h
  cases a with
  | null => simp at h
  | int k =>
    simp only at h
    by_cases hc : Eid.int k ∈ ids
    · simp [hc] at h; subst h; exact hc
    · simp [hc] at h
  | numStr k =>
    simp only at h
    by_cases hc : Eid.int k ∈ ids
    · simp [hc] at h; subst h; exact hc
    · simp [hc] at h
  | word s =>
    simp only at h
    split at h
    · simp at h
    · split at h <;> simp at h

/-- the place of the subtotal defined with raw anchor `a` in a payload-ordered dimension -/
def rawPlace (ids : List Eid) (a : RawAnchor) : Place :=
  subPlace ids (List.range ids.length) { anchor := (normAnchor ids a).getD .bottom, insId := 0 }

theorem idxOfId_of_mem {ids : List Eid} {id : Eid} (h : id ∈ ids) :
    ∃ e, idxOfId ids id = some e ∧ e < ids.length ∧ ids.getD e .null = id := by
  cases hi : idxOfId ids id with
  | none =>
    exfalso
    obtain ⟨k, hk, hget⟩ := List.mem_iff_getElem.1 h
    have := idxOfId_none hi k hk
    apply this
    simp [List.getD_eq_getElem?_getD, hk, hget]
  | some e => exact ⟨e, rfl, (idxOfId_some hi).1, (idxOfId_some hi).2⟩

theorem rawPlace_top (ids : List Eid) (a : RawAnchor) :
    decide (rawPlace ids a = .top) = decide (xclass ids a = .first) := by
  unfold rawPlace xclass subPlace
  cases hn : normAnchor ids a with
  | none => simp
  | some an =>
    cases an with
    | top => simp
    | bottom => simp
    | elem n =>
      obtain ⟨e, he, hlt, _⟩ := idxOfId_of_mem (normAnchor_elem_mem hn)
      simp [he, hlt]

theorem rawPlace_bottom (ids : List Eid) (a : RawAnchor) :
    decide (rawPlace ids a = .bottom) = decide (xclass ids a = .last) := by
  unfold rawPlace xclass subPlace
  cases hn : normAnchor ids a with
  | none => simp
  | some an =>
    cases an with
    | top => simp
    | bottom => simp
    | elem n =>
      obtain ⟨e, he, hlt, _⟩ := idxOfId_of_mem (normAnchor_elem_mem hn)
      simp [he, hlt]

/-- the middle buckets of `_position_crosswalk`, per element -/
def afterQ (ids : List Eid) (id : Eid) (a : RawAnchor) : Bool :=
  match id with
  | .int n => decide (xclass ids a = .after n)
  | _ => false

theorem rawPlace_after (ids : List Eid) (hids : ids.Nodup) (a : RawAnchor) (e : Nat) (he : e < ids.length) :
    decide (rawPlace ids a = .after e) = afterQ ids (ids.getD e .null) a := by
  cases hn : normAnchor ids a with
  | none =>
    simp only [rawPlace, xclass, subPlace, afterQ, hn, Option.getD_none]
    cases ids.getD e .null <;> simp
  | some an =>
    cases an with
    | top =>
      simp only [rawPlace, xclass, subPlace, afterQ, hn, Option.getD_some]
      cases ids.getD e .null <;> simp
    | bottom =>
      simp only [rawPlace, xclass, subPlace, afterQ, hn, Option.getD_some]
      cases ids.getD e .null <;> simp
    | elem n =>
      obtain ⟨e', he', hlt', hget'⟩ := idxOfId_of_mem (normAnchor_elem_mem hn)
      simp only [rawPlace, xclass, subPlace, afterQ, hn, Option.getD_some, he', List.contains_eq_mem,
        List.mem_range, hlt', decide_true, if_true]
      by_cases hee : e' = e
      · subst hee
        rw [hget']
        simp
      · have hne : ids.getD e .null ≠ .int n := by
          intro h
          exact hee (getD_inj_of_nodup hids hlt' he (hget'.trans h.symm))
        have h1 : decide (Place.after e' = Place.after e) = false := by simp [hee]
        rw [h1]
        cases hg : ids.getD e .null with
        | int k =>
          have : k ≠ n := fun h => hne (by rw [hg, h])
          simp [Ne.symm this]
        | str s => rfl
        | null => rfl

theorem flatMap_ids_eq (ids : List Eid) (f : Eid → List Nat) :
    ids.flatMap f = (List.range ids.length).flatMap (fun e => f (ids.getD e .null)) := by
  have : ids = (List.range ids.length).map (fun e => ids.getD e .null) := by
    apply List.ext_getElem
    · simp
    · intro i h1 h2
      simp [List.getD_eq_getElem?_getD, h1]
  conv => lhs; rw [this]
  rw [List.flatMap_map]

theorem crosswalkOrder_eq (ids : List Eid) (A : List RawAnchor) :
    crosswalkOrder (xclass ids) ids A =
      bucket (fun a => decide (xclass ids a = .first)) A 0
        ++ (List.range ids.length).flatMap (fun e => bucket (afterQ ids (ids.getD e .null)) A 0)
        ++ bucket (fun a => decide (xclass ids a = .last)) A 0 := by
  have hb : ∀ (c : XClass), A.zipIdx.filterMap (fun x => if xclass ids x.1 = c then some x.2 else none) =
      bucket (fun a => decide (xclass ids a = c)) A 0 := by
    intro c
    simp [bucket]
  show (A.zipIdx.filterMap (fun x => if xclass ids x.1 = .first then some x.2 else none)
        ++ ids.flatMap (fun e => match e with
            | .int n => A.zipIdx.filterMap (fun x => if xclass ids x.1 = .after n then some x.2 else none)
            | _ => [])
        ++ A.zipIdx.filterMap (fun x => if xclass ids x.1 = .last then some x.2 else none)) = _
  rw [hb, hb, flatMap_ids_eq]
  congr 2
  apply List.flatMap_congr
  intro e _
  cases ids.getD e .null with
  | int n => simp only [afterQ]; exact hb _
  | str s => simp [afterQ, bucket]
  | null => simp [afterQ, bucket]

/-- the subtotals, in payload display order, are the crosswalk's positions -/
theorem subs_eq_crosswalk (ids : List Eid) (hids : ids.Nodup) (A : List RawAnchor) :
    (specSequence (List.range ids.length) (A.map (rawPlace ids)) []).filter (fun idx => idx < 0) =
      (crosswalkOrder (xclass ids) ids A).map (fun (i : Nat) => (i : Int) - (A.length : Int)) := by
  rw [subs_of_specSequence, crosswalkOrder_eq, List.map_append, List.map_append, List.map_flatMap]
  have hl : (A.map (rawPlace ids)).length = A.length := by simp
  congr 1
  · congr 1
    · rw [subsAt_bucket (fun a => decide (xclass ids a = .first)) .top _ A hl, hl]
      intro j h1 h2
      simp only [List.getElem_map]
      exact rawPlace_top ids A[j]
    · apply List.flatMap_congr
      intro e he
      simp only [List.mem_range] at he
      rw [subsAt_bucket (afterQ ids (ids.getD e .null)) (.after e) _ A hl, hl]
      intro j h1 h2
      simp only [List.getElem_map]
      exact rawPlace_after ids hids A[j] e he
  · rw [subsAt_bucket (fun a => decide (xclass ids a = .last)) .bottom _ A hl, hl]
    intro j h1 h2
    simp only [List.getElem_map]
    exact rawPlace_bottom ids A[j]

/-! ### rank -/

theorem findIdx?_beq_of_mem (l : List Int) (a : Int) (h : a ∈ l) :
    l.findIdx? (fun x => x == a) = some (l.idxOf a) := by
  induction l with
  | nil => cases h
  | cons x xs ih =>
    rw [List.findIdx?_cons, List.idxOf_cons]
    by_cases hx : x = a
    · simp [hx]
    · have : a ∈ xs := by
        rcases List.mem_cons.1 h with h | h
        · exact absurd h.symm hx
        · exact h
      have hb : (x == a) = false := by simp [hx]
      simp [hx, hb, ih this]

theorem idxOf_map_inj (l : List Nat) (m : Int) (i : Nat) :
    (l.map (fun (k : Nat) => (k : Int) - m)).idxOf ((i : Int) - m) = l.idxOf i := by
  induction l with
  | nil => rfl
  | cons x xs ih =>
    simp only [List.map_cons, List.idxOf_cons, ih]
    by_cases hx : x = i
    · subst hx
      simp
    · have h1 : (((x : Int) - m) == ((i : Int) - m)) = false := by
        rw [beq_eq_false_iff_ne]; omega
      have h2 : (x == i) = false := by rw [beq_eq_false_iff_ne]; exact hx
      rw [h1, h2]

theorem crosswalkId_eq (order : List Nat) (hnd : order.Nodup) (pos : Nat) (h : pos ∈ order) :
    crosswalkId order pos = some ((order.idxOf pos : Nat) + 1) := by
  unfold crosswalkId
  have : order.zipIdx.reverse.find? (fun x => x.1 == pos) = some (pos, order.idxOf pos) := by
    apply find?_unique
    · rw [List.mem_reverse, zipIdx_eq_map_idxOf order hnd]
      exact List.mem_map.2 ⟨pos, h, rfl⟩
    · simp
    · intro y hy hpy
      rw [List.mem_reverse, zipIdx_eq_map_idxOf order hnd] at hy
      obtain ⟨e, _, rfl⟩ := List.mem_map.1 hy
      simp only [beq_iff_eq] at hpy
      subst hpy
      rfl
  have h2 : (order.zipIdx.reverse.find? (fun (x : Nat × Nat) => match x with | (p, _) => p == pos)) =
      order.zipIdx.reverse.find? (fun x => x.1 == pos) := rfl
  rw [h2, this]
  rfl

/-- main statement -/
theorem view_id_eq_rank (ids : List Eid) (ins : List RawIns) (hids : ids.Nodup)
    (hlen : (ids.length : Int) ≤ maxsize)
    (hsome : ∃ r ∈ ins.filter (RawIns.valid ids), r.id = none) (i : Nat) (r : RawIns)
    (hi : (ins.filter (RawIns.valid ids))[i]? = some r) (hr : r.id = none) :
    (withIds true ids ins)[i]? =
      some (r.anchor, payloadRank ids ((ins.filter (RawIns.valid ids)).map
              (fun r => (normAnchor ids r.anchor).getD .bottom)) i) ∧
    (payloadRank ids ((ins.filter (RawIns.valid ids)).map
              (fun r => (normAnchor ids r.anchor).getD .bottom)) i).isSome := by
  set v := ins.filter (RawIns.valid ids) with hv
  set A := v.map (·.anchor) with hA
  have hilt : i < v.length := (List.getElem?_eq_some_iff.1 hi).1
  -- the dimension used by `payloadRank`
  set d : Dim := { elems := ids.map (fun i => { id := i }),
                   subs := (v.map (fun r => (normAnchor ids r.anchor).getD .bottom)).map
                            (fun a => { anchor := a, insId := 0 }) } with hd
  have hdids : d.ids = ids := by
    simp [hd, Dim.ids, List.map_map, Function.comp_def]
  have hdlen : d.elems.length = ids.length := by simp [hd]
  have hspec : specSigned d none [] = specSequence (List.range ids.length) (A.map (rawPlace ids)) [] := by
    unfold specSigned
    have hord : specElemOrder d.elems none = List.range ids.length := by
      simp [specElemOrder, baseIdxs, hdlen]
    have hhid : ∀ idx, isHidden (d.hid []) idx = false := by
      intro idx
      simp [isHidden, Dim.hid, hiddenIdxs, hd]
    simp only [hord, hdids, derivedPlaces, hhid, Bool.not_false, List.filter_true]
    congr 1
    simp only [hd, hA, List.map_map]
    apply List.map_congr_left
    intro r _
    rfl
  have hS : (specSigned d none []).filter (fun idx => idx < 0) =
      (crosswalkOrder (xclass ids) ids A).map (fun (k : Nat) => (k : Int) - (A.length : Int)) := by
    rw [hspec, subs_eq_crosswalk ids hids A]
  have hAlen : A.length = v.length := by simp [hA]
  have hsubslen : d.subs.length = v.length := by simp [hd]
  -- every position is displayed
  have hmemS : ((i : Int) - (A.length : Int)) ∈ (specSigned d none []).filter (fun idx => idx < 0) := by
    rw [List.mem_filter]
    have hneg : (i : Int) - (A.length : Int) < 0 := by omega
    refine ⟨?_, by simpa using hneg⟩
    rw [← payload_eq_spec d [] (by rw [hdids]; exact hids) (by rw [hdlen]; exact hlen)]
    have := (payload_subs_iff d [] ((i : Int) - (A.length : Int))).2
      (mem_negIdxs.2 (by rw [hsubslen]; omega))
    exact this.2
  have hO_nodup : (crosswalkOrder (xclass ids) ids A).Nodup := by
    have h1 : ((specSigned d none []).filter (fun idx => idx < 0)).Nodup :=
      (specSigned_nodup d none [] (by rw [hdids]; exact hids) (by rw [hdlen]; exact hlen)).filter _
    rw [hS] at h1
    exact List.Nodup.of_map _ h1
  have hiO : i ∈ crosswalkOrder (xclass ids) ids A := by
    rw [hS, List.mem_map] at hmemS
    obtain ⟨k, hk, hke⟩ := hmemS
    have : k = i := by omega
    exact this ▸ hk
  have hrank : payloadRank ids (v.map (fun r => (normAnchor ids r.anchor).getD .bottom)) i =
      some (((crosswalkOrder (xclass ids) ids A).idxOf i : Nat) + 1) := by
    unfold payloadRank
    simp only [List.length_map]
    have hfi := findIdx?_beq_of_mem _ _ hmemS
    rw [hAlen] at hfi
    have hd' : ({ elems := ids.map (fun i => ({ id := i } : Elem)),
                  subs := (v.map (fun r => (normAnchor ids r.anchor).getD .bottom)).map
                            (fun a => ({ anchor := a, insId := 0 } : Sub)) } : Dim) = d := rfl
    rw [hd', hfi, hS, hAlen, idxOf_map_inj]
    rfl
  refine ⟨?_, by rw [hrank]; rfl⟩
  rw [hrank]
  have hw : withIds true ids ins = v.zipIdx.map (fun x => (x.1.anchor,
      match x.1.id with
      | some k => some k
      | none => crosswalkId (crosswalkOrder (xclass ids) ids A) x.2)) := by
    unfold withIds withIdsGen
    simp only [← hv, not_all_of_exists hsome, Bool.false_eq_true, if_false, if_true, ← hA]
    rfl
  rw [hw, List.getElem?_map, List.getElem?_zipIdx, hi]
  simp only [Option.map_some, Nat.zero_add, hr]
  rw [crosswalkId_eq _ hO_nodup i hiO]

end CrCube.Lemmas.Crosswalk
