/-
  From the FLAT payload (JSON list incl. `{"?": code}` entries) to the reported cell:
  decoding, the reshape rule, the (permuted) reshape, the valid-index grid, the extractor.
-/
import CrCube.Lemmas.NumericShape

set_option linter.unusedSimpArgs false
set_option linter.unusedSectionVars false

namespace CrCube

theorem inRange_append (s1 s2 x1 x2 : List Nat) (h1 : InRange s1 x1) (h2 : InRange s2 x2) :
    InRange (s1 ++ s2) (x1 ++ x2) := by
  induction s1 generalizing x1 with
  | nil =>
    cases x1 with
    | nil => simpa using h2
    | cons _ _ => simp [InRange, inRangeB] at h1
  | cons s ss ih =>
    cases x1 with
    | nil => simp [InRange, inRangeB] at h1
    | cons i is =>
      simp only [InRange, inRangeB, Bool.and_eq_true, decide_eq_true_eq] at h1
      simp only [List.cons_append, InRange, inRangeB, Bool.and_eq_true, decide_eq_true_eq]
      exact ⟨h1.1, ih is h1.2⟩

theorem inRange_single (n i : Nat) (h : i < n) : InRange [n] [i] := by
  simp [InRange, inRangeB, h]

theorem validIdxs_getElem_lt (m : List Bool) (t : Nat) (ht : t < (validIdxs m).length) :
    (validIdxs m)[t] < m.length := by
  have hmem : (validIdxs m)[t] ∈ validIdxs m := List.getElem_mem ht
  unfold validIdxs at hmem
  exact List.mem_range.mp (List.mem_filter.mp hmem).1

theorem validIdxs_getD_lt (m : List Bool) (t : Nat) (ht : t < (validIdxs m).length) :
    (validIdxs m)[t]?.getD 0 < m.length := by
  rw [List.getElem?_eq_getElem ht]
  exact validIdxs_getElem_lt m t ht

/-- the design is well formed: a categorical variable declares as many categories as it has
    missing flags (an array's raw shape is taken from the flags already) -/
def Var.WF (v : Var) : Prop := v.kind = .cat → v.n = v.catMissing.length

theorem Var.CM.msub_inRange {v : Var} (h : v.CM) (wf : v.WF) (e : Nat) (he : e < v.ext) :
    InRange v.rawShape (v.msub e) := by
  rcases h with h | ⟨h, hm, h0⟩
  · have hn := wf h
    simp only [Var.ext, h] at he
    simp only [Var.rawShape, Var.msub, h, InRange, inRangeB, Bool.and_true, decide_eq_true_eq, hn]
    exact validIdxs_getD_lt _ e he
  · simp only [Var.ext, h] at he
    simp only [Var.rawShape, Var.msub, h, InRange, inRangeB, Bool.and_true, Bool.and_eq_true,
      decide_eq_true_eq]
    exact ⟨by rw [range_getD_lt _ e he]; exact he, validIdxs_getD_lt _ 0 h0⟩

/-- the reshape rule lets a complete payload through -/
theorem rawArray_allIdx (sh : List Nat) (f : List Nat → Val) :
    rawArray sh (some ((allIdx sh).map f)) = some (FT.ofFlat sh ((allIdx sh).map f)) := by
  simp [rawArray, allIdx_length]

theorem flatNumeric_backendFlat (vars : List Var) (k : Option Nat) (g : List Nat → PCell) :
    flatNumeric (some (backendFlat vars k g)) = some (backendFlat vars k (fun ix => (g ix).decode)) := by
  simp [flatNumeric, backendFlat, List.map_map, Function.comp_def]

/-- the "cannot reshape → None" rule, exactly -/
theorem rawArray_none_iff (sh : List Nat) (l : List Val) :
    rawArray sh (some l) = none ↔ l.length ≠ prodL sh := by
  unfold rawArray
  by_cases h : l.length = prodL sh <;> simp [h]

theorem validAxes_ne_nil (v : Var) : v.validAxes ≠ [] := by
  unfold Var.validAxes
  cases v.kind <;> simp

theorem prodL_append (a b : List Nat) : prodL (a ++ b) = prodL a * prodL b := by
  induction a with
  | nil => simp [prodL]
  | cons x xs ih => simp [prodL, ih, Nat.mul_assoc]

end CrCube
