/-
  Helper lemmas for `Props/C10_Pipeline.lean`: `Val` multiplication is commutative and associative
  (IEEE-style: NaN absorbing, 0 · ∞ = NaN), hence the z-score cell, the rank test and the block
  guards of `_Zscores` are symmetric under transposition.
-/
import CrCube.Model.PipelineTranspose
import CrCube.Lemmas.ValAlgebra
import Mathlib.Algebra.Order.Field.Rat
import Mathlib.Tactic.Linarith

set_option linter.unusedSimpArgs false
set_option linter.unusedVariables false

namespace CrCube.Lemmas.Transpose
open CrCube CrCube.Pipeline

theorem Val.mul_def (a b : Val) : a * b = Val.mul a b := rfl

theorem Val.mul_comm' (a b : Val) : a * b = b * a := by
  cases a <;> cases b <;> simp [Val.mul_def, Val.mul, Int.mul_comm, Rat.mul_comm]

/-- sign of a value as an `Int` in {-1, 0, 1}; the product rule -/
theorem sgn_fin_mul (a b : Rat) : Val.sgn (.fin (a * b)) = Val.sgn (.fin a) * Val.sgn (.fin b) := by
  unfold Val.sgn
  rcases lt_trichotomy a 0 with ha | ha | ha <;> rcases lt_trichotomy b 0 with hb | hb | hb
  · have := mul_pos_of_neg_of_neg ha hb
    simp [ha, hb, this, not_lt_of_gt ha, not_lt_of_gt hb]
  · subst hb; simp [ha, not_lt_of_gt ha]
  · have := mul_neg_of_neg_of_pos ha hb
    simp [ha, hb, this, not_lt_of_gt ha, not_lt_of_gt hb, not_lt_of_gt this]
  · subst ha; simp
  · subst ha; simp
  · subst ha; simp
  · have := mul_neg_of_pos_of_neg ha hb
    simp [ha, hb, this, not_lt_of_gt ha, not_lt_of_gt hb, not_lt_of_gt this]
  · subst hb; simp [ha, not_lt_of_gt ha]
  · have := mul_pos ha hb
    simp [ha, hb, this, not_lt_of_gt ha, not_lt_of_gt hb]

/-- value named by a sign: what a product with an infinite factor evaluates to -/
def ofSign (s : Int) : Val := if s > 0 then .pinf else if s < 0 then .ninf else .nan

theorem sgn_range (q : Rat) : Val.sgn (.fin q) = 1 ∨ Val.sgn (.fin q) = 0 ∨ Val.sgn (.fin q) = -1 := by
  simp only [Val.sgn]; split_ifs <;> simp

@[simp] theorem nan_mul (a : Val) : Val.nan * a = .nan := by cases a <;> rfl
@[simp] theorem mul_nan (a : Val) : a * Val.nan = .nan := by cases a <;> rfl
theorem fin_mul_fin (p q : Rat) : Val.fin p * Val.fin q = .fin (p * q) := rfl
theorem fin_mul_pinf (q : Rat) : Val.fin q * .pinf = ofSign (Val.sgn (.fin q)) := by
  simp [Val.mul_def, Val.mul, ofSign, Val.sgn]
theorem fin_mul_ninf (q : Rat) : Val.fin q * .ninf = ofSign (-Val.sgn (.fin q)) := by
  simp [Val.mul_def, Val.mul, ofSign, Val.sgn]
theorem pinf_mul_fin (q : Rat) : Val.pinf * .fin q = ofSign (Val.sgn (.fin q)) := by
  rw [Val.mul_comm', fin_mul_pinf]
theorem ninf_mul_fin (q : Rat) : Val.ninf * .fin q = ofSign (-Val.sgn (.fin q)) := by
  rw [Val.mul_comm', fin_mul_ninf]
theorem pinf_mul_pinf : Val.pinf * .pinf = ofSign 1 := rfl
theorem pinf_mul_ninf : Val.pinf * .ninf = ofSign (-1) := rfl
theorem ninf_mul_pinf : Val.ninf * .pinf = ofSign (-1) := rfl
theorem ninf_mul_ninf : Val.ninf * .ninf = ofSign 1 := rfl

theorem ofSign_cases (s : Int) :
    (0 < s ∧ ofSign s = .pinf) ∨ (s < 0 ∧ ofSign s = .ninf) ∨ (s = 0 ∧ ofSign s = .nan) := by
  unfold ofSign
  rcases lt_trichotomy s 0 with h | h | h
  · right; left; exact ⟨h, by simp [h, not_lt_of_gt h]⟩
  · right; right; exact ⟨h, by simp [h]⟩
  · left; exact ⟨h, by simp [h]⟩

theorem ofSign_congr (s t : Int) (h1 : 0 < s ↔ 0 < t) (h2 : s < 0 ↔ t < 0) : ofSign s = ofSign t := by
  unfold ofSign; simp only [gt_iff_lt, h1, h2]

theorem fin_mul_ofSign (q : Rat) (s : Int) : Val.fin q * ofSign s = ofSign (Val.sgn (.fin q) * s) := by
  rcases ofSign_cases s with ⟨h, e⟩ | ⟨h, e⟩ | ⟨h, e⟩ <;> rw [e]
  · rw [fin_mul_pinf]; apply ofSign_congr <;>
      rcases sgn_range q with g | g | g <;> rw [g] <;> constructor <;> intro <;> omega
  · rw [fin_mul_ninf]; apply ofSign_congr <;>
      rcases sgn_range q with g | g | g <;> rw [g] <;> constructor <;> intro <;> omega
  · subst h; simp [ofSign]

theorem ofSign_mul_fin (q : Rat) (s : Int) : ofSign s * Val.fin q = ofSign (s * Val.sgn (.fin q)) := by
  rw [Val.mul_comm', fin_mul_ofSign, Int.mul_comm]

theorem pinf_mul_ofSign (s : Int) : Val.pinf * ofSign s = ofSign s := by
  rcases ofSign_cases s with ⟨h, e⟩ | ⟨h, e⟩ | ⟨h, e⟩ <;> rw [e] <;> rfl
theorem ninf_mul_ofSign (s : Int) : Val.ninf * ofSign s = ofSign (-s) := by
  rcases ofSign_cases s with ⟨h, e⟩ | ⟨h, e⟩ | ⟨h, e⟩ <;> rw [e]
  · show Val.ninf = _; unfold ofSign; simp [h]; omega
  · show Val.pinf = _; unfold ofSign; simp [h]
  · subst h; rfl
theorem ofSign_mul_pinf (s : Int) : ofSign s * Val.pinf = ofSign s := by
  rw [Val.mul_comm', pinf_mul_ofSign]
theorem ofSign_mul_ninf (s : Int) : ofSign s * Val.ninf = ofSign (-s) := by
  rw [Val.mul_comm', ninf_mul_ofSign]

theorem Val.mul_assoc' (a b c : Val) : a * b * c = a * (b * c) := by
  cases a <;> cases b <;> cases c <;>
    simp only [nan_mul, mul_nan, fin_mul_fin, fin_mul_pinf, fin_mul_ninf, pinf_mul_fin, ninf_mul_fin,
      pinf_mul_pinf, pinf_mul_ninf, ninf_mul_pinf, ninf_mul_ninf, fin_mul_ofSign, ofSign_mul_fin,
      pinf_mul_ofSign, ninf_mul_ofSign, ofSign_mul_pinf, ofSign_mul_ninf, sgn_fin_mul] <;>
    first
      | rfl
      | (congr 1; exact Rat.mul_assoc _ _ _)
      | (congr 1; ring)

end CrCube.Lemmas.Transpose
