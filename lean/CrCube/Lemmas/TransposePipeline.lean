/-
  Helper lemmas for `Props/C10_Pipeline.lean`: the block constructors of `Model/Subtotals` and the
  measures of `Model/SubtotalMeasures` / `Model/Pipeline` commute with transposition.
-/
import CrCube.Model.PipelineTranspose
import CrCube.Lemmas.ValAlgebra
import CrCube.Props.C04
import CrCube.Lemmas.TransposeZ

set_option linter.unusedSimpArgs false
set_option linter.unusedVariables false

namespace CrCube.Lemmas.Transpose
open CrCube CrCube.Pipeline

theorem blocks_ext {a b : Blocks} (h1 : a.nr = b.nr) (h2 : a.nc = b.nc) (h3 : a.nrs = b.nrs)
    (h4 : a.ncs = b.ncs) (h5 : ∀ i j, a.body i j = b.body i j)
    (h6 : ∀ i j, a.insCols i j = b.insCols i j) (h7 : ∀ i j, a.insRows i j = b.insRows i j)
    (h8 : ∀ i j, a.inter i j = b.inter i j) : a = b := by
  cases a; cases b
  simp only [Blocks.mk.injEq] at *
  exact ⟨h1, h2, h3, h4, funext fun i => funext fun j => h5 i j, funext fun i => funext fun j => h6 i j,
    funext fun i => funext fun j => h7 i j, funext fun i => funext fun j => h8 i j⟩

@[simp] theorem blocks_transpose_transpose (b : Blocks) : b.transpose.transpose = b := rfl
@[simp] theorem matCounts_transpose_transpose (m : MatCounts) : m.transpose.transpose = m := rfl
@[simp] theorem subCtx_mirror_mirror (x : SubCtx) : x.mirror.mirror = x := rfl
@[simp] theorem dir_mirror_mirror (d : Dir) : d.mirror.mirror = d := by cases d <;> rfl
@[simp] theorem mkey_mirror_mirror (k : MKey) : k.mirror.mirror = k := by
  cases k <;> simp [MKey.mirror]

theorem blockAt_transpose (b : Blocks) (P Q : Pos) : blockAt b.transpose Q P = blockAt b P Q := by
  cases P <;> cases Q <;> rfl

/-! ## the subtotal block constructors -/

/-- the intersection of the transposed base values with the subtotals exchanged and the NaN flags
    exchanged is the intersection (C04 `intersection_symmetric`) -/
theorem sumSub_inter_transpose (b : Nat → Nat → Val) (f1 f2 : Bool) (s1 s2 : Subtotal) :
    SumSub.inter (fun i j => b j i) f1 f2 s1 s2 = SumSub.inter b f2 f1 s2 s1 := by
  rw [C04.intersection_symmetric b f2 f1 s2 s1]
  unfold SumSub.inter SumSub.interColsFirst
  have hc : ((s2.isDiff && s1.isDiff) || (s2.isDiff && f1) || (s1.isDiff && f2))
      = ((s1.isDiff && s2.isDiff) || (s1.isDiff && f2) || (s2.isDiff && f1)) := by
    cases s1.isDiff <;> cases s2.isDiff <;> cases f1 <;> cases f2 <;> rfl
  rw [hc]
  rfl

theorem sumSub_blocks_transpose (b : Nat → Nat → Val) (nr nc : Nat) (rs cs : List Subtotal)
    (f1 f2 : Bool) :
    SumSub.blocks (fun i j => b j i) nc nr cs rs f1 f2 = (SumSub.blocks b nr nc rs cs f2 f1).transpose := by
  apply blocks_ext <;> intros <;> first | rfl | exact sumSub_inter_transpose _ _ _ _ _

theorem posSub_inter_transpose (b : Nat → Nat → Val) (s1 s2 : Subtotal) :
    PosSub.inter (fun i j => b j i) s1 s2 = PosSub.inter b s2 s1 := by
  unfold PosSub.inter PosSub.row
  rw [Bool.and_comm]
  split
  · rfl
  · exact sumAt_comm _ _ _

theorem posSub_blocks_transpose (b : Nat → Nat → Val) (nr nc : Nat) (rs cs : List Subtotal) :
    PosSub.blocks (fun i j => b j i) nc nr cs rs = (PosSub.blocks b nr nc rs cs).transpose := by
  apply blocks_ext <;> intros <;> first | rfl | exact posSub_inter_transpose _ _ _

theorem negSub_inter_transpose (b : Nat → Nat → Val) (s1 s2 : Subtotal) :
    NegSub.inter (fun i j => b j i) s1 s2 = NegSub.inter b s2 s1 := by
  unfold NegSub.inter
  cases h1 : s1.isDiff <;> cases h2 : s2.isDiff <;> simp

theorem negSub_blocks_transpose (b : Nat → Nat → Val) (nr nc : Nat) (rs cs : List Subtotal) :
    NegSub.blocks (fun i j => b j i) nc nr cs rs = (NegSub.blocks b nr nc rs cs).transpose := by
  apply blocks_ext <;> intros <;> first | rfl | exact negSub_inter_transpose _ _ _

theorem nanSub_blocks_transpose (b : Nat → Nat → Val) (nr nc : Nat) (rs cs : List Subtotal) :
    NanSub.blocks (fun i j => b j i) nc nr cs rs = (NanSub.blocks b nr nc rs cs).transpose := rfl

/-! ## counts, bases, proportions -/

theorem counts_transpose (m : MatCounts) (d : Bool) (x : SubCtx) :
    Msr.counts m.transpose d x.mirror = (Msr.counts m d x).transpose :=
  sumSub_blocks_transpose m.counts m.nrows m.ncols x.rowSubs x.colSubs d d

theorem rowWeightedBases_transpose (m : MatCounts) (x : SubCtx) :
    Msr.rowWeightedBases m.transpose x.mirror = (Msr.columnWeightedBases m x).transpose := rfl

theorem columnWeightedBases_transpose (m : MatCounts) (x : SubCtx) :
    Msr.columnWeightedBases m.transpose x.mirror = (Msr.rowWeightedBases m x).transpose := rfl

theorem rowUnweightedBases_transpose (m : MatCounts) (x : SubCtx) :
    Msr.rowUnweightedBases m.transpose x.mirror = (Msr.columnUnweightedBases m x).transpose := rfl

theorem columnUnweightedBases_transpose (m : MatCounts) (x : SubCtx) :
    Msr.columnUnweightedBases m.transpose x.mirror = (Msr.rowUnweightedBases m x).transpose := rfl

theorem tableBases_transpose (m : MatCounts) (x : SubCtx) :
    Msr.tableBases m.transpose x.mirror = (Msr.tableBases m x).transpose := rfl

theorem counts_inter_transpose (m : MatCounts) (d : Bool) (x : SubCtx) (k l : Nat) :
    (Msr.counts m.transpose d x.mirror).inter k l = (Msr.counts m d x).inter l k := by
  rw [counts_transpose]; rfl

theorem rowProportions_transpose (m : MatCounts) (d : Bool) (x : SubCtx) :
    Msr.rowProportions m.transpose d x.mirror = (Msr.columnProportions m d x).transpose := by
  apply blocks_ext <;> intros <;> first
    | rfl
    | (show (Msr.counts m.transpose d x.mirror).inter _ _ / _ = (Msr.counts m d x).inter _ _ / _
       rw [counts_inter_transpose]; rfl)

theorem columnProportions_transpose (m : MatCounts) (d : Bool) (x : SubCtx) :
    Msr.columnProportions m.transpose d x.mirror = (Msr.rowProportions m d x).transpose := by
  apply blocks_ext <;> intros <;> first
    | rfl
    | (show (Msr.counts m.transpose d x.mirror).inter _ _ / _ = (Msr.counts m d x).inter _ _ / _
       rw [counts_inter_transpose]; rfl)

theorem tableProportions_transpose (m : MatCounts) (d : Bool) (x : SubCtx) :
    Msr.tableProportions m.transpose d x.mirror = (Msr.tableProportions m d x).transpose := by
  apply blocks_ext <;> intros <;> first
    | rfl
    | (show (Msr.counts m.transpose d x.mirror).inter _ _ / _ = (Msr.counts m d x).inter _ _ / _
       rw [counts_inter_transpose]; rfl)

theorem dirPropBlocks_transpose (m : MatCounts) (x : SubCtx) (d : Dir) :
    dirPropBlocks m.transpose x.mirror d.mirror = (dirPropBlocks m x d).transpose := by
  cases d
  · exact columnProportions_transpose m false x
  · exact rowProportions_transpose m false x
  · exact tableProportions_transpose m false x

theorem dirBaseBlocks_transpose (m : MatCounts) (x : SubCtx) (d : Dir) :
    dirBaseBlocks m.transpose x.mirror d.mirror = (dirBaseBlocks m x d).transpose := by
  cases d <;> rfl

/-! ## numeric measures: sums and shares of sum -/

/-- NaN read as 0 (what `np.nansum` adds) -/
def nz (x : Val) : Val := if x.isNan then .fin 0 else x

theorem foldl_nansum_eq (l : List Val) (acc : Val) :
    l.foldl (fun acc x => if x.isNan then acc else acc + x) acc = (l.map nz).foldl (· + ·) acc := by
  induction l generalizing acc with
  | nil => rfl
  | cons x xs ih =>
    simp only [List.foldl_cons, List.map_cons]
    rw [ih]
    congr 1
    unfold nz
    split <;> simp

theorem nansum_eq_sum (l : List Val) : Val.nansum l = Val.sum (l.map nz) := by
  unfold Val.nansum Val.sum
  exact foldl_nansum_eq l _

theorem sum_flatten (L : List (List Val)) : Val.sum L.flatten = Val.sum (L.map Val.sum) := by
  induction L with
  | nil => rfl
  | cons l ls ih => simp [Val.sum_append, Val.sum_cons, ih]

theorem nansumAll_eq (nr nc : Nat) (f : Nat → Nat → Val) :
    nansumAll nr nc f = vsum nr (fun i => vsum nc (fun j => nz (f i j))) := by
  unfold nansumAll vsum tab2
  rw [nansum_eq_sum, List.map_flatten, sum_flatten]
  simp [List.map_map, Function.comp_def]

/-- `np.nansum(block)` = `np.nansum(block.T)` -/
theorem nansumAll_transpose (nr nc : Nat) (f : Nat → Nat → Val) :
    nansumAll nc nr (fun i j => f j i) = nansumAll nr nc f := by
  rw [nansumAll_eq, nansumAll_eq]
  unfold vsum
  exact Val.sum_comm _ _ _

theorem sums_transpose (v : Nat → Nat → Val) (nr nc : Nat) (x : SubCtx) :
    Msr.sums (fun i j => v j i) nc nr x.mirror = (Msr.sums v nr nc x).transpose :=
  sumSub_blocks_transpose v nr nc x.rowSubs x.colSubs true true

theorem nanMeasure_transpose (v : Nat → Nat → Val) (nr nc : Nat) (x : SubCtx) :
    Msr.nanMeasure (fun i j => v j i) nc nr x.mirror = (Msr.nanMeasure v nr nc x).transpose := rfl

theorem columnShareSum_transpose (v : Nat → Nat → Val) (nr nc : Nat) (x : SubCtx) :
    Msr.columnShareSum (fun i j => v j i) nc nr x.mirror = (Msr.rowShareSum v nr nc x).transpose := by
  unfold Msr.columnShareSum Msr.rowShareSum
  simp only [sums_transpose]
  rfl

theorem rowShareSum_transpose (v : Nat → Nat → Val) (nr nc : Nat) (x : SubCtx) :
    Msr.rowShareSum (fun i j => v j i) nc nr x.mirror = (Msr.columnShareSum v nr nc x).transpose := by
  unfold Msr.columnShareSum Msr.rowShareSum
  simp only [sums_transpose]
  rfl

theorem totalShareSum_transpose (v : Nat → Nat → Val) (nr nc : Nat) (x : SubCtx) :
    Msr.totalShareSum (fun i j => v j i) nc nr x.mirror = (Msr.totalShareSum v nr nc x).transpose := by
  unfold Msr.totalShareSum
  simp only [sums_transpose]
  have h : nansumAll nc nr (Msr.sums v nr nc x).transpose.body = nansumAll nr nc (Msr.sums v nr nc x).body :=
    nansumAll_transpose nr nc _
  rw [h]
  rfl

/-! ## C11: the variance family -/

/-- the cell of the transposed table: direction mirrored, the two sides exchanged -/
def VarCell.mirror (c : VarCell) : VarCell :=
  { c with dir := c.dir.mirror, R := c.C, C := c.R
           rowsCatDate := c.colsCatDate, colsCatDate := c.rowsCatDate }

theorem varCell_total_mirror (c : VarCell) : (VarCell.mirror c).total = c.total := by
  unfold VarCell.total VarCell.mirror; cases c.dir <;> rfl

theorem varCell_count_mirror (c : VarCell) : (VarCell.mirror c).count = c.count := by
  unfold VarCell.count VarCell.bothDiff VarCell.mirror; simp only [Bool.and_comm]

theorem varCell_posCount_mirror (c : VarCell) : (VarCell.mirror c).posCount = c.posCount := by
  unfold VarCell.posCount VarCell.bothDiff VarCell.mirror; simp only [Bool.and_comm]

theorem varCell_negCount_mirror (c : VarCell) : (VarCell.mirror c).negCount = c.negCount := by
  unfold VarCell.negCount VarCell.bothDiff VarCell.mirror; simp only [Bool.and_comm]

theorem varCell_proportion_mirror (c : VarCell) : (VarCell.mirror c).proportion = c.proportion := by
  unfold VarCell.proportion
  rw [varCell_count_mirror, varCell_total_mirror]
  unfold VarCell.mirror
  cases c.dir <;> simp only [Dir.mirror] <;>
    cases c.R.inserted <;> cases c.C.inserted <;> simp

/-- **the three-term variance of a cell does not depend on which dimension is called rows** -/
theorem varCell_variance_mirror (c : VarCell) : (VarCell.mirror c).variance = c.variance := by
  unfold VarCell.variance
  rw [varCell_proportion_mirror, varCell_total_mirror, varCell_posCount_mirror, varCell_negCount_mirror]

theorem dirBases_transpose (m : MatCounts) (d : Dir) (i j : Nat) :
    dirBases m.transpose d.mirror i j = dirBases m d j i := by cases d <;> rfl

theorem waveTerms_transpose (m : MatCounts) (x : SubCtx) (d : Dir) (P Q : Pos) :
    waveTerms m.transpose x.mirror d.mirror Q P = waveTerms m x d P Q := by
  cases d <;> cases P <;> cases Q <;> rfl

theorem varCellAt_transpose (m : MatCounts) (x : SubCtx) (d : Dir) (P Q : Pos) :
    varCellAt m.transpose x.mirror d.mirror Q P = VarCell.mirror (varCellAt m x d P Q) := by
  unfold varCellAt VarCell.mirror
  simp only [waveTerms_transpose, dirBaseBlocks_transpose, blockAt_transpose]
  have hp := posSub_blocks_transpose m.counts m.nrows m.ncols x.rowSubs x.colSubs
  have hn := negSub_blocks_transpose m.counts m.nrows m.ncols x.rowSubs x.colSubs
  show VarCell.mk _ _ _ _ _ (blockAt (PosSub.blocks (fun i j => m.counts j i) m.ncols m.nrows x.colSubs x.rowSubs) Q P)
      (blockAt (NegSub.blocks (fun i j => m.counts j i) m.ncols m.nrows x.colSubs x.rowSubs) Q P) _ _ _ _ _ = _
  rw [hp, hn, blockAt_transpose, blockAt_transpose]
  rfl

theorem varianceBlocks_transpose (m : MatCounts) (x : SubCtx) (d : Dir) :
    varianceBlocks m.transpose x.mirror d.mirror = (varianceBlocks m x d).transpose := by
  apply blocks_ext <;> intros <;> first
    | rfl
    | (simp only [varianceBlocks, blocksOfFn, Blocks.transpose]
       rw [varCellAt_transpose, varCell_variance_mirror])

theorem stdErrKeyBlocks_transpose (m : MatCounts) (x : SubCtx) (d : Dir) :
    stdErrKeyBlocks m.transpose x.mirror d.mirror = (stdErrKeyBlocks m x d).transpose := by
  apply blocks_ext <;> intros <;> first
    | rfl
    | (simp only [stdErrKeyBlocks, blocksOfFn, Blocks.transpose]
       rw [varCellAt_transpose, varCell_variance_mirror, varCell_total_mirror])

/-! ## C12: z-scores and p-values -/

/-- the cell of the transposed table: row base and column base exchanged -/
def ZCell.mirror (x : ZCell) : ZCell := { n := x.n, t := x.t, r := x.c, c := x.r }

theorem zcell_expected_mirror (x : ZCell) : (ZCell.mirror x).expected = x.expected := by
  unfold ZCell.expected ZCell.mirror
  rw [Val.mul_comm' x.c x.r]

theorem zcell_variance_mirror (x : ZCell) : (ZCell.mirror x).variance = x.variance := by
  unfold ZCell.variance ZCell.mirror
  show x.c * x.r * (x.t - x.c) * (x.t - x.r) / _ = x.r * x.c * (x.t - x.r) * (x.t - x.c) / _
  rw [Val.mul_comm' x.c x.r, Val.mul_assoc' (x.r * x.c) (x.t - x.c) (x.t - x.r),
    Val.mul_comm' (x.t - x.c) (x.t - x.r), ← Val.mul_assoc']

theorem zCellAt_transpose (m : MatCounts) (x : SubCtx) (P Q : Pos) :
    zCellAt m.transpose x.mirror Q P = ZCell.mirror (zCellAt m x P Q) := by
  unfold zCellAt ZCell.mirror
  rw [counts_transpose, tableBases_transpose, rowWeightedBases_transpose, columnWeightedBases_transpose]
  simp only [blockAt_transpose]

/-- **rank < 2 is a property of the matrix, not of its orientation** -/
theorem minorsVanish_transpose (nr nc : Nat) (m : Nat → Nat → Val) :
    minorsVanish nc nr (fun i j => m j i) = minorsVanish nr nc m := by
  rw [Bool.eq_iff_iff]
  simp only [minorsVanish, List.all_eq_true, List.mem_range]
  constructor
  · intro h i hi k hk j hj l hl
    have := h j hj l hl i hi k hk
    rwa [Val.mul_comm' (m k j) (m i l)] at this
  · intro h j hj l hl i hi k hk
    have := h i hi k hk j hj l hl
    rwa [Val.mul_comm' (m i l) (m k j)] at this

/-- `_Zscores._is_defective` is symmetric -/
theorem isDefective_transpose (nr nc : Nat) (m : Nat → Nat → Val) :
    isDefective nc nr (fun i j => m j i) = isDefective nr nc m := by
  unfold isDefective
  rw [minorsVanish_transpose, Bool.or_comm (nc == 0) (nr == 0)]

theorem all_all_swap {α β : Type} (l₁ : List α) (l₂ : List β) (f : α → β → Bool) :
    (l₂.all fun b => l₁.all fun a => f a b) = (l₁.all fun a => l₂.all fun b => f a b) := by
  rw [Bool.eq_iff_iff]
  simp only [List.all_eq_true]
  constructor <;> intro h x hx y hy <;> exact h y hy x hx

theorem allRowFull_transpose {α β : Type} (l₁ : List α) (l₂ : List β) (f : α → β → ZCell) :
    allRowFull (l₂.map fun q => l₁.map fun p => ZCell.mirror (f p q))
      = allColFull (l₁.map fun p => l₂.map fun q => f p q) := by
  unfold allRowFull allColFull
  simp only [List.all_map, Function.comp_def]
  exact all_all_swap l₁ l₂ (fun p q => (f p q).t.beqIEEE (f p q).c)

theorem allColFull_transpose {α β : Type} (l₁ : List α) (l₂ : List β) (f : α → β → ZCell) :
    allColFull (l₂.map fun q => l₁.map fun p => ZCell.mirror (f p q))
      = allRowFull (l₁.map fun p => l₂.map fun q => f p q) := by
  unfold allRowFull allColFull
  simp only [List.all_map, Function.comp_def]
  exact all_all_swap l₁ l₂ (fun p q => (f p q).t.beqIEEE (f p q).r)

/-- the per-block guard of `_calculate_zscores` is symmetric -/
theorem blockGuard_transpose (m : MatCounts) (x : SubCtx) (P Q : Pos) :
    blockGuard (isDefective m.transpose.nrows m.transpose.ncols m.transpose.counts)
        (zBlockCells m.transpose x.mirror Q P)
      = blockGuard (isDefective m.nrows m.ncols m.counts) (zBlockCells m x P Q) := by
  unfold blockGuard zBlockCells
  have hd : isDefective m.transpose.nrows m.transpose.ncols m.transpose.counts
      = isDefective m.nrows m.ncols m.counts := isDefective_transpose m.nrows m.ncols m.counts
  rw [hd]
  simp only [zCellAt_transpose]
  have h1 := allRowFull_transpose (regionOf m.nrows x.rowSubs.length P) (regionOf m.ncols x.colSubs.length Q)
    (fun p q => zCellAt m x p q)
  have h2 := allColFull_transpose (regionOf m.nrows x.rowSubs.length P) (regionOf m.ncols x.colSubs.length Q)
    (fun p q => zCellAt m x p q)
  show (_ || allRowFull ((regionOf m.ncols x.colSubs.length Q).map fun q =>
      (regionOf m.nrows x.rowSubs.length P).map fun p => ZCell.mirror (zCellAt m x p q))
    || allColFull ((regionOf m.ncols x.colSubs.length Q).map fun q =>
      (regionOf m.nrows x.rowSubs.length P).map fun p => ZCell.mirror (zCellAt m x p q))) = _
  rw [h1, h2, Bool.or_assoc, Bool.or_assoc, Bool.or_comm (allColFull _) (allRowFull _)]

theorem zGuards_at_transpose (m : MatCounts) (x : SubCtx) (P Q : Pos) :
    (zGuards m.transpose x.mirror).at Q P = (zGuards m x).at P Q := by
  cases P <;> cases Q <;> simp only [ZGuards.at, zGuards] <;> exact blockGuard_transpose m x _ _

theorem zKeyBlocks_transpose (m : MatCounts) (x : SubCtx) :
    zKeyBlocks m.transpose x.mirror = (zKeyBlocks m x).transpose := by
  apply blocks_ext <;> intros <;> first
    | rfl
    | (simp only [zKeyBlocks, blocksOfFn, Blocks.transpose]
       rw [zGuards_at_transpose, zCellAt_transpose, zcell_expected_mirror, zcell_variance_mirror]
       rfl)

theorem pKeyBlocks_transpose (m : MatCounts) (x : SubCtx) :
    pKeyBlocks m.transpose x.mirror = (pKeyBlocks m x).transpose := by
  apply blocks_ext <;> intros <;> first
    | rfl
    | (simp only [pKeyBlocks, blocksOfFn, Blocks.transpose]
       rw [zKeyBlocks_transpose, blockAt_transpose])

end CrCube.Lemmas.Transpose
