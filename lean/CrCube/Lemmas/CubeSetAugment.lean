/-
  `Cube.augment_response`: the new count vector is the zero vector of the summary's length with this
  cube's counts written at the positions given by the IDS of the matching summary elements
  (`scatter`), and a second call is a no-op (the length guard is false afterwards).
-/
import CrCube.Lemmas.CubeSetInflate

set_option linter.unusedSimpArgs false

namespace CrCube.Glue
open CrCube

/-! ### `scatter` with natural-number positions -/

theorem setAt_nat (data : List J) (p : Nat) (v : J) (h : p < data.length) :
    setAt data (jNat p) v = .ok (data.set p v) := by
  have h1 : ¬ ((p : Int) < 0) := by omega
  have h2 : (p : Int) < (data.length : Int) := by omega
  have h3 : (0 : Int) ≤ (p : Int) := by omega
  simp [setAt, jNat, Rat.den_natCast, Rat.num_natCast, h1, h2, h3]

theorem setAt_nat_oob (data : List J) (p : Nat) (v : J) (h : ¬ p < data.length) :
    setAt data (jNat p) v = .error .indexError := by
  have h1 : ¬ ((p : Int) < 0) := by omega
  have h2 : ¬ (p : Int) < (data.length : Int) := by omega
  simp [setAt, jNat, Rat.den_natCast, Rat.num_natCast, h1, h2]

/-- the pure scatter -/
def scatterNat : List J → List Nat → List J → List J
  | data, p :: ps, c :: cs => scatterNat (data.set p c) ps cs
  | data, _, _ => data

theorem scatterNat_length (data : List J) (ps : List Nat) (cs : List J) :
    (scatterNat data ps cs).length = data.length := by
  induction ps generalizing data cs with
  | nil => simp [scatterNat]
  | cons p ps ih =>
    cases cs with
    | nil => simp [scatterNat]
    | cons c cs => simp [scatterNat, ih]

theorem scatter_nat (data : List J) (ps : List Nat) (cs : List J)
    (h : ∀ k, k < ps.length → k < cs.length → ps[k]! < data.length) :
    scatter data (ps.map jNat) cs = .ok (scatterNat data ps cs) := by
  induction ps generalizing data cs with
  | nil => cases cs <;> simp [scatter, scatterNat]
  | cons p ps ih =>
    cases cs with
    | nil => simp [scatter, scatterNat]
    | cons c cs =>
      have hp : p < data.length := by simpa using h 0 (by simp) (by simp)
      simp only [List.map_cons, scatter, setAt_nat data p c hp, R_bind_ok, scatterNat]
      apply ih
      intro k hk1 hk2
      have := h (k + 1) (by simpa using hk1) (by simpa using hk2)
      simpa using this

/-- a position not written keeps its value -/
theorem scatterNat_untouched (data : List J) (ps : List Nat) (cs : List J) (i : Nat)
    (h : ∀ k, k < ps.length → k < cs.length → ps[k]! ≠ i) :
    (scatterNat data ps cs)[i]? = data[i]? := by
  induction ps generalizing data cs with
  | nil => simp [scatterNat]
  | cons p ps ih =>
    cases cs with
    | nil => simp [scatterNat]
    | cons c cs =>
      simp only [scatterNat]
      rw [ih]
      · have hp : p ≠ i := by simpa using h 0 (by simp) (by simp)
        simp [List.getElem?_set, hp]
      · intro k hk1 hk2
        have := h (k + 1) (by simpa using hk1) (by simpa using hk2)
        simpa using this

/-- the k-th position written receives the k-th count (positions pairwise distinct) -/
theorem scatterNat_written (data : List J) (ps : List Nat) (cs : List J) (hn : ps.Nodup) (k : Nat)
    (hk1 : k < ps.length) (hk2 : k < cs.length) (hb : ps[k]! < data.length) :
    (scatterNat data ps cs)[ps[k]!]? = some cs[k]! := by
  induction ps generalizing data cs k with
  | nil => simp at hk1
  | cons p ps ih =>
    cases cs with
    | nil => simp at hk2
    | cons c cs =>
      simp only [scatterNat]
      have hnd := List.nodup_cons.mp hn
      cases k with
      | zero =>
        simp only [List.getElem!_cons_zero] at hb ⊢
        rw [scatterNat_untouched]
        · simp [List.getElem?_set, hb]
        · intro k hk _ hc
          have : ps[k]! ∈ ps := by
            rw [List.getElem!_eq_getElem?_getD, List.getElem?_eq_getElem hk]
            simp
          rw [hc] at this
          exact hnd.1 this
      | succ k =>
        simp only [List.getElem!_cons_succ] at hb ⊢
        apply ih _ _ hnd.2 k (by simpa using hk1) (by simpa using hk2)
        simpa using hb


/-! ### typed summary / own elements -/

/-- an enum element `{"id": id, "value": value, …}` with a string value -/
structure AElem where
  id : Nat
  value : String
  extra : List (String × J) := []

def renderA (e : AElem) : J := .obj ([("id", jNat e.id), ("value", .str e.value)] ++ e.extra)

/-- an element whose value is a dict (the `{"?": -1}` of a missing element): never matched -/
def DictValued (t : J) : Prop := ∃ kvs, item t "value" = .ok (.obj kvs) ∧ get t "value" .null = .ok (.obj kvs)

theorem any_scalarEq_str (V : List String) (x : String) :
    (V.map J.str).any (fun w => scalarEq w (.str x)) = V.contains x := by
  induction V with
  | nil => rfl
  | cons v vs ih =>
    simp only [List.map_cons, List.any_cons, scalarEq_str, ih, List.contains_cons]
    congr 1
    by_cases h : v = x
    · subst h; simp
    · have h1 : (v == x) = false := by simpa using h
      have h2 : (x == v) = false := by simpa using (fun e : x = v => h e.symm)
      rw [h1, h2]

theorem any_scalarEq_obj (vals : List J) (kvs : List (String × J)) (h : ∀ w ∈ vals, ∃ s, w = .str s) :
    vals.any (fun w => scalarEq w (.obj kvs)) = false := by
  rw [List.any_eq_false]
  intro w hw
  obtain ⟨s, rfl⟩ := h w hw
  simp [scalarEq, J.asNum?]

theorem positionsOf_append (values a b : List J) (pa pb : List J) (ha : positionsOf values a = .ok pa)
    (hb : positionsOf values b = .ok pb) : positionsOf values (a ++ b) = .ok (pa ++ pb) := by
  induction a generalizing pa with
  | nil => simp only [positionsOf] at ha; cases ha; simpa using hb
  | cons x xs ih =>
    simp only [List.cons_append, positionsOf] at ha ⊢
    cases hv : item x "value" with
    | error e => simp [hv] at ha
    | ok v =>
      simp only [hv, R_bind_ok] at ha ⊢
      by_cases hm : (values.any fun w => scalarEq w v) = true
      · simp only [hm, if_true] at ha ⊢
        cases hi : item x "id" with
        | error e => simp [hi] at ha
        | ok i =>
          cases hr : positionsOf values xs with
          | error e => simp [hi, hr] at ha
          | ok r =>
            simp only [hi, hr, R_bind_ok, R_pure] at ha ⊢
            cases ha
            simp [ih r hr]
      · simp only [hm, Bool.false_eq_true, if_false] at ha ⊢
        exact ih pa ha

theorem positionsOf_typed (V : List String) (S : List AElem) :
    positionsOf (V.map J.str) (S.map renderA)
      = .ok ((S.filter (fun e => V.contains e.value)).map (fun e => jNat e.id)) := by
  induction S with
  | nil => rfl
  | cons e es ih =>
    have hv : item (renderA e) "value" = .ok (.str e.value) := by simp [renderA, item, List.lookup]
    have hi : item (renderA e) "id" = .ok (jNat e.id) := by simp [renderA, item, List.lookup]
    simp only [List.map_cons, positionsOf, hv, R_bind_ok, any_scalarEq_str, hi, ih, R_pure,
      List.filter_cons]
    cases V.contains e.value <;> simp

theorem positionsOf_tail (V : List String) (tail : List J) (h : ∀ t ∈ tail, DictValued t) :
    positionsOf (V.map J.str) tail = .ok [] := by
  induction tail with
  | nil => rfl
  | cons t ts ih =>
    obtain ⟨kvs, hk, _⟩ := h t List.mem_cons_self
    simp only [positionsOf, hk, R_bind_ok,
      any_scalarEq_obj (V.map J.str) kvs (by intro w hw; obtain ⟨s, _, rfl⟩ := List.mem_map.mp hw; exact ⟨s, rfl⟩),
      Bool.false_eq_true, if_false]
    exact ih (fun t' ht' => h t' (List.mem_cons_of_mem _ ht'))

theorem ownValues_typed (O : List AElem) (otail : List J) (h : ∀ t ∈ otail, DictValued t) :
    ∃ vals, mapR (fun el => get el "value" .null) (O.map renderA ++ otail) = .ok vals ∧
      vals.filter isIntOrStr = (O.map (·.value)).map J.str := by
  have h1 : mapR (fun el => get el "value" .null) (O.map renderA) = .ok (O.map (fun e => J.str e.value)) := by
    apply mapR_map_ok
    intro e _
    simp [renderA, get, List.lookup]
  have h2 : ∃ tv, mapR (fun el => get el "value" .null) otail = .ok tv ∧ tv.filter isIntOrStr = [] := by
    induction otail with
    | nil => exact ⟨[], rfl, rfl⟩
    | cons t ts ih =>
      obtain ⟨kvs, _, hk⟩ := h t List.mem_cons_self
      obtain ⟨tv, htv, hf⟩ := ih (fun t' ht' => h t' (List.mem_cons_of_mem _ ht'))
      exact ⟨.obj kvs :: tv, by simp [mapR, hk, htv], by simp [List.filter_cons, isIntOrStr, hf]⟩
  obtain ⟨tv, htv, hf⟩ := h2
  refine ⟨_, mapR_append_ok h1 htv, ?_⟩
  rw [List.filter_append, hf, List.append_nil, List.map_map]
  rw [List.filter_eq_self.mpr]
  · rfl
  · intro w hw
    obtain ⟨e, _, rfl⟩ := List.mem_map.mp hw
    rfl

/-- `augmentData` on a typed summary and cube: the scatter of the counts over the ids of the matched
    summary elements, in summary order -/
theorem augmentData_typed (S O : List AElem) (stail otail : List J) (counts : List J) (sn : Nat)
    (hst : ∀ t ∈ stail, DictValued t) (hot : ∀ t ∈ otail, DictValued t) :
    augmentData (S.map renderA ++ stail) (O.map renderA ++ otail) counts sn
      = scatter (List.replicate sn (J.num 0))
          ((S.filter (fun e => (O.map (·.value)).contains e.value)).map (fun e => jNat e.id)) counts := by
  obtain ⟨vals, hv, hf⟩ := ownValues_typed O otail hot
  unfold augmentData
  simp only [hv, R_bind_ok, hf]
  rw [positionsOf_append _ _ _ _ _ (positionsOf_typed _ S) (positionsOf_tail _ stail hst)]
  simp


/-! ### a second `augment_response` is a no-op -/

theorem setAt_length {data : List J} {p v : J} {d : List J} (h : setAt data p v = .ok d) :
    d.length = data.length := by
  cases p with
  | num q =>
    simp only [setAt] at h
    split at h <;> (try split at h) <;> (try split at h) <;> (try split at h) <;>
      first | (cases h; simp) | (cases h)
  | bool b =>
    simp only [setAt] at h
    split at h <;> (try split at h) <;> (try split at h) <;> first | (cases h; simp) | (cases h)
  | null => simp [setAt] at h
  | str s => simp [setAt] at h
  | arr l => simp [setAt] at h
  | obj kvs => simp [setAt] at h

theorem scatter_length {data ps cs d : List J} (h : scatter data ps cs = .ok d) : d.length = data.length := by
  induction ps generalizing data cs with
  | nil => simp only [scatter] at h; cases h; rfl
  | cons p ps ih =>
    cases cs with
    | nil => simp only [scatter] at h; cases h; rfl
    | cons c cs =>
      simp only [scatter] at h
      obtain ⟨d1, h1, h2⟩ := bind_eq_ok h
      rw [ih h2, setAt_length h1]

theorem assign_eq_ok {x : J} {k : String} {v y : J} (h : assign x k v = .ok y) :
    ∃ kvs, x = .obj kvs ∧ y = .obj (setKey k v kvs) := by
  cases x <;> simp [assign] at h
  exact ⟨_, rfl, h.symm⟩

theorem item_eq_ok {x : J} {k : String} {v : J} (h : item x k = .ok v) :
    ∃ kvs, x = .obj kvs ∧ kvs.lookup k = some v := by
  cases x <;> simp [item] at h
  rename_i kvs
  cases hl : kvs.lookup k with
  | none => simp [hl] at h
  | some w => simp [hl] at h; exact ⟨kvs, rfl, by rw [hl, h]⟩

/-- after the three writes `result.counts` is the new vector -/
theorem augmentWrite_counts {resp elements r' : J} {data : List J}
    (h : augmentWrite resp elements data = .ok r') :
    (item r' "result" >>= fun r => item r "counts") = .ok (.arr data) := by
  unfold augmentWrite at h
  obtain ⟨r1, _, h⟩ := bind_eq_ok h
  obtain ⟨r2, h2, h3⟩ := bind_eq_ok h
  -- r2 = r1 with result.counts := data
  simp only [modifyPath] at h2
  obtain ⟨res1, hres1, h2⟩ := bind_eq_ok h2
  obtain ⟨res1', hres1', h2⟩ := bind_eq_ok h2
  obtain ⟨kvs1, hr1, hr2⟩ := assign_eq_ok h2
  obtain ⟨rk1, hres1k, hres1'k⟩ := assign_eq_ok hres1'
  -- r' = r2 with result.measures.count.data := data
  simp only [modifyPath] at h3
  obtain ⟨res2, hres2, h3⟩ := bind_eq_ok h3
  obtain ⟨res2', hres2', h3⟩ := bind_eq_ok h3
  obtain ⟨kvs2, hr2', hr'⟩ := assign_eq_ok h3
  obtain ⟨ms, _, hres2'⟩ := bind_eq_ok hres2'
  obtain ⟨ms', _, hres2'⟩ := bind_eq_ok hres2'
  obtain ⟨rk2, hres2k, hres2'k⟩ := assign_eq_ok hres2'
  subst hr'
  rw [item_setKey_self]
  simp only [R_bind_ok]
  subst hres2'k
  rw [item_setKey_ne "measures" "counts" _ _ (by decide)]
  -- res2 = result of r2 = res1' = setKey counts
  rw [hr2] at hres2
  rw [item_setKey_self] at hres2
  cases hres2
  rw [hres1'k] at hres2k
  cases hres2k
  exact item_setKey_self _ _ _

theorem augmentPlan_length {loads : String → R J} {summaryArg resp elements : J} {data : List J}
    (h : augmentPlan loads summaryArg resp = .ok (some (elements, data))) :
    ∃ summary scounts, cubeResponse loads summaryArg = .ok summary ∧
      (item summary "result" >>= fun r => item r "counts") = .ok scounts ∧
      len scounts = .ok data.length := by
  unfold augmentPlan at h
  obtain ⟨summary, hsum, h⟩ := bind_eq_ok h
  obtain ⟨res, _, h⟩ := bind_eq_ok h
  obtain ⟨counts, _, h⟩ := bind_eq_ok h
  obtain ⟨sres, hsres, h⟩ := bind_eq_ok h
  obtain ⟨scounts, hsc, h⟩ := bind_eq_ok h
  obtain ⟨n, _, h⟩ := bind_eq_ok h
  obtain ⟨sn, hsn, h⟩ := bind_eq_ok h
  refine ⟨summary, scounts, hsum, by simp [hsres, hsc], ?_⟩
  split at h
  · simp at h
  · obtain ⟨_, _, h⟩ := bind_eq_ok h
    obtain ⟨_, _, h⟩ := bind_eq_ok h
    obtain ⟨_, _, h⟩ := bind_eq_ok h
    obtain ⟨_, _, h⟩ := bind_eq_ok h
    obtain ⟨elements', _, h⟩ := bind_eq_ok h
    obtain ⟨_, _, h⟩ := bind_eq_ok h
    obtain ⟨_, _, h⟩ := bind_eq_ok h
    obtain ⟨_, _, h⟩ := bind_eq_ok h
    obtain ⟨_, _, h⟩ := bind_eq_ok h
    obtain ⟨_, _, h⟩ := bind_eq_ok h
    obtain ⟨own, _, h⟩ := bind_eq_ok h
    obtain ⟨els, _, h⟩ := bind_eq_ok h
    obtain ⟨cl, _, h⟩ := bind_eq_ok h
    obtain ⟨d, hd, h⟩ := bind_eq_ok h
    simp only [R_pure, Except.ok.injEq, Option.some.injEq, Prod.mk.injEq] at h
    obtain ⟨_, rfl⟩ := h
    unfold augmentData at hd
    obtain ⟨_, _, hd⟩ := bind_eq_ok hd
    obtain ⟨_, _, hd⟩ := bind_eq_ok hd
    rw [scatter_length hd, List.length_replicate]
    exact hsn

/-- **`augment_response` twice = once**: the guard `len(counts) != len(summary counts)` is false
    after the first call -/
theorem augmentDict_idem {loads : String → R J} {summary resp r' : J}
    (h : augmentDict loads summary resp = .ok (some r')) :
    augmentDict loads summary r' = .ok none := by
  unfold augmentDict at h
  obtain ⟨plan, hplan, h⟩ := bind_eq_ok h
  cases plan with
  | none => simp at h
  | some ed =>
    obtain ⟨elements, data⟩ := ed
    simp only at h
    obtain ⟨r'', hw, h⟩ := bind_eq_ok h
    simp only [R_pure, Except.ok.injEq, Option.some.injEq] at h
    subst h
    obtain ⟨summ, scounts, hsumm, hsc, hlen⟩ := augmentPlan_length hplan
    have hc := augmentWrite_counts hw
    obtain ⟨res', hres', hc⟩ := bind_eq_ok hc
    obtain ⟨sres, hsres, hsc⟩ := bind_eq_ok hsc
    have : augmentPlan loads summary r'' = .ok none := by
      unfold augmentPlan
      simp only [hsumm, hres', hc, hsres, hsc, R_bind_ok, hlen, show len (J.arr data) = Except.ok data.length from rfl,
        if_true, R_pure]
    simp [augmentDict, this]

end CrCube.Glue
