/-
  What the glue primitives return on the objects of the response-format specification
  (`renderCat`, `renderElem`, `renderItem`, `RVar.references`, `RVar.catDim`, `RVar.enumDim`).
-/
import CrCube.Lemmas.GlueBasics

set_option linter.unusedSimpArgs false

namespace CrCube.Glue
open CrCube

/-! ### categories -/

structure RCat.Lk (c : RCat) : Prop where
  id : c.extra.lookup "id" = none
  missing : c.extra.lookup "missing" = none
  selected : c.extra.lookup "selected" = none
  date : c.extra.lookup "date" = none

theorem RCat.wf_lk {c : RCat} (h : c.wf = true) : c.Lk :=
  ⟨lacks_lookup h (by simp), lacks_lookup h (by simp), lacks_lookup h (by simp), lacks_lookup h (by simp)⟩

theorem renderCat_lookup (c : RCat) (h : c.Lk) (k : String) :
    (match renderCat c with | .obj kvs => kvs.lookup k | _ => none) =
      if k = "id" then some (jInt c.id)
      else if k = "missing" then (c.missing.field.lookup "missing")
      else if k = "selected" then (if c.selected then some (.bool true) else none)
      else if k = "date" then c.date.map J.str
      else c.extra.lookup k := by
  obtain ⟨h1, h2, h3, h4⟩ := h
  simp only [renderCat]
  by_cases k1 : k = "id"
  · subst k1; simp [List.lookup]
  by_cases k2 : k = "missing"
  · subst k2
    rcases hm : c.missing with _ | _ | b <;> cases c.selected <;> cases c.date <;>
      simp [RMissing.field, List.lookup, h2]
  by_cases k3 : k = "selected"
  · subst k3
    rcases hm : c.missing with _ | _ | b <;> cases c.selected <;> cases c.date <;>
      simp [RMissing.field, List.lookup, h3]
  by_cases k4 : k = "date"
  · subst k4
    rcases hm : c.missing with _ | _ | b <;> cases c.selected <;> cases c.date <;>
      simp [RMissing.field, List.lookup, h4]
  have e1 : (k == "id") = false := by simpa using k1
  have e2 : (k == "missing") = false := by simpa using k2
  have e3 : (k == "selected") = false := by simpa using k3
  have e4 : (k == "date") = false := by simpa using k4
  rcases hm : c.missing with _ | _ | b <;> cases c.selected <;> cases c.date <;>
    simp [RMissing.field, List.lookup, k1, k2, k3, k4, e1, e2, e3, e4]


theorem RMissing.lookup_field (m : RMissing) :
    ((m.field.lookup "missing").getD .null).truthy = m.flag := by
  rcases m with _ | _ | b <;> simp [RMissing.field, RMissing.flag, List.lookup, J.truthy]
  cases b <;> rfl

theorem get_renderCat_selected (c : RCat) (h : c.Lk) :
    get (renderCat c) "selected" .null = .ok (if c.selected then .bool true else .null) := by
  have := renderCat_lookup c h "selected"
  simp only [renderCat] at this ⊢
  simp only [get, this]
  cases c.selected <;> simp

theorem get_renderCat_id (c : RCat) (h : c.Lk) : get (renderCat c) "id" .null = .ok (jInt c.id) := by
  have := renderCat_lookup c h "id"
  simp only [renderCat] at this ⊢
  simp [get, this]

theorem item_renderCat_id (c : RCat) (h : c.Lk) : item (renderCat c) "id" = .ok (jInt c.id) := by
  have := renderCat_lookup c h "id"
  simp only [renderCat] at this ⊢
  simp [item, this]

theorem hasKey_date_renderCat (c : RCat) (h : c.Lk) : hasKey "date" (renderCat c) = .ok c.date.isSome := by
  have := renderCat_lookup c h "date"
  simp only [renderCat] at this ⊢
  simp only [hasKey, this]
  cases c.date <;> simp

theorem elemMissing_renderCat (c : RCat) (h : c.Lk) : elemMissing (renderCat c) = .ok c.missing.flag := by
  have := renderCat_lookup c h "missing"
  simp only [renderCat] at this ⊢
  simp only [elemMissing, get, this, R_bind_ok, R_pure]
  simp [RMissing.lookup_field]

/-! ### enum elements -/

structure RElem.Lk (e : RElem) : Prop where
  id : e.extra.lookup "id" = none
  missing : e.extra.lookup "missing" = none
  value : e.extra.lookup "value" = none

theorem RElem.wf_lk {e : RElem} (h : e.wf = true) : e.Lk :=
  ⟨lacks_lookup h (by simp), lacks_lookup h (by simp), lacks_lookup h (by simp)⟩

theorem item_renderElem_id (e : RElem) : item (renderElem e) "id" = .ok (jInt e.id) := by
  simp [renderElem, item, List.lookup]

theorem item_renderElem_value (e : RElem) (h : e.Lk) : item (renderElem e) "value" = .ok e.value := by
  obtain ⟨_, h2, _⟩ := h
  rcases hm : e.missing with _ | _ | b <;> simp [renderElem, item, List.lookup, RMissing.field, hm]

theorem hasKey_value_renderElem (e : RElem) (h : e.Lk) : hasKey "value" (renderElem e) = .ok true := by
  obtain ⟨_, h2, _⟩ := h
  rcases hm : e.missing with _ | _ | b <;> simp [renderElem, hasKey, List.lookup, RMissing.field, hm]

theorem elemMissing_renderElem (e : RElem) (h : e.Lk) : elemMissing (renderElem e) = .ok e.missing.flag := by
  obtain ⟨_, h2, _⟩ := h
  rcases hm : e.missing with _ | _ | b <;>
    simp [renderElem, elemMissing, get, List.lookup, RMissing.field, RMissing.flag, hm, h2, J.truthy]
  cases b <;> rfl

/-! ### array items -/

structure RItem.Lk (it : RItem) : Prop where
  id : it.extra.lookup "id" = none
  missing : it.extra.lookup "missing" = none
  value : it.extra.lookup "value" = none
  refs : it.valueExtra.lookup "references" = none

theorem RItem.wf_lk {it : RItem} (h : it.wf = true) : it.Lk := by
  simp only [RItem.wf, Bool.and_eq_true] at h
  exact ⟨lacks_lookup h.1 (by simp), lacks_lookup h.1 (by simp), lacks_lookup h.1 (by simp),
    lacks_lookup h.2 (by simp)⟩

def RItem.valueJ (it : RItem) : J := .obj (("references", .obj it.refs) :: it.valueExtra)

theorem item_renderItem_id (it : RItem) : item (renderItem it) "id" = .ok (jInt it.id) := by
  simp [renderItem, item, List.lookup]

theorem get_renderItem_value (it : RItem) (h : it.Lk) (d : J) :
    get (renderItem it) "value" d = .ok it.valueJ := by
  rcases hm : it.missing with _ | _ | b <;>
    simp [renderItem, get, List.lookup, RMissing.field, hm, RItem.valueJ]

theorem hasKey_value_renderItem (it : RItem) (h : it.Lk) : hasKey "value" (renderItem it) = .ok true := by
  rcases hm : it.missing with _ | _ | b <;> simp [renderItem, hasKey, List.lookup, RMissing.field, hm]

theorem get_valueJ_references (it : RItem) (d : J) : get it.valueJ "references" d = .ok (.obj it.refs) := by
  simp [RItem.valueJ, get, List.lookup]

theorem elemMissing_renderItem (it : RItem) (h : it.Lk) : elemMissing (renderItem it) = .ok it.missing.flag := by
  obtain ⟨_, h2, _, _⟩ := h
  rcases hm : it.missing with _ | _ | b <;>
    simp [renderItem, elemMissing, get, List.lookup, RMissing.field, RMissing.flag, hm, h2, J.truthy]
  cases b <;> rfl

end CrCube.Glue
