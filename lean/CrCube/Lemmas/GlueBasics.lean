/-
  Helper lemmas for the glue model: association-list lookups through appends, the `R` monad,
  `mapR` / `anyR` on lists where every call succeeds, and what the primitives return on the
  objects `Spec/GlueRender.lean` renders.
-/
import CrCube.Spec.GlueRender

set_option linter.unusedSimpArgs false

namespace CrCube.Glue
open CrCube

/-! ### the `R` monad -/

@[simp] theorem R_bind_ok {α β : Type} (a : α) (f : α → R β) : (Except.ok a >>= f) = f a := rfl
@[simp] theorem R_bind_error {α β : Type} (e : GErr) (f : α → R β) :
    ((Except.error e : R α) >>= f) = Except.error e := rfl
@[simp] theorem R_pure {α : Type} (a : α) : (pure a : R α) = Except.ok a := rfl

theorem bind_eq_ok {α β : Type} {x : R α} {f : α → R β} {b : β} (h : (x >>= f) = .ok b) :
    ∃ a, x = .ok a ∧ f a = .ok b := by
  cases x with
  | error e => simp at h
  | ok a => exact ⟨a, rfl, by simpa using h⟩

theorem mapR_ok {α β : Type} {f : α → R β} {g : α → β} {l : List α} (h : ∀ x ∈ l, f x = .ok (g x)) :
    mapR f l = .ok (l.map g) := by
  induction l with
  | nil => rfl
  | cons x xs ih =>
    simp only [mapR, h x (List.mem_cons_self), ih (fun y hy => h y (List.mem_cons_of_mem _ hy)),
      R_bind_ok, R_pure, List.map_cons]

theorem mapR_append_ok {α β : Type} {f : α → R β} {a b : List α} {a' b' : List β}
    (ha : mapR f a = .ok a') (hb : mapR f b = .ok b') : mapR f (a ++ b) = .ok (a' ++ b') := by
  induction a generalizing a' with
  | nil => simp only [mapR] at ha; cases ha; simpa using hb
  | cons x xs ih =>
    simp only [mapR, List.cons_append] at ha ⊢
    cases hx : f x with
    | error e => simp [hx] at ha
    | ok y =>
      simp only [hx, R_bind_ok] at ha ⊢
      cases hxs : mapR f xs with
      | error e => simp [hxs] at ha
      | ok ys =>
        simp only [hxs, R_bind_ok, R_pure] at ha
        cases ha
        simp only [ih hxs, R_bind_ok, R_pure, List.cons_append]

theorem mapR_flatMap_ok {α β γ : Type} {f : α → R β} {g : γ → List α} {h : γ → List β} {l : List γ}
    (H : ∀ x ∈ l, mapR f (g x) = .ok (h x)) : mapR f (l.flatMap g) = .ok (l.flatMap h) := by
  induction l with
  | nil => rfl
  | cons x xs ih =>
    simp only [List.flatMap_cons]
    exact mapR_append_ok (H x List.mem_cons_self) (ih (fun y hy => H y (List.mem_cons_of_mem _ hy)))

theorem anyR_ok {α : Type} {f : α → R Bool} {g : α → Bool} {l : List α} (h : ∀ x ∈ l, f x = .ok (g x)) :
    anyR f l = .ok (l.any g) := by
  induction l with
  | nil => rfl
  | cons x xs ih =>
    simp only [anyR, h x List.mem_cons_self, R_bind_ok, List.any_cons]
    cases g x with
    | true => simp
    | false => simpa using ih (fun y hy => h y (List.mem_cons_of_mem _ hy))

theorem mapR_length {α β : Type} {f : α → R β} {l : List α} {l' : List β} (h : mapR f l = .ok l') :
    l'.length = l.length := by
  induction l generalizing l' with
  | nil => simp only [mapR] at h; cases h; rfl
  | cons x xs ih =>
    simp only [mapR] at h
    cases hx : f x with
    | error e => simp [hx] at h
    | ok y =>
      cases hxs : mapR f xs with
      | error e => simp [hx, hxs] at h
      | ok ys =>
        simp only [hx, hxs, R_bind_ok, R_pure] at h
        cases h
        simp [ih hxs]

/-! ### lookups -/

theorem lookup_append_none {k : String} {a b : List (String × J)} (h : a.lookup k = none) :
    (a ++ b).lookup k = b.lookup k := by
  induction a with
  | nil => rfl
  | cons p a ih =>
    obtain ⟨k', v⟩ := p
    simp only [List.cons_append, List.lookup_cons] at h ⊢
    cases hk : (k == k') with
    | true => simp [hk] at h
    | false => simp only [hk] at h ⊢; exact ih h

theorem lookup_append_some {k : String} {a b : List (String × J)} {v : J} (h : a.lookup k = some v) :
    (a ++ b).lookup k = some v := by
  induction a with
  | nil => simp at h
  | cons p a ih =>
    obtain ⟨k', v'⟩ := p
    simp only [List.cons_append, List.lookup_cons] at h ⊢
    cases hk : (k == k') with
    | true => simpa [hk] using h
    | false => simp only [hk] at h ⊢; exact ih h

theorem lacks_lookup {kvs : List (String × J)} {keys : List String} {k : String}
    (h : lacks kvs keys = true) (hk : k ∈ keys) : kvs.lookup k = none := by
  simp only [lacks, List.all_eq_true] at h
  simpa using h k hk

/-! ### scalars -/

theorem beq_intCast (a b : Int) : ((a : Rat) == (b : Rat)) = (a == b) := by
  rw [Bool.eq_iff_iff]; simp [Rat.intCast_inj]

@[simp] theorem scalarEq_jInt (a b : Int) : scalarEq (jInt a) (jInt b) = (a == b) := by
  simp only [scalarEq, jInt, J.asNum?]
  exact beq_intCast a b

theorem listEq_jInt (a b : List Int) : listEq (a.map jInt) (b.map jInt) = (a == b) := by
  induction a generalizing b with
  | nil => cases b <;> simp [listEq]
  | cons x xs ih =>
    cases b with
    | nil => simp [listEq]
    | cons y ys =>
      simp only [List.map_cons, listEq, scalarEq_jInt, ih]
      rw [Bool.eq_iff_iff]; simp

theorem logicalIds_eq : logicalIds = ([1, 0, -1] : List Int).map jInt := by
  simp [logicalIds, jInt]

@[simp] theorem scalarEq_str (s t : String) : scalarEq (.str s) (.str t) = (s == t) := by
  simp [scalarEq]

end CrCube.Glue
