/-
  3-D cubes: partition k of a cube over [T, R, C] is the 2-D cube over [R, C] of the
  respondents who belong to element k of T (selected item k for a multiple-response T).
-/
import CrCube.Lemmas.SliceShape

set_option linter.unusedSimpArgs false

namespace CrCube

/-- respondents who belong to element `k` of the first variable, with that answer dropped -/
def restrictTo (T : Var) (k : Nat) (s : Survey) : Survey :=
  (s.filter (fun r => match r.ans with
    | aT :: _ => T.specMem aT [k] [false]
    | [] => false)).map (fun r => { r with ans := r.ans.tail })

theorem wsum_filter_map (s : Survey) (q : Resp → Bool) (f : Resp → Resp) (hf : ∀ r, (f r).w = r.w)
    (p : Resp → Bool) :
    wsum ((s.filter q).map f) p = wsum s (fun r => q r && p (f r)) := by
  induction s with
  | nil => simp
  | cons r s ih =>
    rw [wsum_cons]
    by_cases hq : q r = true
    · simp only [List.filter_cons_of_pos hq, List.map_cons, wsum_cons, ih, hq, Bool.true_and, hf]
    · simp only [List.filter_cons_of_neg hq, ih]
      simp [hq]

theorem Var.rank_pos (v : Var) : 0 < v.rank := by unfold Var.rank; cases v.kind <;> simp

theorem memCell_cons (T : Var) (vs : List Var) (a : List (List Nat)) (x rest : List Nat)
    (hx : x.length = T.rank) :
    memCell (T :: vs) a (x ++ rest) =
      match a with
      | aT :: as => T.mem aT x && memCell vs as rest
      | [] => false := by
  match a with
  | [] => simp [memCell]
  | aT :: as =>
    simp [memCell, ← hx]

end CrCube

namespace CrCube

/-- the apparent kind of a categorical / multiple-response variable -/
def Var.dk (v : Var) : DK := match v.kind with | .cat => .cat | .arr => if v.isMR then .mr else .arr

theorem cubeOf_get_cons (T : Var) (vs : List Var) (s : Survey) (x rest : List Nat)
    (hx : x.length = T.rank) :
    (cubeOf (T :: vs) s).get (x ++ rest) =
      .fin (wsum s fun r => match r.ans with
        | aT :: as => T.mem aT x && memCell vs as rest
        | [] => false) := by
  simp only [cubeOf]
  congr 1
  apply wsum_congr
  intro r _
  exact memCell_cons T vs r.ans x rest hx

/-- **Partition k restricts to the right respondents** (tensor level): fixing element `k` of a
    categorical / multiple-response table variable (for MR: the selected plane of item k) in the
    valid-element cube over `T :: vs` gives the valid-element cube over `vs` of the respondents
    who belong to element k. -/
theorem sliceExpr_restrict (T : Var) (vs : List Var) (hT : T.CM) (s : Survey) (k : Nat)
    (hk : k < T.ext) :
    sliceExpr 3 T.dk k (validCube (T :: vs) (cubeOf (T :: vs) s))
      = validCube vs (cubeOf vs (restrictTo T k s)) := by
  have key : ∀ rest : List Nat,
      (cubeOf (T :: vs) s).get (T.msub k ++ rest)
        = .fin (wsum (restrictTo T k s) fun r => memCell vs r.ans rest) := by
    intro rest
    rw [cubeOf_get_cons T vs s _ rest (T.msub_length k)]
    unfold restrictTo
    rw [wsum_filter_map s _ (fun r => { w := r.w, ans := r.ans.tail }) (fun _ => rfl)]
    congr 1
    apply wsum_congr
    intro r _
    match r.ans with
    | [] => rfl
    | aT :: as => simp only [List.tail_cons, hT.mem_member aT k hk]
  rcases hT with hc | ⟨ha, hm, h0⟩
  · -- categorical table variable
    simp only [sliceExpr, Var.dk, hc, validCube, FT.take, FT.slice0, Var.validAxes,
      List.flatMap_cons, List.map_append, List.map_cons, List.map_nil, List.tail_cons,
      List.singleton_append]
    simp only [show ¬ (3 < 3) by omega, if_false, show ¬ (DK.cat = DK.mr) by decide]
    congr 1
    funext ix
    have := key (List.zipWith (fun l i => l.getD i 0) (vs.flatMap Var.validAxes) ix)
    simp only [Var.msub, hc, List.singleton_append, List.getD] at this
    simp only [List.zipWith_cons_cons, List.getD]
    rw [this]
    simp [cubeOf]
  · -- multiple-response table variable: [k, selected]
    simp only [sliceExpr, Var.dk, ha, hm, validCube, FT.take, FT.slice0, Var.validAxes,
      List.flatMap_cons, List.map_append, List.map_cons, List.map_nil, List.tail_cons,
      List.cons_append, List.nil_append, if_true]
    simp only [show ¬ (3 < 3) by omega, if_false]
    congr 1
    funext ix
    have := key (List.zipWith (fun l i => l.getD i 0) (vs.flatMap Var.validAxes) ix)
    simp only [Var.msub, ha, List.cons_append, List.nil_append, List.getD] at this
    simp only [List.zipWith_cons_cons, List.getD]
    rw [this]
    simp [cubeOf]

end CrCube

namespace CrCube

/-! ### table dimension = the items of a categorical array -/

/-- the categorical variable "answer on item k" of a categorical array -/
def Var.itemVar (ca : Var) : Var := { kind := .cat, n := ca.catMissing.length, catMissing := ca.catMissing }

/-- survey recoded to the single item k of the leading categorical array -/
def recodeItem (k : Nat) (r : Resp) : Resp :=
  { r with ans := match r.ans with
      | aCA :: rest => (match aCA[k]? with | some c => [c] | none => []) :: rest
      | [] => [] }

theorem ca_item_mem (ca : Var) (hk : ca.kind = .arr) (a : List Nat) (k c : Nat) :
    ca.mem a [k, c] = ca.itemVar.mem (match a[k]? with | some c' => [c'] | none => []) [c] := by
  simp only [Var.mem, hk, Var.itemVar]
  cases a[k]? with
  | none => simp
  | some c' => simp

/-- **Partition k of a cube led by a categorical array restricts to sub-variable k**: fixing item
    k gives the valid-element cube over (item k as a categorical variable) :: vs of the same
    respondents. -/
theorem sliceExpr_ca_item (ca : Var) (vs : List Var) (hca : ca.kind = .arr) (hnm : ca.isMR = false)
    (s : Survey) (k : Nat) (hk : k < ca.n) :
    sliceExpr 3 .arr k (validCube (ca :: vs) (cubeOf (ca :: vs) s))
      = validCube (ca.itemVar :: vs) (cubeOf (ca.itemVar :: vs) (s.map (recodeItem k))) := by
  simp only [sliceExpr, validCube, FT.take, FT.slice0, Var.validAxes, hca, Var.itemVar,
    List.flatMap_cons, List.map_append, List.map_cons, List.map_nil, List.tail_cons,
    List.cons_append, List.nil_append, List.singleton_append]
  simp only [show ¬ (3 < 3) by omega, if_false, show ¬ (DK.arr = DK.mr) by decide]
  congr 1
  funext ix
  simp only [cubeOf]
  congr 1
  rw [wsum_map s (recodeItem k) (fun _ => rfl)]
  apply wsum_congr
  intro r _
  cases ix with
  | nil =>
    simp only [List.zipWith_nil_right, List.zipWith_cons_cons, List.getD]
    unfold recodeItem
    match r.ans with
    | [] => simp [memCell]
    | aCA :: rest => simp [memCell, Var.mem, Var.rank, hca, Var.itemVar]
  | cons i rest =>
    simp only [List.zipWith_cons_cons, List.getD, List.getElem?_range hk, Option.getD_some]
    have h1 := memCell_cons ca vs r.ans [k, (validIdxs ca.catMissing)[i]?.getD 0]
      (List.zipWith (fun l i => l[i]?.getD 0) (vs.flatMap Var.validAxes) rest) (by simp [Var.rank, hca])
    have h2 := memCell_cons ca.itemVar vs (recodeItem k r).ans [(validIdxs ca.catMissing)[i]?.getD 0]
      (List.zipWith (fun l i => l[i]?.getD 0) (vs.flatMap Var.validAxes) rest) (by simp [Var.rank, Var.itemVar])
    simp only [List.cons_append, List.nil_append] at h1 h2
    simp only [Var.itemVar] at h2 ⊢
    rw [h1, h2]
    unfold recodeItem
    match r.ans with
    | [] => rfl
    | aCA :: as =>
      simp only
      rw [ca_item_mem ca hca aCA k]
      rfl

end CrCube
