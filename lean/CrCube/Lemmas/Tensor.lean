/-
  Row-major reshape: indexing the flat payload with `ravel` recovers the cell.
-/
import CrCube.Model.Tensor

namespace CrCube

theorem flatMap_getElem?_chunks {α β : Type} (L : List α) (g : α → List β) (k : Nat)
    (hk : ∀ a ∈ L, (g a).length = k) (i j : Nat) (hj : j < k) :
    (L.flatMap g)[i * k + j]? = L[i]?.bind (fun a => (g a)[j]?) := by
  induction L generalizing i with
  | nil => simp
  | cons a L ih =>
    have hka : (g a).length = k := hk a (by simp)
    have hk' : ∀ a ∈ L, (g a).length = k := fun b hb => hk b (by simp [hb])
    cases i with
    | zero =>
      simp only [List.flatMap_cons, Nat.zero_mul, Nat.zero_add, List.getElem?_cons_zero,
        Option.bind_some]
      rw [List.getElem?_append_left (by omega)]
    | succ i =>
      simp only [List.flatMap_cons, List.getElem?_cons_succ]
      rw [List.getElem?_append_right (by rw [hka, Nat.succ_mul]; omega)]
      rw [hka]
      have : (i + 1) * k + j - k = i * k + j := by rw [Nat.succ_mul]; omega
      rw [this]
      exact ih hk' i

theorem allIdx_length (sh : List Nat) : (allIdx sh).length = prodL sh := by
  induction sh with
  | nil => simp [allIdx, prodL]
  | cons s ss ih =>
    simp only [allIdx, prodL]
    induction s with
    | zero => simp
    | succ n ihn =>
      rw [List.range_succ, List.flatMap_append, List.length_append, ihn]
      simp [ih, Nat.succ_mul]

theorem ravel_lt (sh ix : List Nat) (h : InRange sh ix) : ravel sh ix < prodL sh := by
  induction sh generalizing ix with
  | nil =>
    cases ix with
    | nil => simp [ravel, prodL]
    | cons _ _ => simp [InRange, inRangeB] at h
  | cons s ss ih =>
    cases ix with
    | nil => simp [InRange, inRangeB] at h
    | cons i is =>
      simp only [InRange, inRangeB, Bool.and_eq_true, decide_eq_true_eq] at h
      have h2 := ih is h.2
      simp only [ravel, prodL]
      have h1 : i + 1 ≤ s := h.1
      calc i * prodL ss + ravel ss is < i * prodL ss + prodL ss := by omega
        _ = (i + 1) * prodL ss := by rw [Nat.succ_mul]
        _ ≤ s * prodL ss := Nat.mul_le_mul_right _ h1

theorem allIdx_getElem? (sh ix : List Nat) (h : InRange sh ix) :
    (allIdx sh)[ravel sh ix]? = some ix := by
  induction sh generalizing ix with
  | nil =>
    cases ix with
    | nil => simp [allIdx, ravel]
    | cons _ _ => simp [InRange, inRangeB] at h
  | cons s ss ih =>
    cases ix with
    | nil => simp [InRange, inRangeB] at h
    | cons i is =>
      simp only [InRange, inRangeB, Bool.and_eq_true, decide_eq_true_eq] at h
      simp only [allIdx, ravel]
      rw [flatMap_getElem?_chunks (List.range s) _ (prodL ss)
        (by intro a _; simp [allIdx_length]) i (ravel ss is) (ravel_lt ss is h.2)]
      rw [List.getElem?_range h.1]
      simp [ih is h.2]

/-- `np.array(flat).reshape(shape)[ix]` is the cell the back end put there. -/
theorem ofFlat_flat_get (f : List Nat → Val) (sh ix : List Nat) (h : InRange sh ix) :
    (FT.ofFlat sh ((allIdx sh).map f)).get ix = f ix := by
  simp only [FT.ofFlat]
  have := allIdx_getElem? sh ix h
  simp [List.getD, List.getElem?_map, this]

theorem FT.ofFlat_flat (t : FT) (ix : List Nat) (h : InRange t.shape ix) :
    (FT.ofFlat t.shape t.flat).get ix = t.get ix := by
  unfold FT.flat
  exact ofFlat_flat_get t.get t.shape ix h

end CrCube
