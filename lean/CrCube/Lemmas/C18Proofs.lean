/-
  Proofs behind the C18 property theorems (statements are repeated in Props/C18.lean).
-/
import CrCube.Model.Shim
import CrCube.Model.Lazy
import CrCube.Spec.ShimSpec
import CrCube.Spec.LazySpec
import CrCube.Lemmas.Shim
import CrCube.Lemmas.ShimFix

namespace CrCube.C18L
open CrCube.Shim CrCube.ShimSpec CrCube.Lazy CrCube.LazySpec

/-! ### the in-place edits are idempotent and invisible to the analysis -/

/-- `shim (shim x) = shim x`, dimension dicts -/
theorem shim_idempotent_dim (d : Dim) : shimDim (shimDim d) = shimDim d := shimDim_idem d

/-- `shim (shim x) = shim x`, transforms dicts — the second pass runs over the ALREADY
    rewritten dimension dict and transforms dict (as it does for the second partition of a 3-D
    cube, or a second `Cube` on the same arguments).  Unconditional (since fix F7). -/
theorem shim_idempotent (d : Dim) (x : DimXf) : shimXf (shimDim d) (shimXf d x) = shimXf d x := by
  rw [shimXf_shimDim, shimXf_idem]

/-- the building blocks: id lists, element-transform dicts -/
theorem shim_idempotent_ids (d : Dim) (l : List Ref) : shimIds d (shimIds d l) = shimIds d l :=
  shimIds_idem d l

theorem shim_idempotent_elements (d : Dim) (e : ElemDict) : shimElems d (shimElems d e) = shimElems d e :=
  shimElems_idem d e

/-- `observe (shim x) = observe x`: resolution over the shimmed dimension dict is resolution
    over the pristine one, what the shim wrote back resolves to itself, and the whole view the
    analysis works from is the same whether it is handed pristine or already-shimmed dicts. -/
theorem observe_shim (d : Dim) (x : DimXf) :
    (∀ r, translate (shimDim d) r = translate d r) ∧
    (∀ r, translate d (back (translate d r)) = translate d r) ∧
    view (shimDim d) (shimXf d x) = view d x := by
  refine ⟨translate_shimDim d, translate_back d, ?_⟩
  simp only [view, shimDim_idem, shimXf_shimDim, shimXf_idem]

theorem shimSide_idem (s : Side) : shimSide (shimSide s) = shimSide s := by
  unfold shimSide
  by_cases h : s.isArray = true
  · simp [h, shimDim_idem, shimXf_shimDim, shimXf_idem]
  · simp [h]

theorem shimCaller_idem (c : Caller) : shimCaller (shimCaller c) = shimCaller c := by
  simp [shimCaller, shimSide_idem]

/-! ### datetime dimensions: the same, under `DtNoCollision` -/

theorem dtLookup_mem {k : Int} {v : String} :
    ∀ {l : List DtItem}, dtLookup k l = some v → ∃ it ∈ l, it.value = some v
  | [], h => by simp [dtLookup] at h
  | it :: l, h => by
    simp only [dtLookup] at h
    cases ht : dtLookup k l with
    | some w =>
      simp only [ht, Option.some.injEq] at h
      obtain ⟨x, hx, hxv⟩ := dtLookup_mem ht
      exact ⟨x, by simp [hx], h ▸ hxv⟩
    | none =>
      simp only [ht] at h
      by_cases hid : it.id = k
      · simp only [hid, if_true] at h; exact ⟨it, by simp, h⟩
      · simp [hid] at h

theorem translateDt_idem {d : DtDim} (hnc : DtNoCollision d) (r : Ref) :
    translateDt d (translateDt d r) = translateDt d r := by
  have key : ∀ v, (∃ it ∈ d.items, it.value = some v) → translateDt d (.str v) = .str v := by
    intro v ⟨it, hit, hv⟩
    simp only [translateDt, dtKey]
    by_cases hn : isNumeric v = true
    · simp [hn, hnc it hit v hv hn]
    · simp [hn]
  unfold translateDt
  cases hk : dtKey r with
  | int n =>
    simp only
    cases hl : dtLookup n d.items with
    | some v => simpa [translateDt] using key v (dtLookup_mem hl)
    | none => simp [hk, hl]
  | str s => simp [hk]
  | null => simp [hk]

/-- id lists on a DATETIME dimension are rewritten to a fixed point as well -/
theorem shim_idempotent_datetime {d : DtDim} (hnc : DtNoCollision d) (l : List Ref) :
    shimDtIds d (shimDtIds d l) = shimDtIds d l := by
  simp [shimDtIds, List.map_map, Function.comp_def, translateDt_idem hnc]

/-- … and `DtNoCollision` is needed: with digit-string values that name position ids the
    second pass lands on a DIFFERENT element -/
theorem shim_datetime_counterexample :
    let d : DtDim := { items := [ { id := 1, value := some "2" }, { id := 2, value := some "1" } ] }
    ¬ DtNoCollision d ∧ shimDtIds d [.int 1] = [.str "2"] ∧ shimDtIds d [.str "2"] = [.str "1"] := by
  refine ⟨by decide, by decide, by decide⟩

/-! ### the state machine: every read returns the fresh value -/

section machine
variable {V : Type} (eval : Nat → Nat → Caller → V) (needs : Nat → Bool × Bool) (isNone : V → Bool)

structure Good (pr caller : Caller) (k : Nat) (part : Part V) : Prop where
  rows : part.builtRows = true → caller.rows = shimSide pr.rows
  cols : part.builtCols = true → caller.cols = shimSide pr.cols
  cache : ∀ p v, cacheGet p part.cache = some v → v = eval p k (shimCaller pr)

/-- the invariant: caller dicts in the orbit {pristine, shimmed}; caches hold fresh values -/
structure Inv (pr : Caller) (st : St V) : Prop where
  rows : SideOk pr.rows st.caller.rows
  cols : SideOk pr.cols st.caller.cols
  parts : ∀ (c k : Nat) (ps : List (Part V)) (part : Part V),
    st.cubes[c]? = some ps → ps[k]? = some part → Good eval pr st.caller k part

theorem ensure_ok {pr s : Side} (need built : Bool) (hs : SideOk pr s) (hb : built = true → s = shimSide pr) :
    SideOk pr (ensure need built s) ∧ (need = true → ensure need built s = shimSide pr) ∧
    (s = shimSide pr → ensure need built s = shimSide pr) := by
  unfold ensure
  by_cases hc : (need && !built) = true
  · simp only [hc, if_true]
    have : shimSide s = shimSide pr := by
      rcases hs with h | h
      · rw [h]
      · rw [h, shimSide_idem]
    exact ⟨Or.inr this, fun _ => this, fun _ => this⟩
  · simp only [hc]
    refine ⟨hs, ?_, fun h => h⟩
    intro hn
    apply hb
    cases built <;> simp_all

theorem cacheGet_cons (p q : Nat) (v : V) (l : List (Nat × V)) :
    cacheGet p ((q, v) :: l) = if q = p then some v else cacheGet p l := rfl

/-- one `lazyproperty.__get__` -/
theorem readPart_ok (hloc : Local eval needs) {pr caller : Caller} {k p : Nat} {part : Part V}
    (hr : SideOk pr.rows caller.rows) (hc : SideOk pr.cols caller.cols) (hg : Good eval pr caller k part) :
    let r := readPart eval needs isNone k p caller part
    r.1 = eval p k (shimCaller pr) ∧ SideOk pr.rows r.2.1.rows ∧ SideOk pr.cols r.2.1.cols ∧
    (caller.rows = shimSide pr.rows → r.2.1.rows = shimSide pr.rows) ∧
    (caller.cols = shimSide pr.cols → r.2.1.cols = shimSide pr.cols) ∧
    Good eval pr r.2.1 k r.2.2 := by
  unfold readPart
  cases hcg : cacheGet p part.cache with
  | some v => exact ⟨hg.cache p v hcg, hr, hc, fun h => h, fun h => h, hg⟩
  | none =>
    simp only
    obtain ⟨r1, r2, r3⟩ := ensure_ok (needs p).1 part.builtRows hr hg.rows
    obtain ⟨c1, c2, c3⟩ := ensure_ok (needs p).2 part.builtCols hc hg.cols
    have hv : eval p k { rows := ensure (needs p).1 part.builtRows caller.rows,
                         cols := ensure (needs p).2 part.builtCols caller.cols } =
              eval p k (shimCaller pr) :=
      hloc p k _ _ (fun h => by simpa [shimCaller] using r2 h) (fun h => by simpa [shimCaller] using c2 h)
    refine ⟨hv, r1, c1, r3, c3, ?_⟩
    constructor
    · intro hb
      simp only [Bool.or_eq_true] at hb
      rcases hb with hb | hb
      · exact r3 (hg.rows hb)
      · exact r2 hb
    · intro hb
      simp only [Bool.or_eq_true] at hb
      rcases hb with hb | hb
      · exact c3 (hg.cols hb)
      · exact c2 hb
    · intro q w hq
      split at hq
      · exact hg.cache q w hq
      · rw [cacheGet_cons] at hq
        by_cases hpq : p = q
        · simp only [hpq, if_true, Option.some.injEq] at hq
          rw [← hq, ← hpq]; exact hv
        · simp only [hpq, if_false] at hq
          exact hg.cache q w hq

theorem good_mono {pr caller caller' : Caller} {k : Nat} {part : Part V}
    (hr : caller.rows = shimSide pr.rows → caller'.rows = shimSide pr.rows)
    (hc : caller.cols = shimSide pr.cols → caller'.cols = shimSide pr.cols)
    (hg : Good eval pr caller k part) : Good eval pr caller' k part :=
  ⟨fun h => hr (hg.rows h), fun h => hc (hg.cols h), hg.cache⟩

theorem step_read_none1 (nparts : Nat) {st : St V} {c k p : Nat} (hc : st.cubes[c]? = none) :
    step eval needs isNone nparts st (.read c k p) = (none, st) := by
  simp [step, hc]

theorem step_read_none2 (nparts : Nat) {st : St V} {c k p : Nat} {ps : List (Part V)}
    (hc : st.cubes[c]? = some ps) (hk : ps[k]? = none) :
    step eval needs isNone nparts st (.read c k p) = (none, st) := by
  simp [step, hc, hk]

theorem step_read_some (nparts : Nat) {st : St V} {c k p : Nat} {ps : List (Part V)} {part : Part V}
    (hc : st.cubes[c]? = some ps) (hk : ps[k]? = some part) :
    step eval needs isNone nparts st (.read c k p) =
      (some (readPart eval needs isNone k p st.caller part).1,
       { caller := (readPart eval needs isNone k p st.caller part).2.1,
         cubes := st.cubes.set c (ps.set k (readPart eval needs isNone k p st.caller part).2.2) }) := by
  simp [step, hc, hk]

theorem step_ok (hloc : Local eval needs) (nparts : Nat) {pr : Caller} {st : St V} (hinv : Inv eval pr st)
    (op : Op) :
    let r := step eval needs isNone nparts st op
    Inv eval pr r.2 ∧
    (∀ v, r.1 = some v → ∃ c k p, op = .read c k p ∧ v = eval p k (shimCaller pr)) := by
  cases op with
  | newCube =>
    simp only [step]
    refine ⟨⟨hinv.rows, hinv.cols, ?_⟩, by simp⟩
    intro c k ps part hc hk
    simp only at hc
    by_cases hlt : c < st.cubes.length
    · rw [List.getElem?_append_left hlt] at hc
      exact hinv.parts c k ps part hc hk
    · rw [List.getElem?_append_right (by omega)] at hc
      have hps : ps = List.replicate nparts {} := by
        cases hcc : c - st.cubes.length with
        | zero => simpa [hcc] using hc.symm
        | succ n => simp [hcc] at hc
      subst hps
      have hpart : part = {} := by
        have := List.mem_of_getElem? hk
        exact (List.mem_replicate.mp this).2
      subst hpart
      exact ⟨by simp, by simp, by simp [cacheGet]⟩
  | read c k p =>
    cases hc : st.cubes[c]? with
    | none => rw [step_read_none1 eval needs isNone nparts hc]; exact ⟨hinv, by simp⟩
    | some ps =>
      cases hk : ps[k]? with
      | none => rw [step_read_none2 eval needs isNone nparts hc hk]; exact ⟨hinv, by simp⟩
      | some part =>
        rw [step_read_some eval needs isNone nparts hc hk]
        obtain ⟨hv, hr, hcl, hmr, hmc, hgood⟩ :=
          readPart_ok eval needs isNone hloc (p := p) hinv.rows hinv.cols (hinv.parts c k ps part hc hk)
        refine ⟨⟨hr, hcl, ?_⟩, ?_⟩
        · intro c' k' ps' part' hc' hk'
          simp only at hc' hk'
          have hclt : c < st.cubes.length := (List.getElem?_eq_some_iff.mp hc).1
          have hklt : k < ps.length := (List.getElem?_eq_some_iff.mp hk).1
          by_cases hcc : c = c'
          · subst hcc
            rw [List.getElem?_set_self hclt] at hc'
            simp only [Option.some.injEq] at hc'
            subst hc'
            by_cases hkk : k = k'
            · subst hkk
              rw [List.getElem?_set_self hklt] at hk'
              simp only [Option.some.injEq] at hk'
              subst hk'
              exact hgood
            · rw [List.getElem?_set_ne hkk] at hk'
              exact good_mono eval hmr hmc (hinv.parts c k' ps part' hc hk')
          · rw [List.getElem?_set_ne hcc] at hc'
            exact good_mono eval hmr hmc (hinv.parts c' k' ps' part' hc' hk')
        · intro v hveq
          simp only [Option.some.injEq] at hveq
          exact ⟨c, k, p, rfl, by rw [← hveq]; exact hv⟩

theorem run_ok (hloc : Local eval needs) (nparts : Nat) {pr : Caller} :
    ∀ (ops : List Op) (st : St V), Inv eval pr st →
      let r := run eval needs isNone nparts ops st
      Inv eval pr r.2 ∧
      ∀ x ∈ ops.zip r.1, ∀ v, x.2 = some v → ∃ c k p, x.1 = .read c k p ∧ v = eval p k (shimCaller pr)
  | [], st, hinv => ⟨hinv, by simp [run]⟩
  | o :: os, st, hinv => by
    obtain ⟨h1, h2⟩ := step_ok eval needs isNone hloc nparts hinv o
    obtain ⟨h3, h4⟩ := run_ok hloc nparts os _ h1
    simp only [run]
    refine ⟨h3, ?_⟩
    intro x hx v hxv
    simp only [List.zip_cons_cons, List.mem_cons] at hx
    rcases hx with rfl | hx
    · exact h2 v hxv
    · exact h4 x hx v hxv

/-- C18, the core: for ALL histories (any number of cubes built on the same argument objects,
    reads of any properties of any partitions in any order, any number of times), every read
    returns exactly what a fresh evaluation on pristine arguments returns. -/
theorem read_refines (hloc : Local eval needs) (nparts : Nat) (pristine : Caller) (ops : List Op) :
    ∀ x ∈ ops.zip (run eval needs isNone nparts ops (init pristine)).1, ∀ v, x.2 = some v →
      ∃ c k p, x.1 = .read c k p ∧ v = fresh eval pristine p k := by
  have hinit : Inv eval pristine (init pristine : St V) :=
    ⟨Or.inl rfl, Or.inl rfl, by intro c k ps part hc; simp [init] at hc⟩
  exact (run_ok eval needs isNone hloc nparts ops _ hinit).2

/-- … and the caller's dicts end up either untouched or exactly once-shimmed -/
theorem caller_orbit (hloc : Local eval needs) (nparts : Nat) (pristine : Caller) (ops : List Op) :
    let st := (run eval needs isNone nparts ops (init pristine)).2
    SideOk pristine.rows st.caller.rows ∧ SideOk pristine.cols st.caller.cols := by
  have hinit : Inv eval pristine (init pristine : St V) :=
    ⟨Or.inl rfl, Or.inl rfl, by intro c k ps part hc; simp [init] at hc⟩
  have := (run_ok eval needs isNone hloc nparts ops _ hinit).1
  exact ⟨this.rows, this.cols⟩

/-- "No read fails because another was made first": a read of an existing partition always
    yields a value, whatever the state -/
theorem read_total (nparts : Nat) (st : St V) (c k p : Nat) (ps : List (Part V)) (part : Part V)
    (hc : st.cubes[c]? = some ps) (hk : ps[k]? = some part) :
    (step eval needs isNone nparts st (.read c k p)).1.isSome = true := by
  simp [step, hc, hk]

end machine

/-! ### CubeSet: augment_response / inflate are guarded, hence idempotent on the caller's responses -/

theorem inflate_ndim {r : Resp} (h : r.ndim = 0) : (inflate r).ndim = 1 := by
  unfold Resp.ndim at h
  have h1 : r.hasNumArray = false := by cases hh : r.hasNumArray <;> simp_all
  have h2 : r.dims = [] := by cases hd : r.dims <;> simp_all
  simp [inflate, h1, h2, Resp.ndim]

theorem augment_counts (summary r : Resp) (sc : List Int) :
    (augment summary r sc).counts.length = summary.counts.length := by
  unfold augment
  by_cases h : r.counts.length ≠ summary.counts.length
  · simp [h]
  · simp only [h, if_false]; simpa using h

theorem augment_idem (summary r : Resp) (sc : List Int) :
    augment summary (augment summary r sc) sc = augment summary r sc := by
  have h := augment_counts summary r sc
  generalize augment summary r sc = r' at h
  simp [augment, h]

theorem inflate_props (r : Resp) : (inflate r).singleCol = r.singleCol ∧ (inflate r).counts = r.counts := by
  unfold inflate; split <;> simp

theorem augment_singleCol (s r : Resp) (sc : List Int) : (augment s r sc).singleCol = r.singleCol := by
  unfold augment; split <;> simp

theorem augment_noop {s r : Resp} (sc : List Int) (h : r.counts.length = s.counts.length) :
    augment s r sc = r := by
  simp [augment, h]

theorem prepareOne_idem (multi numeric : Bool) (s : Resp) (sc : List Int) (i : Nat) (r : Resp) :
    prepareOne multi false s sc i (prepareOne multi numeric s sc i r) = prepareOne multi numeric s sc i r := by
  have key : ∀ r2 : Resp, r2.singleCol = r.singleCol →
      ((multi && r.singleCol && decide (i > 0)) = true → r2.counts.length = s.counts.length) →
      prepareOne multi false s sc i r2 = r2 := by
    intro r2 hs hlen
    unfold prepareOne
    simp only [hs, Bool.false_eq_true, if_false]
    by_cases hc : (multi && r.singleCol && decide (i > 0)) = true
    · simp only [hc, if_true]; exact augment_noop sc (hlen hc)
    · simp [hc]
  apply key
  · unfold prepareOne
    cases numeric <;> simp only [Bool.false_eq_true, if_false, if_true] <;>
      split <;> simp [(inflate_props _).1, augment_singleCol]
  · intro hc
    unfold prepareOne
    simp only [hc, if_true]
    cases numeric <;> simp [(inflate_props _).2, augment_counts]

theorem prepareRest_idem (multi numeric : Bool) (s : Resp) (sc : List Int) :
    ∀ (i : Nat) (l : List Resp),
      prepareRest multi false s sc i (prepareRest multi numeric s sc i l) = prepareRest multi numeric s sc i l
  | _, [] => rfl
  | i, r :: rs => by
    simp only [prepareRest, prepareOne_idem, prepareRest_idem multi numeric s sc (i + 1) rs]

theorem prepareRest_length (multi numeric : Bool) (s : Resp) (sc : List Int) :
    ∀ (i : Nat) (l : List Resp), (prepareRest multi numeric s sc i l).length = l.length
  | _, [] => rfl
  | i, r :: rs => by simp [prepareRest, prepareRest_length multi numeric s sc (i + 1) rs]

/-- like-for-like re-use of the SAME response objects by a second `CubeSet`: the in-place
    `augment_response` / `inflate` edits are not repeated (their guards are false afterwards),
    so the second set sees exactly what the first one saw. -/
theorem prepare_idempotent (sc : List Int) (rs : List Resp) : prepare sc (prepare sc rs) = prepare sc rs := by
  cases rs with
  | nil => rfl
  | cons r0 rest =>
    -- name the pieces of the first pass
    generalize hm : isMulti (r0 :: rest) = multi
    generalize hn : isNumericMeasure (r0 :: rest) = numeric
    have hp1 : prepare sc (r0 :: rest) =
        prepareOne multi numeric r0 sc 0 r0 ::
          prepareRest multi numeric (prepareOne multi numeric r0 sc 0 r0) sc 1 rest := by
      simp only [prepare, hm, hn]
    generalize hr0 : prepareOne multi numeric r0 sc 0 r0 = r0' at hp1
    generalize hrest : prepareRest multi numeric r0' sc 1 rest = rest' at hp1
    have hlen : rest'.length = rest.length := by rw [← hrest]; exact prepareRest_length _ _ _ _ _ _
    have hmulti : isMulti (r0' :: rest') = multi := by
      rw [← hm]; simp [isMulti, hlen]
    have hr0' : r0' = if numeric then inflate r0 else r0 := by
      rw [← hr0]; simp [prepareOne]
    have hnum : isNumericMeasure (r0' :: rest') = false := by
      unfold isNumericMeasure
      rw [hmulti]
      simp only [List.head?_cons]
      cases hmm : multi
      · simp
      · cases hnn : r0.ndim == 0
        · have : numeric = false := by rw [← hn]; simp [isNumericMeasure, hm, hmm, hnn]
          simp [hr0', this, hnn]
        · have h0 : r0.ndim = 0 := by simpa using hnn
          have : numeric = true := by rw [← hn]; simp [isNumericMeasure, hm, hmm, hnn]
          simp [hr0', this, inflate_ndim h0]
    rw [hp1]
    simp only [prepare, hmulti, hnum]
    have h0 : prepareOne multi false r0' sc 0 r0' = r0' := by simp [prepareOne]
    rw [h0, ← hrest]
    congr 1
    exact prepareRest_idem multi numeric r0' sc 1 rest

/-- N5: re-use ACROSS kinds is not covered — a bare `Cube` over a response that a numeric
    `CubeSet` has inflated sees one more dimension than over the pristine response -/
theorem cross_kind_differs {r : Resp} (h : r.ndim = 0) : (inflate r).ndim ≠ r.ndim := by
  rw [inflate_ndim h, h]; decide

/-! ### JSON text / dict / {"value": …} -/

/-- `Cube(text)`, `Cube(dict)`, `Cube({"value": dict})` and the text of the envelope all see the
    same response, for any response that has no top-level "value" key of its own -/
theorem json_forms_agree (loads : String → J) (dumps : J → String) (hrt : ∀ j, loads (dumps j) = j)
    (r : J) (hr : r.get? "value" = none) :
    cubeResponse loads (.dict r) = r ∧
    cubeResponse loads (.text (dumps r)) = r ∧
    cubeResponse loads (.dict (.obj [("value", r)])) = r ∧
    cubeResponse loads (.text (dumps (.obj [("value", r)]))) = r := by
  refine ⟨by simp [cubeResponse, hr], by simp [cubeResponse, hrt, hr], by simp [cubeResponse, J.get?],
          by simp [cubeResponse, hrt, J.get?]⟩

/-! ### the code before fix F7: the shim was NOT a fixed point -/

theorem unfixed_shimIds_ok (d : Dim) : ∀ (l : List Ref), (∀ r ∈ l, r ≠ .null) →
    Unfixed.shimIds d l = .ok (shimIds d l)
  | [], _ => rfl
  | r :: rs, h => by
    have hr : r ≠ .null := h r (by simp)
    have ih := unfixed_shimIds_ok d rs (fun x hx => h x (by simp [hx]))
    have ht : Unfixed.translate d r = .ok (translate d r) := by
      cases r with
      | null => exact absurd rfl hr
      | int n => rfl
      | str s => rfl
    simp [Unfixed.shimIds, ht, ih, shimIds]

theorem unfixed_shimIds_null (d : Dim) : ∀ (l : List Ref), .null ∈ l → ∃ e, Unfixed.shimIds d l = .raises e
  | [], h => by simp at h
  | r :: rs, h => by
    cases r with
    | null => exact ⟨"TypeError", by simp [Unfixed.shimIds, Unfixed.translate]⟩
    | int n =>
      obtain ⟨e, he⟩ := unfixed_shimIds_null d rs (by simpa using h)
      exact ⟨e, by simp [Unfixed.shimIds, Unfixed.translate, he]⟩
    | str s =>
      obtain ⟨e, he⟩ := unfixed_shimIds_null d rs (by simpa using h)
      exact ⟨e, by simp [Unfixed.shimIds, Unfixed.translate, he]⟩

/-- F7 (code before the fix): whenever a null-free id list on an array dimension contains an
    unmatched id, the first shim succeeds, writes `None` into the caller's list, and the SECOND
    shim over that list raises — second partition of a 3-D cube, or a second cube on the same dict. -/
theorem unfixed_reshim_raises_counterexample (d : Dim) (l : List Ref) (hl : ∀ r ∈ l, r ≠ .null)
    (hu : ∃ r ∈ l, translate d r = none) :
    Unfixed.shimIds d l = .ok (shimIds d l) ∧ ∃ e, Unfixed.shimIds d (shimIds d l) = .raises e := by
  refine ⟨unfixed_shimIds_ok d l hl, unfixed_shimIds_null d _ ?_⟩
  obtain ⟨r, hr, hn⟩ := hu
  simp only [shimIds, List.mem_map]
  exact ⟨r, hr, by simp [hn, back]⟩


end CrCube.C18L
