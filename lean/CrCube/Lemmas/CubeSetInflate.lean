/-
  `Cube.inflate`: tensor level (the inserted unit axis changes no value) and JSON level (the rows
  dimension is prepended to `result.dimensions`; everything else of the response is untouched).
-/
import CrCube.Lemmas.GlueResponse
import CrCube.Model.CubeSet

set_option linter.unusedSimpArgs false

namespace CrCube.Glue
open CrCube

/-! ### tensor level -/

/-- the typed form of the inserted one-category rows dimension -/
def unitVar : Var := ⟨.cat, 1, [false], false⟩

theorem validCube_unit (vars : List Var) (sh : List Nat) (data : List Val) :
    (validCube (unitVar :: vars) (FT.ofFlat (1 :: sh) data)).shape
        = 1 :: (validCube vars (FT.ofFlat sh data)).shape ∧
    ∀ (i : Nat) (ix : List Nat),
      (validCube (unitVar :: vars) (FT.ofFlat (1 :: sh) data)).get (i :: ix)
        = (validCube vars (FT.ofFlat sh data)).get ix := by
  have hv : validIdxs [false] = [0] := by decide
  refine ⟨?_, ?_⟩
  · simp [validCube, FT.take, Var.validAxes, unitVar, hv]
  · intro i ix
    simp only [validCube, FT.take, Var.validAxes, unitVar, hv, List.flatMap_cons, List.singleton_append,
      List.zipWith_cons_cons, FT.ofFlat]
    have : ([0] : List Nat).getD i 0 = 0 := by
      cases i <;> simp
    rw [this]
    simp [ravel]

/-! ### association-list updates -/

theorem lookup_setKey_self (k : String) (v : J) (kvs : List (String × J)) :
    (setKey k v kvs).lookup k = some v := by
  induction kvs with
  | nil => simp [setKey, List.lookup]
  | cons p ps ih =>
    obtain ⟨k', v'⟩ := p
    simp only [setKey]
    by_cases h : k' = k
    · subst h; simp [List.lookup]
    · have h1 : (k' == k) = false := by simpa using h
      have h2 : (k == k') = false := by simpa using (fun e : k = k' => h e.symm)
      simp [h1, List.lookup, h2, ih]

theorem lookup_setKey_ne (k k' : String) (v : J) (kvs : List (String × J)) (hne : k' ≠ k) :
    (setKey k v kvs).lookup k' = kvs.lookup k' := by
  have hb : (k' == k) = false := by simpa using hne
  induction kvs with
  | nil => simp [setKey, List.lookup, hb]
  | cons p ps ih =>
    obtain ⟨k1, v1⟩ := p
    simp only [setKey]
    by_cases h : k1 = k
    · subst h
      simp [List.lookup, hb]
    · have h1 : (k1 == k) = false := by simpa using h
      simp only [h1, Bool.false_eq_true, if_false, List.lookup_cons, ih]

theorem get_setKey_ne (k k' : String) (v d : J) (kvs : List (String × J)) (hne : k' ≠ k) :
    get (.obj (setKey k v kvs)) k' d = get (.obj kvs) k' d := by
  simp [get, lookup_setKey_ne k k' v kvs hne]

theorem item_setKey_self (k : String) (v : J) (kvs : List (String × J)) :
    item (.obj (setKey k v kvs)) k = .ok v := by
  simp [item, lookup_setKey_self]

theorem item_setKey_ne (k k' : String) (v : J) (kvs : List (String × J)) (hne : k' ≠ k) :
    item (.obj (setKey k v kvs)) k' = item (.obj kvs) k' := by
  simp [item, lookup_setKey_ne k k' v kvs hne]

/-! ### JSON level -/

/-- the response after `inflate`: `rows` prepended to `result.dimensions` -/
def withRows (kvs rkvs : List (String × J)) (rows : J) (l : List J) : J :=
  .obj (setKey "result" (.obj (setKey "dimensions" (.arr (rows :: l)) rkvs)) kvs)

theorem inflateDict_prepends (ord : List String) (kvs rkvs : List (String × J)) (l : List J) (a n : J)
    (hres : kvs.lookup "result" = some (.obj rkvs)) (hd : rkvs.lookup "dimensions" = some (.arr l))
    (hna : numericArrayDimension ord (.obj kvs) = .ok none)
    (hnm : inflateNames ord (.obj kvs) = .ok (a, n)) :
    inflateDict ord (.obj kvs) = .ok (withRows kvs rkvs (rowsDimension a n) l) := by
  simp [inflateDict, hna, item, hres, hd, hnm, modifyPath, assign, withRows]

/-- with a numeric-array dimension the insertion goes into a temporary list: the dict is unchanged -/
theorem inflateDict_numarray (ord : List String) (kvs rkvs : List (String × J)) (l : List J) (nd : J)
    (names : J × J)
    (hres : kvs.lookup "result" = some (.obj rkvs)) (hd : rkvs.lookup "dimensions" = some (.arr l))
    (hna : numericArrayDimension ord (.obj kvs) = .ok (some nd))
    (hnm : inflateNames ord (.obj kvs) = .ok names) :
    inflateDict ord (.obj kvs) = .ok (.obj kvs) := by
  simp [inflateDict, hna, item, hres, hd, hnm]

/-- everything the numeric-measure helpers read (`result.measures`) is untouched by the insertion -/
theorem measures_withRows (kvs rkvs : List (String × J)) (rows : J) (l : List J)
    (hres : kvs.lookup "result" = some (.obj rkvs)) :
    (get (withRows kvs rkvs rows l) "result" J.empty >>= fun r => get r "measures" J.empty)
      = (get (.obj kvs) "result" J.empty >>= fun r => get r "measures" J.empty) := by
  simp [withRows, get, lookup_setKey_self, hres, lookup_setKey_ne "dimensions" "measures" _ _ (by decide)]


section invariance
variable (kvs rkvs : List (String × J)) (rows : J) (l : List J)
  (hres : kvs.lookup "result" = some (.obj rkvs))
include hres

theorem get_result_withRows (d : J) :
    get (withRows kvs rkvs rows l) "result" d = .ok (.obj (setKey "dimensions" (.arr (rows :: l)) rkvs)) := by
  simp [withRows, get, lookup_setKey_self]

theorem get_result_orig (d : J) : get (.obj kvs) "result" d = .ok (.obj rkvs) := by
  simp [get, hres]

theorem item_result_withRows :
    item (withRows kvs rkvs rows l) "result" = .ok (.obj (setKey "dimensions" (.arr (rows :: l)) rkvs)) := by
  simp [withRows, item, lookup_setKey_self]

theorem item_result_orig : item (.obj kvs) "result" = .ok (.obj rkvs) := by
  simp [item, hres]

theorem measuresOf_withRows : measuresOf (withRows kvs rkvs rows l) = measuresOf (.obj kvs) := by
  simp only [measuresOf, get_result_withRows kvs rkvs rows l hres, get_result_orig kvs rkvs hres, R_bind_ok,
    get_setKey_ne "dimensions" "measures" _ _ _ (by decide)]

theorem availableNumeric_withRows (ord : List String) :
    availableNumeric ord (withRows kvs rkvs rows l) = availableNumeric ord (.obj kvs) := by
  simp only [availableNumeric, measuresOf_withRows kvs rkvs rows l hres]

theorem numericMetadata_withRows (ord : List String) :
    numericMetadata ord (withRows kvs rkvs rows l) = numericMetadata ord (.obj kvs) := by
  simp only [numericMetadata, availableNumeric_withRows kvs rkvs rows l hres,
    get_result_withRows kvs rkvs rows l hres, get_result_orig kvs rkvs hres, R_bind_ok,
    get_setKey_ne "dimensions" "measures" _ _ _ (by decide)]

theorem numericReferences_withRows (ord : List String) :
    numericReferences ord (withRows kvs rkvs rows l) = numericReferences ord (.obj kvs) := by
  simp only [numericReferences, numericMetadata_withRows kvs rkvs rows l hres]

theorem numericSubvariables_withRows (ord : List String) :
    numericSubvariables ord (withRows kvs rkvs rows l) = numericSubvariables ord (.obj kvs) := by
  simp only [numericSubvariables, numericMetadata_withRows kvs rkvs rows l hres]

theorem numericArrayDimension_withRows (ord : List String) :
    numericArrayDimension ord (withRows kvs rkvs rows l) = numericArrayDimension ord (.obj kvs) := by
  simp only [numericArrayDimension, numericSubvariables_withRows kvs rkvs rows l hres,
    numericReferences_withRows kvs rkvs rows l hres]

theorem inflateNames_withRows (ord : List String) :
    inflateNames ord (withRows kvs rkvs rows l) = inflateNames ord (.obj kvs) := by
  simp only [inflateNames, availableNumeric_withRows kvs rkvs rows l hres,
    numericReferences_withRows kvs rkvs rows l hres]

end invariance

/-- **inflating twice inserts two rows dimensions** (the code has no guard of its own) -/
theorem inflateDict_twice (ord : List String) (kvs rkvs : List (String × J)) (l : List J) (a n : J)
    (hres : kvs.lookup "result" = some (.obj rkvs)) (hd : rkvs.lookup "dimensions" = some (.arr l))
    (hna : numericArrayDimension ord (.obj kvs) = .ok none)
    (hnm : inflateNames ord (.obj kvs) = .ok (a, n)) :
    (inflateDict ord (.obj kvs) >>= inflateDict ord)
      = .ok (withRows kvs rkvs (rowsDimension a n) (rowsDimension a n :: l)) := by
  rw [inflateDict_prepends ord kvs rkvs l a n hres hd hna hnm]
  simp only [R_bind_ok]
  have h2 := inflateDict_prepends ord (setKey "result" (.obj (setKey "dimensions" (.arr (rowsDimension a n :: l)) rkvs)) kvs)
    (setKey "dimensions" (.arr (rowsDimension a n :: l)) rkvs) (rowsDimension a n :: l) a n
    (lookup_setKey_self _ _ _) (lookup_setKey_self _ _ _)
    (by
      have := numericArrayDimension_withRows kvs rkvs (rowsDimension a n) l hres ord
      simpa [withRows, hna] using this)
    (by
      have := inflateNames_withRows kvs rkvs (rowsDimension a n) l hres ord
      simpa [withRows, hnm] using this)
  simp only [withRows] at h2 ⊢
  rw [h2]
  congr 2
  -- setKey of an already set key overwrites
  have setKey_setKey : ∀ (k : String) (v w : J) (m : List (String × J)),
      setKey k w (setKey k v m) = setKey k w m := by
    intro k v w m
    induction m with
    | nil => simp [setKey]
    | cons p ps ih =>
      obtain ⟨k1, v1⟩ := p
      by_cases h : k1 = k
      · subst h; simp [setKey]
      · have h1 : (k1 == k) = false := by simpa using h
        simp [setKey, h1, ih]
  rw [setKey_setKey, setKey_setKey]

end CrCube.Glue
