/-
  Algebra of `Val` addition (a commutative monoid with an additive involution `neg`; NaN is
  absorbing, `+∞ + -∞ = NaN`) and of the list sums `Val.sum`, `sumAt`, `vsum` built on it.
  Everything here holds for ALL values, NaN and ±∞ included.
-/
import CrCube.Model.Subtotals
import Mathlib.Tactic.Ring
import Mathlib.Data.List.Perm.Basic

namespace CrCube
namespace Val

theorem add_def (a b : Val) : a + b = Val.add a b := rfl
theorem sub_def (a b : Val) : a - b = a + (-b) := rfl
theorem neg_def (a : Val) : -a = Val.neg a := rfl

theorem add_comm' (a b : Val) : a + b = b + a := by
  cases a <;> cases b <;> simp [add_def, Val.add, Rat.add_comm]

theorem add_assoc' (a b c : Val) : a + b + c = a + (b + c) := by
  cases a <;> cases b <;> cases c <;> simp [add_def, Val.add, Rat.add_assoc]

@[simp] theorem fin0_add (a : Val) : (Val.fin 0) + a = a := by
  cases a <;> simp [add_def, Val.add]

@[simp] theorem add_fin0 (a : Val) : a + (Val.fin 0) = a := by
  cases a <;> simp [add_def, Val.add]

theorem neg_add' (a b : Val) : -(a + b) = -a + -b := by
  cases a <;> cases b <;> simp [add_def, neg_def, Val.add, Val.neg, Rat.neg_add, Rat.add_comm]

@[simp] theorem neg_neg' (a : Val) : -(-a) = a := by
  cases a <;> simp [neg_def, Val.neg]

@[simp] theorem neg_fin0 : -(Val.fin 0) = Val.fin 0 := by simp [neg_def, Val.neg]

@[simp] theorem sub_fin0 (a : Val) : a - (Val.fin 0) = a := by
  rw [sub_def]; simp

@[simp] theorem nan_add (a : Val) : Val.nan + a = .nan := by cases a <;> rfl
@[simp] theorem add_nan (a : Val) : a + Val.nan = .nan := by cases a <;> rfl
@[simp] theorem nan_sub (a : Val) : Val.nan - a = .nan := by rw [sub_def]; simp
@[simp] theorem sub_nan (a : Val) : a - Val.nan = .nan := by rw [sub_def]; simp [neg_def, Val.neg]
@[simp] theorem nan_div (a : Val) : Val.nan / a = .nan := by cases a <;> rfl
@[simp] theorem div_nan (a : Val) : a / Val.nan = .nan := by cases a <;> rfl

instance : Std.Associative (α := Val) (· + ·) := ⟨add_assoc'⟩
instance : Std.Commutative (α := Val) (· + ·) := ⟨add_comm'⟩

/-- foldl with an arbitrary start -/
theorem foldl_add (l : List Val) (acc : Val) :
    l.foldl (· + ·) acc = acc + l.foldl (· + ·) (.fin 0) := by
  induction l generalizing acc with
  | nil => simp
  | cons x l ih =>
    simp only [List.foldl_cons]
    rw [ih (acc + x), ih (Val.fin 0 + x), fin0_add, add_assoc']

@[simp] theorem sum_nil : Val.sum [] = .fin 0 := rfl

theorem sum_cons (x : Val) (l : List Val) : Val.sum (x :: l) = x + Val.sum l := by
  unfold Val.sum
  simp only [List.foldl_cons]
  rw [foldl_add, fin0_add]

theorem sum_append (l₁ l₂ : List Val) : Val.sum (l₁ ++ l₂) = Val.sum l₁ + Val.sum l₂ := by
  induction l₁ with
  | nil => simp
  | cons x l ih => simp [sum_cons, ih, add_assoc']

@[simp] theorem sum_singleton (x : Val) : Val.sum [x] = x := by simp [sum_cons]

theorem sum_perm {l₁ l₂ : List Val} (h : l₁.Perm l₂) : Val.sum l₁ = Val.sum l₂ := by
  induction h with
  | nil => rfl
  | cons x _ ih => simp [sum_cons, ih]
  | swap x y l => simp only [sum_cons]; ac_rfl
  | trans _ _ ih₁ ih₂ => exact ih₁.trans ih₂

theorem sum_map_add {α : Type} (l : List α) (f g : α → Val) :
    Val.sum (l.map (fun a => f a + g a)) = Val.sum (l.map f) + Val.sum (l.map g) := by
  induction l with
  | nil => simp
  | cons x l ih => simp only [List.map_cons, sum_cons, ih]; ac_rfl

theorem sum_map_neg {α : Type} (l : List α) (f : α → Val) :
    Val.sum (l.map (fun a => -(f a))) = -(Val.sum (l.map f)) := by
  induction l with
  | nil => simp
  | cons x l ih => simp only [List.map_cons, sum_cons, ih, neg_add']

theorem sum_map_sub {α : Type} (l : List α) (f g : α → Val) :
    Val.sum (l.map (fun a => f a - g a)) = Val.sum (l.map f) - Val.sum (l.map g) := by
  simp only [sub_def, sum_map_add, sum_map_neg]

theorem sum_map_fin0 {α : Type} (l : List α) : Val.sum (l.map (fun _ => Val.fin 0)) = .fin 0 := by
  induction l with
  | nil => rfl
  | cons x l ih => rw [List.map_cons, sum_cons, ih, fin0_add]

/-- exchange of two finite sums -/
theorem sum_comm {α β : Type} (l₁ : List α) (l₂ : List β) (f : α → β → Val) :
    Val.sum (l₁.map (fun a => Val.sum (l₂.map (fun b => f a b))))
      = Val.sum (l₂.map (fun b => Val.sum (l₁.map (fun a => f a b)))) := by
  induction l₁ with
  | nil => rw [List.map_nil, sum_nil]; simp only [List.map_nil, sum_nil]; rw [sum_map_fin0]
  | cons x l ih => simp only [List.map_cons, sum_cons, ih, sum_map_add]

/-- a filtered sum is the full sum with the other terms replaced by 0 -/
theorem sum_filter_map {α : Type} (l : List α) (p : α → Bool) (f : α → Val) :
    Val.sum ((l.filter p).map f) = Val.sum (l.map (fun a => if p a then f a else .fin 0)) := by
  induction l with
  | nil => rfl
  | cons x l ih =>
    by_cases hp : p x = true
    · simp [List.filter_cons, hp, sum_cons, ih]
    · simp [List.filter_cons, hp, sum_cons, ih]

end Val

theorem sumAt_nil (f : Nat → Val) : sumAt [] f = .fin 0 := rfl
@[simp] theorem sumAt_singleton (a : Nat) (f : Nat → Val) : sumAt [a] f = f a := by
  simp [sumAt]
theorem sumAt_cons (a : Nat) (l : List Nat) (f : Nat → Val) : sumAt (a :: l) f = f a + sumAt l f := by
  simp [sumAt, Val.sum_cons]

theorem sumAt_sub (l : List Nat) (f g : Nat → Val) :
    sumAt l (fun i => f i - g i) = sumAt l f - sumAt l g := Val.sum_map_sub l f g

theorem sumAt_comm (l₁ l₂ : List Nat) (f : Nat → Nat → Val) :
    sumAt l₁ (fun a => sumAt l₂ (fun b => f a b)) = sumAt l₂ (fun b => sumAt l₁ (fun a => f a b)) :=
  Val.sum_comm l₁ l₂ f

theorem sumAt_perm {l₁ l₂ : List Nat} (h : l₁.Perm l₂) (f : Nat → Val) : sumAt l₁ f = sumAt l₂ f :=
  Val.sum_perm (h.map f)

theorem sumAt_append (l₁ l₂ : List Nat) (f : Nat → Val) :
    sumAt (l₁ ++ l₂) f = sumAt l₁ f + sumAt l₂ f := by
  simp [sumAt, Val.sum_append]

theorem vsum_eq_sumAt (n : Nat) (f : Nat → Val) : vsum n f = sumAt (List.range n) f := rfl

theorem sumAt_congr (l : List Nat) (f g : Nat → Val) (h : ∀ i ∈ l, f i = g i) : sumAt l f = sumAt l g := by
  unfold sumAt; rw [List.map_congr_left h]

end CrCube
