/-
  Shape lemmas: what each field of the count extractor reads from the RAW cube array, for
  every CAT/MR pairing of a 2-D cube.  (Pure index bookkeeping: `np.ix_` of valid positions,
  the selected plane of an MR axis, which axes are summed.)
-/
import CrCube.Lemmas.Slice2D

set_option linter.unusedSimpArgs false
set_option linter.unusedSectionVars false

namespace CrCube

section
variable (R C : Var) (hR : R.CM) (hC : C.CM) (raw : FT)
include hR hC

theorem slice2d_counts (i j : Nat) :
    (sliceCounts [R, C] raw 0).counts i j = raw.get (R.msub i ++ C.msub j) := by
  rcases hR with hR | ⟨hR, hmR, _⟩ <;> rcases hC with hC | ⟨hC, hmC, _⟩ <;>
  simp [sliceCounts, apparentKinds, Var.dks, hR, hC, *, MatCounts.factory, MatCounts.catXcat,
    MatCounts.catXmr, MatCounts.mrXcat, MatCounts.mrXmr, sliceExpr, validCube, FT.take,
    Var.validAxes, List.getD, FT.dim, Var.sub, Var.msub, Var.np]

theorem slice2d_rowBases (i j : Nat) :
    (sliceCounts [R, C] raw 0).rowBases i j
      = vsum C.np (fun u => raw.get (R.msub i ++ C.sub j u)) := by
  rcases hR with hR | ⟨hR, hmR, _⟩ <;> rcases hC with hC | ⟨hC, hmC, _⟩ <;>
  simp [sliceCounts, apparentKinds, Var.dks, hR, hC, *, MatCounts.factory, MatCounts.catXcat,
    MatCounts.catXmr, MatCounts.mrXcat, MatCounts.mrXmr, sliceExpr, validCube, FT.take,
    Var.validAxes, List.getD, FT.dim, Var.sub, Var.msub, Var.np]

theorem slice2d_columnBases (i j : Nat) :
    (sliceCounts [R, C] raw 0).columnBases i j
      = vsum R.np (fun t => raw.get (R.sub i t ++ C.msub j)) := by
  rcases hR with hR | ⟨hR, hmR, _⟩ <;> rcases hC with hC | ⟨hC, hmC, _⟩ <;>
  simp [sliceCounts, apparentKinds, Var.dks, hR, hC, *, MatCounts.factory, MatCounts.catXcat,
    MatCounts.catXmr, MatCounts.mrXcat, MatCounts.mrXmr, sliceExpr, validCube, FT.take,
    Var.validAxes, List.getD, FT.dim, Var.sub, Var.msub, Var.np]

theorem slice2d_tableBases (i j : Nat) :
    (sliceCounts [R, C] raw 0).tableBases i j
      = vsum R.np (fun t => vsum C.np (fun u => raw.get (R.sub i t ++ C.sub j u))) := by
  rcases hR with hR | ⟨hR, hmR, _⟩ <;> rcases hC with hC | ⟨hC, hmC, _⟩ <;>
  simp [sliceCounts, apparentKinds, Var.dks, hR, hC, *, MatCounts.factory, MatCounts.catXcat,
    MatCounts.catXmr, MatCounts.mrXcat, MatCounts.mrXmr, sliceExpr, validCube, FT.take,
    Var.validAxes, List.getD, FT.dim, Var.sub, Var.msub, Var.np]

theorem slice2d_nrows : (sliceCounts [R, C] raw 0).nrows = R.ext := by
  rcases hR with hR | ⟨hR, hmR, _⟩ <;> rcases hC with hC | ⟨hC, hmC, _⟩ <;>
  simp [sliceCounts, apparentKinds, Var.dks, hR, hC, *, MatCounts.factory, MatCounts.catXcat,
    MatCounts.catXmr, MatCounts.mrXcat, MatCounts.mrXmr, sliceExpr, validCube, FT.take,
    Var.validAxes, List.getD, FT.dim, Var.ext]

theorem slice2d_ncols : (sliceCounts [R, C] raw 0).ncols = C.ext := by
  rcases hR with hR | ⟨hR, hmR, _⟩ <;> rcases hC with hC | ⟨hC, hmC, _⟩ <;>
  simp [sliceCounts, apparentKinds, Var.dks, hR, hC, *, MatCounts.factory, MatCounts.catXcat,
    MatCounts.catXmr, MatCounts.mrXcat, MatCounts.mrXmr, sliceExpr, validCube, FT.take,
    Var.validAxes, List.getD, FT.dim, Var.ext]

end

end CrCube
