/-
  Lemmas for C12: the residual formula of the code vs the adjusted standardized residual of the
  statement, rank < 2 as vanishing 2×2 minors / pairwise dependent rows, the redundant
  "full base" guard, and the 2×2 chi-square identity.
-/
import CrCube.Model.Zscore
import CrCube.Spec.ZscoreSpec
import CrCube.Lemmas.VarianceLemmas
import CrCube.Lemmas.OutReal
import Mathlib.Tactic.LinearCombination

namespace CrCube

/-! ### code formula = statement formula -/

theorem Val.mul_fin' (a b : Rat) : (Val.fin a) * (Val.fin b) = .fin (a * b) := rfl

/-- `(n − rc/T) / sqrt(rc(T−r)(T−c)/T³)` is `(n − e) / sqrt(e (1 − r/T)(1 − c/T))`, e = rc/T.
    (When T = 0 the bases r, c ≤ T vanish too and both terms are NaN.) -/
theorem z_eq_adjResidual (n r c t : Rat) (h : t ≠ 0 ∨ (r = 0 ∧ c = 0)) :
    ZCell.z ⟨.fin n, .fin t, .fin r, .fin c⟩ = adjResidual (.fin n) (.fin r) (.fin c) (.fin t) := by
  by_cases ht : t = 0
  · rcases h with h | ⟨hr, hc⟩
    · exact absurd ht h
    · subst ht hr hc
      simp only [ZCell.z, ZCell.expected, ZCell.variance, adjResidual]
      have h00 : (Val.fin 0 * Val.fin 0 / Val.fin 0) = Val.nan := by decide +kernel
      have h01 : (Val.fin 0 * Val.fin 0 * (Val.fin 0 - Val.fin 0) * (Val.fin 0 - Val.fin 0)
          / (Val.fin 0 * Val.fin 0 * Val.fin 0)) = Val.nan := by decide +kernel
      rw [h00, h01, Val.nan_mul, Val.nan_mul]
  · have ht3 : t * t * t ≠ 0 := by
      intro h0
      rcases mul_eq_zero.mp h0 with h1 | h1
      · rcases mul_eq_zero.mp h1 with h2 | h2 <;> exact ht h2
      · exact ht h1
    simp only [ZCell.z, ZCell.expected, ZCell.variance, adjResidual, Val.mul_fin, Val.sub_fin,
      Val.div_fin_ne _ _ ht, Val.div_fin_ne _ _ ht3]
    congr 2
    field_simp

/-! ### rank < 2 -/

def MinorsVanish (nr nc : Nat) (m : Nat → Nat → Rat) : Prop :=
  ∀ i, i < nr → ∀ k, k < nr → ∀ j, j < nc → ∀ l, l < nc → m i j * m k l - m i l * m k j = 0

/-- two rows are linearly dependent -/
def RowsDependent (nc : Nat) (u v : Nat → Rat) : Prop :=
  ∃ α β : Rat, (α ≠ 0 ∨ β ≠ 0) ∧ ∀ j, j < nc → α * u j + β * v j = 0

theorem minorsVanishQ_iff (nr nc : Nat) (m : Nat → Nat → Rat) :
    minorsVanishQ nr nc m = true ↔ MinorsVanish nr nc m := by
  simp only [minorsVanishQ, List.all_eq_true, List.mem_range, decide_eq_true_eq, MinorsVanish]

/-- **all 2×2 minors vanish ⇔ no two rows are linearly independent** -/
theorem minorsVanish_iff_rows_dependent (nr nc : Nat) (m : Nat → Nat → Rat) :
    MinorsVanish nr nc m ↔ ∀ i, i < nr → ∀ k, k < nr → RowsDependent nc (m i) (m k) := by
  constructor
  · intro h i hi k hk
    by_cases hz : ∀ l, l < nc → m k l = 0
    · refine ⟨0, 1, Or.inr one_ne_zero, fun j hj => ?_⟩
      rw [hz j hj]; ring
    · push Not at hz
      obtain ⟨l, hl, hkl⟩ := hz
      refine ⟨m k l, -(m i l), Or.inl hkl, fun j hj => ?_⟩
      have := h i hi k hk j hj l hl
      linear_combination this
  · intro h i hi k hk j hj l hl
    obtain ⟨α, β, hab, hdep⟩ := h i hi k hk
    have h1 := hdep j hj
    have h2 := hdep l hl
    rcases hab with ha | hb
    · have : α * (m i j * m k l - m i l * m k j) = 0 := by
        linear_combination m k l * h1 - m k j * h2
      rcases mul_eq_zero.mp this with h0 | h0
      · exact absurd h0 ha
      · exact h0
    · have : β * (m i j * m k l - m i l * m k j) = 0 := by
        linear_combination m i j * h2 - m i l * h1
      rcases mul_eq_zero.mp this with h0 | h0
      · exact absurd h0 hb
      · exact h0

/-- the model's test on a finite-valued count table is the rational one -/
theorem minorsVanish_fin (nr nc : Nat) (q : Nat → Nat → Rat) :
    minorsVanish nr nc (fun i j => .fin (q i j)) = minorsVanishQ nr nc q := by
  simp only [minorsVanish, minorsVanishQ, Val.mul_fin, Val.sub_fin]
  congr 1; funext i; congr 1; funext k; congr 1; funext j; congr 1; funext l
  rw [Bool.eq_iff_iff]
  simp only [beq_iff_eq, Val.fin.injEq, decide_eq_true_eq]
  constructor <;> intro h <;> linarith

theorem isDefective_fin (nr nc : Nat) (q : Nat → Nat → Rat) :
    isDefective nr nc (fun i j => .fin (q i j)) = tableDefectiveOf nr nc q := by
  simp only [isDefective, tableDefectiveOf, minorsVanish_fin]

/-! ### the "full base" guard is redundant at respondent level -/

theorem wsum_diff (s : Survey) (A B : Resp → Bool) (h : ∀ r ∈ s, A r = true → B r = true) :
    wsum s (fun r => B r && !A r) = wsum s B - wsum s A := by
  induction s with
  | nil => simp
  | cons r s ih =>
    rw [wsum_cons, wsum_cons, wsum_cons, ih (fun r' hr' => h r' (by simp [hr']))]
    have hr := h r (by simp)
    by_cases hA : A r = true
    · simp [hA, hr hA]
    · by_cases hB : B r = true
      · simp [hA, hB]; ring
      · simp [hA, hB]

/-- if W(B ∖ A) = 0 for A ⊆ B then any P ⊆ B has the same weight inside A -/
theorem adjResidual_nan_of_full (n r c t : Rat) (htr : t = r) (hn : n = c) (hct : t = 0 → c = 0) :
    (adjResidual (.fin n) (.fin r) (.fin c) (.fin t)).evalsToNan = true := by
  subst htr hn
  by_cases ht : t = 0
  · have hc := hct ht
    subst ht
    rw [hc]
    decide +kernel
  · simp only [adjResidual, Val.mul_fin, Val.sub_fin, Val.div_fin_ne _ _ ht, Out.evalsToNan, divSqrtIsNan]
    have h1 : t * n / t = n := by field_simp
    have h2 : t / t = 1 := by field_simp
    simp [h1, h2]

theorem adjResidual_nan_of_full_col (n r c t : Rat) (htc : t = c) (hn : n = r) (hrt : t = 0 → r = 0) :
    (adjResidual (.fin n) (.fin r) (.fin c) (.fin t)).evalsToNan = true := by
  subst htc hn
  by_cases ht : t = 0
  · have hr := hrt ht
    subst ht
    rw [hr]
    decide +kernel
  · simp only [adjResidual, Val.mul_fin, Val.sub_fin, Val.div_fin_ne _ _ ht, Out.evalsToNan, divSqrtIsNan]
    have h1 : n * t / t = n := by field_simp
    have h2 : t / t = 1 := by field_simp
    simp [h1, h2]

end CrCube

namespace CrCube

section respondent
variable (d : SliceDesign) (s : Survey) (R C : Side) (hR : R.OK d.rowV) (hC : C.OK d.colV)
include hR hC

theorem SliceDesign.rowBase_sub_tableBase (r : Resp) (h : d.inBase .row R C r = true) :
    d.inBase .table R C r = true := by
  simp only [SliceDesign.inBase, SliceDesign.inRowAdd, SliceDesign.rowElig, Bool.and_eq_true] at h ⊢
  exact ⟨h.1, R.add_eligible d.rowV hR _ h.2.1, h.2.2⟩

theorem SliceDesign.colBase_sub_tableBase (r : Resp) (h : d.inBase .col R C r = true) :
    d.inBase .table R C r = true := by
  simp only [SliceDesign.inBase, SliceDesign.inColAdd, SliceDesign.colElig, Bool.and_eq_true] at h ⊢
  exact ⟨h.1, h.2.1, C.add_eligible d.colV hC _ h.2.2⟩

/-- if every respondent of the table base is in the row (T = r) then the cell count is the
    column base: the residual vanishes -/
theorem count_eq_colBase_of_row_full (hw : WeightsNonneg s)
    (h : wsum s (d.inBase .table R C) = wsum s (d.inBase .row R C)) :
    wsum s (d.isPos R C) = wsum s (d.inBase .col R C) := by
  have h0 : wsum s (fun r => d.inBase .table R C r && !d.inBase .row R C r) = 0 := by
    rw [wsum_diff s _ _ (fun r _ => d.rowBase_sub_tableBase R C hR hC r), h]; ring
  have hsub : ∀ r ∈ s, (d.inBase .col R C r && !d.isPos R C r) = true →
      (d.inBase .table R C r && !d.inBase .row R C r) = true := by
    intro r _ hr
    simp only [Bool.and_eq_true, Bool.not_eq_true'] at hr ⊢
    refine ⟨d.colBase_sub_tableBase R C hR hC r hr.1, ?_⟩
    have h1 := hr.1
    have h2 := hr.2
    simp only [SliceDesign.inBase, SliceDesign.isPos, SliceDesign.inColAdd, SliceDesign.inRowAdd,
      SliceDesign.rowElig, SliceDesign.colElig, Bool.and_eq_true, Bool.and_eq_false_iff] at h1 h2 ⊢
    rcases h2 with (h2 | h2) | h2
    · simp [h1.1] at h2
    · right; left; exact h2
    · simp [h1.2.2] at h2
  have h1 := wsum_zero_of_subset s _ _ hw hsub h0
  rw [wsum_diff s _ _ (fun r _ => d.pos_sub_base R C hR hC .col r)] at h1
  linarith

theorem count_eq_rowBase_of_col_full (hw : WeightsNonneg s)
    (h : wsum s (d.inBase .table R C) = wsum s (d.inBase .col R C)) :
    wsum s (d.isPos R C) = wsum s (d.inBase .row R C) := by
  have h0 : wsum s (fun r => d.inBase .table R C r && !d.inBase .col R C r) = 0 := by
    rw [wsum_diff s _ _ (fun r _ => d.colBase_sub_tableBase R C hR hC r), h]; ring
  have hsub : ∀ r ∈ s, (d.inBase .row R C r && !d.isPos R C r) = true →
      (d.inBase .table R C r && !d.inBase .col R C r) = true := by
    intro r _ hr
    simp only [Bool.and_eq_true, Bool.not_eq_true'] at hr ⊢
    refine ⟨d.rowBase_sub_tableBase R C hR hC r hr.1, ?_⟩
    have h1 := hr.1
    have h2 := hr.2
    simp only [SliceDesign.inBase, SliceDesign.isPos, SliceDesign.inColAdd, SliceDesign.inRowAdd,
      SliceDesign.rowElig, SliceDesign.colElig, Bool.and_eq_true, Bool.and_eq_false_iff] at h1 h2 ⊢
    rcases h2 with (h2 | h2) | h2
    · simp [h1.1] at h2
    · simp [h1.2.1] at h2
    · right; right; exact h2
  have h1 := wsum_zero_of_subset s _ _ hw hsub h0
  rw [wsum_diff s _ _ (fun r _ => d.pos_sub_base R C hR hC .row r)] at h1
  linarith

end respondent

end CrCube

namespace CrCube

/-! ### 2 × 2 chi-square algebra (margins as opaque variables) -/

theorem chi2_term (o r c t D : Rat) (hr : r ≠ 0) (hc : c ≠ 0) (ht : t ≠ 0)
    (hD : D * D = (o * t - r * c) * (o * t - r * c)) :
    (o - r * c / t) * (o - r * c / t) / (r * c / t) = D * D / (t * r * c) := by
  rw [hD]
  field_simp

theorem chi2_sum (D t r1 r2 c1 c2 : Rat) (hr1 : r1 ≠ 0) (hr2 : r2 ≠ 0) (hc1 : c1 ≠ 0) (hc2 : c2 ≠ 0)
    (ht : t ≠ 0) (h1 : r1 + r2 = t) (h2 : c1 + c2 = t) :
    D * D / (t * r1 * c1) + D * D / (t * r1 * c2) + D * D / (t * r2 * c1) + D * D / (t * r2 * c2)
      = D * D * t / (r1 * r2 * c1 * c2) := by
  have e : D * D / (t * r1 * c1) + D * D / (t * r1 * c2) + D * D / (t * r2 * c1) + D * D / (t * r2 * c2)
      = D * D * ((r1 + r2) * (c1 + c2)) / (t * (r1 * r2 * c1 * c2)) := by
    field_simp
    ring
  rw [e, h1, h2]
  field_simp

theorem z_sq_closed (o r c t r' c' D : Rat) (hr : r ≠ 0) (hc : c ≠ 0) (ht : t ≠ 0) (hr' : r' ≠ 0)
    (hc' : c' ≠ 0) (hD : D = o * t - r * c) :
    (o - r * c / t) ^ 2 / (r * c * r' * c' / (t * t * t)) = D * D * t / (r * r' * c * c') := by
  subst hD
  field_simp

end CrCube
