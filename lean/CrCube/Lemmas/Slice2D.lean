/-
  2-D slices: the count extractor of each CAT/MR type pair, applied to the tabulation
  `cubeOf [R, C] s`, gives the respondent-level counts and bases.
-/
import CrCube.Lemmas.VarMem

namespace CrCube

/-- Σ_{t<n} of disjoint weighted counts is the weighted count of the union -/
theorem vsum_wsum (s : Survey) (n : Nat) (P : Nat → Resp → Bool) (Q : Resp → Bool)
    (hd : ∀ r ∈ s, ∀ t t', t < n → t' < n → P t r = true → P t' r = true → t = t')
    (hq : ∀ r ∈ s, ((List.range n).any fun t => P t r) = Q r) :
    vsum n (fun t => .fin (wsum s (P t))) = .fin (wsum s Q) := by
  rw [vsum_fin, wsum_sum_disjoint s (List.range n) P]
  · rw [wsum_congr _ _ _ hq]
  · intro r hr
    apply List.Nodup.pairwise_of_forall_ne List.nodup_range
    intro a ha b hb hab ⟨h1, h2⟩
    exact hab (hd r hr a b (List.mem_range.mp ha) (List.mem_range.mp hb) h1 h2)

theorem vsum_congr (n : Nat) (f g : Nat → Val) (h : ∀ t, t < n → f t = g t) : vsum n f = vsum n g := by
  unfold vsum
  congr 1
  apply List.map_congr_left
  intro t ht
  exact h t (List.mem_range.mp ht)

/-- double sums -/
theorem vsum2_wsum (s : Survey) (n m : Nat) (P : Nat → Nat → Resp → Bool) (Q : Resp → Bool)
    (hd : ∀ r ∈ s, ∀ a b a' b', a < n → b < m → a' < n → b' < m →
      P a b r = true → P a' b' r = true → a = a' ∧ b = b')
    (hq : ∀ r ∈ s, ((List.range n).any fun a => (List.range m).any fun b => P a b r) = Q r) :
    vsum n (fun a => vsum m (fun b => .fin (wsum s (P a b)))) = .fin (wsum s Q) := by
  have inner : ∀ a, a < n → vsum m (fun b => .fin (wsum s (P a b)))
      = .fin (wsum s (fun r => (List.range m).any fun b => P a b r)) := by
    intro a ha
    apply vsum_wsum
    · intro r hr t t' ht ht' h1 h2
      exact (hd r hr a t a t' ha ht ha ht' h1 h2).2
    · intro r _; rfl
  rw [vsum_congr n _ _ inner]
  apply vsum_wsum
  · intro r hr a a' ha ha' h1 h2
    simp only [List.any_eq_true, List.mem_range] at h1 h2
    obtain ⟨b, hb, h1⟩ := h1
    obtain ⟨b', hb', h2⟩ := h2
    exact (hd r hr a b a' b' ha hb ha' hb' h1 h2).1
  · exact hq

theorem memCell_two (R C : Var) (a : List (List Nat)) (x y : List Nat)
    (hx : x.length = R.rank) (hy : y.length = C.rank) :
    memCell [R, C] a (x ++ y) =
      match a with
      | [aR, aC] => R.mem aR x && C.mem aC y
      | _ => false := by
  match a with
  | [] => simp [memCell]
  | [_] => simp [memCell]
  | [aR, aC] =>
    simp only [memCell, ← hx, List.take_left', List.drop_left', ← hy, List.take_length, List.drop_length]
    cases h : y with
    | nil => simp [memCell]
    | cons y0 ys => simp [memCell]
  | _ :: _ :: _ :: _ => simp [memCell]

theorem specMemAll_two (R C : Var) (a : List (List Nat)) (eR eC : List Nat) (mR mC : List Bool)
    (h1 : eR.length = R.nApparent) (h2 : mR.length = R.nApparent)
    (h3 : eC.length = C.nApparent) (h4 : mC.length = C.nApparent) :
    specMemAll [R, C] a (eR ++ eC) (mR ++ mC) =
      match a with
      | [aR, aC] => R.specMem aR eR mR && C.specMem aC eC mC
      | _ => false := by
  match a with
  | [] => simp [specMemAll]
  | [_] => simp [specMemAll]
  | [aR, aC] =>
    simp only [specMemAll, ← h1, List.take_left', List.drop_left', ← h3, List.take_length,
      List.drop_length]
    rw [show (mR ++ mC).take eR.length = mR by rw [h1, ← h2]; exact List.take_left' rfl]
    rw [show (mR ++ mC).drop eR.length = mC by rw [h1, ← h2]; exact List.drop_left' rfl]
    rw [show mC.take eC.length = mC by rw [h3, ← h4]; exact List.take_length]
    rw [show mC.drop eC.length = [] by rw [h3, ← h4]; exact List.drop_length]
    simp [specMemAll]
  | _ :: _ :: _ :: _ => simp [specMemAll]

end CrCube

namespace CrCube

theorem Var.rank_cat (v : Var) (h : v.kind = .cat) : v.rank = 1 := by simp [Var.rank, h]
theorem Var.rank_arr (v : Var) (h : v.kind = .arr) : v.rank = 2 := by simp [Var.rank, h]
theorem Var.nApparent_cat (v : Var) (h : v.kind = .cat) : v.nApparent = 1 := by simp [Var.nApparent, h]
theorem Var.nApparent_mr (v : Var) (h : v.kind = .arr) (hm : v.isMR = true) : v.nApparent = 1 := by
  simp [Var.nApparent, h, hm]

theorem memCell_11 (R C : Var) (hR : R.rank = 1) (hC : C.rank = 1) (a : List (List Nat)) (x y : Nat) :
    memCell [R, C] a [x, y] = match a with | [aR, aC] => R.mem aR [x] && C.mem aC [y] | _ => false :=
  memCell_two R C a [x] [y] (by simp [hR]) (by simp [hC])

theorem memCell_12 (R C : Var) (hR : R.rank = 1) (hC : C.rank = 2) (a : List (List Nat)) (x y z : Nat) :
    memCell [R, C] a [x, y, z] = match a with | [aR, aC] => R.mem aR [x] && C.mem aC [y, z] | _ => false :=
  memCell_two R C a [x] [y, z] (by simp [hR]) (by simp [hC])

theorem memCell_21 (R C : Var) (hR : R.rank = 2) (hC : C.rank = 1) (a : List (List Nat)) (x y z : Nat) :
    memCell [R, C] a [x, y, z] = match a with | [aR, aC] => R.mem aR [x, y] && C.mem aC [z] | _ => false :=
  memCell_two R C a [x, y] [z] (by simp [hR]) (by simp [hC])

theorem memCell_22 (R C : Var) (hR : R.rank = 2) (hC : C.rank = 2) (a : List (List Nat)) (x y z w : Nat) :
    memCell [R, C] a [x, y, z, w] = match a with | [aR, aC] => R.mem aR [x, y] && C.mem aC [z, w] | _ => false :=
  memCell_two R C a [x, y] [z, w] (by simp [hR]) (by simp [hC])

theorem specMemAll_11 (R C : Var) (hR : R.nApparent = 1) (hC : C.nApparent = 1) (a : List (List Nat))
    (i j : Nat) (m1 m2 : Bool) :
    specMemAll [R, C] a [i, j] [m1, m2] =
      match a with | [aR, aC] => R.specMem aR [i] [m1] && C.specMem aC [j] [m2] | _ => false :=
  specMemAll_two R C a [i] [j] [m1] [m2] (by simp [hR]) (by simp [hR]) (by simp [hC]) (by simp [hC])

end CrCube

namespace CrCube

section generic2d
variable (R C : Var) (hR : R.CM) (hC : C.CM) (s : Survey)
include hR hC

theorem cubeOf_get_two (x y : List Nat) (hx : x.length = R.rank) (hy : y.length = C.rank) :
    (cubeOf [R, C] s).get (x ++ y) =
      .fin (wsum s fun r => match r.ans with | [aR, aC] => R.mem aR x && C.mem aC y | _ => false) := by
  simp only [cubeOf]
  congr 1
  apply wsum_congr
  intro r _
  exact memCell_two R C r.ans x y hx hy

theorem specCount_two (i j : Nat) (m1 m2 : Bool) :
    specCount [R, C] s [i, j] [m1, m2] =
      wsum s fun r => match r.ans with
        | [aR, aC] => R.specMem aR [i] [m1] && C.specMem aC [j] [m2] | _ => false := by
  unfold specCount
  apply wsum_congr
  intro r _
  exact specMemAll_11 R C hR.nApparent hC.nApparent r.ans i j m1 m2

theorem raw_counts (i j : Nat) (hi : i < R.ext) (hj : j < C.ext) :
    (cubeOf [R, C] s).get (R.msub i ++ C.msub j) = .fin (specCount [R, C] s [i, j] [false, false]) := by
  rw [cubeOf_get_two R C hR hC s _ _ (R.msub_length i) (C.msub_length j), specCount_two R C hR hC]
  congr 1
  apply wsum_congr
  intro r _
  match r.ans with
  | [aR, aC] => simp only [hR.mem_member aR i hi, hC.mem_member aC j hj]
  | [] => rfl
  | [_] => rfl
  | _ :: _ :: _ :: _ => rfl

theorem raw_rowBases (i j : Nat) (hi : i < R.ext) (hj : j < C.ext) :
    vsum C.np (fun u => (cubeOf [R, C] s).get (R.msub i ++ C.sub j u))
      = .fin (specCount [R, C] s [i, j] [false, true]) := by
  simp only [cubeOf_get_two R C hR hC s _ _ (R.msub_length i) (C.sub_length j _),
    specCount_two R C hR hC]
  apply vsum_wsum
  · intro r _ t t' ht ht' h1 h2
    match hra : r.ans with
    | [aR, aC] =>
      rw [hra] at h1 h2
      simp only [Bool.and_eq_true] at h1 h2
      exact hC.mem_disj aC j t t' ht ht' h1.2 h2.2
    | [] => simp [hra] at h1
    | [_] => simp [hra] at h1
    | _ :: _ :: _ :: _ => simp [hra] at h1
  · intro r _
    match r.ans with
    | [aR, aC] => simp only [any_and_left, hR.mem_member aR i hi, hC.mem_valid aC j hj]
    | [] => simp
    | [_] => simp
    | _ :: _ :: _ :: _ => simp

theorem raw_colBases (i j : Nat) (hi : i < R.ext) (hj : j < C.ext) :
    vsum R.np (fun t => (cubeOf [R, C] s).get (R.sub i t ++ C.msub j))
      = .fin (specCount [R, C] s [i, j] [true, false]) := by
  simp only [cubeOf_get_two R C hR hC s _ _ (R.sub_length i _) (C.msub_length j),
    specCount_two R C hR hC]
  apply vsum_wsum
  · intro r _ t t' ht ht' h1 h2
    match hra : r.ans with
    | [aR, aC] =>
      rw [hra] at h1 h2
      simp only [Bool.and_eq_true] at h1 h2
      exact hR.mem_disj aR i t t' ht ht' h1.1 h2.1
    | [] => simp [hra] at h1
    | [_] => simp [hra] at h1
    | _ :: _ :: _ :: _ => simp [hra] at h1
  · intro r _
    match r.ans with
    | [aR, aC] => simp only [any_and_right, hR.mem_valid aR i hi, hC.mem_member aC j hj]
    | [] => simp
    | [_] => simp
    | _ :: _ :: _ :: _ => simp

theorem raw_tableBases (i j : Nat) (hi : i < R.ext) (hj : j < C.ext) :
    vsum R.np (fun t => vsum C.np (fun u => (cubeOf [R, C] s).get (R.sub i t ++ C.sub j u)))
      = .fin (specCount [R, C] s [i, j] [true, true]) := by
  simp only [cubeOf_get_two R C hR hC s _ _ (R.sub_length i _) (C.sub_length j _),
    specCount_two R C hR hC]
  apply vsum2_wsum
  · intro r _ t u t' u' ht hu ht' hu' h1 h2
    match hra : r.ans with
    | [aR, aC] =>
      rw [hra] at h1 h2
      simp only [Bool.and_eq_true] at h1 h2
      exact ⟨hR.mem_disj aR i t t' ht ht' h1.1 h2.1, hC.mem_disj aC j u u' hu hu' h1.2 h2.2⟩
    | [] => simp [hra] at h1
    | [_] => simp [hra] at h1
    | _ :: _ :: _ :: _ => simp [hra] at h1
  · intro r _
    match r.ans with
    | [aR, aC] =>
      simp only [any_and_left, any_and_right, hR.mem_valid aR i hi, hC.mem_valid aC j hj]
    | [] => simp
    | [_] => simp
    | _ :: _ :: _ :: _ => simp

end generic2d

end CrCube
