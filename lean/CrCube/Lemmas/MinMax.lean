/-
  `np.min` / `np.max` over finite values (table base ranges).
-/
import CrCube.Model.SliceApi
import Mathlib.Tactic.Linarith
import Mathlib.Algebra.Order.Field.Rat

namespace CrCube

/-- on a non-empty list of finite values `vmin` is a member and a lower bound -/
theorem vmin_fin (l : List Rat) (hl : l ≠ []) :
    ∃ q, MatCounts.vmin (l.map Val.fin) = .fin q ∧ q ∈ l ∧ ∀ x ∈ l, q ≤ x := by
  unfold MatCounts.vmin
  cases l with
  | nil => exact absurd rfl hl
  | cons a l =>
    simp only [List.map_cons, List.headD_cons]
    -- foldl from an accumulator that is a member-and-lower-bound of what has been seen
    suffices h : ∀ (acc : Rat) (seen rest : List Rat), acc ∈ seen → (∀ x ∈ seen, acc ≤ x) →
        ∃ q, List.foldl (fun a x => if x.lt a then x else a) (Val.fin acc) (rest.map Val.fin) = .fin q ∧
          q ∈ seen ++ rest ∧ ∀ x ∈ seen ++ rest, q ≤ x by
      have := h a [a] (a :: l) (by simp) (by simp)
      obtain ⟨q, hq, hm, hle⟩ := this
      refine ⟨q, ?_, ?_, ?_⟩
      · simpa using hq
      · simpa using hm
      · intro x hx; exact hle x (by simp at hx ⊢; tauto)
    intro acc seen rest
    induction rest generalizing acc seen with
    | nil => intro hm hle; exact ⟨acc, rfl, by simpa using hm, by simpa using hle⟩
    | cons b rest ih =>
      intro hm hle
      simp only [List.map_cons, List.foldl_cons, Val.lt]
      by_cases hb : b < acc
      · simp only [hb, decide_true, if_true]
        have := ih b (seen ++ [b]) (by simp) (by
          intro x hx
          simp only [List.mem_append, List.mem_singleton] at hx
          rcases hx with hx | rfl
          · exact le_of_lt (lt_of_lt_of_le hb (hle x hx))
          · exact le_refl _)
        simp only [List.append_assoc, List.singleton_append] at this
        exact this
      · simp only [hb, decide_false, Bool.false_eq_true, if_false]
        have := ih acc (seen ++ [b]) (by simp [hm]) (by
          intro x hx
          simp only [List.mem_append, List.mem_singleton] at hx
          rcases hx with hx | rfl
          · exact hle x hx
          · exact not_lt.mp hb)
        simp only [List.append_assoc, List.singleton_append] at this
        exact this

theorem vmax_fin (l : List Rat) (hl : l ≠ []) :
    ∃ q, MatCounts.vmax (l.map Val.fin) = .fin q ∧ q ∈ l ∧ ∀ x ∈ l, x ≤ q := by
  unfold MatCounts.vmax
  cases l with
  | nil => exact absurd rfl hl
  | cons a l =>
    simp only [List.map_cons, List.headD_cons]
    suffices h : ∀ (acc : Rat) (seen rest : List Rat), acc ∈ seen → (∀ x ∈ seen, x ≤ acc) →
        ∃ q, List.foldl (fun a x => if a.lt x then x else a) (Val.fin acc) (rest.map Val.fin) = .fin q ∧
          q ∈ seen ++ rest ∧ ∀ x ∈ seen ++ rest, x ≤ q by
      have := h a [a] (a :: l) (by simp) (by simp)
      obtain ⟨q, hq, hm, hle⟩ := this
      refine ⟨q, ?_, ?_, ?_⟩
      · simpa using hq
      · simpa using hm
      · intro x hx; exact hle x (by simp at hx ⊢; tauto)
    intro acc seen rest
    induction rest generalizing acc seen with
    | nil => intro hm hle; exact ⟨acc, rfl, by simpa using hm, by simpa using hle⟩
    | cons b rest ih =>
      intro hm hle
      simp only [List.map_cons, List.foldl_cons, Val.lt]
      by_cases hb : acc < b
      · simp only [hb, decide_true, if_true]
        have := ih b (seen ++ [b]) (by simp) (by
          intro x hx
          simp only [List.mem_append, List.mem_singleton] at hx
          rcases hx with hx | rfl
          · exact le_of_lt (lt_of_le_of_lt (hle x hx) hb)
          · exact le_refl _)
        simp only [List.append_assoc, List.singleton_append] at this
        exact this
      · simp only [hb, decide_false, Bool.false_eq_true, if_false]
        have := ih acc (seen ++ [b]) (by simp [hm]) (by
          intro x hx
          simp only [List.mem_append, List.mem_singleton] at hx
          rcases hx with hx | rfl
          · exact hle x hx
          · exact not_lt.mp hb)
        simp only [List.append_assoc, List.singleton_append] at this
        exact this

end CrCube
