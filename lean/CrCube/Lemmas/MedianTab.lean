/-
  The expansion of the tabulated integer counts of a vector is a permutation of the values of
  its individual respondents (helper lemmas for C14, median).
-/
import CrCube.Lemmas.Median
import CrCube.Lemmas.ScaleTab

namespace CrCube.MedianLemmas
open CrCube CrCube.Scale CrCube.ScaleSpec CrCube.ScaleLemmas

/-- number of respondents of the vector in opposing category `k` -/
def cntN (rs : List SResp) (k : Nat) : Nat := (rs.filter (fun r => r.cat == k)).length

/-- (value, integer count) of the valued categories in `ks` -/
def pairsN (vals : List (Option Rat)) (ks : List Nat) (c : Nat → Nat) : List VN :=
  ks.filterMap (fun k => (valOf vals k).map (fun v => (v, c k)))

def valuedN (vals : List (Option Rat)) (rs : List SResp) : List VN :=
  pairsN vals (List.range vals.length) (cntN rs)

theorem pairsN_cons (vals : List (Option Rat)) (k : Nat) (ks : List Nat) (c : Nat → Nat) :
    expandN (pairsN vals (k :: ks) c)
      = ((valOf vals k).map (fun v => List.replicate (c k) v)).getD [] ++ expandN (pairsN vals ks c) := by
  unfold pairsN
  cases h : valOf vals k with
  | none => simp [List.filterMap_cons, h]
  | some v => simp [List.filterMap_cons, h, expandN_cons]

theorem bump_not_mem (vals : List (Option Rat)) (ks : List Nat) (c : Nat → Nat) (j : Nat) (hj : j ∉ ks) :
    pairsN vals ks (fun k => c k + if j = k then 1 else 0) = pairsN vals ks c := by
  unfold pairsN
  apply List.filterMap_congr
  intro k hk
  have : j ≠ k := fun e => hj (e ▸ hk)
  simp [this]

theorem bump_mem (vals : List (Option Rat)) (ks : List Nat) (c : Nat → Nat) (j : Nat)
    (hnd : ks.Nodup) (hj : j ∈ ks) :
    (expandN (pairsN vals ks (fun k => c k + if j = k then 1 else 0))).Perm
      ((valOf vals j).toList ++ expandN (pairsN vals ks c)) := by
  induction ks with
  | nil => simp at hj
  | cons k ks ih =>
    have hnd' := List.nodup_cons.mp hnd
    rw [pairsN_cons, pairsN_cons]
    by_cases hjk : j = k
    · subst hjk
      rw [bump_not_mem vals ks c j hnd'.1]
      cases h : valOf vals j with
      | none => simp
      | some v => simp [List.replicate_succ]
    · have hj' : j ∈ ks := by
        rcases List.mem_cons.mp hj with e | m
        · exact absurd e hjk
        · exact m
      have ih' := ih hnd'.2 hj'
      simp only [hjk, if_false, Nat.add_zero]
      cases hv : valOf vals j with
      | none =>
        rw [hv] at ih'
        simpa using List.Perm.append_left _ ih'
      | some v =>
        rw [hv] at ih'
        simp only [Option.toList_some, List.singleton_append] at ih' ⊢
        exact (List.Perm.append_left _ ih').trans List.perm_middle

theorem cntN_cons (r : SResp) (rs : List SResp) (k : Nat) :
    cntN (r :: rs) k = cntN rs k + if r.cat = k then 1 else 0 := by
  unfold cntN
  by_cases h : r.cat = k
  · simp [List.filter_cons, h]
  · have : (r.cat == k) = false := by simp [h]
    simp [List.filter_cons, this, h]

theorem respValues_cons (vals : List (Option Rat)) (r : SResp) (rs : List SResp) :
    respValues vals (r :: rs) = (valOf vals r.cat).toList ++ respValues vals rs := by
  unfold respValues valued
  cases h : valOf vals r.cat <;> simp [List.filterMap_cons, h]

/-- the expansion of the tabulated counts is a permutation of the respondents' values -/
theorem expand_valuedN_perm (vals : List (Option Rat)) (rs : List SResp)
    (hcat : ∀ r ∈ rs, r.cat < vals.length) :
    (expandN (valuedN vals rs)).Perm (respValues vals rs) := by
  induction rs with
  | nil =>
    have : expandN (valuedN vals []) = [] := by
      unfold valuedN pairsN expandN
      rw [List.flatMap_eq_nil_iff]
      intro p hp
      simp only [List.mem_filterMap] at hp
      obtain ⟨k, _, hk⟩ := hp
      cases hv : valOf vals k with
      | none => simp [hv] at hk
      | some v => simp [hv, cntN] at hk; rw [← hk]; rfl
    rw [this]; simp [respValues, valued]
  | cons r rs ih =>
    have hc : cntN (r :: rs) = fun k => cntN rs k + if r.cat = k then 1 else 0 := by
      funext k; exact cntN_cons r rs k
    unfold valuedN
    rw [hc, respValues_cons]
    have hb := bump_mem vals (List.range vals.length) (cntN rs) r.cat List.nodup_range
      (List.mem_range.mpr (hcat r (List.mem_cons_self ..)))
    exact hb.trans (List.Perm.append_left _ (ih (fun x hx => hcat x (List.mem_cons_of_mem _ hx))))

theorem countOf_unit (rs : List SResp) (h : ∀ r ∈ rs, r.w = 1) (k : Nat) :
    countOf rs k = ((cntN rs k : Nat) : Rat) := by
  unfold countOf cntN
  induction rs with
  | nil => simp
  | cons r rs ih =>
    have hr := h r (List.mem_cons_self ..)
    have ih' := ih (fun x hx => h x (List.mem_cons_of_mem _ hx))
    by_cases hk : (r.cat == k) = true
    · simp only [List.filter_cons, hk, if_true, List.map_cons, List.sum_cons, List.length_cons, ih', hr]
      push_cast; ring
    · simp only [List.filter_cons, hk, Bool.false_eq_true, if_false, ih']

/-- with unit weights the valued categories are the integer-count pairs -/
theorem valuedQ_catsOf_unit (vals : List (Option Rat)) (rs : List SResp) (h : ∀ r ∈ rs, r.w = 1) :
    valuedQ (catsOf vals rs) = (valuedN vals rs).map (fun p => (p.1, ((p.2 : Nat) : Rat))) := by
  unfold valuedQ catsOf valuedN pairsN
  rw [List.filterMap_map, List.map_filterMap]
  apply List.filterMap_congr
  intro k _
  cases hv : valOf vals k with
  | none => simp [hv]
  | some v => simp [hv, countOf_unit rs h k]

end CrCube.MedianLemmas
