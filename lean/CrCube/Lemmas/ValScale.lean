/-
  Scaling a `Val` by a positive finite constant commutes with `+`, `Val.sum` and division by a positive
  constant (used for "smoothed percentages = 100 × smoothed proportions = smoothing of the percentages").
-/
import CrCube.Model.Val
import Mathlib.Tactic.Ring
import Mathlib.Tactic.Linarith
import Mathlib.Tactic.FieldSimp
import Mathlib.Algebra.Order.Field.Rat

namespace CrCube
namespace Val

theorem mul_pos_fin_cases (a : Val) (k : Rat) (hk : 0 < k) :
    a * Val.fin k = match a with
      | .fin x => .fin (x * k)
      | .nan => .nan
      | .pinf => .pinf
      | .ninf => .ninf := by
  cases a with
  | fin x => rfl
  | nan => rfl
  | pinf =>
    show Val.mul .pinf (.fin k) = _
    simp [Val.mul, Val.sgn, hk]
  | ninf =>
    show Val.mul .ninf (.fin k) = _
    simp [Val.mul, Val.sgn, hk]

theorem add_mul_pos (a b : Val) (k : Rat) (hk : 0 < k) :
    (a + b) * Val.fin k = a * Val.fin k + b * Val.fin k := by
  rw [mul_pos_fin_cases a k hk, mul_pos_fin_cases b k hk, mul_pos_fin_cases (a + b) k hk]
  cases a <;> cases b <;> first
    | rfl
    | (show Val.fin _ = Val.fin _; congr 1; ring)

theorem foldl_add_mul_pos (l : List Val) (acc : Val) (k : Rat) (hk : 0 < k) :
    (l.foldl (· + ·) acc) * Val.fin k = (l.map (· * Val.fin k)).foldl (· + ·) (acc * Val.fin k) := by
  induction l generalizing acc with
  | nil => rfl
  | cons x xs ih =>
    simp only [List.foldl_cons, List.map_cons]
    rw [ih (acc + x), add_mul_pos acc x k hk]

theorem sum_mul_pos (l : List Val) (k : Rat) (hk : 0 < k) :
    Val.sum l * Val.fin k = Val.sum (l.map (· * Val.fin k)) := by
  unfold Val.sum
  rw [foldl_add_mul_pos l _ k hk]
  have : (Val.fin 0 : Val) * Val.fin k = Val.fin 0 := by
    show Val.fin (0 * k) = _; congr 1; ring
  rw [this]

theorem div_pos_fin_cases (a : Val) (w : Rat) (hw : 0 < w) :
    a / Val.fin w = match a with
      | .fin x => .fin (x / w)
      | .nan => .nan
      | .pinf => .pinf
      | .ninf => .ninf := by
  have hne : w ≠ 0 := ne_of_gt hw
  have hnl : ¬ w < 0 := not_lt.mpr hw.le
  cases a with
  | fin x => rw [Val.div_fin]; simp [hne]
  | nan => rfl
  | pinf => show Val.div .pinf (.fin w) = _; simp [Val.div, Val.sgn, hnl]
  | ninf => show Val.div .ninf (.fin w) = _; simp [Val.div, Val.sgn, hnl]

theorem div_mul_pos (a : Val) (w k : Rat) (hw : 0 < w) (hk : 0 < k) :
    (a / Val.fin w) * Val.fin k = (a * Val.fin k) / Val.fin w := by
  rw [div_pos_fin_cases a w hw, mul_pos_fin_cases a k hk]
  cases a with
  | fin x =>
    rw [mul_pos_fin_cases _ k hk, div_pos_fin_cases _ w hw]
    show Val.fin _ = Val.fin _
    congr 1; field_simp
  | nan => rfl
  | pinf => rw [mul_pos_fin_cases _ k hk, div_pos_fin_cases _ w hw]
  | ninf => rw [mul_pos_fin_cases _ k hk, div_pos_fin_cases _ w hw]

end Val
end CrCube
