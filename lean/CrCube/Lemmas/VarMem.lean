/-
  Per-variable facts linking the raw-index membership `Var.mem` (tabulation contract) with the
  respondent-level predicates `Var.specMem` (property statements), for categorical and
  multiple-response variables.
-/
import CrCube.Lemmas.Wsum
import CrCube.Model.Slice
import CrCube.Spec.SliceSpec
import Mathlib.Data.List.Nodup
import Mathlib.Data.List.Range

namespace CrCube

theorem validIdxs_nodup (m : List Bool) : (validIdxs m).Nodup := by
  unfold validIdxs
  exact List.Nodup.filter _ List.nodup_range

/-- positions of valid elements are pairwise distinct -/
theorem validIdxs_inj (m : List Bool) (t t' : Nat) (ht : t < (validIdxs m).length)
    (ht' : t' < (validIdxs m).length)
    (h : (validIdxs m)[t]?.getD 0 = (validIdxs m)[t']?.getD 0) : t = t' := by
  have h1 : (validIdxs m)[t]? = some (validIdxs m)[t] := List.getElem?_eq_getElem ht
  have h2 : (validIdxs m)[t']? = some (validIdxs m)[t'] := List.getElem?_eq_getElem ht'
  rw [h1, h2] at h
  simp only [Option.getD_some] at h
  exact (List.Nodup.getElem_inj_iff (validIdxs_nodup m)).mp h

theorem any_and_left {α : Type} (L : List α) (A : Bool) (B : α → Bool) :
    (L.any fun a => A && B a) = (A && L.any B) := by
  induction L with
  | nil => simp
  | cons x L ih => simp only [List.any_cons, ih]; cases A <;> simp

theorem any_and_right {α : Type} (L : List α) (A : α → Bool) (B : Bool) :
    (L.any fun a => A a && B) = (L.any A && B) := by
  induction L with
  | nil => simp
  | cons x L ih => simp only [List.any_cons, ih]; cases B <;> simp

theorem any_range_getD_eq (VI : List Nat) (c : Nat) :
    ((List.range VI.length).any fun t => c == VI[t]?.getD 0) = VI.contains c := by
  rw [Bool.eq_iff_iff]
  simp only [List.any_eq_true, List.mem_range, beq_iff_eq, List.contains_iff_mem]
  constructor
  · rintro ⟨t, ht, rfl⟩
    rw [List.getElem?_eq_getElem ht]; simp
  · intro hc
    obtain ⟨t, ht, rfl⟩ := List.getElem_of_mem hc
    exact ⟨t, ht, by rw [List.getElem?_eq_getElem ht]; simp⟩

section cat
variable (v : Var) (hk : v.kind = .cat)
include hk

theorem cat_mem_member (a : List Nat) (i : Nat) (hi : i < (validIdxs v.catMissing).length) :
    v.mem a [(validIdxs v.catMissing)[i]?.getD 0] = v.specMem a [i] [false] := by
  simp only [Var.mem, hk, Var.specMem, Var.vpos]
  rw [List.getElem?_eq_getElem hi]
  match a with
  | [] => simp
  | [c] => simp [eq_comm, List.getElem?_eq_getElem hi]
  | _ :: _ :: _ => simp

theorem cat_mem_valid (a : List Nat) (e : Nat) :
    ((List.range (validIdxs v.catMissing).length).any
      fun t => v.mem a [(validIdxs v.catMissing)[t]?.getD 0]) = v.specMem a [e] [true] := by
  simp only [Var.mem, hk, Var.specMem, Var.isValidPos]
  match a with
  | [] => simp
  | [c] =>
    have := any_range_getD_eq (validIdxs v.catMissing) c
    simpa using this
  | _ :: _ :: _ => simp

theorem cat_mem_disj (a : List Nat) (t t' : Nat) (ht : t < (validIdxs v.catMissing).length)
    (ht' : t' < (validIdxs v.catMissing).length)
    (h1 : v.mem a [(validIdxs v.catMissing)[t]?.getD 0] = true)
    (h2 : v.mem a [(validIdxs v.catMissing)[t']?.getD 0] = true) : t = t' := by
  simp only [Var.mem, hk, beq_iff_eq] at h1 h2
  apply validIdxs_inj v.catMissing t t' ht ht'
  rw [h1] at h2
  simpa using h2

end cat

section mr
variable (v : Var) (hk : v.kind = .arr) (hm : v.isMR = true)
include hk hm

theorem mr_mem_member (a : List Nat) (j : Nat) (hj : j < v.n)
    (h0 : 0 < (validIdxs v.catMissing).length) :
    v.mem a [(List.range v.n)[j]?.getD 0, (validIdxs v.catMissing)[0]?.getD 0]
      = v.specMem a [j] [false] := by
  simp only [Var.mem, hk, Var.specMem, hm, Var.vpos, if_true]
  rw [List.getElem?_range hj, List.getElem?_eq_getElem h0]
  simp only [Option.getD_some]
  cases a[j]? with
  | none => simp
  | some c => simp [eq_comm]

theorem mr_mem_valid (a : List Nat) (j : Nat) (hj : j < v.n) :
    ((List.range (validIdxs v.catMissing).length).any
      fun t => v.mem a [(List.range v.n)[j]?.getD 0, (validIdxs v.catMissing)[t]?.getD 0])
      = v.specMem a [j] [true] := by
  simp only [Var.mem, hk, Var.specMem, hm, Var.isValidPos, if_true]
  rw [List.getElem?_range hj]
  simp only [Option.getD_some]
  cases h : a[j]? with
  | none => simp
  | some c =>
    have := any_range_getD_eq (validIdxs v.catMissing) c
    simpa using this

omit hm in
theorem mr_mem_disj (a : List Nat) (j t t' : Nat) (ht : t < (validIdxs v.catMissing).length)
    (ht' : t' < (validIdxs v.catMissing).length)
    (h1 : v.mem a [j, (validIdxs v.catMissing)[t]?.getD 0] = true)
    (h2 : v.mem a [j, (validIdxs v.catMissing)[t']?.getD 0] = true) : t = t' := by
  simp only [Var.mem, hk, beq_iff_eq] at h1 h2
  apply validIdxs_inj v.catMissing t t' ht ht'
  rw [h1] at h2
  simpa using h2

end mr

end CrCube

namespace CrCube

/-- categorical or multiple-response variable (the variables whose cells have respondent-level
    theorems; MR needs at least one valid selection category, the first being "selected") -/
def Var.CM (v : Var) : Prop :=
  v.kind = .cat ∨ (v.kind = .arr ∧ v.isMR = true ∧ 0 < (validIdxs v.catMissing).length)

/-- number of valid elements of the (single) apparent dimension -/
def Var.ext (v : Var) : Nat :=
  match v.kind with
  | .cat => (validIdxs v.catMissing).length
  | .arr => v.n

/-- number of "planes" summed for eligibility: valid categories -/
def Var.np (v : Var) : Nat := (validIdxs v.catMissing).length

/-- raw sub-index of element `e`, valid category number `t` -/
def Var.sub (v : Var) (e t : Nat) : List Nat :=
  match v.kind with
  | .cat => [(validIdxs v.catMissing)[t]?.getD 0]
  | .arr => [(List.range v.n)[e]?.getD 0, (validIdxs v.catMissing)[t]?.getD 0]

/-- raw sub-index of membership in element `e` -/
def Var.msub (v : Var) (e : Nat) : List Nat :=
  match v.kind with
  | .cat => [(validIdxs v.catMissing)[e]?.getD 0]
  | .arr => [(List.range v.n)[e]?.getD 0, (validIdxs v.catMissing)[0]?.getD 0]

theorem Var.sub_length (v : Var) (e t : Nat) : (v.sub e t).length = v.rank := by
  unfold Var.sub Var.rank; cases v.kind <;> simp

theorem Var.msub_length (v : Var) (e : Nat) : (v.msub e).length = v.rank := by
  unfold Var.msub Var.rank; cases v.kind <;> simp

theorem Var.CM.nApparent {v : Var} (h : v.CM) : v.nApparent = 1 := by
  rcases h with h | ⟨h, hm, _⟩
  · simp [Var.nApparent, h]
  · simp [Var.nApparent, h, hm]

theorem Var.CM.mem_member {v : Var} (h : v.CM) (a : List Nat) (e : Nat) (he : e < v.ext) :
    v.mem a (v.msub e) = v.specMem a [e] [false] := by
  rcases h with h | ⟨h, hm, h0⟩
  · simp only [Var.msub, h]
    exact cat_mem_member v h a e (by simpa [Var.ext, h] using he)
  · simp only [Var.msub, h]
    exact mr_mem_member v h hm a e (by simpa [Var.ext, h] using he) h0

theorem Var.CM.mem_valid {v : Var} (h : v.CM) (a : List Nat) (e : Nat) (he : e < v.ext) :
    ((List.range v.np).any fun t => v.mem a (v.sub e t)) = v.specMem a [e] [true] := by
  rcases h with h | ⟨h, hm, _⟩
  · simp only [Var.sub, h, Var.np]
    exact cat_mem_valid v h a e
  · simp only [Var.sub, h, Var.np]
    exact mr_mem_valid v h hm a e (by simpa [Var.ext, h] using he)

theorem Var.CM.mem_disj {v : Var} (h : v.CM) (a : List Nat) (e t t' : Nat) (ht : t < v.np)
    (ht' : t' < v.np) (h1 : v.mem a (v.sub e t) = true) (h2 : v.mem a (v.sub e t') = true) :
    t = t' := by
  rcases h with h | ⟨h, _, _⟩
  · simp only [Var.sub, h] at h1 h2
    exact cat_mem_disj v h a t t' ht ht' h1 h2
  · simp only [Var.sub, h] at h1 h2
    exact mr_mem_disj v h a _ t t' ht ht' h1 h2

end CrCube
