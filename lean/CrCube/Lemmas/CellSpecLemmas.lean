/-
  Facts about the respondent-level cell predicates of `Spec/CellSpec.lean`.
-/
import CrCube.Spec.CellSpec
import CrCube.Lemmas.Wsum

namespace CrCube

/-- whoever belongs to an element is eligible for it -/
theorem Var.inElem_eligible (v : Var) (a : List Nat) (e : Nat) (h : v.inElem a e = true) :
    v.eligibleFor a e = true := by
  unfold Var.inElem at h
  unfold Var.eligibleFor
  unfold Var.specMem at h ⊢
  cases hk : v.kind with
  | cat =>
    simp only [hk] at h ⊢
    match a, h with
    | [c], h =>
      simp only [Bool.false_eq_true, if_false, beq_iff_eq] at h
      simp only [if_true, Var.isValidPos, List.contains_iff_mem]
      unfold Var.vpos at h
      exact List.mem_of_getElem? h
  | arr =>
    simp only [hk] at h ⊢
    cases hm : v.isMR with
    | true =>
      simp only [hm, if_true] at h ⊢
      cases hc : a[e]? with
      | none => simp [hc] at h
      | some c =>
        simp only [hc, Bool.false_eq_true, if_false, beq_iff_eq] at h
        simp only [if_true, Var.isValidPos, List.contains_iff_mem]
        unfold Var.vpos at h
        exact List.mem_of_getElem? h
    | false =>
      simp [hm] at h

end CrCube
