/-
  Facts about the respondent-level cell predicates of `Spec/CellSpec.lean`.
-/
import CrCube.Spec.CellSpec
import CrCube.Lemmas.Wsum
import Mathlib.Data.List.Nodup
import Mathlib.Data.List.Range

namespace CrCube

theorem validIdxs_nodup' (m : List Bool) : (validIdxs m).Nodup := by
  unfold validIdxs
  exact List.Nodup.filter _ List.nodup_range

/-- whoever belongs to an element is eligible for it -/
theorem Var.inElem_eligible (v : Var) (a : List Nat) (e : Nat) (h : v.inElem a e = true) :
    v.eligibleFor a e = true := by
  unfold Var.inElem at h
  unfold Var.eligibleFor
  unfold Var.specMem at h ⊢
  cases hk : v.kind with
  | cat =>
    simp only [hk] at h ⊢
    match a, h with
    | [c], h =>
      simp only [Bool.false_eq_true, if_false, beq_iff_eq] at h
      simp only [if_true, Var.isValidPos, List.contains_iff_mem]
      unfold Var.vpos at h
      exact List.mem_of_getElem? h
  | arr =>
    simp only [hk] at h ⊢
    cases hm : v.isMR with
    | true =>
      simp only [hm, if_true] at h ⊢
      cases hc : a[e]? with
      | none => simp [hc] at h
      | some c =>
        simp only [hc, Bool.false_eq_true, if_false, beq_iff_eq] at h
        simp only [if_true, Var.isValidPos, List.contains_iff_mem]
        unfold Var.vpos at h
        exact List.mem_of_getElem? h
    | false =>
      simp [hm] at h

end CrCube

namespace CrCube

/-- a side is well-formed for its variable: insertions (several addends, subtrahends) exist on
    categorical dimensions only; on a multiple-response dimension a side is one item -/
def Side.OK (sd : Side) (v : Var) : Prop := v.kind = .cat ∨ (∃ e, sd.add = [e] ∧ sd.sub = [])

/-- addends and subtrahends of the side are disjoint (DESIGN N2) -/
def Side.Disj (sd : Side) : Prop := ∀ e ∈ sd.add, e ∉ sd.sub

instance (sd : Side) : Decidable sd.Disj := by unfold Side.Disj; infer_instance

theorem Side.base_OK (e : Nat) (v : Var) : (Side.base e).OK v := Or.inr ⟨e, rfl, rfl⟩
theorem Side.base_Disj (e : Nat) : (Side.base e).Disj := by intro x _; simp [Side.base]

/-- on a categorical variable eligibility does not depend on the element -/
theorem Var.eligibleFor_cat (v : Var) (h : v.kind = .cat) (a : List Nat) (e e' : Nat) :
    v.eligibleFor a e = v.eligibleFor a e' := by
  unfold Var.eligibleFor Var.specMem
  simp only [h]
  match a with
  | [] => rfl
  | [c] => rfl
  | _ :: _ :: _ => rfl

/-- a respondent belongs to at most one element of a categorical variable -/
theorem Var.inElem_cat_unique (v : Var) (h : v.kind = .cat) (a : List Nat) (e e' : Nat)
    (h1 : v.inElem a e = true) (h2 : v.inElem a e' = true) : e = e' := by
  unfold Var.inElem Var.specMem at h1 h2
  simp only [h] at h1 h2
  match a, h1, h2 with
  | [c], h1, h2 =>
    simp only [Bool.false_eq_true, if_false, beq_iff_eq, Var.vpos] at h1 h2
    have hn := validIdxs_nodup' v.catMissing
    obtain ⟨he, h1'⟩ := List.getElem?_eq_some_iff.mp h1
    obtain ⟨he', h2'⟩ := List.getElem?_eq_some_iff.mp h2
    exact (List.Nodup.getElem_inj_iff hn).mp (h1'.trans h2'.symm)

theorem Side.inAny_disj (sd : Side) (v : Var) (hok : sd.OK v) (hd : sd.Disj) (a : List Nat) :
    ¬ (v.inAny a sd.add = true ∧ v.inAny a sd.sub = true) := by
  rintro ⟨h1, h2⟩
  rcases hok with hc | ⟨e, _, hs⟩
  · unfold Var.inAny at h1 h2
    simp only [List.any_eq_true] at h1 h2
    obtain ⟨e, he, h1⟩ := h1
    obtain ⟨e', he', h2⟩ := h2
    have := v.inElem_cat_unique hc a e e' h1 h2
    subst this
    exact hd e he he'
  · simp [hs, Var.inAny] at h2

theorem Side.add_eligible (sd : Side) (v : Var) (hok : sd.OK v) (a : List Nat)
    (h : v.inAny a sd.add = true) : sd.eligible v a = true := by
  unfold Var.inAny at h
  simp only [List.any_eq_true] at h
  obtain ⟨e, he, h1⟩ := h
  have h2 := v.inElem_eligible a e h1
  unfold Side.eligible
  rcases hok with hc | ⟨e0, ha, hs⟩
  · rw [v.eligibleFor_cat hc a _ e]; exact h2
  · rw [ha] at he
    simp only [List.mem_singleton] at he
    subst he
    simpa [ha, hs] using h2

theorem Side.sub_eligible (sd : Side) (v : Var) (hok : sd.OK v) (a : List Nat)
    (h : v.inAny a sd.sub = true) : sd.eligible v a = true := by
  unfold Var.inAny at h
  simp only [List.any_eq_true] at h
  obtain ⟨e, he, h1⟩ := h
  have h2 := v.inElem_eligible a e h1
  unfold Side.eligible
  rcases hok with hc | ⟨e0, _, hs⟩
  · rw [v.eligibleFor_cat hc a _ e]; exact h2
  · simp [hs] at he

end CrCube
