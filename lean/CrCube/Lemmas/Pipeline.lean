/-
  Helper lemmas for Props/C05_Pipeline: block extents, what strip leaves alone, the pipeline's
  orders (membership, duplicate-freeness, subset of the stripped order), what an assembled cell
  reads, `TDim.resolve`.
-/
import CrCube.Lemmas.PipelineOrder
import CrCube.Props.C05

set_option linter.unusedSimpArgs false
set_option linter.unusedVariables false

namespace CrCube.Pipeline
open CrCube CrCube.Collator CrCube.Lemmas.Bridge CrCube.Lemmas.AnchoredFinal

/-! ## block extents -/

theorem dirPropBlocks_ext (m : MatCounts) (x : SubCtx) (d : Dir) :
    (dirPropBlocks m x d).nr = m.nrows ∧ (dirPropBlocks m x d).nc = m.ncols ∧
    (dirPropBlocks m x d).nrs = x.rowSubs.length ∧ (dirPropBlocks m x d).ncs = x.colSubs.length := by
  cases d <;>
    simp [dirPropBlocks, Msr.counts, SumSub.blocks, Msr.rowWeightedBases, Msr.columnWeightedBases,
      Msr.tableBases, Msr.rowProportions, Msr.columnProportions, Msr.tableProportions, Blocks.zipWith]

/-- the extents of every measure's blocks are those of the extractor and of the subtotal lists -/
theorem sliceBlocks_ext (c : CubeData) (rows cols : RDim) (key : MKey) :
    let b := sliceBlocks c rows cols key
    (b.nr = c.w.nrows ∨ b.nr = c.u.nrows) ∧ (b.nc = c.w.ncols ∨ b.nc = c.u.ncols) ∧
    b.nrs = rows.subtotals.length ∧ b.ncs = cols.subtotals.length := by
  have hp := dirPropBlocks_ext c.w (sliceCtx rows cols) (popDir rows.catDate cols.catDate)
  cases key <;>
    simp [sliceBlocks, sliceCtx, Msr.counts, SumSub.blocks, Msr.rowWeightedBases, Msr.rowUnweightedBases,
      Msr.columnWeightedBases, Msr.columnUnweightedBases, Msr.tableBases, Msr.rowProportions,
      Msr.columnProportions, Msr.tableProportions, Blocks.zipWith, varianceBlocks, stdErrKeyBlocks,
      zKeyBlocks, pKeyBlocks, colIndexBlocks, blocksOfFn, Msr.sums, Msr.nanMeasure, NanSub.blocks,
      Msr.rowShareSum, Msr.columnShareSum, Msr.totalShareSum]
  · exact ⟨Or.inl hp.1, Or.inl hp.2.1, hp.2.2.1, hp.2.2.2⟩

section slice
variable (c : CubeData) (rows cols : RDim)

theorem sliceBlocks_nr (h : SliceWF c rows cols) (key : MKey) :
    (sliceBlocks c rows cols key).nr = rows.cdim.elems.length := by
  rcases (sliceBlocks_ext c rows cols key).1 with h' | h'
  · rw [h']; exact h.2.2.1
  · rw [h']; exact h.2.2.2.2.1

theorem sliceBlocks_nc (h : SliceWF c rows cols) (key : MKey) :
    (sliceBlocks c rows cols key).nc = cols.cdim.elems.length := by
  rcases (sliceBlocks_ext c rows cols key).2.1 with h' | h'
  · rw [h']; exact h.2.2.2.1
  · rw [h']; exact h.2.2.2.2.2.1

theorem sliceBlocks_nrs (h : SliceWF c rows cols) (key : MKey) :
    (sliceBlocks c rows cols key).nrs = rows.cdim.subs.length := by
  rw [(sliceBlocks_ext c rows cols key).2.2.1]
  exact h.2.2.2.2.2.2.1

theorem sliceBlocks_ncs (h : SliceWF c rows cols) (key : MKey) :
    (sliceBlocks c rows cols key).ncs = cols.cdim.subs.length := by
  rw [(sliceBlocks_ext c rows cols key).2.2.2]
  exact h.2.2.2.2.2.2.2.1

/-! ## what strip leaves alone -/

theorem sliceBlocks_strip (key : MKey) :
    sliceBlocks c rows.strip cols.strip key = sliceBlocks c rows cols key := rfl

theorem sliceWF_strip (h : SliceWF c rows cols) : SliceWF c rows.strip cols.strip := h

theorem rowROrder_strip :
    rowROrder (sliceBlocks c rows.strip cols.strip) (sliceAvail c) (rowMarginalKeys c rows.strip cols.strip)
      rows.strip cols.strip = .payload := rfl

theorem colROrder_strip :
    colROrder (sliceBlocks c rows.strip cols.strip) (sliceAvail c) rows.strip cols.strip = .payload := rfl

theorem rowPruneSubs_strip : rowPruneSubs c cols.strip = false := rfl
theorem colPruneSubs_strip : colPruneSubs c rows.strip = false := rfl

/-! ## the resolved collations cover the dimensions -/

theorem sliceVectors_length (values : List Val) (counts bases : List (List Val)) (subs : List Scale.Sub) :
    (Scale.sliceVectors values counts bases subs).length = counts.length + subs.length := by
  simp [Scale.sliceVectors]

theorem mat_length (m : MatCounts) (f : Nat → Nat → Val) : (m.mat f).length = m.nrows := by
  simp [MatCounts.mat, tab2]

theorem rowScaleVectors_length : (rowScaleVectors c rows cols).length = c.w.nrows + rows.subtotals.length := by
  unfold rowScaleVectors
  rw [sliceVectors_length, mat_length, List.length_map]

theorem colScaleVectors_length : (colScaleVectors c rows cols).length = c.w.ncols + cols.subtotals.length := by
  unfold colScaleVectors
  rw [sliceVectors_length, List.length_map]
  simp [tab2]

/-- every marginal a rows order may sort by has one value per row element and per row subtotal -/
theorem rowMarginalKeys_wf (h : SliceWF c rows cols) (m : MargKey) (v sv : List Val)
    (hm : rowMarginalKeys c rows cols m = some (v, sv)) :
    v.length = rows.cdim.elems.length ∧ sv.length = rows.cdim.subs.length := by
  have hnr := sliceBlocks_nr c rows cols h
  have hnrs := sliceBlocks_nrs c rows cols h
  have hw : c.w.nrows = rows.cdim.elems.length := h.2.2.1
  have hs : rows.subtotals.length = rows.cdim.subs.length := h.2.2.2.2.2.2.1
  have hvl := rowScaleVectors_length c rows cols
  have htake : ∀ {β : Type} (f : Scale.VecStats → β),
      (((rowScaleVectors c rows cols).take c.w.nrows).map f).length = rows.cdim.elems.length ∧
      (((rowScaleVectors c rows cols).drop c.w.nrows).map f).length = rows.cdim.subs.length := by
    intro β f
    simp only [List.length_map, List.length_take, List.length_drop, hvl]
    omega
  cases m <;> simp only [rowMarginalKeys] at hm
  · split at hm
    · simp only [Option.some.injEq, Prod.mk.injEq] at hm
      rw [← hm.1, ← hm.2, tab1_length, tab1_length, hnr, hnrs]; exact ⟨rfl, rfl⟩
    · exact absurd hm (by simp)
  · split at hm
    · simp only [Option.some.injEq, Prod.mk.injEq] at hm
      rw [← hm.1, ← hm.2, tab1_length, tab1_length, hnr, hnrs]; exact ⟨rfl, rfl⟩
    · exact absurd hm (by simp)
  · split at hm
    · split at hm
      · simp only [Option.some.injEq, Prod.mk.injEq] at hm
        rw [← hm.1, ← hm.2, tab1_length, tab1_length, hnr, hnrs]; exact ⟨rfl, rfl⟩
      · exact absurd hm (by simp)
    · exact absurd hm (by simp)
  all_goals
    split at hm
    · simp only [Option.some.injEq, Prod.mk.injEq] at hm
      rw [← hm.1, ← hm.2]; exact htake _
    · exact absurd hm (by simp)

/-- `rowROrder` yields sort values of the right lengths whenever its sources do -/
theorem rowROrder_wf_gen (B : MKey → Blocks) (avail : MKey → Bool)
    (Mg : MargKey → Option (List Val × List Val)) (rows cols : RDim)
    (hB : ∀ key, (B key).nr = rows.cdim.elems.length ∧ (B key).nrs = rows.cdim.subs.length)
    (hMg : ∀ m v sv, Mg m = some (v, sv) →
      v.length = rows.cdim.elems.length ∧ sv.length = rows.cdim.subs.length)
    (hl : rows.labels.length = rows.cdim.elems.length ∧ rows.subLabels.length = rows.cdim.subs.length) :
    (rowROrder B avail Mg rows cols).WF rows.cdim := by
  unfold rowROrder
  split
  · trivial
  · exact hl
  · split
    · split
      · exact ⟨by rw [tab1_length, (hB _).1], by rw [tab1_length, (hB _).2]⟩
      · trivial
    · trivial
  · split
    · trivial
    · split
      · split
        · exact ⟨by rw [tab1_length, (hB _).1], by rw [tab1_length, (hB _).2]⟩
        · trivial
      · trivial
  · split
    · rename_i m o v sv heq
      rcases Option.bind_eq_some_iff.1 heq with ⟨mk, _, hmk⟩
      exact hMg mk v sv hmk
    · trivial
  · trivial

theorem colROrder_wf_gen (B : MKey → Blocks) (avail : MKey → Bool) (rows cols : RDim)
    (hB : ∀ key, (B key).nc = cols.cdim.elems.length ∧ (B key).ncs = cols.cdim.subs.length)
    (hl : cols.labels.length = cols.cdim.elems.length ∧ cols.subLabels.length = cols.cdim.subs.length) :
    (colROrder B avail rows cols).WF cols.cdim := by
  unfold colROrder
  split
  · trivial
  · exact hl
  · split
    · split
      · exact ⟨by rw [tab1_length, (hB _).1], by rw [tab1_length, (hB _).2]⟩
      · trivial
    · trivial
  · split
    · split
      · exact ⟨by rw [tab1_length, (hB _).1], by rw [tab1_length, (hB _).2]⟩
      · trivial
    · trivial
  · trivial

theorem rowROrder_wf (h : SliceWF c rows cols) :
    (rowROrder (sliceBlocks c rows cols) (sliceAvail c) (rowMarginalKeys c rows cols) rows cols).WF
      rows.cdim :=
  rowROrder_wf_gen _ _ _ rows cols
    (fun key => ⟨sliceBlocks_nr c rows cols h key, sliceBlocks_nrs c rows cols h key⟩)
    (rowMarginalKeys_wf c rows cols h)
    ⟨h.2.2.2.2.2.2.2.2.1, h.2.2.2.2.2.2.2.2.2.2.1⟩

theorem colROrder_wf (h : SliceWF c rows cols) :
    (colROrder (sliceBlocks c rows cols) (sliceAvail c) rows cols).WF cols.cdim :=
  colROrder_wf_gen _ _ rows cols
    (fun key => ⟨sliceBlocks_nc c rows cols h key, sliceBlocks_ncs c rows cols h key⟩)
    ⟨h.2.2.2.2.2.2.2.2.2.1, h.2.2.2.2.2.2.2.2.2.2.2⟩

end slice

/-! ## orders of the helpers -/

section helper
variable (d : Dim) (e : List Nat) (r : ROrder) (p : Bool) (hids : d.ids.Nodup) (hwf : r.WF d)
include hids hwf

omit hwf in
theorem helper_run_nodup : (helperDisplayOrder p (r.run d e)).Nodup :=
  helper_nodup (run_nodup d e r hids)

theorem helper_run_mem_nat (i : Nat) :
    (i : Int) ∈ helperDisplayOrder p (r.run d e) ↔ i < d.elems.length ∧ i ∉ d.hid e := by
  rw [mem_helper, run_visible_iff d e r hids hwf]
  constructor
  · exact fun h => h.1
  · exact fun h => ⟨h, fun _ => Int.natCast_nonneg i⟩

theorem helper_run_mem_neg (j : Int) (hj : j < 0) :
    j ∈ helperDisplayOrder p (r.run d e) ↔ j ∈ negIdxs d.subs.length ∧ p = false := by
  rw [mem_helper, ← run_subtotal_iff d e r hids hwf]
  constructor
  · rintro ⟨hm, hp⟩
    refine ⟨⟨hj, hm⟩, ?_⟩
    cases p
    · rfl
    · exact absurd (hp rfl) (by omega)
  · rintro ⟨⟨_, hm⟩, hp⟩
    exact ⟨hm, fun h => by rw [hp] at h; exact absurd h (by simp)⟩

/-- every vector an order lists is listed by the payload order of the same dimension with
    nothing hidden, nothing pruned and the subtotals kept -/
theorem helper_run_subset (d0 : Dim) (e0 : List Nat) (hel : d0.elems = d.elems) (hsu : d0.subs = d.subs)
    (hh : d0.hidden = []) (hp : d0.prune = false) :
    ∀ x ∈ helperDisplayOrder p (r.run d e), x ∈ helperDisplayOrder false (ROrder.payload.run d0 e0) := by
  intro x hx
  rw [helper_false]
  have hids0 : d0.ids.Nodup := by
    have : d0.ids = d.ids := by simp [Dim.ids, hel]
    rw [this]; exact hids
  rw [payload_run_mem d0 e0 hids0 hh hp, hel, hsu]
  rcases run_mem_cases d e r hids hwf (mem_helper.1 hx).1 with ⟨i, rfl, hi, _⟩ | h
  · left; exact ⟨i, rfl, hi⟩
  · right; exact h

end helper

/-! ## what an assembled cell reads -/

theorem wrapIdx_nat (n i : Nat) : wrapIdx n (i : Int) = i := by
  unfold wrapIdx
  have : ¬ ((i : Int) < 0) := by omega
  simp [this]

theorem wrapIdx_neg (n k m : Nat) (hk : k < m) (hm : m ≤ n) :
    wrapIdx n ((k : Int) - (m : Int)) = n - m + k := by
  unfold wrapIdx
  have : ((k : Int) - (m : Int)) < 0 := by omega
  simp only [this, if_true]
  omega

theorem cell_body (b : ABlocks) (i j : Nat) (hi : i < b.nr) (hj : j < b.nc) :
    b.cell (i : Int) (j : Int) = b.body i j := by
  unfold ABlocks.cell ABlocks.full
  rw [wrapIdx_nat, wrapIdx_nat]
  simp [hi, hj]

theorem cell_insRow (b : ABlocks) (k j : Nat) (hk : k < b.nir) (hj : j < b.nc) :
    b.cell ((k : Int) - (b.nir : Int)) (j : Int) = b.insRows k j := by
  unfold ABlocks.cell ABlocks.full
  rw [wrapIdx_neg _ _ _ hk (by omega), wrapIdx_nat]
  have h1 : ¬ (b.nr + b.nir - b.nir + k < b.nr) := by omega
  have h2 : b.nr + b.nir - b.nir + k - b.nr = k := by omega
  simp [h1, hj, h2]

theorem cell_insCol (b : ABlocks) (i l : Nat) (hi : i < b.nr) (hl : l < b.nic) :
    b.cell (i : Int) ((l : Int) - (b.nic : Int)) = b.insCols i l := by
  unfold ABlocks.cell ABlocks.full
  rw [wrapIdx_neg _ _ _ hl (by omega), wrapIdx_nat]
  have h1 : ¬ (b.nc + b.nic - b.nic + l < b.nc) := by omega
  have h2 : b.nc + b.nic - b.nic + l - b.nc = l := by omega
  simp [h1, hi, h2]

theorem cell_inter (b : ABlocks) (k l : Nat) (hk : k < b.nir) (hl : l < b.nic) :
    b.cell ((k : Int) - (b.nir : Int)) ((l : Int) - (b.nic : Int)) = b.inter k l := by
  unfold ABlocks.cell ABlocks.full
  rw [wrapIdx_neg _ _ _ hk (by omega), wrapIdx_neg _ _ _ hl (by omega)]
  have h1 : ¬ (b.nr + b.nir - b.nir + k < b.nr) := by omega
  have h2 : b.nr + b.nir - b.nir + k - b.nr = k := by omega
  have h3 : ¬ (b.nc + b.nic - b.nic + l < b.nc) := by omega
  have h4 : b.nc + b.nic - b.nic + l - b.nc = l := by omega
  simp [h1, h2, h3, h4]

theorem assembleMatrix_cell (b : ABlocks) (ro co : List Int) (p q : Nat) (x y : Int)
    (hp : ro[p]? = some x) (hq : co[q]? = some y) :
    ((assembleMatrix b ro co).getD p []).getD q .nan = b.cell x y := by
  unfold assembleMatrix
  simp [List.getD, List.getElem?_map, hp, hq]

theorem vecCell_base (n nins : Nat) (base ins : Nat → Val) (i : Nat) (hi : i < n) :
    vecCell n nins base ins (i : Int) = base i := by
  unfold vecCell
  simp only [wrapIdx_nat]
  simp [hi]

theorem vecCell_ins (n nins : Nat) (base ins : Nat → Val) (k : Nat) (hk : k < nins) :
    vecCell n nins base ins ((k : Int) - (nins : Int)) = ins k := by
  unfold vecCell
  simp only [wrapIdx_neg _ _ _ hk (Nat.le_add_left nins n)]
  have h1 : ¬ (n + nins - nins + k < n) := by omega
  have h2 : n + nins - nins + k - n = k := by omega
  simp [h1, h2]

theorem assembleVector_cell (n nins : Nat) (base ins : Nat → Val) (o : List Int) (p : Nat) (x : Int)
    (hp : o[p]? = some x) :
    (assembleVector n nins base ins o).getD p .nan = vecCell n nins base ins x := by
  unfold assembleVector
  simp [List.getD, List.getElem?_map, hp]

/-! ## re-indexing, restated with the Model's `reindexMat` / `reindexVec` -/

theorem assembleMatrix_reindex (b : ABlocks) (ro co ro0 co0 : List Int)
    (hr : ∀ x ∈ ro, x ∈ ro0) (hc : ∀ y ∈ co, y ∈ co0) :
    assembleMatrix b ro co = reindexMat ro co ro0 co0 (assembleMatrix b ro0 co0) :=
  CrCube.C05.matrix_reindexed b ro co ro0 co0 hr hc

theorem assembleVector_reindex (n nins : Nat) (base ins : Nat → Val) (o o0 : List Int)
    (h : ∀ x ∈ o, x ∈ o0) :
    assembleVector n nins base ins o = reindexVec o o0 (assembleVector n nins base ins o0) :=
  CrCube.C05.vector_reindexed n nins base ins o o0 h

/-! ## margins re-index like everything else -/

theorem rowsMarginal_reindex (b : Blocks) (ro ro0 : List Int) (h : ∀ x ∈ ro, x ∈ ro0) :
    rowsMarginal b ro = reindexVec ro ro0 (rowsMarginal b ro0) :=
  assembleVector_reindex _ _ _ _ ro ro0 h

theorem colsMarginal_reindex (b : Blocks) (co co0 : List Int) (h : ∀ x ∈ co, x ∈ co0) :
    colsMarginal b co = reindexVec co co0 (colsMarginal b co0) :=
  assembleVector_reindex _ _ _ _ co co0 h

theorem tableMarginal_reindex (m : MatCounts) (b : Blocks) (rows cols : RDim) (ro co ro0 co0 : List Int)
    (hr : ∀ x ∈ ro, x ∈ ro0) (hc : ∀ y ∈ co, y ∈ co0) :
    tableMarginal m b rows cols ro co
      = reindexMarg (tableOrient m) ro co ro0 co0 (tableMarginal m b rows.strip cols.strip ro0 co0) := by
  unfold tableMarginal tableOrient
  cases m.tableBase with
  | some v => rfl
  | none =>
    cases m.columnsTableBase with
    | some f =>
      simp only [reindexMarg]
      exact congrArg Marg.vec (assembleVector_reindex _ _ _ _ co co0 hc)
    | none =>
      cases m.rowsTableBase with
      | some f =>
        simp only [reindexMarg]
        exact congrArg Marg.vec (assembleVector_reindex _ _ _ _ ro ro0 hr)
      | none =>
        simp only [reindexMarg]
        exact congrArg Marg.mat (assembleMatrix_reindex _ ro co ro0 co0 hr hc)

/-! ## extents -/

theorem assembleMatrix_extent (b : ABlocks) (ro co : List Int) :
    (assembleMatrix b ro co).length = ro.length ∧ ∀ row ∈ assembleMatrix b ro co, row.length = co.length :=
  CrCube.C05.extent_matches b ro co

theorem assembleVector_length (n nins : Nat) (base ins : Nat → Val) (o : List Int) :
    (assembleVector n nins base ins o).length = o.length := by
  simp [assembleVector]

/-- a margin has the extent of the orders it follows -/
def margFits (orient : Orient) (sh : Nat × Nat) : Marg → Prop
  | .scalar _ => True
  | .vec l => l.length = (match orient with | .rows => sh.1 | .cols => sh.2)
  | .mat m => m.length = sh.1 ∧ ∀ r ∈ m, r.length = sh.2

theorem tableMarginal_fits (m : MatCounts) (b : Blocks) (rows cols : RDim) (ro co : List Int) :
    margFits (tableOrient m) (ro.length, co.length) (tableMarginal m b rows cols ro co) := by
  unfold tableMarginal tableOrient
  cases m.tableBase with
  | some v => trivial
  | none =>
    cases m.columnsTableBase with
    | some f => exact assembleVector_length _ _ _ _ co
    | none =>
      cases m.rowsTableBase with
      | some f => exact assembleVector_length _ _ _ _ ro
      | none => exact assembleMatrix_extent _ ro co

/-! ## position-valued outputs -/

theorem mem_negPositions (o : List Int) (p : Nat) :
    p ∈ negPositions o ↔ ∃ x, o[p]? = some x ∧ x < 0 := by
  unfold negPositions
  rw [mem_trueIdxs, List.getElem?_map]
  cases h : o[p]? with
  | none => simp
  | some x => simp

theorem mem_flagPositions (flags : List Bool) (o : List Int) (p : Nat) :
    p ∈ flagPositions flags o ↔ ∃ x, o[p]? = some x ∧ flags.getD (wrapIdx flags.length x) false = true := by
  unfold flagPositions
  rw [mem_trueIdxs, List.getElem?_map]
  cases h : o[p]? with
  | none => simp
  | some x => simp

/-! ## strand -/

section strand
variable (c : StrandData) (d : RDim)

theorem strandBlocks_n (h : StrandWF c d) (key : SKey) : (strandBlocks c d key).n = d.cdim.elems.length := by
  cases key <;>
    simp [strandBlocks, StripeMsr.sumMeasure, StripeMsr.bases, StripeMsr.tableProportions, sblocksOfFn,
      StripeMsr.nanMeasure, StripeMsr.shareSum, h.2.1, h.2.2.1]
  · split <;> simp [h.2.1]

theorem strandBlocks_ns (h : StrandWF c d) (key : SKey) : (strandBlocks c d key).ns = d.cdim.subs.length := by
  have hs := h.2.2.2.1
  have htp : (StripeMsr.tableProportions c.w d.catDate d.subtotals).ns = d.cdim.subs.length := by
    simp only [StripeMsr.tableProportions]
    cases htb : c.w.tableBase with
    | some t => simpa using hs
    | none =>
      simp only
      by_cases h0 : d.subtotals.length = 0
      · rw [← hs, h0]
      · have := h.2.2.2.2.2.2 h0
        rw [htb] at this
        exact absurd this (by simp)
  cases key
  · simp [strandBlocks, StripeMsr.sumMeasure, hs]
  · simp [strandBlocks, StripeMsr.sumMeasure, hs]
  · simp [strandBlocks, StripeMsr.bases, hs]
  · simp [strandBlocks, StripeMsr.bases, hs]
  · exact htp
  · simp [strandBlocks, sblocksOfFn, hs]
  · simp [strandBlocks, sblocksOfFn, hs]
  · simp only [strandBlocks]
    split
    · exact htp
    · exact htp
  · simp [strandBlocks, sblocksOfFn, hs]
  · simp [strandBlocks, StripeMsr.nanMeasure, hs]
  · simp [strandBlocks, StripeMsr.sumMeasure, hs]
  · simp [strandBlocks, StripeMsr.nanMeasure, hs]
  · simp [strandBlocks, StripeMsr.nanMeasure, hs]
  · simp [strandBlocks, StripeMsr.shareSum, hs]

theorem strandBlocks_strip (key : SKey) : strandBlocks c d.strip key = strandBlocks c d key := rfl
theorem strandWF_strip (h : StrandWF c d) : StrandWF c d.strip := h
theorem strandROrder_strip :
    strandROrder (strandBlocks c d.strip) (strandAvail c) d.strip = .payload := rfl

theorem strandROrder_wf (h : StrandWF c d) :
    (strandROrder (strandBlocks c d) (strandAvail c) d).WF d.cdim := by
  unfold strandROrder
  split
  · trivial
  · exact ⟨h.2.2.2.2.1, h.2.2.2.2.2.1⟩
  · split
    · split
      · refine ⟨?_, ?_⟩
        · simp only [StripeMsr.SBlocks.baseL, tab1_length]; exact strandBlocks_n c d h _
        · simp only [StripeMsr.SBlocks.subsL, tab1_length]; exact strandBlocks_ns c d h _
      · trivial
    · trivial
  · trivial

end strand

/-! ## position-valued outputs are renumbered by the re-indexing -/

theorem getElem?_idxOf_of_mem {l : List Int} {x : Int} (h : x ∈ l) : l[l.idxOf x]? = some x := by
  have hlt := List.idxOf_lt_length_of_mem h
  rw [List.getElem?_eq_getElem hlt]
  simp

/-- a position is flagged under the order `o` iff the position of the same vector in `o0` is
    flagged under `o0` -/
theorem flagPositions_renumber (flags : List Bool) (o o0 : List Int) (hsub : ∀ x ∈ o, x ∈ o0) (p : Nat) :
    p ∈ flagPositions flags o ↔ ∃ x, o[p]? = some x ∧ o0.idxOf x ∈ flagPositions flags o0 := by
  rw [mem_flagPositions]
  constructor
  · rintro ⟨x, hx, hf⟩
    refine ⟨x, hx, (mem_flagPositions _ _ _).2 ⟨x, getElem?_idxOf_of_mem (hsub x (List.mem_of_getElem? hx)), hf⟩⟩
  · rintro ⟨x, hx, hm⟩
    obtain ⟨y, hy, hf⟩ := (mem_flagPositions _ _ _).1 hm
    rw [getElem?_idxOf_of_mem (hsub x (List.mem_of_getElem? hx))] at hy
    simp only [Option.some.injEq] at hy
    exact ⟨x, hx, hy ▸ hf⟩

theorem negPositions_renumber (o o0 : List Int) (hsub : ∀ x ∈ o, x ∈ o0) (p : Nat) :
    p ∈ negPositions o ↔ ∃ x, o[p]? = some x ∧ o0.idxOf x ∈ negPositions o0 := by
  rw [mem_negPositions]
  constructor
  · rintro ⟨x, hx, hf⟩
    refine ⟨x, hx, (mem_negPositions _ _).2 ⟨x, getElem?_idxOf_of_mem (hsub x (List.mem_of_getElem? hx)), hf⟩⟩
  · rintro ⟨x, hx, hm⟩
    obtain ⟨y, hy, hf⟩ := (mem_negPositions _ _).1 hm
    rw [getElem?_idxOf_of_mem (hsub x (List.mem_of_getElem? hx))] at hy
    simp only [Option.some.injEq] at hy
    exact ⟨x, hx, hy ▸ hf⟩

/-- the label / code / alias / fill index vector re-indexes like a value vector -/
theorem labelIdxs_reindex (n : Nat) (o o0 : List Int) (hsub : ∀ x ∈ o, x ∈ o0) :
    o.map (wrapIdx n) = o.map fun x => (o0.map (wrapIdx n)).getD (o0.idxOf x) 0 := by
  apply List.map_congr_left
  intro x hx
  exact (CrCube.C05.getD_idxOf_map o0 (wrapIdx n) x 0 (hsub x hx)).symm

end CrCube.Pipeline
