/-
  Proofs behind the C19 property theorems (statements are repeated in Props/C19.lean).
-/
import CrCube.Model.Shim
import CrCube.Spec.ShimSpec
import CrCube.Lemmas.PyInt
import CrCube.Lemmas.Shim
import CrCube.Lemmas.ShimFix

namespace CrCube.C19L
open CrCube.Shim CrCube.ShimSpec

/-- Python `int(str(n)) == n` in the model (needed for the "element id written as a string" rule) -/
theorem pyInt_decStr (n : Int) : pyInt (decStr n) = some n := CrCube.Shim.pyInt_decStr n

/-- every non-`None` result of the cascade is an alias of the dimension -/
theorem translate_mem_aliases {d : Dim} {r : Ref} {a : String} (h : translate d r = some a) :
    a ∈ d.aliases := translate_mem h

/-- MAIN: whenever the statement determines the item (`resolve d r = .item k`: exactly one item
    has `r` among its spellings / positions), the cascade finds exactly that item — whatever
    the order of the rules, with or without MR insertions, with NO extra hypothesis. -/
theorem translate_eq_resolve {d : Dim} {r : Ref} {k : Nat} (h : resolve d r = .item k) :
    translate d r = some (item d k).alias := by
  -- `resolve = item k` means `denotes = [k]`
  have hden : denotes d r = [k] := by
    unfold resolve at h
    split at h
    · next k' hk => cases h; exact hk
    · split at h <;> cases h
    · cases h
  obtain ⟨⟨hk, hdk⟩, huniq⟩ := denotes_single hden
  have fire : ∀ {a}, (∃ j, Den d r j ∧ (item d j).alias = a) → a = (item d k).alias := by
    rintro a ⟨j, hj, ha⟩
    rw [← ha, huniq j hj]
  rw [translate_unfold]
  cases h1 : rule1 d r with
  | some x => simp [fire (rule1_sound h1)]
  | none =>
  cases h2 : rule2 d r with
  | some x => simp [fire (rule2_sound h2)]
  | none =>
  cases h3 : rule3 d r with
  | some x => simp [fire (rule3_sound h3)]
  | none =>
  cases h4 : rule4 d r with
  | some x => simp [fire (rule4_sound h4)]
  | none =>
    simp only [Option.none_or]
    -- rules 1-4 are silent: `r` is the decimal string of item k's element id, or its position
    rcases (denotesAt_iff hk).mp hdk with hsp | hpos
    · rcases mem_spellings.mp hsp with rfl | rfl | rfl | ⟨hns, rfl⟩
      · rw [rule1_str (alias_mem hk)] at h1; cases h1
      · obtain ⟨a, ha⟩ := byEid_isSome_of_mem (eid_mem hk); simp [rule2, ha] at h2
      rotate_left
      · obtain ⟨a, ha⟩ := rule4_str (subvarId_mem hns hk); rw [ha] at h4; cases h4
      · obtain ⟨a, ha⟩ := byEid_isSome_of_mem (eid_mem hk)
        have h5 : rule5 d (.str (decStr (item d k).eid)) = some a := by
          simp [rule5, asInt, CrCube.Shim.pyInt_decStr, ha]
        rw [h5]
        simp only [Option.some_or]
        obtain ⟨j, hj, he, hja⟩ := byEid_some ha
        have : Den d (.str (decStr (item d k).eid)) j :=
          ⟨hj, (denotesAt_iff hj).mpr (Or.inl (mem_spellings.mpr (Or.inr (Or.inr (Or.inl (by rw [he]))))))⟩
        rw [← hja, huniq j this]
    · obtain ⟨n, hc, hne, h0, hlt, hnk⟩ := positionOf_some hpos
      have hn := asInt_of_canon hc
      have h5 : rule5 d r = none := by simp [rule5, hn, byEid_none_of_not_mem hne]
      have h6 : rule6 d r = some (item d k).alias := by
        simp only [rule6, hn, Option.bind_some, h0, hlt, and_self, if_true]
        rw [hnk]; exact aliasAt_lt hk
      simp [h5, h6]

/-- "References that match nothing are ignored rather than raising": when the statement says
    `r` matches nothing, the cascade returns `None` (the model is total: no exception). -/
theorem unmatched_none {d : Dim} {r : Ref} (h : resolve d r = .nothing) : translate d r = none := by
  have hden : denotes d r = [] ∧ nonCanonicalNumber r = false := by
    unfold resolve at h
    split at h
    · cases h
    · next hnil =>
      refine ⟨hnil, ?_⟩
      split at h
      · cases h
      · next hc => simpa using hc
    · cases h
  cases ht : translate d r with
  | none => rfl
  | some a =>
    obtain ⟨j, hj, _⟩ := translate_sound ht hden.2
    exact absurd hj (denotes_nil hden.1 j)

/-! ### spellings agree under `NoCollision` -/

theorem strs_of_spelling {d : Dim} {it : Item} {s : String} (h : Ref.str s ∈ spellings d it) : s ∈ strs d it := by
  rcases mem_spellings.mp h with h | h | h | ⟨hns, h⟩
  · exact mem_strs.mpr (Or.inl (by simpa using h))
  · cases h
  · exact mem_strs.mpr (Or.inr (Or.inl (by simpa using h)))
  · exact mem_strs.mpr (Or.inr (Or.inr ⟨hns, by simpa using h⟩))

/-- under `NoCollision` every spelling of item `k` denotes item `k` and nothing else -/
theorem noCollision_denotes {d : Dim} (h : NoCollision d) {k : Nat} (hk : k < d.size) {r : Ref}
    (hr : r ∈ spellings d (item d k)) : denotes d r = [k] := by
  apply denotes_eq_single ⟨hk, (denotesAt_iff hk).mpr (Or.inl hr)⟩
  rintro j ⟨hj, hdj⟩
  refine Classical.byContradiction fun hne => ?_
  have hpair := h.1 k hk j hj (fun e => hne e.symm)
  have hposk := h.2 k hk
  rcases (denotesAt_iff hj).mp hdj with hsj | hpj
  · -- a spelling shared by two items
    cases r with
    | int n =>
      have e1 : n = (item d k).eid := by
        rcases mem_spellings.mp hr with h | h | h | ⟨_, h⟩
        · cases h
        · simpa using h
        · cases h
        · cases h
      have e2 : n = (item d j).eid := by
        rcases mem_spellings.mp hsj with h | h | h | ⟨_, h⟩
        · cases h
        · simpa using h
        · cases h
        · cases h
      exact hpair.2 (e1.symm.trans e2)
    | str s => exact hpair.1 s (strs_of_spelling hr) (strs_of_spelling hsj)
    | null => rcases mem_spellings.mp hr with h | h | h | ⟨_, h⟩ <;> cases h
  · -- a spelling of item k read as the position of item j
    rcases mem_spellings.mp hr with rfl | rfl | rfl | ⟨hns, rfl⟩
    · rcases hposk (item d k).alias (by simp) with hp | hp <;> rw [hp] at hpj <;> simp at hpj
      exact hne hpj.symm
    · obtain ⟨n, hc, hnot, _⟩ := positionOf_some hpj
      simp only [canonNumber, Option.some.injEq] at hc
      exact hnot (hc ▸ eid_mem hk)
    · obtain ⟨n, hc, hnot, _⟩ := positionOf_some hpj
      rw [canon_decStr] at hc
      simp only [Option.some.injEq] at hc
      exact hnot (hc ▸ eid_mem hk)
    · rcases hposk (item d k).subvarId (by simp [svStr, hns]) with hp | hp <;> rw [hp] at hpj <;> simp at hpj
      exact hne hpj.symm

/-- C19, first clause: alias, int element id and string element id of an item -- and its
    sub-variable id, on a dimension whose elements all carry one -- all resolve to that item (its
    alias), provided no spelling is shared (`NoCollision`). -/
theorem spellings_agree {d : Dim} (h : NoCollision d) {k : Nat} (hk : k < d.size) :
    translate d (.str (item d k).alias) = some (item d k).alias ∧
    (d.noSubvarIds = false → translate d (.str (item d k).subvarId) = some (item d k).alias) ∧
    translate d (.int (item d k).eid) = some (item d k).alias ∧
    translate d (.str (decStr (item d k).eid)) = some (item d k).alias := by
  have key : ∀ r ∈ spellings d (item d k), translate d r = some (item d k).alias := by
    intro r hr
    apply translate_eq_resolve
    simp [resolve, noCollision_denotes h hk hr]
  exact ⟨key _ (mem_spellings.mpr (Or.inl rfl)),
         fun hns => key _ (mem_spellings.mpr (Or.inr (Or.inr (Or.inr ⟨hns, rfl⟩)))),
         key _ (mem_spellings.mpr (Or.inr (Or.inl rfl))),
         key _ (mem_spellings.mpr (Or.inr (Or.inr (Or.inl rfl))))⟩

/-- "a number that is no element id is taken as a zero-based position" — int spelling
    (unconditional: no other rule can capture an int). -/
theorem position_rule_int {d : Dim} {n : Int} (hne : n ∉ d.eids) (h0 : 0 ≤ n) (hlt : n < (d.size : Int)) :
    translate d (.int n) = some (item d n.toNat).alias := by
  have hk : n.toNat < d.size := by omega
  rw [translate_unfold]
  simp [rule1, rule2, rule3, rule4, rule5, rule6, asInt, byEid_none_of_not_mem hne, h0, hlt,
        aliasAt_lt hk]

/-- the same for a string that Python's `int()` reads as `n`, provided the string is not itself
    an alias or a sub-variable id (rules 1 and 4 come first) -/
theorem position_rule_str {d : Dim} {s : String} {n : Int} (hs : pyInt s = some n)
    (ha : s ∉ d.aliases) (hv : s ∉ d.subvarIds) (hne : n ∉ d.eids) (h0 : 0 ≤ n)
    (hlt : n < (d.size : Int)) : translate d (.str s) = some (item d n.toNat).alias := by
  have hk : n.toNat < d.size := by omega
  have h3 : rule3 d (.str s) = none := by
    cases h3 : rule3 d (.str s) with
    | none => rfl
    | some a =>
      exfalso
      simp only [rule3] at h3
      by_cases hm : d.mrIns = true
      · simp only [hm, if_true] at h3
        cases hf : (d.items.filter (fun it => !it.anchor)).find? (fun it => decStr it.eid == s) with
        | none => simp [hf] at h3
        | some it =>
          have hp : decStr it.eid = s := by
            have := List.find?_some hf
            simpa using this
          have hmem : it ∈ d.items := (List.mem_filter.mp (List.mem_of_find?_eq_some hf)).1
          have : pyInt s = some it.eid := by rw [← hp]; exact CrCube.Shim.pyInt_decStr _
          rw [hs] at this
          simp only [Option.some.injEq] at this
          exact hne (this ▸ List.mem_map_of_mem hmem)
      · simp [hm] at h3
  rw [translate_unfold, h3]
  simp [rule1, ha, rule2, rule4, idxOf_none_of_not_mem hv, rule5, rule6, asInt, hs,
        byEid_none_of_not_mem hne, h0, hlt, aliasAt_lt hk]

/-- The hypothesis of `spellings_agree` is inherent: if `NoCollision` fails, some reference
    denotes two different items, so NO resolver can honour both. -/
theorem collision_inherent {d : Dim} (h : ¬ NoCollision d) :
    ∃ r i j, i ≠ j ∧ Den d r i ∧ Den d r j := by
  unfold NoCollision at h
  rw [Classical.not_and_iff_not_or_not] at h
  rcases h with h | h
  · -- two items share a string or an element id
    simp only [Classical.not_forall] at h
    obtain ⟨i, hi, j, hj, hp⟩ := h
    unfold PairOK at hp
    simp only [Classical.not_imp, Classical.not_and_iff_not_or_not, Classical.not_forall,
      Classical.not_not] at hp
    obtain ⟨hne, hp⟩ := hp
    rcases hp with ⟨s, hsi, hsj⟩ | heq
    · refine ⟨.str s, i, j, hne, ⟨hi, (denotesAt_iff hi).mpr (Or.inl ?_)⟩,
               ⟨hj, (denotesAt_iff hj).mpr (Or.inl ?_)⟩⟩
      · rcases mem_strs.mp hsi with rfl | rfl | ⟨hns, rfl⟩
        · exact mem_spellings.mpr (Or.inl rfl)
        · exact mem_spellings.mpr (Or.inr (Or.inr (Or.inl rfl)))
        · exact mem_spellings.mpr (Or.inr (Or.inr (Or.inr ⟨hns, rfl⟩)))
      · rcases mem_strs.mp hsj with rfl | rfl | ⟨hns, rfl⟩
        · exact mem_spellings.mpr (Or.inl rfl)
        · exact mem_spellings.mpr (Or.inr (Or.inr (Or.inl rfl)))
        · exact mem_spellings.mpr (Or.inr (Or.inr (Or.inr ⟨hns, rfl⟩)))
    · refine ⟨.int (item d i).eid, i, j, hne, ⟨hi, (denotesAt_iff hi).mpr (Or.inl (mem_spellings.mpr (Or.inr (Or.inl rfl))))⟩,
               ⟨hj, (denotesAt_iff hj).mpr (Or.inl (mem_spellings.mpr (Or.inr (Or.inl (by rw [heq])))))⟩⟩
  · -- an alias / sub-variable id reads as the position of another item
    simp only [Classical.not_forall] at h
    obtain ⟨i, hi, hp⟩ := h
    unfold PosOK at hp
    simp only [Classical.not_forall, not_or] at hp
    obtain ⟨s, hs, hnone, hnot⟩ := hp
    cases hpos : positionOf d (.str s) with
    | none => exact absurd hpos hnone
    | some p =>
      obtain ⟨n, _, _, h0, hlt, hnp⟩ := positionOf_some hpos
      have hp : p < d.size := by omega
      refine ⟨.str s, i, p, fun e => hnot (by rw [hpos, e]), ⟨hi, (denotesAt_iff hi).mpr (Or.inl ?_)⟩,
               ⟨hp, (denotesAt_iff hp).mpr (Or.inr hpos)⟩⟩
      simp only [List.mem_append, List.mem_cons, List.not_mem_nil, or_false] at hs
      rcases hs with rfl | hs
      · exact mem_spellings.mpr (Or.inl rfl)
      · cases hns : d.noSubvarIds with
        | true => simp [svStr, hns] at hs
        | false =>
          simp only [svStr, hns, Bool.false_eq_true, if_false, List.mem_cons, List.not_mem_nil, or_false] at hs
          exact mem_spellings.mpr (Or.inr (Or.inr (Or.inr ⟨hns, by rw [hs]⟩)))

/-! ### every slot resolves through `translate` -/

/-- after the dimension shim every element id IS the item's alias (`_build_element_id`) -/
theorem element_ids_after_shim (d : Dim) : elementIds (shimDim d) = d.aliases.map Ref.str := by
  simp [elementIds, shimDim, buildElementId, Dim.aliases, List.map_map, Function.comp_def]

/-- `slots_factor`: hide / rename keys, explicit ids, fixed lists and the opposing-element id
    reach the analysis ONLY through `translate` (resp. the `"key": "subvar_id"` lookup): two
    transforms whose references translate alike give the same view of the dimension. -/
theorem slots_factor (d : Dim) (x x' : DimXf)
    (he : x.elements.map (shimElems d) = x'.elements.map (shimElems d))
    (ho : x.orderIds.map (shimIds d) = x'.orderIds.map (shimIds d))
    (ht : x.fixedTop.map (shimIds d) = x'.fixedTop.map (shimIds d))
    (hb : x.fixedBottom.map (shimIds d) = x'.fixedBottom.map (shimIds d))
    (hopp : x.opposing.map (translate d) = x'.opposing.map (translate d)) :
    view d x = view d x' := by
  have hO : ∀ y : DimXf, y.opposing.map (opposingIdx (shimDim d)) =
      (y.opposing.map (translate d)).map (fun t => idxOf (back t) (elementIds (shimDim d))) := by
    intro y; cases y.opposing <;> simp [opposingIdx, translate_shimDim]
  simp only [view, viewRaw, shimXf, itemXforms, hiddenIdxs, explicitOrder, he, ho, ht, hb, hO, hopp]

theorem sameItem_translate {d : Dim} {r r' : Ref} (h : SameItem d r r') :
    translate d r = translate d r' := by
  rcases h with ⟨k, h1, h2⟩ | ⟨h1, h2⟩
  · rw [translate_eq_resolve h1, translate_eq_resolve h2]
  · rw [unmatched_none h1, unmatched_none h2]

/-- under `NoCollision`, any two spellings of the same item mean the same -/
theorem sameItem_of_spellings {d : Dim} (h : NoCollision d) {k : Nat} (hk : k < d.size) {r r' : Ref}
    (hr : r ∈ spellings d (item d k)) (hr' : r' ∈ spellings d (item d k)) : SameItem d r r' :=
  Or.inl ⟨k, by simp [resolve, noCollision_denotes h hk hr], by simp [resolve, noCollision_denotes h hk hr']⟩

theorem shimIds_sameItem {d : Dim} {l l' : List Ref} (h : ListRel (SameItem d) l l') :
    shimIds d l = shimIds d l' := by
  induction h with
  | nil => rfl
  | cons hr _ ih =>
    simp only [shimIds, List.map_cons] at ih ⊢
    rw [sameItem_translate hr, ih]

theorem rebuild_sameItem {d : Dim} {es es' : List (Ref × ElXf)}
    (h : ListRel (fun p p' => SameItem d p.1 p'.1 ∧ p.2 = p'.2) es es') :
    rebuild d .absent es = rebuild d .absent es' := by
  unfold rebuild
  generalize ([] : List (Ref × ElXf)) = acc
  induction h generalizing acc with
  | nil => rfl
  | cons hp _ ih =>
    simp only [List.foldl_cons, keyTranslate, sameItem_translate hp.1, hp.2]
    exact ih _

theorem optRel_map {α β : Type} {R : α → α → Prop} {f : α → β} (hf : ∀ a b, R a b → f a = f b) :
    ∀ {o o' : Option α}, optRel R o o' → o.map f = o'.map f
  | none, none, _ => rfl
  | some a, some b, h => by simp [hf a b h]
  | none, some _, h => by cases h
  | some _, none, h => by cases h

/-- C19: in hide / rename, explicit-order, fixed-list and sort-by-opposing-element transforms all
    spellings of the same items give identical output (the whole `view` the analysis works from). -/
theorem slots_agree {d : Dim} {x x' : DimXf} (h : SameRefs d x x') : view d x = view d x' := by
  apply slots_factor
  · apply optRel_map _ h.elements
    intro e e' ⟨hm, hm', hes⟩
    cases e with
    | mk m es =>
      cases e' with
      | mk m' es' =>
        simp only at hm hm' hes
        subst hm hm'
        simp [shimElems, rebuild_sameItem hes]
  · exact optRel_map (R := ListRel (SameItem d)) (f := shimIds d) (fun _ _ hh => shimIds_sameItem hh) h.orderIds
  · exact optRel_map (R := ListRel (SameItem d)) (f := shimIds d) (fun _ _ hh => shimIds_sameItem hh) h.fixedTop
  · exact optRel_map (R := ListRel (SameItem d)) (f := shimIds d) (fun _ _ hh => shimIds_sameItem hh) h.fixedBottom
  · exact optRel_map (R := SameItem d) (f := translate d) (fun _ _ hh => sameItem_translate hh) h.opposing

theorem idxOf_of_nodup {α : Type} [DecidableEq α] {l : List α} {a : α} {k : Nat} (hn : l.Nodup)
    (hk : l[k]? = some a) : idxOf a l = some k := by
  obtain ⟨i, hi⟩ := idxOf_isSome_of_mem (List.mem_of_getElem? hk)
  have hg := idxOf_some_get hi
  have hlt := idxOf_lt hi
  have : i = k := (List.getElem?_inj hlt hn).mp (hg.trans hk.symm)
  rw [hi, this]

theorem idxOf_map_str (a : String) : ∀ l : List String, idxOf (Ref.str a) (l.map Ref.str) = idxOf a l
  | [] => rfl
  | b :: l => by
    simp only [List.map_cons, idxOf, Ref.str.injEq, idxOf_map_str a l]

/-- the LATE translation of an opposing-element id (`_SortRowsByBaseColumnHelper._column_idx`,
    `_SortColumnsByBaseRowHelper._row_idx`, `_SortRowsByDerivedColumnHelper._column_idx`) finds the
    position of the denoted item among the (alias) element ids; an unmatched id gives `none`
    (`ValueError`, turned into payload order by the caller). -/
theorem opposing_agree {d : Dim} (hn : d.aliases.Nodup) {r : Ref} :
    (∀ k, resolve d r = .item k → opposingIdx (shimDim d) r = some k) ∧
    (resolve d r = .nothing → opposingIdx (shimDim d) r = none) := by
  constructor
  · intro k hk
    have hden : denotes d r = [k] := by
      unfold resolve at hk
      split at hk
      · next k' hk' => cases hk; exact hk'
      · split at hk <;> cases hk
      · cases hk
    have hlt : k < d.size := (denotes_single hden).1.1
    simp only [opposingIdx, translate_shimDim, translate_eq_resolve hk, back, element_ids_after_shim]
    rw [idxOf_map_str]
    exact idxOf_of_nodup hn (aliases_get hlt)
  · intro hnone
    simp only [opposingIdx, translate_shimDim, unmatched_none hnone, back, element_ids_after_shim]
    apply idxOf_none_of_not_mem
    simp

/-! ### datetime: position id or value -/

theorem dtLookup_of_all {k : Int} {v : String} :
    ∀ {l : List DtItem}, (∃ it ∈ l, it.id = k) → (∀ it ∈ l, it.id = k → it.value = some v) →
      dtLookup k l = some v
  | [], h, _ => by simp at h
  | it :: l, h, hall => by
    simp only [dtLookup]
    by_cases hex : ∃ it' ∈ l, it'.id = k
    · rw [dtLookup_of_all hex (fun x hx => hall x (by simp [hx]))]
    · have hit : it.id = k := by
        obtain ⟨it', hmem, hid⟩ := h
        simp only [List.mem_cons] at hmem
        rcases hmem with rfl | hmem
        · exact hid
        · exact absurd ⟨it', hmem, hid⟩ hex
      cases hl : dtLookup k l with
      | some w => simp
                  -- the tail already answers: it must be `v` too
                  exact (by
                    have : ∀ {l : List DtItem} {w}, dtLookup k l = some w → ∃ it ∈ l, it.id = k := by
                      intro l
                      induction l with
                      | nil => intro w h; simp [dtLookup] at h
                      | cons a t ih =>
                        intro w h
                        simp only [dtLookup] at h
                        cases ht : dtLookup k t with
                        | some u => obtain ⟨x, hx, hxk⟩ := ih ht; exact ⟨x, by simp [hx], hxk⟩
                        | none =>
                          simp only [ht] at h
                          by_cases ha : a.id = k
                          · exact ⟨a, by simp, ha⟩
                          · simp [ha] at h
                    exact absurd (this hl) hex)
      | none => simp [hit, hall it (by simp) hit]

theorem isNumeric_decStr_ofNat (m : Nat) :
    isNumeric (decStr (Int.ofNat m)) = true ∧ Nat.ofDigitChars 10 (decStr (Int.ofNat m)).toList 0 = m := by
  simp only [decStr, decL, isNumeric, isNumericL, String.toList_ofList]
  refine ⟨?_, Nat.ofDigitChars_ten_toDigits⟩
  simp only [Bool.and_eq_true, Bool.not_eq_true', List.isEmpty_eq_false_iff, List.all_eq_true]
  exact ⟨Nat.toDigits_ne_nil, fun c hc => toDigits_digit m c hc⟩

/-- "datetime elements may equally be referenced by position id or by value": for an element
    with a string value `v` and position id `i` (all elements with that id agree on the value),
    the int `i`, the decimal string of a non-negative `i`, and the value itself all translate to
    `v`; the value needs `DtNoCollision` (it must not itself read as a position id). -/
theorem datetime_by_position_or_value {d : DtDim} {it : DtItem} {v : String} (hit : it ∈ d.items)
    (hv : it.value = some v) (huniq : ∀ it' ∈ d.items, it'.id = it.id → it'.value = some v)
    (hnc : DtNoCollision d) :
    translateDt d (.int it.id) = .str v ∧
    (0 ≤ it.id → translateDt d (.str (decStr it.id)) = .str v) ∧
    translateDt d (.str v) = .str v := by
  have hl : dtLookup it.id d.items = some v := dtLookup_of_all ⟨it, hit, rfl⟩ huniq
  refine ⟨by simp [translateDt, dtKey, hl], ?_, ?_⟩
  · intro h0
    obtain ⟨m, hm⟩ := Int.eq_ofNat_of_zero_le h0
    have hnum := isNumeric_decStr_ofNat m
    have hm' : it.id = Int.ofNat m := hm
    rw [hm'] at hl ⊢
    simp only [translateDt, dtKey, hnum.1, if_true, hnum.2]
    have hl' : dtLookup ((m : Nat) : Int) d.items = some v := hl
    simp [hl']
  · simp only [translateDt, dtKey]
    by_cases hn : isNumeric v = true
    · simp [hn, hnc it hit v hv hn]
    · simp [hn]

/-! ### the code before fix F7 -/

/-- before the fix a `None` reference raised `TypeError` (only `ValueError` was caught) -/
theorem unfixed_null_raises (d : Dim) : Unfixed.translate d .null = .raises "TypeError" := rfl

/-- … and that is the ONLY difference: off `None` the unfixed cascade is the modelled one -/
theorem unfixed_agrees_off_null (d : Dim) {r : Ref} (h : r ≠ .null) :
    Unfixed.translate d r = .ok (translate d r) := by
  cases r with
  | null => exact absurd rfl h
  | int n => rfl
  | str s => rfl


end CrCube.C19L
