/-
  The merged table (`SubSpec.mergeAxis`) of a 2-D cube: entries, extents, and the sums of the
  CAT × CAT count extractor over it.
-/
import CrCube.Lemmas.SubtotalFacts
import CrCube.Model.CubeCounts

namespace CrCube
open SubSpec

variable (c : FT) (nr nc : Nat) (A : List Nat)

theorem dim0_of_shape (hc : c.shape = [nr, nc]) : c.dim 0 = nr := by simp [FT.dim, hc]
theorem dim1_of_shape (hc : c.shape = [nr, nc]) : c.dim 1 = nc := by simp [FT.dim, hc]

theorem mergeAxis0_shape (hc : c.shape = [nr, nc]) :
    (mergeAxis c 0 A).shape = [(keepIdxs nr A).length + 1, nc] := by
  simp [mergeAxis, hc, FT.dim]

theorem mergeAxis1_shape (hc : c.shape = [nr, nc]) :
    (mergeAxis c 1 A).shape = [nr, (keepIdxs nc A).length + 1] := by
  simp [mergeAxis, hc, FT.dim]

theorem mergeAxis0_get (hc : c.shape = [nr, nc]) (i j : Nat) :
    (mergeAxis c 0 A).get [i, j]
      = if i < (keepIdxs nr A).length then c.get [(keepIdxs nr A).getD i 0, j]
        else sumAt A (fun a => c.get [a, j]) := by
  simp [mergeAxis, hc, FT.dim]

theorem mergeAxis1_get (hc : c.shape = [nr, nc]) (i j : Nat) :
    (mergeAxis c 1 A).get [i, j]
      = if j < (keepIdxs nc A).length then c.get [i, (keepIdxs nc A).getD j 0]
        else sumAt A (fun a => c.get [i, a]) := by
  simp [mergeAxis, hc, FT.dim]

/-- value at the merged row -/
theorem mergeAxis0_get_merged (hc : c.shape = [nr, nc]) (j : Nat) :
    (mergeAxis c 0 A).get [mergedPos nr A, j] = sumAt A (fun a => c.get [a, j]) := by
  rw [mergeAxis0_get c nr nc A hc]; simp [mergedPos]

theorem mergeAxis1_get_merged (hc : c.shape = [nr, nc]) (i : Nat) :
    (mergeAxis c 1 A).get [i, mergedPos nc A] = sumAt A (fun a => c.get [i, a]) := by
  rw [mergeAxis1_get c nr nc A hc]; simp [mergedPos]

/-- column sums are unchanged by merging rows -/
theorem colsum_mergeAxis0 (hc : c.shape = [nr, nc]) (hn : A.Nodup) (hlt : ∀ a ∈ A, a < nr) (j : Nat) :
    vsum ((keepIdxs nr A).length + 1) (fun i => (mergeAxis c 0 A).get [i, j])
      = vsum nr (fun i => c.get [i, j]) := by
  rw [← vsum_merged nr A hn hlt (fun i => c.get [i, j])]
  congr 1
  funext i
  rw [mergeAxis0_get c nr nc A hc]

theorem rowsum_mergeAxis1 (hc : c.shape = [nr, nc]) (hn : A.Nodup) (hlt : ∀ a ∈ A, a < nc) (i : Nat) :
    vsum ((keepIdxs nc A).length + 1) (fun j => (mergeAxis c 1 A).get [i, j])
      = vsum nc (fun j => c.get [i, j]) := by
  rw [← vsum_merged nc A hn hlt (fun j => c.get [i, j])]
  congr 1
  funext j
  rw [mergeAxis1_get c nr nc A hc]

/-- the row sum of the merged row is the sum of the addends' row sums -/
theorem rowsum_merged_row (hc : c.shape = [nr, nc]) :
    vsum nc (fun j => (mergeAxis c 0 A).get [mergedPos nr A, j])
      = sumAt A (fun a => vsum nc (fun j => c.get [a, j])) := by
  simp only [mergeAxis0_get_merged c nr nc A hc, vsum_eq_sumAt]
  exact sumAt_comm _ _ _

theorem colsum_merged_col (hc : c.shape = [nr, nc]) :
    vsum nr (fun i => (mergeAxis c 1 A).get [i, mergedPos nc A])
      = sumAt A (fun a => vsum nr (fun i => c.get [i, a])) := by
  simp only [mergeAxis1_get_merged c nr nc A hc, vsum_eq_sumAt]
  exact sumAt_comm _ _ _

/-- the table total is unchanged by merging rows -/
theorem total_mergeAxis0 (hc : c.shape = [nr, nc]) (hn : A.Nodup) (hlt : ∀ a ∈ A, a < nr) :
    vsum ((keepIdxs nr A).length + 1) (fun i => vsum nc (fun j => (mergeAxis c 0 A).get [i, j]))
      = vsum nr (fun i => vsum nc (fun j => c.get [i, j])) := by
  rw [← vsum_merged nr A hn hlt (fun i => vsum nc (fun j => c.get [i, j]))]
  congr 1
  funext i
  by_cases hi : i < (keepIdxs nr A).length
  · simp only [hi, if_true]
    congr 1; funext j
    rw [mergeAxis0_get c nr nc A hc]; simp [hi]
  · simp only [hi, if_false]
    have : (fun j => (mergeAxis c 0 A).get [i, j]) = fun j => sumAt A (fun a => c.get [a, j]) := by
      funext j; rw [mergeAxis0_get c nr nc A hc]; simp [hi]
    rw [this]
    simp only [vsum_eq_sumAt]
    exact sumAt_comm _ _ _

theorem total_mergeAxis1 (hc : c.shape = [nr, nc]) (hn : A.Nodup) (hlt : ∀ a ∈ A, a < nc) :
    vsum nr (fun i => vsum ((keepIdxs nc A).length + 1) (fun j => (mergeAxis c 1 A).get [i, j]))
      = vsum nr (fun i => vsum nc (fun j => c.get [i, j])) := by
  congr 1
  funext i
  exact rowsum_mergeAxis1 c nr nc A hc hn hlt i

end CrCube
