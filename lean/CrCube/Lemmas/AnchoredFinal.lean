/-
  Final assembly for C07: model = spec for both anchored collators, no repeats, visibility,
  the 'ins_N' rendering.
-/
import CrCube.Lemmas.Explicit

namespace CrCube.Lemmas.AnchoredFinal
open CrCube.Collator CrCube.OrderSpec CrCube.Lemmas.SortKeys CrCube.Lemmas.Layout CrCube.Lemmas.Bridge
open CrCube.Lemmas.AnchoredSpec CrCube.Lemmas.Explicit

/-! ### model = spec -/

theorem ids_length (d : Dim) : d.ids.length = d.elems.length := by simp [Dim.ids]

theorem payload_eq_spec (d : Dim) (empties : List Nat)
    (hids : d.ids.Nodup) (hlen : (d.elems.length : Int) ≤ maxsize) :
    payloadOrderSigned d empties = specSigned d none empties := by
  unfold payloadOrderSigned specSigned
  rw [payloadDescr_eq]
  have hord : specElemOrder d.elems none = List.range d.ids.length := by
    simp [specElemOrder, baseIdxs, ids_length]
  simp only [hord, derivedPlaces]
  exact anchoredOrder_eq_spec d.ids (List.range d.ids.length) d.subs [] [] (d.hid empties) hids
    List.nodup_range (by simp) (by simpa [ids_length] using hlen) (by simp [derItems])
    List.Pairwise.nil (by simp) (by simp)

theorem order_length_le (elems : List Elem) (ex : List Eid) :
    (specElemOrder elems (some ex)).length ≤ elems.length := by
  have hsub : specElemOrder elems (some ex) ⊆ List.range elems.length := by
    intro e he
    have := mem_baseIdxs.1 (mem_specElemOrder.1 he)
    simpa using this.1
  have := (List.subperm_of_subset (specElemOrder_nodup elems ex) hsub).length_le
  simpa using this

theorem explicit_eq_spec (d : Dim) (ex : List Eid) (empties : List Nat)
    (hids : d.ids.Nodup) (hlen : (d.elems.length : Int) ≤ maxsize) :
    explicitOrderSigned d ex empties = specSigned d (some ex) empties := by
  have hids' : (d.elems.map (·.id)).Nodup := hids
  have hnd := specElemOrder_nodup d.elems ex
  have hrange : ∀ e ∈ specElemOrder d.elems (some ex), e < (d.elems.map (·.id)).length := by
    intro e he
    have := mem_baseIdxs.1 (mem_specElemOrder.1 he)
    simpa using this.1
  have hle := order_length_le d.elems ex
  have hlen' : ((specElemOrder d.elems (some ex)).length : Int) ≤ maxsize := by omega
  have hdd : ∀ q ∈ derivedPlaces d.elems (some ex) (specElemOrder d.elems (some ex)),
      q.1 ∉ specElemOrder d.elems (some ex) := by
    intro q hq hmem
    have h1 := derivedPlaces_derived hq
    have h2 := mem_baseIdxs.1 (mem_specElemOrder.1 hmem)
    rw [h2.2] at h1
    exact absurd h1.2 (by simp)
  have key := anchoredOrder_eq_spec (d.elems.map (·.id)) (specElemOrder d.elems (some ex)) d.subs
    (derivedPlaces d.elems (some ex) (specElemOrder d.elems (some ex)))
    ((derItems (derivedPlaces d.elems (some ex) (specElemOrder d.elems (some ex)))).map
      (itemKey (specElemOrder d.elems (some ex))))
    (d.hid empties) hids' hnd hrange hlen' rfl (derivedPlaces_inc d.elems ex _) hdd
    (fun q hq e hp => derivedPlaces_ref hq e hp)
  have h1 : explicitOrderSigned d ex empties =
      anchoredOrder (descrOf (d.elems.map (·.id)) (specElemOrder d.elems (some ex)))
        (derivedOrderings d.elems (descrOf (d.elems.map (·.id)) (specElemOrder d.elems (some ex))))
        d.subs (d.hid empties) := by
    unfold explicitOrderSigned
    simp only
    rw [explicitDescr_eq d.elems ex hids']
  rw [h1, derivedOrderings_eq d.elems ex (specElemOrder d.elems (some ex)) hids' hnd hrange, key]
  rfl

theorem explicitDescr_idxs (elems : List Elem) (ex : List Eid) (hids : (elems.map (·.id)).Nodup) :
    (explicitDescr elems ex).map (fun x => x.2.1) = specElemOrder elems (some ex) := by
  rw [explicitDescr_eq elems ex hids, descrOf, zipIdx_eq_map_idxOf _ (specElemOrder_nodup elems ex)]
  simp [List.map_map, Function.comp_def]

theorem explicitDescr_positions (elems : List Elem) (ex : List Eid) (hids : (elems.map (·.id)).Nodup) :
    (explicitDescr elems ex).map (fun x => x.1) = List.range (specElemOrder elems (some ex)).length := by
  rw [explicitDescr_eq elems ex hids, descrOf, List.map_map]
  apply List.ext_getElem
  · simp
  · intro i h1 h2
    simp

/-! ### the idx column -/

theorem insertionOrderings_thirds (descr : List Descr) (subs : List Sub) :
    (insertionOrderings descr subs).map (·.2.2) = negIdxs subs.length := by
  unfold insertionOrderings
  rw [List.map_map]
  have : ((fun (x : Key) => x.2.2) ∘ fun (x : Sub × Int) =>
      ((insertionPosition descr x.1).1, (insertionPosition descr x.1).2, x.2)) = Prod.snd := rfl
  have h2 : (fun (x : Sub × Int) => match x with
      | (s, neg) => ((insertionPosition descr s).1, (insertionPosition descr s).2, neg)) =
      fun (x : Sub × Int) => ((insertionPosition descr x.1).1, (insertionPosition descr x.1).2, x.2) := by
    funext x; rfl
  rw [h2, this, List.map_snd_zip]
  simp [length_negIdxs]

theorem baseOrderings_thirds (ids : List Eid) (order : List Nat) :
    (baseOrderings (descrOf ids order)).map (·.2.2) = order.map (fun (e : Nat) => (e : Int)) := by
  unfold baseOrderings descrOf
  apply List.ext_getElem
  · simp
  · intro i h1 h2
    simp

theorem negIdxs_nodup (n : Nat) : (negIdxs n).Nodup :=
  (negIdxs_pairwise n).imp (fun h => by omega)

theorem thirds_nodup (ids : List Eid) (order : List Nat) (subs : List Sub) (derived : List Key)
    (hnd : order.Nodup) (hder : (derived.map (·.2.2)).Nodup)
    (hnn : ∀ k ∈ derived, 0 ≤ k.2.2) (hdisj : ∀ k ∈ derived, ∀ e ∈ order, k.2.2 ≠ (e : Int)) :
    ((baseOrderings (descrOf ids order) ++ insertionOrderings (descrOf ids order) subs ++ derived).map
      (·.2.2)).Nodup := by
  rw [List.map_append, List.map_append, baseOrderings_thirds, insertionOrderings_thirds]
  rw [List.nodup_append, List.nodup_append]
  refine ⟨⟨?_, negIdxs_nodup _, ?_⟩, hder, ?_⟩
  · exact (List.nodup_map_iff (fun a b h => Int.ofNat_inj.mp h)).2 hnd
  · intro a ha b hb
    simp only [List.mem_map] at ha
    obtain ⟨e, _, rfl⟩ := ha
    have := (mem_negIdxs.1 hb).2
    omega
  · intro a ha b hb
    simp only [List.mem_map] at hb
    obtain ⟨k, hk, rfl⟩ := hb
    rcases List.mem_append.1 ha with h | h
    · simp only [List.mem_map] at h
      obtain ⟨e, he, rfl⟩ := h
      exact fun heq => hdisj k hk e he heq.symm
    · have h1 := (mem_negIdxs.1 h).2
      have h2 := hnn k hk
      omega

theorem payload_nodup (d : Dim) (empties : List Nat) : (payloadOrderSigned d empties).Nodup := by
  unfold payloadOrderSigned
  apply anchoredOrder_nodup
  rw [payloadDescr_eq]
  exact thirds_nodup d.ids _ d.subs [] List.nodup_range (by simp) (by simp) (by simp)

/-- idx column of the derived orderings -/
theorem derivedOrderings_thirds (elems : List Elem) (descr : List Descr) :
    (derivedOrderings elems descr).map (·.2.2) =
      ((List.range elems.length).filter (fun i => !isBase elems i)).map (fun (i : Nat) => (i : Int)) := by
  unfold derivedOrderings
  rw [zipIdx_eq_range_map, List.filterMap_map, List.map_filterMap]
  rw [← List.filterMap_eq_map, List.filterMap_filter]
  apply List.filterMap_congr
  intro i hi
  simp only [List.mem_range] at hi
  have hget : elems.getD i default = elems[i] := by simp [List.getD_eq_getElem?_getD, hi]
  by_cases hd : elems[i].derived = true
  · have hb : isBase elems i = false := by simp [isBase, hi, hd]
    simp [List.getElem?_eq_getElem hi, hd, hb]
  · have hb : isBase elems i = true := by simp [isBase, hi, hd]
    simp [List.getElem?_eq_getElem hi, hd, hb]

theorem explicit_thirds_nodup (d : Dim) (ex : List Eid) (hids : d.ids.Nodup) :
    ((baseOrderings (explicitDescr d.elems ex) ++ insertionOrderings (explicitDescr d.elems ex) d.subs ++
      derivedOrderings d.elems (explicitDescr d.elems ex)).map (·.2.2)).Nodup := by
  have hids' : (d.elems.map (·.id)).Nodup := hids
  rw [explicitDescr_eq d.elems ex hids']
  apply thirds_nodup _ _ _ _ (specElemOrder_nodup d.elems ex)
  · rw [derivedOrderings_thirds]
    exact (List.nodup_map_iff (fun a b h => Int.ofNat_inj.mp h)).2 (List.nodup_range.filter _)
  · intro k hk
    have : k.2.2 ∈ (derivedOrderings d.elems (descrOf (d.elems.map (·.id)) (specElemOrder d.elems (some ex)))).map (·.2.2) :=
      List.mem_map_of_mem hk
    rw [derivedOrderings_thirds] at this
    simp only [List.mem_map] at this
    obtain ⟨i, _, hi⟩ := this
    omega
  · intro k hk e he
    have : k.2.2 ∈ (derivedOrderings d.elems (descrOf (d.elems.map (·.id)) (specElemOrder d.elems (some ex)))).map (·.2.2) :=
      List.mem_map_of_mem hk
    rw [derivedOrderings_thirds] at this
    simp only [List.mem_map, List.mem_filter] at this
    obtain ⟨i, hi, hik⟩ := this
    have h2 := mem_baseIdxs.1 (mem_specElemOrder.1 he)
    intro heq
    have : i = e := by omega
    subst this
    simp [h2.2] at hi

theorem explicit_nodup (d : Dim) (ex : List Eid) (empties : List Nat) (hids : d.ids.Nodup) :
    (explicitOrderSigned d ex empties).Nodup := by
  unfold explicitOrderSigned
  exact anchoredOrder_nodup _ _ _ _ (explicit_thirds_nodup d ex hids)

/-! ### visibility -/

theorem isHidden_nat (hid : List Nat) (i : Nat) : isHidden hid (i : Int) = hid.contains i := by
  simp [isHidden]

theorem isHidden_neg (hid : List Nat) (j : Int) (h : j < 0) : isHidden hid j = false := by
  simp only [isHidden, Bool.and_eq_false_imp, decide_eq_true_eq]
  intro h2; omega

theorem payload_thirds (d : Dim) :
    (baseOrderings (payloadDescr d.ids) ++ insertionOrderings (payloadDescr d.ids) d.subs ++ []).map
        (fun (x : Key) => x.2.2) =
      (List.range d.elems.length).map (fun (e : Nat) => (e : Int)) ++ negIdxs d.subs.length := by
  rw [payloadDescr_eq, List.append_nil, List.map_append, baseOrderings_thirds, insertionOrderings_thirds,
    ids_length]

theorem payload_visible_iff (d : Dim) (empties : List Nat) (i : Nat) :
    (i : Int) ∈ payloadOrderSigned d empties ↔ i < d.elems.length ∧ i ∉ d.hid empties := by
  unfold payloadOrderSigned
  rw [mem_anchoredOrder, payload_thirds, isHidden_nat]
  simp only [List.mem_append, List.mem_map, List.mem_range, List.contains_eq_mem, decide_eq_false_iff_not]
  constructor
  · rintro ⟨(⟨e, he, heq⟩ | h), h2⟩
    · have : e = i := by omega
      subst this
      exact ⟨he, h2⟩
    · have := (mem_negIdxs.1 h).2
      omega
  · rintro ⟨h1, h2⟩
    exact ⟨Or.inl ⟨i, h1, rfl⟩, h2⟩

theorem payload_subs_iff (d : Dim) (empties : List Nat) (j : Int) :
    (j < 0 ∧ j ∈ payloadOrderSigned d empties) ↔ j ∈ negIdxs d.subs.length := by
  unfold payloadOrderSigned
  rw [mem_anchoredOrder, payload_thirds]
  simp only [List.mem_append, List.mem_map, List.mem_range]
  constructor
  · rintro ⟨hneg, (⟨e, _, heq⟩ | h), _⟩
    · omega
    · exact h
  · intro h
    have hneg := (mem_negIdxs.1 h).2
    exact ⟨hneg, Or.inr h, isHidden_neg _ _ hneg⟩

theorem explicit_visible_iff (d : Dim) (ex : List Eid) (empties : List Nat) (hids : d.ids.Nodup) (i : Nat) :
    (i : Int) ∈ explicitOrderSigned d ex empties ↔ i < d.elems.length ∧ i ∉ d.hid empties := by
  unfold explicitOrderSigned
  have hids' : (d.elems.map (·.id)).Nodup := hids
  simp only
  rw [mem_anchoredOrder, isHidden_nat, explicitDescr_eq d.elems ex hids', List.map_append, List.map_append,
    baseOrderings_thirds, insertionOrderings_thirds, derivedOrderings_thirds]
  simp only [List.mem_append, List.mem_map, List.mem_filter, List.mem_range, List.contains_eq_mem,
    decide_eq_false_iff_not]
  constructor
  · rintro ⟨((⟨e, he, heq⟩ | h) | ⟨e, he, heq⟩), h2⟩
    · have : e = i := by omega
      subst this
      exact ⟨(mem_baseIdxs.1 (mem_specElemOrder.1 he)).1, h2⟩
    · have := (mem_negIdxs.1 h).2
      omega
    · have : e = i := by omega
      subst this
      exact ⟨he.1, h2⟩
  · rintro ⟨h1, h2⟩
    refine ⟨?_, h2⟩
    by_cases hb : isBase d.elems i = true
    · exact Or.inl (Or.inl ⟨i, mem_specElemOrder.2 (mem_baseIdxs.2 ⟨h1, hb⟩), rfl⟩)
    · exact Or.inr ⟨i, ⟨h1, by simpa using hb⟩, rfl⟩

theorem explicit_subs_iff (d : Dim) (ex : List Eid) (empties : List Nat) (hids : d.ids.Nodup) (j : Int) :
    (j < 0 ∧ j ∈ explicitOrderSigned d ex empties) ↔ j ∈ negIdxs d.subs.length := by
  unfold explicitOrderSigned
  have hids' : (d.elems.map (·.id)).Nodup := hids
  simp only
  rw [mem_anchoredOrder, explicitDescr_eq d.elems ex hids', List.map_append, List.map_append,
    baseOrderings_thirds, insertionOrderings_thirds, derivedOrderings_thirds]
  simp only [List.mem_append, List.mem_map]
  constructor
  · rintro ⟨hneg, ((⟨e, _, heq⟩ | h) | ⟨e, _, heq⟩), _⟩
    · omega
    · exact h
    · omega
  · intro h
    have hneg := (mem_negIdxs.1 h).2
    exact ⟨hneg, Or.inl (Or.inr h), isHidden_neg _ _ hneg⟩

/-! ### groups of the specification -/

theorem zip_negIdxs_pairwise {α : Type} (l : List α) :
    (l.zip (negIdxs l.length)).Pairwise (fun a b => a.2 < b.2) := by
  have h := negIdxs_pairwise l.length
  have : (l.zip (negIdxs l.length)).map (·.2) = negIdxs l.length := by
    rw [List.map_snd_zip]
    simp [length_negIdxs]
  rw [← this, List.pairwise_map] at h
  exact h

theorem subsAt_pairwise (places : List Place) (p : Place) : (subsAt places p).Pairwise (· < ·) := by
  unfold subsAt
  rw [List.pairwise_map]
  exact (zip_negIdxs_pairwise places).filter _

theorem getElem?_negIdxs (n k : Nat) (h : k < n) : (negIdxs n)[k]? = some ((k : Int) - n) := by
  simp [negIdxs, h]

theorem mem_subsAt_iff (places : List Place) (p : Place) (j : Int) :
    j ∈ subsAt places p ↔ ∃ k, k < places.length ∧ places[k]? = some p ∧ j = (k : Int) - places.length := by
  unfold subsAt
  simp only [List.mem_map, List.mem_filter, decide_eq_true_eq]
  constructor
  · rintro ⟨⟨a, j'⟩, ⟨hmem, hp⟩, rfl⟩
    obtain ⟨k, hk⟩ := List.mem_iff_getElem?.1 hmem
    rw [List.getElem?_zip_eq_some] at hk
    simp only at hk hp
    have hlt : k < places.length := by
      have := hk.1
      exact (List.getElem?_eq_some_iff.1 this).1
    rw [getElem?_negIdxs _ _ hlt] at hk
    refine ⟨k, hlt, by rw [hk.1, hp], ?_⟩
    simpa using hk.2.symm
  · rintro ⟨k, hlt, hk, rfl⟩
    refine ⟨(p, (k : Int) - places.length), ⟨?_, rfl⟩, rfl⟩
    apply List.mem_iff_getElem?.2
    exact ⟨k, by rw [List.getElem?_zip_eq_some]; exact ⟨hk, getElem?_negIdxs _ _ hlt⟩⟩

/-! ### 'ins_N' rendering -/

def itemOf (bogus : List Int) (idx : Int) : Item :=
  if idx < 0 then Item.ins (bogus[(idx + (bogus.length : Int)).toNat]?.getD 0) else Item.el idx.toNat

theorem render_eq (bogus : List Int) (order : List Int)
    (h : ∀ idx ∈ order, idx < 0 → idx ∈ negIdxs bogus.length) :
    render bogus order = some (order.map (itemOf bogus)) := by
  unfold render
  induction order with
  | nil => rfl
  | cons x xs ih =>
    have ih' := ih (fun idx hi => h idx (List.mem_cons_of_mem _ hi))
    rw [List.mapM_cons, ih']
    by_cases hx : x < 0
    · have hm := mem_negIdxs.1 (h x List.mem_cons_self hx)
      have hk : (x + (bogus.length : Int)).toNat < bogus.length := by omega
      simp only [hx, if_true, orderMapping]
      have hcond : 0 ≤ x + (bogus.length : Int) ∧ x < 0 := ⟨by omega, hx⟩
      simp only [hcond, and_self, if_true, List.getElem?_eq_getElem hk, Option.map_some, itemOf, hx,
        Option.getD_some, List.map_cons]
      rfl
    · simp only [hx, if_false, itemOf, List.map_cons]
      rfl

theorem specItems_eq (d : Dim) (explicit : Option (List Eid)) (empties : List Nat) :
    specItems d explicit empties = (specSigned d explicit empties).map (itemOf (bogusIds d.subs)) := by
  unfold specItems
  apply List.map_congr_left
  intro idx _
  simp [itemOf, bogusIds]

theorem payload_bogus_eq (d : Dim) (empties : List Nat)
    (hids : d.ids.Nodup) (hlen : (d.elems.length : Int) ≤ maxsize) :
    payloadOrderBogus d empties = some (specItems d none empties) := by
  unfold payloadOrderBogus
  rw [specItems_eq, ← payload_eq_spec d empties hids hlen]
  apply render_eq
  intro idx hmem hneg
  have := (payload_subs_iff d empties idx).1 ⟨hneg, hmem⟩
  simpa [bogusIds] using this

theorem explicit_bogus_eq (d : Dim) (ex : List Eid) (empties : List Nat)
    (hids : d.ids.Nodup) (hlen : (d.elems.length : Int) ≤ maxsize) :
    explicitOrderBogus d ex empties = some (specItems d (some ex) empties) := by
  unfold explicitOrderBogus
  rw [specItems_eq, ← explicit_eq_spec d ex empties hids hlen]
  apply render_eq
  intro idx hmem hneg
  have := (explicit_subs_iff d ex empties hids idx).1 ⟨hneg, hmem⟩
  simpa [bogusIds] using this

theorem specSigned_nodup (d : Dim) (explicit : Option (List Eid)) (empties : List Nat)
    (hids : d.ids.Nodup) (hlen : (d.elems.length : Int) ≤ maxsize) :
    (specSigned d explicit empties).Nodup := by
  cases explicit with
  | none => rw [← payload_eq_spec d empties hids hlen]; exact payload_nodup d empties
  | some ex => rw [← explicit_eq_spec d ex empties hids hlen]; exact explicit_nodup d ex empties hids

theorem specSigned_neg_mem (d : Dim) (explicit : Option (List Eid)) (empties : List Nat)
    (hids : d.ids.Nodup) (hlen : (d.elems.length : Int) ≤ maxsize) (j : Int)
    (hj : j ∈ specSigned d explicit empties) (hneg : j < 0) : j ∈ negIdxs d.subs.length := by
  cases explicit with
  | none =>
    rw [← payload_eq_spec d empties hids hlen] at hj
    exact (payload_subs_iff d empties j).1 ⟨hneg, hj⟩
  | some ex =>
    rw [← explicit_eq_spec d ex empties hids hlen] at hj
    exact (explicit_subs_iff d ex empties hids j).1 ⟨hneg, hj⟩

theorem specItems_nodup (d : Dim) (explicit : Option (List Eid)) (empties : List Nat)
    (hids : d.ids.Nodup) (hlen : (d.elems.length : Int) ≤ maxsize) (hins : (bogusIds d.subs).Nodup) :
    (specItems d explicit empties).Nodup := by
  rw [specItems_eq]
  refine List.Nodup.map_on ?_ (specSigned_nodup d explicit empties hids hlen)
  intro x hx y hy hxy
  by_cases hxn : x < 0 <;> by_cases hyn : y < 0
  · have h1 := mem_negIdxs.1 (specSigned_neg_mem d explicit empties hids hlen x hx hxn)
    have h2 := mem_negIdxs.1 (specSigned_neg_mem d explicit empties hids hlen y hy hyn)
    have hl : (bogusIds d.subs).length = d.subs.length := by simp [bogusIds]
    have hk1 : (x + ((bogusIds d.subs).length : Int)).toNat < (bogusIds d.subs).length := by omega
    have hk2 : (y + ((bogusIds d.subs).length : Int)).toNat < (bogusIds d.subs).length := by omega
    simp only [itemOf, hxn, hyn, if_true, List.getElem?_eq_getElem hk1, List.getElem?_eq_getElem hk2,
      Option.getD_some, Item.ins.injEq] at hxy
    have := (List.Nodup.getElem_inj_iff hins).1 hxy
    omega
  · simp [itemOf, hxn, hyn] at hxy
  · simp [itemOf, hxn, hyn] at hxy
  · simp only [itemOf, hxn, hyn, if_false, Item.el.injEq] at hxy
    omega

end CrCube.Lemmas.AnchoredFinal
