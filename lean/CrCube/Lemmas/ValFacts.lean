import CrCube.Model.Val
import Mathlib.Tactic.Ring
import Mathlib.Tactic.Linarith
import Mathlib.Tactic.Positivity
import Mathlib.Algebra.Order.Field.Rat
import Mathlib.Algebra.Order.Field.Basic

namespace CrCube

/-- count / base for 0 ≤ count ≤ base: NaN exactly when the base is zero, else a rational in [0,1] -/
theorem Val.div_count_base (c b : Rat) (h0 : 0 ≤ c) (hcb : c ≤ b) :
    (Val.fin c) / (Val.fin b) = if b = 0 then .nan else .fin (c / b) := by
  rw [Val.div_fin]
  by_cases hb : b = 0
  · have : c = 0 := by subst hb; linarith
    subst this
    simp [hb]
  · simp [hb]

theorem Rat.div_mem_unit (c b : Rat) (h0 : 0 ≤ c) (hcb : c ≤ b) (hb : b ≠ 0) :
    0 ≤ c / b ∧ c / b ≤ 1 := by
  have hbpos : 0 < b := lt_of_le_of_ne (le_trans h0 hcb) (Ne.symm hb)
  exact ⟨div_nonneg h0 hbpos.le, (div_le_one hbpos).mpr hcb⟩

end CrCube
