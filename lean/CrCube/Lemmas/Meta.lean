/-
  Helper lemmas for the metadata slice (Props/C05_Meta, C09_Meta, C19_Meta): `mapR`, `pyIndex` vs the
  specification `pick`, keyed dicts (`kdGet` / `kdSet` / `rebuildWith`).
-/
import CrCube.Model.Meta
import CrCube.Spec.MetaSpec
import Mathlib.Data.List.Basic
import Mathlib.Data.List.Forall2
import Mathlib.Data.List.Induction

namespace CrCube.MetaL
open CrCube CrCube.Glue CrCube.Meta CrCube.MetaSpec
open CrCube.Shim (Ref)

/-! ### `mapR` -/

theorem mapR_nil {α β : Type} (f : α → R β) : mapR f [] = .ok [] := rfl

theorem mapR_cons_ok {α β : Type} (f : α → R β) (a : α) (l : List α) (r : List β) :
    mapR f (a :: l) = .ok r ↔ ∃ b bs, f a = .ok b ∧ mapR f l = .ok bs ∧ r = b :: bs := by
  simp only [mapR]
  cases hf : f a with
  | error e => simp [bind, Except.bind]
  | ok b =>
    cases hl : mapR f l with
    | error e => simp [bind, Except.bind]
    | ok bs =>
      simp only [bind, Except.bind, pure, Except.pure]
      constructor
      · intro h; injection h with h; exact ⟨b, bs, rfl, rfl, h.symm⟩
      · rintro ⟨b', bs', hb, hbs, rfl⟩
        injection hb with hb; injection hbs with hbs; subst hb; subst hbs; rfl

theorem mapR_ok_iff {α β : Type} (f : α → R β) (l : List α) (r : List β) :
    mapR f l = .ok r ↔ List.Forall₂ (fun a b => f a = .ok b) l r := by
  induction l generalizing r with
  | nil =>
    constructor
    · intro h; simp only [mapR] at h; injection h with h; subst h; exact .nil
    · intro h; cases h; rfl
  | cons a l ih =>
    rw [mapR_cons_ok]
    constructor
    · rintro ⟨b, bs, hb, hbs, rfl⟩; exact .cons hb ((ih bs).mp hbs)
    · intro h; cases h with
      | cons hb hbs => exact ⟨_, _, hb, (ih _).mpr hbs, rfl⟩

theorem mapR_ok_length {α β : Type} {f : α → R β} {l : List α} {r : List β} (h : mapR f l = .ok r) :
    r.length = l.length := ((mapR_ok_iff f l r).mp h).length_eq.symm

theorem mapR_ok_of_forall {α β : Type} (f : α → R β) (g : α → β) (l : List α)
    (h : ∀ a ∈ l, f a = .ok (g a)) : mapR f l = .ok (l.map g) := by
  induction l with
  | nil => rfl
  | cons a l ih =>
    rw [mapR_cons_ok]
    exact ⟨g a, l.map g, h a (by simp), ih (fun b hb => h b (by simp [hb])), rfl⟩

theorem mapR_congr {α β : Type} (f g : α → R β) (l : List α) (h : ∀ a ∈ l, f a = g a) :
    mapR f l = mapR g l := by
  induction l with
  | nil => rfl
  | cons a l ih =>
    simp only [mapR]
    rw [h a (by simp), ih (fun b hb => h b (by simp [hb]))]

/-- if `mapR f l` succeeds, every member's image is the entry at the member's first position -/
theorem mapR_ok_at {α β : Type} [DecidableEq α] {f : α → R β} {l : List α} {r : List β}
    (h : mapR f l = .ok r) (x : α) (hx : x ∈ l) (d : β) : f x = .ok (r.getD (l.idxOf x) d) := by
  have hf := (mapR_ok_iff f l r).mp h
  clear h
  induction hf with
  | nil => simp at hx
  | @cons a b l r hab _ ih =>
    by_cases hax : a = x
    · subst hax; simpa [List.idxOf_cons_self] using hab
    · have hx' : x ∈ l := by
        rcases List.mem_cons.mp hx with h' | h'
        · exact absurd h'.symm hax
        · exact h'
      rw [List.idxOf_cons_ne _ hax]
      simpa using ih hx'

theorem mapR_error_of_mem {α β : Type} {f : α → R β} {l : List α} {a : α} (ha : a ∈ l)
    (hf : ∀ b, f a ≠ .ok b) : ∀ r, mapR f l ≠ .ok r := by
  intro r h
  have hf2 := (mapR_ok_iff f l r).mp h
  induction hf2 with
  | nil => simp at ha
  | @cons a' b l r hab _ ih =>
    rcases List.mem_cons.mp ha with h' | h'
    · subst h'; exact hf b hab
    · exact ih h' ((mapR_ok_iff f l r).mpr ‹_›)

/-! ### python indexing vs the specification `pick` -/

theorem pyIndex_nonneg {α : Type} (l : List α) (i : Int) (h : 0 ≤ i) :
    pyIndex l i = optIdx l[i.toNat]? := by
  unfold pyIndex
  simp [h]

theorem pyIndex_neg {α : Type} (l : List α) (i : Int) (h : i < 0) (h2 : 0 ≤ (l.length : Int) + i) :
    pyIndex l i = optIdx l[((l.length : Int) + i).toNat]? := by
  unfold pyIndex
  have : ¬ (0 ≤ i) := by omega
  simp [this, h2]

/-- inside the display range python's index into `base ++ subs` IS the specification's `pick` -/
theorem pyIndex_valid {α : Type} (base subs : List α) (i : Int)
    (h : -(subs.length : Int) ≤ i ∧ i < (base.length : Int)) :
    ∃ a, pick base subs i = some a ∧ pyIndex (base ++ subs) i = .ok a := by
  by_cases h0 : 0 ≤ i
  · have hlt : i.toNat < base.length := by omega
    refine ⟨base[i.toNat], ?_, ?_⟩
    · simp [pick, h0, List.getElem?_eq_getElem hlt]
    · rw [pyIndex_nonneg _ _ h0, List.getElem?_append_left hlt, List.getElem?_eq_getElem hlt]; rfl
  · have hneg : i < 0 := by omega
    have hk : ((subs.length : Int) + i).toNat < subs.length := by omega
    refine ⟨subs[((subs.length : Int) + i).toNat], ?_, ?_⟩
    · simp only [pick, h0, if_false, h.1, if_true]
      exact List.getElem?_eq_getElem hk
    · have h2 : 0 ≤ (((base ++ subs).length : Nat) : Int) + i := by simp; omega
      rw [pyIndex_neg _ _ hneg h2]
      have e : ((((base ++ subs).length : Nat) : Int) + i).toNat = base.length + ((subs.length : Int) + i).toNat := by
        simp; omega
      rw [e, List.getElem?_append_right (by omega)]
      simp [List.getElem?_eq_getElem hk, optIdx]

/-- python's own range: `-len ≤ i < len` -/
theorem pyIndex_ok_iff {α : Type} (l : List α) (i : Int) :
    (∃ a, pyIndex l i = .ok a) ↔ (-(l.length : Int) ≤ i ∧ i < (l.length : Int)) := by
  by_cases h0 : 0 ≤ i
  · rw [pyIndex_nonneg _ _ h0]
    constructor
    · rintro ⟨a, ha⟩
      cases hl : l[i.toNat]? with
      | none => rw [hl] at ha; simp [optIdx] at ha
      | some b =>
        have := (List.getElem?_eq_some_iff.mp hl).1
        omega
    · intro h
      have hlt : i.toNat < l.length := by omega
      exact ⟨l[i.toNat], by simp [List.getElem?_eq_getElem hlt, optIdx]⟩
  · have hneg : i < 0 := by omega
    by_cases h2 : 0 ≤ (l.length : Int) + i
    · rw [pyIndex_neg _ _ hneg h2]
      have hlt : ((l.length : Int) + i).toNat < l.length := by omega
      constructor
      · intro _; omega
      · intro _; exact ⟨l[((l.length : Int) + i).toNat], by simp [List.getElem?_eq_getElem hlt, optIdx]⟩
    · constructor
      · rintro ⟨a, ha⟩
        unfold pyIndex at ha
        simp [h0, h2] at ha
      · intro h; omega

/-! ### keyed dicts -/

theorem kdGet_kdSet {α : Type} (k k' : Ref) (v : α) (l : List (Ref × α)) :
    kdGet k (kdSet k' v l) = if k' = k then some v else kdGet k l := by
  induction l with
  | nil => simp [kdSet, kdGet]
  | cons p l ih =>
    obtain ⟨k0, v0⟩ := p
    by_cases h0 : k0 = k'
    · subst h0
      by_cases h1 : k0 = k <;> simp [kdSet, kdGet, h1]
    · by_cases h1 : k0 = k
      · subst h1
        have : ¬ k' = k0 := fun e => h0 e.symm
        simp [kdSet, kdGet, h0, this]
      · simp [kdSet, kdGet, h0, h1, ih]

theorem rebuildWith_append {α : Type} (tr : Ref → Option Ref) (es : List (Ref × α)) (kv : Ref × α) :
    rebuildWith tr (es ++ [kv]) = rbStep (rebuildWith tr es) (tr kv.1) kv.2 := by
  unfold rebuildWith
  rw [List.foldl_append]
  simp only [List.foldl_cons, List.foldl_nil]

/-- the rebuilt dict reads only the TRANSLATED keys -/
theorem rebuildWith_congr {α : Type} (tr tr' : Ref → Option Ref) (es es' : List (Ref × α))
    (h : es.map (fun kv => (tr kv.1, kv.2)) = es'.map (fun kv => (tr' kv.1, kv.2))) :
    rebuildWith tr es = rebuildWith tr' es' := by
  have key : ∀ (tr : Ref → Option Ref) (es : List (Ref × α)) (acc : List (Ref × α)),
      es.foldl (fun acc kv => rbStep acc (tr kv.1) kv.2) acc
      = (es.map (fun kv => (tr kv.1, kv.2))).foldl (fun acc p => rbStep acc p.1 p.2) acc := by
    intro tr es
    induction es with
    | nil => intro acc; rfl
    | cons kv es ih => intro acc; simp only [List.foldl_cons, List.map_cons]; exact ih _
  unfold rebuildWith
  rw [key tr es, key tr' es', h]

/-- "the last entry whose key translates to `k` wins" -/
theorem kdGet_rebuildWith {α : Type} (tr : Ref → Option Ref) (es : List (Ref × α)) (k : Ref) :
    kdGet k (rebuildWith tr es) =
      ((es.filter (fun kv => decide (tr kv.1 = some k))).getLast?).map (·.2) := by
  induction es using List.reverseRecOn with
  | nil => simp [rebuildWith, kdGet]
  | append_singleton es kv ih =>
    rw [rebuildWith_append, List.filter_append]
    cases htr : tr kv.1 with
    | none =>
      simp [htr, ih, rbStep]
    | some k' =>
      simp only [rbStep, kdGet_kdSet]
      by_cases hk : k' = k
      · subst hk
        simp [List.filter_cons, htr]
      · have : ¬ (some k' = some k) := by simpa using hk
        simp [hk, ih, List.filter_cons, htr]

end CrCube.MetaL
