/-
  Model = Spec for the anchored collators, given the descriptors are those of an `order`.
-/
import CrCube.Lemmas.Bridge

namespace CrCube.Lemmas.AnchoredSpec
open CrCube.Collator CrCube.OrderSpec CrCube.Lemmas.SortKeys CrCube.Lemmas.Layout CrCube.Lemmas.Bridge

/-- the placed items standing for re-anchored derived elements -/
def derItems (dps : List (Nat × Place)) : List (Place × Int) := dps.map (fun q => (q.2, (q.1 : Int)))

theorem itemsAt_append (a b : List (Place × Int)) (p : Place) :
    itemsAt (a ++ b) p = itemsAt a p ++ itemsAt b p := by
  simp [itemsAt, List.filter_append]

theorem subsAt_eq (places : List Place) (p : Place) :
    subsAt places p = itemsAt (places.zip (negIdxs places.length)) p := rfl

theorem dersAt_eq (dps : List (Nat × Place)) (p : Place) : dersAt dps p = itemsAt (derItems dps) p := by
  simp [dersAt, itemsAt, derItems, List.filter_map, Function.comp_def]

theorem subsAt_before_nil (places : List Place) (e : Nat) (h : ∀ p ∈ places, p ≠ .before e) :
    subsAt places (.before e) = [] := by
  unfold subsAt
  rw [List.map_eq_nil_iff, List.filter_eq_nil_iff]
  intro q hq
  have := (List.of_mem_zip hq).1
  simpa using h _ this

/-- the spec sequence is the layout of the placed items -/
theorem specSequence_eq_layout (order : List Nat) (places : List Place) (dps : List (Nat × Place))
    (h : ∀ p ∈ places, ∀ e, p ≠ .before e) :
    specSequence order places dps =
      layout order (places.zip (negIdxs places.length) ++ derItems dps) := by
  unfold specSequence layout
  simp only [itemsAt_append, ← subsAt_eq, ← dersAt_eq, List.append_assoc]
  congr 2
  congr 1
  apply List.flatMap_congr
  intro e _
  rw [subsAt_before_nil places e (fun p hp => h p hp e)]
  simp

theorem subPlace_ne_before (ids : List Eid) (order : List Nat) (s : Sub) (e : Nat) :
    subPlace ids order s ≠ .before e := by
  unfold subPlace
  cases s.anchor with
  | top => simp
  | bottom => simp
  | elem n =>
    simp only
    cases idxOfId ids (.int n) with
    | none => simp
    | some e' =>
      simp only
      by_cases hc : e' ∈ order <;> simp [hc]

/-- core statement: an anchored collator over the descriptors of `order`, whose derived
    orderings are the keys of `dps`, displays the spec sequence. -/
theorem anchoredOrder_eq_spec (ids : List Eid) (order : List Nat) (subs : List Sub)
    (dps : List (Nat × Place)) (derived : List Key) (hid : List Nat)
    (hids : ids.Nodup) (hnd : order.Nodup) (hrange : ∀ e ∈ order, e < ids.length)
    (hlen : (order.length : Int) ≤ maxsize)
    (hder : derived = (derItems dps).map (itemKey order))
    (hdinc : dps.Pairwise (fun a b => a.1 < b.1))
    (hddisj : ∀ q ∈ dps, q.1 ∉ order)
    (hdref : ∀ q ∈ dps, ∀ e, (q.2 = .before e ∨ q.2 = .after e) → e ∈ order) :
    anchoredOrder (descrOf ids order) derived subs hid =
      (specSequence order (subs.map (subPlace ids order)) dps).filter (fun idx => !isHidden hid idx) := by
  unfold anchoredOrder
  congr 1
  rw [specSequence_eq_layout order _ dps
      (by intro p hp e; simp only [List.mem_map] at hp; obtain ⟨s, _, rfl⟩ := hp; exact subPlace_ne_before ids order s e)]
  rw [baseOrderings_descrOf ids order hnd, insertionOrderings_descrOf ids order subs hids hnd hrange, hder,
    List.append_assoc, ← List.map_append, List.length_map]
  apply sort_layout order _ hnd hlen
  · -- idx strictly increasing along the items
    rw [List.pairwise_append]
    refine ⟨subItems_pairwise ids order subs, ?_, ?_⟩
    · unfold derItems
      rw [List.pairwise_map]
      exact hdinc.imp (fun h => by simp only; omega)
    · intro a ha b hb
      have h1 := subItems_neg ha
      simp only [derItems, List.mem_map] at hb
      obtain ⟨q, _, rfl⟩ := hb
      simp only
      omega
  · intro it hit e he
    rcases List.mem_append.1 hit with h | h
    · have := subItems_neg h
      omega
    · simp only [derItems, List.mem_map] at h
      obtain ⟨q, hq, rfl⟩ := h
      simp only
      intro heq
      have : q.1 = e := by omega
      exact hddisj q hq (this ▸ he)
  · intro it hit e hp
    rcases List.mem_append.1 hit with h | h
    · exact subItems_ref h e hp
    · simp only [derItems, List.mem_map] at h
      obtain ⟨q, hq, rfl⟩ := h
      exact hdref q hq e hp

/-! ### payload order -/

theorem payloadDescr_eq (ids : List Eid) : payloadDescr ids = descrOf ids (List.range ids.length) := by
  unfold payloadDescr descrOf
  apply List.ext_getElem
  · simp
  · intro i h1 h2
    simp only [List.length_map, List.length_zipIdx] at h1
    simp [List.getD_eq_getElem?_getD, h1]

end CrCube.Lemmas.AnchoredSpec
