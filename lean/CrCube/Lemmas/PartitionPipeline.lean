/-
  Lemmas for C06 on the end-to-end pipeline.

  (1) raw level: the valid-element cube / count extractor object / column-index baseline of
      partition k of ANY raw array over [T, R, C] are those of the 2-D raw array
      `rawPartition T k raw`; for the tabulated cube that array IS the tabulated cube of the
      restricted survey.
  (2) the pipeline (`Model/Pipeline.lean`, `PipelineMeasures.lean`) reads its `CubeData` only
      through the two extractor objects, the numeric cell functions, the presence of the numeric
      measures and the column-index baseline (`CubeData.Same`): every pipeline function is
      congruent in it.
-/
import CrCube.Lemmas.Uncond
import CrCube.Model.PipelinePartition

set_option linter.unusedSimpArgs false
set_option linter.unusedVariables false

namespace CrCube

theorem Var.partIdx_eq_msub (T : Var) (k : Nat) : T.partIdx k = T.msub k := rfl

theorem restrictSurvey_eq (T : Var) (k : Nat) (s : Survey) : restrictSurvey T k s = restrictTo T k s := rfl

/-! ## (1) raw level -/

/-- fixing valid table element k in the valid-element cube of ANY raw array = the valid-element
    cube of the raw sub-tensor at that element's raw position -/
theorem sliceExpr_rawPartition (T : Var) (vs : List Var) (hT : T.CM) (raw : FT) (k : Nat) :
    sliceExpr 3 T.dk k (validCube (T :: vs) raw) = validCube vs (rawPartition T k raw) := by
  rcases hT with hc | ⟨ha, hm, h0⟩
  · simp only [sliceExpr, Var.dk, hc, validCube, FT.take, FT.slice0, Var.validAxes,
      List.flatMap_cons, List.map_append, List.map_cons, List.map_nil, List.tail_cons,
      List.singleton_append, rawPartition, Var.partIdx]
    simp only [show ¬ (3 < 3) by omega, if_false, show ¬ (DK.cat = DK.mr) by decide]
    congr 1
  · simp only [sliceExpr, Var.dk, ha, hm, validCube, FT.take, FT.slice0, Var.validAxes,
      List.flatMap_cons, List.map_append, List.map_cons, List.map_nil, List.tail_cons,
      List.cons_append, List.nil_append, if_true, rawPartition, Var.partIdx]
    simp only [show ¬ (3 < 3) by omega, if_false]
    congr 1

/-- partition k of the extractor object of ANY raw array over [T, R, C] (a count array or a
    numeric payload) = the 2-D extractor object of its raw sub-tensor -/
theorem sliceCounts_rawPartition (T R C : Var) (hT : T.CM) (hR : R.CM) (hC : C.CM) (raw : FT) (k : Nat) :
    sliceCounts [T, R, C] raw k = sliceCounts [R, C] (rawPartition T k raw) 0 := by
  unfold sliceCounts
  rw [apparentKinds_three T R C hT hR hC, apparentKinds_two R C hR hC]
  have h := sliceExpr_rawPartition T [R, C] hT raw k
  simp only [List.length_cons, List.length_nil, List.getD] at h ⊢
  simp only [show (0 + 1 + 1 + 1 : Nat) = 3 by rfl, show (0 + 1 + 1 : Nat) = 2 by rfl] at h ⊢
  simp only [show (3 - 2 : Nat) = 1 by rfl, show (3 - 1 : Nat) = 2 by rfl,
    show (2 - 2 : Nat) = 0 by rfl, show (2 - 1 : Nat) = 1 by rfl, List.getElem?_cons_zero,
    List.getElem?_cons_succ, Option.getD_some] at h ⊢
  rw [h]
  simp [sliceExpr]

/-- the FIXED unconditional factory (after F4) slices ANY with-missings array at the raw position
    of valid table element k -/
theorem uncondSlice_rawPartition (T : Var) (hT : T.CM3) (raw : FT) (k : Nat) :
    uncondSlice 3 T.dk T.validElems k raw true = rawPartition T k raw := by
  rcases hT with hc | ⟨ha, hm, hcm⟩
  · simp only [uncondSlice, Var.dk, hc, show ¬ (3 < 3) by omega, if_false, if_true,
      show ¬ (DK.cat = DK.mr) by decide, FT.slice0, Var.validElems, rawPartition, Var.partIdx,
      Var.rank, List.singleton_append, List.getD, List.drop_one]
  · simp only [uncondSlice, Var.dk, ha, hm, show ¬ (3 < 3) by omega, if_false, if_true,
      FT.slice0, Var.validElems, rawPartition, Var.partIdx, Var.rank, hcm, validIdxs_mr3,
      List.cons_append, List.nil_append, List.getD, List.getElem?_cons_zero, Option.getD_some]
    congr 1
    cases raw.shape with
    | nil => rfl
    | cons a t => cases t <;> rfl

/-- **the column-index baseline of partition k** of ANY with-missings array over [T, R, C] is the
    2-D baseline of its raw sub-tensor at the RAW position of valid table element k -/
theorem baselineOfCube_rawPartition (T R C : Var) (hT : T.CM3) (hR : R.CM) (hC : C.CM) (raw : FT) (k : Nat) :
    baselineOfCube [T, R, C] raw k true = baselineOfCube [R, C] (rawPartition T k raw) 0 true := by
  unfold baselineOfCube
  rw [apparentKinds_three T R C hT.cm hR hC, apparentKinds_two R C hR hC,
    apparentValidIdxs_cons T [R, C] hT.cm]
  simp only [List.length_cons, List.length_nil, List.getD]
  simp only [show (0 + 1 + 1 + 1 : Nat) = 3 by rfl, show (0 + 1 + 1 : Nat) = 2 by rfl,
    show (3 - 2 : Nat) = 1 by rfl, show (3 - 1 : Nat) = 2 by rfl, show (2 - 2 : Nat) = 0 by rfl,
    show (2 - 1 : Nat) = 1 by rfl, List.getElem?_cons_zero, List.getElem?_cons_succ,
    Option.getD_some]
  have h := uncondSlice_rawPartition T hT raw k
  rw [h]
  simp [uncondSlice]

theorem Var.rawShape_length (v : Var) : v.rawShape.length = v.rank := by
  unfold Var.rawShape Var.rank; cases v.kind <;> simp

/-- the raw sub-tensor of the TABULATED cube at table element k is the tabulated cube of the
    respondents who belong to element k -/
theorem rawPartition_cubeOf (T : Var) (vs : List Var) (hT : T.CM) (s : Survey) (k : Nat) (hk : k < T.ext) :
    rawPartition T k (cubeOf (T :: vs) s) = cubeOf vs (restrictTo T k s) := by
  have key := cubeOf_get_restrict T vs hT s k hk
  unfold rawPartition
  rw [Var.partIdx_eq_msub]
  have hs : (cubeOf (T :: vs) s).shape.drop T.rank = (cubeOf vs (restrictTo T k s)).shape := by
    simp only [cubeOf, rawShapeOf, List.flatMap_cons]
    rw [← T.rawShape_length, List.drop_left]
  rw [hs]
  show _ = (⟨(cubeOf vs (restrictTo T k s)).shape, (cubeOf vs (restrictTo T k s)).get⟩ : FT)
  congr 1
  funext ix
  rw [key ix]
  rfl

/-- restricting commutes with dropping the weights -/
theorem restrictTo_unweight (T : Var) (k : Nat) (s : Survey) :
    restrictTo T k (unweight s) = unweight (restrictTo T k s) := by
  unfold restrictTo unweight
  rw [List.filter_map, List.map_map, List.map_map]
  rfl

namespace Pipeline

/-! ## (2) what the pipeline reads of its cube data -/

/-- two cube data the pipeline cannot tell apart: same weighted / unweighted extractor objects,
    same numeric cell functions and presence flags, same column-index baseline -/
structure CubeData.Same (c c' : CubeData) : Prop where
  w : c.w = c'.w
  u : c.u = c'.u
  sums : c.numeric c.sums = c'.numeric c'.sums
  means : c.numeric c.means = c'.numeric c'.means
  stddevs : c.numeric c.stddevs = c'.numeric c'.stddevs
  medians : c.numeric c.medians = c'.numeric c'.medians
  sumsSome : c.sums.isSome = c'.sums.isSome
  meansSome : c.means.isSome = c'.means.isSome
  stddevsSome : c.stddevs.isSome = c'.stddevs.isSome
  mediansSome : c.medians.isSome = c'.medians.isSome
  baseline : baselineOfCube c.vars c.wraw c.k = baselineOfCube c'.vars c'.wraw c'.k

variable {c c' : CubeData}

theorem colIndexBlocks_congr (h : c.Same c') (x : SubCtx) : colIndexBlocks c x = colIndexBlocks c' x := by
  unfold colIndexBlocks
  simp only [h.w, h.baseline]

theorem sliceBlocks_congr (h : c.Same c') (rows cols : RDim) (key : MKey) :
    sliceBlocks c rows cols key = sliceBlocks c' rows cols key := by
  unfold sliceBlocks
  simp only [h.w, h.u, h.sums, h.means, h.stddevs, h.medians, colIndexBlocks_congr h]

theorem sliceBlocks_congr' (h : c.Same c') (rows cols : RDim) :
    sliceBlocks c rows cols = sliceBlocks c' rows cols := funext (sliceBlocks_congr h rows cols)

theorem sliceAvail_congr (h : c.Same c') : sliceAvail c = sliceAvail c' := by
  funext key
  cases key <;> simp only [sliceAvail, h.sumsSome, h.meansSome, h.stddevsSome, h.mediansSome]

theorem rowEmpties_congr (h : c.Same c') : rowEmpties c = rowEmpties c' := by
  unfold rowEmpties; rw [h.u]

theorem colEmpties_congr (h : c.Same c') : colEmpties c = colEmpties c' := by
  unfold colEmpties; rw [h.u]

theorem rowScaleVectors_congr (h : c.Same c') (rows cols : RDim) :
    rowScaleVectors c rows cols = rowScaleVectors c' rows cols := by
  unfold rowScaleVectors; rw [h.w]

theorem colScaleVectors_congr (h : c.Same c') (rows cols : RDim) :
    colScaleVectors c rows cols = colScaleVectors c' rows cols := by
  unfold colScaleVectors; simp only [h.w]

theorem rowMarginalKeys_congr (h : c.Same c') (rows cols : RDim) :
    rowMarginalKeys c rows cols = rowMarginalKeys c' rows cols := by
  funext m
  cases m <;>
    simp only [rowMarginalKeys, h.w, sliceBlocks_congr h, rowScaleVectors_congr h]

theorem rowPruneSubs_congr (h : c.Same c') (cols : RDim) : rowPruneSubs c cols = rowPruneSubs c' cols := by
  unfold rowPruneSubs; rw [colEmpties_congr h]

theorem colPruneSubs_congr (h : c.Same c') (rows : RDim) : colPruneSubs c rows = colPruneSubs c' rows := by
  unfold colPruneSubs; rw [rowEmpties_congr h]

theorem sliceRowOrder_congr (h : c.Same c') (rows cols : RDim) :
    sliceRowOrder c rows cols = sliceRowOrder c' rows cols := by
  unfold sliceRowOrder
  rw [rowPruneSubs_congr h, sliceBlocks_congr' h, sliceAvail_congr h, rowMarginalKeys_congr h,
    rowEmpties_congr h]

theorem sliceColOrder_congr (h : c.Same c') (rows cols : RDim) :
    sliceColOrder c rows cols = sliceColOrder c' rows cols := by
  unfold sliceColOrder
  rw [colPruneSubs_congr h, sliceBlocks_congr' h, sliceAvail_congr h, colEmpties_congr h]

theorem assembleSlice_congr (h : c.Same c') (rows cols : RDim) (ro co : List Int) :
    assembleSlice c rows cols ro co = assembleSlice c' rows cols ro co := by
  unfold assembleSlice
  simp only [h.w, h.u, sliceBlocks_congr' h]

theorem runSlice_congr (h : c.Same c') (rows cols : RDim) : runSlice c rows cols = runSlice c' rows cols := by
  unfold runSlice
  rw [sliceRowOrder_congr h, sliceColOrder_congr h, assembleSlice_congr h]

theorem sliceOutCells_congr (h : c.Same c') (rows cols : RDim) (key : OKey) :
    sliceOutCells c rows cols key = sliceOutCells c' rows cols key := by
  unfold sliceOutCells
  simp only [h.w]

theorem rowsTableProportion_congr (h : c.Same c') (rows cols : RDim) :
    rowsTableProportion c rows cols = rowsTableProportion c' rows cols := by
  unfold rowsTableProportion; rw [rowMarginalKeys_congr h]

theorem colsTableProportion_congr (h : c.Same c') (rows cols : RDim) :
    colsTableProportion c rows cols = colsTableProportion c' rows cols := by
  unfold colsTableProportion
  simp only [h.w, sliceBlocks_congr h]

theorem assembleSliceX_congr (h : c.Same c') (rows cols : RDim) (population fraction : Val)
    (ro co : List Int) :
    assembleSliceX c rows cols population fraction ro co
      = assembleSliceX c' rows cols population fraction ro co := by
  unfold assembleSliceX
  simp only [h.w, assembleSlice_congr h, sliceOutCells_congr h, rowScaleVectors_congr h,
    colScaleVectors_congr h, rowsTableProportion_congr h, colsTableProportion_congr h]

theorem runSliceX_congr (h : c.Same c') (rows cols : RDim) (population fraction : Val) :
    runSliceX c rows cols population fraction = runSliceX c' rows cols population fraction := by
  unfold runSliceX
  rw [sliceRowOrder_congr h, sliceColOrder_congr h, assembleSliceX_congr h]

theorem sliceWF_congr (h : c.Same c') (rows cols : RDim) : SliceWF c rows cols ↔ SliceWF c' rows cols := by
  unfold SliceWF
  rw [h.w, h.u]

/-! ## (3) the two cube data the property compares -/

/-- cube data without numeric payloads (a filler for `cube3` / `cube2`, which overwrite the rest) -/
def CubeData.noNumeric : CubeData :=
  { vars := [], wraw := ⟨[], fun _ => .nan⟩, uraw := ⟨[], fun _ => .nan⟩ }

/-- the cube data of partition `k` of the 3-D response the back end tabulates for survey `s` over
    [T, R, C] (weighted counts, unweighted counts); the numeric payloads are those of `num`
    (arbitrary raw arrays over [T, R, C]) -/
def cube3 (T R C : Var) (s : Survey) (k : Nat) (num : CubeData) : CubeData :=
  { num with vars := [T, R, C], wraw := cubeOf [T, R, C] s, uraw := cubeOf [T, R, C] (unweight s), k := k }

/-- the cube data of the 2-D response the back end tabulates over [R, C] for the respondents who
    belong to table element `k`; numeric payloads = the payload sub-tensors at that element -/
def cube2 (T R C : Var) (s : Survey) (k : Nat) (num : CubeData) : CubeData :=
  { vars := [R, C], wraw := cubeOf [R, C] (restrictTo T k s)
    uraw := cubeOf [R, C] (unweight (restrictTo T k s)), k := 0
    sums := num.sums.map (rawPartition T k), means := num.means.map (rawPartition T k)
    stddevs := num.stddevs.map (rawPartition T k), medians := num.medians.map (rawPartition T k) }

theorem numeric_rawPartition (T R C : Var) (hT : T.CM) (hR : R.CM) (hC : C.CM) (c : CubeData)
    (hv : c.vars = [T, R, C]) (o : Option FT) :
    c.numeric o = (c.partition2d T).numeric (o.map (rawPartition T c.k)) := by
  cases o with
  | none => rfl
  | some raw =>
    simp only [CubeData.numeric, CubeData.partition2d, Option.map_some, hv, List.tail_cons]
    rw [sliceCounts_rawPartition T R C hT hR hC raw c.k]

/-- **the pipeline cannot tell partition k of ANY 3-D cube data from the 2-D cube data of its raw
    sub-tensors** -/
theorem same_partition2d (T R C : Var) (hT : T.CM3) (hR : R.CM) (hC : C.CM) (c : CubeData)
    (hv : c.vars = [T, R, C]) : c.Same (c.partition2d T) where
  w := by
    simp only [CubeData.w, CubeData.partition2d, hv, List.tail_cons]
    exact sliceCounts_rawPartition T R C hT.cm hR hC _ _
  u := by
    simp only [CubeData.u, CubeData.partition2d, hv, List.tail_cons]
    exact sliceCounts_rawPartition T R C hT.cm hR hC _ _
  sums := numeric_rawPartition T R C hT.cm hR hC c hv c.sums
  means := numeric_rawPartition T R C hT.cm hR hC c hv c.means
  stddevs := numeric_rawPartition T R C hT.cm hR hC c hv c.stddevs
  medians := numeric_rawPartition T R C hT.cm hR hC c hv c.medians
  sumsSome := by simp [CubeData.partition2d]
  meansSome := by simp [CubeData.partition2d]
  stddevsSome := by simp [CubeData.partition2d]
  mediansSome := by simp [CubeData.partition2d]
  baseline := by
    simp only [CubeData.partition2d, hv, List.tail_cons]
    exact baselineOfCube_rawPartition T R C hT hR hC _ _

/-- the 2-D cube data of table element k of the tabulated 3-D cube IS the tabulated 2-D cube of
    the restricted survey (weighted and unweighted) -/
theorem partition2d_cube3 (T R C : Var) (hT : T.CM) (s : Survey) (k : Nat) (hk : k < T.ext)
    (num : CubeData) : (cube3 T R C s k num).partition2d T = cube2 T R C s k num := by
  simp only [cube3, cube2, CubeData.partition2d, List.tail_cons,
    rawPartition_cubeOf T [R, C] hT _ k hk, restrictTo_unweight]

end Pipeline
end CrCube
