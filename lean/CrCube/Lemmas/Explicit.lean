/-
  `ExplicitOrderCollator._element_order_descriptors` (OrderedDict + pops) computes the
  specification's element order: listed ids, first mention wins, unknown ignored, then the
  unlisted ones in payload order.  Derived elements are re-anchored.
-/
import CrCube.Lemmas.AnchoredSpec

namespace CrCube.Lemmas.Explicit
open CrCube.Collator CrCube.OrderSpec CrCube.Lemmas.SortKeys CrCube.Lemmas.Layout CrCube.Lemmas.Bridge
open CrCube.Lemmas.AnchoredSpec

/-! ### firstMentions -/

theorem mem_firstMentions {seen l : List Nat} {x : Nat} :
    x ∈ firstMentions seen l ↔ x ∈ l ∧ x ∉ seen := by
  induction l generalizing seen with
  | nil => simp [firstMentions]
  | cons a t ih =>
    unfold firstMentions
    by_cases hs : a ∈ seen
    · simp only [List.contains_eq_mem, hs, decide_true, if_true, ih, List.mem_cons]
      constructor
      · rintro ⟨h1, h2⟩; exact ⟨Or.inr h1, h2⟩
      · rintro ⟨h1 | h1, h2⟩
        · subst h1; exact absurd hs h2
        · exact ⟨h1, h2⟩
    · simp only [List.contains_eq_mem, hs, decide_false, Bool.false_eq_true, if_false, List.mem_cons, ih]
      constructor
      · rintro (h | ⟨h1, h2⟩)
        · subst h; exact ⟨Or.inl rfl, hs⟩
        · exact ⟨Or.inr h1, fun h => h2 (Or.inr h)⟩
      · rintro ⟨h1 | h1, h2⟩
        · exact Or.inl h1
        · by_cases hxa : x = a
          · exact Or.inl hxa
          · refine Or.inr ⟨h1, ?_⟩
            rintro (h | h)
            · exact hxa h
            · exact h2 h

theorem firstMentions_nodup (seen l : List Nat) : (firstMentions seen l).Nodup := by
  induction l generalizing seen with
  | nil => simp [firstMentions]
  | cons a t ih =>
    unfold firstMentions
    by_cases hs : a ∈ seen
    · simp only [List.contains_eq_mem, hs, decide_true, if_true]; exact ih seen
    · simp only [List.contains_eq_mem, hs, decide_false, Bool.false_eq_true, if_false]
      rw [List.nodup_cons]
      refine ⟨?_, ih _⟩
      rw [mem_firstMentions]
      simp

theorem firstMentions_sublist (seen l : List Nat) : (firstMentions seen l).Sublist l := by
  induction l generalizing seen with
  | nil => simp [firstMentions]
  | cons a t ih =>
    unfold firstMentions
    by_cases hs : a ∈ seen
    · simp only [List.contains_eq_mem, hs, decide_true, if_true]; exact (ih seen).cons a
    · simp only [List.contains_eq_mem, hs, decide_false, Bool.false_eq_true, if_false]
      exact (ih _).cons_cons a

/-! ### ids -/

theorem idxOfId_getD {ids : List Eid} (hnd : ids.Nodup) {i : Nat} (hi : i < ids.length) :
    idxOfId ids (ids.getD i .null) = some i := by
  unfold idxOfId
  rw [List.findIdx?_eq_some_iff_getElem]
  refine ⟨hi, ?_, ?_⟩
  · simp [List.getD_eq_getElem?_getD, hi]
  · intro j hj
    simp only [List.getD_eq_getElem?_getD, List.getElem?_eq_getElem hi, Option.getD_some, beq_iff_eq]
    intro h
    have := (List.Nodup.getElem_inj_iff hnd).1 h
    omega

/-! ### the OrderedDict of non-derived elements -/

def isBase (elems : List Elem) (i : Nat) : Bool := !(elems[i]?.map (·.derived)).getD false

theorem baseIdxs_some (elems : List Elem) (ex : List Eid) :
    baseIdxs elems (some ex) = (List.range elems.length).filter (isBase elems) := rfl

theorem mem_baseIdxs {elems : List Elem} {ex : List Eid} {i : Nat} :
    i ∈ baseIdxs elems (some ex) ↔ i < elems.length ∧ isBase elems i = true := by
  simp [baseIdxs_some]

/-- `remaining0` as a plain list when ids are distinct -/
def rem0 (elems : List Elem) : List (Eid × Nat) :=
  ((List.range elems.length).filter (isBase elems)).map (fun i => ((elems.map (·.id)).getD i .null, i))

theorem odInsert_of_not_mem (k : Eid) (v : Nat) (l : List (Eid × Nat)) (h : ∀ q ∈ l, q.1 ≠ k) :
    odInsert k v l = l ++ [(k, v)] := by
  induction l with
  | nil => rfl
  | cons a t ih =>
    unfold odInsert
    have h1 : a.1 ≠ k := h a List.mem_cons_self
    obtain ⟨a1, a2⟩ := a
    simp only at h1
    simp only [h1, if_false, List.cons_append]
    rw [ih (fun q hq => h q (List.mem_cons_of_mem _ hq))]

theorem foldl_odInsert (L : List (Elem × Nat)) (acc : List (Eid × Nat))
    (hnd : (acc.map (·.1) ++ L.map (fun p => p.1.id)).Nodup) :
    L.foldl (fun acc p => odInsert p.1.id p.2 acc) acc = acc ++ L.map (fun p => (p.1.id, p.2)) := by
  induction L generalizing acc with
  | nil => simp
  | cons a t ih =>
    simp only [List.foldl_cons, List.map_cons]
    have hnot : ∀ q ∈ acc, q.1 ≠ a.1.id := by
      intro q hq heq
      rw [List.nodup_append] at hnd
      exact hnd.2.2 q.1 (List.mem_map_of_mem hq) a.1.id (by simp) heq
    rw [odInsert_of_not_mem _ _ _ hnot, ih]
    · simp
    · simp only [List.map_append, List.map_cons, List.map_nil, List.append_assoc, List.singleton_append]
      simpa using hnd

theorem zipIdx_eq_range_map (elems : List Elem) :
    elems.zipIdx = (List.range elems.length).map (fun i => (elems.getD i default, i)) := by
  apply List.ext_getElem
  · simp
  · intro i h1 h2
    simp only [List.length_zipIdx] at h1
    simp [List.getD_eq_getElem?_getD, h1]

theorem remaining0_eq (elems : List Elem) (hnd : (elems.map (·.id)).Nodup) :
    remaining0 elems = rem0 elems := by
  unfold remaining0
  have key := foldl_odInsert (elems.zipIdx.filter (fun p => !p.1.derived)) []
  simp only [List.map_nil, List.nil_append] at key
  have hfold : ((elems.zipIdx.filter (fun p => !p.1.derived)).foldl
      (fun acc (p : Elem × Nat) => odInsert p.1.id p.2 acc) []) =
      (elems.zipIdx.filter (fun p => !p.1.derived)).map (fun p => (p.1.id, p.2)) := by
    apply key
    have hsub : ((elems.zipIdx.filter (fun p => !p.1.derived)).map (fun p => p.1.id)).Sublist
        (elems.map (·.id)) := by
      have h1 : ((elems.zipIdx.filter (fun p => !p.1.derived)).map (·.1)).Sublist (elems.zipIdx.map (·.1)) :=
        (List.filter_sublist).map _
      have h2 : elems.zipIdx.map (·.1) = elems := by
        rw [zipIdx_eq_range_map]
        apply List.ext_getElem
        · simp
        · intro i h1 h2
          simp only [List.length_map, List.length_range] at h1
          simp [List.getD_eq_getElem?_getD, h1]
      rw [h2] at h1
      have := h1.map (fun e : Elem => e.id)
      simpa [List.map_map, Function.comp_def] using this
    exact hsub.nodup hnd
  have hgoal : (elems.zipIdx.filter (fun (p : Elem × Nat) => !p.1.derived)).foldl
      (fun acc (x : Elem × Nat) => match x with | (e, i) => odInsert e.id i acc) [] =
      (elems.zipIdx.filter (fun p => !p.1.derived)).foldl
      (fun acc (p : Elem × Nat) => odInsert p.1.id p.2 acc) [] := rfl
  have hfilt : (elems.zipIdx.filter (fun (x : Elem × Nat) => match x with | (e, _) => !e.derived)) =
      (elems.zipIdx.filter (fun p => !p.1.derived)) := rfl
  rw [hfilt, hgoal, hfold, zipIdx_eq_range_map, List.filter_map, List.map_map]
  unfold rem0
  have hf : (List.range elems.length).filter ((fun (p : Elem × Nat) => !p.1.derived) ∘ fun i => (elems.getD i default, i))
      = (List.range elems.length).filter (isBase elems) := by
    apply List.filter_congr
    intro i hi
    simp only [List.mem_range] at hi
    simp [isBase, List.getD_eq_getElem?_getD, hi]
  rw [hf]
  apply List.map_congr_left
  intro i hi
  simp only [List.mem_filter, List.mem_range] at hi
  simp [List.getD_eq_getElem?_getD, hi.1]

/-! ### popListed -/

/-- the id → offset look-up of the specification, restricted to base (non-derived) elements -/
def look (elems : List Elem) (ex : List Eid) (id : Eid) : Option Nat :=
  (idxOfId (elems.map (·.id)) id).filter (fun i => (baseIdxs elems (some ex)).contains i)

theorem look_eq_some {elems : List Elem} {ex : List Eid} {id : Eid} {i : Nat} :
    look elems ex id = some i ↔
      idxOfId (elems.map (·.id)) id = some i ∧ i ∈ baseIdxs elems (some ex) := by
  unfold look
  cases idxOfId (elems.map (·.id)) id with
  | none => simp [Option.filter]
  | some j =>
    simp only [Option.filter, List.contains_eq_mem, decide_eq_true_eq, Option.some.injEq]
    by_cases hc : j ∈ baseIdxs elems (some ex)
    · simp only [hc, if_true, Option.some.injEq]
      constructor
      · intro h; subst h; exact ⟨rfl, hc⟩
      · intro h; exact h.1
    · simp only [hc, if_false]
      constructor
      · intro h; cases h
      · intro h; exact absurd (h.1 ▸ h.2) hc

theorem firstMentions_cons_mem {seen t : List Nat} {a : Nat} (h : a ∈ seen) :
    firstMentions seen (a :: t) = firstMentions seen t := by
  conv => lhs; unfold firstMentions
  simp [h]

theorem firstMentions_cons_not_mem {seen t : List Nat} {a : Nat} (h : a ∉ seen) :
    firstMentions seen (a :: t) = a :: firstMentions (a :: seen) t := by
  conv => lhs; unfold firstMentions
  simp [h]

theorem popListed_spec (elems : List Elem) (ex0 : List Eid) (hnd : (elems.map (·.id)).Nodup)
    (ex : List Eid) (seen : List Nat) :
    popListed ex ((rem0 elems).filter (fun q => !seen.contains q.2)) =
      ((firstMentions seen (ex.filterMap (look elems ex0))).map
          (fun i => (i, (elems.map (·.id)).getD i .null)),
       (rem0 elems).filter
          (fun q => !(seen ++ firstMentions seen (ex.filterMap (look elems ex0))).contains q.2)) := by
  induction ex generalizing seen with
  | nil => simp [popListed, firstMentions]
  | cons x xs ih =>
    -- facts about members of rem0
    have hmem : ∀ q ∈ rem0 elems, q.2 < elems.length ∧ isBase elems q.2 = true ∧
        q.1 = (elems.map (·.id)).getD q.2 .null := by
      intro q hq
      simp only [rem0, List.mem_map, List.mem_filter, List.mem_range] at hq
      obtain ⟨i, ⟨h1, h2⟩, rfl⟩ := hq
      exact ⟨h1, h2, rfl⟩
    have hlook : ∀ q ∈ rem0 elems, look elems ex0 q.1 = some q.2 := by
      intro q hq
      obtain ⟨h1, h2, h3⟩ := hmem q hq
      refine look_eq_some.2 ⟨?_, mem_baseIdxs.2 ⟨h1, h2⟩⟩
      rw [h3]
      exact idxOfId_getD hnd (by simpa using h1)
    unfold popListed
    cases hl : look elems ex0 x with
    | none =>
      have hfind : ((rem0 elems).filter (fun q => !seen.contains q.2)).find? (fun p => p.1 == x) = none := by
        rw [List.find?_eq_none]
        intro q hq
        simp only [List.mem_filter] at hq
        simp only [beq_iff_eq]
        intro heq
        have := hlook q hq.1
        rw [heq, hl] at this
        cases this
      simp only [hfind, List.filterMap_cons, hl]
      exact ih seen
    | some i =>
      have hli : i < elems.length ∧ isBase elems i = true ∧ (elems.map (·.id)).getD i .null = x := by
        obtain ⟨hix, hb⟩ := look_eq_some.1 hl
        exact ⟨(mem_baseIdxs.1 hb).1, (mem_baseIdxs.1 hb).2, (idxOfId_some hix).2⟩
      have hxi : (x, i) ∈ rem0 elems := by
        simp only [rem0, List.mem_map, List.mem_filter, List.mem_range]
        exact ⟨i, ⟨hli.1, hli.2.1⟩, by rw [hli.2.2]⟩
      have huniq : ∀ q ∈ rem0 elems, q.1 = x → q = (x, i) := by
        intro q hq heq
        have h1 := hlook q hq
        rw [heq, hl] at h1
        obtain ⟨q1, q2⟩ := q
        simp only [Option.some.injEq] at h1
        simp only at heq
        rw [heq, ← h1]
      simp only [List.filterMap_cons, hl]
      by_cases hs : i ∈ seen
      · -- already placed: nothing to pop
        have hfind : ((rem0 elems).filter (fun q => !seen.contains q.2)).find? (fun p => p.1 == x) = none := by
          rw [List.find?_eq_none]
          intro q hq
          simp only [List.mem_filter] at hq
          simp only [beq_iff_eq]
          intro heq
          have h2 := hq.2
          rw [huniq q hq.1 heq] at h2
          simp [hs] at h2
        simp only [hfind]
        rw [ih seen, firstMentions_cons_mem hs]
      · have hfind : ((rem0 elems).filter (fun q => !seen.contains q.2)).find? (fun p => p.1 == x) = some (x, i) := by
          apply find?_unique
          · simp only [List.mem_filter]
            exact ⟨hxi, by simp [hs]⟩
          · simp
          · intro y hy hpy
            simp only [List.mem_filter] at hy
            exact huniq y hy.1 (by simpa using hpy)
        simp only [hfind]
        have hfilt : (((rem0 elems).filter (fun q => !seen.contains q.2)).filter (fun q => !(q.1 == x))) =
            (rem0 elems).filter (fun q => !(i :: seen).contains q.2) := by
          rw [List.filter_filter]
          apply List.filter_congr
          intro q hq
          have hiff : q.1 = x ↔ q.2 = i := by
            constructor
            · intro h; rw [huniq q hq h]
            · intro h
              obtain ⟨_, _, h3⟩ := hmem q hq
              rw [h3, h, hli.2.2]
          by_cases hq2 : q.2 = i
          · have : q.1 = x := hiff.2 hq2
            simp [this, hq2]
          · have : q.1 ≠ x := fun h => hq2 (hiff.1 h)
            simp [this, hq2]
        rw [hfilt, ih (i :: seen), firstMentions_cons_not_mem hs]
        simp only [List.map_cons]
        rw [hli.2.2]
        congr 1
        apply List.filter_congr
        intro q _
        congr 1
        simp only [List.contains_eq_mem, List.mem_append, List.mem_cons, decide_eq_decide]
        tauto

theorem explicitDescr_eq (elems : List Elem) (ex : List Eid) (hnd : (elems.map (·.id)).Nodup) :
    explicitDescr elems ex = descrOf (elems.map (·.id)) (specElemOrder elems (some ex)) := by
  unfold explicitDescr
  rw [remaining0_eq elems hnd]
  have h := popListed_spec elems ex hnd ex []
  simp only [List.contains_nil, Bool.not_false, List.filter_true, List.nil_append] at h
  rw [h]
  simp only
  unfold descrOf specElemOrder
  simp only
  set listed := firstMentions [] (ex.filterMap (look elems ex)) with hlisted
  have hl2 : firstMentions []
      (ex.filterMap (fun id => (idxOfId (elems.map (·.id)) id).filter
        (fun i => (baseIdxs elems (some ex)).contains i))) = listed := rfl
  rw [hl2]
  have hrest : ((rem0 elems).filter (fun q => !listed.contains q.2)).map (fun p => (p.2, p.1)) =
      ((baseIdxs elems (some ex)).filter (fun i => !listed.contains i)).map
        (fun i => (i, (elems.map (·.id)).getD i .null)) := by
    unfold rem0
    rw [List.filter_map, List.map_map, baseIdxs_some]
    rfl
  rw [hrest, ← List.map_append, List.zipIdx_map, List.map_map]
  apply List.map_congr_left
  intro p _
  rfl

/-! ### the element order -/

theorem specElemOrder_eq (elems : List Elem) (ex : List Eid) :
    specElemOrder elems (some ex) =
      firstMentions [] (ex.filterMap (look elems ex)) ++
        (baseIdxs elems (some ex)).filter
          (fun i => !(firstMentions [] (ex.filterMap (look elems ex))).contains i) := rfl

theorem mem_specElemOrder {elems : List Elem} {ex : List Eid} {e : Nat} :
    e ∈ specElemOrder elems (some ex) ↔ e ∈ baseIdxs elems (some ex) := by
  rw [specElemOrder_eq]
  simp only [List.mem_append, List.mem_filter, mem_firstMentions, List.mem_filterMap]
  constructor
  · rintro (⟨⟨id, _, hid⟩, _⟩ | ⟨h, _⟩)
    · exact (look_eq_some.1 hid).2
    · exact h
  · intro h
    by_cases hl : e ∈ firstMentions [] (ex.filterMap (look elems ex))
    · left
      rw [mem_firstMentions] at hl
      simp only [List.mem_filterMap] at hl
      exact ⟨hl.1, by simp⟩
    · right
      exact ⟨h, by simp [hl]⟩

theorem specElemOrder_nodup (elems : List Elem) (ex : List Eid) :
    (specElemOrder elems (some ex)).Nodup := by
  rw [specElemOrder_eq, List.nodup_append]
  refine ⟨firstMentions_nodup _ _, ?_, ?_⟩
  · rw [baseIdxs_some]
    exact (List.nodup_range.filter _).filter _
  · intro a ha b hb heq
    subst heq
    simp only [List.mem_filter] at hb
    simp [ha] at hb

/-! ### derived elements -/

theorem derivedPosition_descrOf (ids : List Eid) (order : List Nat) (a : DAnchor)
    (hids : ids.Nodup) (hnd : order.Nodup) (hrange : ∀ e ∈ order, e < ids.length) :
    derivedPosition (descrOf ids order) a = placeKey order (derivedPlace ids order a) := by
  unfold derivedPosition derivedPlace
  cases a with
  | none => rfl
  | top => rfl
  | bottom => rfl
  | rel al bf =>
    simp only
    rw [positionOf_descrOf ids order al hids hnd hrange]
    cases idxOfId ids al with
    | none => rfl
    | some e =>
      simp only
      by_cases hc : e ∈ order
      · cases bf <;> simp [hc, placeKey]
      · simp [hc, placeKey]

theorem anchorById_self (elems : List Elem) (hnd : (elems.map (·.id)).Nodup) (e : Elem) (he : e ∈ elems)
    (hd : e.derived = true) : anchorById elems e.id = e.danchor := by
  unfold anchorById
  have : elems.reverse.find? (fun e' => e'.id == e.id) = some e := by
    apply find?_unique
    · simpa using he
    · simp
    · intro y hy hpy
      simp only [List.mem_reverse] at hy
      simp only [beq_iff_eq] at hpy
      exact List.inj_on_of_nodup_map hnd hy he hpy
  rw [this]
  simp [hd]

theorem derivedOrderings_eq (elems : List Elem) (ex : List Eid) (order : List Nat)
    (hids : (elems.map (·.id)).Nodup) (hnd : order.Nodup) (hrange : ∀ e ∈ order, e < (elems.map (·.id)).length) :
    derivedOrderings elems (descrOf (elems.map (·.id)) order) =
      (derItems (derivedPlaces elems (some ex) order)).map (itemKey order) := by
  unfold derivedOrderings derivedPlaces derItems
  simp only
  rw [List.map_map, List.map_filterMap]
  apply List.filterMap_congr
  rintro ⟨e, i⟩ hmem
  have he : e ∈ elems := by
    have := List.mem_zipIdx hmem
    simp only [Nat.zero_le, Nat.sub_zero, Nat.zero_add, true_and] at this
    rw [this.2]
    exact List.getElem_mem _
  by_cases hd : e.derived = true
  · simp only [hd, if_true, Option.map_some, Function.comp_apply, itemKey, Option.some.injEq]
    rw [anchorById_self elems hids e he hd, derivedPosition_descrOf _ order e.danchor hids hnd hrange]
  · simp [hd]

theorem derivedPlaces_inc (elems : List Elem) (ex : List Eid) (order : List Nat) :
    (derivedPlaces elems (some ex) order).Pairwise (fun a b => a.1 < b.1) := by
  unfold derivedPlaces
  simp only
  have hz : elems.zipIdx.Pairwise (fun a b => a.2 < b.2) := by
    rw [zipIdx_eq_range_map, List.pairwise_map]
    exact List.pairwise_lt_range
  rw [List.pairwise_filterMap]
  refine hz.imp ?_
  intro a b hab x hx y hy
  obtain ⟨a1, a2⟩ := a
  obtain ⟨b1, b2⟩ := b
  simp only at hx hy hab
  by_cases ha : a1.derived = true <;> by_cases hb : b1.derived = true <;>
    simp only [ha, hb, if_true, Option.some.injEq, Bool.false_eq_true, if_false, reduceCtorEq] at hx hy
  subst hx; subst hy
  exact hab

theorem derivedPlaces_derived {elems : List Elem} {ex : List Eid} {order : List Nat} {q : Nat × Place}
    (h : q ∈ derivedPlaces elems (some ex) order) : q.1 < elems.length ∧ isBase elems q.1 = false := by
  unfold derivedPlaces at h
  simp only [List.mem_filterMap] at h
  obtain ⟨⟨e, i⟩, hmem, hq⟩ := h
  have := List.mem_zipIdx hmem
  simp only [Nat.zero_le, Nat.sub_zero, Nat.zero_add, true_and] at this
  by_cases hd : e.derived = true
  · simp only [hd, if_true, Option.some.injEq] at hq
    subst hq
    refine ⟨this.1, ?_⟩
    simp only [isBase]
    rw [List.getElem?_eq_getElem this.1, ← this.2]
    simp [hd]
  · simp [hd] at hq

theorem derivedPlaces_ref {elems : List Elem} {ex : List Eid} {order : List Nat} {q : Nat × Place}
    (h : q ∈ derivedPlaces elems (some ex) order) (e : Nat) (hp : q.2 = .before e ∨ q.2 = .after e) :
    e ∈ order := by
  unfold derivedPlaces at h
  simp only [List.mem_filterMap] at h
  obtain ⟨⟨el, i⟩, _, hq⟩ := h
  by_cases hd : el.derived = true
  · simp only [hd, if_true, Option.some.injEq] at hq
    subst hq
    simp only at hp
    unfold derivedPlace at hp
    cases ha : el.danchor with
    | none => simp [ha] at hp
    | top => simp [ha] at hp
    | bottom => simp [ha] at hp
    | rel al bf =>
      simp only [ha] at hp
      cases hi : idxOfId (elems.map (·.id)) al with
      | none => simp [hi] at hp
      | some e' =>
        simp only [hi] at hp
        by_cases hc : e' ∈ order
        · cases bf <;> simp [hc] at hp <;> (subst hp; exact hc)
        · simp [hc] at hp
  · simp [hd] at hq

end CrCube.Lemmas.Explicit
