/-
  Bridge between the collator model (descriptor tuples, dict look-ups, `sys.maxsize` keys) and
  the layout lemma (`order`, `Place`s).
-/
import CrCube.Lemmas.Layout

namespace CrCube.Lemmas.Bridge
open CrCube.Collator CrCube.OrderSpec CrCube.Lemmas.SortKeys CrCube.Lemmas.Layout

/-- descriptors of the base elements listed in `order` (offsets into `ids`). -/
def descrOf (ids : List Eid) (order : List Nat) : List Descr :=
  order.zipIdx.map (fun p => (p.2, p.1, ids.getD p.1 .null))

/-! ### list helpers -/

theorem zipIdx_eq_map_idxOf_aux (l : List Nat) (h : l.Nodup) (k : Nat) :
    l.zipIdx k = l.map (fun e => (e, l.idxOf e + k)) := by
  induction l generalizing k with
  | nil => rfl
  | cons x xs ih =>
    rw [List.nodup_cons] at h
    rw [List.zipIdx_cons, ih h.2 (k + 1), List.map_cons]
    congr 1
    · simp
    · apply List.map_congr_left
      intro e he
      have hne : x ≠ e := fun e' => h.1 (e' ▸ he)
      simp [hne]
      omega

theorem zipIdx_eq_map_idxOf (l : List Nat) (h : l.Nodup) :
    l.zipIdx = l.map (fun e => (e, l.idxOf e)) := by
  simpa using zipIdx_eq_map_idxOf_aux l h 0

theorem find?_unique {α : Type} {l : List α} {p : α → Bool} {x : α} (hx : x ∈ l) (hp : p x = true)
    (hu : ∀ y ∈ l, p y = true → y = x) : l.find? p = some x := by
  induction l with
  | nil => cases hx
  | cons a t ih =>
    by_cases hpa : p a = true
    · have : a = x := hu a List.mem_cons_self hpa
      subst this
      simp [List.find?_cons, hpa]
    · have hxa : x ≠ a := fun e => hpa (e ▸ hp)
      have hx' : x ∈ t := by
        rcases List.mem_cons.1 hx with h | h
        · exact absurd h hxa
        · exact h
      simp only [List.find?_cons, hpa]
      exact ih hx' (fun y hy => hu y (List.mem_cons_of_mem _ hy))

theorem idxOfId_some {ids : List Eid} {id : Eid} {e : Nat} (h : idxOfId ids id = some e) :
    e < ids.length ∧ ids.getD e .null = id := by
  unfold idxOfId at h
  rw [List.findIdx?_eq_some_iff_getElem] at h
  obtain ⟨hlt, hp, _⟩ := h
  refine ⟨hlt, ?_⟩
  simp only [beq_iff_eq] at hp
  simp [List.getD_eq_getElem?_getD, hlt, hp]

theorem idxOfId_none {ids : List Eid} {id : Eid} (h : idxOfId ids id = none) :
    ∀ e, e < ids.length → ids.getD e .null ≠ id := by
  unfold idxOfId at h
  rw [List.findIdx?_eq_none_iff] at h
  intro e he heq
  have hm : ids[e] ∈ ids := List.getElem_mem he
  have := h _ hm
  simp [List.getD_eq_getElem?_getD, he] at heq
  simp [heq] at this

theorem getD_inj_of_nodup {ids : List Eid} (hnd : ids.Nodup) {a b : Nat} (ha : a < ids.length)
    (hb : b < ids.length) (h : ids.getD a .null = ids.getD b .null) : a = b := by
  simp only [List.getD_eq_getElem?_getD, List.getElem?_eq_getElem ha, List.getElem?_eq_getElem hb,
    Option.getD_some] at h
  exact (List.Nodup.getElem_inj_iff hnd).1 h

/-! ### base orderings and position look-up -/

theorem baseOrderings_descrOf (ids : List Eid) (order : List Nat) (hnd : order.Nodup) :
    baseOrderings (descrOf ids order) = baseKeys order := by
  simp only [baseOrderings, descrOf, baseKeys, zipIdx_eq_map_idxOf order hnd, List.map_map,
    Function.comp_def]

/-- `_element_positions_by_id[id]` for well-formed descriptors. -/
theorem positionOf_descrOf (ids : List Eid) (order : List Nat) (id : Eid)
    (hids : ids.Nodup) (hnd : order.Nodup) (hrange : ∀ e ∈ order, e < ids.length) :
    positionOf (descrOf ids order) id =
      match idxOfId ids id with
      | some e => if order.contains e then some (order.idxOf e) else none
      | none => none := by
  unfold positionOf
  have hdescr : descrOf ids order = order.map (fun e => (order.idxOf e, e, ids.getD e .null)) := by
    simp only [descrOf, zipIdx_eq_map_idxOf order hnd, List.map_map, Function.comp_def]
  rw [hdescr]
  cases hfx : idxOfId ids id with
  | none =>
    simp only
    have : (order.map (fun e => (order.idxOf e, e, ids.getD e .null))).reverse.find?
        (fun d => d.2.2 == id) = none := by
      rw [List.find?_eq_none]
      intro d hd
      simp only [List.mem_reverse, List.mem_map] at hd
      obtain ⟨e, he, rfl⟩ := hd
      simp only [beq_iff_eq]
      exact idxOfId_none hfx e (hrange e he)
    rw [this]; rfl
  | some e0 =>
    simp only
    obtain ⟨hlt, hget⟩ := idxOfId_some hfx
    by_cases hmem : e0 ∈ order
    · have hc : order.contains e0 = true := by simpa using hmem
      rw [hc]
      have : (order.map (fun e => (order.idxOf e, e, ids.getD e .null))).reverse.find?
          (fun d => d.2.2 == id) = some (order.idxOf e0, e0, ids.getD e0 .null) := by
        apply find?_unique
        · simp only [List.mem_reverse, List.mem_map]
          exact ⟨e0, hmem, rfl⟩
        · simpa [List.getD_eq_getElem?_getD] using hget
        · intro y hy hpy
          simp only [List.mem_reverse, List.mem_map] at hy
          obtain ⟨e, he, rfl⟩ := hy
          simp only [beq_iff_eq] at hpy
          have : e = e0 := getD_inj_of_nodup hids (hrange e he) hlt (hpy.trans hget.symm)
          subst this; rfl
      rw [this]; rfl
    · have hc : order.contains e0 = false := by simpa using hmem
      rw [hc]
      have : (order.map (fun e => (order.idxOf e, e, ids.getD e .null))).reverse.find?
          (fun d => d.2.2 == id) = none := by
        rw [List.find?_eq_none]
        intro d hd
        simp only [List.mem_reverse, List.mem_map] at hd
        obtain ⟨e, he, rfl⟩ := hd
        simp only [beq_iff_eq]
        intro heq
        have : e = e0 := getD_inj_of_nodup hids (hrange e he) hlt (heq.trans hget.symm)
        exact hmem (this ▸ he)
      rw [this]; rfl

/-! ### insertions -/

theorem insertionPosition_descrOf (ids : List Eid) (order : List Nat) (s : Sub)
    (hids : ids.Nodup) (hnd : order.Nodup) (hrange : ∀ e ∈ order, e < ids.length) :
    insertionPosition (descrOf ids order) s = placeKey order (subPlace ids order s) := by
  unfold insertionPosition subPlace
  cases s.anchor with
  | top => rfl
  | bottom => rfl
  | elem n =>
    simp only
    rw [positionOf_descrOf ids order (.int n) hids hnd hrange]
    cases idxOfId ids (.int n) with
    | none => rfl
    | some e =>
      simp only
      by_cases hc : e ∈ order
      · simp [hc, placeKey]
      · simp [hc, placeKey]

/-- the placed items standing for the subtotals -/
def subItems (ids : List Eid) (order : List Nat) (subs : List Sub) : List (Place × Int) :=
  (subs.map (subPlace ids order)).zip (negIdxs subs.length)

theorem insertionOrderings_descrOf (ids : List Eid) (order : List Nat) (subs : List Sub)
    (hids : ids.Nodup) (hnd : order.Nodup) (hrange : ∀ e ∈ order, e < ids.length) :
    insertionOrderings (descrOf ids order) subs = (subItems ids order subs).map (itemKey order) := by
  unfold insertionOrderings subItems
  rw [List.zip_map_left, List.map_map]
  apply List.map_congr_left
  rintro ⟨s, j⟩ _
  simp [itemKey, insertionPosition_descrOf ids order s hids hnd hrange]

/-! ### facts about `negIdxs` -/

theorem negIdxs_pairwise (n : Nat) : (negIdxs n).Pairwise (· < ·) := by
  unfold negIdxs
  rw [List.pairwise_map]
  exact List.Pairwise.imp (fun h => by omega) List.pairwise_lt_range

theorem mem_negIdxs {n : Nat} {j : Int} : j ∈ negIdxs n ↔ -(n : Int) ≤ j ∧ j < 0 := by
  unfold negIdxs
  simp only [List.mem_map, List.mem_range]
  constructor
  · rintro ⟨i, hi, rfl⟩; omega
  · intro h; exact ⟨(j + n).toNat, by omega, by omega⟩

theorem length_negIdxs (n : Nat) : (negIdxs n).length = n := by simp [negIdxs]

theorem subItems_pairwise (ids : List Eid) (order : List Nat) (subs : List Sub) :
    (subItems ids order subs).Pairwise (fun a b => a.2 < b.2) := by
  unfold subItems
  have h := negIdxs_pairwise subs.length
  have : ((subs.map (subPlace ids order)).zip (negIdxs subs.length)).map (·.2) = negIdxs subs.length := by
    rw [List.map_snd_zip]
    simp [length_negIdxs]
  rw [← this, List.pairwise_map] at h
  exact h

theorem subItems_neg {ids : List Eid} {order : List Nat} {subs : List Sub} {it : Place × Int}
    (h : it ∈ subItems ids order subs) : it.2 < 0 := by
  unfold subItems at h
  have := (List.of_mem_zip h).2
  exact (mem_negIdxs.1 this).2

theorem subItems_ref {ids : List Eid} {order : List Nat} {subs : List Sub} {it : Place × Int}
    (h : it ∈ subItems ids order subs) (e : Nat) (hp : it.1 = .before e ∨ it.1 = .after e) :
    e ∈ order := by
  unfold subItems at h
  have h1 := (List.of_mem_zip h).1
  simp only [List.mem_map] at h1
  obtain ⟨s, _, hs⟩ := h1
  rw [← hs] at hp
  unfold subPlace at hp
  cases ha : s.anchor with
  | top => simp [ha] at hp
  | bottom => simp [ha] at hp
  | elem n =>
    simp only [ha] at hp
    cases hi : idxOfId ids (.int n) with
    | none => simp [hi] at hp
    | some e' =>
      simp only [hi] at hp
      by_cases hc : e' ∈ order
      · simp only [List.contains_eq_mem, hc, decide_true, if_true] at hp
        rcases hp with hp | hp
        · cases hp
        · cases hp
          exact hc
      · simp [hc] at hp

end CrCube.Lemmas.Bridge
