/-
  Assembly of the round trip: `fromDicts` (type detection + promotion), `missingFlags` and `groupVars`
  on the rendered dimension list of a whole design.
-/
import CrCube.Lemmas.GlueElements

set_option linter.unusedSimpArgs false

namespace CrCube.Glue
open CrCube

/-- types before the promotion loop: the sub-variables dimension of an MR is still CA_SUBVAR -/
def RVar.preTypes (v : RVar) : List DT :=
  match v.kind with
  | .mr => [.caSubvar, .mrCat]
  | _ => v.types

def RVar.preDims (v : RVar) : List Dim := List.zipWith Dim.mk v.dims v.preTypes
def RVar.finalDims (v : RVar) : List Dim := List.zipWith Dim.mk v.dims v.types

/-! ### step 1: type detection, per variable -/

theorem catDimType_of_kind (v : RVar) (h : v.WFP) :
    v.catDimType = match v.kind with
      | .mr => .mrCat
      | .ca => .caCat
      | .logical => .logical
      | .catDate => .catDate
      | _ => if logicalCats v.typedefCats then .logical
             else if v.typedefCats.any (·.date.isSome) then .catDate else .cat := by
  have hk := h.kind
  unfold RVar.catDimType
  cases hkind : v.kind <;> simp only [hkind, RVar.isArray, Bool.and_eq_true, Bool.not_eq_true',
    decide_eq_true_eq, Bool.false_and, Bool.true_and, Bool.false_eq_true, if_false] at hk ⊢
  · -- catDate
    obtain ⟨⟨h1, h2⟩, _⟩ := hk
    simp only [h1, Bool.false_eq_true, if_false]
    have : v.typedefCats.any (·.date.isSome) = true := by
      rw [List.any_eq_true] at h2 ⊢
      obtain ⟨c, hc, hd⟩ := h2
      exact ⟨c, cats_mem_typedefCats v h c hc, hd⟩
    simp [this]
  · -- logical
    obtain ⟨⟨h1, h2⟩, _⟩ := hk
    have : v.typedefPerm = none := by simpa using h2
    simp [typedefCats_none v this, h1]
  · -- mr
    obtain ⟨⟨⟨h1, h2⟩, h3⟩, _⟩ := hk
    have : v.typedefPerm = none := by simpa using h2
    simp [typedefCats_none v this, h1, h3]
  · -- ca
    obtain ⟨h1, h2⟩ := hk
    simp [h1, h2]

theorem catDimType_cat (v : RVar) (h : v.WFP) (hk : v.kind = .cat) : v.catDimType = .cat := by
  have hk' := h.kind
  rw [catDimType_of_kind v h]
  simp only [hk, Bool.and_eq_true, Bool.not_eq_true'] at hk' ⊢
  obtain ⟨⟨h1, h2⟩, _⟩ := hk'
  have : v.typedefCats.any (·.date.isSome) = false := by
    rw [List.any_eq_false]
    intro c hc
    have := List.all_eq_true.mp h2 c (typedefCats_mem v c hc)
    simpa using this
  simp [h1, this]

theorem mkDim_catDim (v : RVar) (h : v.WFP) (te : List (String × J)) :
    mkDim (v.catDim te) = .ok ⟨v.catDim te, v.catDimType⟩ := by
  simp [mkDim, dimensionType_catDim v te h]

theorem mkDim_enumDim (v : RVar) (els : List J) :
    mkDim (v.enumDim els) = .ok ⟨v.enumDim els, v.kind.enumDT⟩ := by
  simp [mkDim, dimensionType_enumDim v els]

theorem preDims_var (v : RVar) (h : v.WFP) : mapR mkDim v.dims = .ok v.preDims := by
  have hct := catDimType_of_kind v h
  have hcc := catDimType_cat v h
  have hk := h.kind
  unfold RVar.preDims RVar.dims RVar.preTypes RVar.types
  cases hkind : v.kind <;> simp only [hkind] at hct hcc hk ⊢
  · simp [mapR, mkDim_catDim v h, hcc]
  · simp [mapR, mkDim_catDim v h, hct]
  · simp [mapR, mkDim_catDim v h, hct]
  · simp [mapR, mkDim_enumDim, hkind, RKind.enumDT]
  · simp [mapR, mkDim_enumDim, hkind, RKind.enumDT]
  · simp [mapR, mkDim_enumDim, hkind, RKind.enumDT]
  · simp [mapR, mkDim_enumDim, mkDim_catDim v h, hct, hkind, RKind.enumDT]
  · cases v.transposed <;>
      simp [mapR, mkDim_enumDim, mkDim_catDim v h, hct, hkind, RKind.enumDT]


/-! ### step 2: the promotion loop, generically -/

/-- the alias string of a dimension whose alias is a string -/
def Dim.al (x : Dim) : String :=
  match x.alias with
  | .ok (.str s) => s
  | _ => ""

theorem Dim.alias_al {x : Dim} {s : String} (h : x.alias = .ok (.str s)) : x.alias = .ok (.str x.al) := by
  simp [Dim.al, h]

theorem promoteScan_ok (i : Nat) (self : Dim) (hs : self.alias = .ok (.str self.al)) :
    ∀ (os : List Dim) (j : Nat),
      (∀ o ∈ os, o.alias = .ok (.str o.al)) →
      (∀ k o, os[k]? = some o → j + k = i → o.dt ≠ .mrCat) →
      promoteScan i self j os = .ok (os.any (fun o => o.al == self.al && o.dt == .mrCat)) := by
  intro os
  induction os with
  | nil => intro j _ _; rfl
  | cons o os ih =>
    intro j ha hi
    have ih' := ih (j + 1) (fun o' ho' => ha o' (List.mem_cons_of_mem _ ho'))
      (fun k o' hk hjk => hi (k + 1) o' (by simpa using hk) (by omega))
    unfold promoteScan
    by_cases hji : j = i
    · have : o.dt ≠ .mrCat := hi 0 o (by simp) (by omega)
      have hb : (o.dt == DT.mrCat) = false := by simpa using this
      subst hji
      simp [ih', hb]
    · simp [hji, ha o List.mem_cons_self, hs, ih']

/-- the dimension after the promotion loop -/
def finalOf (D : List Dim) (x : Dim) : Dim :=
  if x.dt = .caSubvar ∧ D.any (fun o => o.al == x.al && o.dt == .mrCat) = true then
    { x with dt := .mrSubvar } else x

/-- every element of a CA_SUBVAR dimension has "value" -/
def Dim.elemsOk (x : Dim) : Prop :=
  ∃ t e els, item x.d "type" = .ok t ∧ item t "elements" = .ok e ∧ iter e = .ok els ∧
    anyR lacksValue els = .ok false

theorem promoteOne_ok (D : List Dim) (i : Nat) (x : Dim) (hx : D[i]? = some x)
    (ha : ∀ o ∈ D, o.alias = .ok (.str o.al)) (he : x.dt = .caSubvar → x.elemsOk) :
    promoteOne D i x = .ok (finalOf D x) := by
  unfold promoteOne finalOf
  by_cases hdt : x.dt = .caSubvar
  · obtain ⟨t, e, els, h1, h2, h3, h4⟩ := he hdt
    have hxa := ha x (List.mem_of_getElem? hx)
    have hscan := promoteScan_ok i x hxa D 0 ha (by
      intro k o hk hik
      simp only [Nat.zero_add] at hik
      subst hik
      rw [hx] at hk
      cases hk
      simp [hdt])
    simp only [hdt, if_true, h1, h2, h3, h4, R_bind_ok, hscan, R_pure, true_and, Bool.false_eq_true,
      if_false]
  · simp [hdt]

theorem promoteFrom_ok (D : List Dim) (ha : ∀ o ∈ D, o.alias = .ok (.str o.al))
    (he : ∀ x ∈ D, x.dt = .caSubvar → x.elemsOk) :
    ∀ (xs pre : List Dim), D = pre ++ xs → promoteFrom D pre.length xs = .ok (xs.map (finalOf D)) := by
  intro xs
  induction xs with
  | nil => intro pre _; rfl
  | cons x xs ih =>
    intro pre hD
    have hx : D[pre.length]? = some x := by simp [hD]
    have hmem : x ∈ D := List.mem_of_getElem? hx
    have := ih (pre ++ [x]) (by simp [hD])
    simp only [List.length_append, List.length_cons, List.length_nil, Nat.zero_add] at this
    unfold promoteFrom
    simp [promoteOne_ok D pre.length x hx ha (he x hmem), this]

theorem fromDicts_ok (dicts : List J) (D : List Dim) (hD : mapR mkDim dicts = .ok D)
    (ha : ∀ o ∈ D, o.alias = .ok (.str o.al)) (he : ∀ x ∈ D, x.dt = .caSubvar → x.elemsOk) :
    fromDicts dicts = .ok (D.map (finalOf D)) := by
  unfold fromDicts
  simp only [hD, R_bind_ok]
  exact promoteFrom_ok D ha he D [] rfl


/-! ### step 2 on a rendered design -/

theorem alias_preDims (v : RVar) (h : v.WFP) (o : Dim) (ho : o ∈ v.preDims) :
    o.alias = .ok (.str v.alias) := by
  unfold RVar.preDims RVar.dims RVar.preTypes RVar.types at ho
  cases hkind : v.kind <;> simp only [hkind, List.zipWith_cons_cons, List.zipWith_nil_right,
    List.mem_cons, List.not_mem_nil, or_false] at ho
  · subst ho; exact alias_catDim v _ _ rfl (by decide)
  · subst ho; exact alias_catDim v _ _ rfl (by decide)
  · subst ho; exact alias_catDim v _ _ rfl (by decide)
  · subst ho
    simp [Dim.alias, shimCheck_elemsDim v h .datetime rfl, item_enumDim_references, get_references_alias]
  · subst ho
    simp [Dim.alias, shimCheck_elemsDim v h .text rfl, item_enumDim_references, get_references_alias]
  · subst ho
    simp [Dim.alias, shimCheck_elemsDim v h .binnedNumeric rfl, item_enumDim_references, get_references_alias]
  · rcases ho with ho | ho <;> subst ho
    · exact alias_itemsDim v h _ rfl
    · exact alias_catDim v _ _ rfl (by decide)
  · cases ht : v.transposed <;> simp only [ht, Bool.false_eq_true, if_false, if_true,
      List.zipWith_cons_cons, List.zipWith_nil_right, List.mem_cons, List.not_mem_nil, or_false] at ho
    · rcases ho with ho | ho <;> subst ho
      · exact alias_itemsDim v h _ rfl
      · exact alias_catDim v _ _ rfl (by decide)
    · rcases ho with ho | ho <;> subst ho
      · exact alias_catDim v _ _ rfl (by decide)
      · exact alias_itemsDim v h _ rfl

theorem al_preDims (v : RVar) (h : v.WFP) (o : Dim) (ho : o ∈ v.preDims) : o.al = v.alias := by
  simp [Dim.al, alias_preDims v h o ho]

theorem elemsOk_itemsDim (v : RVar) (h : v.WFP) (dt : DT) :
    (Dim.mk (v.enumDim (v.items.map renderItem)) dt).elemsOk := by
  refine ⟨_, _, _, item_enumDim_type v _, item_enumType_elements v _, rfl, ?_⟩
  have : anyR lacksValue (v.items.map renderItem) = .ok (v.items.any (fun _ => false)) := by
    apply anyR_map_ok
    intro it hit
    simp [lacksValue, hasKey_value_renderItem it (h.items it hit)]
  rw [this]
  congr 1
  induction v.items with
  | nil => rfl
  | cons a as ih => simp [ih]

theorem elemsOk_preDims (v : RVar) (h : v.WFP) (o : Dim) (ho : o ∈ v.preDims) (hdt : o.dt = .caSubvar) :
    o.elemsOk := by
  unfold RVar.preDims RVar.dims RVar.preTypes RVar.types at ho
  cases hkind : v.kind <;> simp only [hkind, List.zipWith_cons_cons, List.zipWith_nil_right,
    List.mem_cons, List.not_mem_nil, or_false] at ho
  · subst ho; simp at hdt
  · subst ho; simp at hdt
  · subst ho; simp at hdt
  · subst ho; simp at hdt
  · subst ho; simp at hdt
  · subst ho; simp at hdt
  · rcases ho with ho | ho <;> subst ho
    · exact elemsOk_itemsDim v h _
    · simp at hdt
  · cases ht : v.transposed <;> simp only [ht, Bool.false_eq_true, if_false, if_true,
      List.zipWith_cons_cons, List.zipWith_nil_right, List.mem_cons, List.not_mem_nil, or_false] at ho
    · rcases ho with ho | ho <;> subst ho
      · exact elemsOk_itemsDim v h _
      · simp at hdt
    · rcases ho with ho | ho <;> subst ho
      · simp at hdt
      · exact elemsOk_itemsDim v h _

/-- MR_CAT occurs among the dimensions of a variable exactly for multiple response -/
theorem mrCat_mem_preDims (v : RVar) : (∃ o ∈ v.preDims, o.dt = .mrCat) ↔ v.kind = .mr := by
  unfold RVar.preDims RVar.dims RVar.preTypes RVar.types
  cases hkind : v.kind <;> simp
  cases v.transposed <;> simp

theorem any_mrCat (vars : List RVar) (hw : ∀ v ∈ vars, v.WFP) (hn : (vars.map (·.alias)).Nodup)
    (v : RVar) (hv : v ∈ vars) :
    (vars.flatMap RVar.preDims).any (fun o => o.al == v.alias && o.dt == .mrCat) = (v.kind == .mr) := by
  rw [Bool.eq_iff_iff]
  simp only [List.any_eq_true, List.mem_flatMap, Bool.and_eq_true, beq_iff_eq]
  constructor
  · rintro ⟨o, ⟨w, hw', ho⟩, hal, hdt⟩
    have : w = v := by
      apply nodup_map_inj hn hw' hv
      rw [← al_preDims w (hw w hw') o ho, hal]
    subst this
    exact (mrCat_mem_preDims w).mp ⟨o, ho, hdt⟩
  · intro hk
    obtain ⟨o, ho, hdt⟩ := (mrCat_mem_preDims v).mpr hk
    exact ⟨o, ⟨v, hv, ho⟩, al_preDims v (hw v hv) o ho, hdt⟩

theorem finalOf_preDims (vars : List RVar) (hw : ∀ v ∈ vars, v.WFP) (hn : (vars.map (·.alias)).Nodup)
    (v : RVar) (hv : v ∈ vars) :
    v.preDims.map (finalOf (vars.flatMap RVar.preDims)) = v.finalDims := by
  have hany := any_mrCat vars hw hn v hv
  have hal := al_preDims v (hw v hv)
  have key : ∀ o ∈ v.preDims, finalOf (vars.flatMap RVar.preDims) o
      = if o.dt = .caSubvar ∧ v.kind = .mr then { o with dt := .mrSubvar } else o := by
    intro o ho
    unfold finalOf
    rw [hal o ho, hany]
    simp
  rw [List.map_congr_left key]
  unfold RVar.preDims RVar.finalDims RVar.dims RVar.preTypes RVar.types
  cases hkind : v.kind <;> simp


theorem flatMap_congr' {α β : Type} {l : List α} {f g : α → List β} (h : ∀ x ∈ l, f x = g x) :
    l.flatMap f = l.flatMap g := by
  induction l with
  | nil => rfl
  | cons a as ih =>
    simp only [List.flatMap_cons, h a List.mem_cons_self,
      ih (fun x hx => h x (List.mem_cons_of_mem _ hx))]

theorem wfDesign_unpack {vars : List RVar} (h : wfDesignB vars = true) :
    (∀ v ∈ vars, v.WFP) ∧ (vars.map (·.alias)).Nodup := by
  simp only [wfDesignB, Bool.and_eq_true, List.all_eq_true, decide_eq_true_eq] at h
  exact ⟨fun v hv => RVar.wf_wfp (h.1 v hv), h.2⟩

/-- **`Dimensions.from_dicts` on a rendered design** gives every dimension its specified type -/
theorem fromDicts_render (vars : List RVar) (h : wfDesignB vars = true) :
    fromDicts (renderDims vars) = .ok (vars.flatMap RVar.finalDims) := by
  obtain ⟨hw, hn⟩ := wfDesign_unpack h
  have hD : mapR mkDim (renderDims vars) = .ok (vars.flatMap RVar.preDims) :=
    mapR_flatMap_ok (fun v hv => preDims_var v (hw v hv))
  rw [fromDicts_ok _ _ hD]
  · congr 1
    rw [List.map_flatMap]
    exact flatMap_congr' (fun v hv => finalOf_preDims vars hw hn v hv)
  · intro o ho
    obtain ⟨v, hv, hov⟩ := List.mem_flatMap.mp ho
    exact Dim.alias_al (alias_preDims v (hw v hv) o hov)
  · intro x hx hdt
    obtain ⟨v, hv, hxv⟩ := List.mem_flatMap.mp hx
    exact elemsOk_preDims v (hw v hv) x hxv hdt

/-! ### step 3: missing flags -/

/-- (type, missing flags in payload order) of every dimension of a variable -/
def RVar.typed (v : RVar) : List (DT × List Bool) :=
  match v.kind with
  | .cat => [(.cat, v.catFlags)]
  | .catDate => [(.catDate, v.catFlags)]
  | .logical => [(.logical, v.catFlags)]
  | .datetime => [(.datetime, v.elemFlags)]
  | .text => [(.text, v.elemFlags)]
  | .binned => [(.binnedNumeric, v.elemFlags)]
  | .mr => [(.mrSubvar, v.itemFlags), (.mrCat, v.catFlags)]
  | .ca => if v.transposed then [(.caCat, v.catFlags), (.caSubvar, v.itemFlags)]
           else [(.caSubvar, v.itemFlags), (.caCat, v.catFlags)]

theorem typedOf_catDim (v : RVar) (h : v.WFP) (te : List (String × J))
    (hte : lacks te ["class", "categories", "elements", "order", "subtype"] = true) (dt : DT)
    (h1 : dt.isArray = false) (h2 : dt ≠ .datetime) :
    typedOf ⟨v.catDim te, dt⟩ = .ok (dt, v.catFlags) := by
  simp [typedOf, missingFlags_catDim v h te hte dt h1 h2]

theorem typedOf_itemsDim (v : RVar) (h : v.WFP) (dt : DT) (hdt : dt.isArray = true) :
    typedOf ⟨v.enumDim (v.items.map renderItem), dt⟩ = .ok (dt, v.itemFlags) := by
  simp [typedOf, missingFlags_itemsDim v h dt hdt]

theorem typedOf_elemsDim (v : RVar) (h : v.WFP) (dt : DT) (h1 : dt.isArray = false)
    (hv : dt = .datetime → ∀ e ∈ v.elems, (isDict e.value || hashable e.value) = true) :
    typedOf ⟨v.enumDim (v.elems.map renderElem), dt⟩ = .ok (dt, v.elemFlags) := by
  simp [typedOf, missingFlags_elemsDim v h dt h1 hv]

theorem typed_var (v : RVar) (h : v.WFP) : mapR typedOf v.finalDims = .ok v.typed := by
  have hk := h.kind
  unfold RVar.finalDims RVar.dims RVar.types RVar.typed
  cases hkind : v.kind <;> simp only [hkind] at hk ⊢
  · simp [mapR, typedOf_catDim v h _ h.typeE .cat rfl (by decide)]
  · simp [mapR, typedOf_catDim v h _ h.typeE .catDate rfl (by decide)]
  · simp [mapR, typedOf_catDim v h _ h.typeE .logical rfl (by decide)]
  · have hv : DT.datetime = .datetime → ∀ e ∈ v.elems, (isDict e.value || hashable e.value) = true := by
      intro _ e he
      simp only [Bool.and_eq_true, List.all_eq_true] at hk
      exact hk.2 e he
    simp [mapR, typedOf_elemsDim v h .datetime rfl hv]
  · simp [mapR, typedOf_elemsDim v h .text rfl (by simp)]
  · simp [mapR, typedOf_elemsDim v h .binnedNumeric rfl (by simp)]
  · simp [mapR, typedOf_itemsDim v h .mrSubvar rfl, typedOf_catDim v h _ h.catTypeE .mrCat rfl (by decide)]
  · cases v.transposed <;>
      simp [mapR, typedOf_itemsDim v h .caSubvar rfl, typedOf_catDim v h _ h.catTypeE .caCat rfl (by decide)]

/-! ### step 4: grouping -/

theorem groupVars_catlike (dt : DT) (m : List Bool) (rest : List (DT × List Bool))
    (h : dt.isCatLike = true) :
    groupVars ((dt, m) :: rest)
      = (groupVars rest).map (⟨⟨.cat, m.length, m, false⟩, false, [], 0⟩ :: ·) := by
  cases rest with
  | nil => simp [groupVars, h]
  | cons p ps =>
    obtain ⟨dt2, m2⟩ := p
    cases dt <;> simp [DT.isCatLike] at h <;> simp [groupVars, DT.isCatLike]

theorem groupVars_mr (m m2 : List Bool) (rest : List (DT × List Bool)) :
    groupVars ((.mrSubvar, m) :: (.mrCat, m2) :: rest)
      = (groupVars rest).map (⟨⟨.arr, (validIdxs m).length, m2, true⟩, false, validIdxs m, m.length⟩ :: ·) := by
  simp [groupVars]

theorem groupVars_ca (m m2 : List Bool) (rest : List (DT × List Bool)) :
    groupVars ((.caSubvar, m) :: (.caCat, m2) :: rest)
      = (groupVars rest).map (⟨⟨.arr, (validIdxs m).length, m2, false⟩, false, validIdxs m, m.length⟩ :: ·) := by
  simp [groupVars]

theorem groupVars_caT (m m2 : List Bool) (rest : List (DT × List Bool)) :
    groupVars ((.caCat, m) :: (.caSubvar, m2) :: rest)
      = (groupVars rest).map (⟨⟨.arr, (validIdxs m2).length, m, false⟩, true, validIdxs m2, m2.length⟩ :: ·) := by
  simp [groupVars]

theorem groupVars_var (v : RVar) (rest : List (DT × List Bool)) :
    groupVars (v.typed ++ rest) = (groupVars rest).map (v.toTVar :: ·) := by
  unfold RVar.typed RVar.toTVar
  cases hkind : v.kind
  · simp only [List.cons_append, List.nil_append]; rw [groupVars_catlike _ _ _ rfl]; simp [RVar.catFlags]
  · simp only [List.cons_append, List.nil_append]; rw [groupVars_catlike _ _ _ rfl]; simp [RVar.catFlags]
  · simp only [List.cons_append, List.nil_append]; rw [groupVars_catlike _ _ _ rfl]; simp [RVar.catFlags]
  · simp only [List.cons_append, List.nil_append]; rw [groupVars_catlike _ _ _ rfl]; simp [RVar.elemFlags]
  · simp only [List.cons_append, List.nil_append]; rw [groupVars_catlike _ _ _ rfl]; simp [RVar.elemFlags]
  · simp only [List.cons_append, List.nil_append]; rw [groupVars_catlike _ _ _ rfl]; simp [RVar.elemFlags]
  · simp [groupVars_mr, RVar.itemFlags]
  · cases v.transposed <;> simp [groupVars_ca, groupVars_caT, RVar.itemFlags]

theorem groupVars_typed (vars : List RVar) :
    groupVars (vars.flatMap RVar.typed) = some (designOf vars) := by
  induction vars with
  | nil => rfl
  | cons v vs ih =>
    simp only [List.flatMap_cons, groupVars_var, ih, designOf, List.map_cons, Option.map_some]

end CrCube.Glue
