/-
  Bridges between the respondent-level counts of C01 / C02 (`specCount`) and the cell
  description of C11 / C12 / C16 (`SliceDesign.isPos / isNeg / inBase`) for BASE cells of a 2-D
  cube, so that the C11 / C12 theorems apply to what the pipeline displays.
-/
import CrCube.Lemmas.Uncond
import CrCube.Lemmas.CellSpecLemmas
import CrCube.Spec.VariancePrims

set_option linter.unusedSimpArgs false
set_option linter.unusedVariables false

namespace CrCube

section
variable (R C : Var) (hR : R.CM) (hC : C.CM) (s : Survey) (hf : SurveyFits [R, C] s)
include hR hC hf

theorem specCount_isPos_base (i j : Nat) :
    specCount [R, C] s [i, j] [false, false]
      = wsum s ((⟨none, R, C⟩ : SliceDesign).isPos (.base i) (.base j)) := by
  rw [specCount_two R C hR hC]
  apply wsum_congr
  intro r hr
  obtain ⟨aR, aC, hra, _, _⟩ := fits_two R C r.ans (hf r hr)
  simp [hra, SliceDesign.isPos, SliceDesign.inTable, SliceDesign.inRowAdd, SliceDesign.inColAdd,
    SliceDesign.rowAns, SliceDesign.colAns, Side.base, Var.inAny, Var.inElem]

theorem specCount_inBase_row (i j : Nat) :
    specCount [R, C] s [i, j] [false, true]
      = wsum s ((⟨none, R, C⟩ : SliceDesign).inBase .row (.base i) (.base j)) := by
  rw [specCount_two R C hR hC]
  apply wsum_congr
  intro r hr
  obtain ⟨aR, aC, hra, _, _⟩ := fits_two R C r.ans (hf r hr)
  simp [hra, SliceDesign.inBase, SliceDesign.inTable, SliceDesign.inRowAdd, SliceDesign.colElig,
    SliceDesign.rowAns, SliceDesign.colAns, Side.base, Var.inAny, Var.inElem, Side.eligible,
    Var.eligibleFor]

theorem specCount_inBase_col (i j : Nat) :
    specCount [R, C] s [i, j] [true, false]
      = wsum s ((⟨none, R, C⟩ : SliceDesign).inBase .col (.base i) (.base j)) := by
  rw [specCount_two R C hR hC]
  apply wsum_congr
  intro r hr
  obtain ⟨aR, aC, hra, _, _⟩ := fits_two R C r.ans (hf r hr)
  simp [hra, SliceDesign.inBase, SliceDesign.inTable, SliceDesign.rowElig, SliceDesign.inColAdd,
    SliceDesign.rowAns, SliceDesign.colAns, Side.base, Var.inAny, Var.inElem, Side.eligible,
    Var.eligibleFor]

theorem specCount_inBase_table (i j : Nat) :
    specCount [R, C] s [i, j] [true, true]
      = wsum s ((⟨none, R, C⟩ : SliceDesign).inBase .table (.base i) (.base j)) := by
  rw [specCount_two R C hR hC]
  apply wsum_congr
  intro r hr
  obtain ⟨aR, aC, hra, _, _⟩ := fits_two R C r.ans (hf r hr)
  simp [hra, SliceDesign.inBase, SliceDesign.inTable, SliceDesign.rowElig, SliceDesign.colElig,
    SliceDesign.rowAns, SliceDesign.colAns, Side.base, Var.inAny, Var.inElem, Side.eligible,
    Var.eligibleFor]

end

/-- a base cell has no subtrahends -/
theorem isNeg_base_zero (d : SliceDesign) (s : Survey) (i j : Nat) :
    wsum s (d.isNeg (.base i) (.base j)) = 0 := by
  rw [← wsum_false s]
  apply wsum_congr
  intro r _
  simp [SliceDesign.isNeg, SliceDesign.inRowSub, SliceDesign.inColSub, Side.base, Var.inAny]

/-- for a base cell the C11 cell model reads only (np, nn, base) -/
theorem VarCell.variance_base (c : VarCell) (i j : Nat) (hR : c.R = Side.base i) (hC : c.C = Side.base j) :
    c.variance = varianceOf ((c.np - c.nn) / c.base) c.base c.np c.nn := by
  have h1 : c.R.isDiff = false := by rw [hR]; rfl
  have h2 : c.C.isDiff = false := by rw [hC]; rfl
  have h3 : c.R.inserted = false := by rw [hR]; rfl
  have h4 : c.C.inserted = false := by rw [hC]; rfl
  have ht : c.total = c.base := by
    unfold VarCell.total
    cases c.dir <;> simp [h1, h2]
  have hp : c.proportion = (c.np - c.nn) / c.base := by
    unfold VarCell.proportion
    simp only [VarCell.count, VarCell.bothDiff, h1, h2, h3, h4, ht, Bool.and_self, Bool.false_eq_true,
      if_false, Bool.not_false, Bool.and_true, Bool.false_and]
    cases c.dir <;> rfl
  unfold VarCell.variance
  rw [hp, ht]
  simp [VarCell.posCount, VarCell.negCount, VarCell.bothDiff, h1, h2]

end CrCube
