/-
  MR × ARR, ARR × ARR and the straddled categorical-array layouts: from the extractor classes on the
  re-arranged payload down to raw cells of the tabulation, and from there to respondents.
  Helpers of Props/C01_ArrPairs.lean and Props/C02_ArrPairs.lean.
-/
import CrCube.Lemmas.SliceArr
import CrCube.Model.SliceArrPairs
import CrCube.Spec.ArrPairsSpec

set_option linter.unusedSimpArgs false
set_option linter.unusedSectionVars false
set_option linter.unusedVariables false

namespace CrCube

/-! ### S1: categories(A) × X × items(A); partition k = valid category k; rows = X, columns = items -/

section s1
variable (A X : Var) (hX : X.CM) (raw : FT)
include hX

theorem sliceS1_counts (k i j : Nat) :
    (sliceCountsS1 A X (raw.straddle1 X.rank) k).counts i j = raw.get (A.cellSub j k ++ X.msub i) := by
  rcases hX with hX | ⟨hX, hmX, _⟩ <;>
  simp [sliceCountsS1, sliceCountsOf, kindsS1, Var.dks, hX, *, Var.rank,
    MatCounts.factory, MatCounts.catXarr, MatCounts.mrXarr, sliceExpr, FT.take, FT.straddle1,
    FT.slice0, Var.validAxes, List.getD, FT.dim, Var.msub, Var.cellSub]

theorem sliceS1_columnBases (k i j : Nat) :
    (sliceCountsS1 A X (raw.straddle1 X.rank) k).columnBases i j
      = vsum X.np (fun u => raw.get (A.cellSub j k ++ X.sub i u)) := by
  rcases hX with hX | ⟨hX, hmX, _⟩ <;>
  simp [sliceCountsS1, sliceCountsOf, kindsS1, Var.dks, hX, *, Var.rank,
    MatCounts.factory, MatCounts.catXarr, MatCounts.mrXarr, sliceExpr, FT.take, FT.straddle1,
    FT.slice0, Var.validAxes, List.getD, FT.dim, Var.sub, Var.cellSub, Var.np]

theorem sliceS1_rowBases (k i j : Nat) (rawS : FT) :
    (sliceCountsS1 A X rawS k).rowBases i j = (sliceCountsS1 A X rawS k).counts i j := by
  rcases hX with hX | ⟨hX, hmX, _⟩ <;>
  simp [sliceCountsS1, sliceCountsOf, kindsS1, Var.dks, hX, *, MatCounts.factory,
    MatCounts.catXarr, MatCounts.mrXarr]

theorem sliceS1_tableBases (k i j : Nat) (rawS : FT) :
    (sliceCountsS1 A X rawS k).tableBases i j = (sliceCountsS1 A X rawS k).columnBases i j := by
  rcases hX with hX | ⟨hX, hmX, _⟩ <;>
  simp [sliceCountsS1, sliceCountsOf, kindsS1, Var.dks, hX, *, MatCounts.factory,
    MatCounts.catXarr, MatCounts.mrXarr]

theorem sliceS1_shape (k : Nat) (rawS : FT) :
    (sliceCountsS1 A X rawS k).nrows = X.ext ∧ (sliceCountsS1 A X rawS k).ncols = A.n := by
  rcases hX with hX | ⟨hX, hmX, _⟩ <;> constructor <;>
  simp [sliceCountsS1, sliceCountsOf, kindsS1, Var.dks, hX, *,
    MatCounts.factory, MatCounts.catXarr, MatCounts.mrXarr, sliceExpr, FT.take,
    FT.slice0, Var.validAxes, List.getD, FT.dim, Var.ext]

theorem nPartitionsS1_eq : nPartitionsS1 A X = A.np := by
  rcases hX with hX | ⟨hX, hmX, _⟩ <;>
  simp [nPartitionsS1, kindsS1, Var.dks, hX, *, Var.np]

end s1

/-! ### S2: items(A) × X × categories(A); partition k = item k; rows = X, columns = valid categories -/

section s2
variable (A X : Var) (hX : X.CM) (raw : FT)
include hX

theorem sliceS2_counts (k i j : Nat) :
    (sliceCountsS2 A X (raw.straddle2 X.rank) k).counts i j = raw.get (A.cellSub k j ++ X.msub i) := by
  rcases hX with hX | ⟨hX, hmX, _⟩ <;>
  simp [sliceCountsS2, sliceCountsOf, kindsS2, Var.dks, hX, *, Var.rank,
    MatCounts.factory, MatCounts.catXcat, MatCounts.mrXcat, sliceExpr, FT.take, FT.straddle2,
    FT.slice0, Var.validAxes, List.getD, FT.dim, Var.msub, Var.cellSub]

theorem sliceS2_columnBases (k i j : Nat) :
    (sliceCountsS2 A X (raw.straddle2 X.rank) k).columnBases i j
      = vsum X.np (fun u => raw.get (A.cellSub k j ++ X.sub i u)) := by
  rcases hX with hX | ⟨hX, hmX, _⟩ <;>
  simp [sliceCountsS2, sliceCountsOf, kindsS2, Var.dks, hX, *, Var.rank,
    MatCounts.factory, MatCounts.catXcat, MatCounts.mrXcat, sliceExpr, FT.take, FT.straddle2,
    FT.slice0, Var.validAxes, List.getD, FT.dim, Var.sub, Var.cellSub, Var.np]

theorem sliceS2_rowBases (k i j : Nat) :
    (sliceCountsS2 A X (raw.straddle2 X.rank) k).rowBases i j
      = vsum A.np (fun u => raw.get (A.cellSub k u ++ X.msub i)) := by
  rcases hX with hX | ⟨hX, hmX, _⟩ <;>
  simp [sliceCountsS2, sliceCountsOf, kindsS2, Var.dks, hX, *, Var.rank,
    MatCounts.factory, MatCounts.catXcat, MatCounts.mrXcat, sliceExpr, FT.take, FT.straddle2,
    FT.slice0, Var.validAxes, List.getD, FT.dim, Var.msub, Var.cellSub, Var.np]

theorem sliceS2_tableBases (k i j : Nat) :
    (sliceCountsS2 A X (raw.straddle2 X.rank) k).tableBases i j
      = vsum X.np (fun t => vsum A.np (fun u => raw.get (A.cellSub k u ++ X.sub i t))) := by
  rcases hX with hX | ⟨hX, hmX, _⟩ <;>
  simp [sliceCountsS2, sliceCountsOf, kindsS2, Var.dks, hX, *, Var.rank,
    MatCounts.factory, MatCounts.catXcat, MatCounts.mrXcat, sliceExpr, FT.take, FT.straddle2,
    FT.slice0, Var.validAxes, List.getD, FT.dim, Var.sub, Var.cellSub, Var.np]

theorem sliceS2_shape (k : Nat) (rawS : FT) :
    (sliceCountsS2 A X rawS k).nrows = X.ext ∧ (sliceCountsS2 A X rawS k).ncols = A.np := by
  rcases hX with hX | ⟨hX, hmX, _⟩ <;> constructor <;>
  simp [sliceCountsS2, sliceCountsOf, kindsS2, Var.dks, hX, *,
    MatCounts.factory, MatCounts.catXcat, MatCounts.mrXcat, sliceExpr, FT.take,
    FT.slice0, Var.validAxes, List.getD, FT.dim, Var.ext, Var.np]

theorem nPartitionsS2_eq : nPartitionsS2 A X = A.n := by
  rcases hX with hX | ⟨hX, hmX, _⟩ <;>
  simp [nPartitionsS2, kindsS2, Var.dks, hX, *]

end s2

/-! ### respondents behind the raw sums that S2 needs (S1 re-uses `rawT2_counts/rowBases`) -/

section s2s
variable (A X : Var) (hA : A.IsCA) (hX : X.CM) (s : Survey)
include hA hX

/-- Σ over the valid categories of item k, X-member fixed -/
theorem rawS2_rowBases (k i j : Nat) (hk : k < A.n) (hi : i < X.ext) (m0 : Bool) :
    vsum A.np (fun u => (cubeOf [A, X] s).get (A.cellSub k u ++ X.msub i))
      = .fin (specCount [A, X] s [k, j, i] [m0, true, false]) := by
  simp only [cubeOf_get_pair A X s _ _
    (show (A.cellSub k _).length = A.rank by simp [Var.cellSub, Var.rank, hA.1]) (X.msub_length i),
    specCount_ca_cm A X hA hX]
  apply vsum_wsum
  · intro r _ t t' ht ht' h1 h2
    match hra : r.ans with
    | [aA, aX] =>
      rw [hra] at h1 h2
      simp only [Bool.and_eq_true] at h1 h2
      exact mr_mem_disj A hA.1 aA _ t t' ht ht' h1.1 h2.1
    | [] => simp [hra] at h1
    | [_] => simp [hra] at h1
    | _ :: _ :: _ :: _ => simp [hra] at h1
  · intro r _
    match r.ans with
    | [aA, aX] =>
      simp only [any_and_right, ca_mem_valid A hA aA k j hk, hX.mem_member aX i hi]
    | [] => simp
    | [_] => simp
    | _ :: _ :: _ :: _ => simp

/-- Σ over the valid categories of item k and over the eligibility planes of X -/
theorem rawS2_tableBases (k i j : Nat) (hk : k < A.n) (hi : i < X.ext) (m0 : Bool) :
    vsum X.np (fun t => vsum A.np (fun u => (cubeOf [A, X] s).get (A.cellSub k u ++ X.sub i t)))
      = .fin (specCount [A, X] s [k, j, i] [m0, true, true]) := by
  simp only [cubeOf_get_pair A X s _ _
    (show (A.cellSub k _).length = A.rank by simp [Var.cellSub, Var.rank, hA.1]) (X.sub_length i _),
    specCount_ca_cm A X hA hX]
  apply vsum2_wsum
  · intro r _ t u t' u' ht hu ht' hu' h1 h2
    match hra : r.ans with
    | [aA, aX] =>
      rw [hra] at h1 h2
      simp only [Bool.and_eq_true] at h1 h2
      exact ⟨hX.mem_disj aX i t t' ht ht' h1.2 h2.2, mr_mem_disj A hA.1 aA _ u u' hu hu' h1.1 h2.1⟩
    | [] => simp [hra] at h1
    | [_] => simp [hra] at h1
    | _ :: _ :: _ :: _ => simp [hra] at h1
  · intro r _
    match r.ans with
    | [aA, aX] =>
      simp only [any_and_right, any_and_left, ca_mem_valid A hA aA k j hk, hX.mem_valid aX i hi]
    | [] => simp
    | [_] => simp
    | _ :: _ :: _ :: _ => simp

end s2s

/-! ### F: fused ("scorecard") layout; rows = elements of M, columns = the q variables -/

section fused
variable (M : Var) (hM : M.CM) (q : Nat) (raw : FT)
include hM

theorem sliceF_counts (i j : Nat) (hj : j < q) :
    (sliceCountsFused M q raw).counts i j = raw.get (M.msub i ++ [j]) := by
  rcases hM with hM | ⟨hM, hmM, _⟩ <;>
  simp [sliceCountsFused, sliceCountsOf, Var.dks, hM, *, MatCounts.factory, MatCounts.catXarr,
    MatCounts.mrXarr, sliceExpr, FT.take, Var.validAxes, List.getD, FT.dim, Var.msub,
    List.getElem?_range hj]

theorem sliceF_columnBases (i j : Nat) (hj : j < q) :
    (sliceCountsFused M q raw).columnBases i j = vsum M.np (fun u => raw.get (M.sub i u ++ [j])) := by
  rcases hM with hM | ⟨hM, hmM, _⟩ <;>
  simp [sliceCountsFused, sliceCountsOf, Var.dks, hM, *, MatCounts.factory, MatCounts.catXarr,
    MatCounts.mrXarr, sliceExpr, FT.take, Var.validAxes, List.getD, FT.dim, Var.sub, Var.np,
    List.getElem?_range hj]

theorem sliceF_rowBases (i j : Nat) :
    (sliceCountsFused M q raw).rowBases i j = (sliceCountsFused M q raw).counts i j := by
  rcases hM with hM | ⟨hM, hmM, _⟩ <;>
  simp [sliceCountsFused, sliceCountsOf, Var.dks, hM, *, MatCounts.factory, MatCounts.catXarr,
    MatCounts.mrXarr]

theorem sliceF_tableBases (i j : Nat) :
    (sliceCountsFused M q raw).tableBases i j = (sliceCountsFused M q raw).columnBases i j := by
  rcases hM with hM | ⟨hM, hmM, _⟩ <;>
  simp [sliceCountsFused, sliceCountsOf, Var.dks, hM, *, MatCounts.factory, MatCounts.catXarr,
    MatCounts.mrXarr]

theorem sliceF_shape :
    (sliceCountsFused M q raw).nrows = M.ext ∧ (sliceCountsFused M q raw).ncols = q := by
  rcases hM with hM | ⟨hM, hmM, _⟩ <;> constructor <;>
  simp [sliceCountsFused, sliceCountsOf, Var.dks, hM, *, MatCounts.factory, MatCounts.catXarr,
    MatCounts.mrXarr, sliceExpr, FT.take, Var.validAxes, List.getD, FT.dim, Var.ext]

end fused

theorem cubeOfFused_get (M : Var) (q : Nat) (s : Survey) (x : List Nat) (j : Nat)
    (hx : x.length = M.rank) :
    (cubeOfFused M q s).get (x ++ [j])
      = .fin (wsum s fun r => match r.ans[j]? with | some a => M.mem a x | none => false) := by
  simp only [cubeOfFused]
  have h1 : (x ++ [j]).getD M.rank 0 = j := by
    rw [← hx]; simp [List.getD]
  have h2 : (x ++ [j]).take M.rank = x := by
    rw [← hx]; simp
  simp only [h1, h2]
  rfl

section fuseds
variable (M : Var) (hM : M.CM) (q : Nat) (s : Survey)
include hM

theorem rawF_counts (i j : Nat) (hi : i < M.ext) :
    (cubeOfFused M q s).get (M.msub i ++ [j]) = .fin (fusedCount M s i j false) := by
  rw [cubeOfFused_get M q s _ j (M.msub_length i)]
  unfold fusedCount fusedMem
  congr 1
  apply wsum_congr
  intro r _
  cases r.ans[j]? with
  | none => rfl
  | some a => exact hM.mem_member a i hi

theorem rawF_columnBases (i j : Nat) (hi : i < M.ext) :
    vsum M.np (fun u => (cubeOfFused M q s).get (M.sub i u ++ [j])) = .fin (fusedCount M s i j true) := by
  simp only [cubeOfFused_get M q s _ j (M.sub_length i _)]
  unfold fusedCount fusedMem
  apply vsum_wsum
  · intro r _ t t' ht ht' h1 h2
    cases hra : r.ans[j]? with
    | none => simp [hra] at h1
    | some a =>
      rw [hra] at h1 h2
      exact hM.mem_disj a i t t' ht ht' h1 h2
  · intro r _
    cases r.ans[j]? with
    | none => simp
    | some a => exact hM.mem_valid a i hi

end fuseds

/-! ### AA: two array-items axes -/

theorem sliceAA_all (rv cv : List Nat) (raw : FT) (i j : Nat) :
    let m := sliceCountsAA rv cv raw
    m.counts i j = raw.get [rv.getD i 0, cv.getD j 0] ∧
    m.rowBases i j = m.counts i j ∧ m.columnBases i j = m.counts i j ∧
    m.tableBases i j = m.counts i j ∧ m.nrows = rv.length ∧ m.ncols = cv.length ∧
    m.rowsBase = none ∧ m.columnsBase = none ∧ m.rowsTableBase = none ∧
    m.columnsTableBase = none ∧ m.tableBase = none := by
  simp [sliceCountsAA, sliceCountsOf, MatCounts.factory, MatCounts.arrXarr, sliceExpr, FT.take,
    List.getD, FT.dim]

/-! ### the layout table: no payload layout of the contract ends in two array-items axes -/

theorem lastTwo_append_two (p : List DK) (r c : DK) : lastTwo (p ++ [r, c]) = some (r, c) := by
  simp [lastTwo]

theorem lastTwo_append_one_ne (p : List DK) (c : DK) (hc : c ≠ .arr) (x : DK) :
    lastTwo (p ++ [c]) ≠ some (x, .arr) := by
  unfold lastTwo
  rw [List.reverse_append]
  simp only [List.reverse_cons, List.reverse_nil, List.nil_append, List.singleton_append]
  cases p.reverse with
  | nil => simp
  | cons r rest => simp; intro _ h; exact hc h

end CrCube
