/-
  The merged table of a 3-D cube (CAT × MR: rows on axis 0; MR × CAT: columns on axis 2).
-/
import CrCube.Lemmas.MergeFacts

namespace CrCube
open SubSpec

variable (c : FT) (n0 n1 n2 : Nat) (A : List Nat)

theorem dims_of_shape3 (hc : c.shape = [n0, n1, n2]) : c.dim 0 = n0 ∧ c.dim 1 = n1 ∧ c.dim 2 = n2 := by
  simp [FT.dim, hc]

theorem mergeAxis0_shape3 (hc : c.shape = [n0, n1, n2]) :
    (mergeAxis c 0 A).shape = [(keepIdxs n0 A).length + 1, n1, n2] := by
  simp [mergeAxis, hc, FT.dim]

theorem mergeAxis2_shape3 (hc : c.shape = [n0, n1, n2]) :
    (mergeAxis c 2 A).shape = [n0, n1, (keepIdxs n2 A).length + 1] := by
  simp [mergeAxis, hc, FT.dim]

theorem mergeAxis0_get3 (hc : c.shape = [n0, n1, n2]) (i j s : Nat) :
    (mergeAxis c 0 A).get [i, j, s]
      = if i < (keepIdxs n0 A).length then c.get [(keepIdxs n0 A).getD i 0, j, s]
        else sumAt A (fun a => c.get [a, j, s]) := by
  simp [mergeAxis, hc, FT.dim]

theorem mergeAxis2_get3 (hc : c.shape = [n0, n1, n2]) (i s j : Nat) :
    (mergeAxis c 2 A).get [i, s, j]
      = if j < (keepIdxs n2 A).length then c.get [i, s, (keepIdxs n2 A).getD j 0]
        else sumAt A (fun a => c.get [i, s, a]) := by
  simp [mergeAxis, hc, FT.dim]

theorem mergeAxis0_get3_merged (hc : c.shape = [n0, n1, n2]) (j s : Nat) :
    (mergeAxis c 0 A).get [mergedPos n0 A, j, s] = sumAt A (fun a => c.get [a, j, s]) := by
  rw [mergeAxis0_get3 c n0 n1 n2 A hc]; simp [mergedPos]

theorem mergeAxis2_get3_merged (hc : c.shape = [n0, n1, n2]) (i s : Nat) :
    (mergeAxis c 2 A).get [i, s, mergedPos n2 A] = sumAt A (fun a => c.get [i, s, a]) := by
  rw [mergeAxis2_get3 c n0 n1 n2 A hc]; simp [mergedPos]

/-- a sum over the merged axis 0 of any per-position quantity `g (c.get [·, j, s])`-style sum -/
theorem sum_axis0_merged (hc : c.shape = [n0, n1, n2]) (hn : A.Nodup) (hlt : ∀ a ∈ A, a < n0) (j s : Nat) :
    vsum ((keepIdxs n0 A).length + 1) (fun i => (mergeAxis c 0 A).get [i, j, s])
      = vsum n0 (fun i => c.get [i, j, s]) := by
  rw [← vsum_merged n0 A hn hlt (fun i => c.get [i, j, s])]
  congr 1
  funext i
  rw [mergeAxis0_get3 c n0 n1 n2 A hc]

theorem sum_axis2_merged (hc : c.shape = [n0, n1, n2]) (hn : A.Nodup) (hlt : ∀ a ∈ A, a < n2) (i s : Nat) :
    vsum ((keepIdxs n2 A).length + 1) (fun j => (mergeAxis c 2 A).get [i, s, j])
      = vsum n2 (fun j => c.get [i, s, j]) := by
  rw [← vsum_merged n2 A hn hlt (fun j => c.get [i, s, j])]
  congr 1
  funext j
  rw [mergeAxis2_get3 c n0 n1 n2 A hc]

/-- Σ_i Σ_s over the merged axis 0 -/
theorem sum2_axis0_merged (hc : c.shape = [n0, n1, n2]) (hn : A.Nodup) (hlt : ∀ a ∈ A, a < n0) (j : Nat) :
    vsum ((keepIdxs n0 A).length + 1) (fun i => vsum n2 (fun s => (mergeAxis c 0 A).get [i, j, s]))
      = vsum n0 (fun i => vsum n2 (fun s => c.get [i, j, s])) := by
  rw [← vsum_merged n0 A hn hlt (fun i => vsum n2 (fun s => c.get [i, j, s]))]
  congr 1
  funext i
  by_cases hi : i < (keepIdxs n0 A).length
  · simp only [hi, if_true]
    congr 1; funext s
    rw [mergeAxis0_get3 c n0 n1 n2 A hc]; simp [hi]
  · simp only [hi, if_false]
    have : (fun s => (mergeAxis c 0 A).get [i, j, s]) = fun s => sumAt A (fun a => c.get [a, j, s]) := by
      funext s; rw [mergeAxis0_get3 c n0 n1 n2 A hc]; simp [hi]
    rw [this]
    simp only [vsum_eq_sumAt]
    exact sumAt_comm _ _ _

/-- Σ_s Σ_j over the merged axis 2 -/
theorem sum2_axis2_merged (hc : c.shape = [n0, n1, n2]) (hn : A.Nodup) (hlt : ∀ a ∈ A, a < n2) (i : Nat) :
    vsum n1 (fun s => vsum ((keepIdxs n2 A).length + 1) (fun j => (mergeAxis c 2 A).get [i, s, j]))
      = vsum n1 (fun s => vsum n2 (fun j => c.get [i, s, j])) := by
  congr 1
  funext s
  exact sum_axis2_merged c n0 n1 n2 A hc hn hlt i s

end CrCube
