/-
  Algebra of weighted respondent counts.
-/
import CrCube.Spec.Survey
import Mathlib.Tactic.Ring
import Mathlib.Tactic.Linarith
import Mathlib.Algebra.Order.Field.Rat

namespace CrCube

@[simp] theorem wsum_nil (p : Resp → Bool) : wsum [] p = 0 := by simp [wsum]

theorem wsum_cons (r : Resp) (s : Survey) (p : Resp → Bool) :
    wsum (r :: s) p = (if p r then r.w else 0) + wsum s p := by
  unfold wsum
  by_cases h : p r = true <;> simp [List.filter, h]

theorem wsum_congr (s : Survey) (p q : Resp → Bool) (h : ∀ r ∈ s, p r = q r) :
    wsum s p = wsum s q := by
  induction s with
  | nil => simp
  | cons r s ih =>
    rw [wsum_cons, wsum_cons, h r (by simp), ih (fun r' hr' => h r' (by simp [hr']))]

theorem wsum_nonneg (s : Survey) (p : Resp → Bool) (hw : WeightsNonneg s) : 0 ≤ wsum s p := by
  induction s with
  | nil => simp
  | cons r s ih =>
    rw [wsum_cons]
    have h1 : 0 ≤ r.w := hw r (by simp)
    have h2 := ih (fun r' hr' => hw r' (by simp [hr']))
    split <;> linarith

theorem wsum_mono (s : Survey) (p q : Resp → Bool) (hw : WeightsNonneg s)
    (hpq : ∀ r ∈ s, p r = true → q r = true) : wsum s p ≤ wsum s q := by
  induction s with
  | nil => simp
  | cons r s ih =>
    rw [wsum_cons, wsum_cons]
    have h1 : 0 ≤ r.w := hw r (by simp)
    have h2 := ih (fun r' hr' => hw r' (by simp [hr'])) (fun r' hr' => hpq r' (by simp [hr']))
    by_cases hp : p r = true
    · have hq := hpq r (by simp) hp
      simp [hp, hq]; linarith
    · by_cases hq : q r = true <;> simp [hp, hq] <;> linarith

/-- mapping respondents without changing weights -/
theorem wsum_map (s : Survey) (f : Resp → Resp) (hf : ∀ r, (f r).w = r.w) (p : Resp → Bool) :
    wsum (s.map f) p = wsum s (fun r => p (f r)) := by
  induction s with
  | nil => simp
  | cons r s ih => simp only [List.map_cons, wsum_cons, ih, hf]

theorem wsum_false (s : Survey) : wsum s (fun _ => false) = 0 := by
  induction s with
  | nil => simp
  | cons r s ih => rw [wsum_cons, ih]; simp

/-- Disjoint events add: if for every respondent at most one member of `L` satisfies `p`,
    the sum of the counts is the count of the union. -/
theorem wsum_sum_disjoint {α : Type} (s : Survey) (L : List α) (p : α → Resp → Bool)
    (hd : ∀ r ∈ s, L.Pairwise (fun a b => ¬ (p a r = true ∧ p b r = true))) :
    (L.map (fun a => wsum s (p a))).sum = wsum s (fun r => L.any (fun a => p a r)) := by
  induction L with
  | nil => simp [wsum_false]
  | cons a L ih =>
    have hd' : ∀ r ∈ s, L.Pairwise (fun a b => ¬ (p a r = true ∧ p b r = true)) :=
      fun r hr => (List.pairwise_cons.mp (hd r hr)).2
    simp only [List.map_cons, List.sum_cons, ih hd', List.any_cons]
    clear ih
    induction s with
    | nil => simp
    | cons r s ihs =>
      rw [wsum_cons, wsum_cons, wsum_cons]
      have hs := ihs (fun r' hr' => hd r' (by simp [hr'])) (fun r' hr' => hd' r' (by simp [hr']))
      have hr := (List.pairwise_cons.mp (hd r (by simp))).1
      by_cases hpa : p a r = true
      · have : (L.any fun a => p a r) = false := by
          rw [List.any_eq_false]
          intro b hb hpb
          exact hr b hb ⟨hpa, hpb⟩
        simp [hpa, this]; linarith
      · by_cases hany : (L.any fun a => p a r) = true <;> simp [hpa, hany] <;> linarith

/-- `Val.sum` of finite values is the finite sum -/
theorem Val.sum_fin (l : List Rat) : Val.sum (l.map Val.fin) = .fin l.sum := by
  unfold Val.sum
  suffices h : ∀ acc : Rat, List.foldl (· + ·) (Val.fin acc) (l.map Val.fin) = .fin (acc + l.sum) by
    simpa using h 0
  induction l with
  | nil => intro acc; simp
  | cons x l ih =>
    intro acc
    simp only [List.map_cons, List.foldl_cons, Val.add_fin, List.sum_cons]
    rw [ih]; congr 1; ring

theorem vsum_fin (n : Nat) (f : Nat → Rat) :
    vsum n (fun i => .fin (f i)) = .fin ((List.range n).map f).sum := by
  unfold vsum
  rw [← Val.sum_fin]
  simp [List.map_map, Function.comp_def]

end CrCube
