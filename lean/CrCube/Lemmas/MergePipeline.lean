/-
  Definitions and helper lemmas behind Props/C04_Pipeline.lean: property C04 ("a subtotal without
  subtrahends behaves as the category obtained by merging its addends in the data") on the
  END-TO-END pipeline model (`Model/Pipeline.lean`).

  * `RowMergedAt m m' A mp`   what the measures read of the extractor object `m'` of the recoded
                              cube at its body row `mp`: the addend rows `A` of `m` merged
  * `RowMerge c c' …`         the same for a whole `CubeData` pair (weighted, unweighted, sums)
  * `ColMergedAt`, `ColMerge` the mirrored notions for the columns dimension
  * `CubeData.mergeRows`      the recoded cube built from the raw arrays of the original
  * block-by-block lemmas `*_ins_eq` : value at (inserted row k, Q) of the original = value at
    (body row mp, Q) of the recoded cube, for every column position Q (base column, subtotal
    column, difference column)
-/
import CrCube.Model.Pipeline
import CrCube.Model.PipelineMeasures
import CrCube.Spec.SubtotalSpec
import CrCube.Lemmas.ValAlgebra
import CrCube.Lemmas.SubtotalFacts
import CrCube.Lemmas.MergeFacts
import CrCube.Lemmas.MergePrims
import CrCube.Lemmas.MergeFacts3

set_option linter.unusedSimpArgs false
set_option linter.unusedVariables false

namespace CrCube.Pipeline
open CrCube SubSpec

/-- what every additive measure reads of the extractor object `m'` at body row `mp`: the rows `A`
    of `m` merged into one category (count and row base summed over the addends; the column and
    table bases are those every row of `m` sees) -/
structure RowMergedAt (m m' : MatCounts) (A : List Nat) (mp : Nat) : Prop where
  ncols : m'.ncols = m.ncols
  counts : ∀ j, m'.counts mp j = sumAt A (fun a => m.counts a j)
  rowBases : ∀ j, m'.rowBases mp j = sumAt A (fun a => m.rowBases a j)
  colBases : ∀ j, m'.columnBases mp j = m.columnBases 0 j
  tableBases : ∀ j, m'.tableBases mp j = m.tableBases 0 j

/-- mirrored: column `mp` of `m'` is the columns `B` of `m` merged -/
structure ColMergedAt (m m' : MatCounts) (B : List Nat) (mp : Nat) : Prop where
  nrows : m'.nrows = m.nrows
  counts : ∀ i, m'.counts i mp = sumAt B (fun b => m.counts i b)
  colBases : ∀ i, m'.columnBases i mp = sumAt B (fun b => m.columnBases i b)
  rowBases : ∀ i, m'.rowBases i mp = m.rowBases i 0
  tableBases : ∀ i, m'.tableBases i mp = m.tableBases i 0

/-- is the column position a difference column of a categorical-date columns dimension?
    (there the row / column proportions of a BODY row take the wave-difference path, which an
    intersection does not: finding F12) -/
def waveCol (x : SubCtx) : Pos → Bool
  | .base _ => false
  | .ins l => x.colsCatDate && (subAt x.colSubs l).isDiff

def waveRow (x : SubCtx) : Pos → Bool
  | .base _ => false
  | .ins k => x.rowsCatDate && (subAt x.rowSubs k).isDiff

theorem isDiff_false_sub (s : Subtotal) (h : s.isDiff = false) : s.subtrahendIdxs = [] := by
  unfold Subtotal.isDiff at h
  cases hs : s.subtrahendIdxs with
  | nil => rfl
  | cons a l => simp [hs] at h

theorem sumRow_nosub (b : Nat → Nat → Val) (dn : Bool) (A : List Nat) :
    SumSub.row b dn ⟨A, []⟩ = fun j => sumAt A (fun a => b a j) := by
  funext j; simp [SumSub.row, Subtotal.isDiff, sumAt_nil]

theorem sumCol_nosub (b : Nat → Nat → Val) (dn : Bool) (A : List Nat) :
    SumSub.col b dn ⟨A, []⟩ = fun i => sumAt A (fun a => b i a) := by
  funext j; simp [SumSub.col, Subtotal.isDiff, sumAt_nil]

theorem posRow_fn (b : Nat → Nat → Val) (s : Subtotal) :
    PosSub.row b s = fun j => sumAt s.addendIdxs (fun a => b a j) := rfl

theorem posCol_fn (b : Nat → Nat → Val) (s : Subtotal) :
    PosSub.col b s = fun i => sumAt s.addendIdxs (fun a => b i a) := rfl

section rows
variable {m m' : MatCounts} {A : List Nat} {mp : Nat} (h : RowMergedAt m m' A mp)
variable {x x' : SubCtx} {k : Nat} (hS : subAt x.rowSubs k = ⟨A, []⟩) (hcs : x'.colSubs = x.colSubs)
include h hS hcs

theorem counts_ins_eq (dn : Bool) (Q : Pos) :
    blockAt (Msr.counts m dn x) (.ins k) Q = blockAt (Msr.counts m' dn x') (.base mp) Q := by
  have hc : (fun j => m'.counts mp j) = fun j => sumAt A (fun a => m.counts a j) := funext h.counts
  cases Q with
  | base j =>
    simp [blockAt, Msr.counts, SumSub.blocks, SumSub.row, hS, Subtotal.isDiff, sumAt_nil, h.counts]
  | ins l =>
    simp only [blockAt, Msr.counts, SumSub.blocks, SumSub.inter, SumSub.col, SumSub.row, hS, hcs,
      Subtotal.isDiff, List.isEmpty_nil, Bool.not_true, Bool.and_false, Bool.false_and, Bool.or_false,
      Bool.false_eq_true, if_false, sumAt_nil, Val.sub_fin0, hc]
    cases hd : (dn && !(subAt x.colSubs l).subtrahendIdxs.isEmpty) <;> simp [hd, Bool.and_comm, sumRow_nosub]

theorem posSub_ins_eq (Q : Pos) :
    blockAt (PosSub.blocks m.counts m.nrows m.ncols x.rowSubs x.colSubs) (.ins k) Q
      = blockAt (PosSub.blocks m'.counts m'.nrows m'.ncols x'.rowSubs x'.colSubs) (.base mp) Q := by
  have hc : (fun j => m'.counts mp j) = fun j => sumAt A (fun a => m.counts a j) := funext h.counts
  cases Q with
  | base j => simp [blockAt, PosSub.blocks, PosSub.row, hS, h.counts]
  | ins l =>
    simp [blockAt, PosSub.blocks, PosSub.inter, PosSub.col, posRow_fn, hS, hcs, Subtotal.isDiff, hc]

theorem negSub_ins_eq (Q : Pos) :
    blockAt (NegSub.blocks m.counts m.nrows m.ncols x.rowSubs x.colSubs) (.ins k) Q
      = blockAt (NegSub.blocks m'.counts m'.nrows m'.ncols x'.rowSubs x'.colSubs) (.base mp) Q := by
  have hc : (fun j => m'.counts mp j) = fun j => sumAt A (fun a => m.counts a j) := funext h.counts
  cases Q with
  | base j => simp [blockAt, NegSub.blocks, NegSub.row, hS, sumAt_nil]
  | ins l =>
    simp only [blockAt, NegSub.blocks, NegSub.inter, NegSub.col, hS, hcs, hc]
    cases hd : (subAt x.colSubs l).isDiff with
    | true => simp [Subtotal.isDiff]
    | false =>
      have := isDiff_false_sub _ hd
      simp [Subtotal.isDiff, this, sumAt_nil]

theorem rowWB_ins_eq (Q : Pos) :
    blockAt (Msr.rowWeightedBases m x) (.ins k) Q = blockAt (Msr.rowWeightedBases m' x') (.base mp) Q := by
  cases Q with
  | base j => simp [blockAt, Msr.rowWeightedBases, SumSub.row, hS, Subtotal.isDiff, sumAt_nil, h.rowBases]
  | ins l => simp [blockAt, Msr.rowWeightedBases, SumSub.row, hS, Subtotal.isDiff, sumAt_nil, h.rowBases]

theorem colWB_ins_eq (Q : Pos) :
    blockAt (Msr.columnWeightedBases m x) (.ins k) Q
      = blockAt (Msr.columnWeightedBases m' x') (.base mp) Q := by
  have hc : (fun j => m'.columnBases mp j) = fun j => m.columnBases 0 j := funext h.colBases
  cases Q with
  | base j => simp [blockAt, Msr.columnWeightedBases, h.colBases]
  | ins l => simp [blockAt, Msr.columnWeightedBases, SumSub.col, hcs, hc]

theorem tableB_ins_eq (Q : Pos) :
    blockAt (Msr.tableBases m x) (.ins k) Q = blockAt (Msr.tableBases m' x') (.base mp) Q := by
  cases Q with
  | base j => simp [blockAt, Msr.tableBases, h.tableBases]
  | ins l => simp [blockAt, Msr.tableBases, h.tableBases]

theorem dirBase_ins_eq (d : Dir) (Q : Pos) :
    blockAt (dirBaseBlocks m x d) (.ins k) Q = blockAt (dirBaseBlocks m' x' d) (.base mp) Q := by
  cases d
  · exact rowWB_ins_eq h hS hcs Q
  · exact colWB_ins_eq h hS hcs Q
  · exact tableB_ins_eq h hS hcs Q

theorem tableProps_ins_eq (Q : Pos) :
    blockAt (Msr.tableProportions m false x) (.ins k) Q
      = blockAt (Msr.tableProportions m' false x') (.base mp) Q := by
  have h1 := counts_ins_eq h hS hcs false Q
  have h2 := tableB_ins_eq h hS hcs Q
  cases Q <;> simp only [blockAt, Msr.tableProportions, Blocks.zipWith] at h1 h2 ⊢ <;> rw [h1, h2]

theorem rowProps_ins_eq (hcd : x'.colsCatDate = x.colsCatDate) (Q : Pos) (hw : waveCol x Q = false) :
    blockAt (Msr.rowProportions m false x) (.ins k) Q
      = blockAt (Msr.rowProportions m' false x') (.base mp) Q := by
  have h1 := counts_ins_eq h hS hcs false Q
  have h2 := rowWB_ins_eq h hS hcs Q
  cases Q with
  | base j =>
    simp only [blockAt] at h1 h2
    simp only [blockAt, Msr.rowProportions, Blocks.zipWith, WaveDiff.row, hS, Subtotal.isDiff,
      List.isEmpty_nil, Bool.not_true, Bool.and_false, Bool.false_eq_true, if_false, h1, h2]
  | ins l =>
    simp only [blockAt] at h1 h2
    simp only [waveCol] at hw
    simp only [blockAt, Msr.rowProportions, Blocks.zipWith, WaveDiff.col, hcs, hcd, hw,
      Bool.false_eq_true, if_false, h1, h2]

theorem colProps_ins_eq (hcd : x'.colsCatDate = x.colsCatDate) (Q : Pos) (hw : waveCol x Q = false) :
    blockAt (Msr.columnProportions m false x) (.ins k) Q
      = blockAt (Msr.columnProportions m' false x') (.base mp) Q := by
  have h1 := counts_ins_eq h hS hcs false Q
  have h2 := colWB_ins_eq h hS hcs Q
  cases Q with
  | base j =>
    simp only [blockAt] at h1 h2
    simp only [blockAt, Msr.columnProportions, Blocks.zipWith, WaveDiff.row, hS, Subtotal.isDiff,
      List.isEmpty_nil, Bool.not_true, Bool.and_false, Bool.false_eq_true, if_false, h1, h2]
  | ins l =>
    simp only [blockAt] at h1 h2
    simp only [waveCol] at hw
    simp only [blockAt, Msr.columnProportions, Blocks.zipWith, WaveDiff.col, hcs, hcd, hw,
      Bool.false_eq_true, if_false, h1, h2]

theorem dirProps_ins_eq (hcd : x'.colsCatDate = x.colsCatDate) (d : Dir) (Q : Pos)
    (hw : d ≠ .table → waveCol x Q = false) :
    blockAt (dirPropBlocks m x d) (.ins k) Q = blockAt (dirPropBlocks m' x' d) (.base mp) Q := by
  cases d
  · exact rowProps_ins_eq h hS hcs hcd Q (hw (by decide))
  · exact colProps_ins_eq h hS hcs hcd Q (hw (by decide))
  · exact tableProps_ins_eq h hS hcs Q

/-- the four numbers the z-score formula reads -/
theorem zCell_ins_eq (Q : Pos) : zCellAt m x (.ins k) Q = zCellAt m' x' (.base mp) Q := by
  simp only [zCellAt, counts_ins_eq h hS hcs false Q, tableB_ins_eq h hS hcs Q, rowWB_ins_eq h hS hcs Q,
    colWB_ins_eq h hS hcs Q]

/-- the C11 cell: variance and total -/
theorem varCell_ins_eq (hcd : x'.colsCatDate = x.colsCatDate) (d : Dir) (Q : Pos)
    (hw : d ≠ .table → waveCol x Q = false) :
    (varCellAt m x d (.ins k) Q).variance = (varCellAt m' x' d (.base mp) Q).variance
      ∧ (varCellAt m x d (.ins k) Q).total = (varCellAt m' x' d (.base mp) Q).total := by
  have hp := posSub_ins_eq h hS hcs Q
  have hn := negSub_ins_eq h hS hcs Q
  have hb := dirBase_ins_eq h hS hcs d Q
  have hRd : (sideOf x.rowSubs (.ins k)).isDiff = false := by simp [sideOf, hS, Side.isDiff]
  have hRi : (sideOf x.rowSubs (.ins k)).inserted = true := by simp [sideOf]
  have hRs : (sideOf x.rowSubs (.ins k)).sub = [] := by simp [sideOf, hS]
  have hR'd : (sideOf x'.rowSubs (.base mp)).isDiff = false := by simp [sideOf, Side.base, Side.isDiff]
  have hR'i : (sideOf x'.rowSubs (.base mp)).inserted = false := by simp [sideOf, Side.base]
  have htot : (varCellAt m x d (.ins k) Q).total = (varCellAt m' x' d (.base mp) Q).total := by
    simp only [VarCell.total, varCellAt, hRd, hR'd, hcs, hb]
  refine ⟨?_, htot⟩
  have hcount : (varCellAt m x d (.ins k) Q).count = (varCellAt m' x' d (.base mp) Q).count := by
    simp only [VarCell.count, VarCell.bothDiff, varCellAt, hRd, hR'd, Bool.false_and, Bool.false_eq_true,
      if_false, hp, hn]
  have hpos : (varCellAt m x d (.ins k) Q).posCount = (varCellAt m' x' d (.base mp) Q).posCount := by
    simp only [VarCell.posCount, VarCell.bothDiff, varCellAt, hRd, hR'd, Bool.false_and, Bool.false_eq_true,
      if_false, hp]
  have hneg : (varCellAt m x d (.ins k) Q).negCount = (varCellAt m' x' d (.base mp) Q).negCount := by
    simp only [VarCell.negCount, VarCell.bothDiff, varCellAt, hRd, hR'd, Bool.false_and, Bool.false_eq_true,
      if_false, hn]
  have hprop : (varCellAt m x d (.ins k) Q).proportion = (varCellAt m' x' d (.base mp) Q).proportion := by
    unfold VarCell.proportion
    rw [hcount, htot]
    cases d with
    | table => rfl
    | row =>
      have hw' := hw (by decide)
      cases Q with
      | base j =>
        simp [varCellAt, sideOf, hS, Side.base, waveDiffProp]
      | ins l =>
        simp only [waveCol] at hw'
        simp [varCellAt, sideOf, hS, hcs, hcd, Side.base, waveDiffProp]
        intro h1 h2
        simp [Subtotal.isDiff, h1] at hw'
        cases hl : (subAt x.colSubs l).subtrahendIdxs with
        | nil => simp [hl] at h2
        | cons a t => simp [hl] at hw'
    | col =>
      have hw' := hw (by decide)
      cases Q with
      | base j =>
        simp [varCellAt, sideOf, hS, Side.base, waveDiffProp]
      | ins l =>
        simp only [waveCol] at hw'
        simp [varCellAt, sideOf, hS, hcs, hcd, Side.base, waveDiffProp]
        intro h1 h2
        simp [Subtotal.isDiff, h1] at hw'
        cases hl : (subAt x.colSubs l).subtrahendIdxs with
        | nil => simp [hl] at h2
        | cons a t => simp [hl] at hw'
  unfold VarCell.variance
  rw [hprop, htot, hpos, hneg]

end rows


/-! ## any `SumSubtotals` measure (counts, sums) and the row share -/

section sumsub
variable {A : List Nat} {mp : Nat} {x x' : SubCtx} {k : Nat}
  (hS : subAt x.rowSubs k = ⟨A, []⟩) (hcs : x'.colSubs = x.colSubs)
  (b b' : Nat → Nat → Val) (hb : ∀ j, b' mp j = sumAt A (fun a => b a j))
include hS hcs hb

theorem sumSub_ins_eq (dc dr : Bool) (nr nc nr' nc' : Nat) (Q : Pos) :
    blockAt (SumSub.blocks b nr nc x.rowSubs x.colSubs dc dr) (.ins k) Q
      = blockAt (SumSub.blocks b' nr' nc' x'.rowSubs x'.colSubs dc dr) (.base mp) Q := by
  have hc : (fun j => b' mp j) = fun j => sumAt A (fun a => b a j) := funext hb
  cases Q with
  | base j => simp [blockAt, SumSub.blocks, sumRow_nosub, hS, hb]
  | ins l =>
    simp only [blockAt, SumSub.blocks, SumSub.inter, SumSub.col, sumRow_nosub, hS, hcs,
      Subtotal.isDiff, List.isEmpty_nil, Bool.not_true, Bool.and_false, Bool.false_and, Bool.or_false,
      Bool.false_eq_true, if_false, hc]
    cases hd : (dc && !(subAt x.colSubs l).subtrahendIdxs.isEmpty) <;> simp [hd, Bool.and_comm]

theorem rowShare_ins_eq (nr nc nr' : Nat) (Q : Pos) :
    blockAt (Msr.rowShareSum b nr nc x) (.ins k) Q = blockAt (Msr.rowShareSum b' nr' nc x') (.base mp) Q := by
  have h1 := sumSub_ins_eq hS hcs b b' hb true true nr nc nr' nc Q
  have hden : nansumRow nc (Msr.sums b nr nc x).insRows k = nansumRow nc (Msr.sums b' nr' nc x').body mp := by
    simp [nansumRow, Msr.sums, SumSub.blocks, sumRow_nosub, hS, hb]
  cases Q with
  | base j =>
    simp only [blockAt, Msr.sums] at h1
    simp only [blockAt, Msr.rowShareSum, hden]
    simp only [Msr.sums, h1]
  | ins l =>
    simp only [blockAt, Msr.sums] at h1
    simp only [blockAt, Msr.rowShareSum, hden]
    simp only [Msr.sums, h1]

end sumsub

/-! ## the hypotheses bundled for a pair of cubes -/

/-- `c'` is `c` with the addends `A` of row subtotal `k` merged into the body row `mp`, as far as
    the measures can see: weighted and unweighted extractor objects and the sums measure -/
structure RowMerge (c c' : CubeData) (rows rows' cols : RDim) (k : Nat) (A : List Nat) (mp : Nat) : Prop where
  sub : subAt rows.subtotals k = ⟨A, []⟩
  catDate : rows'.catDate = rows.catDate
  w : RowMergedAt c.w c'.w A mp
  u : RowMergedAt c.u c'.u A mp
  sums : ∀ j, c'.numeric c'.sums mp j = sumAt A (fun a => c.numeric c.sums a j)

/-- the measure keys the property claims equality for, and what each needs beyond `RowMerge`:
    * row / column proportions and everything built on them: the crossing column is not a
      difference column of a categorical-date dimension (F12);
    * z-scores / p-values: the two block guards agree (they read the BASE block of each cube);
    * unweighted row bases at an inserted column / unweighted column bases: the 1-D base vector the
      library broadcasts there is the 2-D base (true whenever rows are categorical, resp. columns);
    * column index, means, std-dev, medians are NaN at every subtotal (separate theorem);
      column share and total share of sum are not claimed (`nansum` of the merged rows differs
      from the `nansum` of the addends as soon as an addend cell is NaN). -/
def mergeHyp (c c' : CubeData) (rows rows' cols : RDim) (k mp : Nat) (Q : Pos) : MKey → Prop
  | .rowProps | .colProps => waveCol (sliceCtx rows cols) Q = false
  | .variance d | .stdErr d => d ≠ .table → waveCol (sliceCtx rows cols) Q = false
  | .popProps | .popStdErr =>
    popDir rows.catDate cols.catDate ≠ .table → waveCol (sliceCtx rows cols) Q = false
  | .zscores | .pvalues =>
    (zGuards c.w (sliceCtx rows cols)).at (.ins k) Q = (zGuards c'.w (sliceCtx rows' cols)).at (.base mp) Q
  | .rowBasesU =>
    Q.inserted = true → (match c'.u.rowsBase with | some f => f mp | none => .nan) = c'.u.rowBases mp 0
  | .colBasesU =>
    ∀ j, (match c.u.columnsBase with | some f => f j | none => .nan) = c.u.columnBases 0 j
  | .colIndex | .means | .stddev | .medians | .colShare | .totalShare => False
  | _ => True

/-! ## the array-level instances: `catXcat`, `catXmr` of the merged table -/

theorem rowMergedAt_catXcat (V : FT) (nr nc : Nat) (hV : V.shape = [nr, nc]) (A : List Nat)
    (hn : A.Nodup) (hlt : ∀ a ∈ A, a < nr) :
    RowMergedAt (MatCounts.catXcat V) (MatCounts.catXcat (mergeAxis V 0 A)) A (mergedPos nr A) := by
  have hs0 := mergeAxis0_shape V nr nc A hV
  have d0 := dim0_of_shape V nr nc hV
  have d1 := dim1_of_shape V nr nc hV
  have e0 := dim0_of_shape (mergeAxis V 0 A) _ nc hs0
  have e1 := dim1_of_shape (mergeAxis V 0 A) _ nc hs0
  have hcount := mergeAxis0_get_merged V nr nc A hV
  refine ⟨?_, ?_, ?_, ?_, ?_⟩
  · simp [MatCounts.catXcat, d1, e1]
  · intro j; simp [MatCounts.catXcat, hcount]
  · intro j
    simp only [MatCounts.catXcat, d1, e1, hcount, vsum_eq_sumAt]
    exact sumAt_comm _ _ _
  · intro j
    simp only [MatCounts.catXcat, d0, e0]
    exact colsum_mergeAxis0 V nr nc A hV hn hlt j
  · intro j
    simp only [MatCounts.catXcat, d0, d1, e0, e1]
    exact total_mergeAxis0 V nr nc A hV hn hlt

theorem rowMergedAt_catXmr (V : FT) (nr nc np : Nat) (hV : V.shape = [nr, nc, np]) (A : List Nat)
    (hn : A.Nodup) (hlt : ∀ a ∈ A, a < nr) :
    RowMergedAt (MatCounts.catXmr V) (MatCounts.catXmr (mergeAxis V 0 A)) A (mergedPos nr A) := by
  have hs0 := mergeAxis0_shape3 V nr nc np A hV
  obtain ⟨d0, d1, d2⟩ := dims_of_shape3 V nr nc np hV
  obtain ⟨e0, e1, e2⟩ := dims_of_shape3 (mergeAxis V 0 A) _ nc np hs0
  have hcount := mergeAxis0_get3_merged V nr nc np A hV
  refine ⟨?_, ?_, ?_, ?_, ?_⟩
  · simp [MatCounts.catXmr, d1, e1]
  · intro j; simp [MatCounts.catXmr, hcount]
  · intro j
    simp only [MatCounts.catXmr, d2, e2, hcount, vsum_eq_sumAt]
    exact sumAt_comm _ _ _
  · intro j
    simp only [MatCounts.catXmr, d0, e0]
    exact sum_axis0_merged V nr nc np A hV hn hlt j 0
  · intro j
    simp only [MatCounts.catXmr, d0, d2, e0, e2]
    exact sum2_axis0_merged V nr nc np A hV hn hlt j

end CrCube.Pipeline
