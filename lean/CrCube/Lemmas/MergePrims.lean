/-
  Definitions and helper lemmas used to STATE and prove Props/C04: the surviving insertions,
  the six primitives of a cell (`Prims`), recoding of the first variable's answers.
-/
import CrCube.Model.SubtotalMeasures
import CrCube.Spec.SubtotalSpec
import CrCube.Spec.Survey
import CrCube.Lemmas.SubtotalFacts
import CrCube.Lemmas.Wsum

namespace CrCube.C04
open CrCube SubSpec

/-- insertions that survive the gauntlet -/
def live (validIds : List Int) (ins : List Insertion) : List Insertion :=
  ins.filter (Insertion.passes validIds)

theorem resolve_length (validIds : List Int) (ins : List Insertion) :
    (resolveSubtotals validIds ins).length = (live validIds ins).length := by
  simp [resolveSubtotals, live]

/-- the k-th subtotal object is built from the k-th surviving insertion dict -/
theorem resolve_subAt (validIds : List Int) (ins : List Insertion) (k : Nat)
    (hk : k < (live validIds ins).length) :
    subAt (resolveSubtotals validIds ins) k = ((live validIds ins)[k]).toSubtotal validIds := by
  unfold subAt resolveSubtotals
  have hk' : k < (List.map (Insertion.toSubtotal validIds)
      (List.filter (Insertion.passes validIds) ins)).length := by simpa [live] using hk
  rw [getD_of_lt _ _ _ hk']
  simp [live]

theorem sumAt_idxsOfIds (validIds ids : List Int) (v : Nat → Val) :
    sumAt (idxsOfIds validIds ids) v = sumListed validIds ids v := by
  unfold sumAt idxsOfIds sumListed vsum
  exact Val.sum_filter_map _ _ _

/-- the primitives of one cell -/
structure Prims where
  count : Val
  rowBase : Val
  colBase : Val
  tableBase : Val
  np : Val
  nn : Val

/-- primitives of inserted row `k`, base column `j` of the table WITH the subtotal -/
def primsInsRow (m : MatCounts) (dn : Bool) (x : SubCtx) (k j : Nat) : Prims :=
  { count := (Msr.counts m dn x).insRows k j
    rowBase := (Msr.rowWeightedBases m x).insRows k j
    colBase := (Msr.columnWeightedBases m x).insRows k j
    tableBase := (Msr.tableBases m x).insRows k j
    np := (PosSub.blocks m.counts m.nrows m.ncols x.rowSubs x.colSubs).insRows k j
    nn := (NegSub.blocks m.counts m.nrows m.ncols x.rowSubs x.colSubs).insRows k j }

def primsInsCol (m : MatCounts) (dn : Bool) (x : SubCtx) (i l : Nat) : Prims :=
  { count := (Msr.counts m dn x).insCols i l
    rowBase := (Msr.rowWeightedBases m x).insCols i l
    colBase := (Msr.columnWeightedBases m x).insCols i l
    tableBase := (Msr.tableBases m x).insCols i l
    np := (PosSub.blocks m.counts m.nrows m.ncols x.rowSubs x.colSubs).insCols i l
    nn := (NegSub.blocks m.counts m.nrows m.ncols x.rowSubs x.colSubs).insCols i l }

/-- primitives of a BASE cell (what the body blocks hold) -/
def primsBody (m : MatCounts) (i j : Nat) : Prims :=
  { count := m.counts i j, rowBase := m.rowBases i j, colBase := m.columnBases i j
    tableBase := m.tableBases i j, np := m.counts i j, nn := .fin 0 }

/-- weights are carried along by a recoding of the answers -/
theorem wsum_map (s : Survey) (g : Resp → Resp) (hg : ∀ r, (g r).w = r.w) (p : Resp → Bool) :
    wsum (s.map g) p = wsum s (fun r => p (g r)) := by
  induction s with
  | nil => simp
  | cons r s ih =>
    rw [List.map_cons, wsum_cons, wsum_cons, ih, hg]

/-- recode the answer to the FIRST variable -/
def recodeFirst (f : Nat → Nat) (r : Resp) : Resp :=
  { r with ans := match r.ans with | [] => [] | a :: rest => a.map f :: rest }

end CrCube.C04
