/-
  The RECODED cube of property C04 built from the raw arrays of the original cube
  (`CubeData.mergeRows`), and the proof that it satisfies `RowMerge` (CAT × CAT).

  rows variable R (categorical, missing categories anywhere), addend offsets `A` among R's VALID
  categories.  In the recoded data the categories `A` are one category; the recoded rows variable
  `mergedVar` has the kept valid categories of R in their order, then the merged category (no
  missing categories: respondents with a missing row answer are in no valid cell of either cube).
  The columns variable and its raw axes (with their missing elements) are untouched.
-/
import CrCube.Lemmas.MergePipeline
import CrCube.Lemmas.Slice2D

set_option linter.unusedSimpArgs false
set_option linter.unusedVariables false

namespace CrCube.Pipeline
open CrCube SubSpec

/-- `a[idxs]` on the first axis only -/
def take0 (t : FT) (idxs : List Nat) : FT :=
  ⟨idxs.length :: t.shape.tail, fun ix => t.get (ix.set 0 (idxs.getD (ix.getD 0 0) 0))⟩

/-- a categorical variable with `m` categories, none missing -/
def mergedVar (m : Nat) : Var := { kind := .cat, n := m, catMissing := List.replicate m false }

/-- raw array of the recoded data: valid rows of R, the rows `A` merged into one last row -/
def mergeRawRows (R : Var) (A : List Nat) (raw : FT) : FT :=
  mergeAxis (take0 raw (validIdxs R.catMissing)) 0 A

/-- **the recoded cube**: rows categories `A` merged (weighted and unweighted counts and the sums
    measure are additive and merge; means / std-dev / medians of the recoded data are not functions
    of the original cube and are left absent) -/
def CubeData.mergeRows (c : CubeData) (A : List Nat) : CubeData :=
  match c.vars with
  | [R, C] =>
    { vars := [mergedVar (mergedPos (validIdxs R.catMissing).length A + 1), C]
      wraw := mergeRawRows R A c.wraw, uraw := mergeRawRows R A c.uraw, k := c.k
      sums := c.sums.map (mergeRawRows R A) }
  | _ => c

theorem validIdxs_replicate_false (m : Nat) : validIdxs (List.replicate m false) = List.range m := by
  unfold validIdxs
  rw [List.length_replicate]
  apply List.filter_eq_self.mpr
  intro i hi
  have hi' : i < m := List.mem_range.mp hi
  simp [List.getD_eq_getElem?_getD, List.getElem?_replicate, hi']

theorem range_getD_lt (m i : Nat) (h : i < m) : (List.range m).getD i 0 = i := by
  simp [List.getD_eq_getElem?_getD, List.getElem?_range h]

/-- in range, the valid-element array of the recoded CAT × CAT cube is the merged valid-element array -/
theorem mergeRows_validCube_get (R C : Var) (hR : R.kind = .cat) (hC : C.kind = .cat) (A : List Nat)
    (raw : FT) (i : Nat) (hi : i < mergedPos (validIdxs R.catMissing).length A + 1) (j : Nat) :
    (validCube [mergedVar (mergedPos (validIdxs R.catMissing).length A + 1), C] (mergeRawRows R A raw)).get [i, j]
      = (mergeAxis (validCube [R, C] raw) 0 A).get [i, j] := by
  simp only [validCube, List.flatMap_cons, List.flatMap_nil, Var.validAxes, mergedVar, hR, hC,
    validIdxs_replicate_false, List.append_nil, List.cons_append, List.nil_append, FT.take, List.zipWith_cons_cons,
    List.zipWith_nil_right, range_getD_lt _ _ hi, mergeRawRows, mergeAxis, take0, FT.dim, List.map_cons,
    List.map_nil, List.getD_cons_zero, List.set_cons_zero, List.length_cons, List.length_nil]

/-- a table that agrees IN RANGE with the merged table is as good as the merged table -/
theorem rowMergedAt_catXcat_congr (V M V' : FT) (A : List Nat) (m nc mp : Nat) (hM : M.shape = [m, nc])
    (hV' : V'.shape = [m, nc]) (hget : ∀ i, i < m → ∀ j, V'.get [i, j] = M.get [i, j]) (hmp : mp < m)
    (h : RowMergedAt (MatCounts.catXcat V) (MatCounts.catXcat M) A mp) :
    RowMergedAt (MatCounts.catXcat V) (MatCounts.catXcat V') A mp := by
  have d0 := dim0_of_shape M m nc hM
  have d1 := dim1_of_shape M m nc hM
  have e0 := dim0_of_shape V' m nc hV'
  have e1 := dim1_of_shape V' m nc hV'
  have hrow : (fun j => V'.get [mp, j]) = fun j => M.get [mp, j] := funext (hget mp hmp)
  have hcol : ∀ j, vsum m (fun i => V'.get [i, j]) = vsum m (fun i => M.get [i, j]) :=
    fun j => vsum_congr m _ _ (fun i hi => hget i hi j)
  have htot : vsum m (fun i => vsum nc (fun j => V'.get [i, j])) = vsum m (fun i => vsum nc (fun j => M.get [i, j])) :=
    vsum_congr m _ _ (fun i hi => by rw [funext (hget i hi)])
  have h1 := h.ncols; have h2 := h.counts; have h3 := h.rowBases; have h4 := h.colBases; have h5 := h.tableBases
  simp only [MatCounts.catXcat, d0, d1] at h1 h2 h3 h4 h5
  refine ⟨?_, ?_, ?_, ?_, ?_⟩
  · simpa [MatCounts.catXcat, e1] using h1
  · intro j; simp only [MatCounts.catXcat]; rw [hget mp hmp j]; exact h2 j
  · intro j; simp only [MatCounts.catXcat, e1, hrow]; exact h3 j
  · intro j; simp only [MatCounts.catXcat, e0, hcol]; exact h4 j
  · intro j; simp only [MatCounts.catXcat, e0, e1, htot]; exact h5 j

theorem sumAt_nan (A : List Nat) (hA : A ≠ []) : sumAt A (fun _ => Val.nan) = .nan := by
  cases A with
  | nil => exact absurd rfl hA
  | cons a t => rw [sumAt_cons]; exact Val.nan_add _

section
variable (R C : Var) (hR : R.kind = .cat) (hC : C.kind = .cat) (A : List Nat) (hn : A.Nodup)
  (hlt : ∀ a ∈ A, a < (validIdxs R.catMissing).length)
include hR hC hn hlt

/-- extractor objects of the recoded CAT × CAT cube vs the original, for any raw array -/
theorem mergeRows_rowMergedAt (raw : FT) (k : Nat) :
    RowMergedAt (sliceCounts [R, C] raw k)
      (sliceCounts [mergedVar (mergedPos (validIdxs R.catMissing).length A + 1), C] (mergeRawRows R A raw) k)
      A (mergedPos (validIdxs R.catMissing).length A) := by
  have hV : (validCube [R, C] raw).shape = [(validIdxs R.catMissing).length, (validIdxs C.catMissing).length] := by
    simp [validCube, Var.validAxes, hR, hC, FT.take]
  have hV' : (validCube [mergedVar (mergedPos (validIdxs R.catMissing).length A + 1), C] (mergeRawRows R A raw)).shape
      = [mergedPos (validIdxs R.catMissing).length A + 1, (validIdxs C.catMissing).length] := by
    simp [validCube, Var.validAxes, mergedVar, hC, FT.take, validIdxs_replicate_false]
  have hM := mergeAxis0_shape (validCube [R, C] raw) _ _ A hV
  have hs1 : sliceCounts [R, C] raw k = MatCounts.catXcat (validCube [R, C] raw) := by
    simp [sliceCounts, apparentKinds, Var.dks, hR, hC, MatCounts.factory, sliceExpr]
  have hs2 : sliceCounts [mergedVar (mergedPos (validIdxs R.catMissing).length A + 1), C] (mergeRawRows R A raw) k
      = MatCounts.catXcat (validCube [mergedVar (mergedPos (validIdxs R.catMissing).length A + 1), C]
          (mergeRawRows R A raw)) := by
    simp [sliceCounts, apparentKinds, Var.dks, mergedVar, hC, MatCounts.factory, sliceExpr]
  rw [hs1, hs2]
  exact rowMergedAt_catXcat_congr _ _ _ A _ _ _ hM hV'
    (fun i hi j => mergeRows_validCube_get R C hR hC A raw i hi j) (Nat.lt_succ_self _)
    (rowMergedAt_catXcat _ _ _ hV A hn hlt)

/-- **the recoded cube satisfies `RowMerge`** (CAT × CAT; rows with missing categories anywhere) -/
theorem mergeRows_rowMerge (c : CubeData) (hv : c.vars = [R, C]) (hA : A ≠ []) (rows rows' cols : RDim)
    (k : Nat) (hS : subAt rows.subtotals k = ⟨A, []⟩) (hcd : rows'.catDate = rows.catDate) :
    RowMerge c (c.mergeRows A) rows rows' cols k A (mergedPos (validIdxs R.catMissing).length A) := by
  refine ⟨hS, hcd, ?_, ?_, ?_⟩
  · simp only [CubeData.w, CubeData.mergeRows, hv]
    exact mergeRows_rowMergedAt R C hR hC A hn hlt c.wraw c.k
  · simp only [CubeData.u, CubeData.mergeRows, hv]
    exact mergeRows_rowMergedAt R C hR hC A hn hlt c.uraw c.k
  · intro j
    cases hs : c.sums with
    | none => simp [CubeData.numeric, CubeData.mergeRows, hv, hs, sumAt_nan A hA]
    | some raw =>
      simp only [CubeData.numeric, CubeData.mergeRows, hv, hs, Option.map_some]
      exact (mergeRows_rowMergedAt R C hR hC A hn hlt raw c.k).counts j

end

end CrCube.Pipeline
