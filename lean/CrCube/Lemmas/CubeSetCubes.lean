/-
  `CubeSet._cubes`: cube_idx assignment, single-response sets, `_is_numeric_measure`.
-/
import CrCube.Lemmas.CubeSetAugment

set_option linter.unusedSimpArgs false

namespace CrCube.Glue
open CrCube

theorem turnAugment_idx {loads : String → R J} {multi : Bool} {summary ts : J} {i : Nat} {r : J}
    {x : CubeSt × J} (h : turnAugment loads multi summary ts i r = .ok x) :
    x.1.cubeIdx = if multi then some i else none := by
  unfold turnAugment at h
  obtain ⟨t, _, h⟩ := bind_eq_ok h
  cases multi with
  | false => simp at h; cases h; rfl
  | true =>
    simp only [if_true] at h
    obtain ⟨resp, _, h⟩ := bind_eq_ok h
    obtain ⟨single, _, h⟩ := bind_eq_ok h
    split at h
    · obtain ⟨o, _, h⟩ := bind_eq_ok h
      cases o with
      | none => simp at h; cases h; rfl
      | some r' => simp at h; cases h; rfl
    · simp at h; cases h; rfl

theorem turnInflate_idx {loads : String → R J} {ord : List String} {numeric : Bool} {x y : CubeSt × J}
    (h : turnInflate loads ord numeric x = .ok y) : y.1.cubeIdx = x.1.cubeIdx := by
  unfold turnInflate at h
  cases numeric with
  | false => simp at h; cases h; rfl
  | true =>
    simp only [if_true] at h
    obtain ⟨resp, _, h⟩ := bind_eq_ok h
    obtain ⟨resp', _, h⟩ := bind_eq_ok h
    simp at h; cases h; rfl

theorem cubesRest_idx {loads : String → R J} {ord : List String} {multi numeric : Bool} {summary ts : J} :
    ∀ (rs : List J) (i : Nat) (xs : List (CubeSt × J)),
      cubesRest loads ord multi numeric summary ts i rs = .ok xs →
      xs.length = rs.length ∧
      ∀ (j : Nat) (x : CubeSt × J), xs[j]? = some x → x.1.cubeIdx = if multi then some (i + j) else none := by
  intro rs
  induction rs with
  | nil => intro i xs h; simp only [cubesRest] at h; cases h; simp
  | cons r rs ih =>
    intro i xs h
    simp only [cubesRest] at h
    obtain ⟨a, ha, h⟩ := bind_eq_ok h
    obtain ⟨x, hx, h⟩ := bind_eq_ok h
    obtain ⟨xs', hxs', h⟩ := bind_eq_ok h
    simp only [R_pure, Except.ok.injEq] at h
    subst h
    obtain ⟨hl, hi⟩ := ih (i + 1) xs' hxs'
    refine ⟨by simp [hl], ?_⟩
    intro j y hy
    cases j with
    | zero =>
      simp only [List.getElem?_cons_zero, Option.some.injEq] at hy
      subst hy
      rw [turnInflate_idx hx, turnAugment_idx ha]; simp
    | succ j =>
      simp only [List.getElem?_cons_succ] at hy
      rw [hi j y hy]
      cases multi <;> simp
      omega

/-- **cube_idx assignment**: in a multi-cube set cube j is built with `cube_idx = j`; the only cube
    of a single-response set with `cube_idx = None` -/
theorem cubes_idx {loads : String → R J} {ord : List String} {rs : List J} {ts : J} {cs : List CubeSt}
    (h : cubes loads ord rs ts = .ok cs) :
    cs.length = rs.length ∧
    ∀ (j : Nat) (c : CubeSt), cs[j]? = some c → c.cubeIdx = if rs.length > 1 then some j else none := by
  unfold cubes at h
  obtain ⟨xs, hxs, h⟩ := bind_eq_ok h
  simp only [R_pure, Except.ok.injEq] at h
  subst h
  unfold cubesAndObjs at hxs
  cases rs with
  | nil => simp at hxs; cases hxs; simp
  | cons r0 rest =>
    simp only at hxs
    obtain ⟨a0, ha0, hxs⟩ := bind_eq_ok hxs
    obtain ⟨numeric, _, hxs⟩ := bind_eq_ok hxs
    obtain ⟨x0, hx0, hxs⟩ := bind_eq_ok hxs
    obtain ⟨xs', hxs', hxs⟩ := bind_eq_ok hxs
    simp only [R_pure, Except.ok.injEq] at hxs
    subst hxs
    obtain ⟨hl, hi⟩ := cubesRest_idx rest 1 xs' hxs'
    refine ⟨by simp [hl], ?_⟩
    intro j c hc
    have hm : isMultiCube (r0 :: rest) = decide ((r0 :: rest).length > 1) := rfl
    cases j with
    | zero =>
      simp only [List.map_cons, List.getElem?_cons_zero, Option.some.injEq] at hc
      subst hc
      rw [turnInflate_idx hx0, turnAugment_idx ha0, hm]
      by_cases hg : (r0 :: rest).length > 1 <;> simp [hg]
    | succ j =>
      simp only [List.map_cons, List.getElem?_cons_succ, List.getElem?_map, Option.map_eq_some_iff] at hc
      obtain ⟨x, hx, rfl⟩ := hc
      have hj : j < xs'.length := by
        rcases Nat.lt_or_ge j xs'.length with h | h
        · exact h
        · rw [List.getElem?_eq_none h] at hx; cases hx
      have hg : (r0 :: rest).length > 1 := by simp only [List.length_cons]; omega
      rw [hi j x hx, hm]
      simp only [hg, decide_true, if_true]
      congr 1
      omega

/-- **a single-response set**: one cube, `cube_idx = None`, the response untouched (never augmented,
    never inflated — even when 0-D) -/
theorem cubes_single (loads : String → R J) (ord : List String) (r ts t : J) (ht : idx ts 0 = .ok t) :
    cubes loads ord [r] ts = .ok [⟨r, none, t⟩] := by
  simp [cubes, cubesAndObjs, isMultiCube, turnAugment, ht, isNumericMeasure, turnInflate, cubesRest]

/-- **`_is_numeric_measure`** looks at the FIRST response only (and at there being ≥ 2) -/
theorem isNumericMeasure_first (loads : String → R J) (ord : List String) (r0 r1 : J) (rest : List J) :
    isNumericMeasure loads ord (r0 :: r1 :: rest)
      = (cubeResponse loads r0 >>= fun resp => ndim ord resp >>= fun n => pure (n == 0)) := rfl

theorem isNumericMeasure_single (loads : String → R J) (ord : List String) (r : J) :
    isNumericMeasure loads ord [r] = .ok false ∧ isNumericMeasure loads ord [] = .ok false := ⟨rfl, rfl⟩

end CrCube.Glue
