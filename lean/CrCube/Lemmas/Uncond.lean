/-
  Lemmas for C16: the unconditional baseline read from the RAW cube array (missing elements
  included) of the tabulation `cubeOf` is the respondent-level unconditional row share.
-/
import CrCube.Lemmas.Slice3D
import CrCube.Model.ColumnIndex
import CrCube.Spec.ColumnIndexSpec

set_option linter.unusedSimpArgs false
set_option linter.unusedSectionVars false

namespace CrCube

/-- categorical, or multiple response with the selection axis [selected, other, missing] -/
def Var.CM3 (v : Var) : Prop :=
  v.kind = .cat ∨ (v.kind = .arr ∧ v.isMR = true ∧ v.catMissing = [false, false, true])

theorem Var.CM3.cm {v : Var} (h : v.CM3) : v.CM := by
  rcases h with h | ⟨h, hm, hc⟩
  · exact Or.inl h
  · exact Or.inr ⟨h, hm, by rw [hc]; decide⟩

/-- number of RAW planes of the axis that is summed "regardless of valid or missing" -/
def Var.nraw (v : Var) : Nat := match v.kind with | .cat => v.n | .arr => v.catMissing.length

/-- raw sub-index of element `e`, raw plane `u` (missing planes included) -/
def Var.rsub (v : Var) (e u : Nat) : List Nat := match v.kind with | .cat => [u] | .arr => [e, u]

theorem Var.rsub_length (v : Var) (e u : Nat) : (v.rsub e u).length = v.rank := by
  unfold Var.rsub Var.rank; cases v.kind <;> simp

theorem fits_two (R C : Var) (a : List (List Nat)) (h : fitsDesign [R, C] a = true) :
    ∃ aR aC, a = [aR, aC] ∧ R.fits aR = true ∧ C.fits aC = true := by
  match a with
  | [] => simp [fitsDesign] at h
  | [_] => simp [fitsDesign] at h
  | [aR, aC] =>
    simp only [fitsDesign, Bool.and_true, Bool.and_eq_true] at h
    exact ⟨aR, aC, rfl, h.1, h.2⟩
  | _ :: _ :: _ :: _ => simp [fitsDesign] at h

/-- every respondent whose answer fits the design lies in exactly one raw plane -/
theorem Var.fits_any_raw (v : Var) (a : List Nat) (e : Nat) (hf : v.fits a = true) (he : e < v.ext) :
    ((List.range v.nraw).any fun u => v.mem a (v.rsub e u)) = true := by
  unfold Var.fits at hf
  unfold Var.nraw Var.rsub Var.mem
  unfold Var.ext at he
  cases hk : v.kind with
  | cat =>
    simp only [hk, Bool.and_eq_true, beq_iff_eq, List.all_eq_true, decide_eq_true_eq] at hf ⊢
    match a, hf with
    | [c], hf =>
      simp only [List.any_eq_true, List.mem_range, beq_iff_eq]
      exact ⟨c, hf.2 c (by simp), rfl⟩
  | arr =>
    simp only [hk, Bool.and_eq_true, beq_iff_eq, List.all_eq_true, decide_eq_true_eq] at hf he ⊢
    have hlt : e < a.length := by omega
    simp only [List.any_eq_true, List.mem_range, beq_iff_eq]
    refine ⟨a[e], hf.2 _ (List.getElem_mem hlt), ?_⟩
    exact List.getElem?_eq_getElem hlt

theorem Var.raw_disj (v : Var) (a : List Nat) (e u u' : Nat)
    (h1 : v.mem a (v.rsub e u) = true) (h2 : v.mem a (v.rsub e u') = true) : u = u' := by
  unfold Var.rsub Var.mem at h1 h2
  cases hk : v.kind with
  | cat =>
    simp only [hk, beq_iff_eq] at h1 h2
    rw [h1] at h2; simpa using h2
  | arr =>
    simp only [hk, beq_iff_eq] at h1 h2
    rw [h1] at h2; simpa using h2

end CrCube

namespace CrCube

section generic2d
variable (R C : Var) (hR : R.CM) (hC : C.CM) (s : Survey) (hf : SurveyFits [R, C] s)
include hR hC hf

/-- Σ over ALL raw planes of the column variable: members of row element i, column unrestricted -/
theorem raw_uncond_members (i j : Nat) (hi : i < R.ext) (hj : j < C.ext) :
    vsum C.nraw (fun u => (cubeOf [R, C] s).get (R.msub i ++ C.rsub j u))
      = .fin (rowMembersW ⟨none, R, C⟩ s i) := by
  simp only [cubeOf_get_two R C hR hC s _ _ (R.msub_length i) (C.rsub_length j _)]
  apply vsum_wsum
  · intro r _ u u' _ _ h1 h2
    match hra : r.ans with
    | [aR, aC] =>
      rw [hra] at h1 h2
      simp only [Bool.and_eq_true] at h1 h2
      exact C.raw_disj aC j u u' h1.2 h2.2
    | [] => simp [hra] at h1
    | [_] => simp [hra] at h1
    | _ :: _ :: _ :: _ => simp [hra] at h1
  · intro r hr
    obtain ⟨aR, aC, hra, _, hfC⟩ := fits_two R C r.ans (hf r hr)
    simp only [hra, any_and_left, C.fits_any_raw aC j hfC hj, Bool.and_true,
      SliceDesign.inTable, SliceDesign.rowAns, Bool.true_and, Var.inElem, List.getD,
      List.getElem?_cons_zero, Option.getD_some, hR.mem_member aR i hi]

/-- Σ over the VALID planes of the rows variable and ALL raw planes of the column variable:
    respondents eligible for row element i, column unrestricted -/
theorem raw_uncond_eligible (i j : Nat) (hi : i < R.ext) (hj : j < C.ext) :
    vsum R.np (fun t => vsum C.nraw (fun u => (cubeOf [R, C] s).get (R.sub i t ++ C.rsub j u)))
      = .fin (rowEligibleW ⟨none, R, C⟩ s i) := by
  simp only [cubeOf_get_two R C hR hC s _ _ (R.sub_length i _) (C.rsub_length j _)]
  apply vsum2_wsum
  · intro r _ t u t' u' ht _ ht' _ h1 h2
    match hra : r.ans with
    | [aR, aC] =>
      rw [hra] at h1 h2
      simp only [Bool.and_eq_true] at h1 h2
      exact ⟨hR.mem_disj aR i t t' ht ht' h1.1 h2.1, C.raw_disj aC j u u' h1.2 h2.2⟩
    | [] => simp [hra] at h1
    | [_] => simp [hra] at h1
    | _ :: _ :: _ :: _ => simp [hra] at h1
  · intro r hr
    obtain ⟨aR, aC, hra, _, hfC⟩ := fits_two R C r.ans (hf r hr)
    simp only [hra, any_and_left, any_and_right, C.fits_any_raw aC j hfC hj, Bool.and_true,
      SliceDesign.inTable, SliceDesign.rowAns, Bool.true_and, Var.eligibleFor, List.getD,
      List.getElem?_cons_zero, Option.getD_some, hR.mem_valid aR i hi]

end generic2d

end CrCube

namespace CrCube

theorem vsum_two (f : Nat → Val) : vsum 2 f = Val.sum [f 0, f 1] := rfl

theorem validIdxs_mr3 : validIdxs [false, false, true] = [0, 1] := by decide

theorem Var.CM3.dk_cat {v : Var} (h : v.kind = .cat) : v.dk = .cat := by simp [Var.dk, h]
theorem Var.CM3.dk_mr {v : Var} (h : v.kind = .arr) (hm : v.isMR = true) : v.dk = .mr := by
  simp [Var.dk, h, hm]

/-- what the four `.baseline` variants read from the raw array, in generic form -/
theorem baselineOf_shape (R C : Var) (hR : R.CM3) (hC : C.CM3) (raw : FT)
    (hsh : raw.shape = rawShapeOf [R, C]) (i j : Nat) (hi : i < R.ext) :
    baselineOf R.dk C.dk raw ((apparentValidIdxs [R, C]).getD 0 []) i j
      = vsum C.nraw (fun u => raw.get (R.msub i ++ C.rsub j u))
        / vsum R.np (fun t => vsum C.nraw (fun u => raw.get (R.sub i t ++ C.rsub j u))) := by
  rcases hR with hR | ⟨hR, hmR, hcR⟩ <;> rcases hC with hC | ⟨hC, hmC, hcC⟩
  · simp [baselineOf, Var.dk, hR, hC, baselineCatXCat, apparentValidIdxs, FT.dim, hsh, rawShapeOf,
      Var.rawShape, Var.nraw, Var.rsub, Var.msub, Var.sub, Var.np, List.getD]
  · simp [baselineOf, Var.dk, hR, hC, hmC, baselineCatXMr, apparentValidIdxs, FT.dim, hsh, rawShapeOf,
      Var.rawShape, Var.nraw, Var.rsub, Var.msub, Var.sub, Var.np, List.getD]
  · have hi' : i < R.n := by simpa [Var.ext, hR] using hi
    simp [baselineOf, Var.dk, hR, hC, hmR, baselineMrXCat, apparentValidIdxs, FT.dim, hsh, rawShapeOf,
      Var.rawShape, Var.nraw, Var.rsub, Var.msub, Var.sub, Var.np, List.getD, hcR, validIdxs_mr3,
      vsum_two, List.getElem?_range hi']
  · have hi' : i < R.n := by simpa [Var.ext, hR] using hi
    simp [baselineOf, Var.dk, hR, hC, hmR, hmC, baselineMrXMr, apparentValidIdxs, FT.dim, hsh, rawShapeOf,
      Var.rawShape, Var.nraw, Var.rsub, Var.msub, Var.sub, Var.np, List.getD, hcR, validIdxs_mr3,
      vsum_two, List.getElem?_range hi']

end CrCube

namespace CrCube

theorem apparentKinds_two (R C : Var) (hR : R.CM) (hC : C.CM) : apparentKinds [R, C] = [R.dk, C.dk] := by
  rcases hR with hR | ⟨hR, hmR, _⟩ <;> rcases hC with hC | ⟨hC, hmC, _⟩ <;>
    simp [apparentKinds, Var.dks, Var.dk, *]

theorem apparentKinds_three (T R C : Var) (hT : T.CM) (hR : R.CM) (hC : C.CM) :
    apparentKinds [T, R, C] = [T.dk, R.dk, C.dk] := by
  rcases hT with hT | ⟨hT, hmT, _⟩ <;> rcases hR with hR | ⟨hR, hmR, _⟩ <;>
    rcases hC with hC | ⟨hC, hmC, _⟩ <;>
    simp [apparentKinds, Var.dks, Var.dk, *]

/-- valid element idxs of the single apparent dimension of a cat / MR variable -/
def Var.validElems (v : Var) : List Nat :=
  match v.kind with | .cat => validIdxs v.catMissing | .arr => List.range v.n

theorem apparentValidIdxs_cons (T : Var) (vs : List Var) (hT : T.CM) :
    apparentValidIdxs (T :: vs) = T.validElems :: apparentValidIdxs vs := by
  rcases hT with hT | ⟨hT, hmT, _⟩ <;>
    simp [apparentValidIdxs, Var.validElems, hT, *]

/-- 2-D: the model baseline of the tabulated cube is the respondent-level unconditional share -/
theorem baselineOfCube_two (R C : Var) (hR : R.CM3) (hC : C.CM3) (s : Survey)
    (hf : SurveyFits [R, C] s) (k i j : Nat) (hi : i < R.ext) (hj : j < C.ext) (fixed : Bool) :
    baselineOfCube [R, C] (cubeOf [R, C] s) k fixed i j = baselineSpec ⟨none, R, C⟩ s i := by
  unfold baselineOfCube
  rw [apparentKinds_two R C hR.cm hC.cm]
  simp only [List.length_cons, List.length_nil, List.getD, uncondSlice]
  simp only [show (0 + 1 + 1 : Nat) = 2 by rfl, show (2 - 2 : Nat) = 0 by rfl,
    show (2 - 1 : Nat) = 1 by rfl, show (2 < 3) by omega, if_true, List.getElem?_cons_zero,
    List.getElem?_cons_succ, Option.getD_some]
  have h := baselineOf_shape R C hR hC (cubeOf [R, C] s) rfl i j hi
  simp only [List.getD] at h
  rw [h, raw_uncond_members R C hR.cm hC.cm s hf i j hi hj,
    raw_uncond_eligible R C hR.cm hC.cm s hf i j hi hj]
  rfl

end CrCube

namespace CrCube

/-- raw cell of a cube whose first variable is fixed to element k = raw cell of the cube over the
    remaining variables of the respondents who belong to element k -/
theorem cubeOf_get_restrict (T : Var) (vs : List Var) (hT : T.CM) (s : Survey) (k : Nat)
    (hk : k < T.ext) (rest : List Nat) :
    (cubeOf (T :: vs) s).get (T.msub k ++ rest)
      = .fin (wsum (restrictTo T k s) fun r => memCell vs r.ans rest) := by
  rw [cubeOf_get_cons T vs s _ rest (T.msub_length k)]
  unfold restrictTo
  rw [wsum_filter_map s _ (fun r => { w := r.w, ans := r.ans.tail }) (fun _ => rfl)]
  congr 1
  apply wsum_congr
  intro r _
  match r.ans with
  | [] => rfl
  | aT :: as => simp only [List.tail_cons, hT.mem_member aT k hk]

/-- **the FIXED factory slices the raw array at the right table element**: partition k of the
    raw (missing-inclusive) array of a 3-variable cube is the raw array of the 2-variable cube of
    the respondents who belong to the k-th VALID table element -/
theorem uncondSlice_restrict (T : Var) (vs : List Var) (hT : T.CM3) (s : Survey) (k : Nat)
    (hk : k < T.ext) :
    uncondSlice 3 T.dk T.validElems k (cubeOf (T :: vs) s) true = cubeOf vs (restrictTo T k s) := by
  have key := cubeOf_get_restrict T vs hT.cm s k hk
  rcases hT with hc | ⟨ha, hm, hcm⟩
  · simp only [uncondSlice, Var.dk, hc, show ¬ (3 < 3) by omega, if_false, if_true,
      show ¬ (DK.cat = DK.mr) by decide, FT.slice0, cubeOf, rawShapeOf, List.flatMap_cons,
      Var.rawShape, List.singleton_append, List.tail_cons, Var.validElems]
    congr 1
    funext ix
    have := key ix
    simp only [Var.msub, hc, List.singleton_append, cubeOf] at this
    simpa [List.getD] using this
  · have hk' : k < T.n := by simpa [Var.ext, ha] using hk
    simp only [uncondSlice, Var.dk, ha, hm, show ¬ (3 < 3) by omega, if_false, if_true,
      FT.slice0, cubeOf, rawShapeOf, List.flatMap_cons, Var.rawShape, List.cons_append,
      List.nil_append, List.tail_cons, Var.validElems]
    congr 1
    funext ix
    have := key ix
    simp only [Var.msub, ha, hcm, validIdxs_mr3, List.cons_append, List.nil_append, cubeOf,
      List.getElem?_range hk', List.getElem?_cons_zero, Option.getD_some] at this
    simpa [List.getD, List.getElem?_range hk'] using this

theorem surveyFits_restrict (T : Var) (vs : List Var) (s : Survey) (k : Nat)
    (hf : SurveyFits (T :: vs) s) : SurveyFits vs (restrictTo T k s) := by
  intro r hr
  unfold restrictTo at hr
  simp only [List.mem_map, List.mem_filter] at hr
  obtain ⟨r0, ⟨hr0, _⟩, rfl⟩ := hr
  have := hf r0 hr0
  match h : r0.ans, this with
  | aT :: as, this =>
    simp only [fitsDesign, Bool.and_eq_true] at this
    simpa [h] using this.2

theorem Var.specMem_nil (v : Var) (e : Nat) (m : Bool) : v.specMem [] [e] [m] = false := by
  unfold Var.specMem
  cases v.kind <;> simp

theorem restrict_pred_eq (T : Var) (k : Nat) (a : List (List Nat)) (g : List Nat → Bool) :
    (T.inElem (a.getD 0 []) k && g (a.getD 1 []))
      = ((match a with | aT :: _ => T.specMem aT [k] [false] | [] => false)
          && (true && g (a.tail.getD 0 []))) := by
  match a with
  | [] => simp [Var.inElem, Var.specMem_nil]
  | [aT] => simp [Var.inElem]
  | aT :: aR :: as => simp [Var.inElem]

/-- respondent-level shares of a partition = shares among the respondents of the table element -/
theorem baselineSpec_restrict (T R C : Var) (s : Survey) (k i : Nat) :
    baselineSpec ⟨some (T, k), R, C⟩ s i = baselineSpec ⟨none, R, C⟩ (restrictTo T k s) i := by
  unfold baselineSpec rowMembersW rowEligibleW restrictTo
  rw [wsum_filter_map s _ (fun r => { w := r.w, ans := r.ans.tail }) (fun _ => rfl),
    wsum_filter_map s _ (fun r => { w := r.w, ans := r.ans.tail }) (fun _ => rfl)]
  congr 2
  · apply wsum_congr
    intro r _
    exact restrict_pred_eq T k r.ans (fun a => R.inElem a i)
  · apply wsum_congr
    intro r _
    exact restrict_pred_eq T k r.ans (fun a => R.eligibleFor a i)

end CrCube

namespace CrCube

/-- 3-D: the model baseline of partition k of the tabulated cube (FIXED factory) is the
    respondent-level unconditional share among the respondents of table element k -/
theorem baselineOfCube_three (T R C : Var) (hT : T.CM3) (hR : R.CM3) (hC : C.CM3) (s : Survey)
    (hf : SurveyFits [T, R, C] s) (k i j : Nat) (hk : k < T.ext) (hi : i < R.ext) (hj : j < C.ext) :
    baselineOfCube [T, R, C] (cubeOf [T, R, C] s) k true i j = baselineSpec ⟨some (T, k), R, C⟩ s i := by
  rw [baselineSpec_restrict,
    ← baselineOfCube_two R C hR hC (restrictTo T k s) (surveyFits_restrict T [R, C] s k hf) 0 i j hi hj true]
  unfold baselineOfCube
  rw [apparentKinds_three T R C hT.cm hR.cm hC.cm, apparentKinds_two R C hR.cm hC.cm,
    apparentValidIdxs_cons T [R, C] hT.cm]
  simp only [List.length_cons, List.length_nil, List.getD]
  simp only [show (0 + 1 + 1 + 1 : Nat) = 3 by rfl, show (0 + 1 + 1 : Nat) = 2 by rfl,
    show (3 - 2 : Nat) = 1 by rfl, show (3 - 1 : Nat) = 2 by rfl, show (2 - 2 : Nat) = 0 by rfl,
    show (2 - 1 : Nat) = 1 by rfl, List.getElem?_cons_zero, List.getElem?_cons_succ,
    Option.getD_some]
  rw [uncondSlice_restrict T [R, C] hT s k hk]
  simp [uncondSlice]

/-- partition k of the count extractor = the 2-D extractor of the restricted survey -/
theorem sliceCounts_restrict (T R C : Var) (hT : T.CM) (hR : R.CM) (hC : C.CM) (s : Survey)
    (k : Nat) (hk : k < T.ext) :
    sliceCounts [T, R, C] (cubeOf [T, R, C] s) k
      = sliceCounts [R, C] (cubeOf [R, C] (restrictTo T k s)) 0 := by
  unfold sliceCounts
  rw [apparentKinds_three T R C hT hR hC, apparentKinds_two R C hR hC]
  have h := sliceExpr_restrict T [R, C] hT s k hk
  simp only [List.length_cons, List.length_nil, List.getD] at h ⊢
  simp only [show (0 + 1 + 1 + 1 : Nat) = 3 by rfl, show (0 + 1 + 1 : Nat) = 2 by rfl] at h ⊢
  simp only [show (3 - 2 : Nat) = 1 by rfl, show (3 - 1 : Nat) = 2 by rfl,
    show (2 - 2 : Nat) = 0 by rfl, show (2 - 1 : Nat) = 1 by rfl, List.getElem?_cons_zero,
    List.getElem?_cons_succ, Option.getD_some] at h ⊢
  rw [h]
  simp [sliceExpr]

theorem Var.inAny_single (v : Var) (a : List Nat) (e : Nat) : v.inAny a [e] = v.inElem a e := by
  simp [Var.inAny]

/-- column proportion of a base cell, 2-D: model quotient on the tabulated cube = spec -/
theorem colProp_two (R C : Var) (hR : R.CM) (hC : C.CM) (s : Survey) (hf : SurveyFits [R, C] s)
    (i j : Nat) (hi : i < R.ext) (hj : j < C.ext) :
    (sliceCounts [R, C] (cubeOf [R, C] s) 0).counts i j
        / (sliceCounts [R, C] (cubeOf [R, C] s) 0).columnBases i j
      = colPropSpec ⟨none, R, C⟩ s i j := by
  rw [slice2d_counts R C hR hC, slice2d_columnBases R C hR hC, raw_counts R C hR hC s i j hi hj,
    raw_colBases R C hR hC s i j hi hj, specCount_two R C hR hC, specCount_two R C hR hC]
  unfold colPropSpec
  congr 2
  · apply wsum_congr
    intro r hr
    obtain ⟨aR, aC, hra, _, _⟩ := fits_two R C r.ans (hf r hr)
    simp [hra, SliceDesign.isPos, SliceDesign.inTable, SliceDesign.inRowAdd, SliceDesign.inColAdd,
      SliceDesign.rowAns, SliceDesign.colAns, Side.base, Var.inAny, Var.inElem]
  · apply wsum_congr
    intro r hr
    obtain ⟨aR, aC, hra, _, _⟩ := fits_two R C r.ans (hf r hr)
    simp [hra, SliceDesign.inBase, SliceDesign.inTable, SliceDesign.rowElig, SliceDesign.inColAdd,
      SliceDesign.rowAns, SliceDesign.colAns, Side.base, Var.inAny, Var.inElem, Side.eligible,
      Var.eligibleFor]

theorem restrict_pred_eq2 (T : Var) (k : Nat) (a : List (List Nat)) (g : List Nat → List Nat → Bool) :
    (T.inElem (a.getD 0 []) k && g (a.getD 1 []) (a.getD 2 []))
      = ((match a with | aT :: _ => T.specMem aT [k] [false] | [] => false)
          && (true && g (a.tail.getD 0 []) (a.tail.getD 1 []))) := by
  match a with
  | [] => simp [Var.inElem, Var.specMem_nil]
  | [aT] => simp [Var.inElem]
  | [aT, aR] => simp [Var.inElem]
  | aT :: aR :: aC :: as => simp [Var.inElem]

theorem restrict_pred_eq3 (T : Var) (k : Nat) (a : List (List Nat)) (g1 g2 : List Nat → Bool) :
    (T.inElem (a.getD 0 []) k && g1 (a.getD 1 []) && g2 (a.getD 2 []))
      = ((match a with | aT :: _ => T.specMem aT [k] [false] | [] => false)
          && (true && g1 (a.tail.getD 0 []) && g2 (a.tail.getD 1 []))) := by
  match a with
  | [] => simp [Var.inElem, Var.specMem_nil]
  | [aT] => simp [Var.inElem, Bool.and_assoc]
  | [aT, aR] => simp [Var.inElem, Bool.and_assoc]
  | aT :: aR :: aC :: as => simp [Var.inElem, Bool.and_assoc]

theorem colPropSpec_restrict (T R C : Var) (s : Survey) (k i j : Nat) :
    colPropSpec ⟨some (T, k), R, C⟩ s i j = colPropSpec ⟨none, R, C⟩ (restrictTo T k s) i j := by
  unfold colPropSpec restrictTo
  rw [wsum_filter_map s _ (fun r => { w := r.w, ans := r.ans.tail }) (fun _ => rfl),
    wsum_filter_map s _ (fun r => { w := r.w, ans := r.ans.tail }) (fun _ => rfl)]
  congr 2
  · apply wsum_congr
    intro r _
    exact restrict_pred_eq3 T k r.ans (fun a => R.inAny a [i]) (fun b => C.inAny b [j])
  · apply wsum_congr
    intro r _
    exact restrict_pred_eq2 T k r.ans (fun a b => (Side.base i).eligible R a && C.inAny b [j])

end CrCube
