/-
  `shimCheck`, `Dim.alias`, `allElements`, `missingFlags` on the rendered dimension dicts; the
  `order` re-ordering lemma (`applyOrder` of a permuted typedef gives back the data order).
-/
import CrCube.Lemmas.GlueDims

set_option linter.unusedSimpArgs false

namespace CrCube.Glue
open CrCube

/-! ### list facts -/

theorem find?_unique {α : Type} {l : List α} {p : α → Bool} {x : α} (hx : x ∈ l) (hp : p x = true)
    (hu : ∀ y ∈ l, p y = true → y = x) : l.find? p = some x := by
  induction l with
  | nil => simp at hx
  | cons a as ih =>
    simp only [List.find?_cons]
    cases hpa : p a with
    | true => simp [hu a List.mem_cons_self hpa]
    | false =>
      simp only
      have : x ∈ as := by
        rcases List.mem_cons.mp hx with h | h
        · subst h; simp [hp] at hpa
        · exact h
      exact ih this (fun y hy => hu y (List.mem_cons_of_mem _ hy))

theorem nodup_map_inj {α β : Type} {f : α → β} {l : List α} (h : (l.map f).Nodup) {x y : α}
    (hx : x ∈ l) (hy : y ∈ l) (hxy : f x = f y) : x = y := by
  induction l with
  | nil => simp at hx
  | cons a as ih =>
    simp only [List.map_cons, List.nodup_cons, List.mem_map, not_exists, not_and] at h
    rcases List.mem_cons.mp hx with rfl | hx' <;> rcases List.mem_cons.mp hy with rfl | hy'
    · rfl
    · exact absurd hxy.symm (h.1 y hy')
    · exact absurd hxy (h.1 x hx')
    · exact ih h.2 hx' hy'

/-! ### `order` -/

theorem codemapLookup_render (tc : List RCat) (c : RCat) (hc : c ∈ tc)
    (hu : ∀ c' ∈ tc, c'.id = c.id → c' = c) :
    codemapLookup (tc.map (fun c' => (jInt c'.id, renderCat c'))) (jInt c.id) = some (renderCat c) := by
  unfold codemapLookup
  rw [← List.map_reverse, List.find?_map]
  have : tc.reverse.find? ((fun p : J × J => scalarEq p.1 (jInt c.id)) ∘ fun c' => (jInt c'.id, renderCat c'))
      = some c := by
    apply find?_unique (List.mem_reverse.mpr hc)
    · simp
    · intro y hy hp
      simp only [Function.comp, scalarEq_jInt, beq_iff_eq] at hp
      exact hu y (List.mem_reverse.mp hy) hp
  rw [this]; rfl

theorem cats_mem_typedefCats (v : RVar) (h : v.WFP) (c : RCat) (hc : c ∈ v.cats) : c ∈ v.typedefCats := by
  unfold RVar.typedefCats
  cases hp : v.typedefPerm with
  | none => exact hc
  | some p =>
    obtain ⟨i, hi, rfl⟩ := List.getElem_of_mem hc
    simp only [List.mem_filterMap]
    exact ⟨i, (h.perm p hp).2 i hi, by simp [hi]⟩

theorem applyOrder_render (v : RVar) (h : v.WFP) (p : List Nat) (hp : v.typedefPerm = some p) :
    applyOrder (v.typedefCats.map renderCat) (.arr (v.cats.map (fun c => jInt c.id)))
      = .ok (v.cats.map renderCat) := by
  unfold applyOrder
  have hk : mapR (fun e => do
        let k ← item e "id"
        if hashable k then pure (k, e) else .error .typeError) (v.typedefCats.map renderCat)
      = .ok (v.typedefCats.map (fun c' => (jInt c'.id, renderCat c'))) := by
    apply mapR_map_ok
    intro c hc
    rw [item_renderCat_id c (h.cats c (typedefCats_mem v c hc))]
    simp [hashable, jInt]
  rw [hk]
  simp only [R_bind_ok, iter]
  have hpick : mapR (fun c => if hashable c then
        .ok (codemapLookup (v.typedefCats.map (fun c' => (jInt c'.id, renderCat c'))) c)
        else .error .typeError) (v.cats.map (fun c => jInt c.id))
      = .ok (v.cats.map (fun c => some (renderCat c))) := by
    apply mapR_map_ok
    intro c hc
    simp only [hashable, jInt, if_true]
    rw [← jInt]
    congr 1
    apply codemapLookup_render _ _ (cats_mem_typedefCats v h c hc)
    intro c' hc' hid
    exact nodup_map_inj (h.perm p hp).1 (typedefCats_mem v c' hc') hc hid
  rw [hpick]
  simp only [R_bind_ok, R_pure]
  congr 1
  induction v.cats with
  | nil => rfl
  | cons a as ih => simp [List.filterMap_cons, ih]

/-! ### `shimCheck`, `alias` -/

theorem shimCheck_nonarray (dt : DT) (d : J) (h1 : dt.isArray = false) (h2 : dt ≠ .datetime) :
    shimCheck dt d = .ok () := by
  simp [shimCheck, h1, h2]

theorem shimCheck_items (v : RVar) (h : v.WFP) (dt : DT) (hdt : dt.isArray = true) :
    shimCheck dt (v.enumDim (v.items.map renderItem)) = .ok () := by
  unfold shimCheck
  simp only [hdt, if_true, item_enumDim_type, R_bind_ok, item_enumType_elements, iter]
  have : mapR shimArrayElem (v.items.map renderItem) = .ok (v.items.map (fun _ => ())) := by
    apply mapR_map_ok
    intro it hit
    simp [shimArrayElem, get_renderItem_value it (h.items it hit), get_valueJ_references, item_renderItem_id]
  rw [this]
  rfl

theorem shimCheck_datetime (v : RVar) (h : v.WFP) :
    shimCheck .datetime (v.enumDim (v.elems.map renderElem)) = .ok () := by
  unfold shimCheck
  simp only [DT.isArray, if_true, item_enumDim_type, R_bind_ok, item_enumType_elements, iter]
  have : mapR (fun e => item e "value") (v.elems.map renderElem) = .ok (v.elems.map (·.value)) := by
    apply mapR_map_ok
    intro e he
    exact item_renderElem_value e (h.elems e he)
  simp [this]

theorem alias_catDim (v : RVar) (te : List (String × J)) (dt : DT) (h1 : dt.isArray = false)
    (h2 : dt ≠ .datetime) : (Dim.mk (v.catDim te) dt).alias = .ok (.str v.alias) := by
  simp [Dim.alias, shimCheck_nonarray dt _ h1 h2, item_catDim_references, get_references_alias]

theorem alias_itemsDim (v : RVar) (h : v.WFP) (dt : DT) (hdt : dt.isArray = true) :
    (Dim.mk (v.enumDim (v.items.map renderItem)) dt).alias = .ok (.str v.alias) := by
  simp [Dim.alias, shimCheck_items v h dt hdt, item_enumDim_references, get_references_alias]

/-! ### `allElements`, `missingFlags` -/

theorem dataFormatCheck_catDim (v : RVar) (h : v.WFP) (te : List (String × J))
    (hte : te.lookup "subtype" = none) : dataFormatCheck (v.catDim te) = .ok () := by
  unfold dataFormatCheck
  simp only [get_catDim_references, R_bind_ok, get_references_format v h, get_catDim_type,
    get_catType_subtype v te hte]
  have hf := h.fmt
  unfold formatOk at hf
  cases hl : v.refsExtra.lookup "format" with
  | none => simp [J.truthy, get, J.empty, List.lookup]
  | some j =>
    rw [hl] at hf
    cases j with
    | obj kvs =>
      cases kvs with
      | nil => simp [J.truthy, get, J.empty, List.lookup]
      | cons p ps =>
        simp only [Option.getD_some, J.truthy, List.isEmpty_cons, Bool.not_false, if_true, get,
          R_bind_ok, R_pure]
        split <;> simp [get, J.empty, List.lookup]
    | null => simp [J.truthy, get, J.empty, List.lookup]
    | bool b => cases b <;> simp [J.truthy, get, J.empty, List.lookup] at hf ⊢
    | num q =>
      simp only [J.truthy, Bool.not_eq_true', decide_eq_false_iff_not, ne_eq, Decidable.not_not] at hf
      simp [J.truthy, hf, get, J.empty, List.lookup]
    | str s =>
      simp only [J.truthy, Bool.not_eq_true', decide_eq_false_iff_not, ne_eq, Decidable.not_not] at hf
      simp [J.truthy, hf, get, J.empty, List.lookup]
    | arr l =>
      cases l with
      | nil => simp [J.truthy, get, J.empty, List.lookup]
      | cons a as => simp [J.truthy] at hf


theorem dataFormatCheck_enumDim (v : RVar) (h : v.WFP) (els : List J) :
    dataFormatCheck (v.enumDim els) = .ok () := by
  unfold dataFormatCheck
  simp only [get_enumDim_references, R_bind_ok, get_references_format v h, get_enumDim_type,
    get_enumType_subtype]
  have hf := h.fmt
  unfold formatOk at hf
  cases hl : v.refsExtra.lookup "format" with
  | none => simp [J.truthy, get]
  | some j =>
    rw [hl] at hf
    cases j with
    | obj kvs =>
      cases kvs with
      | nil => simp [J.truthy, get]
      | cons p ps =>
        simp only [Option.getD_some, J.truthy, List.isEmpty_cons, Bool.not_false, if_true, get,
          R_bind_ok, R_pure]
        split <;> simp [get]
    | null => simp [J.truthy, get]
    | bool b => cases b <;> simp [J.truthy, get] at hf ⊢
    | num q =>
      simp only [J.truthy, Bool.not_eq_true', decide_eq_false_iff_not, ne_eq, Decidable.not_not] at hf
      simp [J.truthy, hf, get]
    | str s =>
      simp only [J.truthy, Bool.not_eq_true', decide_eq_false_iff_not, ne_eq, Decidable.not_not] at hf
      simp [J.truthy, hf, get]
    | arr l =>
      cases l with
      | nil => simp [J.truthy, get]
      | cons a as => simp [J.truthy] at hf

theorem typedefCats_none (v : RVar) (hp : v.typedefPerm = none) : v.typedefCats = v.cats := by
  simp [RVar.typedefCats, hp]

theorem elementDefs_catType (v : RVar) (h : v.WFP) (te : List (String × J))
    (hte : te.lookup "order" = none) : elementDefs (v.catTypeJ te) = .ok (v.cats.map renderCat) := by
  unfold elementDefs
  simp only [item_catType_class, R_bind_ok, scalarEq_str, beq_self_eq_true, if_true,
    item_catType_categories, get_catType_order v te hte]
  cases hp : v.typedefPerm with
  | none => simp [isNull, iter, typedefCats_none v hp]
  | some p => simpa [isNull, iter] using applyOrder_render v h p hp

theorem elementDefs_enumType (v : RVar) (h : v.WFP) (els : List J) :
    elementDefs (v.enumTypeJ els) = .ok els := by
  unfold elementDefs
  simp [item_enumType_class, item_enumType_elements, get_enumType_order v els h, isNull, iter]

theorem buildIdCheck_renderCat (dt : DT) (h1 : dt.isArray = false) (h2 : dt ≠ .datetime) (c : RCat)
    (hc : c.Lk) : buildIdCheck dt (renderCat c) = .ok () := by
  simp [buildIdCheck, h1, h2, item_renderCat_id c hc, hashable, jInt]

theorem buildIdCheck_array (dt : DT) (h1 : dt.isArray = true) (e : J) : buildIdCheck dt e = .ok () := by
  simp [buildIdCheck, h1]

theorem buildIdCheck_renderElem (dt : DT) (h1 : dt.isArray = false) (e : RElem) (he : e.Lk)
    (hv : dt = .datetime → (isDict e.value || hashable e.value) = true) :
    buildIdCheck dt (renderElem e) = .ok () := by
  unfold buildIdCheck
  simp only [h1, Bool.false_eq_true, if_false]
  by_cases hd : dt = .datetime
  · simp only [hd, if_true, item_renderElem_value e he, R_bind_ok]
    have := hv hd
    cases hval : e.value <;> simp [hval, isDict, hashable, item_renderElem_id, jInt] at this ⊢
  · simp [hd, item_renderElem_id, hashable, jInt]

/-- all elements of the categorical dimension dict: the categories in DATA order -/
theorem allElements_catDim (v : RVar) (h : v.WFP) (te : List (String × J))
    (hte : lacks te ["class", "categories", "elements", "order", "subtype"] = true) (dt : DT)
    (h1 : dt.isArray = false) (h2 : dt ≠ .datetime) :
    allElements ⟨v.catDim te, dt⟩ = .ok (v.cats.map renderCat) := by
  unfold allElements
  simp only [shimCheck_nonarray dt _ h1 h2, R_bind_ok, item_catDim_type,
    dataFormatCheck_catDim v h te (lacks_lookup hte (by simp)),
    elementDefs_catType v h te (lacks_lookup hte (by simp))]
  rw [mapR_map_ok (g := fun _ => ()) (fun c hc => buildIdCheck_renderCat dt h1 h2 c (h.cats c hc))]
  rfl

theorem missingFlags_catDim (v : RVar) (h : v.WFP) (te : List (String × J))
    (hte : lacks te ["class", "categories", "elements", "order", "subtype"] = true) (dt : DT)
    (h1 : dt.isArray = false) (h2 : dt ≠ .datetime) :
    missingFlags ⟨v.catDim te, dt⟩ = .ok v.catFlags := by
  unfold missingFlags
  rw [allElements_catDim v h te hte dt h1 h2]
  simp only [R_bind_ok, RVar.catFlags]
  exact mapR_map_ok (fun c hc => elemMissing_renderCat c (h.cats c hc))

theorem allElements_itemsDim (v : RVar) (h : v.WFP) (dt : DT) (hdt : dt.isArray = true) :
    allElements ⟨v.enumDim (v.items.map renderItem), dt⟩ = .ok (v.items.map renderItem) := by
  unfold allElements
  simp only [shimCheck_items v h dt hdt, R_bind_ok, item_enumDim_type, dataFormatCheck_enumDim v h,
    elementDefs_enumType v h]
  rw [mapR_map_ok (g := fun _ => ()) (fun it _ => buildIdCheck_array dt hdt (renderItem it))]
  rfl

theorem missingFlags_itemsDim (v : RVar) (h : v.WFP) (dt : DT) (hdt : dt.isArray = true) :
    missingFlags ⟨v.enumDim (v.items.map renderItem), dt⟩ = .ok v.itemFlags := by
  unfold missingFlags
  rw [allElements_itemsDim v h dt hdt]
  simp only [R_bind_ok, RVar.itemFlags]
  exact mapR_map_ok (fun it hit => elemMissing_renderItem it (h.items it hit))

theorem shimCheck_elemsDim (v : RVar) (h : v.WFP) (dt : DT) (h1 : dt.isArray = false) :
    shimCheck dt (v.enumDim (v.elems.map renderElem)) = .ok () := by
  by_cases hd : dt = .datetime
  · subst hd; exact shimCheck_datetime v h
  · exact shimCheck_nonarray dt _ h1 hd

theorem allElements_elemsDim (v : RVar) (h : v.WFP) (dt : DT) (h1 : dt.isArray = false)
    (hv : dt = .datetime → ∀ e ∈ v.elems, (isDict e.value || hashable e.value) = true) :
    allElements ⟨v.enumDim (v.elems.map renderElem), dt⟩ = .ok (v.elems.map renderElem) := by
  unfold allElements
  simp only [shimCheck_elemsDim v h dt h1, R_bind_ok, item_enumDim_type, dataFormatCheck_enumDim v h,
    elementDefs_enumType v h]
  rw [mapR_map_ok (g := fun _ => ())
    (fun e he => buildIdCheck_renderElem dt h1 e (h.elems e he) (fun hd => hv hd e he))]
  rfl

theorem missingFlags_elemsDim (v : RVar) (h : v.WFP) (dt : DT) (h1 : dt.isArray = false)
    (hv : dt = .datetime → ∀ e ∈ v.elems, (isDict e.value || hashable e.value) = true) :
    missingFlags ⟨v.enumDim (v.elems.map renderElem), dt⟩ = .ok v.elemFlags := by
  unfold missingFlags
  rw [allElements_elemsDim v h dt h1 hv]
  simp only [R_bind_ok, RVar.elemFlags]
  exact mapR_map_ok (fun e he => elemMissing_renderElem e (h.elems e he))

end CrCube.Glue
