/-
  Helper lemmas for Props/C05_PipelineMeasures: positions, cell-wise assembly, surrogates.
-/
import CrCube.Lemmas.Pipeline
import CrCube.Model.PipelineMeasures

set_option linter.unusedSimpArgs false
set_option linter.unusedVariables false

namespace CrCube.Pipeline
open CrCube CrCube.Collator

/-! ## positions -/

theorem posOf_nat (n nins i : Nat) (h : i < n) : posOf n nins (i : Int) = .base i := by
  unfold posOf
  simp only [wrapIdx_nat]
  simp [h]

theorem posOf_neg (n nins k : Nat) (h : k < nins) : posOf n nins ((k : Int) - (nins : Int)) = .ins k := by
  unfold posOf
  simp only [wrapIdx_neg _ _ _ h (Nat.le_add_left nins n)]
  have h1 : ¬ (n + nins - nins + k < n) := by omega
  have h2 : n + nins - nins + k - n = k := by omega
  simp [h1, h2]

theorem blockAt_blocksOfFn (nr nc nrs ncs : Nat) (f : Pos → Pos → Val) (P Q : Pos) :
    blockAt (blocksOfFn nr nc nrs ncs f) P Q = f P Q := by
  cases P <;> cases Q <;> rfl

/-- `np.block(blocks)[x, y]` with python negative indexing reads the block cell at the positions
    the two signed indexes name -/
theorem cell_eq_blockAt (b : Blocks) (x y : Int) :
    (toA b).cell x y = blockAt b (posOf b.nr b.nrs x) (posOf b.nc b.ncs y) := by
  unfold ABlocks.cell ABlocks.full posOf toA
  simp only
  by_cases hx : wrapIdx (b.nr + b.nrs) x < b.nr <;> by_cases hy : wrapIdx (b.nc + b.ncs) y < b.nc <;>
    simp [hx, hy, blockAt]

theorem assembleMatrix_eq_cells (b : Blocks) (ro co : List Int) :
    assembleMatrix (toA b) ro co = assembleCells b.nr b.nrs b.nc b.ncs (blockAt b) ro co := by
  unfold assembleMatrix assembleCells
  apply List.map_congr_left
  intro x _
  apply List.map_congr_left
  intro y _
  exact cell_eq_blockAt b x y

theorem assembleCells_cell {α : Type} (nr nrs nc ncs : Nat) (f : Pos → Pos → α) (ro co : List Int)
    (p q : Nat) (x y : Int) (d : α) (hp : ro[p]? = some x) (hq : co[q]? = some y) :
    ((assembleCells nr nrs nc ncs f ro co).getD p []).getD q d = f (posOf nr nrs x) (posOf nc ncs y) := by
  unfold assembleCells
  simp [List.getD, List.getElem?_map, hp, hq]

/-- cell-wise assembled measures re-index like block-assembled ones -/
theorem assembleCells_reindex {α : Type} (nr nrs nc ncs : Nat) (f : Pos → Pos → α) (d : α)
    (ro co ro0 co0 : List Int) (hr : ∀ x ∈ ro, x ∈ ro0) (hc : ∀ y ∈ co, y ∈ co0) :
    assembleCells nr nrs nc ncs f ro co =
      ro.map fun x => co.map fun y =>
        ((assembleCells nr nrs nc ncs f ro0 co0).getD (ro0.idxOf x) []).getD (co0.idxOf y) d := by
  unfold assembleCells
  apply List.map_congr_left
  intro x hx
  apply List.map_congr_left
  intro y hy
  rw [CrCube.C05.getD_idxOf_map ro0 _ x [] (hr x hx),
    CrCube.C05.getD_idxOf_map co0 (fun y => f (posOf nr nrs x) (posOf nc ncs y)) y d (hc y hy)]

theorem assembleCells_extent {α : Type} (nr nrs nc ncs : Nat) (f : Pos → Pos → α) (ro co : List Int) :
    (assembleCells nr nrs nc ncs f ro co).length = ro.length ∧
    ∀ row ∈ assembleCells nr nrs nc ncs f ro co, row.length = co.length := by
  unfold assembleCells
  refine ⟨by simp, ?_⟩
  intro row hrow
  simp only [List.mem_map] at hrow
  obtain ⟨_, _, rfl⟩ := hrow
  simp

theorem takeOrder_reindex {α : Type} (xs : List α) (d : α) (o o0 : List Int) (h : ∀ x ∈ o, x ∈ o0) :
    takeOrder xs d o = o.map fun x => (takeOrder xs d o0).getD (o0.idxOf x) d := by
  unfold takeOrder
  apply List.map_congr_left
  intro x hx
  exact (CrCube.C05.getD_idxOf_map o0 (fun si => xs.getD (wrapIdx xs.length si) d) x d (h x hx)).symm

theorem takeOrder_cell {α : Type} (xs : List α) (d : α) (o : List Int) (p : Nat) (x : Int)
    (hp : o[p]? = some x) : (takeOrder xs d o).getD p d = xs.getD (wrapIdx xs.length x) d := by
  unfold takeOrder
  simp [List.getD, List.getElem?_map, hp]

/-! ## z-score guards -/

theorem zGuards_at (m : MatCounts) (x : SubCtx) (P Q : Pos) :
    (zGuards m x).at P Q = zGuardAt m x P Q := by
  cases P <;> cases Q <;> rfl

/-! ## the sort surrogates are the surrogates of the symbolic values -/

theorem outKey_sqrt (x : Val) : outKey (.sqrt x) = sqrtKey x := rfl
theorem outKey_divSqrt (n d : Val) : outKey (.divSqrt n d) = divSqrtKey n d := rfl
theorem outKey_normTail2 (z : Out) : outKey (.normTail2 z) = normTailKey (outKey z) := rfl
theorem outKey_v (x : Val) : outKey (.v x) = x := rfl

end CrCube.Pipeline
