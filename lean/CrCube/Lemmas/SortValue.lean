/-
  Helper lemmas for property C08 (sort-by-value collation): `mergeSort` under an order that is
  total / transitive on the non-NaN members only, the split of `sortIdxs` into a sorted part
  and the NaN tail, index bookkeeping for `zipIdx`, and the algebra of `dedup` /
  `firstMentions` ("first mention wins").
-/
import CrCube.Spec.Order
import Mathlib.Data.List.Induction

open CrCube CrCube.Collator CrCube.OrderSpec

namespace CrCube.Lemmas.SortValue

/-- `pairwise_mergeSort` when the order is only total/transitive on the members (predicate `P`). -/
theorem pairwise_mergeSort_of_mem {α : Type} (le : α → α → Bool) (P : α → Prop) (l : List α)
    (hP : ∀ x ∈ l, P x)
    (trans : ∀ a b c, P a → P b → P c → le a b = true → le b c = true → le a c = true)
    (total : ∀ a b, P a → P b → le a b = true ∨ le b a = true) :
    (l.mergeSort le).Pairwise (fun a b => le a b = true) := by
  let l' : List {x // P x} := l.pmap Subtype.mk hP
  have hl' : l'.map Subtype.val = l := by simp [l', List.map_pmap]
  have hm := List.map_mergeSort (r := fun a b : {x // P x} => le a.1 b.1) (s := le)
    (f := Subtype.val) (l := l') (fun _ _ _ _ => rfl)
  rw [hl'] at hm
  rw [← hm, List.pairwise_map]
  exact List.pairwise_mergeSort (le := fun a b : {x // P x} => le a.1 b.1)
    (fun a b c => trans a.1 b.1 c.1 a.2 b.2 c.2)
    (fun a b => by simpa using total a.1 b.1 a.2 b.2) l'

variable {α : Type} (ops : ValOps α)

theorem tupLe_le {a b : α × Int} (h : tupLe ops a b = true) : ops.le a.1 b.1 = true := by
  unfold tupLe at h
  split at h
  · simp_all
  · exact h

theorem tupLe_total
    (hTot : ∀ a b, ops.isNan a = false → ops.isNan b = false → ops.le a b = true ∨ ops.le b a = true)
    (a b : α × Int) (ha : ops.isNan a.1 = false) (hb : ops.isNan b.1 = false) :
    tupLe ops a b = true ∨ tupLe ops b a = true := by
  unfold tupLe
  rcases hTot a.1 b.1 ha hb with h | h <;> cases h' : ops.le a.1 b.1 <;> cases h'' : ops.le b.1 a.1 <;>
    simp_all <;> omega

theorem tupLe_trans
    (hTr : ∀ a b c, ops.isNan a = false → ops.isNan b = false → ops.isNan c = false →
      ops.le a b = true → ops.le b c = true → ops.le a c = true)
    (a b c : α × Int) (ha : ops.isNan a.1 = false) (hb : ops.isNan b.1 = false)
    (hc : ops.isNan c.1 = false) (hab : tupLe ops a b = true) (hbc : tupLe ops b c = true) :
    tupLe ops a c = true := by
  have tr := hTr
  unfold tupLe at *
  cases h1 : ops.le a.1 b.1 <;> cases h2 : ops.le b.1 a.1 <;>
  cases h3 : ops.le b.1 c.1 <;> cases h4 : ops.le c.1 b.1 <;>
  cases h5 : ops.le a.1 c.1 <;> cases h6 : ops.le c.1 a.1 <;> simp_all <;>
  first
    | omega
    | solve
      | (have := tr a.1 b.1 c.1 ha hb hc; simp_all)
      | (have := tr c.1 a.1 b.1 hc ha hb; simp_all)
      | (have := tr b.1 c.1 a.1 hb hc ha; simp_all)


theorem sortIdxs_perm (desc : Bool) (pairs : List (α × Int)) :
    (sortIdxs ops desc pairs).Perm (pairs.map (·.2)) := by
  unfold sortIdxs
  refine List.Perm.map _ ?_
  have h1 : (if desc = true then ((pairs.filter (fun p => !ops.isNan p.1)).mergeSort (tupLe ops)).reverse
      else (pairs.filter (fun p => !ops.isNan p.1)).mergeSort (tupLe ops)).Perm
      (pairs.filter (fun p => !ops.isNan p.1)) := by
    split
    · exact (List.reverse_perm _).trans (List.mergeSort_perm _ _)
    · exact List.mergeSort_perm _ _
  refine (List.Perm.append_right _ h1).trans ?_
  have := List.filter_append_perm (fun p : α × Int => !ops.isNan p.1) pairs
  simpa using this

theorem sortIdxs_split_tup
    (hTot : ∀ a b, ops.isNan a = false → ops.isNan b = false → ops.le a b = true ∨ ops.le b a = true)
    (hTr : ∀ a b c, ops.isNan a = false → ops.isNan b = false → ops.isNan c = false →
      ops.le a b = true → ops.le b c = true → ops.le a c = true)
    (desc : Bool) (pairs : List (α × Int)) :
    ∃ S : List (α × Int),
      S.Perm (pairs.filter (fun p => !ops.isNan p.1)) ∧
      S.Pairwise (fun p q => (if desc then tupLe ops q p else tupLe ops p q) = true) ∧
      sortIdxs ops desc pairs = S.map (·.2) ++ (pairs.filter (fun p => ops.isNan p.1)).map (·.2) := by
  have hs := pairwise_mergeSort_of_mem (tupLe ops) (fun p => ops.isNan p.1 = false)
    (pairs.filter (fun p => !ops.isNan p.1)) (by simp)
    (tupLe_trans ops hTr) (tupLe_total ops hTot)
  cases desc
  · exact ⟨(pairs.filter (fun p => !ops.isNan p.1)).mergeSort (tupLe ops),
      List.mergeSort_perm _ _, by simpa using hs, by simp [sortIdxs]⟩
  · refine ⟨((pairs.filter (fun p => !ops.isNan p.1)).mergeSort (tupLe ops)).reverse,
      (List.reverse_perm _).trans (List.mergeSort_perm _ _), ?_, by simp [sortIdxs]⟩
    simpa [List.pairwise_reverse] using hs

/-! ## `zipIdx` bookkeeping -/

theorem zipIdx_filter_map_snd {β : Type} (l : List α) (f : Nat → β) (q : α × β → Bool) :
    ((l.zipIdx.map (fun p => (p.1, f p.2))).filter q).map (·.2)
      = ((List.range l.length).filter (fun i => l[i]?.any (fun v => q (v, f i)))).map f := by
  induction l using List.reverseRecOn with
  | nil => simp
  | append_singleton l a ih =>
    simp only [List.zipIdx_append, List.map_append, List.filter_append, List.length_append,
      List.length_singleton, List.range_succ, ih]
    congr 1
    · congr 1
      apply List.filter_congr
      intro i hi
      have : i < l.length := by simpa using hi
      simp [List.getElem?_append_left this]
    · simp [List.zipIdx]
      by_cases h : q (a, f l.length) = true <;> simp [h]

theorem mem_zipIdx_map {β : Type} (l : List α) (f : Nat → β) (p : α × β) :
    p ∈ l.zipIdx.map (fun p => (p.1, f p.2)) ↔ ∃ i, l[i]? = some p.1 ∧ p.2 = f i := by
  simp only [List.mem_map, Prod.exists, List.mem_zipIdx_iff_getElem?]
  constructor
  · rintro ⟨a, i, h, rfl⟩; exact ⟨i, h, rfl⟩
  · rintro ⟨i, h, h2⟩; exact ⟨p.1, i, h, by rw [← h2]⟩

theorem zip_negIdxs (l : List α) :
    l.zip (negIdxs l.length) = l.zipIdx.map (fun p => (p.1, (p.2 : Int) - (l.length : Int))) := by
  rw [List.zipIdx_eq_zip_range', negIdxs, List.range_eq_range', List.zip_map_right]
  rfl

/-! ## `sortIdxs` on an indexed value list -/

theorem sortIdxs_indexed
    (hTot : ∀ a b, ops.isNan a = false → ops.isNan b = false → ops.le a b = true ∨ ops.le b a = true)
    (hTr : ∀ a b c, ops.isNan a = false → ops.isNan b = false → ops.isNan c = false →
      ops.le a b = true → ops.le b c = true → ops.le a c = true)
    (desc : Bool) (l : List α) (f : Nat → Int) (g : Int → Bool) :
    ∃ K : List Int,
      sortIdxs ops desc ((l.zipIdx.map (fun p => (p.1, f p.2))).filter (fun p => g p.2)) =
        K ++ ((List.range l.length).filter
              (fun i => l[i]?.any (fun v => ops.isNan v && g (f i)))).map f ∧
      K.Perm (((List.range l.length).filter
              (fun i => l[i]?.any (fun v => !ops.isNan v && g (f i)))).map f) ∧
      K.Pairwise (fun x y => ∃ i j a b, x = f i ∧ y = f j ∧ l[i]? = some a ∧ l[j]? = some b ∧
        ops.isNan a = false ∧ ops.isNan b = false ∧
        (if desc then ops.le b a else ops.le a b) = true) := by
  obtain ⟨S, hperm, hpw, heq⟩ := sortIdxs_split_tup ops hTot hTr desc
    ((l.zipIdx.map (fun p => (p.1, f p.2))).filter (fun p => g p.2))
  refine ⟨S.map (·.2), ?_, ?_, ?_⟩
  · rw [heq, List.filter_filter, zipIdx_filter_map_snd]
  · refine (hperm.map _).trans ?_
    rw [List.filter_filter, zipIdx_filter_map_snd]
  · rw [List.pairwise_map]
    refine hpw.imp_of_mem ?_
    intro p q hp hq h
    have hp' := (hperm.mem_iff.1 hp)
    have hq' := (hperm.mem_iff.1 hq)
    simp only [List.mem_filter, mem_zipIdx_map, Bool.not_eq_eq_eq_not, Bool.not_true] at hp' hq'
    obtain ⟨⟨⟨i, hi, hi2⟩, _⟩, hpn⟩ := hp'
    obtain ⟨⟨⟨j, hj, hj2⟩, _⟩, hqn⟩ := hq'
    refine ⟨i, j, p.1, q.1, hi2, hj2, hi, hj, hpn, hqn, ?_⟩
    cases desc
    · exact tupLe_le ops h
    · exact tupLe_le ops h

/-! ## `dedup` / `firstMentions`: first mention wins -/

theorem dedupAux_nil (seen : List Int) : dedupAux seen [] = [] := by rw [dedupAux]

theorem dedupAux_cons_pos {seen : List Int} {x : Int} (xs : List Int) (h : x ∈ seen) :
    dedupAux seen (x :: xs) = dedupAux seen xs := by
  rw [dedupAux, if_pos (by simpa using h)]

theorem dedupAux_cons_neg {seen : List Int} {x : Int} (xs : List Int) (h : x ∉ seen) :
    dedupAux seen (x :: xs) = x :: dedupAux (x :: seen) xs := by
  rw [dedupAux, if_neg (by simpa using h)]

theorem mem_dedupAux (seen l : List Int) (x : Int) :
    x ∈ dedupAux seen l ↔ x ∈ l ∧ x ∉ seen := by
  induction l generalizing seen with
  | nil => simp [dedupAux_nil]
  | cons y ys ih =>
    by_cases h : y ∈ seen
    · rw [dedupAux_cons_pos _ h, ih]; grind
    · rw [dedupAux_cons_neg _ h, List.mem_cons, ih]; grind

theorem dedupAux_nodup (seen l : List Int) : (dedupAux seen l).Nodup := by
  induction l generalizing seen with
  | nil => simp [dedupAux_nil]
  | cons y ys ih =>
    by_cases h : y ∈ seen
    · rw [dedupAux_cons_pos _ h]; exact ih seen
    · rw [dedupAux_cons_neg _ h]
      exact List.nodup_cons.2 ⟨by simp [mem_dedupAux], ih _⟩

theorem dedupAux_sublist (seen l : List Int) : (dedupAux seen l).Sublist l := by
  induction l generalizing seen with
  | nil => simp [dedupAux_nil]
  | cons y ys ih =>
    by_cases h : y ∈ seen
    · rw [dedupAux_cons_pos _ h]; exact (ih seen).cons _
    · rw [dedupAux_cons_neg _ h]; exact (ih _).cons_cons _

theorem dedupAux_congr (s s' l : List Int) (h : ∀ x, x ∈ s ↔ x ∈ s') :
    dedupAux s l = dedupAux s' l := by
  induction l generalizing s s' with
  | nil => simp [dedupAux_nil]
  | cons y ys ih =>
    by_cases hy : y ∈ s
    · rw [dedupAux_cons_pos _ hy, dedupAux_cons_pos _ ((h y).1 hy), ih s s' h]
    · rw [dedupAux_cons_neg _ hy, dedupAux_cons_neg _ (fun h' => hy ((h y).2 h')),
        ih (y :: s) (y :: s') (by intro x; simp [h x])]

theorem dedupAux_eq_filter (seen l : List Int) :
    dedupAux seen l = (dedup l).filter (fun x => !seen.contains x) := by
  unfold dedup
  induction l generalizing seen with
  | nil => simp [dedupAux_nil]
  | cons y ys ih =>
    rw [dedupAux_cons_neg (seen := []) _ (by simp)]
    by_cases h : y ∈ seen
    · rw [dedupAux_cons_pos _ h, List.filter_cons_of_neg (by simpa using h), ih seen, ih [y],
        List.filter_filter]
      apply List.filter_congr
      intro x _
      by_cases hxy : x = y
      · subst hxy; simpa using h
      · simp [hxy]
    · rw [dedupAux_cons_neg _ h, List.filter_cons_of_pos (by simpa using h), ih (y :: seen),
        ih [y], List.filter_filter]
      congr 1
      apply List.filter_congr
      intro x _
      simp [Bool.and_comm]

theorem dedup_nodup (l : List Int) : (dedup l).Nodup := dedupAux_nodup [] l

theorem dedup_mem (l : List Int) (x : Int) : x ∈ dedup l ↔ x ∈ l := by
  simp [dedup, mem_dedupAux]

theorem dedup_sublist (l : List Int) : (dedup l).Sublist l := dedupAux_sublist [] l

theorem dedup_nil : dedup [] = [] := dedupAux_nil []

theorem dedup_cons (x : Int) (xs : List Int) :
    dedup (x :: xs) = x :: (dedup xs).filter (fun y => !(y == x)) := by
  have : dedup (x :: xs) = x :: dedupAux [x] xs := dedupAux_cons_neg (seen := []) _ (by simp)
  rw [this, dedupAux_eq_filter]
  congr 1
  apply List.filter_congr
  intro y _
  by_cases hy : y = x <;> simp [hy]

theorem dedupAux_append (seen a b : List Int) :
    dedupAux seen (a ++ b) = dedupAux seen a ++ dedupAux (a ++ seen) b := by
  induction a generalizing seen with
  | nil => simp [dedupAux_nil]
  | cons y ys ih =>
    rw [List.cons_append]
    by_cases h : y ∈ seen
    · rw [dedupAux_cons_pos _ h, dedupAux_cons_pos _ h, ih]
      congr 1
      apply dedupAux_congr
      intro x; grind
    · rw [dedupAux_cons_neg _ h, dedupAux_cons_neg _ h, ih, List.cons_append]
      congr 2
      apply dedupAux_congr
      intro x; grind

theorem dedup_append (a b : List Int) :
    dedup (a ++ b) = dedup a ++ (dedup b).filter (fun x => !a.contains x) := by
  have := dedupAux_append [] a b
  rw [dedupAux_eq_filter (a ++ []) b, List.append_nil] at this
  exact this

theorem dedup_eq_self_of_nodup (l : List Int) (h : l.Nodup) : dedup l = l := by
  induction l with
  | nil => exact dedup_nil
  | cons x xs ih =>
    rw [dedup_cons, ih (List.nodup_cons.1 h).2]
    congr 1
    apply List.filter_eq_self.2
    intro y hy
    have := (List.nodup_cons.1 h).1
    simp only [Bool.not_eq_eq_eq_not, Bool.not_true, beq_eq_false_iff_ne, ne_eq]
    rintro rfl
    exact this hy

theorem dedup_append_of_disjoint (a b : List Int) (h : ∀ x ∈ b, x ∉ a) :
    dedup (a ++ b) = dedup a ++ dedup b := by
  rw [dedup_append]
  congr 1
  apply List.filter_eq_self.2
  intro x hx
  have := h x ((dedup_mem b x).1 hx)
  simpa using this

theorem dedup_filter (p : Int → Bool) (l : List Int) :
    dedup (l.filter p) = (dedup l).filter p := by
  induction l with
  | nil => simp [dedup_nil]
  | cons x xs ih =>
    by_cases hp : p x = true
    · rw [List.filter_cons_of_pos hp, dedup_cons, dedup_cons, List.filter_cons_of_pos hp, ih,
        List.filter_filter, List.filter_filter]
      congr 1
      apply List.filter_congr
      intro y _
      exact Bool.and_comm _ _
    · rw [List.filter_cons_of_neg hp, dedup_cons, List.filter_cons_of_neg hp, ih,
        List.filter_filter]
      apply List.filter_congr
      intro y _
      by_cases hy : y = x
      · subst hy; simp [hp]
      · simp [hy]

theorem firstMentions_map (seen l : List Nat) :
    (firstMentions seen l).map Int.ofNat = dedupAux (seen.map Int.ofNat) (l.map Int.ofNat) := by
  induction l generalizing seen with
  | nil => simp [firstMentions, dedupAux_nil]
  | cons y ys ih =>
    rw [firstMentions, List.map_cons]
    by_cases h : y ∈ seen
    · have h' : Int.ofNat y ∈ seen.map Int.ofNat := List.mem_map_of_mem h
      rw [if_pos (by simpa using h), dedupAux_cons_pos _ h', ih]
    · have h' : Int.ofNat y ∉ seen.map Int.ofNat := by
        simp only [List.mem_map, not_exists, not_and]
        intro x hx hxy
        exact h (by have := Int.ofNat.inj hxy; subst this; exact hx)
      rw [if_neg (by simpa using h), dedupAux_cons_neg _ h', List.map_cons, ih, List.map_cons]

theorem mem_firstMentions (seen l : List Nat) (x : Nat) :
    x ∈ firstMentions seen l ↔ x ∈ l ∧ x ∉ seen := by
  induction l generalizing seen with
  | nil => simp [firstMentions]
  | cons y ys ih =>
    rw [firstMentions]
    by_cases h : y ∈ seen
    · rw [if_pos (by simpa using h), ih]; grind
    · rw [if_neg (by simpa using h), List.mem_cons, ih]; grind

theorem firstMentions_nodup (seen l : List Nat) : (firstMentions seen l).Nodup := by
  induction l generalizing seen with
  | nil => simp [firstMentions]
  | cons y ys ih =>
    rw [firstMentions]
    split
    · exact ih seen
    · exact List.nodup_cons.2 ⟨by simp [mem_firstMentions], ih _⟩

theorem firstMentions_sublist (seen l : List Nat) : (firstMentions seen l).Sublist l := by
  induction l generalizing seen with
  | nil => simp [firstMentions]
  | cons y ys ih =>
    rw [firstMentions]
    split
    · exact (ih seen).cons _
    · exact (ih _).cons_cons _

/-! ## `fixedIdxs` when the element ids are distinct -/

theorem find?_reverse_of_unique {β : Type} (q : β → Bool) (l : List β)
    (h : l.Pairwise (fun a b => ¬(q a = true ∧ q b = true))) :
    l.reverse.find? q = l.find? q := by
  induction l with
  | nil => rfl
  | cons x xs ih =>
    rw [List.reverse_cons, List.find?_append, ih (List.pairwise_cons.1 h).2]
    by_cases hx : q x = true
    · have : xs.find? q = none := by
        rw [List.find?_eq_none]
        intro y hy hqy
        exact (List.pairwise_cons.1 h).1 y hy ⟨hx, hqy⟩
      simp [this, hx]
    · simp [hx]

theorem fixedIdxs_eq (ids : List Eid) (hN : ids.Nodup) (fixed : List Eid) :
    fixedIdxs ids fixed = (fixed.filterMap (idxOfId ids)).map Int.ofNat := by
  unfold fixedIdxs idxOfId
  rw [List.map_filterMap]
  congr 1
  funext f
  rw [List.findIdx?_eq_fst_find?_zipIdx, find?_reverse_of_unique]
  · simp only [Option.map_map]; rfl
  · have h1 : (ids.zipIdx.map (·.1)).Pairwise (· ≠ ·) := by
      rw [List.zipIdx_map_fst]; exact hN
    rw [List.pairwise_map] at h1
    refine h1.imp ?_
    intro a b hab ⟨ha, hb⟩
    simp only [beq_iff_eq] at ha hb
    exact hab (ha.trans hb.symm)

/-! ## body and subtotal groups -/

theorem bodyIdxs_eq (desc : Bool) (vals : List α) (fixed : List Int) :
    bodyIdxs ops desc vals fixed =
      sortIdxs ops desc ((vals.zipIdx.map (fun p => (p.1, (fun (i : Nat) => (i : Int)) p.2))).filter
        (fun p => (fun j => !fixed.contains j) p.2)) := rfl

theorem subtotalIdxs_eq (desc : Bool) (svals : List α) :
    subtotalIdxs ops desc svals =
      sortIdxs ops desc ((svals.zipIdx.map
        (fun p => (p.1, (fun (i : Nat) => (i : Int) - (svals.length : Int)) p.2))).filter
        (fun p => (fun _ => true) p.2)) := by
  rw [subtotalIdxs, zip_negIdxs, List.filter_eq_self.2 (by simp)]

theorem bodyIdxs_perm (desc : Bool) (vals : List α) (fixed : List Int) :
    (bodyIdxs ops desc vals fixed).Perm
      (((List.range vals.length).filter (fun (i : Nat) => !fixed.contains (i : Int))).map
        (fun (i : Nat) => (i : Int))) := by
  rw [bodyIdxs_eq]
  refine (sortIdxs_perm ops desc _).trans ?_
  rw [zipIdx_filter_map_snd vals (fun (i : Nat) => (i : Int)) (fun p => !fixed.contains p.2)]
  refine List.Perm.of_eq ?_
  congr 1
  apply List.filter_congr
  intro i hi
  have : i < vals.length := by simpa using hi
  simp [List.getElem?_eq_getElem this]

theorem subtotalIdxs_perm (desc : Bool) (svals : List α) :
    (subtotalIdxs ops desc svals).Perm (negIdxs svals.length) := by
  rw [subtotalIdxs_eq]
  refine (sortIdxs_perm ops desc _).trans ?_
  rw [zipIdx_filter_map_snd svals (fun (i : Nat) => (i : Int) - (svals.length : Int))
    (fun _ => true)]
  refine List.Perm.of_eq ?_
  rw [negIdxs]
  congr 1
  apply List.filter_eq_self.2
  intro i hi
  have : i < svals.length := by simpa using hi
  simp [List.getElem?_eq_getElem this]

theorem mem_negIdxs (n : Nat) (j : Int) : j ∈ negIdxs n ↔ -(n : Int) ≤ j ∧ j < 0 := by
  simp only [negIdxs, List.mem_map, List.mem_range]
  constructor
  · rintro ⟨i, hi, rfl⟩; omega
  · rintro ⟨h1, h2⟩; exact ⟨(j + n).toNat, by omega, by omega⟩

theorem nodup_map_of_inj {β γ : Type} {f : β → γ} (hf : ∀ a b, f a = f b → a = b) {l : List β}
    (h : l.Nodup) : (l.map f).Nodup := by
  rw [List.Nodup, List.pairwise_map]
  exact h.imp (fun hab e => hab (hf _ _ e))

theorem negIdxs_nodup (n : Nat) : (negIdxs n).Nodup := by
  rw [negIdxs]
  refine nodup_map_of_inj ?_ List.nodup_range
  intro a b h; omega

theorem mem_bodyIdxs (desc : Bool) (vals : List α) (fixed : List Int) (x : Int) :
    x ∈ bodyIdxs ops desc vals fixed ↔ 0 ≤ x ∧ x.toNat < vals.length ∧ x ∉ fixed := by
  rw [(bodyIdxs_perm ops desc vals fixed).mem_iff]
  simp only [List.mem_map, List.mem_filter, List.mem_range, Bool.not_eq_eq_eq_not, Bool.not_true,
    List.contains_eq_mem, decide_eq_false_iff_not]
  constructor
  · rintro ⟨i, ⟨hi, hf⟩, rfl⟩; exact ⟨by omega, by simpa using hi, hf⟩
  · rintro ⟨h0, h1, h2⟩
    refine ⟨x.toNat, ⟨h1, ?_⟩, by omega⟩
    rwa [Int.toNat_of_nonneg h0]

theorem bodyIdxs_nodup (desc : Bool) (vals : List α) (fixed : List Int) :
    (bodyIdxs ops desc vals fixed).Nodup := by
  rw [(bodyIdxs_perm ops desc vals fixed).nodup_iff]
  refine nodup_map_of_inj ?_ (List.nodup_range.filter _)
  intro a b h; omega

theorem mem_subtotalIdxs (desc : Bool) (svals : List α) (x : Int) :
    x ∈ subtotalIdxs ops desc svals ↔ -(svals.length : Int) ≤ x ∧ x < 0 := by
  rw [(subtotalIdxs_perm ops desc svals).mem_iff, mem_negIdxs]

theorem subtotalIdxs_nodup (desc : Bool) (svals : List α) :
    (subtotalIdxs ops desc svals).Nodup := by
  rw [(subtotalIdxs_perm ops desc svals).nodup_iff]; exact negIdxs_nodup _

theorem mem_fixedIdxs {ids fixed : List Eid} {x : Int} (h : x ∈ fixedIdxs ids fixed) :
    0 ≤ x ∧ x.toNat < ids.length := by
  simp only [fixedIdxs, List.mem_filterMap, Option.map_eq_some_iff] at h
  obtain ⟨f, _, p, hp, rfl⟩ := h
  have hm := List.mem_of_find?_eq_some hp
  rw [List.mem_reverse] at hm
  obtain ⟨a, i⟩ := p
  have := List.mem_zipIdx_iff_getElem?.1 hm
  have hi : i < ids.length := (List.getElem?_eq_some_iff.1 this).1
  exact ⟨by simp, by simpa using hi⟩

/-! ## the five groups under `dedup` -/

theorem filter_not_contains_eq_self {l a : List Int} (h : ∀ x ∈ l, x ∉ a) :
    l.filter (fun x => !a.contains x) = l := by
  apply List.filter_eq_self.2
  intro x hx
  simpa using h x hx

theorem dedup_groups (A T B Bt C : List Int)
    (hA : A.Nodup) (hB : B.Nodup) (hC : C.Nodup)
    (hTA : ∀ x ∈ T, x ∉ A) (hBA : ∀ x ∈ B, x ∉ A) (hBT : ∀ x ∈ B, x ∉ T)
    (hBtA : ∀ x ∈ Bt, x ∉ A) (hBtB : ∀ x ∈ Bt, x ∉ B)
    (hCA : ∀ x ∈ C, x ∉ A) (hCT : ∀ x ∈ C, x ∉ T) (hCB : ∀ x ∈ C, x ∉ B)
    (hCBt : ∀ x ∈ C, x ∉ Bt) :
    dedup (A ++ T ++ B ++ Bt ++ C) = A ++ dedup T ++ B ++ dedupAux T Bt ++ C := by
  rw [dedup_append_of_disjoint _ C (by intro x hx; simp only [List.mem_append]; grind),
    dedup_eq_self_of_nodup C hC]
  congr 1
  rw [dedup_append (A ++ T ++ B) Bt]
  rw [dedup_append_of_disjoint _ B (by intro x hx; simp only [List.mem_append]; grind),
    dedup_eq_self_of_nodup B hB]
  rw [dedup_append_of_disjoint A T hTA, dedup_eq_self_of_nodup A hA]
  congr 1
  rw [dedupAux_eq_filter]
  apply List.filter_congr
  intro x hx
  have hx' := (dedup_mem Bt x).1 hx
  have h1 := hBtA x hx'
  have h2 := hBtB x hx'
  simp [h1, h2]

theorem isHidden_neg {hid : List Nat} {x : Int} (h : x < 0) : isHidden hid x = false := by
  simp [isHidden]; omega

theorem isHidden_ofNat (hid : List Nat) (i : Nat) : isHidden hid (i : Int) = hid.contains i := by
  simp [isHidden]

theorem filter_vis_map (hid : List Nat) (l : List Nat) :
    (l.map (fun (i : Nat) => (i : Int))).filter (fun idx => !isHidden hid idx) =
      (l.filter (fun i => !hid.contains i)).map (fun (i : Nat) => (i : Int)) := by
  rw [List.filter_map]
  congr 1

theorem fixedSpec_nil_map (ids : List Eid) (hN : ids.Nodup) (top : List Eid) :
    (fixedSpec ids [] top).map (fun (i : Nat) => (i : Int)) = dedup (fixedIdxs ids top) := by
  rw [fixedIdxs_eq ids hN, fixedSpec, dedup]
  exact firstMentions_map [] _

theorem fixedSpec_map (ids : List Eid) (hN : ids.Nodup) (top bottom : List Eid) :
    (fixedSpec ids (fixedSpec ids [] top) bottom).map (fun (i : Nat) => (i : Int)) =
      dedupAux (fixedIdxs ids top) (fixedIdxs ids bottom) := by
  rw [fixedIdxs_eq ids hN, fixedIdxs_eq ids hN, fixedSpec]
  refine (firstMentions_map _ _).trans ?_
  apply dedupAux_congr
  intro x
  simp only [List.mem_map, fixedSpec, mem_firstMentions]
  simp

/-! ## the executable predicates of `Spec/Order.lean` as propositions -/

theorem monotone_iff_pairwise (desc : Bool) (l : List α) :
    monotone ops desc l = true ↔
      l.Pairwise (fun a b => (if desc then ops.le b a else ops.le a b) = true) := by
  induction l with
  | nil => simp [monotone]
  | cons x xs ih =>
    rw [monotone, List.pairwise_cons, Bool.and_eq_true, ih, List.all_eq_true]

theorem increasing_iff_pairwise (l : List Int) :
    increasing l = true ↔ l.Pairwise (· < ·) := by
  induction l with
  | nil => simp [increasing]
  | cons x xs ih =>
    rw [increasing, List.pairwise_cons, Bool.and_eq_true, ih, List.all_eq_true]
    simp

theorem nodupB_iff (l : List Int) : nodupB l = true ↔ l.Nodup := by
  induction l with
  | nil => simp [nodupB]
  | cons x xs ih =>
    rw [nodupB, List.nodup_cons, Bool.and_eq_true, ih]
    simp

theorem sameMembers_iff (a b : List Int) :
    sameMembers a b = true ↔ ∀ x, x ∈ a ↔ x ∈ b := by
  simp only [sameMembers, Bool.and_eq_true, List.all_eq_true, List.contains_eq_mem,
    decide_eq_true_eq]
  constructor
  · rintro ⟨h1, h2⟩ x; exact ⟨h1 x, h2 x⟩
  · intro h; exact ⟨fun x => (h x).1, fun x => (h x).2⟩

theorem groupSorted_eq (desc : Bool) (valOf : Int → Option α) (g : List Int) :
    groupSorted ops desc valOf g =
      (g == g.filter (fun i => !(valOf i).all ops.isNan) ++ g.filter (fun i => (valOf i).all ops.isNan)
        && monotone ops desc ((g.filter (fun i => !(valOf i).all ops.isNan)).filterMap valOf)
        && increasing (g.filter (fun i => (valOf i).all ops.isNan))) := by
  have key : ∀ (p : Int → Bool), (∀ i, p i = (valOf i).all ops.isNan) →
      (g == g.filter (fun i => !p i) ++ g.filter p
        && monotone ops desc ((g.filter (fun i => !p i)).filterMap valOf)
        && increasing (g.filter p)) =
      (g == g.filter (fun i => !(valOf i).all ops.isNan) ++ g.filter (fun i => (valOf i).all ops.isNan)
        && monotone ops desc ((g.filter (fun i => !(valOf i).all ops.isNan)).filterMap valOf)
        && increasing (g.filter (fun i => (valOf i).all ops.isNan))) := by
    intro p hp
    have : p = fun i => (valOf i).all ops.isNan := funext hp
    subst this
    rfl
  unfold groupSorted
  exact key _ (fun i => by cases valOf i <;> rfl)

/-- a group that splits into a monotone non-NaN part followed by an index-increasing NaN part
    passes `groupSorted`. -/
theorem groupSorted_of_split (desc : Bool) (valOf : Int → Option α) (K N : List Int)
    (hK : ∀ x ∈ K, ∃ a, valOf x = some a ∧ ops.isNan a = false)
    (hN : ∀ x ∈ N, ∀ a, valOf x = some a → ops.isNan a = true)
    (hKs : K.Pairwise (fun x y => ∃ a b, valOf x = some a ∧ valOf y = some b ∧
      (if desc then ops.le b a else ops.le a b) = true))
    (hNs : N.Pairwise (· < ·)) :
    groupSorted ops desc valOf (K ++ N) = true := by
  have hKf : ∀ x ∈ K, (valOf x).all ops.isNan = false := by
    intro x hx
    obtain ⟨a, ha, hn⟩ := hK x hx
    rw [ha]; exact hn
  have hNf : ∀ x ∈ N, (valOf x).all ops.isNan = true := by
    intro x hx
    cases h : valOf x with
    | none => rfl
    | some a => exact hN x hx a h
  have h1 : (K ++ N).filter (fun i => !(valOf i).all ops.isNan) = K := by
    rw [List.filter_append, List.filter_eq_self.2 (fun x hx => by simp [hKf x hx]),
      List.filter_eq_nil_iff.2 (fun x hx => by simp [hNf x hx]), List.append_nil]
  have h2 : (K ++ N).filter (fun i => (valOf i).all ops.isNan) = N := by
    rw [List.filter_append, List.filter_eq_self.2 (fun x hx => hNf x hx),
      List.filter_eq_nil_iff.2 (fun x hx => by simp [hKf x hx]), List.nil_append]
  rw [groupSorted_eq, h1, h2]
  simp only [beq_self_eq_true, Bool.true_and, Bool.and_eq_true]
  refine ⟨(monotone_iff_pairwise ops desc _).2 ?_, (increasing_iff_pairwise N).2 hNs⟩
  rw [List.pairwise_filterMap]
  refine hKs.imp ?_
  rintro x y ⟨a, b, hx, hy, h⟩ a' ha' b' hb'
  rw [hx] at ha'; rw [hy] at hb'
  cases ha'; cases hb'
  exact h

/-! ## list surgery used by `sortCheck` -/

theorem take_left3 {β : Type} (a m c : List β) : (a ++ m ++ c).take a.length = a := by
  rw [List.append_assoc, List.take_left']; rfl

theorem drop_right3 {β : Type} (a m c : List β) :
    (a ++ m ++ c).drop ((a ++ m ++ c).length - c.length) = c := by
  rw [show (a ++ m ++ c).length - c.length = (a ++ m).length by simp; omega]
  exact List.drop_left' rfl

theorem mid3 {β : Type} (a m c : List β) :
    ((a ++ m ++ c).drop a.length).take ((a ++ m ++ c).length - a.length - c.length) = m := by
  rw [List.append_assoc, List.drop_left' rfl,
    show (a ++ (m ++ c)).length - a.length - c.length = m.length by simp]
  exact List.take_left' rfl

theorem mem_map_cast {l : List Nat} {i : Nat} :
    (i : Int) ∈ l.map (fun (i : Nat) => (i : Int)) ↔ i ∈ l := by
  simp only [List.mem_map]
  constructor
  · rintro ⟨a, ha, h⟩
    have : a = i := by omega
    exact this ▸ ha
  · intro h; exact ⟨i, h, rfl⟩

theorem mem_fixedSpec_nil (ids : List Eid) (hN : ids.Nodup) (top : List Eid) (i : Nat) :
    i ∈ fixedSpec ids [] top ↔ (i : Int) ∈ fixedIdxs ids top := by
  rw [← mem_map_cast, fixedSpec_nil_map ids hN, dedup_mem]

theorem mem_fixedSpec (ids : List Eid) (hN : ids.Nodup) (top bottom : List Eid) (i : Nat) :
    i ∈ fixedSpec ids (fixedSpec ids [] top) bottom ↔
      (i : Int) ∈ fixedIdxs ids bottom ∧ (i : Int) ∉ fixedIdxs ids top := by
  rw [← mem_map_cast, fixedSpec_map ids hN, mem_dedupAux]

theorem range_filter_map_cast_increasing (n : Nat) (p : Nat → Bool) :
    (((List.range n).filter p).map (fun (i : Nat) => (i : Int))).Pairwise (· < ·) := by
  rw [List.pairwise_map]
  refine (List.pairwise_lt_range.filter p).imp ?_
  intro a b h; omega

theorem range_filter_map_neg_increasing (n : Nat) (p : Nat → Bool) :
    (((List.range n).filter p).map (fun (i : Nat) => (i : Int) - (n : Int))).Pairwise (· < ·) := by
  rw [List.pairwise_map]
  refine (List.pairwise_lt_range.filter p).imp ?_
  intro a b h; omega

theorem filter_neg_shape (desc : Bool) (subs base : List Int) (hs : ∀ x ∈ subs, x < 0)
    (hb : ∀ x ∈ base, 0 ≤ x) :
    ((if desc then subs else []) ++ base ++ (if desc then [] else subs)).filter
      (fun i => decide (i < 0)) = subs := by
  have h1 : subs.filter (fun i => decide (i < 0)) = subs :=
    List.filter_eq_self.2 (fun x hx => by simpa using hs x hx)
  have h2 : base.filter (fun i => decide (i < 0)) = [] :=
    List.filter_eq_nil_iff.2 (fun x hx => by have := hb x hx; simp; omega)
  cases desc <;> simp [List.filter_append, h1, h2]

theorem filter_nonneg_shape (desc : Bool) (subs base : List Int) (hs : ∀ x ∈ subs, x < 0)
    (hb : ∀ x ∈ base, 0 ≤ x) :
    ((if desc then subs else []) ++ base ++ (if desc then [] else subs)).filter
      (fun i => decide (0 ≤ i)) = base := by
  have h1 : subs.filter (fun i => decide (0 ≤ i)) = [] :=
    List.filter_eq_nil_iff.2 (fun x hx => by have := hs x hx; simp; omega)
  have h2 : base.filter (fun i => decide (0 ≤ i)) = base :=
    List.filter_eq_self.2 (fun x hx => by simpa using hb x hx)
  cases desc <;> simp [List.filter_append, h1, h2]

/-! ## NaN-last without any hypothesis on the order -/

theorem sortIdxs_split_perm (desc : Bool) (pairs : List (α × Int)) :
    ∃ S : List (α × Int),
      S.Perm (pairs.filter (fun p => !ops.isNan p.1)) ∧
      sortIdxs ops desc pairs = S.map (·.2) ++ (pairs.filter (fun p => ops.isNan p.1)).map (·.2) := by
  cases desc
  · exact ⟨(pairs.filter (fun p => !ops.isNan p.1)).mergeSort (tupLe ops),
      List.mergeSort_perm _ _, by simp [sortIdxs]⟩
  · exact ⟨((pairs.filter (fun p => !ops.isNan p.1)).mergeSort (tupLe ops)).reverse,
      (List.reverse_perm _).trans (List.mergeSort_perm _ _), by simp [sortIdxs]⟩

theorem sortIdxs_indexed_perm (desc : Bool) (l : List α) (f : Nat → Int) (g : Int → Bool) :
    ∃ K : List Int,
      sortIdxs ops desc ((l.zipIdx.map (fun p => (p.1, f p.2))).filter (fun p => g p.2)) =
        K ++ ((List.range l.length).filter
              (fun i => l[i]?.any (fun v => ops.isNan v && g (f i)))).map f ∧
      K.Perm (((List.range l.length).filter
              (fun i => l[i]?.any (fun v => !ops.isNan v && g (f i)))).map f) := by
  obtain ⟨S, hperm, heq⟩ := sortIdxs_split_perm ops desc
    ((l.zipIdx.map (fun p => (p.1, f p.2))).filter (fun p => g p.2))
  refine ⟨S.map (·.2), ?_, ?_⟩
  · rw [heq, List.filter_filter, zipIdx_filter_map_snd]
  · refine (hperm.map _).trans ?_
    rw [List.filter_filter, zipIdx_filter_map_snd]

/-- evaluation of the model on concrete inputs (`mergeSort` is defined by well-founded
    recursion, so `decide` cannot unfold it; `simp` can). -/
macro "eval_sort" : tactic => `(tactic|
  simp (decide := true) [sortOrderSigned, sortOrderSignedUnfixed, sortGroups, fixedIdxs, bodyIdxs,
    subtotalIdxs, sortIdxs, negIdxs, List.mergeSort, List.zipIdx, isHidden, valOps, strOps,
    Val.isNan, tupLe, Val.le, List.merge, List.MergeSort.Internal.splitInTwo, dedup, dedupAux,
    List.range, List.range.loop])

end CrCube.Lemmas.SortValue
