/-
  `zipN` (Python `zip(*lists)`): length = the minimum, k-th tuple = k-th member of every list.
-/
import CrCube.Model.CubeSet

namespace CrCube.Glue
open CrCube

theorem minLen_le {α : Type} (ls : List (List α)) (l : List α) (hl : l ∈ ls) : minLen ls ≤ l.length := by
  induction ls with
  | nil => simp at hl
  | cons a as ih =>
    cases as with
    | nil =>
      simp only [List.mem_singleton] at hl
      subst hl; simp [minLen]
    | cons b bs =>
      simp only [minLen]
      rcases List.mem_cons.mp hl with h | h
      · subst h; exact Nat.min_le_left _ _
      · exact Nat.le_trans (Nat.min_le_right _ _) (ih h)

theorem minLen_attained {α : Type} (ls : List (List α)) (h : ls ≠ []) : ∃ l ∈ ls, l.length = minLen ls := by
  induction ls with
  | nil => exact absurd rfl h
  | cons a as ih =>
    cases as with
    | nil => exact ⟨a, by simp, by simp [minLen]⟩
    | cons b bs =>
      obtain ⟨l, hl, hlen⟩ := ih (by simp)
      simp only [minLen]
      by_cases hle : a.length ≤ minLen (b :: bs)
      · exact ⟨a, by simp, by rw [Nat.min_eq_left hle]⟩
      · refine ⟨l, List.mem_cons_of_mem _ hl, ?_⟩
        rw [hlen, Nat.min_eq_right (by omega)]

theorem zipN_length {α : Type} (ls : List (List α)) : (zipN ls).length = minLen ls := by
  simp [zipN]

/-- the members of the k-th tuple, one per list, in list order -/
theorem zipN_get {α : Type} (ls : List (List α)) (k : Nat) (hk : k < minLen ls) :
    (zipN ls)[k]? = some (ls.filterMap (fun l => l[k]?)) := by
  simp [zipN, hk]

/-- the j-th member of the k-th tuple is the k-th member of the j-th list -/
theorem filterMap_get_member {α : Type} (ls : List (List α)) (k : Nat) (hk : ∀ l ∈ ls, k < l.length)
    (j : Nat) : (ls.filterMap (fun l => l[k]?))[j]? = (ls[j]?).bind (fun l => l[k]?) := by
  induction ls generalizing j with
  | nil => simp
  | cons a as ih =>
    have ha : k < a.length := hk a List.mem_cons_self
    have : a[k]? = some a[k] := by simp [ha]
    simp only [List.filterMap_cons, this]
    cases j with
    | zero => simp [ha]
    | succ j => simpa using ih (fun l hl => hk l (List.mem_cons_of_mem _ hl)) j

theorem filterMap_get_length {α : Type} (ls : List (List α)) (k : Nat) (hk : ∀ l ∈ ls, k < l.length) :
    (ls.filterMap (fun l => l[k]?)).length = ls.length := by
  induction ls with
  | nil => rfl
  | cons a as ih =>
    have ha : k < a.length := hk a List.mem_cons_self
    have : a[k]? = some a[k] := by simp [ha]
    simp [List.filterMap_cons, this, ih (fun l hl => hk l (List.mem_cons_of_mem _ hl))]

end CrCube.Glue
