/-
  Python `sorted` on int triples = `List.mergeSort keyLe`: the order is total, transitive and
  antisymmetric, so a strictly sorted list with the same members IS the sorted list.
-/
import CrCube.Model.Collator
import Mathlib.Data.List.Sort
import Mathlib.Data.List.Perm.Basic

namespace CrCube.Lemmas.SortKeys
open CrCube.Collator

/-- strict lexicographic order on triples -/
def keyLt (a b : Key) : Prop :=
  a.1 < b.1 ∨ (a.1 = b.1 ∧ (a.2.1 < b.2.1 ∨ (a.2.1 = b.2.1 ∧ a.2.2 < b.2.2)))

theorem keyLe_iff (a b : Key) : keyLe a b = true ↔ keyLt a b ∨ a = b := by
  obtain ⟨a1, a2, a3⟩ := a
  obtain ⟨b1, b2, b3⟩ := b
  simp only [keyLe, keyLt, Bool.or_eq_true, Bool.and_eq_true, decide_eq_true_eq, beq_iff_eq,
    Prod.mk.injEq]
  omega

theorem keyLe_trans (a b c : Key) (h1 : keyLe a b = true) (h2 : keyLe b c = true) : keyLe a c = true := by
  obtain ⟨a1, a2, a3⟩ := a
  obtain ⟨b1, b2, b3⟩ := b
  obtain ⟨c1, c2, c3⟩ := c
  simp only [keyLe, Bool.or_eq_true, Bool.and_eq_true, decide_eq_true_eq, beq_iff_eq] at *
  omega

theorem keyLe_total (a b : Key) : (keyLe a b || keyLe b a) = true := by
  obtain ⟨a1, a2, a3⟩ := a
  obtain ⟨b1, b2, b3⟩ := b
  simp only [keyLe, Bool.or_eq_true, Bool.and_eq_true, decide_eq_true_eq, beq_iff_eq]
  omega

theorem keyLe_antisymm (a b : Key) (h1 : keyLe a b = true) (h2 : keyLe b a = true) : a = b := by
  obtain ⟨a1, a2, a3⟩ := a
  obtain ⟨b1, b2, b3⟩ := b
  simp only [keyLe, Bool.or_eq_true, Bool.and_eq_true, decide_eq_true_eq, beq_iff_eq] at *
  simp only [Prod.mk.injEq]
  omega

theorem keyLt_irrefl (a : Key) : ¬ keyLt a a := by
  obtain ⟨a1, a2, a3⟩ := a
  simp only [keyLt]
  omega

theorem sortKeys_sorted (l : List Key) : (sortKeys l).Pairwise (fun a b => keyLe a b = true) :=
  List.pairwise_mergeSort keyLe_trans keyLe_total l

theorem sortKeys_perm (l : List Key) : (sortKeys l).Perm l := List.mergeSort_perm l keyLe

theorem nodup_of_pairwise_keyLt {L : List Key} (h : L.Pairwise keyLt) : L.Nodup := by
  refine List.Pairwise.imp ?_ h
  intro a b hab heq
  subst heq
  exact keyLt_irrefl a hab

/-- uniqueness of the sorted arrangement -/
theorem sortKeys_eq {keys L : List Key} (hL : L.Pairwise keyLt) (hnd : keys.Nodup)
    (hmem : ∀ k, k ∈ L ↔ k ∈ keys) : sortKeys keys = L := by
  have hLnd : L.Nodup := nodup_of_pairwise_keyLt hL
  have hperm : (sortKeys keys).Perm L :=
    (sortKeys_perm keys).trans ((List.perm_ext_iff_of_nodup hnd hLnd).2 (fun k => (hmem k).symm))
  refine List.Perm.eq_of_pairwise (le := fun a b => keyLe a b = true) ?_ (sortKeys_sorted keys) ?_ hperm
  · intro a b _ _ h1 h2
    exact keyLe_antisymm a b h1 h2
  · exact List.Pairwise.imp (fun {a b} h => (keyLe_iff a b).2 (Or.inl h)) hL

/-- the idx column of the sorted keys is a permutation of the idx column of the keys -/
theorem sortKeys_thirds_perm (keys : List Key) :
    ((sortKeys keys).map (·.2.2)).Perm (keys.map (·.2.2)) :=
  (sortKeys_perm keys).map _

theorem anchoredOrder_nodup (descr : List Descr) (derived : List Key) (subs : List Sub) (hid : List Nat)
    (h : ((baseOrderings descr ++ insertionOrderings descr subs ++ derived).map (·.2.2)).Nodup) :
    (anchoredOrder descr derived subs hid).Nodup := by
  unfold anchoredOrder
  exact List.Nodup.filter _ ((sortKeys_thirds_perm _).nodup_iff.2 h)

theorem mem_anchoredOrder (descr : List Descr) (derived : List Key) (subs : List Sub) (hid : List Nat)
    (idx : Int) :
    idx ∈ anchoredOrder descr derived subs hid ↔
      idx ∈ (baseOrderings descr ++ insertionOrderings descr subs ++ derived).map (·.2.2) ∧
        isHidden hid idx = false := by
  unfold anchoredOrder
  rw [List.mem_filter, (sortKeys_thirds_perm _).mem_iff]
  simp

end CrCube.Lemmas.SortKeys
