/-
  Lemmas for C11: weighted sums of functions of the +1/−1/0 indicator, the three-term identity,
  and the evaluation of `calcVar` on finite values.
-/
import CrCube.Spec.VariancePrims
import CrCube.Lemmas.Wsum
import CrCube.Lemmas.CellSpecLemmas
import Mathlib.Tactic.Ring
import Mathlib.Tactic.Linarith
import Mathlib.Tactic.FieldSimp
import Mathlib.Tactic.Positivity
import Mathlib.Algebra.Order.Field.Rat

namespace CrCube

@[simp] theorem wsumF_nil (B : Resp → Bool) (f : Resp → Rat) : wsumF [] B f = 0 := by simp [wsumF]

theorem wsumF_cons (r : Resp) (s : Survey) (B : Resp → Bool) (f : Resp → Rat) :
    wsumF (r :: s) B f = (if B r then r.w * f r else 0) + wsumF s B f := by
  unfold wsumF
  by_cases h : B r = true <;> simp [List.filter, h]

theorem wsum_and_cons (r : Resp) (s : Survey) (B P : Resp → Bool) :
    wsum (r :: s) (fun r => B r && P r) = (if B r && P r then r.w else 0) + wsum s (fun r => B r && P r) := by
  rw [wsum_cons]

/-- a weighted sum of a function `g` of the indicator splits over the three classes -/
theorem wsumF_indicator (s : Survey) (B P N : Resp → Bool) (g : Rat → Rat)
    (hd : ∀ r ∈ s, ¬ (P r = true ∧ N r = true)) :
    wsumF s B (fun r => g (indicatorOf P N r))
      = g 1 * wsum s (fun r => B r && P r) + g (-1) * wsum s (fun r => B r && N r)
        + g 0 * (wsum s B - wsum s (fun r => B r && P r) - wsum s (fun r => B r && N r)) := by
  induction s with
  | nil => simp
  | cons r s ih =>
    have hd' : ∀ r' ∈ s, ¬ (P r' = true ∧ N r' = true) := fun r' hr' => hd r' (by simp [hr'])
    have hr := hd r (by simp)
    rw [wsumF_cons, wsum_cons, wsum_cons, wsum_cons, ih hd']
    unfold indicatorOf
    by_cases hB : B r = true <;> by_cases hP : P r = true <;> by_cases hN : N r = true
    · exact absurd ⟨hP, hN⟩ hr
    · simp [hB, hP, hN]; ring
    · simp [hB, hP, hN]; ring
    · simp [hB, hP, hN]; ring
    · simp [hB, hP, hN]
    · simp [hB, hP, hN]
    · simp [hB, hP, hN]
    · simp [hB, hP, hN]

/-- the weighted mean of the indicator is (Np − Nn) / Nt -/
theorem wmean_indicator (s : Survey) (B P N : Resp → Bool)
    (hd : ∀ r ∈ s, ¬ (P r = true ∧ N r = true)) :
    wmean s B (indicatorOf P N)
      = (wsum s (fun r => B r && P r) - wsum s (fun r => B r && N r)) / wsum s B := by
  unfold wmean
  have h := wsumF_indicator s B P N (fun x => x) hd
  rw [h]
  congr 1
  ring

/-- **the three-term identity**: the weighted variance of the indicator among the base
    respondents is what `_calc_var` computes from the positive / ignored / negative counts -/
theorem wvariance_indicator (s : Survey) (B P N : Resp → Bool)
    (hd : ∀ r ∈ s, ¬ (P r = true ∧ N r = true)) (hb : wsum s B ≠ 0) :
    let Nt := wsum s B
    let Np := wsum s (fun r => B r && P r)
    let Nn := wsum s (fun r => B r && N r)
    let p := (Np - Nn) / Nt
    wvariance s B (indicatorOf P N)
      = (1 - p) * (1 - p) * (Np / Nt) + (0 - p) * (0 - p) * ((Nt - Np - Nn) / Nt)
        + (-1 - p) * (-1 - p) * (Nn / Nt) := by
  intro Nt Np Nn p
  unfold wvariance
  rw [wmean_indicator s B P N hd]
  have h := wsumF_indicator s B P N (fun x => (x - p) * (x - p)) hd
  rw [h]
  have hNt : Nt ≠ 0 := hb
  change ((1 - p) * (1 - p) * Np + (-1 - p) * (-1 - p) * Nn + (0 - p) * (0 - p) * (Nt - Np - Nn)) / Nt = _
  field_simp
  ring

/-- non-negativity of a weighted sum of squares -/
theorem wsumF_sq_nonneg (s : Survey) (B : Resp → Bool) (f : Resp → Rat) (hw : WeightsNonneg s) :
    0 ≤ wsumF s B (fun r => f r * f r) := by
  induction s with
  | nil => simp
  | cons r s ih =>
    rw [wsumF_cons]
    have h1 : 0 ≤ r.w := hw r (by simp)
    have h2 := ih (fun r' hr' => hw r' (by simp [hr']))
    have h3 : 0 ≤ r.w * (f r * f r) := mul_nonneg h1 (mul_self_nonneg _)
    split <;> linarith

theorem wvariance_nonneg (s : Survey) (B : Resp → Bool) (X : Resp → Rat) (hw : WeightsNonneg s) :
    0 ≤ wvariance s B X := by
  unfold wvariance
  exact div_nonneg (wsumF_sq_nonneg s B _ hw) (wsum_nonneg s B hw)

/-- `_calc_var` on finite values with a non-zero total -/
theorem calcVar_fin (p nt np ni nn : Rat) (h : nt ≠ 0) :
    calcVar (.fin p) (.fin nt) (.fin np) (.fin ni) (.fin nn)
      = .fin ((1 - p) * (1 - p) * (np / nt) + (0 - p) * (0 - p) * (ni / nt)
              + (-1 - p) * (-1 - p) * (nn / nt)) := by
  simp only [calcVar, Val.div_fin, h, if_false, Val.sub_fin, Val.mul_fin, Val.add_fin]
  congr 1
  ring

theorem countIgnored_fin (nt np nn : Rat) :
    countIgnored (.fin nt) (.fin np) (.fin nn) = .fin (nt - np - nn) := by
  simp only [countIgnored, Val.sub_fin]
  congr 1
  ring

theorem Val.div_fin_ne (a b : Rat) (h : b ≠ 0) : (Val.fin a) / (Val.fin b) = .fin (a / b) := by
  rw [Val.div_fin]; simp [h]

/-! NaN absorption in `calcVar` -/

theorem Val.nan_add (x : Val) : Val.nan + x = .nan := by cases x <;> rfl
theorem Val.add_nan (x : Val) : x + Val.nan = .nan := by cases x <;> rfl
theorem Val.nan_mul (x : Val) : Val.nan * x = .nan := by cases x <;> rfl
theorem Val.mul_nan (x : Val) : x * Val.nan = .nan := by cases x <;> rfl
theorem Val.nan_div (x : Val) : Val.nan / x = .nan := by cases x <;> rfl
theorem Val.div_nan (x : Val) : x / Val.nan = .nan := by cases x <;> rfl
theorem Val.sub_nan (x : Val) : x - Val.nan = .nan := by cases x <;> rfl
theorem Val.nan_sub (x : Val) : Val.nan - x = .nan := by cases x <;> rfl

theorem calcVar_nan_p (nt np ni nn : Val) : calcVar .nan nt np ni nn = .nan := by
  simp only [calcVar, Val.sub_nan, Val.nan_mul, Val.nan_add]

theorem calcVar_nan_nt (p np ni nn : Val) : calcVar p .nan np ni nn = .nan := by
  simp only [calcVar, Val.div_nan, Val.mul_nan, Val.nan_add]

theorem calcVar_nan_np (p nt ni nn : Val) : calcVar p nt .nan ni nn = .nan := by
  simp only [calcVar, Val.nan_div, Val.mul_nan, Val.nan_add]

end CrCube

namespace CrCube

/-- the cell is not a difference in the direction's own dimension -/
def Dir.ownNotDiff (dir : Dir) (R C : Side) : Bool :=
  match dir with | .row => !R.isDiff | .col => !C.isDiff | .table => true

section slicePreds
variable (d : SliceDesign) (R C : Side) (hR : R.OK d.rowV) (hC : C.OK d.colV)
include hR hC

theorem SliceDesign.pos_neg_disj (hdR : R.Disj) (hdC : C.Disj) (r : Resp) :
    ¬ (d.isPos R C r = true ∧ d.isNeg R C r = true) := by
  rintro ⟨hp, hn⟩
  simp only [SliceDesign.isPos, SliceDesign.isNeg, Bool.and_eq_true, Bool.or_eq_true] at hp hn
  rcases hn.2 with h | h
  · exact R.inAny_disj d.rowV hR hdR (d.rowAns r) ⟨hp.1.2, h.1⟩
  · exact C.inAny_disj d.colV hC hdC (d.colAns r) ⟨hp.2, h.2⟩

theorem SliceDesign.pos_sub_base (dir : Dir) (r : Resp) (h : d.isPos R C r = true) :
    d.inBase dir R C r = true := by
  simp only [SliceDesign.isPos, SliceDesign.inRowAdd, SliceDesign.inColAdd, Bool.and_eq_true] at h
  have hre := R.add_eligible d.rowV hR (d.rowAns r) h.1.2
  have hce := C.add_eligible d.colV hC (d.colAns r) h.2
  cases dir <;>
    simp [SliceDesign.inBase, h.1.1, SliceDesign.inRowAdd, SliceDesign.inColAdd, SliceDesign.rowElig,
      SliceDesign.colElig, h.1.2, h.2, hre, hce]

theorem SliceDesign.neg_sub_base (dir : Dir) (r : Resp)
    (hdir : dir.ownNotDiff R C = true)
    (h : d.isNeg R C r = true) : d.inBase dir R C r = true := by
  simp only [SliceDesign.isNeg, Bool.and_eq_true, Bool.or_eq_true] at h
  obtain ⟨ht, h⟩ := h
  cases dir with
  | row =>
    simp only [Dir.ownNotDiff, Side.isDiff, Bool.not_not, List.isEmpty_iff] at hdir
    rcases h with h | h
    · simp [SliceDesign.inRowSub, hdir, Var.inAny] at h
    · have hce := C.sub_eligible d.colV hC (d.colAns r) h.2
      simp [SliceDesign.inBase, ht, SliceDesign.inRowAdd, SliceDesign.colElig, hce]
      exact h.1
  | col =>
    simp only [Dir.ownNotDiff, Side.isDiff, Bool.not_not, List.isEmpty_iff] at hdir
    rcases h with h | h
    · have hre := R.sub_eligible d.rowV hR (d.rowAns r) h.1
      simp [SliceDesign.inBase, ht, SliceDesign.inColAdd, SliceDesign.rowElig, hre]
      exact h.2
    · simp [SliceDesign.inColSub, hdir, Var.inAny] at h
  | table =>
    rcases h with h | h
    · have hre := R.sub_eligible d.rowV hR (d.rowAns r) h.1
      have hce := C.add_eligible d.colV hC (d.colAns r) h.2
      simp [SliceDesign.inBase, ht, SliceDesign.rowElig, SliceDesign.colElig, hre, hce]
    · have hre := R.add_eligible d.rowV hR (d.rowAns r) h.1
      have hce := C.sub_eligible d.colV hC (d.colAns r) h.2
      simp [SliceDesign.inBase, ht, SliceDesign.rowElig, SliceDesign.colElig, hre, hce]

end slicePreds

/-- counting inside a superset changes nothing -/
theorem wsum_and_of_subset (s : Survey) (B P : Resp → Bool) (h : ∀ r ∈ s, P r = true → B r = true) :
    wsum s (fun r => B r && P r) = wsum s P := by
  apply wsum_congr
  intro r hr
  by_cases hp : P r = true
  · simp [hp, h r hr hp]
  · simp [hp]

/-- with non-negative weights a subset of an empty-weight set has weight 0 -/
theorem wsum_zero_of_subset (s : Survey) (B P : Resp → Bool) (hw : WeightsNonneg s)
    (h : ∀ r ∈ s, P r = true → B r = true) (hb : wsum s B = 0) : wsum s P = 0 := by
  have h1 := wsum_mono s P B hw h
  have h2 := wsum_nonneg s P hw
  linarith

end CrCube

namespace CrCube

theorem calcVar_nan_of_np_div (p nt np ni nn : Val) (h : np / nt = .nan) :
    calcVar p nt np ni nn = .nan := by
  simp only [calcVar, h, Val.mul_nan, Val.nan_add]

theorem sumOver_nil (f : Side → Rat) : sumOver [] f = 0 := rfl
theorem sumOver_single (e : Nat) (f : Side → Rat) : sumOver [e] f = f (Side.base e) := by
  simp [sumOver, ratSum]

theorem length_eq_one {α : Type} (l : List α) (h : l.length = 1) : ∃ a, l = [a] := by
  match l, h with
  | [a], _ => exact ⟨a, rfl⟩

/-- a categorical-date difference that is not one-minus-one has no proportion in the model -/
theorem waveDiffProp_undefined (sd : Side) (cd : Bool) (h : sd.waveUndefined cd = true)
    (default : Val) (f g f' g' : Side → Rat) :
    waveDiffProp cd sd.add.length sd.sub.length default (.fin (sumOver sd.add f)) (.fin (sumOver sd.add g))
      (.fin (sumOver sd.sub f')) (.fin (sumOver sd.sub g')) = .nan := by
  simp only [Side.waveUndefined, Side.isDiff, Bool.and_eq_true, Bool.not_eq_true',
    Bool.and_eq_false_iff, beq_eq_false_iff_ne, ne_eq, List.isEmpty_eq_false_iff] at h
  obtain ⟨⟨hcd, hne⟩, h11⟩ := h
  have hpos : sd.sub.length > 0 := List.length_pos_iff.mpr hne
  simp only [waveDiffProp, hcd, hpos, decide_true, Bool.and_self, if_true]
  by_cases hm : waveMulti sd.add.length sd.sub.length = true
  · simp [hm]
  · simp only [hm, Bool.false_eq_true, if_false]
    simp only [waveMulti, hpos, decide_true, Bool.true_and, Bool.or_eq_true, decide_eq_true_eq,
      not_or, not_lt] at hm
    have hs1 : sd.sub.length = 1 := by omega
    have ha0 : sd.add.length = 0 := by
      rcases h11 with h | h
      · omega
      · exact absurd hs1 h
    have : sd.add = [] := List.length_eq_zero_iff.mp ha0
    rw [this, sumOver_nil, sumOver_nil]
    have h00 : (Val.fin 0) / (Val.fin 0) = Val.nan := by decide
    rw [h00, Val.nan_sub]

/-- when the wave rule does not apply the default is kept -/
theorem waveDiffProp_default (cd : Bool) (nAdd nSub : Nat) (default cA bA cS bS : Val)
    (h : (cd && decide (nSub > 0)) = false) :
    waveDiffProp cd nAdd nSub default cA bA cS bS = default := by
  simp [waveDiffProp, h]

theorem waveDiffProp_one_one (default cA bA cS bS : Val) :
    waveDiffProp true 1 1 default cA bA cS bS = cA / bA - cS / bS := by
  simp [waveDiffProp, waveMulti]

end CrCube

namespace CrCube

theorem fin_div_sub_div (a b n : Rat) (hn : n ≠ 0) :
    (Val.fin a) / (Val.fin n) - (Val.fin b) / (Val.fin n) = (Val.fin a - Val.fin b) / (Val.fin n) := by
  rw [Val.div_fin_ne a n hn, Val.div_fin_ne b n hn, Val.sub_fin, Val.sub_fin, Val.div_fin_ne _ n hn]
  congr 1
  field_simp

/-- categorical-date one-minus-one difference ROW, column direction: the wave difference of the
    two percentages is the plain signed quotient, because the column base does not depend on the row -/
theorem wave_rows_eq (d : SliceDesign) (s : Survey) (C : Side) (a b : Nat) (rcd ccd : Bool)
    (hcat : d.rowV.kind = .cat) (hCnd : C.isDiff = false)
    (hNt : wsum s (d.inBase .col ⟨[a], [b], true⟩ C) ≠ 0) :
    let c := VarCell.ofSurvey d s .col ⟨[a], [b], true⟩ C rcd ccd
    C.inserted = false → c.cA / c.bA - c.cS / c.bS = c.count / c.total := by
  intro c hCi
  have hbd : c.bothDiff = false := by simp [c, VarCell.bothDiff, VarCell.ofSurvey, hCnd]
  have hcount : c.count = Val.fin (wsum s (d.isPos ⟨[a], [b], true⟩ C)) - Val.fin (wsum s (d.isNeg ⟨[a], [b], true⟩ C)) := by
    simp only [VarCell.count, hbd, Bool.false_eq_true, if_false]
    rfl
  have htot : c.total = .fin (wsum s (d.inBase .col ⟨[a], [b], true⟩ C)) := by
    simp only [c, VarCell.total, VarCell.ofSurvey, hCnd, Bool.false_eq_true, if_false]
  have hcA : c.cA = .fin (wsum s (d.isPos ⟨[a], [b], true⟩ C)) := by
    simp only [c, VarCell.ofSurvey, hCi, Bool.not_false, Bool.and_self, if_true, sumOver_single]
    rfl
  have hcS : c.cS = .fin (wsum s (d.isNeg ⟨[a], [b], true⟩ C)) := by
    simp only [c, VarCell.ofSurvey, hCi, Bool.not_false, Bool.and_self, if_true, sumOver_single]
    congr 1
    apply wsum_congr
    intro r _
    have hcs : C.sub = [] := by simpa [Side.isDiff] using hCnd
    simp [SliceDesign.isPos, SliceDesign.isNeg, SliceDesign.inRowAdd, SliceDesign.inRowSub,
      SliceDesign.inColSub, Side.base, hcs, Var.inAny, Bool.and_assoc]
  have hbA : c.bA = .fin (wsum s (d.inBase .col ⟨[a], [b], true⟩ C)) := by
    simp only [c, VarCell.ofSurvey, hCi, Bool.not_false, Bool.and_self, if_true, sumOver_single]
    rfl
  have hbS : c.bS = .fin (wsum s (d.inBase .col ⟨[a], [b], true⟩ C)) := by
    simp only [c, VarCell.ofSurvey, hCi, Bool.not_false, Bool.and_self, if_true, sumOver_single]
    congr 1
    apply wsum_congr
    intro r _
    simp only [SliceDesign.inBase, SliceDesign.rowElig, Side.eligible, Side.base, List.cons_append,
      List.nil_append, List.headD_cons]
    rw [d.rowV.eligibleFor_cat hcat _ b a]
  rw [hcA, hcS, hbA, hbS, hcount, htot]
  exact fin_div_sub_div _ _ _ hNt

/-- mirror image: categorical-date one-minus-one difference COLUMN, row direction -/
theorem wave_cols_eq (d : SliceDesign) (s : Survey) (R : Side) (a b : Nat) (rcd ccd : Bool)
    (hcat : d.colV.kind = .cat) (hRnd : R.isDiff = false)
    (hNt : wsum s (d.inBase .row R ⟨[a], [b], true⟩) ≠ 0) :
    let c := VarCell.ofSurvey d s .row R ⟨[a], [b], true⟩ rcd ccd
    R.inserted = false → c.cA / c.bA - c.cS / c.bS = c.count / c.total := by
  intro c hRi
  have hbd : c.bothDiff = false := by simp [c, VarCell.bothDiff, VarCell.ofSurvey, hRnd]
  have hcount : c.count = Val.fin (wsum s (d.isPos R ⟨[a], [b], true⟩)) - Val.fin (wsum s (d.isNeg R ⟨[a], [b], true⟩)) := by
    simp only [VarCell.count, hbd, Bool.false_eq_true, if_false]
    rfl
  have htot : c.total = .fin (wsum s (d.inBase .row R ⟨[a], [b], true⟩)) := by
    simp only [c, VarCell.total, VarCell.ofSurvey, hRnd, Bool.false_eq_true, if_false]
  have hcA : c.cA = .fin (wsum s (d.isPos R ⟨[a], [b], true⟩)) := by
    simp only [c, VarCell.ofSurvey, hRi, Bool.false_and, Bool.false_eq_true, if_false, sumOver_single]
    rfl
  have hcS : c.cS = .fin (wsum s (d.isNeg R ⟨[a], [b], true⟩)) := by
    simp only [c, VarCell.ofSurvey, hRi, Bool.false_and, Bool.false_eq_true, if_false, sumOver_single]
    congr 1
    apply wsum_congr
    intro r _
    have hrs : R.sub = [] := by simpa [Side.isDiff] using hRnd
    simp [SliceDesign.isPos, SliceDesign.isNeg, SliceDesign.inColAdd, SliceDesign.inRowSub,
      SliceDesign.inColSub, Side.base, hrs, Var.inAny, Bool.and_assoc]
  have hbA : c.bA = .fin (wsum s (d.inBase .row R ⟨[a], [b], true⟩)) := by
    simp only [c, VarCell.ofSurvey, hRi, Bool.false_and, Bool.false_eq_true, if_false, sumOver_single]
    rfl
  have hbS : c.bS = .fin (wsum s (d.inBase .row R ⟨[a], [b], true⟩)) := by
    simp only [c, VarCell.ofSurvey, hRi, Bool.false_and, Bool.false_eq_true, if_false, sumOver_single]
    congr 1
    apply wsum_congr
    intro r _
    simp only [SliceDesign.inBase, SliceDesign.colElig, Side.eligible, Side.base, List.cons_append,
      List.nil_append, List.headD_cons]
    rw [d.colV.eligibleFor_cat hcat _ b a]
  rw [hcA, hcS, hbA, hbS, hcount, htot]
  exact fin_div_sub_div _ _ _ hNt

end CrCube

namespace CrCube

theorem Side.eq_of_one_one (sd : Side) (h1 : sd.add.length = 1) (h2 : sd.sub.length = 1)
    (hi : sd.inserted = true) : ∃ a b, sd = ⟨[a], [b], true⟩ := by
  obtain ⟨a, ha⟩ := length_eq_one sd.add h1
  obtain ⟨b, hb⟩ := length_eq_one sd.sub h2
  refine ⟨a, b, ?_⟩
  cases sd
  simp_all

/-- a side whose wave rule is "defined": keeps the default, or is one-minus-one -/
theorem Side.wave_cases (sd : Side) (cd : Bool) (h : sd.waveUndefined cd = false) :
    (cd && decide (sd.sub.length > 0)) = false ∨ (cd = true ∧ sd.add.length = 1 ∧ sd.sub.length = 1) := by
  simp only [Side.waveUndefined, Side.isDiff, Bool.and_eq_false_iff, Bool.not_eq_false',
    Bool.and_eq_true, beq_iff_eq, List.isEmpty_iff] at h
  rcases h with (h | h) | h
  · left; simp [h]
  · left; simp [h]
  · cases cd
    · left; rfl
    · right; exact ⟨rfl, h.1, h.2⟩

/-- **the proportion fed to `_calc_var` is the plain signed quotient** wherever the property
    calls it defined and the base is not empty -/
theorem VarCell.proportion_ofSurvey (d : SliceDesign) (s : Survey) (dir : Dir) (R C : Side)
    (rcd ccd : Bool) (hcdR : rcd = true → d.rowV.kind = .cat) (hcdC : ccd = true → d.colV.kind = .cat)
    (hu : propUndefined dir R C rcd ccd = false) (hNt : wsum s (d.inBase dir R C) ≠ 0) :
    (VarCell.ofSurvey d s dir R C rcd ccd).proportion
      = (VarCell.ofSurvey d s dir R C rcd ccd).count / (VarCell.ofSurvey d s dir R C rcd ccd).total := by
  simp only [propUndefined, Bool.or_eq_false_iff] at hu
  obtain ⟨⟨hbd, hown⟩, hwave⟩ := hu
  cases dir with
  | table => rfl
  | row =>
    simp only [Bool.or_eq_false_iff, Bool.and_eq_false_iff] at hown hwave
    have hRnd : R.isDiff = false := hown
    have hRs : R.sub.length = 0 := by
      simp only [Side.isDiff, Bool.not_eq_false', List.isEmpty_iff] at hRnd
      simp [hRnd]
    unfold VarCell.proportion
    show (if R.inserted && !C.inserted then _ else if !R.inserted && C.inserted then _ else _) = _
    by_cases h1 : (R.inserted && !C.inserted) = true
    · rw [if_pos h1]
      apply waveDiffProp_default
      simp [VarCell.ofSurvey, hRs]
    · rw [if_neg h1]
      by_cases h2 : (!R.inserted && C.inserted) = true
      · rw [if_pos h2]
        simp only [Bool.and_eq_true, Bool.not_eq_true'] at h2
        have hCw : C.waveUndefined ccd = false := by
          rcases hwave.2 with (h | h) | h
          · simp [h2.1] at h
          · simp [h2.2] at h
          · exact h
        rcases C.wave_cases ccd hCw with h | ⟨hcd, ha, hb⟩
        · apply waveDiffProp_default
          exact h
        · obtain ⟨a, b, rfl⟩ := C.eq_of_one_one ha hb h2.2
          subst hcd
          show waveDiffProp true 1 1 _ _ _ _ _ = _
          rw [waveDiffProp_one_one]
          exact wave_cols_eq d s R a b rcd true (hcdC rfl) hRnd hNt h2.1
      · rw [if_neg h2]
  | col =>
    simp only [Bool.or_eq_false_iff, Bool.and_eq_false_iff] at hown hwave
    have hCnd : C.isDiff = false := hown
    have hCs : C.sub.length = 0 := by
      simp only [Side.isDiff, Bool.not_eq_false', List.isEmpty_iff] at hCnd
      simp [hCnd]
    unfold VarCell.proportion
    show (if R.inserted && !C.inserted then _ else if !R.inserted && C.inserted then _ else _) = _
    by_cases h1 : (R.inserted && !C.inserted) = true
    · rw [if_pos h1]
      simp only [Bool.and_eq_true, Bool.not_eq_true'] at h1
      have hRw : R.waveUndefined rcd = false := by
        rcases hwave.1 with (h | h) | h
        · simp [h1.1] at h
        · simp [h1.2] at h
        · exact h
      rcases R.wave_cases rcd hRw with h | ⟨hcd, ha, hb⟩
      · apply waveDiffProp_default
        exact h
      · obtain ⟨a, b, rfl⟩ := R.eq_of_one_one ha hb h1.1
        subst hcd
        show waveDiffProp true 1 1 _ _ _ _ _ = _
        rw [waveDiffProp_one_one]
        exact wave_rows_eq d s C a b true ccd (hcdR rfl) hCnd hNt h1.2
    · rw [if_neg h1]
      by_cases h2 : (!R.inserted && C.inserted) = true
      · rw [if_pos h2]
        apply waveDiffProp_default
        simp [VarCell.ofSurvey, hCs]
      · rw [if_neg h2]

end CrCube

namespace CrCube

/-! ### strand -/

theorem strand_wave_eq (v : Var) (s : Survey) (a b : Nat) (hcat : v.kind = .cat)
    (hNt : wsum s (strandBase v ⟨[a], [b], true⟩) ≠ 0) :
    let c := StrandCell.ofSurvey v s ⟨[a], [b], true⟩ true
    c.cA / c.bA - c.cS / c.bS = c.count / c.base := by
  intro c
  have hcA : c.cA = .fin (wsum s (strandPos v ⟨[a], [b], true⟩)) := by
    simp only [c, StrandCell.ofSurvey, sumOver_single]; rfl
  have hcS : c.cS = .fin (wsum s (strandNeg v ⟨[a], [b], true⟩)) := by
    simp only [c, StrandCell.ofSurvey, sumOver_single]; rfl
  have hbA : c.bA = .fin (wsum s (strandBase v ⟨[a], [b], true⟩)) := by
    simp only [c, StrandCell.ofSurvey, sumOver_single]; rfl
  have hbS : c.bS = .fin (wsum s (strandBase v ⟨[a], [b], true⟩)) := by
    simp only [c, StrandCell.ofSurvey, sumOver_single]
    congr 1
    apply wsum_congr
    intro r _
    simp only [strandBase, Side.eligible, Side.base, List.cons_append, List.nil_append, List.headD_cons]
    rw [v.eligibleFor_cat hcat _ b a]
  have hcount : c.count = Val.fin (wsum s (strandPos v ⟨[a], [b], true⟩))
      - Val.fin (wsum s (strandNeg v ⟨[a], [b], true⟩)) := rfl
  have hbase : c.base = .fin (wsum s (strandBase v ⟨[a], [b], true⟩)) := rfl
  rw [hcA, hcS, hbA, hbS, hcount, hbase]
  exact fin_div_sub_div _ _ _ hNt

theorem strandUndefined_iff (S : Side) (cd : Bool) :
    strandUndefined S cd = true ↔
      (S.inserted = true ∧ cd = true ∧ S.sub.length > 0 ∧ S.add.length > 0
        ∧ waveMulti S.add.length S.sub.length = true) := by
  simp only [strandUndefined, waveMulti, Bool.and_eq_true, Bool.not_eq_true', List.isEmpty_eq_false_iff,
    Bool.and_eq_false_iff, beq_eq_false_iff_ne, ne_eq, decide_eq_true_eq, Bool.or_eq_true,
    ← List.length_pos_iff]
  constructor
  · rintro ⟨⟨⟨⟨h1, h2⟩, h3⟩, h4⟩, h5⟩
    refine ⟨h1, h2, h4, h3, h4, ?_⟩
    omega
  · rintro ⟨h1, h2, h3, h4, _, h5⟩
    refine ⟨⟨⟨⟨h1, h2⟩, h4⟩, h3⟩, ?_⟩
    omega

end CrCube
