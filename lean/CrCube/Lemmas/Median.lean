/-
  The cumulative-count median (helper lemmas for C14).

  `expandN l` is the multiset of respondents' values behind a list of (value, integer count)
  pairs, in list order.  The scan `medianGo` of the model reads off the middle element(s) of
  that expansion (`go_spec`), whatever the order of the list; for a list sorted by value the
  expansion is the sorted multiset, hence the scan returns the median.
-/
import CrCube.Model.Scale
import CrCube.Lemmas.ValSum
import Mathlib.Data.List.Sort
import Mathlib.Tactic.FieldSimp
import Mathlib.Tactic.Linarith
import Mathlib.Tactic.Push

namespace CrCube.MedianLemmas
open CrCube CrCube.Scale

abbrev VN := Rat × Nat

def expandN (l : List VN) : List Rat := l.flatMap (fun p => List.replicate p.2 p.1)
def totalN (l : List VN) : Nat := (l.map (·.2)).sum
def encNum (p : VN) : Val × Rat := (Val.fin p.1, (p.2 : Rat))
def enc (p : VN) : Val × Val := (Val.fin p.1, Val.fin (p.2 : Rat))

/-- middle element(s) of a list `E` that is the tail, from position `acc`, of a list of length `N` -/
def medFrom (E : List Rat) (acc N : Nat) : Val :=
  if N % 2 = 1 then .fin (E.getD (N / 2 - acc) 0)
  else .fin ((E.getD (N / 2 - 1 - acc) 0 + E.getD (N / 2 - acc) 0) / 2)

@[simp] theorem expandN_nil : expandN [] = [] := rfl
theorem expandN_cons (v : Rat) (c : Nat) (l : List VN) :
    expandN ((v, c) :: l) = List.replicate c v ++ expandN l := by
  simp [expandN, List.flatMap_cons]

@[simp] theorem totalN_nil : totalN [] = 0 := rfl
theorem totalN_cons (v : Rat) (c : Nat) (l : List VN) : totalN ((v, c) :: l) = c + totalN l := by
  simp [totalN]

theorem length_expandN (l : List VN) : (expandN l).length = totalN l := by
  induction l with
  | nil => rfl
  | cons p ps ih => obtain ⟨v, c⟩ := p; simp [expandN_cons, totalN_cons, ih]

theorem getD_replicate_append_lt (c : Nat) (v : Rat) (R : List Rat) (i : Nat) (h : i < c) :
    (List.replicate c v ++ R).getD i 0 = v := by
  rw [List.getD_eq_getElem?_getD, List.getElem?_append_left (by simpa using h)]
  simp [List.getElem?_replicate, h]

theorem getD_replicate_append_ge (c : Nat) (v : Rat) (R : List Rat) (i : Nat) (h : c ≤ i) :
    (List.replicate c v ++ R).getD i 0 = R.getD (i - c) 0 := by
  rw [List.getD_eq_getElem?_getD, List.getElem?_append_right (by simpa using h)]
  simp [List.getD_eq_getElem?_getD]

theorem nextPositive_spec (l : List VN) :
    nextPositive (l.map encNum) = ((expandN l).head?).map Val.fin := by
  induction l with
  | nil => rfl
  | cons p ps ih =>
    obtain ⟨v, c⟩ := p
    simp only [List.map_cons, encNum, nextPositive, expandN_cons]
    by_cases hc : c = 0
    · subst hc; simpa using ih
    · have hpos : (0 : Rat) < (c : Rat) := by exact_mod_cast Nat.pos_of_ne_zero hc
      rw [if_pos hpos]
      obtain ⟨c', rfl⟩ := Nat.exists_eq_succ_of_ne_zero hc
      simp [List.replicate_succ]

theorem head?_expandN_of_pos (l : List VN) (h : 0 < totalN l) :
    ∃ v, (expandN l).head? = some v ∧ (expandN l).getD 0 0 = v := by
  have hl : 0 < (expandN l).length := by rw [length_expandN]; exact h
  cases he : expandN l with
  | nil => simp [he] at hl
  | cons x xs => exact ⟨x, rfl, rfl⟩

theorem half_le_iff (a c N : Nat) (hN : 0 < N) :
    (((a : Rat) + (c : Rat)) / (N : Rat) ≥ 1 / 2) ↔ N ≤ 2 * (a + c) := by
  have hN' : (0 : Rat) < (N : Rat) := by exact_mod_cast hN
  rw [ge_iff_le, le_div_iff₀ hN']
  constructor
  · intro h
    have : (N : Rat) ≤ 2 * ((a : Rat) + (c : Rat)) := by linarith
    exact_mod_cast this
  · intro h
    have : (N : Rat) ≤ 2 * ((a : Rat) + (c : Rat)) := by exact_mod_cast h
    linarith

theorem half_eq_iff (a c N : Nat) (hN : 0 < N) :
    (((a : Rat) + (c : Rat)) / (N : Rat) = 1 / 2) ↔ 2 * (a + c) = N := by
  have hN' : (N : Rat) ≠ 0 := by exact_mod_cast (Nat.pos_iff_ne_zero.mp hN)
  rw [div_eq_iff hN']
  constructor
  · intro h
    have : 2 * ((a : Rat) + (c : Rat)) = (N : Rat) := by linarith
    exact_mod_cast this
  · intro h
    have : 2 * ((a : Rat) + (c : Rat)) = (N : Rat) := by exact_mod_cast h
    linarith

theorem two_val : (2 : Val) = Val.fin 2 := by
  show Val.fin ((2 : Nat) : Rat) = Val.fin 2
  norm_num

/-- THE SCAN LEMMA: the model's cumulative-count scan returns the middle element(s) of the
    expansion, for any list of (value, integer count) pairs (sorted or not) -/
theorem go_spec (l : List VN) (acc N : Nat) (hN : 0 < N) (hacc : 2 * acc < N)
    (htot : acc + totalN l = N) :
    medianGo (l.map encNum) (acc : Rat) (N : Rat) = medFrom (expandN l) acc N := by
  induction l generalizing acc with
  | nil => simp at htot; omega
  | cons p ps ih =>
    obtain ⟨v, c⟩ := p
    rw [totalN_cons] at htot
    simp only [List.map_cons, encNum, medianGo]
    by_cases h1 : N ≤ 2 * (acc + c)
    · rw [if_pos ((half_le_iff acc c N hN).mpr h1)]
      by_cases h2 : 2 * (acc + c) = N
      · rw [if_pos ((half_eq_iff acc c N hN).mpr h2)]
        have hrest : 0 < totalN ps := by omega
        obtain ⟨v', hv', hg⟩ := head?_expandN_of_pos ps hrest
        have hnp := nextPositive_spec ps
        rw [hv'] at hnp
        rw [hnp]
        simp only [Option.map_some]
        unfold medFrom
        have hodd : ¬ (N % 2 = 1) := by omega
        rw [if_neg hodd, expandN_cons]
        rw [getD_replicate_append_lt c v _ _ (by omega), getD_replicate_append_ge c v _ _ (by omega)]
        have : N / 2 - acc - c = 0 := by omega
        rw [this, hg, two_val, Val.add_fin, ValL.fin_div_fin _ _ (by norm_num)]
      · rw [if_neg (fun h => h2 ((half_eq_iff acc c N hN).mp h))]
        unfold medFrom
        rw [expandN_cons]
        by_cases hodd : N % 2 = 1
        · rw [if_pos hodd, getD_replicate_append_lt c v _ _ (by omega)]
        · rw [if_neg hodd, getD_replicate_append_lt c v _ _ (by omega),
            getD_replicate_append_lt c v _ _ (by omega)]
          congr 1; ring
    · rw [if_neg (fun h => h1 ((half_le_iff acc c N hN).mp h))]
      have hcast : (acc : Rat) + (c : Rat) = ((acc + c : Nat) : Rat) := by push_cast; ring
      rw [hcast, ih (acc + c) (by omega) (by omega)]
      unfold medFrom
      rw [expandN_cons]
      by_cases hodd : N % 2 = 1
      · rw [if_pos hodd, if_pos hodd, getD_replicate_append_ge c v _ _ (by omega)]
        congr 2; omega
      · rw [if_neg hodd, if_neg hodd, getD_replicate_append_ge c v _ _ (by omega),
          getD_replicate_append_ge c v _ _ (by omega)]
        have e1 : N / 2 - 1 - acc - c = N / 2 - 1 - (acc + c) := by omega
        have e2 : N / 2 - acc - c = N / 2 - (acc + c) := by omega
        rw [e1, e2]

theorem numPairs_enc (l : List VN) : numPairs (l.map enc) = l.map encNum := by
  unfold numPairs
  rw [List.map_map]
  apply List.map_congr_left
  intro p _; rfl

theorem sum_counts_cast (l : List VN) : ((l.map encNum).map (·.2)).sum = ((totalN l : Nat) : Rat) := by
  induction l with
  | nil => simp [totalN]
  | cons p ps ih =>
    obtain ⟨v, c⟩ := p
    simp only [List.map_cons, List.sum_cons, encNum, totalN_cons, ih]
    push_cast; ring

/-- `_weighted_median` (repaired) on integer counts -/
theorem weightedMedian_nat (l : List VN) :
    weightedMedian (l.map enc) = if totalN l = 0 then Val.nan else medFrom (expandN l) 0 (totalN l) := by
  unfold weightedMedian
  simp only [numPairs_enc, sum_counts_cast]
  by_cases h0 : totalN l = 0
  · rw [if_pos h0, h0]; simp
  · have hne : ((totalN l : Nat) : Rat) ≠ 0 := by exact_mod_cast h0
    rw [if_neg hne, if_neg h0]
    have := go_spec l 0 (totalN l) (Nat.pos_of_ne_zero h0) (by omega) (by omega)
    simpa using this

/-- the expansion of a list sorted by value is sorted -/
theorem expandN_sorted (l : List VN) (h : l.Pairwise (fun p q => p.1 ≤ q.1)) :
    (expandN l).Pairwise (· ≤ ·) := by
  unfold expandN
  rw [List.pairwise_flatMap]
  constructor
  · intro p _
    rw [List.pairwise_replicate]
    right; exact le_refl _
  · apply h.imp
    intro p q hpq x hx y hy
    rw [List.mem_replicate] at hx hy
    rw [hx.2, hy.2]; exact hpq

theorem expandN_perm {l₁ l₂ : List VN} (h : l₁.Perm l₂) : (expandN l₁).Perm (expandN l₂) :=
  List.Perm.flatMap_right _ h

/-- median of a list already sorted -/
def medOfSorted (s : List Rat) : Val :=
  if s.length = 0 then .nan else medFrom s 0 s.length

/-- a sorted permutation of `xs` is `xs.mergeSort` -/
theorem mergeSort_eq_of_sorted_perm (xs E : List Rat) (hs : E.Pairwise (· ≤ ·)) (hp : E.Perm xs) :
    xs.mergeSort (fun a b => decide (a ≤ b)) = E := by
  have hs' : (xs.mergeSort (fun a b => decide (a ≤ b))).Pairwise (· ≤ ·) := by
    have := List.pairwise_mergeSort (le := fun a b : Rat => decide (a ≤ b))
      (by intro a b c hab hbc; simp only [decide_eq_true_eq] at *; exact le_trans hab hbc)
      (by intro a b; simp only [Bool.or_eq_true, decide_eq_true_eq]; exact le_total a b) xs
    exact this.imp (by intro a b h; simpa using h)
  have hp' : (xs.mergeSort (fun a b => decide (a ≤ b))).Perm E :=
    (List.mergeSort_perm xs _).trans hp.symm
  exact List.Perm.eq_of_pairwise (fun a b _ _ hab hba => le_antisymm hab hba) hs' hs hp'

end CrCube.MedianLemmas
