/-
  Python `int(str(n)) == n` for the model's `pyInt` / `decStr`.
-/
import CrCube.Model.Shim

namespace CrCube.Shim

theorem parseU_digits (l : List Char) (hd : ∀ c ∈ l, c.isDigit = true) :
    ∀ (pd : Bool) (acc : Nat), (l ≠ [] ∨ pd = true) →
      parseU pd l acc = some (Nat.ofDigitChars 10 l acc) := by
  induction l with
  | nil =>
    intro pd acc h
    rcases h with h | h
    · exact absurd rfl h
    · simp [parseU, h]
  | cons c cs ih =>
    intro pd acc _
    have hc : c.isDigit = true := hd c (by simp)
    have hcs : ∀ c ∈ cs, c.isDigit = true := fun x hx => hd x (by simp [hx])
    rw [parseU]
    simp only [hc, if_true]
    rw [ih hcs true _ (Or.inr rfl)]
    simp [Nat.ofDigitChars_cons]

theorem isDigit_not_ws {c : Char} (h : c.isDigit = true) : isPyWs c = false := by
  have h1 : c.val ≥ 48 ∧ c.val ≤ 57 := by
    simpa [Char.isDigit] using h
  have : c.val.toNat ≥ 48 := by
    have := h1.1
    exact UInt32.le_iff_toNat_le.mp this
  have hne : ∀ k : Nat, k < 48 → c ≠ Char.ofNat k := by
    intro k hk heq
    subst heq
    revert this
    simp only [Char.ofNat]
    intro h2
    by_cases hv : k.isValidChar
    · simp [Char.ofNatAux, hv] at h2
      omega
    · simp [hv] at h2
  simp only [isPyWs, Bool.or_eq_false_iff, beq_eq_false_iff_ne, ne_eq]
  refine ⟨⟨⟨⟨⟨?_, ?_⟩, ?_⟩, ?_⟩, ?_⟩, ?_⟩
  · exact hne 32 (by omega)
  · exact hne 9 (by omega)
  · exact hne 10 (by omega)
  · exact hne 13 (by omega)
  · exact hne 11 (by omega)
  · exact hne 12 (by omega)

end CrCube.Shim

namespace CrCube.Shim

theorem dropWhile_head_false {p : Char → Bool} : ∀ (l : List Char),
    (∀ c, l.head? = some c → p c = false) → l.dropWhile p = l
  | [], _ => rfl
  | c :: cs, h => by
    have := h c rfl
    simp [List.dropWhile, this]

theorem stripL_eq (l : List Char) (h1 : ∀ c, l.head? = some c → isPyWs c = false)
    (h2 : ∀ c, l.getLast? = some c → isPyWs c = false) : stripL l = l := by
  unfold stripL
  rw [dropWhile_head_false l h1]
  rw [dropWhile_head_false l.reverse (by simpa using h2)]
  simp

theorem toDigits_digit (m : Nat) : ∀ c ∈ Nat.toDigits 10 m, c.isDigit = true :=
  fun _ hc => Nat.isDigit_of_mem_toDigits (by decide) (by decide) hc

theorem pyIntL_decL (n : Int) : pyIntL (decL n) = some n := by
  cases n with
  | ofNat m =>
    have hd := toDigits_digit m
    have hne : Nat.toDigits 10 m ≠ [] := Nat.toDigits_ne_nil
    have hs : stripL (Nat.toDigits 10 m) = Nat.toDigits 10 m := by
      apply stripL_eq
      · intro c hc
        exact isDigit_not_ws (hd c (List.mem_of_mem_head? hc))
      · intro c hc
        exact isDigit_not_ws (hd c (List.mem_of_getLast? hc))
    simp only [decL, pyIntL, hs]
    -- first char is a digit, so neither '-' nor '+'
    cases hl : Nat.toDigits 10 m with
    | nil => exact absurd hl hne
    | cons c cs =>
      have hc : c.isDigit = true := hd c (by simp [hl])
      have h1 : c ≠ '-' := by intro h; subst h; simp [Char.isDigit] at hc
      have h2 : c ≠ '+' := by intro h; subst h; simp [Char.isDigit] at hc
      have hp := parseU_digits (c :: cs) (by rw [← hl]; exact hd) false 0 (Or.inl (by simp))
      have hv : Nat.ofDigitChars 10 (c :: cs) 0 = m := by rw [← hl]; exact Nat.ofDigitChars_ten_toDigits
      split
      · next ds heq => simp at heq; exact absurd heq.1 h1
      · next ds heq => simp at heq; exact absurd heq.1 h2
      · rw [hp, hv]; rfl
  | negSucc m =>
    have hd := toDigits_digit (m + 1)
    have hne : Nat.toDigits 10 (m + 1) ≠ [] := Nat.toDigits_ne_nil
    have hs : stripL ('-' :: Nat.toDigits 10 (m + 1)) = '-' :: Nat.toDigits 10 (m + 1) := by
      apply stripL_eq
      · intro c hc
        simp at hc; subst hc; decide
      · intro c hc
        rw [List.getLast?_cons_of_ne_nil hne] at hc
        exact isDigit_not_ws (hd c (List.mem_of_getLast? hc))
    simp only [decL, pyIntL, hs]
    have hp := parseU_digits (Nat.toDigits 10 (m + 1)) hd false 0 (Or.inl hne)
    rw [hp, Nat.ofDigitChars_ten_toDigits]
    simp [Int.negSucc_eq]

theorem pyInt_decStr (n : Int) : pyInt (decStr n) = some n := by
  simp [pyInt, decStr, String.toList_ofList, pyIntL_decL]

end CrCube.Shim
