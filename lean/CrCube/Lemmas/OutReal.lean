/-
  Real-valued interpretation ⟦·⟧ of the symbolic outputs (`Out`): sqrt is `Real.sqrt`, the
  standard normal CDF is a PARAMETER `Φ` (its properties enter theorems as hypotheses, never as
  axioms).  Non-finite values are interpreted as 0 and are excluded by hypotheses where it matters.
-/
import CrCube.Model.Val
import Mathlib.Analysis.SpecialFunctions.Pow.Real

namespace CrCube

noncomputable def Val.toReal : Val → ℝ
  | .fin q => (q : ℝ)
  | _ => 0

noncomputable def Out.toReal (Φ : ℝ → ℝ) : Out → ℝ
  | .v x => x.toReal
  | .sqrt x => Real.sqrt x.toReal
  | .divSqrt n d => n.toReal / Real.sqrt d.toReal
  | .scale k o => (k : ℝ) * o.toReal Φ
  | .normTail2 z => 2 * (1 - Φ |z.toReal Φ|)
  | .tTail2 _ _ => 0
  | .none_ => 0

/-- the argument of a square root is a finite non-negative number (so numpy's sqrt is not NaN) -/
def Val.IsNonnegFin (x : Val) : Prop := ∃ q : Rat, x = .fin q ∧ 0 ≤ q

end CrCube
