/-
  Numeric measures (no numeric array) over categorical / multiple-response variables: which RAW
  cell every numeric extractor and every count extractor built on an arbitrary measure array
  (counts or valid counts) reads, 0-D to 3-D, multiple response in every position.
-/
import CrCube.Lemmas.NumArray

set_option linter.unusedSimpArgs false
set_option linter.unusedSectionVars false

namespace CrCube

/-- `_BaseCubeMeans.factory` & twins read the same plane as `_BaseCubeCounts.factory().counts`,
    for all nine type pairs -/
theorem numericExtract_eq_counts (rk ck : DK) (c : FT) (i j : Nat) :
    numericExtract rk ck c i j = (MatCounts.factory rk ck c).counts i j := by
  cases rk <;> cases ck <;> rfl

section scalar2d
variable (R C : Var) (hR : R.CM) (hC : C.CM) (raw : FT)
include hR hC

theorem numeric2d_cell (i j : Nat) :
    (NDesign.mk [R, C] none).sliceNumeric raw 0 i j = raw.get (R.msub i ++ C.msub j) := by
  rcases hR with hR | ⟨hR, hmR, _⟩ <;> rcases hC with hC | ⟨hC, hmC, _⟩ <;>
  simp [NDesign.sliceNumeric, NDesign.sliceArr, NDesign.view, NDesign.order, NDesign.sizes,
    NDesign.valid, NDesign.kinds, NDesign.rk, NDesign.ck, NDesign.ndim, NDesign.hasNumArr,
    dimOrder_false, range_two, range_three, range_four, permTake, numericExtract, sliceExpr,
    apparentKinds, Var.dks, Var.validAxes, rawShapeOf, Var.rawShape, Var.msub, hR, hC, *, List.getD]

theorem numeric2d_counts (i j : Nat) :
    ((NDesign.mk [R, C] none).sliceCounts raw 0).counts i j = raw.get (R.msub i ++ C.msub j) := by
  rw [← numeric2d_cell R C hR hC raw i j]
  exact (numericExtract_eq_counts _ _ _ i j).symm

end scalar2d

section scalar3d
variable (T R C : Var) (hT : T.CM) (hR : R.CM) (hC : C.CM) (raw : FT)
include hT hR hC

theorem numeric3d_cell (k i j : Nat) :
    (NDesign.mk [T, R, C] none).sliceNumeric raw k i j
      = raw.get (T.msub k ++ R.msub i ++ C.msub j) := by
  rcases hT with hT | ⟨hT, hmT, _⟩ <;> rcases hR with hR | ⟨hR, hmR, _⟩ <;>
    rcases hC with hC | ⟨hC, hmC, _⟩ <;>
  simp [NDesign.sliceNumeric, NDesign.sliceArr, NDesign.view, NDesign.order, NDesign.sizes,
    NDesign.valid, NDesign.kinds, NDesign.rk, NDesign.ck, NDesign.ndim, NDesign.hasNumArr,
    dimOrder_false, range_three, range_four, range_five, range_six, permTake, numericExtract,
    sliceExpr, FT.slice0, apparentKinds, Var.dks, Var.validAxes, rawShapeOf, Var.rawShape,
    Var.msub, hT, hR, hC, *, List.getD]

theorem numeric3d_counts (k i j : Nat) :
    ((NDesign.mk [T, R, C] none).sliceCounts raw k).counts i j
      = raw.get (T.msub k ++ R.msub i ++ C.msub j) := by
  rw [← numeric3d_cell T R C hT hR hC raw k i j]
  exact (numericExtract_eq_counts _ _ _ i j).symm

end scalar3d

section scalar1d
variable (V : Var) (hV : V.CM) (raw : FT)
include hV

theorem numeric1d_cell (i : Nat) :
    (NDesign.mk [V] none).strandNumeric raw i = raw.get (V.msub i) := by
  rcases hV with h | ⟨h, hm, _⟩ <;>
  simp [NDesign.strandNumeric, NDesign.stripeKind, NDesign.view, NDesign.order, NDesign.sizes,
    NDesign.valid, NDesign.kinds, NDesign.hasNumArr, dimOrder_false, dimOrder_one, range_two,
    permTake, apparentKinds, Var.dks, Var.validAxes, rawShapeOf, Var.rawShape, Var.msub, h, *,
    List.getD]

theorem numeric1d_counts (i : Nat) :
    ((NDesign.mk [V] none).strandCounts raw).counts i = raw.get (V.msub i) := by
  rcases hV with h | ⟨h, hm, _⟩ <;>
  simp [NDesign.strandCounts, NDesign.stripeKind, StripeCounts.cat, StripeCounts.mr, NDesign.view,
    NDesign.order, NDesign.sizes,
    NDesign.valid, NDesign.kinds, NDesign.hasNumArr, dimOrder_false, dimOrder_one, range_two,
    permTake, apparentKinds, Var.dks, Var.validAxes, rawShapeOf, Var.rawShape, Var.msub, h, *,
    List.getD]

end scalar1d

theorem numeric0d_cell (raw : FT) : (NDesign.mk [] none).nubValue raw = raw.get [] := by
  simp [NDesign.nubValue, NDesign.view, NDesign.order, NDesign.sizes, NDesign.hasNumArr, permTake,
    dimOrder_false, rawShapeOf]

/-- without a numeric array the library's shape is the raw shape of the grouping variables -/
theorem scalar_shape (vars : List Var) : (NDesign.mk vars none).shape = rawShapeOf vars := by
  simp only [NDesign.shape, NDesign.order, NDesign.sizes, NDesign.hasNumArr, Option.toList,
    List.nil_append, Option.isSome, dimOrder_false]
  exact map_getD_range _ 0

end CrCube
