/-
  Helper lemmas for C20: the sliding-window sum (`slide`) index by index.
-/
import CrCube.Model.Smoothing
import CrCube.Spec.SmoothingSpec

namespace CrCube.Smoothing
open CrCube

theorem slide_getElem? (w : Nat) (hw : 1 ≤ w) (v : List Val) (k : Nat) :
    (slide w v)[k]? = if k + w ≤ v.length then some (Val.sum ((v.drop k).take w)) else none := by
  induction v generalizing k with
  | nil =>
    have : ¬ (k + w ≤ 0) := by omega
    simp [slide, this]
  | cons x xs ih =>
    by_cases hle : w ≤ xs.length + 1
    · cases k with
      | zero => simp [slide, hle]
      | succ k' =>
        have e : (k' + 1 + w ≤ xs.length + 1) = (k' + w ≤ xs.length) := by
          apply propext; omega
        simp only [slide, hle, if_true, List.getElem?_cons_succ, ih k', List.length_cons,
          List.drop_succ_cons, e]
    · have : ¬ (k + w ≤ xs.length + 1) := by omega
      simp [slide, hle, this]

theorem slide_length (w : Nat) (hw : 1 ≤ w) (v : List Val) :
    (slide w v).length = v.length + 1 - w := by
  induction v with
  | nil => simp [slide]; omega
  | cons x xs ih =>
    by_cases hle : w ≤ xs.length + 1
    · simp [slide, hle, ih]; omega
    · simp [slide, hle]; omega

theorem take_drop_eq_map_range (v : List Val) (k w : Nat) (h : k + w ≤ v.length) :
    (v.drop k).take w = (List.range w).map (fun j => v.getD (k + j) Val.nan) := by
  apply List.ext_getElem
  · simp; omega
  · intro i h1 h2
    simp at h1 h2
    have : k + i < v.length := by omega
    simp [List.getD, this]

theorem convMean_length (w : Nat) (hw : 1 ≤ w) (v : List Val) :
    (convMean w v).length = v.length + 1 - w := by
  simp [convMean, slide_length w hw]

theorem convMean_getElem? (w : Nat) (hw : 1 ≤ w) (v : List Val) (k : Nat) :
    (convMean w v)[k]? =
      if k + w ≤ v.length then
        some (Val.sum ((List.range w).map (fun j => v.getD (k + j) Val.nan)) / Val.ofNat w)
      else none := by
  unfold convMean
  rw [List.getElem?_map, slide_getElem? w hw]
  by_cases h : k + w ≤ v.length
  · simp [h, take_drop_eq_map_range v k w h]
  · simp [h]

end CrCube.Smoothing
