/-
  Sums of `Val` lists whose entries are finite or NaN (helper lemmas for C13 / C14).
-/
import CrCube.Model.Val
import Mathlib.Algebra.Order.Field.Rat
import Mathlib.Tactic.Ring
import Mathlib.Tactic.Linarith

namespace CrCube

/-- Option Rat ↦ Val (None ↦ NaN): `Element.numeric_value` -/
def optVal : Option Rat → Val
  | none => .nan
  | some q => .fin q

@[simp] theorem optVal_none : optVal none = .nan := rfl
@[simp] theorem optVal_some (q : Rat) : optVal (some q) = .fin q := rfl

namespace ValL
open CrCube.Val

theorem foldl_add_fin (l : List Rat) (a : Rat) :
    (l.map Val.fin).foldl (· + ·) (Val.fin a) = Val.fin (a + l.sum) := by
  induction l generalizing a with
  | nil => simp
  | cons x xs ih =>
    simp only [List.map_cons, List.foldl_cons, List.sum_cons]
    rw [add_fin, ih]; congr 1; ring

theorem sum_map_fin (l : List Rat) : Val.sum (l.map Val.fin) = Val.fin l.sum := by
  unfold Val.sum
  rw [foldl_add_fin]; simp

theorem sum_map_fin' {α : Type} (l : List α) (f : α → Rat) :
    Val.sum (l.map (fun x => Val.fin (f x))) = Val.fin (l.map f).sum := by
  have : l.map (fun x => Val.fin (f x)) = (l.map f).map Val.fin := by simp
  rw [this, sum_map_fin]

theorem nan_add (v : Val) : (Val.nan : Val) + v = .nan := by cases v <;> rfl
theorem add_nan (v : Val) : v + (Val.nan : Val) = .nan := by cases v <;> rfl

theorem foldl_add_nan (l : List Val) : l.foldl (· + ·) Val.nan = Val.nan := by
  induction l with
  | nil => rfl
  | cons x xs ih => simp only [List.foldl_cons, nan_add, ih]

/-- a sum with a NaN entry is NaN -/
theorem sum_of_mem_nan (l : List Val) (h : Val.nan ∈ l) : Val.sum l = .nan := by
  unfold Val.sum
  suffices ∀ acc : Val, l.foldl (· + ·) acc = .nan from this _
  induction l with
  | nil => simp at h
  | cons x xs ih =>
    intro acc
    simp only [List.foldl_cons]
    rcases List.mem_cons.mp h with hx | hx
    · rw [← hx, add_nan, foldl_add_nan]
    · exact ih hx _

@[simp] theorem isNan_nan : Val.isNan Val.nan = true := rfl
@[simp] theorem isNan_fin (q : Rat) : Val.isNan (Val.fin q) = false := rfl

theorem foldl_nansum_ov (l : List (Option Rat)) (a : Rat) :
    (l.map optVal).foldl (fun acc x => if x.isNan then acc else acc + x) (Val.fin a)
      = Val.fin (a + (l.filterMap id).sum) := by
  induction l generalizing a with
  | nil => simp
  | cons x xs ih =>
    cases x with
    | none =>
      simp only [List.map_cons, List.foldl_cons, optVal_none, isNan_nan, if_true, List.filterMap_cons, id]
      exact ih a
    | some q =>
      simp only [List.map_cons, List.foldl_cons, optVal_some, isNan_fin, Bool.false_eq_true, if_false,
        List.filterMap_cons, id, List.sum_cons]
      rw [add_fin, ih]; congr 1; ring

/-- `np.nansum` of a list of optional numbers -/
theorem nansum_map_ov (l : List (Option Rat)) :
    Val.nansum (l.map optVal) = Val.fin (l.filterMap id).sum := by
  unfold Val.nansum
  rw [foldl_nansum_ov]; simp

theorem nansum_map_ov' {α : Type} (l : List α) (f : α → Option Rat) :
    Val.nansum (l.map (fun x => optVal (f x))) = Val.fin (l.filterMap f).sum := by
  have : l.map (fun x => optVal (f x)) = (l.map f).map optVal := by simp
  rw [this, nansum_map_ov]
  congr 2
  induction l with
  | nil => rfl
  | cons x xs ih => cases h : f x <;> simp [List.filterMap_cons, h, ih]

theorem fin_div_fin (a b : Rat) (hb : b ≠ 0) : (Val.fin a) / (Val.fin b) = Val.fin (a / b) := by
  rw [div_fin]; simp [hb]

theorem fin_zero_div_fin_zero : (Val.fin 0) / (Val.fin 0) = Val.nan := by
  rw [div_fin]; simp

theorem fin_div_nan (a : Rat) : (Val.fin a) / Val.nan = Val.nan := rfl
theorem nan_div (v : Val) : Val.nan / v = Val.nan := by cases v <;> rfl
theorem nan_mul (v : Val) : (Val.nan : Val) * v = .nan := by cases v <;> rfl
theorem mul_nan (v : Val) : v * (Val.nan : Val) = .nan := by cases v <;> rfl
theorem nan_sub (v : Val) : (Val.nan : Val) - v = .nan := by cases v <;> rfl
theorem sub_nan (v : Val) : v - (Val.nan : Val) = .nan := by cases v <;> rfl

theorem sub_fin' (a b : Rat) : (Val.fin a) - (Val.fin b) = Val.fin (a - b) := by
  rw [sub_fin]; congr 1; ring

end ValL

theorem pw_sum_nonneg {l : List Rat} (h : ∀ x ∈ l, 0 ≤ x) : 0 ≤ l.sum := by
  induction l with
  | nil => simp
  | cons x xs ih =>
    simp only [List.sum_cons]
    have := h x (List.mem_cons_self ..)
    have := ih (fun y hy => h y (List.mem_cons_of_mem _ hy))
    linarith

theorem pw_sum_eq_zero {l : List Rat} (h : ∀ x ∈ l, 0 ≤ x) (hs : l.sum = 0) : ∀ x ∈ l, x = 0 := by
  induction l with
  | nil => simp
  | cons y ys ih =>
    intro x hx
    simp only [List.sum_cons] at hs
    have hy := h y (List.mem_cons_self ..)
    have hys := pw_sum_nonneg (fun z hz => h z (List.mem_cons_of_mem _ hz))
    rcases List.mem_cons.mp hx with rfl | hx
    · linarith
    · exact ih (fun z hz => h z (List.mem_cons_of_mem _ hz)) (by linarith) x hx

theorem pw_sum_map_div {α : Type} (l : List α) (f : α → Rat) (b : Rat) :
    (l.map (fun x => f x / b)).sum = (l.map f).sum / b := by
  induction l with
  | nil => simp
  | cons x xs ih => simp only [List.map_cons, List.sum_cons, ih]; ring

end CrCube
