/-
  Facts about the respondent-level counts themselves (used by C01–C03, C09).
-/
import CrCube.Lemmas.Slice3D

set_option linter.unusedSimpArgs false

namespace CrCube

theorem Var.CM.member_imp_valid {v : Var} (h : v.CM) (a : List Nat) (e : Nat)
    (hm : v.specMem a [e] [false] = true) : v.specMem a [e] [true] = true := by
  rcases h with h | ⟨h, hmr, _⟩
  · simp only [Var.specMem, h] at hm ⊢
    match a with
    | [c] =>
      simp only [Var.vpos, Bool.false_eq_true, if_false, beq_iff_eq] at hm
      simp only [if_true, Var.isValidPos, List.contains_iff_mem]
      exact List.mem_of_getElem? hm
    | [] => simp at hm
    | _ :: _ :: _ => simp at hm
  · simp only [Var.specMem, h, hmr, if_true] at hm ⊢
    cases hc : a[e]? with
    | none => simp [hc] at hm
    | some c =>
      simp only [hc, Var.vpos, Bool.false_eq_true, if_false, beq_iff_eq] at hm
      simp only [if_true, Var.isValidPos, List.contains_iff_mem]
      exact List.mem_of_getElem? hm

/-- count ≤ base, respondent level (2-D): being in the column element implies being eligible -/
theorem specCount_le_rowBase (R C : Var) (hR : R.CM) (hC : C.CM) (s : Survey)
    (hw : WeightsNonneg s) (i j : Nat) :
    specCount [R, C] s [i, j] [false, false] ≤ specCount [R, C] s [i, j] [false, true] := by
  rw [specCount_two R C hR hC, specCount_two R C hR hC]
  apply wsum_mono _ _ _ hw
  intro r _ h
  match hr : r.ans with
  | [aR, aC] =>
    rw [hr] at h
    simp only [Bool.and_eq_true] at h ⊢
    exact ⟨h.1, hC.member_imp_valid aC j h.2⟩
  | [] => simp [hr] at h
  | [_] => simp [hr] at h
  | _ :: _ :: _ :: _ => simp [hr] at h

theorem specCount_le_colBase (R C : Var) (hR : R.CM) (hC : C.CM) (s : Survey)
    (hw : WeightsNonneg s) (i j : Nat) :
    specCount [R, C] s [i, j] [false, false] ≤ specCount [R, C] s [i, j] [true, false] := by
  rw [specCount_two R C hR hC, specCount_two R C hR hC]
  apply wsum_mono _ _ _ hw
  intro r _ h
  match hr : r.ans with
  | [aR, aC] =>
    rw [hr] at h
    simp only [Bool.and_eq_true] at h ⊢
    exact ⟨hR.member_imp_valid aR i h.1, h.2⟩
  | [] => simp [hr] at h
  | [_] => simp [hr] at h
  | _ :: _ :: _ :: _ => simp [hr] at h

theorem specCount_le_tableBase (R C : Var) (hR : R.CM) (hC : C.CM) (s : Survey)
    (hw : WeightsNonneg s) (i j : Nat) :
    specCount [R, C] s [i, j] [false, false] ≤ specCount [R, C] s [i, j] [true, true] := by
  rw [specCount_two R C hR hC, specCount_two R C hR hC]
  apply wsum_mono _ _ _ hw
  intro r _ h
  match hr : r.ans with
  | [aR, aC] =>
    rw [hr] at h
    simp only [Bool.and_eq_true] at h ⊢
    exact ⟨hR.member_imp_valid aR i h.1, hC.member_imp_valid aC j h.2⟩
  | [] => simp [hr] at h
  | [_] => simp [hr] at h
  | _ :: _ :: _ :: _ => simp [hr] at h

theorem specCount_nonneg (vars : List Var) (s : Survey) (hw : WeightsNonneg s) (e : List Nat)
    (m : List Bool) : 0 ≤ specCount vars s e m := wsum_nonneg _ _ hw

theorem unweight_nonneg (s : Survey) : WeightsNonneg (unweight s) := by
  intro r hr
  simp only [unweight, List.mem_map] at hr
  obtain ⟨r', _, rfl⟩ := hr
  simp

/-- unweighted counting: with every weight 1 the weighted count is the NUMBER of respondents -/
theorem wsum_unweight (s : Survey) (p : Resp → Bool) (hp : ∀ r, p { r with w := 1 } = p r) :
    wsum (unweight s) p = ((s.filter p).length : Rat) := by
  induction s with
  | nil => simp [unweight]
  | cons r s ih =>
    simp only [unweight, List.map_cons] at ih ⊢
    rw [wsum_cons, ih, hp]
    by_cases h : p r = true
    · simp [h]; ring
    · simp [h]

theorem specCount_unweight (vars : List Var) (s : Survey) (e : List Nat) (m : List Bool) :
    specCount vars (unweight s) e m
      = (((s.filter fun r => specMemAll vars r.ans e m).length : Nat) : Rat) := by
  unfold specCount
  exact wsum_unweight s _ (fun _ => rfl)

/-- along a categorical columns variable the cell counts of a row add up to the row base -/
theorem row_counts_sum_to_base (R C : Var) (hR : R.CM) (hC : C.kind = .cat) (s : Survey) (i : Nat)
    (j0 : Nat) :
    ((List.range C.ext).map fun j => specCount [R, C] s [i, j] [false, false]).sum
      = specCount [R, C] s [i, j0] [false, true] := by
  have hCM : C.CM := Or.inl hC
  unfold specCount
  rw [wsum_sum_disjoint s (List.range C.ext)
    (fun j r => specMemAll [R, C] r.ans [i, j] [false, false])]
  · apply wsum_congr
    intro r _
    simp only [specMemAll_11 R C hR.nApparent hCM.nApparent]
    match r.ans with
    | [aR, aC] =>
      simp only [any_and_left]
      congr 1
      have h1 := cat_mem_valid C hC aC j0
      rw [← h1]
      simp only [Var.ext, hC]
      rw [Bool.eq_iff_iff]
      simp only [List.any_eq_true, List.mem_range]
      constructor
      · rintro ⟨j, hj, h⟩
        exact ⟨j, hj, by rw [cat_mem_member C hC aC j hj]; exact h⟩
      · rintro ⟨j, hj, h⟩
        exact ⟨j, hj, by rw [← cat_mem_member C hC aC j hj]; exact h⟩
    | [] => simp
    | [_] => simp
    | _ :: _ :: _ :: _ => simp
  · intro r _
    apply List.Nodup.pairwise_of_forall_ne List.nodup_range
    intro a ha b hb hab ⟨h1, h2⟩
    apply hab
    simp only [specMemAll_11 R C hR.nApparent hCM.nApparent] at h1 h2
    match hr : r.ans with
    | [aR, aC] =>
      rw [hr] at h1 h2
      simp only [Bool.and_eq_true] at h1 h2
      have ha' : a < (validIdxs C.catMissing).length := by simpa [Var.ext, hC] using List.mem_range.mp ha
      have hb' : b < (validIdxs C.catMissing).length := by simpa [Var.ext, hC] using List.mem_range.mp hb
      rw [← cat_mem_member C hC aC a ha'] at h1
      rw [← cat_mem_member C hC aC b hb'] at h2
      exact cat_mem_disj C hC aC a b ha' hb' h1.2 h2.2
    | [] => simp [hr] at h1
    | [_] => simp [hr] at h1
    | _ :: _ :: _ :: _ => simp [hr] at h1

end CrCube
