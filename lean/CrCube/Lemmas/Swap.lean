/-
  Exchanging the two variables of a 2-D survey (used by C03 column direction and C10).
-/
import CrCube.Lemmas.SpecFacts

set_option linter.unusedSimpArgs false

namespace CrCube

/-- the transposed survey: the two answers exchanged -/
def swapR (r : Resp) : Resp := { r with ans := match r.ans with | [a, b] => [b, a] | x => x }
def swapS (s : Survey) : Survey := s.map swapR

/-- respondent level: exchanging the variables and the answers exchanges the roles -/
theorem specCount_swap (R C : Var) (hR : R.CM) (hC : C.CM) (s : Survey) (i j : Nat) (m1 m2 : Bool) :
    specCount [C, R] (swapS s) [j, i] [m2, m1] = specCount [R, C] s [i, j] [m1, m2] := by
  unfold specCount swapS
  rw [wsum_map s swapR (fun _ => rfl)]
  apply wsum_congr
  intro r _
  simp only [specMemAll_11 C R hC.nApparent hR.nApparent, specMemAll_11 R C hR.nApparent hC.nApparent]
  unfold swapR
  match r.ans with
  | [a, b] => simp [Bool.and_comm]
  | [] => rfl
  | [_] => rfl
  | _ :: _ :: _ :: _ => rfl


/-- along a categorical ROWS variable the cell counts of a column add up to the column base -/
theorem col_counts_sum_to_base (R C : Var) (hR : R.kind = .cat) (hC : C.CM) (s : Survey) (j : Nat)
    (i0 : Nat) :
    ((List.range R.ext).map fun i => specCount [R, C] s [i, j] [false, false]).sum
      = specCount [R, C] s [i0, j] [true, false] := by
  have hRM : R.CM := Or.inl hR
  have h := row_counts_sum_to_base C R hC hR (swapS s) j i0
  simp only [specCount_swap R C hRM hC] at h
  exact h

end CrCube
