/-
  Index bookkeeping for numeric arrays: the dimension-order permutation of shape and of the
  valid-index grid, and what each extractor reads from the RAW (back-end layout) measure array.
-/
import CrCube.Lemmas.Tensor
import CrCube.Lemmas.Slice1Var
import CrCube.Model.NumericMeasures
import CrCube.Spec.NumericSpec

set_option linter.unusedSimpArgs false
set_option linter.unusedSectionVars false

namespace CrCube

/-! ### `dimension_order`: the code's rule is the rotation up to three dimensions -/

theorem dimOrder_eq_rot (n : Nat) (b : Bool) (h : n ≤ 3) : dimOrder n b = dimOrderRot n b := by
  rcases n with _ | _ | _ | _ | n
  · cases b <;> decide
  · cases b <;> decide
  · cases b <;> decide
  · cases b <;> decide
  · omega

theorem range_succ_tail (m : Nat) : (List.range (m + 1)).tail = (List.range m).map (· + 1) := by
  rw [List.range_succ_eq_map]; rfl

theorem map_getD_range {α : Type} (l : List α) (d : α) :
    (List.range l.length).map (fun i => l.getD i d) = l := by
  apply List.ext_getElem
  · simp
  · intro i h1 h2
    simp [List.getD, List.getElem?_eq_getElem h2]

/-- rotation: the permuted shape is (group sizes ..., items) -/
theorem rot_shape (n : Nat) (G : List Nat) (hG : G ≠ []) :
    (dimOrderRot (G.length + 1) true).map (fun i => (n :: G).getD i 0) = G ++ [n] := by
  have hl : 2 ≤ G.length + 1 := by
    cases G with
    | nil => exact absurd rfl hG
    | cons _ _ => simp
  simp only [dimOrderRot, hl, and_self, if_true, range_succ_tail, List.map_append, List.map_map,
    List.map_cons, List.map_nil]
  congr 1
  have : ((fun i => (n :: G).getD i 0) ∘ fun x => x + 1) = fun i => G.getD i 0 := by
    funext i; simp [List.getD]
  rw [this, map_getD_range]

/-- rotation of the valid-index grid: raw axis p < |group| is indexed by group dimension p,
    the last raw axis by the item -/
theorem permTake_rot_get (raw : FT) (n : Nat) (VG : List (List Nat)) (hV : VG ≠ []) (i : Nat)
    (es : List Nat) :
    (permTake raw (List.range n :: VG) (dimOrderRot (VG.length + 1) true)).get (i :: es)
      = raw.get ((List.range VG.length).map (fun t => (VG.getD t []).getD (es.getD t 0) 0)
          ++ [(List.range n).getD i 0]) := by
  have hl : 2 ≤ VG.length + 1 := by
    cases VG with
    | nil => exact absurd rfl hV
    | cons _ _ => simp
  simp only [permTake, dimOrderRot, hl, and_self, if_true, range_succ_tail, List.map_append,
    List.map_map, List.map_cons, List.map_nil]
  congr 2

theorem dimOrder_one (b : Bool) : dimOrder 1 b = [0] := by cases b <;> decide
theorem dimOrder_two_true : dimOrder 2 true = [1, 0] := by decide
theorem dimOrder_three_true : dimOrder 3 true = [1, 2, 0] := by decide
theorem dimOrder_false (n : Nat) : dimOrder n false = List.range n := by simp [dimOrder]
theorem range_two : List.range 2 = [0, 1] := by decide
theorem range_three : List.range 3 = [0, 1, 2] := by decide
theorem range_four : List.range 4 = [0, 1, 2, 3] := by decide
theorem range_five : List.range 5 = [0, 1, 2, 3, 4] := by decide
theorem range_six : List.range 6 = [0, 1, 2, 3, 4, 5] := by decide

theorem range_getD_lt (n i : Nat) (h : i < n) : (List.range n)[i]?.getD 0 = i := by
  simp [List.getElem?_range h]

/-! ### numeric array × one grouping variable (2-D slice) -/

section numarr2d
variable (C : Var) (hC : C.CM) (n : Nat) (raw : FT)
include hC

/-- means / sums / stddev / medians cell (item i, column j) -/
theorem numarr2d_numeric (i j : Nat) (hi : i < n) :
    (NDesign.mk [C] (some n)).sliceNumeric raw 0 i j = raw.get (C.msub j ++ [i]) := by
  rcases hC with h | ⟨h, hm, _⟩ <;>
  simp [NDesign.sliceNumeric, NDesign.sliceArr, NDesign.view, NDesign.order, NDesign.sizes,
    NDesign.valid, NDesign.kinds, NDesign.rk, NDesign.ck, NDesign.ndim, NDesign.hasNumArr,
    dimOrder_two_true, dimOrder_three_true, permTake, numericExtract, sliceExpr, apparentKinds,
    Var.dks, Var.validAxes, rawShapeOf, Var.rawShape, Var.msub, h, *, List.getD,
    range_getD_lt n i hi]

/-- the count extractor built on ANY raw array (valid counts, in practice): same cell -/
theorem numarr2d_counts (i j : Nat) (hi : i < n) :
    ((NDesign.mk [C] (some n)).sliceCounts raw 0).counts i j = raw.get (C.msub j ++ [i]) := by
  rcases hC with h | ⟨h, hm, _⟩ <;>
  simp [NDesign.sliceCounts, NDesign.sliceArr, NDesign.view, NDesign.order, NDesign.sizes,
    NDesign.valid, NDesign.kinds, NDesign.rk, NDesign.ck, NDesign.ndim, NDesign.hasNumArr,
    dimOrder_two_true, dimOrder_three_true, permTake, MatCounts.factory, MatCounts.arrXcat,
    MatCounts.arrXmr, sliceExpr, apparentKinds,
    Var.dks, Var.validAxes, rawShapeOf, Var.rawShape, Var.msub, h, *, List.getD,
    range_getD_lt n i hi]

/-- row bases add over the valid categories of the grouping variable (for multiple response:
    over selected + other of THAT item), never across subvariables -/
theorem numarr2d_rowBases (i j : Nat) (hi : i < n) :
    ((NDesign.mk [C] (some n)).sliceCounts raw 0).rowBases i j
      = vsum C.np (fun t => raw.get (C.sub j t ++ [i])) := by
  rcases hC with h | ⟨h, hm, _⟩ <;>
  simp [NDesign.sliceCounts, NDesign.sliceArr, NDesign.view, NDesign.order, NDesign.sizes,
    NDesign.valid, NDesign.kinds, NDesign.rk, NDesign.ck, NDesign.ndim, NDesign.hasNumArr,
    dimOrder_two_true, dimOrder_three_true, permTake, MatCounts.factory, MatCounts.arrXcat,
    MatCounts.arrXmr, sliceExpr, apparentKinds, FT.dim,
    Var.dks, Var.validAxes, rawShapeOf, Var.rawShape, Var.sub, Var.np, h, *, List.getD,
    range_getD_lt n i hi]

theorem numarr2d_columnBases (i j : Nat) :
    ((NDesign.mk [C] (some n)).sliceCounts raw 0).columnBases i j
      = ((NDesign.mk [C] (some n)).sliceCounts raw 0).counts i j := by
  rcases hC with h | ⟨h, hm, _⟩ <;>
  simp [NDesign.sliceCounts, NDesign.kinds, NDesign.rk, NDesign.ck, NDesign.ndim,
    MatCounts.factory, MatCounts.arrXcat, MatCounts.arrXmr, apparentKinds, Var.dks, h, *, List.getD]

theorem numarr2d_tableBases (i j : Nat) :
    ((NDesign.mk [C] (some n)).sliceCounts raw 0).tableBases i j
      = ((NDesign.mk [C] (some n)).sliceCounts raw 0).rowBases i j := by
  rcases hC with h | ⟨h, hm, _⟩ <;>
  simp [NDesign.sliceCounts, NDesign.kinds, NDesign.rk, NDesign.ck, NDesign.ndim,
    MatCounts.factory, MatCounts.arrXcat, MatCounts.arrXmr, apparentKinds, Var.dks, h, *, List.getD]

theorem numarr2d_nrows : ((NDesign.mk [C] (some n)).sliceCounts raw 0).nrows = n := by
  rcases hC with h | ⟨h, hm, _⟩ <;>
  simp [NDesign.sliceCounts, NDesign.sliceArr, NDesign.view, NDesign.order, NDesign.sizes,
    NDesign.valid, NDesign.kinds, NDesign.rk, NDesign.ck, NDesign.ndim, NDesign.hasNumArr,
    dimOrder_two_true, dimOrder_three_true, permTake, MatCounts.factory, MatCounts.arrXcat,
    MatCounts.arrXmr, sliceExpr, apparentKinds, FT.dim,
    Var.dks, Var.validAxes, rawShapeOf, Var.rawShape, h, *, List.getD]

theorem numarr2d_ncols : ((NDesign.mk [C] (some n)).sliceCounts raw 0).ncols = C.ext := by
  rcases hC with h | ⟨h, hm, _⟩ <;>
  simp [NDesign.sliceCounts, NDesign.sliceArr, NDesign.view, NDesign.order, NDesign.sizes,
    NDesign.valid, NDesign.kinds, NDesign.rk, NDesign.ck, NDesign.ndim, NDesign.hasNumArr,
    dimOrder_two_true, dimOrder_three_true, permTake, MatCounts.factory, MatCounts.arrXcat,
    MatCounts.arrXmr, sliceExpr, apparentKinds, FT.dim, Var.ext,
    Var.dks, Var.validAxes, rawShapeOf, Var.rawShape, h, *, List.getD]

/-- the library's (permuted) shape is the back-end shape (group dimensions ..., items) -/
theorem numarr2d_shape : (NDesign.mk [C] (some n)).shape = backendShape [C] (some n) := by
  rcases hC with h | ⟨h, hm, _⟩ <;>
  simp [NDesign.shape, NDesign.order, NDesign.sizes, NDesign.hasNumArr, backendShape,
    dimOrder_two_true, dimOrder_three_true, rawShapeOf, Var.rawShape, h, List.getD]

theorem numarr2d_nPartitions : (NDesign.mk [C] (some n)).nPartitions = 1 := by
  rcases hC with h | ⟨h, hm, _⟩ <;>
  simp [NDesign.nPartitions, NDesign.ndim, NDesign.kinds, apparentKinds, Var.dks, h, *]

end numarr2d

/-! ### numeric array alone (1-D strand) -/

section numarr1d
variable (n : Nat) (raw : FT)

theorem numarr1d_kind : (NDesign.mk [] (some n)).stripeKind = .numArr := by
  simp [NDesign.stripeKind, NDesign.kinds, NDesign.hasNumArr, apparentKinds]

theorem numarr1d_shape : (NDesign.mk [] (some n)).shape = [n] := by
  simp [NDesign.shape, NDesign.order, NDesign.sizes, NDesign.hasNumArr, dimOrder_one, rawShapeOf,
    List.getD]

theorem numarr1d_numeric (i : Nat) (hi : i < n) :
    (NDesign.mk [] (some n)).strandNumeric raw i = raw.get [i] := by
  simp [NDesign.strandNumeric, numarr1d_kind, NDesign.view, NDesign.order, NDesign.sizes,
    NDesign.valid, NDesign.hasNumArr, dimOrder_one, permTake, rawShapeOf, List.getD,
    range_getD_lt n i hi]

theorem numarr1d_counts (i : Nat) (hi : i < n) :
    ((NDesign.mk [] (some n)).strandCounts raw).counts i = raw.get [i] := by
  simp [NDesign.strandCounts, numarr1d_kind, StripeCounts.numArr, NDesign.view, NDesign.order,
    NDesign.sizes, NDesign.valid, NDesign.hasNumArr, dimOrder_one, permTake, rawShapeOf, List.getD,
    range_getD_lt n i hi]

/-- `_NumArrCubeCounts`: the base of an item is its own (valid) count -- never summed -/
theorem numarr1d_bases (i : Nat) :
    ((NDesign.mk [] (some n)).strandCounts raw).bases i
      = ((NDesign.mk [] (some n)).strandCounts raw).counts i := by
  simp [NDesign.strandCounts, numarr1d_kind, StripeCounts.numArr]

theorem numarr1d_n : ((NDesign.mk [] (some n)).strandCounts raw).n = n := by
  simp [NDesign.strandCounts, numarr1d_kind, StripeCounts.numArr, NDesign.view, NDesign.order,
    NDesign.sizes, NDesign.valid, NDesign.hasNumArr, dimOrder_one, permTake, rawShapeOf, List.getD,
    FT.dim]

end numarr1d

/-! ### numeric array × categorical × categorical (3-D: one slice per item) -/

section numarr3d
variable (A B : Var) (hA : A.kind = .cat) (hB : B.kind = .cat) (n : Nat) (raw : FT)
include hA hB

theorem numarr3d_numeric (k i j : Nat) (hk : k < n) :
    (NDesign.mk [A, B] (some n)).sliceNumeric raw k i j = raw.get (A.msub i ++ B.msub j ++ [k]) := by
  simp [NDesign.sliceNumeric, NDesign.sliceArr, NDesign.view, NDesign.order, NDesign.sizes,
    NDesign.valid, NDesign.kinds, NDesign.rk, NDesign.ck, NDesign.ndim, NDesign.hasNumArr,
    dimOrder_three_true, permTake, numericExtract, sliceExpr, FT.slice0, apparentKinds,
    Var.dks, Var.validAxes, rawShapeOf, Var.rawShape, Var.msub, hA, hB, List.getD,
    range_getD_lt n k hk]

theorem numarr3d_counts (k i j : Nat) (hk : k < n) :
    ((NDesign.mk [A, B] (some n)).sliceCounts raw k).counts i j
      = raw.get (A.msub i ++ B.msub j ++ [k]) := by
  simp [NDesign.sliceCounts, NDesign.sliceArr, NDesign.view, NDesign.order, NDesign.sizes,
    NDesign.valid, NDesign.kinds, NDesign.rk, NDesign.ck, NDesign.ndim, NDesign.hasNumArr,
    dimOrder_three_true, permTake, MatCounts.factory, MatCounts.catXcat, sliceExpr, FT.slice0,
    apparentKinds, Var.dks, Var.validAxes, rawShapeOf, Var.rawShape, Var.msub, hA, hB, List.getD,
    range_getD_lt n k hk]

theorem numarr3d_shape : (NDesign.mk [A, B] (some n)).shape = backendShape [A, B] (some n) := by
  simp [NDesign.shape, NDesign.order, NDesign.sizes, NDesign.hasNumArr, backendShape,
    dimOrder_three_true, rawShapeOf, Var.rawShape, hA, hB, List.getD]

theorem numarr3d_nPartitions : (NDesign.mk [A, B] (some n)).nPartitions = n := by
  simp [NDesign.nPartitions, NDesign.ndim, NDesign.kinds, NDesign.valid, apparentKinds, Var.dks,
    hA, hB]

end numarr3d

/-! ### numeric array × categorical array (3-D: items × CA subvariables × CA categories) -/

section numarrCA
variable (V : Var) (hV : V.IsCA) (n : Nat) (raw : FT)
include hV

theorem numarrCA_numeric (k i j : Nat) (hk : k < n) :
    (NDesign.mk [V] (some n)).sliceNumeric raw k i j
      = raw.get [(List.range V.n)[i]?.getD 0, (validIdxs V.catMissing)[j]?.getD 0, k] := by
  obtain ⟨h, hm⟩ := hV
  simp [NDesign.sliceNumeric, NDesign.sliceArr, NDesign.view, NDesign.order, NDesign.sizes,
    NDesign.valid, NDesign.kinds, NDesign.rk, NDesign.ck, NDesign.ndim, NDesign.hasNumArr,
    dimOrder_three_true, permTake, numericExtract, sliceExpr, FT.slice0, apparentKinds,
    Var.dks, Var.validAxes, rawShapeOf, Var.rawShape, h, hm, List.getD,
    range_getD_lt n k hk]

theorem numarrCA_counts (k i j : Nat) (hk : k < n) :
    ((NDesign.mk [V] (some n)).sliceCounts raw k).counts i j
      = raw.get [(List.range V.n)[i]?.getD 0, (validIdxs V.catMissing)[j]?.getD 0, k] := by
  obtain ⟨h, hm⟩ := hV
  simp [NDesign.sliceCounts, NDesign.sliceArr, NDesign.view, NDesign.order, NDesign.sizes,
    NDesign.valid, NDesign.kinds, NDesign.rk, NDesign.ck, NDesign.ndim, NDesign.hasNumArr,
    dimOrder_three_true, permTake, MatCounts.factory, MatCounts.arrXcat, sliceExpr, FT.slice0,
    apparentKinds, Var.dks, Var.validAxes, rawShapeOf, Var.rawShape, h, hm, List.getD,
    range_getD_lt n k hk]

theorem numarrCA_shape : (NDesign.mk [V] (some n)).shape = backendShape [V] (some n) := by
  obtain ⟨h, hm⟩ := hV
  simp [NDesign.shape, NDesign.order, NDesign.sizes, NDesign.hasNumArr, backendShape,
    dimOrder_three_true, rawShapeOf, Var.rawShape, h, List.getD]

end numarrCA

end CrCube
