/-
  Tabulation lemmas for C14: sums over the categories of a vector, weighted by the tabulated
  counts, are sums over the individual respondents.
-/
import CrCube.Spec.ScaleSpec
import CrCube.Lemmas.ScaleAlg
import Mathlib.Data.List.Nodup
import Mathlib.Data.List.Range

namespace CrCube.ScaleLemmas
open CrCube CrCube.Scale CrCube.ScaleSpec

/-- the categories of a vector: value and tabulated count per opposing category -/
def catsOf (vals : List (Option Rat)) (rs : List SResp) : List Cat :=
  (List.range vals.length).map (fun k => (valOf vals k, countOf rs k))

theorem valOf_lt (vals : List (Option Rat)) (k : Nat) (h : k < vals.length) : valOf vals k = vals[k] := by
  simp [valOf, List.getElem?_eq_getElem h]

theorem valuesOf_catsOf (vals : List (Option Rat)) (rs : List SResp) :
    valuesOf (catsOf vals rs) = vals.map optVal := by
  unfold valuesOf catsOf
  rw [List.map_map]
  apply List.ext_getElem
  · simp
  · intro i h1 h2
    simp only [List.length_map, List.length_range] at h1
    simp [valOf_lt vals i h1]

theorem countsOfCats_catsOf (vals : List (Option Rat)) (rs : List SResp) :
    countsOfCats (catsOf vals rs) = (countsOf vals.length rs).map Val.fin := by
  unfold countsOfCats catsOf countsOf
  simp [List.map_map, Function.comp]

theorem length_catsOf (vals : List (Option Rat)) (rs : List SResp) :
    (catsOf vals rs).length = vals.length := by simp [catsOf]

/-- Σ over the valued categories in `ks` of `c k · g v` -/
def T (vals : List (Option Rat)) (g : Rat → Rat) (ks : List Nat) (c : Nat → Rat) : Rat :=
  (ks.filterMap (fun k => (valOf vals k).map (fun v => c k * g v))).sum

theorem T_nil (vals : List (Option Rat)) (g : Rat → Rat) (c : Nat → Rat) : T vals g [] c = 0 := by
  simp [T]

theorem T_cons (vals : List (Option Rat)) (g : Rat → Rat) (k : Nat) (ks : List Nat) (c : Nat → Rat) :
    T vals g (k :: ks) c = ((valOf vals k).map (fun v => c k * g v)).getD 0 + T vals g ks c := by
  unfold T
  cases h : valOf vals k with
  | none => simp [List.filterMap_cons, h]
  | some v => simp [List.filterMap_cons, h]

theorem T_add (vals : List (Option Rat)) (g : Rat → Rat) (ks : List Nat) (c1 c2 : Nat → Rat) :
    T vals g ks (fun k => c1 k + c2 k) = T vals g ks c1 + T vals g ks c2 := by
  induction ks with
  | nil => simp [T_nil]
  | cons k ks ih =>
    rw [T_cons, T_cons, T_cons, ih]
    cases h : valOf vals k with
    | none => simp
    | some v => simp only [Option.map_some, Option.getD_some]; ring

theorem T_ind_not_mem (vals : List (Option Rat)) (g : Rat → Rat) (ks : List Nat) (j : Nat) (w : Rat)
    (hj : j ∉ ks) : T vals g ks (fun k => if j = k then w else 0) = 0 := by
  induction ks with
  | nil => simp [T_nil]
  | cons k ks ih =>
    have hjk : j ≠ k := fun e => hj (e ▸ List.mem_cons_self ..)
    have hj' : j ∉ ks := fun m => hj (List.mem_cons_of_mem _ m)
    rw [T_cons, ih hj']
    cases h : valOf vals k with
    | none => simp
    | some v => simp [hjk]

theorem T_ind_mem (vals : List (Option Rat)) (g : Rat → Rat) (ks : List Nat) (j : Nat) (w : Rat)
    (hnd : ks.Nodup) (hj : j ∈ ks) :
    T vals g ks (fun k => if j = k then w else 0) = ((valOf vals j).map (fun v => w * g v)).getD 0 := by
  induction ks with
  | nil => simp at hj
  | cons k ks ih =>
    have hnd' := (List.nodup_cons.mp hnd)
    rw [T_cons]
    by_cases hjk : j = k
    · subst hjk
      rw [T_ind_not_mem vals g ks j w hnd'.1]
      simp
    · have hj' : j ∈ ks := by
        rcases List.mem_cons.mp hj with e | m
        · exact absurd e hjk
        · exact m
      rw [ih hnd'.2 hj']
      cases h : valOf vals k with
      | none => simp
      | some v => simp [hjk]

theorem countOf_cons (r : SResp) (rs : List SResp) (k : Nat) :
    countOf (r :: rs) k = (if r.cat = k then r.w else 0) + countOf rs k := by
  unfold countOf
  by_cases h : r.cat = k
  · simp [List.filter_cons, h]
  · have : (r.cat == k) = false := by simp [h]
    simp [List.filter_cons, this, h]

theorem countOf_nil (k : Nat) : countOf [] k = 0 := by simp [countOf]

theorem valuedQ_catsOf (vals : List (Option Rat)) (rs : List SResp) (f : Rat × Rat → Rat) :
    ((valuedQ (catsOf vals rs)).map f).sum
      = ((List.range vals.length).filterMap (fun k => (valOf vals k).map (fun v => f (v, countOf rs k)))).sum := by
  unfold valuedQ catsOf
  rw [List.filterMap_map, List.map_filterMap]
  congr 1
  apply List.filterMap_congr
  intro k _
  cases h : valOf vals k <;> simp [Function.comp, h]

/-- THE TABULATION LEMMA: a count-weighted sum over valued categories is the weight-weighted sum
    over the valued respondents -/
theorem tabulate_sum (vals : List (Option Rat)) (rs : List SResp) (g : Rat → Rat)
    (hcat : ∀ r ∈ rs, r.cat < vals.length) :
    ((valuedQ (catsOf vals rs)).map (fun p => p.2 * g p.1)).sum
      = ((valued vals rs).map (fun q => q.1 * g q.2)).sum := by
  rw [valuedQ_catsOf vals rs (fun p => p.2 * g p.1)]
  show T vals g (List.range vals.length) (countOf rs) = _
  induction rs with
  | nil =>
    have : (countOf ([] : List SResp)) = fun _ => 0 := by funext k; exact countOf_nil k
    rw [this]
    have h := T_add vals g (List.range vals.length) (fun _ => 0) (fun _ => 0)
    simp only [add_zero] at h
    simp [valued]
    linarith
  | cons r rs ih =>
    have hc : countOf (r :: rs) = fun k => (if r.cat = k then r.w else 0) + countOf rs k := by
      funext k; exact countOf_cons r rs k
    rw [hc, T_add, ih (fun x hx => hcat x (List.mem_cons_of_mem _ hx))]
    rw [T_ind_mem vals g _ r.cat r.w (List.nodup_range) (List.mem_range.mpr (hcat r (List.mem_cons_self ..)))]
    cases h : valOf vals r.cat with
    | none => simp [valued, List.filterMap_cons, h]
    | some v => simp [valued, List.filterMap_cons, h]

theorem S0_catsOf (vals : List (Option Rat)) (rs : List SResp) (hcat : ∀ r ∈ rs, r.cat < vals.length) :
    S0 (catsOf vals rs) = sumW (valued vals rs) := by
  have h := tabulate_sum vals rs (fun _ => 1) hcat
  simp only [mul_one] at h
  exact h

theorem S1_catsOf (vals : List (Option Rat)) (rs : List SResp) (hcat : ∀ r ∈ rs, r.cat < vals.length) :
    S1 (catsOf vals rs) = sumWV (valued vals rs) := by
  have h := tabulate_sum vals rs (fun v => v) hcat
  unfold S1 sumWV
  rw [← h]
  congr 1
  apply List.map_congr_left
  intro p _; ring

theorem S2_catsOf (vals : List (Option Rat)) (rs : List SResp) (μ : Rat)
    (hcat : ∀ r ∈ rs, r.cat < vals.length) :
    S2 (catsOf vals rs) μ = ((valued vals rs).map (fun p => p.1 * ((p.2 - μ) * (p.2 - μ)))).sum :=
  tabulate_sum vals rs (fun v => (v - μ) * (v - μ)) hcat

theorem countOf_nonneg (rs : List SResp) (h : ∀ r ∈ rs, 0 ≤ r.w) (k : Nat) : 0 ≤ countOf rs k := by
  unfold countOf
  apply pw_sum_nonneg
  intro x hx
  simp only [List.mem_map, List.mem_filter] at hx
  obtain ⟨r, ⟨hr, _⟩, rfl⟩ := hx
  exact h r hr

theorem catsOf_nonneg (vals : List (Option Rat)) (rs : List SResp) (h : ∀ r ∈ rs, 0 ≤ r.w) :
    ∀ x ∈ catsOf vals rs, 0 ≤ x.2 := by
  intro x hx
  simp only [catsOf, List.mem_map] at hx
  obtain ⟨k, _, rfl⟩ := hx
  exact countOf_nonneg rs h k

end CrCube.ScaleLemmas
