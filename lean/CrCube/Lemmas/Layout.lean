/-
  The generic layout lemma behind C07: sorting the key triples of base elements (position, 0, e)
  together with placed items (top / bottom / before e / after e) yields
      tops ++ (for e in order: befores e ++ [e] ++ afters e) ++ bottoms
  with every group in increasing idx order.
-/
import CrCube.Lemmas.SortKeys
import CrCube.Spec.Order

namespace CrCube.Lemmas.Layout
open CrCube.Collator CrCube.OrderSpec CrCube.Lemmas.SortKeys

/-- (position, relative) of a placed item -/
def placeKey (order : List Nat) : Place → Int × Int
  | .top => (-1, 0)
  | .bottom => (maxsize, 0)
  | .before e => ((order.idxOf e : Nat), -1)
  | .after e => ((order.idxOf e : Nat), 1)

def itemKey (order : List Nat) (it : Place × Int) : Key :=
  ((placeKey order it.1).1, (placeKey order it.1).2, it.2)

def baseKeys (order : List Nat) : List Key :=
  order.map (fun e => (((order.idxOf e : Nat) : Int), 0, (e : Int)))

/-- idxs of the items placed at `p`, in list order -/
def itemsAt (items : List (Place × Int)) (p : Place) : List Int :=
  (items.filter (fun q => q.1 = p)).map (·.2)

def layout (order : List Nat) (items : List (Place × Int)) : List Int :=
  itemsAt items .top
    ++ order.flatMap (fun e => itemsAt items (.before e) ++ [(e : Int)] ++ itemsAt items (.after e))
    ++ itemsAt items .bottom

/-- the keys of the items placed at `p` -/
def keysAt (order : List Nat) (items : List (Place × Int)) (p : Place) : List Key :=
  (items.filter (fun q => q.1 = p)).map (itemKey order)

def layoutKeys (order : List Nat) (items : List (Place × Int)) : List Key :=
  keysAt order items .top
    ++ order.flatMap (fun e => keysAt order items (.before e)
        ++ [(((order.idxOf e : Nat) : Int), 0, (e : Int))] ++ keysAt order items (.after e))
    ++ keysAt order items .bottom

theorem keysAt_thirds (order : List Nat) (items : List (Place × Int)) (p : Place) :
    (keysAt order items p).map (·.2.2) = itemsAt items p := by
  simp [keysAt, itemsAt, itemKey, List.map_map, Function.comp_def]

theorem layoutKeys_thirds (order : List Nat) (items : List (Place × Int)) :
    (layoutKeys order items).map (·.2.2) = layout order items := by
  simp only [layoutKeys, layout, List.map_append, keysAt_thirds, List.map_flatMap, List.map_cons,
    List.map_nil]

theorem mem_keysAt {order : List Nat} {items : List (Place × Int)} {p : Place} {k : Key} :
    k ∈ keysAt order items p ↔ ∃ it ∈ items, it.1 = p ∧ itemKey order it = k := by
  simp only [keysAt, List.mem_map, List.mem_filter, decide_eq_true_eq]
  constructor
  · rintro ⟨it, ⟨h1, h2⟩, h3⟩
    exact ⟨it, h1, h2, h3⟩
  · rintro ⟨it, h1, h2, h3⟩
    exact ⟨it, ⟨h1, h2⟩, h3⟩

theorem pairwise_idxOf_lt {l : List Nat} (h : l.Nodup) :
    l.Pairwise (fun a b => l.idxOf a < l.idxOf b) := by
  induction l with
  | nil => exact List.Pairwise.nil
  | cons x xs ih =>
    rw [List.nodup_cons] at h
    refine List.Pairwise.cons ?_ ?_
    · intro b hb
      have hne : x ≠ b := fun e => h.1 (e ▸ hb)
      simp [hne]
    · refine List.Pairwise.imp_of_mem ?_ (ih h.2)
      intro a b ha hb hab
      have hna : x ≠ a := fun e => h.1 (e ▸ ha)
      have hnb : x ≠ b := fun e => h.1 (e ▸ hb)
      simp [hna, hnb, hab]

theorem keysAt_pairwise {order : List Nat} {items : List (Place × Int)} (p : Place)
    (hidx : items.Pairwise (fun a b => a.2 < b.2)) : (keysAt order items p).Pairwise keyLt := by
  unfold keysAt
  rw [List.pairwise_map]
  refine List.Pairwise.imp_of_mem ?_ (hidx.filter _)
  intro a b ha hb hab
  simp only [List.mem_filter, decide_eq_true_eq] at ha hb
  simp only [keyLt, itemKey, ha.2, hb.2, true_and]
  omega

/-- main layout theorem -/
theorem sort_layout (order : List Nat) (items : List (Place × Int))
    (hnd : order.Nodup) (hlen : (order.length : Int) ≤ maxsize)
    (hidx : items.Pairwise (fun a b => a.2 < b.2))
    (hdisj : ∀ it ∈ items, ∀ e ∈ order, it.2 ≠ (e : Int))
    (href : ∀ it ∈ items, ∀ e, (it.1 = .before e ∨ it.1 = .after e) → e ∈ order) :
    (sortKeys (baseKeys order ++ items.map (itemKey order))).map (·.2.2) = layout order items := by
  rw [← layoutKeys_thirds]
  congr 1
  have hpos : ∀ e ∈ order, ((order.idxOf e : Nat) : Int) < maxsize := by
    intro e he
    have := List.idxOf_lt_length_of_mem he
    omega
  have hms : (0 : Int) ≤ maxsize := by simp [maxsize]
  apply sortKeys_eq
  · -- strictly sorted
    unfold layoutKeys
    rw [List.pairwise_append, List.pairwise_append]
    refine ⟨⟨keysAt_pairwise _ hidx, ?_, ?_⟩, keysAt_pairwise _ hidx, ?_⟩
    · -- the blocks
      rw [List.pairwise_flatMap]
      refine ⟨?_, ?_⟩
      · intro e he
        rw [List.pairwise_append, List.pairwise_append]
        refine ⟨⟨keysAt_pairwise _ hidx, List.pairwise_singleton _ _, ?_⟩, keysAt_pairwise _ hidx, ?_⟩
        · intro a ha b hb
          rw [mem_keysAt] at ha
          obtain ⟨it, _, hp, rfl⟩ := ha
          simp only [List.mem_singleton] at hb
          subst hb
          simp only [keyLt, itemKey, hp, placeKey, true_and]
          omega
        · intro a ha b hb
          rw [mem_keysAt] at hb
          obtain ⟨it', _, hp', rfl⟩ := hb
          simp only [List.mem_append, List.mem_singleton] at ha
          rcases ha with ha | ha
          · rw [mem_keysAt] at ha
            obtain ⟨it, _, hp, rfl⟩ := ha
            simp only [keyLt, itemKey, hp, hp', placeKey, true_and]
            omega
          · subst ha
            simp only [keyLt, itemKey, hp', placeKey, true_and]
            omega
      · refine List.Pairwise.imp ?_ (pairwise_idxOf_lt hnd)
        intro e1 e2 hlt x hx y hy
        have h1 : x.1 = ((order.idxOf e1 : Nat) : Int) := by
          simp only [List.mem_append, List.mem_singleton, mem_keysAt] at hx
          rcases hx with (⟨it, _, hp, rfl⟩ | rfl) | ⟨it, _, hp, rfl⟩ <;> simp [itemKey, placeKey, *]
        have h2 : y.1 = ((order.idxOf e2 : Nat) : Int) := by
          simp only [List.mem_append, List.mem_singleton, mem_keysAt] at hy
          rcases hy with (⟨it, _, hp, rfl⟩ | rfl) | ⟨it, _, hp, rfl⟩ <;> simp [itemKey, placeKey, *]
        left
        omega
    · -- tops before blocks
      intro a ha b hb
      rw [mem_keysAt] at ha
      obtain ⟨it, _, hp, rfl⟩ := ha
      simp only [List.mem_flatMap] at hb
      obtain ⟨e, _, hb⟩ := hb
      have h2 : (0 : Int) ≤ b.1 := by
        simp only [List.mem_append, List.mem_singleton, mem_keysAt] at hb
        rcases hb with (⟨it', _, hp', rfl⟩ | rfl) | ⟨it', _, hp', rfl⟩ <;> simp [itemKey, placeKey, *]
      left
      simp only [itemKey, hp, placeKey]
      omega
    · -- everything before bottoms
      intro a ha b hb
      rw [mem_keysAt] at hb
      obtain ⟨it', _, hp', rfl⟩ := hb
      left
      simp only [itemKey, hp', placeKey]
      simp only [List.mem_append, List.mem_flatMap] at ha
      rcases ha with ha | ⟨e, he, ha⟩
      · rw [mem_keysAt] at ha
        obtain ⟨it, _, hp, rfl⟩ := ha
        simp only [itemKey, hp, placeKey]
        omega
      · have := hpos e he
        simp only [List.mem_append, List.mem_singleton, mem_keysAt] at ha
        rcases ha with (⟨it, _, hp, rfl⟩ | rfl) | ⟨it, _, hp, rfl⟩ <;> simp [itemKey, placeKey, *]
  · -- distinct keys: the idx column is duplicate free
    refine List.Nodup.of_map (f := fun k : Key => k.2.2) ?_
    simp only [List.map_append, baseKeys, List.map_map, Function.comp_def, itemKey]
    rw [List.nodup_append]
    refine ⟨?_, ?_, ?_⟩
    · exact (List.nodup_map_iff (fun a b h => Int.ofNat_inj.mp h)).2 hnd
    · have : (items.map (fun x => x.2)).Pairwise (· < ·) := by
        rw [List.pairwise_map]; exact hidx
      exact this.imp (fun h => by omega)
    · intro a ha b hb
      simp only [List.mem_map] at ha hb
      obtain ⟨e, he, rfl⟩ := ha
      obtain ⟨it, hit, rfl⟩ := hb
      exact fun h => hdisj it hit e he h.symm
  · -- same members
    intro k
    simp only [layoutKeys, List.mem_append, List.mem_flatMap, List.mem_singleton, mem_keysAt, baseKeys,
      List.mem_map]
    constructor
    · rintro ((⟨it, h1, _, h3⟩ | ⟨e, he, (⟨it, h1, _, h3⟩ | rfl) | ⟨it, h1, _, h3⟩⟩) | ⟨it, h1, _, h3⟩)
      · exact Or.inr ⟨it, h1, h3⟩
      · exact Or.inr ⟨it, h1, h3⟩
      · exact Or.inl ⟨e, he, rfl⟩
      · exact Or.inr ⟨it, h1, h3⟩
      · exact Or.inr ⟨it, h1, h3⟩
    · rintro (⟨e, he, rfl⟩ | ⟨it, hit, rfl⟩)
      · exact Or.inl (Or.inr ⟨e, he, Or.inl (Or.inr rfl)⟩)
      · rcases hpl : it.1 with _ | _ | e | e
        · exact Or.inl (Or.inl ⟨it, hit, hpl, rfl⟩)
        · exact Or.inr ⟨it, hit, hpl, rfl⟩
        · exact Or.inl (Or.inr ⟨e, href it hit e (Or.inl hpl), Or.inl (Or.inl ⟨it, hit, hpl, rfl⟩)⟩)
        · exact Or.inl (Or.inr ⟨e, href it hit e (Or.inr hpl), Or.inr ⟨it, hit, hpl, rfl⟩⟩)

end CrCube.Lemmas.Layout
