/-
  Helper lemmas for `Props/C10_Pipeline.lean`: order helpers, pruning masks and the assembly step
  under transposition.
-/
import CrCube.Lemmas.TransposePipeline
import CrCube.Lemmas.TransposeCounts

set_option linter.unusedSimpArgs false
set_option linter.unusedVariables false

namespace CrCube.Lemmas.Transpose
open CrCube CrCube.Collator CrCube.Pipeline

/-! ## assembly -/

theorem cell_transpose (b : Blocks) (si sj : Int) :
    (toA b.transpose).cell sj si = (toA b).cell si sj := by
  unfold ABlocks.cell ABlocks.full toA Blocks.transpose
  simp only
  split_ifs <;> rfl

theorem map_eq_range_map {α β : Type} (l : List α) (f : α → β) (g : Nat → β)
    (h : ∀ j (hj : j < l.length), f l[j] = g j) : l.map f = (List.range l.length).map g := by
  apply List.ext_getElem
  · simp
  · intro j h1 h2
    simp only [List.getElem_map, List.getElem_range]
    exact h j (by simpa using h1)

/-- **`_assemble_matrix` of the transposed blocks under the exchanged orders is the transposed matrix** -/
theorem assembleMatrix_transpose (b : Blocks) (ro co : List Int) :
    assembleMatrix (toA b.transpose) co ro = transposeLL co.length (assembleMatrix (toA b) ro co) := by
  unfold assembleMatrix transposeLL
  apply map_eq_range_map
  intro j hj
  simp only [List.map_map, Function.comp_def]
  apply List.map_congr_left
  intro si _
  rw [cell_transpose]
  simp [List.getD_eq_getElem?_getD, hj]

theorem rowsMarginal_transpose (b : Blocks) (o : List Int) :
    rowsMarginal b.transpose o = colsMarginal b o := rfl

theorem colsMarginal_transpose (b : Blocks) (o : List Int) :
    colsMarginal b.transpose o = rowsMarginal b o := rfl

theorem tableMarginal_transpose (m : MatCounts) (b : Blocks) (rows cols rows' cols' : RDim)
    (hr : rows'.subtotals = rows.subtotals) (hcs : cols'.subtotals = cols.subtotals)
    (hx : m.tableBase = none → ¬ (m.columnsTableBase.isSome = true ∧ m.rowsTableBase.isSome = true))
    (ro co : List Int) :
    tableMarginal m.transpose b.transpose cols' rows' co ro
      = margTranspose co.length (tableMarginal m b rows cols ro co) := by
  unfold tableMarginal
  cases htb : m.tableBase with
  | some v => simp [MatCounts.transpose, htb, margTranspose]
  | none =>
    have hx' := hx htb
    cases hc : m.columnsTableBase <;> cases hrt : m.rowsTableBase <;>
      simp [MatCounts.transpose, htb, hc, hrt, margTranspose, hr, hcs, assembleMatrix_transpose] at hx' ⊢

/-! ## masks and empties -/

theorem rowEmpties_transpose (c : CubeData) (h : c.Transposable) : rowEmpties c.transpose = colEmpties c := by
  unfold rowEmpties colEmpties; rw [cubeData_u_transpose c h]; rfl

theorem colEmpties_transpose (c : CubeData) (h : c.Transposable) : colEmpties c.transpose = rowEmpties c := by
  unfold rowEmpties colEmpties; rw [cubeData_u_transpose c h]; rfl

/-! ## order helpers -/

theorem rowROrder_transpose (B B' : MKey → Blocks) (avail avail' : MKey → Bool)
    (Mg : MargKey → Option (List Val × List Val)) (rows cols : RDim)
    (hmir : cols.order.mirrored = true) (harr : rows.kind ≠ .cat → rows.cdim.subs = [])
    (hB : ∀ key, cols.order.key? = some key → B' key.mirror = (B key).transpose)
    (hav : ∀ key, avail' key.mirror = avail key) :
    rowROrder B' avail' Mg cols.mirror rows.mirror = colROrder B avail rows cols := by
  unfold rowROrder colROrder
  cases ho : cols.order with
  | payload => simp [RDim.mirror, OrderSpec.mirror, ho]
  | explicit ids => simp [RDim.mirror, OrderSpec.mirror, ho]
  | label o => simp [RDim.mirror, OrderSpec.mirror, ho]
  | marginal m o => simp [ho, OrderSpec.mirrored] at hmir
  | univariate m o => simp [RDim.mirror, OrderSpec.mirror, ho]
  | oppElement id m o =>
    cases m with
    | none => simp [RDim.mirror, OrderSpec.mirror, ho]
    | some key =>
      have hb := hB key (by simp [ho, OrderSpec.key?])
      simp only [RDim.mirror, OrderSpec.mirror, ho, Option.map_some, hav]
      cases indexOf? rows.cdim.ids id with
      | none => rfl
      | some j =>
        dsimp only
        rw [hb, hav]
        first | rfl | (simp <;> rfl)
  | oppInsertion insId m o =>
    by_cases hk : rows.kind = .cat
    · cases m with
      | none => simp [RDim.mirror, OrderSpec.mirror, ho, hk]
      | some key =>
        have hb := hB key (by simp [ho, OrderSpec.key?])
        simp only [RDim.mirror, OrderSpec.mirror, ho, Option.map_some, hav, hk]
        cases indexOf? (bogusIds rows.cdim.subs) insId with
        | none => rfl
        | some j =>
          dsimp only
          rw [hb, hav]
          first | rfl | (simp <;> rfl)
    · have hs := harr hk
      have hne : (rows.kind != DK.cat) = true := by simpa using hk
      simp only [RDim.mirror, OrderSpec.mirror, ho, hne, if_true, hs, bogusIds, List.map_nil, indexOf?,
        List.findIdx?_nil]
      try (cases m <;> rfl)

theorem colROrder_transpose (B B' : MKey → Blocks) (avail avail' : MKey → Bool)
    (Mg : MargKey → Option (List Val × List Val)) (rows cols : RDim)
    (hmir : rows.order.mirrored = true) (harr : cols.kind ≠ .cat → cols.cdim.subs = [])
    (hB : ∀ key, rows.order.key? = some key → B' key.mirror = (B key).transpose)
    (hav : ∀ key, avail' key.mirror = avail key) :
    colROrder B' avail' cols.mirror rows.mirror = rowROrder B avail Mg rows cols := by
  unfold rowROrder colROrder
  cases ho : rows.order with
  | payload => simp [RDim.mirror, OrderSpec.mirror, ho]
  | explicit ids => simp [RDim.mirror, OrderSpec.mirror, ho]
  | label o => simp [RDim.mirror, OrderSpec.mirror, ho]
  | marginal m o => simp [ho, OrderSpec.mirrored] at hmir
  | univariate m o => simp [RDim.mirror, OrderSpec.mirror, ho]
  | oppElement id m o =>
    cases m with
    | none => simp [RDim.mirror, OrderSpec.mirror, ho]
    | some key =>
      have hb := hB key (by simp [ho, OrderSpec.key?])
      simp only [RDim.mirror, OrderSpec.mirror, ho, Option.map_some, hav]
      cases indexOf? cols.cdim.ids id with
      | none => rfl
      | some j =>
        dsimp only
        rw [hb, hav]
        first | rfl | (simp <;> rfl)
  | oppInsertion insId m o =>
    by_cases hk : cols.kind = .cat
    · cases m with
      | none => simp [RDim.mirror, OrderSpec.mirror, ho, hk]
      | some key =>
        have hb := hB key (by simp [ho, OrderSpec.key?])
        simp only [RDim.mirror, OrderSpec.mirror, ho, Option.map_some, hav, hk]
        cases indexOf? (bogusIds cols.cdim.subs) insId with
        | none => rfl
        | some j =>
          dsimp only
          rw [hb, hav]
          first | rfl | (simp <;> rfl)
    · have hs := harr hk
      have hne : (cols.kind != DK.cat) = true := by simpa using hk
      simp only [RDim.mirror, OrderSpec.mirror, ho, hne, if_true, hs, bogusIds, List.map_nil, indexOf?,
        List.findIdx?_nil]
      try (cases m <;> rfl)

end CrCube.Lemmas.Transpose
