/-
  Category-level closed forms of the scale mean / variance model (helper lemmas for C14):
  on a list of categories (optional numeric value, count) the model equals
  Σ v·c / Σ c  and  Σ c·(v − μ)² / Σ c  over the valued categories.
-/
import CrCube.Model.Scale
import CrCube.Lemmas.ValSum
import Mathlib.Tactic.FieldSimp

namespace CrCube.ScaleLemmas
open CrCube CrCube.Scale

/-- a category of the opposing dimension: optional numeric value and (weighted) count -/
abbrev Cat := Option Rat × Rat

def valuesOf (cats : List Cat) : List Val := cats.map (fun x => optVal x.1)
def countsOfCats (cats : List Cat) : List Val := cats.map (fun x => Val.fin x.2)

/-- (value, count) of the valued categories -/
def valuedQ (cats : List Cat) : List (Rat × Rat) := cats.filterMap (fun x => x.1.map (fun v => (v, x.2)))

def S0 (cats : List Cat) : Rat := ((valuedQ cats).map (·.2)).sum
def S1 (cats : List Cat) : Rat := ((valuedQ cats).map (fun p => p.1 * p.2)).sum
def S2 (cats : List Cat) (μ : Rat) : Rat := ((valuedQ cats).map (fun p => p.2 * ((p.1 - μ) * (p.1 - μ)))).sum

@[simp] theorem hasVal_nan : hasVal Val.nan = false := rfl
@[simp] theorem hasVal_fin (q : Rat) : hasVal (Val.fin q) = true := rfl

theorem valuedPairs_cats {α : Type} (cats : List Cat) (g : Cat → α) :
    valuedPairs (valuesOf cats) (cats.map g)
      = cats.filterMap (fun x => x.1.map (fun v => (Val.fin v, g x))) := by
  unfold valuedPairs valuesOf
  induction cats with
  | nil => rfl
  | cons x xs ih =>
    obtain ⟨o, c⟩ := x
    cases o with
    | none =>
      simp only [List.map_cons, List.zip_cons_cons, List.filter_cons, optVal_none, hasVal_nan,
        Bool.false_eq_true, if_false, List.filterMap_cons, Option.map_none]
      exact ih
    | some v =>
      simp only [List.map_cons, List.zip_cons_cons, List.filter_cons, optVal_some, hasVal_fin,
        if_true, List.filterMap_cons, Option.map_some]
      rw [ih]

theorem map_snd_filterMap {α : Type} (cats : List Cat) (g : Cat → α) :
    (cats.filterMap (fun x => x.1.map (fun v => (Val.fin v, g x)))).map (·.2)
      = cats.filterMap (fun x => x.1.map (fun _ => g x)) := by
  induction cats with
  | nil => rfl
  | cons x xs ih =>
    obtain ⟨o, c⟩ := x
    cases o with
    | none => simpa [List.filterMap_cons] using ih
    | some v => simp [List.filterMap_cons, ih]

theorem selValued_cats {α : Type} (cats : List Cat) (g : Cat → α) :
    selValued (valuesOf cats) (cats.map g) = cats.filterMap (fun x => x.1.map (fun _ => g x)) := by
  have h := valuedPairs_cats cats g
  unfold valuedPairs at h
  unfold selValued
  rw [h, map_snd_filterMap]

theorem valuedQ_nil : valuedQ [] = [] := rfl
theorem valuedQ_cons_none (c : Rat) (xs : List Cat) : valuedQ ((none, c) :: xs) = valuedQ xs := by
  simp [valuedQ, List.filterMap_cons]
theorem valuedQ_cons_some (v c : Rat) (xs : List Cat) :
    valuedQ ((some v, c) :: xs) = (v, c) :: valuedQ xs := by
  simp [valuedQ, List.filterMap_cons]

theorem filterMap_valuedQ {β : Type} (cats : List Cat) (f : Rat × Rat → β) :
    cats.filterMap (fun x => x.1.map (fun v => f (v, x.2))) = (valuedQ cats).map f := by
  induction cats with
  | nil => rfl
  | cons x xs ih =>
    obtain ⟨o, c⟩ := x
    cases o with
    | none => simpa [List.filterMap_cons, valuedQ_cons_none] using ih
    | some v => simp [List.filterMap_cons, valuedQ_cons_some, ih]

theorem zipWith_mul_props (cats : List Cat) (B : Rat) (hB : B ≠ 0) :
    List.zipWith (· * ·) (valuesOf cats) (cats.map (fun x => Val.fin x.2 / Val.fin B))
      = cats.map (fun x => optVal (x.1.map (fun v => v * (x.2 / B)))) := by
  unfold valuesOf
  rw [List.zipWith_map]
  induction cats with
  | nil => rfl
  | cons x xs ih =>
    obtain ⟨o, c⟩ := x
    simp only [List.zipWith_cons_cons, List.map_cons, ih]
    congr 1
    cases o with
    | none => simp [ValL.nan_mul]
    | some v => simp [ValL.fin_div_fin _ _ hB]

/-- numerator of `_weighted_mean` for a non-zero base -/
theorem mean_num (cats : List Cat) (B : Rat) (hB : B ≠ 0) :
    Val.nansum (List.zipWith (· * ·) (valuesOf cats) (cats.map (fun x => Val.fin x.2 / Val.fin B)))
      = Val.fin (S1 cats / B) := by
  rw [zipWith_mul_props cats B hB, ValL.nansum_map_ov']
  congr 1
  rw [filterMap_valuedQ cats (fun p => p.1 * (p.2 / B))]
  unfold S1
  rw [← pw_sum_map_div]
  congr 1
  apply List.map_congr_left
  intro p _; ring

/-- denominator of `_weighted_mean` for a non-zero base -/
theorem mean_den (cats : List Cat) (B : Rat) (hB : B ≠ 0) :
    Val.sum (selValued (valuesOf cats) (cats.map (fun x => Val.fin x.2 / Val.fin B)))
      = Val.fin (S0 cats / B) := by
  rw [selValued_cats]
  have h1 : (fun x : Cat => x.1.map (fun _ => Val.fin x.2 / Val.fin B))
      = (fun x : Cat => x.1.map (fun v => (fun p : Rat × Rat => Val.fin (p.2 / B)) (v, x.2))) := by
    funext x; simp [ValL.fin_div_fin _ _ hB]
  rw [h1, filterMap_valuedQ cats (fun p => Val.fin (p.2 / B)), ValL.sum_map_fin', pw_sum_map_div]
  rfl

theorem S0_nonneg (cats : List Cat) (h : ∀ x ∈ cats, 0 ≤ x.2) : 0 ≤ S0 cats := by
  unfold S0
  apply pw_sum_nonneg
  intro y hy
  simp only [List.mem_map] at hy
  obtain ⟨p, hp, rfl⟩ := hy
  simp only [valuedQ, List.mem_filterMap] at hp
  obtain ⟨x, hx, hxp⟩ := hp
  cases ho : x.1 with
  | none => simp [ho] at hxp
  | some v => simp [ho] at hxp; rw [← hxp]; exact h x hx

theorem S1_zero_of_S0_zero (cats : List Cat) (h : ∀ x ∈ cats, 0 ≤ x.2) (h0 : S0 cats = 0) :
    S1 cats = 0 := by
  have hall : ∀ p ∈ valuedQ cats, p.2 = 0 := by
    intro p hp
    have hnn : ∀ y ∈ (valuedQ cats).map (·.2), 0 ≤ y := by
      intro y hy
      simp only [List.mem_map] at hy
      obtain ⟨q, hq, rfl⟩ := hy
      simp only [valuedQ, List.mem_filterMap] at hq
      obtain ⟨x, hx, hxq⟩ := hq
      cases ho : x.1 with
      | none => simp [ho] at hxq
      | some v => simp [ho] at hxq; rw [← hxq]; exact h x hx
    exact pw_sum_eq_zero hnn h0 p.2 (List.mem_map_of_mem hp)
  unfold S1
  have : (valuedQ cats).map (fun p => p.1 * p.2) = (valuedQ cats).map (fun _ => (0 : Rat)) := by
    apply List.map_congr_left
    intro p hp; rw [hall p hp]; ring
  rw [this]; simp

/-- `_ScaleMean._weighted_mean` on categories with a non-zero common base -/
theorem weightedMean_cats (cats : List Cat) (B : Rat) (hB : B ≠ 0) (h : ∀ x ∈ cats, 0 ≤ x.2) :
    weightedMean (cats.map (fun x => Val.fin x.2 / Val.fin B)) (valuesOf cats)
      = if S0 cats = 0 then Val.nan else Val.fin (S1 cats / S0 cats) := by
  unfold weightedMean
  rw [mean_num cats B hB, mean_den cats B hB]
  by_cases h0 : S0 cats = 0
  · rw [if_pos h0, h0, S1_zero_of_S0_zero cats h h0]
    simp [ValL.fin_zero_div_fin_zero]
  · rw [if_neg h0, ValL.fin_div_fin _ _ (div_ne_zero h0 hB)]
    congr 1; field_simp

/-- the same with a zero base, where every count is zero -/
theorem weightedMean_cats_zero (cats : List Cat) (h : ∀ x ∈ cats, x.2 = 0) :
    weightedMean (cats.map (fun x => Val.fin x.2 / Val.fin 0)) (valuesOf cats) = Val.nan := by
  have hp : cats.map (fun x => Val.fin x.2 / Val.fin 0) = cats.map (fun _ => Val.nan) := by
    apply List.map_congr_left
    intro x hx; rw [h x hx]; exact ValL.fin_zero_div_fin_zero
  unfold weightedMean
  rw [hp]
  have hz : List.zipWith (· * ·) (valuesOf cats) (cats.map (fun _ => Val.nan))
      = cats.map (fun _ => optVal none) := by
    unfold valuesOf
    rw [List.zipWith_map]
    induction cats with
    | nil => rfl
    | cons x xs ih =>
      simp only [List.zipWith_cons_cons, List.map_cons]
      rw [ih (fun y hy => h y (List.mem_cons_of_mem _ hy))
            (List.map_congr_left (fun y hy => by rw [h y (List.mem_cons_of_mem _ hy)]; exact ValL.fin_zero_div_fin_zero))]
      simp [ValL.mul_nan]
  rw [hz, ValL.nansum_map_ov']
  rw [selValued_cats]
  generalize hl : cats.filterMap (fun x => x.1.map (fun _ => Val.nan)) = l
  cases l with
  | nil => simp [Val.sum, ValL.fin_zero_div_fin_zero]
  | cons y ys =>
    have hy : Val.nan ∈ y :: ys := by
      rw [← hl]
      have : y ∈ cats.filterMap (fun x => x.1.map (fun _ => Val.nan)) := by rw [hl]; exact List.mem_cons_self ..
      simp only [List.mem_filterMap] at this ⊢
      obtain ⟨x, hx, hxy⟩ := this
      refine ⟨x, hx, ?_⟩
      cases ho : x.1 <;> simp [ho] at hxy ⊢
    rw [ValL.sum_of_mem_nan _ hy]
    rfl

theorem filterMap_some_map {α β : Type} (l : List α) (f : α → β) :
    l.filterMap (fun p => some (f p)) = l.map f := by
  induction l with
  | nil => rfl
  | cons p ps ih => simp [List.filterMap_cons, ih]

theorem valuedPairs_counts (cats : List Cat) :
    valuedPairs (valuesOf cats) (countsOfCats cats)
      = (valuedQ cats).map (fun p => (Val.fin p.1, Val.fin p.2)) := by
  unfold countsOfCats
  rw [valuedPairs_cats]
  exact filterMap_valuedQ cats (fun p => (Val.fin p.1, Val.fin p.2))

/-- `_rows_weighted_mean_stddev`'s variance on categories, for a finite mean -/
theorem variance_cats (cats : List Cat) (μ : Rat) (h0 : S0 cats ≠ 0) :
    variance (countsOfCats cats) (valuesOf cats) (Val.fin μ) = Val.fin (S2 cats μ / S0 cats) := by
  unfold variance
  rw [valuedPairs_counts]
  simp only [List.map_map]
  have hnum : ((fun p : Val × Val => p.2 * ((p.1 - Val.fin μ) * (p.1 - Val.fin μ))) ∘ fun p : Rat × Rat => (Val.fin p.1, Val.fin p.2))
      = fun p => optVal (some (p.2 * ((p.1 - μ) * (p.1 - μ)))) := by
    funext p
    show Val.fin p.2 * ((Val.fin p.1 - Val.fin μ) * (Val.fin p.1 - Val.fin μ)) = _
    rw [ValL.sub_fin']; rfl
  have hden : ((fun p : Val × Val => p.2) ∘ fun p : Rat × Rat => (Val.fin p.1, Val.fin p.2))
      = fun p => Val.fin p.2 := by
    funext p; rfl
  rw [hnum, hden, ValL.nansum_map_ov', ValL.sum_map_fin', filterMap_some_map]
  have hS0 : ((valuedQ cats).map (fun p => p.2)).sum = S0 cats := rfl
  rw [hS0, ValL.fin_div_fin _ _ h0]
  rfl

/-- variance with a NaN mean (no valued respondents): NaN -/
theorem variance_cats_nan (cats : List Cat) (h0 : S0 cats = 0) :
    variance (countsOfCats cats) (valuesOf cats) Val.nan = Val.nan := by
  unfold variance
  rw [valuedPairs_counts]
  simp only [List.map_map]
  have hnum : ((fun p : Val × Val => p.2 * ((p.1 - Val.nan) * (p.1 - Val.nan))) ∘ fun p : Rat × Rat => (Val.fin p.1, Val.fin p.2))
      = fun _ => optVal none := by
    funext p
    show Val.fin p.2 * ((Val.fin p.1 - Val.nan) * (Val.fin p.1 - Val.nan)) = _
    rw [ValL.sub_nan, ValL.nan_mul, ValL.mul_nan]; rfl
  have hden : ((fun p : Val × Val => p.2) ∘ fun p : Rat × Rat => (Val.fin p.1, Val.fin p.2))
      = fun p => Val.fin p.2 := by
    funext p; rfl
  rw [hnum, hden, ValL.nansum_map_ov', ValL.sum_map_fin']
  have hS0 : ((valuedQ cats).map (fun p => p.2)).sum = S0 cats := rfl
  rw [hS0, h0]
  have : (valuedQ cats).filterMap (fun _ => (none : Option Rat)) = [] := by
    induction valuedQ cats with
    | nil => rfl
    | cons p ps ih => simp [List.filterMap_cons]
  rw [this]
  simp [ValL.fin_zero_div_fin_zero]

end CrCube.ScaleLemmas
