/-
  Order facts of the end-to-end pipeline: every order the pipeline produces is an instance of
  `Collator.displayOrder`, so `order_nodup / visible_iff / subtotal_iff` (Lemmas/OrderGeneral)
  apply; the order helpers' "drop the subtotals" filter keeps them.
-/
import CrCube.Lemmas.OrderGeneral
import CrCube.Model.Pipeline

namespace CrCube.Pipeline
open CrCube CrCube.Collator CrCube.Lemmas.Bridge CrCube.Lemmas.AnchoredFinal

/-! ## `trueIdxs` -/

theorem mem_trueIdxs {l : List Bool} {i : Nat} : i ∈ trueIdxs l ↔ l[i]? = some true := by
  unfold trueIdxs
  simp only [List.mem_filter, List.mem_range]
  constructor
  · rintro ⟨hi, h⟩
    rw [List.getD_eq_getElem?_getD, List.getElem?_eq_getElem hi] at h
    rw [List.getElem?_eq_getElem hi]
    simpa using h
  · intro h
    have hi : i < l.length := by
      by_contra hc
      rw [List.getElem?_eq_none (by omega)] at h
      exact absurd h (by simp)
    refine ⟨hi, ?_⟩
    rw [List.getD_eq_getElem?_getD, h]
    rfl

theorem trueIdxs_nodup (l : List Bool) : (trueIdxs l).Nodup :=
  List.Nodup.filter _ List.nodup_range

theorem trueIdxs_lt {l : List Bool} {i : Nat} (h : i ∈ trueIdxs l) : i < l.length := by
  unfold trueIdxs at h
  simp only [List.mem_filter, List.mem_range] at h
  exact h.1

theorem trueIdxs_nil : trueIdxs [] = [] := rfl

/-- every flag is set iff as many positions are returned as there are flags -/
theorem trueIdxs_length_eq_iff (l : List Bool) :
    (trueIdxs l).length = l.length ↔ ∀ i, i < l.length → l[i]? = some true := by
  unfold trueIdxs
  constructor
  · intro h i hi
    have hall : ∀ a ∈ List.range l.length, (fun i => l.getD i false) a = true := by
      have h' : ((List.range l.length).filter (fun i => l.getD i false)).length
          = (List.range l.length).length := by rw [h, List.length_range]
      exact List.length_filter_eq_length_iff.mp h'
    have := hall i (List.mem_range.mpr hi)
    rw [List.getElem?_eq_getElem hi]
    simp only [List.getD_eq_getElem?_getD, List.getElem?_eq_getElem hi, Option.getD_some] at this
    rw [this]
  · intro h
    have : (List.range l.length).filter (fun i => l.getD i false) = List.range l.length := by
      apply List.filter_eq_self.mpr
      intro a ha
      have ha' := List.mem_range.mp ha
      have := h a ha'
      rw [List.getD_eq_getElem?_getD, this]
      rfl
    rw [this, List.length_range]

theorem tab1_length {α : Type} (n : Nat) (f : Nat → α) : (tab1 n f).length = n := by
  simp [tab1]

theorem tab1_getElem? {α : Type} (n : Nat) (f : Nat → α) (i : Nat) (h : i < n) :
    (tab1 n f)[i]? = some (f i) := by
  simp [tab1, List.getElem?_map, List.getElem?_range h]

/-! ## `helperDisplayOrder` -/

theorem mem_helper {p : Bool} {o : List Int} {x : Int} :
    x ∈ helperDisplayOrder p o ↔ x ∈ o ∧ (p = true → 0 ≤ x) := by
  unfold helperDisplayOrder
  cases p <;> simp

theorem helper_nodup {p : Bool} {o : List Int} (h : o.Nodup) : (helperDisplayOrder p o).Nodup := by
  unfold helperDisplayOrder
  cases p
  · simpa using h
  · simpa using h.filter _

theorem helper_false (o : List Int) : helperDisplayOrder false o = o := rfl

/-! ## `ROrder.run` -/

/-- the sort values cover the dimension: one per valid element, one per subtotal -/
def ROrder.WF (d : Dim) : ROrder → Prop
  | .byValue _ v sv => v.length = d.elems.length ∧ sv.length = d.subs.length
  | .byLabel _ v sv => v.length = d.elems.length ∧ sv.length = d.subs.length
  | _ => True

theorem run_nodup (d : Dim) (e : List Nat) (r : ROrder) (hids : d.ids.Nodup) : (r.run d e).Nodup := by
  cases r with
  | payload => exact order_nodup (α := Val) d e .payload hids
  | explicit ex => exact order_nodup (α := Val) d e (.explicit ex) hids
  | byValue o v sv => exact order_nodup d e (.sortval valOps o.top o.bottom o.desc v sv) hids
  | byLabel o v sv => exact order_nodup d e (.sortval strOps o.top o.bottom o.desc v sv) hids

theorem run_visible_iff (d : Dim) (e : List Nat) (r : ROrder) (hids : d.ids.Nodup) (hwf : r.WF d)
    (i : Nat) : (i : Int) ∈ r.run d e ↔ i < d.elems.length ∧ i ∉ d.hid e := by
  cases r with
  | payload => exact visible_iff (α := Val) d e .payload hids trivial i
  | explicit ex => exact visible_iff (α := Val) d e (.explicit ex) hids trivial i
  | byValue o v sv => exact visible_iff d e (.sortval valOps o.top o.bottom o.desc v sv) hids hwf.1 i
  | byLabel o v sv => exact visible_iff d e (.sortval strOps o.top o.bottom o.desc v sv) hids hwf.1 i

theorem run_subtotal_iff (d : Dim) (e : List Nat) (r : ROrder) (hids : d.ids.Nodup) (hwf : r.WF d)
    (j : Int) : (j < 0 ∧ j ∈ r.run d e) ↔ j ∈ negIdxs d.subs.length := by
  cases r with
  | payload => exact subtotal_iff (α := Val) d e .payload hids j
  | explicit ex => exact subtotal_iff (α := Val) d e (.explicit ex) hids j
  | byValue o v sv =>
    have := subtotal_iff d e (Collate.sortval valOps o.top o.bottom o.desc v sv) hids j
    simp only [Collate.nSubs, hwf.2] at this
    exact this
  | byLabel o v sv =>
    have := subtotal_iff d e (Collate.sortval strOps o.top o.bottom o.desc v sv) hids j
    simp only [Collate.nSubs, hwf.2] at this
    exact this

/-- an order lists only existing vectors: element offsets and negative subtotal offsets -/
theorem run_mem_cases (d : Dim) (e : List Nat) (r : ROrder) (hids : d.ids.Nodup) (hwf : r.WF d)
    {x : Int} (hx : x ∈ r.run d e) :
    (∃ i : Nat, x = (i : Int) ∧ i < d.elems.length ∧ i ∉ d.hid e) ∨ x ∈ negIdxs d.subs.length := by
  by_cases hneg : x < 0
  · right; exact (run_subtotal_iff d e r hids hwf x).1 ⟨hneg, hx⟩
  · left
    have h0 : 0 ≤ x := by omega
    refine ⟨x.toNat, (Int.toNat_of_nonneg h0).symm, ?_⟩
    have hx' : ((x.toNat : Nat) : Int) ∈ r.run d e := by rw [Int.toNat_of_nonneg h0]; exact hx
    exact (run_visible_iff d e r hids hwf x.toNat).1 hx'

/-- the stripped dimension's payload order lists everything -/
theorem payload_run_mem (d : Dim) (e : List Nat) (hids : d.ids.Nodup) (hh : d.hidden = [])
    (hp : d.prune = false) (x : Int) :
    x ∈ ROrder.payload.run d e ↔
      (∃ i : Nat, x = (i : Int) ∧ i < d.elems.length) ∨ x ∈ negIdxs d.subs.length := by
  have hhid : ∀ i, i ∉ d.hid e := by
    intro i hi
    rw [hid_iff, hh, hp] at hi
    simp at hi
  constructor
  · intro hx
    rcases run_mem_cases d e .payload hids trivial hx with ⟨i, rfl, hi, _⟩ | h
    · left; exact ⟨i, rfl, hi⟩
    · right; exact h
  · rintro (⟨i, rfl, hi⟩ | h)
    · exact (run_visible_iff d e .payload hids trivial i).2 ⟨hi, hhid i⟩
    · exact ((run_subtotal_iff d e .payload hids trivial x).2 h).2

end CrCube.Pipeline
