/-
  Algebraic facts about `Val` used by the C13 theorems.
-/
import CrCube.Model.Val
import CrCube.Lemmas.ValSum
import Mathlib.Tactic.Ring
import Mathlib.Tactic.Linarith

namespace CrCube.ValL
open CrCube CrCube.Val

@[simp] theorem neg_nan : -(Val.nan) = Val.nan := rfl
@[simp] theorem neg_pinf : -(Val.pinf) = Val.ninf := rfl
@[simp] theorem neg_ninf : -(Val.ninf) = Val.pinf := rfl

theorem add_comm' (a b : Val) : a + b = b + a := by
  cases a <;> cases b <;> first | rfl | (show Val.fin _ = Val.fin _; congr 1; ring)

/-- `q − p = −(p − q)` -/
theorem sub_eq_neg_sub (p q : Val) : q - p = -(p - q) := by
  cases p <;> cases q <;> first | rfl | (show Val.fin _ = Val.fin _; congr 1; ring)

theorem sub_self_fin (p : Rat) : (Val.fin p) - (Val.fin p) = Val.fin 0 := by
  rw [sub_fin']; congr 1; ring

/-- "non-negative, NaN or +inf": the values on which `abs` is the identity -/
def nonnegOrNan : Val → Bool
  | .fin q => decide (0 ≤ q)
  | .nan => true
  | .pinf => true
  | .ninf => false

theorem abs_of_nonnegOrNan (v : Val) (h : nonnegOrNan v = true) : Val.abs v = v := by
  cases v with
  | fin q =>
    simp only [nonnegOrNan, decide_eq_true_eq] at h
    show Val.fin (if q < 0 then -q else q) = Val.fin q
    rw [if_neg (not_lt.mpr h)]
  | nan => rfl
  | pinf => rfl
  | ninf => simp [nonnegOrNan] at h

theorem one_val : (1 : Val) = Val.fin 1 := by
  show Val.fin ((1 : Nat) : Rat) = Val.fin 1
  norm_num

theorem zero_val : (0 : Val) = Val.fin 0 := by
  show Val.fin ((0 : Nat) : Rat) = Val.fin 0
  norm_num

theorem two_val' : (2 : Val) = Val.fin 2 := by
  show Val.fin ((2 : Nat) : Rat) = Val.fin 2
  norm_num

/-- `p(1−p)/n` for a proportion in [0,1] and a positive base is a non-negative number -/
theorem var_term_fin (p n : Rat) (hn : n ≠ 0) :
    (Val.fin p) * ((1 : Val) - Val.fin p) / Val.fin n = Val.fin (p * (1 - p) / n) := by
  rw [one_val, sub_fin', mul_fin, fin_div_fin _ _ hn]

theorem lt_fin_mono (v : Val) (a b : Rat) (hab : a ≤ b) (h : Val.lt v (.fin a) = true) :
    Val.lt v (.fin b) = true := by
  cases v with
  | fin q =>
    simp only [Val.lt, decide_eq_true_eq] at h ⊢
    exact lt_of_lt_of_le h hab
  | nan => simp [Val.lt] at h
  | pinf => simp [Val.lt] at h
  | ninf => rfl

end CrCube.ValL
