/-
  Helper lemmas for `Props/C10_Pipeline.lean`: the nine count extractors of `Model/CubeCounts` and
  `sliceCounts` commute with transposition of the (raw) array.
-/
import CrCube.Model.PipelineTranspose
import CrCube.Lemmas.ValAlgebra

set_option linter.unusedSimpArgs false
set_option linter.unusedVariables false

namespace CrCube.Lemmas.Transpose
open CrCube CrCube.Pipeline

/-- raw axes an apparent dimension occupies in the extractor's array: an MR dimension carries its
    selection axis -/
def nax : DK → Nat
  | .mr => 2
  | _ => 1

theorem matCounts_ext {a b : MatCounts} (h1 : a.nrows = b.nrows) (h2 : a.ncols = b.ncols)
    (h3 : ∀ i j, a.counts i j = b.counts i j) (h4 : ∀ i j, a.rowBases i j = b.rowBases i j)
    (h5 : ∀ i j, a.columnBases i j = b.columnBases i j) (h6 : ∀ i j, a.tableBases i j = b.tableBases i j)
    (h7 : a.rowsBase = b.rowsBase) (h8 : a.columnsBase = b.columnsBase)
    (h9 : a.rowsTableBase = b.rowsTableBase) (h10 : a.columnsTableBase = b.columnsTableBase)
    (h11 : a.tableBase = b.tableBase) (h12 : ∀ i, a.rowsPruningBase i = b.rowsPruningBase i)
    (h13 : ∀ i, a.columnsPruningBase i = b.columnsPruningBase i) : a = b := by
  cases a; cases b
  simp only [MatCounts.mk.injEq] at *
  exact ⟨h1, h2, funext fun i => funext fun j => h3 i j, funext fun i => funext fun j => h4 i j,
    funext fun i => funext fun j => h5 i j, funext fun i => funext fun j => h6 i j, h7, h8, h9, h10, h11,
    funext h12, funext h13⟩

theorem vsum_comm (n m : Nat) (f : Nat → Nat → Val) :
    vsum n (fun i => vsum m (fun j => f i j)) = vsum m (fun j => vsum n (fun i => f i j)) := by
  unfold vsum; exact Val.sum_comm _ _ _

theorem length_eq_four {α : Type} {l : List α} (h : l.length = 4) : ∃ a b c d, l = [a, b, c, d] := by
  rcases l with _ | ⟨a, _ | ⟨b, _ | ⟨c, _ | ⟨d, _ | ⟨e, l⟩⟩⟩⟩⟩ <;> simp at h
  exact ⟨a, b, c, d, rfl⟩

macro "xtr_simp" h:ident : tactic => `(tactic|
  (apply matCounts_ext <;> intros <;>
    simp [MatCounts.factory, MatCounts.catXcat, MatCounts.catXmr, MatCounts.mrXcat, MatCounts.mrXmr,
      MatCounts.arrXarr, MatCounts.arrXcat, MatCounts.catXarr, MatCounts.arrXmr, MatCounts.mrXarr,
      nax, FT.dim, MatCounts.transpose, MatCounts.defRowsPruning,
      MatCounts.defColsPruning, $h:ident] <;>
    first
      | done
      | exact vsum_comm _ _ _
      | (funext i; exact vsum_comm _ _ _)))

/-- **the nine extractors**: the extractor of the exchanged kinds on an array that is the given one
    with its two axis groups exchanged (at every multi-index of the right length) is the transposed
    extractor object -/
theorem factory_transpose (rk ck : DK) (t t' : FT) (hs : t.shape.length = nax rk + nax ck)
    (hsh : t'.shape = t.shape.drop (nax rk) ++ t.shape.take (nax rk))
    (hget : ∀ ix, ix.length = nax rk + nax ck → t'.get ix = t.get (ix.drop (nax ck) ++ ix.take (nax ck))) :
    MatCounts.factory ck rk t' = (MatCounts.factory rk ck t).transpose := by
  obtain ⟨sh, g⟩ := t
  obtain ⟨sh', g'⟩ := t'
  simp only at hs hsh hget
  subst hsh
  cases rk <;> cases ck <;> simp only [nax] at hs hget
  · obtain ⟨a, b, rfl⟩ := List.length_eq_two.mp hs; xtr_simp hget
  · obtain ⟨a, b, c, rfl⟩ := List.length_eq_three.mp hs; xtr_simp hget
  · obtain ⟨a, b, rfl⟩ := List.length_eq_two.mp hs; xtr_simp hget
  · obtain ⟨a, b, c, rfl⟩ := List.length_eq_three.mp hs; xtr_simp hget
  · obtain ⟨a, b, c, d, rfl⟩ := length_eq_four hs; xtr_simp hget
  · obtain ⟨a, b, c, rfl⟩ := List.length_eq_three.mp hs; xtr_simp hget
  · obtain ⟨a, b, rfl⟩ := List.length_eq_two.mp hs; xtr_simp hget
  · obtain ⟨a, b, c, rfl⟩ := List.length_eq_three.mp hs; xtr_simp hget
  · obtain ⟨a, b, rfl⟩ := List.length_eq_two.mp hs; xtr_simp hget

theorem oneDim_cases (v : Var) (h : OneDim v) : v.kind = .cat ∨ (v.kind = .arr ∧ v.isMR = true) := by
  cases hk : v.kind
  · exact Or.inl rfl
  · exact Or.inr ⟨rfl, h hk⟩

macro "ix_cases" ix:ident h:ident : tactic => `(tactic|
  first
    | (obtain ⟨i0, i1, hh⟩ := List.length_eq_two.mp $h; subst hh; simp)
    | (obtain ⟨i0, i1, i2, hh⟩ := List.length_eq_three.mp $h; subst hh; simp)
    | (obtain ⟨i0, i1, i2, i3, hh⟩ := length_eq_four $h; subst hh; simp))

/-- 2-D cube `[R, C]`: the extractor object of the transposed cube is the transposed extractor object -/
theorem sliceCounts_transpose_2d (R C : Var) (hR : OneDim R) (hC : OneDim C) (raw : FT) (k : Nat) :
    sliceCounts [C, R] (transposeRaw 0 R.rank C.rank raw) k = (sliceCounts [R, C] raw k).transpose := by
  rcases oneDim_cases R hR with hR' | ⟨hR', hmR⟩ <;> rcases oneDim_cases C hC with hC' | ⟨hC', hmC⟩ <;>
    simp [sliceCounts, apparentKinds, Var.dks, hR', hC', *, sliceExpr, Var.rank] <;>
    apply factory_transpose <;>
    first
      | (intro ix hix; simp only [nax] at hix
         simp only [validCube, FT.take, Var.validAxes, transposeRaw, hR', hC', nax, List.flatMap_cons,
           List.flatMap_nil, List.append_nil, List.cons_append, List.nil_append]
         ix_cases ix hix)
      | simp [validCube, FT.take, Var.validAxes, transposeRaw, hR', hC', nax]

/-- 3-D cube `[T, R, C]`, partition `k`: the same -/
theorem sliceCounts_transpose_3d (T R C : Var) (hT : OneDim T) (hR : OneDim R) (hC : OneDim C)
    (raw : FT) (k : Nat) :
    sliceCounts [T, C, R] (transposeRaw T.rank R.rank C.rank raw) k
      = (sliceCounts [T, R, C] raw k).transpose := by
  rcases oneDim_cases T hT with hT' | ⟨hT', hmT⟩ <;>
  rcases oneDim_cases R hR with hR' | ⟨hR', hmR⟩ <;> rcases oneDim_cases C hC with hC' | ⟨hC', hmC⟩ <;>
    simp [sliceCounts, apparentKinds, Var.dks, hT', hR', hC', *, sliceExpr, Var.rank] <;>
    apply factory_transpose <;>
    first
      | (intro ix hix; simp only [nax] at hix
         simp only [validCube, FT.take, FT.slice0, Var.validAxes, transposeRaw, hT', hR', hC', nax,
           List.flatMap_cons, List.flatMap_nil, List.append_nil, List.cons_append, List.nil_append]
         ix_cases ix hix)
      | simp [validCube, FT.take, FT.slice0, Var.validAxes, transposeRaw, hT', hR', hC', nax]

/-- every raw array of a transposable cube: extractor of the transposed = transposed extractor -/
theorem sliceCounts_rawT (c : CubeData) (h : c.Transposable) (raw : FT) :
    sliceCounts c.varsT (c.rawT raw) c.k = (sliceCounts c.vars raw c.k).transpose := by
  unfold CubeData.Transposable at h
  unfold CubeData.varsT CubeData.rawT
  split at h
  · next R C hv => simp only [hv]; exact sliceCounts_transpose_2d R C h.1 h.2 raw c.k
  · next T R C hv => simp only [hv]; exact sliceCounts_transpose_3d T R C h.1 h.2.1 h.2.2 raw c.k
  · exact h.elim

theorem cubeData_w_transpose (c : CubeData) (h : c.Transposable) : c.transpose.w = c.w.transpose :=
  sliceCounts_rawT c h c.wraw

theorem cubeData_u_transpose (c : CubeData) (h : c.Transposable) : c.transpose.u = c.u.transpose :=
  sliceCounts_rawT c h c.uraw

theorem cubeData_numeric_transpose (c : CubeData) (h : c.Transposable) (o : Option FT) :
    c.transpose.numeric (o.map c.rawT) = fun i j => c.numeric o j i := by
  cases o with
  | none => rfl
  | some raw =>
    show (sliceCounts c.varsT (c.rawT raw) c.k).counts = _
    rw [sliceCounts_rawT c h raw]; rfl

/-- the 1-D table base and the two 1-D table-base vectors never coexist ambiguously: whenever both
    vectors exist so does the scalar (CAT × CAT) -/
theorem factory_tableBase_excl (rk ck : DK) (t : FT) :
    (MatCounts.factory rk ck t).tableBase = none →
      ¬ ((MatCounts.factory rk ck t).columnsTableBase.isSome = true
          ∧ (MatCounts.factory rk ck t).rowsTableBase.isSome = true) := by
  cases rk <;> cases ck <;>
    simp [MatCounts.factory, MatCounts.catXcat, MatCounts.catXmr, MatCounts.mrXcat, MatCounts.mrXmr,
      MatCounts.arrXarr, MatCounts.arrXcat, MatCounts.catXarr, MatCounts.arrXmr, MatCounts.mrXarr]

theorem sliceCounts_tableBase_excl (vars : List Var) (raw : FT) (k : Nat) :
    (sliceCounts vars raw k).tableBase = none →
      ¬ ((sliceCounts vars raw k).columnsTableBase.isSome = true
          ∧ (sliceCounts vars raw k).rowsTableBase.isSome = true) :=
  factory_tableBase_excl _ _ _

end CrCube.Lemmas.Transpose
