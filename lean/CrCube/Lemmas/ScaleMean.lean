/-
  `_ScaleMean._weighted_mean` (nansum of the products over the sum of the proportions of numeric-valued rows)
  equals the plain definition Σ v·p / Σ p over the numeric-valued rows, whenever values and proportions are
  finite or NaN (they are: numeric values are numbers or NaN, proportions are count/base).
-/
import CrCube.Model.Smoothing
import CrCube.Spec.SmoothingSpec

namespace CrCube.Smoothing
open CrCube

/-- finite or NaN -/
def finOrNan : Val → Bool
  | .pinf => false
  | .ninf => false
  | _ => true

theorem zipWith_mul_eq (vs ps : List Val) :
    List.zipWith (· * ·) vs ps = (List.zip vs ps).map (fun x => x.1 * x.2) := by
  induction vs generalizing ps with
  | nil => simp
  | cons v vs ih => cases ps with
    | nil => simp
    | cons p ps => simp [ih]

theorem filterMap_eq (l : List (Val × Val)) :
    l.filterMap (fun (x : Val × Val) => if x.1.isNan then none else some x.2) =
      (l.filter (fun (x : Val × Val) => !x.1.isNan)).map (·.2) := by
  induction l with
  | nil => rfl
  | cons x xs ih =>
    by_cases h : x.1.isNan = true
    · simp [List.filterMap_cons, List.filter_cons, h, ih]
    · simp [List.filterMap_cons, List.filter_cons, h, ih]

theorem add_nan (a : Val) : a + Val.nan = Val.nan := by cases a <;> rfl
theorem nan_add (a : Val) : Val.nan + a = Val.nan := rfl
theorem div_nan (a : Val) : a / Val.nan = Val.nan := by cases a <;> rfl

theorem foldl_nan (l : List Val) : l.foldl (· + ·) Val.nan = Val.nan := by
  induction l with
  | nil => rfl
  | cons x xs ih => simp only [List.foldl_cons, nan_add, ih]

theorem foldl_mem_nan (l : List Val) (acc : Val) (h : Val.nan ∈ l) : l.foldl (· + ·) acc = Val.nan := by
  induction l generalizing acc with
  | nil => simp at h
  | cons x xs ih =>
    simp only [List.foldl_cons]
    rcases List.mem_cons.mp h with h | h
    · rw [← h, add_nan, foldl_nan]
    · exact ih _ h

theorem sum_mem_nan (l : List Val) (h : Val.nan ∈ l) : Val.sum l = Val.nan := foldl_mem_nan l _ h

/-- with every numeric-valued row's proportion finite, nansum of the products = sum over those rows -/
theorem nansum_products (l : List (Val × Val)) (acc : Val)
    (hv : ∀ x ∈ l, finOrNan x.1 = true)
    (hp : ∀ x ∈ l, x.1.isNan = false → ∃ q, x.2 = Val.fin q) :
    (l.map (fun x => x.1 * x.2)).foldl (fun acc x => if x.isNan then acc else acc + x) acc =
      ((l.filter (fun (x : Val × Val) => !x.1.isNan)).map (fun x => x.1 * x.2)).foldl (· + ·) acc := by
  induction l generalizing acc with
  | nil => rfl
  | cons x xs ih =>
    have hv' : ∀ y ∈ xs, finOrNan y.1 = true := fun y hy => hv y (List.mem_cons_of_mem _ hy)
    have hp' : ∀ y ∈ xs, y.1.isNan = false → ∃ q, y.2 = Val.fin q :=
      fun y hy => hp y (List.mem_cons_of_mem _ hy)
    have hx := hv x List.mem_cons_self
    obtain ⟨v, p⟩ := x
    cases v with
    | nan =>
      simp only [List.map_cons, List.foldl_cons, List.filter_cons, Val.isNan]
      have : (Val.nan * p).isNan = true := rfl
      simp only [this, if_true, Bool.not_true, Bool.false_eq_true, if_false]
      exact ih acc hv' hp'
    | fin a =>
      obtain ⟨q, hq⟩ := hp (Val.fin a, p) List.mem_cons_self rfl
      simp only at hq
      subst hq
      simp only [List.map_cons, List.foldl_cons, List.filter_cons, Val.isNan, Bool.not_false, if_true,
        Val.mul_fin, Bool.false_eq_true, if_false]
      exact ih _ hv' hp'
    | pinf => simp [finOrNan] at hx
    | ninf => simp [finOrNan] at hx

/-- **weightedMean_eq_scaleMean** -/
theorem weightedMean_eq_scaleMean (values props : List Val)
    (hv : ∀ x ∈ values, finOrNan x = true) (hp : ∀ x ∈ props, finOrNan x = true) :
    weightedMean values props = SmoothingSpec.scaleMean values props := by
  unfold weightedMean SmoothingSpec.scaleMean
  simp only [zipWith_mul_eq, filterMap_eq]
  -- is some numeric-valued row's proportion NaN?
  by_cases hnan : ∃ x ∈ List.zip values props, x.1.isNan = false ∧ x.2 = Val.nan
  · obtain ⟨x, hx, hx1, hx2⟩ := hnan
    have hmem : Val.nan ∈ ((List.zip values props).filter (fun (x : Val × Val) => !x.1.isNan)).map (·.2) := by
      apply List.mem_map.mpr
      exact ⟨x, List.mem_filter.mpr ⟨hx, by simp [hx1]⟩, hx2⟩
    rw [sum_mem_nan _ hmem, div_nan, div_nan]
  · have hvz : ∀ x ∈ List.zip values props, finOrNan x.1 = true :=
      fun x hx => hv x.1 (List.of_mem_zip hx).1
    have hpz : ∀ x ∈ List.zip values props, x.1.isNan = false → ∃ q, x.2 = Val.fin q := by
      intro x hx h1
      have h2 := hp x.2 (List.of_mem_zip hx).2
      cases hx2 : x.2 with
      | fin q => exact ⟨q, rfl⟩
      | nan => exact absurd ⟨x, hx, h1, hx2⟩ hnan
      | pinf => rw [hx2] at h2; simp [finOrNan] at h2
      | ninf => rw [hx2] at h2; simp [finOrNan] at h2
    have := nansum_products (List.zip values props) (Val.fin 0) hvz hpz
    unfold Val.nansum Val.sum
    rw [this]

end CrCube.Smoothing
