/-
  The two facts about display orders that C05 and C09 reuse, for all three collators at once:
    `order_nodup` : an order never lists an element or subtotal twice;
    `visible_iff` : a base element offset is displayed iff it is not hidden
                    (hidden = explicit hides ∪ empties-if-prune);
  plus `subtotal_iff` : every subtotal index is displayed, whatever is hidden.
-/
import CrCube.Props.C07
import CrCube.Props.C08

namespace CrCube.Collator
open CrCube.Lemmas.AnchoredFinal CrCube.Lemmas.Bridge

theorem order_nodup {α : Type} (d : Dim) (empties : List Nat) (c : Collate α) (hids : d.ids.Nodup) :
    (displayOrder d empties c).Nodup := by
  cases c with
  | payload => exact payload_nodup d empties
  | explicit ex => exact explicit_nodup d ex empties hids
  | sortval ops top bottom desc vals svals =>
    exact CrCube.C08.order_nodup_sort ops d.ids (d.hid empties) top bottom desc vals svals

theorem visible_iff {α : Type} (d : Dim) (empties : List Nat) (c : Collate α) (hids : d.ids.Nodup)
    (hwf : c.wellFormed d) (i : Nat) :
    (i : Int) ∈ displayOrder d empties c ↔ i < d.elems.length ∧ i ∉ d.hid empties := by
  cases c with
  | payload => exact payload_visible_iff d empties i
  | explicit ex => exact explicit_visible_iff d ex empties hids i
  | sortval ops top bottom desc vals svals =>
    have hl : vals.length = d.ids.length := by
      have : vals.length = d.elems.length := hwf
      rw [this, ids_length]
    have := CrCube.C08.visible_iff_sort ops d.ids (d.hid empties) top bottom desc vals svals hl i
    simp only [displayOrder]
    rw [this, ids_length]
    simp

theorem subtotal_iff {α : Type} (d : Dim) (empties : List Nat) (c : Collate α) (hids : d.ids.Nodup) (j : Int) :
    (j < 0 ∧ j ∈ displayOrder d empties c) ↔ j ∈ negIdxs (c.nSubs d) := by
  cases c with
  | payload => exact payload_subs_iff d empties j
  | explicit ex => exact explicit_subs_iff d ex empties hids j
  | sortval ops top bottom desc vals svals =>
    simp only [displayOrder, Collate.nSubs]
    constructor
    · rintro ⟨hneg, hm⟩
      exact (CrCube.C08.neg_mem_sort_iff ops d.ids (d.hid empties) top bottom desc vals svals j hneg).1 hm
    · intro h
      have hneg := (mem_negIdxs.1 h).2
      exact ⟨hneg, (CrCube.C08.neg_mem_sort_iff ops d.ids (d.hid empties) top bottom desc vals svals j hneg).2 h⟩

/-- hidden set, spelled out -/
theorem hid_iff (d : Dim) (empties : List Nat) (i : Nat) :
    i ∈ d.hid empties ↔ i ∈ d.hidden ∨ (d.prune = true ∧ i ∈ empties) :=
  CrCube.C07.hidden_def d.prune empties d.hidden i

end CrCube.Collator
