/-
  From the FLAT payload list (what the response carries) to the respondent-level counts: the
  driver executes `sliceCounts vars (FT.ofFlat shape data)`; the theorems of C01/C02 are about
  `cubeOf vars s` as an index function.  These lemmas close the gap: every raw index the
  extractors touch is in range, so reshaping the flat list reads the same cell.
-/
import CrCube.Lemmas.NumericFlat

set_option linter.unusedSimpArgs false

namespace CrCube

theorem Var.CM.inRange_sub {v : Var} (h : v.CM) (hwf : v.WF) (e t : Nat) (he : e < v.ext)
    (ht : t < v.np) : InRange v.rawShape (v.sub e t) := by
  rcases h with hk | ⟨hk, _, _⟩
  · simp only [Var.rawShape, Var.sub, hk, InRange, inRangeB, Bool.and_true, decide_eq_true_eq]
    rw [hwf hk]
    exact validIdxs_getD_lt _ t ht
  · simp only [Var.rawShape, Var.sub, hk, InRange, inRangeB, Bool.and_true, Bool.and_eq_true,
      decide_eq_true_eq]
    have he' : e < v.n := by simpa [Var.ext, hk] using he
    exact ⟨by rw [List.getElem?_range he']; simpa using he', validIdxs_getD_lt _ t ht⟩

theorem Var.CM.inRange_msub {v : Var} (h : v.CM) (hwf : v.WF) (e : Nat) (he : e < v.ext) :
    InRange v.rawShape (v.msub e) := by
  rcases h with hk | ⟨hk, _, h0⟩
  · simp only [Var.rawShape, Var.msub, hk, InRange, inRangeB, Bool.and_true, decide_eq_true_eq]
    rw [hwf hk]
    exact validIdxs_getD_lt _ e (by simpa [Var.ext, hk] using he)
  · simp only [Var.rawShape, Var.msub, hk, InRange, inRangeB, Bool.and_true, Bool.and_eq_true,
      decide_eq_true_eq]
    have he' : e < v.n := by simpa [Var.ext, hk] using he
    exact ⟨by rw [List.getElem?_range he']; simpa using he', validIdxs_getD_lt _ 0 h0⟩

theorem rawShapeOf_two (R C : Var) : rawShapeOf [R, C] = R.rawShape ++ C.rawShape := by
  simp [rawShapeOf]

section
variable (R C : Var) (hR : R.CM) (hC : C.CM) (hRw : R.WF) (hCw : C.WF) (s : Survey)
include hR hC hRw hCw

/-- the four count-extractor fields computed from the RESHAPED FLAT PAYLOAD equal those computed
    from the tabulation as an index function, on every cell of the table -/
theorem flat_fields_eq (i j : Nat) (hi : i < R.ext) (hj : j < C.ext) :
    let flat := FT.ofFlat (rawShapeOf [R, C]) (cubeFlat [R, C] s)
    let fn := cubeOf [R, C] s
    (sliceCounts [R, C] flat 0).counts i j = (sliceCounts [R, C] fn 0).counts i j ∧
    (sliceCounts [R, C] flat 0).rowBases i j = (sliceCounts [R, C] fn 0).rowBases i j ∧
    (sliceCounts [R, C] flat 0).columnBases i j = (sliceCounts [R, C] fn 0).columnBases i j ∧
    (sliceCounts [R, C] flat 0).tableBases i j = (sliceCounts [R, C] fn 0).tableBases i j := by
  intro flat fn
  have hget : ∀ x y, InRange R.rawShape x → InRange C.rawShape y → flat.get (x ++ y) = fn.get (x ++ y) := by
    intro x y hx hy
    have := FT.ofFlat_flat (cubeOf [R, C] s) (x ++ y) (by
      show InRange (rawShapeOf [R, C]) (x ++ y)
      rw [rawShapeOf_two]; exact inRange_append _ _ _ _ hx hy)
    exact this
  refine ⟨?_, ?_, ?_, ?_⟩
  · rw [slice2d_counts R C hR hC, slice2d_counts R C hR hC]
    exact hget _ _ (hR.inRange_msub hRw i hi) (hC.inRange_msub hCw j hj)
  · rw [slice2d_rowBases R C hR hC, slice2d_rowBases R C hR hC]
    apply vsum_congr
    intro u hu
    exact hget _ _ (hR.inRange_msub hRw i hi) (hC.inRange_sub hCw j u hj hu)
  · rw [slice2d_columnBases R C hR hC, slice2d_columnBases R C hR hC]
    apply vsum_congr
    intro t ht
    exact hget _ _ (hR.inRange_sub hRw i t hi ht) (hC.inRange_msub hCw j hj)
  · rw [slice2d_tableBases R C hR hC, slice2d_tableBases R C hR hC]
    apply vsum_congr
    intro t ht
    apply vsum_congr
    intro u hu
    exact hget _ _ (hR.inRange_sub hRw i t hi ht) (hC.inRange_sub hCw j u hj hu)

end

end CrCube
