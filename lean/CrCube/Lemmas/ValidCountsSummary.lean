/-
  `valid_counts_summary_range`: the summed cells for the designs where the axis tuple addresses the
  intended axes (no multiple-response dimension), and their respondent-level meaning.
-/
import CrCube.Lemmas.NumArrayBases
import CrCube.Model.ValidCountsSummary
import CrCube.Spec.ValidCountsSummarySpec

set_option linter.unusedSimpArgs false
set_option linter.unusedSectionVars false

namespace CrCube

theorem allIdx_nil : allIdx [] = [[]] := rfl

theorem allIdx_one (m : Nat) : allIdx [m] = (List.range m).map (fun i => [i]) := by
  simp only [allIdx, List.map_cons, List.map_nil]
  induction (List.range m) with
  | nil => rfl
  | cons x xs ih => simp [List.flatMap_cons, ih]

theorem sum_allIdx_one (m : Nat) (f : List Nat → Val) :
    Val.sum ((allIdx [m]).map f) = vsum m (fun t => f [t]) := by
  simp [allIdx_one, vsum, List.map_map, Function.comp_def]

theorem Val.sum_single_fin (q : Rat) : Val.sum [Val.fin q] = Val.fin q := by
  simp [Val.sum, List.foldl]

/-- numeric array × categorical variable: one cell per item, summed over the valid categories -/
theorem summary_cells_numarr_cat (C : Var) (hC : C.kind = .cat) (n : Nat) (raw : FT) :
    sumAxes ((NDesign.mk [C] (some n)).view raw) (NDesign.mk [C] (some n)).summaryMask
      = (List.range n).map (fun i =>
          vsum C.np (fun t => raw.get (C.sub 0 t ++ [(List.range n)[i]?.getD 0]))) := by
  simp [sumAxes, NDesign.summaryMask, NDesign.view, NDesign.order, NDesign.sizes, NDesign.valid,
    NDesign.kinds, NDesign.hasNumArr, dimOrder_two_true, permTake, pickMask, mergeIdx,
    apparentKinds, Var.dks, Var.validAxes, rawShapeOf, Var.rawShape, hC, List.getD, range_two,
    allIdx_one, sum_allIdx_one, List.map_map, Function.comp_def, Var.sub, Var.np]
  intro a _; rfl

/-- numeric array alone: the valid counts themselves -/
theorem summary_cells_numarr_alone (n : Nat) (raw : FT) :
    sumAxes ((NDesign.mk [] (some n)).view raw) (NDesign.mk [] (some n)).summaryMask
      = (List.range n).map (fun i => Val.sum [raw.get [(List.range n)[i]?.getD 0]]) := by
  simp [sumAxes, NDesign.summaryMask, NDesign.view, NDesign.order, NDesign.sizes, NDesign.valid,
    NDesign.kinds, NDesign.hasNumArr, dimOrder_one, permTake, pickMask, mergeIdx,
    apparentKinds, rawShapeOf, List.getD, allIdx_one, allIdx_nil, List.map_map, Function.comp_def]

/-- numeric measure over one categorical variable: a single cell, summed over the valid categories -/
theorem summary_cells_scalar_cat (V : Var) (hV : V.kind = .cat) (raw : FT) :
    sumAxes ((NDesign.mk [V] none).view raw) (NDesign.mk [V] none).summaryMask
      = [vsum V.np (fun t => raw.get (V.sub 0 t))] := by
  simp [sumAxes, NDesign.summaryMask, NDesign.view, NDesign.order, NDesign.sizes, NDesign.valid,
    NDesign.kinds, NDesign.hasNumArr, dimOrder_one, dimOrder_false, permTake, pickMask, mergeIdx,
    apparentKinds, Var.dks, Var.validAxes, rawShapeOf, Var.rawShape, hV, List.getD,
    allIdx_one, allIdx_nil, sum_allIdx_one, List.map_map, Function.comp_def, Var.sub, Var.np]
  rfl

theorem spec_cells_numarr_cat (C : Var) (hC : C.kind = .cat) (n : Nat) (s : Survey) :
    summarySpecCells [C] (some n) s
      = (List.range n).map (fun i => numSpecCount [C] n s [0] [true] i) := by
  simp [summarySpecCells, groupElemCombos, Var.summaryElems, hC, Var.nApparent]
  induction (List.range n) with
  | nil => rfl
  | cons x xs ih => simp [List.flatMap_cons, ih]

theorem spec_cells_numarr_alone (n : Nat) (s : Survey) :
    summarySpecCells [] (some n) s = (List.range n).map (fun i => numSpecCount [] n s [] [] i) := by
  simp [summarySpecCells, groupElemCombos]
  induction (List.range n) with
  | nil => rfl
  | cons x xs ih => simp [List.flatMap_cons, ih]

theorem spec_cells_scalar_cat (V : Var) (hV : V.kind = .cat) (s : Survey) :
    summarySpecCells [V] none s = [numSpecCount [V] 1 s [0] [true] 0] := by
  simp [summarySpecCells, groupElemCombos, Var.summaryElems, hV, Var.nApparent, List.range_one]

end CrCube
