/-
  Categorical arrays (items × shared categories) CROSSED with another variable, and the
  transposed (categories × items) layout: respondent-level facts behind C01_Arr / C02_Arr.

  (a) [T, A]   : partition k = the array analysed over the respondents of table element k
  (b) [A, X]   : partition k = (item k as a categorical variable) × X
  (c) [Aᵀ]     : CAT × ARR, one slice
  (d) [Aᵀ, X]  : partition k = respondents who answered valid category k, items × X  (ARR×CAT, ARR×MR)
-/
import CrCube.Lemmas.Slice1Var
import CrCube.Model.SliceArr

set_option linter.unusedSimpArgs false
set_option linter.unusedSectionVars false

namespace CrCube

/-! ### respondent-level predicates spelled out -/

/-- what "cell / base of a categorical array" means for one respondent: the answer on item `i`
    is the `j`-th valid category (`m2 = false`) / is any valid category (`m2 = true`); the flag of
    the items dimension is immaterial (an array item is its own eligibility) -/
def caAnswer (A : Var) (a : List Nat) (i j : Nat) (m2 : Bool) : Bool :=
  match a[i]? with
  | some c => if m2 then A.isValidPos c else A.vpos j == some c
  | none => false

theorem ca_specMem (A : Var) (hA : A.IsCA) (a : List Nat) (i j : Nat) (m1 m2 : Bool) :
    A.specMem a [i, j] [m1, m2] = caAnswer A a i j m2 := by
  simp only [Var.specMem, hA.1, hA.2, caAnswer]
  rfl

theorem specMemAll_cm_ca (T A : Var) (hT : T.CM) (hA : A.IsCA) (a : List (List Nat))
    (k i j : Nat) (m0 m1 m2 : Bool) :
    specMemAll [T, A] a [k, i, j] [m0, m1, m2]
      = match a with
        | [aT, aA] => T.specMem aT [k] [m0] && caAnswer A aA i j m2
        | _ => false := by
  have h := specMemAll_two T A a [k] [i, j] [m0] [m1, m2] (by simp [hT.nApparent])
    (by simp [hT.nApparent]) (by simp [ca_nApparent A hA]) (by simp [ca_nApparent A hA])
  simp only [List.cons_append, List.nil_append] at h
  rw [h]
  match a with
  | [aT, aA] => simp only [ca_specMem A hA]
  | [] => rfl
  | [_] => rfl
  | _ :: _ :: _ :: _ => rfl

theorem specMemAll_ca_cm (A X : Var) (hA : A.IsCA) (hX : X.CM) (a : List (List Nat))
    (k i j : Nat) (m0 m1 m2 : Bool) :
    specMemAll [A, X] a [k, i, j] [m0, m1, m2]
      = match a with
        | [aA, aX] => caAnswer A aA k i m1 && X.specMem aX [j] [m2]
        | _ => false := by
  have h := specMemAll_two A X a [k, i] [j] [m0, m1] [m2] (by simp [ca_nApparent A hA])
    (by simp [ca_nApparent A hA]) (by simp [hX.nApparent]) (by simp [hX.nApparent])
  simp only [List.cons_append, List.nil_append] at h
  rw [h]
  match a with
  | [aA, aX] => simp only [ca_specMem A hA]
  | [] => rfl
  | [_] => rfl
  | _ :: _ :: _ :: _ => rfl

theorem specMemAll_ca (A : Var) (hA : A.IsCA) (a : List (List Nat)) (i j : Nat) (m1 m2 : Bool) :
    specMemAll [A] a [i, j] [m1, m2]
      = match a with
        | [aA] => caAnswer A aA i j m2
        | _ => false := by
  rw [specMemAll_one A a [i, j] [m1, m2] (by simp [ca_nApparent A hA]) (by simp [ca_nApparent A hA])]
  match a with
  | [aA] => simp only [ca_specMem A hA]
  | [] => rfl
  | _ :: _ :: _ => rfl

/-- the flag on the ITEMS dimension of a categorical array never matters -/
theorem specCount_ca_flag (A : Var) (hA : A.IsCA) (s : Survey) (i j : Nat) (m1 m1' m2 : Bool) :
    specCount [A] s [i, j] [m1, m2] = specCount [A] s [i, j] [m1', m2] := by
  unfold specCount
  apply wsum_congr
  intro r _
  rw [specMemAll_ca A hA, specMemAll_ca A hA]

theorem specCount_cm_ca_flag (T A : Var) (hT : T.CM) (hA : A.IsCA) (s : Survey) (k i j : Nat)
    (m0 m1 m1' m2 : Bool) :
    specCount [T, A] s [k, i, j] [m0, m1, m2] = specCount [T, A] s [k, i, j] [m0, m1', m2] := by
  unfold specCount
  apply wsum_congr
  intro r _
  rw [specMemAll_cm_ca T A hT hA, specMemAll_cm_ca T A hT hA]

theorem specCount_ca_cm_flag (A X : Var) (hA : A.IsCA) (hX : X.CM) (s : Survey) (k i j : Nat)
    (m0 m0' m1 m2 : Bool) :
    specCount [A, X] s [k, i, j] [m0, m1, m2] = specCount [A, X] s [k, i, j] [m0', m1, m2] := by
  unfold specCount
  apply wsum_congr
  intro r _
  rw [specMemAll_ca_cm A X hA hX, specMemAll_ca_cm A X hA hX]

/-! ### (a) [T, A]: the restricted survey -/

theorem restrict_specCount_ca (T A : Var) (hT : T.CM) (s : Survey) (k i j : Nat)
    (m1 m2 : Bool) :
    specCount [A] (restrictTo T k s) [i, j] [m1, m2]
      = specCount [T, A] s [k, i, j] [false, m1, m2] := by
  unfold specCount restrictTo
  rw [wsum_filter_map s _ (fun r => { w := r.w, ans := r.ans.tail }) (fun _ => rfl)]
  apply wsum_congr
  intro r _
  match r.ans with
  | [] => simp [specMemAll]
  | aT :: as => simp [specMemAll, hT.nApparent]

/-! ### (b) [A, X]: the survey recoded to item k -/

theorem itemVar_ext (A : Var) : A.itemVar.ext = A.np := by
  simp [Var.itemVar, Var.ext, Var.np]

theorem itemVar_CM (A : Var) : A.itemVar.CM := Or.inl rfl

theorem recode_specCount (A X : Var) (hA : A.IsCA) (hX : X.CM) (s : Survey) (k i j : Nat)
    (m0 m1 m2 : Bool) :
    specCount [A.itemVar, X] (s.map (recodeItem k)) [i, j] [m1, m2]
      = specCount [A, X] s [k, i, j] [m0, m1, m2] := by
  unfold specCount
  rw [wsum_map s (recodeItem k) (fun _ => rfl)]
  apply wsum_congr
  intro r _
  rw [specMemAll_ca_cm A X hA hX, specMemAll_11 A.itemVar X (itemVar_CM A).nApparent hX.nApparent]
  unfold recodeItem
  match r.ans with
  | [] => rfl
  | [_] => rfl
  | [aA, aX] =>
    simp only [caAnswer]
    cases aA[k]? with
    | none => simp [Var.specMem, Var.itemVar]
    | some c => simp [Var.specMem, Var.itemVar, Var.isValidPos, Var.vpos]
  | _ :: _ :: _ :: _ => rfl

end CrCube

namespace CrCube

/-! ### (c) the transposed single array: CAT × ARR is the mirror image of ARR × CAT -/

section caT
variable (A : Var) (hA : A.IsCA) (raw : FT)
include hA

/-- the extractor of the transposed layout reads the transposed cells and exchanges the two
    directions of the bases (for ANY raw array) -/
theorem sliceT1_mirror (i j : Nat) :
    (sliceCountsT A [] raw.swap01 0).counts i j = (sliceCounts [A] raw 0).counts j i ∧
    (sliceCountsT A [] raw.swap01 0).rowBases i j = (sliceCounts [A] raw 0).columnBases j i ∧
    (sliceCountsT A [] raw.swap01 0).columnBases i j = (sliceCounts [A] raw 0).rowBases j i ∧
    (sliceCountsT A [] raw.swap01 0).tableBases i j = (sliceCounts [A] raw 0).tableBases j i := by
  refine ⟨?_, ?_, ?_, ?_⟩ <;>
  simp [sliceCountsT, sliceCountsOf, kindsT, Var.validAxesT, sliceCounts, apparentKinds, Var.dks,
    hA.1, hA.2, MatCounts.factory, MatCounts.arrXcat, MatCounts.catXarr, sliceExpr, validCube,
    FT.take, FT.swap01, Var.validAxes, List.getD, FT.dim]

theorem sliceT1_shape :
    (sliceCountsT A [] raw 0).nrows = A.np ∧ (sliceCountsT A [] raw 0).ncols = A.n := by
  constructor <;>
  simp [sliceCountsT, sliceCountsOf, kindsT, Var.validAxesT, apparentKinds, MatCounts.factory,
    MatCounts.catXarr, sliceExpr, FT.take, List.getD, FT.dim, Var.np]

theorem slice1_shape :
    (sliceCounts [A] raw 0).nrows = A.n ∧ (sliceCounts [A] raw 0).ncols = A.np := by
  constructor <;>
  simp [sliceCounts, apparentKinds, Var.dks, hA.1, hA.2, MatCounts.factory, MatCounts.arrXcat,
    sliceExpr, validCube, FT.take, Var.validAxes, List.getD, FT.dim, Var.np]

end caT

end CrCube

namespace CrCube

/-! ### (d) transposed array × X: partition k = valid category k; rows = items; columns = X -/

/-- raw sub-index (item i, k-th valid category) of an array -/
def Var.cellSub (A : Var) (i k : Nat) : List Nat :=
  [(List.range A.n)[i]?.getD 0, (validIdxs A.catMissing)[k]?.getD 0]

section caTX
variable (A X : Var) (hX : X.CM) (raw : FT)
include hX

theorem sliceT2_counts (k i j : Nat) :
    (sliceCountsT A [X] raw.swap01 k).counts i j = raw.get (A.cellSub i k ++ X.msub j) := by
  rcases hX with hX | ⟨hX, hmX, _⟩ <;>
  simp [sliceCountsT, sliceCountsOf, kindsT, Var.validAxesT, apparentKinds, Var.dks, hX, *,
    MatCounts.factory, MatCounts.arrXcat, MatCounts.arrXmr, sliceExpr, FT.take, FT.swap01,
    FT.slice0, Var.validAxes, List.getD, FT.dim, Var.sub, Var.msub, Var.np, Var.cellSub]

theorem sliceT2_rowBases (k i j : Nat) :
    (sliceCountsT A [X] raw.swap01 k).rowBases i j
      = vsum X.np (fun u => raw.get (A.cellSub i k ++ X.sub j u)) := by
  rcases hX with hX | ⟨hX, hmX, _⟩ <;>
  simp [sliceCountsT, sliceCountsOf, kindsT, Var.validAxesT, apparentKinds, Var.dks, hX, *,
    MatCounts.factory, MatCounts.arrXcat, MatCounts.arrXmr, sliceExpr, FT.take, FT.swap01,
    FT.slice0, Var.validAxes, List.getD, FT.dim, Var.sub, Var.msub, Var.np, Var.cellSub]

theorem sliceT2_columnBases (k i j : Nat) (rawT : FT) :
    (sliceCountsT A [X] rawT k).columnBases i j = (sliceCountsT A [X] rawT k).counts i j := by
  rcases hX with hX | ⟨hX, hmX, _⟩ <;>
  simp [sliceCountsT, sliceCountsOf, kindsT, apparentKinds, Var.dks, hX, *,
    MatCounts.factory, MatCounts.arrXcat, MatCounts.arrXmr]

theorem sliceT2_tableBases (k i j : Nat) (rawT : FT) :
    (sliceCountsT A [X] rawT k).tableBases i j = (sliceCountsT A [X] rawT k).rowBases i j := by
  rcases hX with hX | ⟨hX, hmX, _⟩ <;>
  simp [sliceCountsT, sliceCountsOf, kindsT, apparentKinds, Var.dks, hX, *,
    MatCounts.factory, MatCounts.arrXcat, MatCounts.arrXmr]

theorem sliceT2_shape (k : Nat) (rawT : FT) :
    (sliceCountsT A [X] rawT k).nrows = A.n ∧ (sliceCountsT A [X] rawT k).ncols = X.ext := by
  rcases hX with hX | ⟨hX, hmX, _⟩ <;> constructor <;>
  simp [sliceCountsT, sliceCountsOf, kindsT, Var.validAxesT, apparentKinds, Var.dks, hX, *,
    MatCounts.factory, MatCounts.arrXcat, MatCounts.arrXmr, sliceExpr, FT.take,
    FT.slice0, Var.validAxes, List.getD, FT.dim, Var.ext]

theorem nPartitionsT_two : nPartitionsT A [X] = A.np := by
  rcases hX with hX | ⟨hX, hmX, _⟩ <;>
  simp [nPartitionsT, kindsT, apparentKinds, Var.dks, hX, *, Var.np]

end caTX

theorem ca_mem_cellSub (A : Var) (hA : A.IsCA) (a : List Nat) (i k : Nat) (hi : i < A.n)
    (hk : k < A.np) : A.mem a (A.cellSub i k) = caAnswer A a i k false := by
  simp only [Var.np] at hk
  simp only [Var.mem, hA.1, Var.cellSub, caAnswer, Var.vpos, List.getElem?_range hi,
    List.getElem?_eq_getElem hk, Option.getD_some]
  cases a[i]? with
  | none => simp
  | some c => simp [eq_comm]

/-- `cubeOf_get_two` without any hypothesis on the variables -/
theorem cubeOf_get_pair (R C : Var) (s : Survey) (x y : List Nat) (hx : x.length = R.rank)
    (hy : y.length = C.rank) :
    (cubeOf [R, C] s).get (x ++ y) =
      .fin (wsum s fun r => match r.ans with | [aR, aC] => R.mem aR x && C.mem aC y | _ => false) := by
  simp only [cubeOf]
  congr 1
  apply wsum_congr
  intro r _
  exact memCell_two R C r.ans x y hx hy

section caTXs
variable (A X : Var) (hA : A.IsCA) (hX : X.CM) (s : Survey)
include hA hX

theorem specCount_ca_cm (k i j : Nat) (m0 m1 m2 : Bool) :
    specCount [A, X] s [k, i, j] [m0, m1, m2]
      = wsum s fun r => match r.ans with
          | [aA, aX] => caAnswer A aA k i m1 && X.specMem aX [j] [m2]
          | _ => false := by
  unfold specCount
  apply wsum_congr
  intro r _
  exact specMemAll_ca_cm A X hA hX r.ans k i j m0 m1 m2

theorem rawT2_counts (k i j : Nat) (hk : k < A.np) (hi : i < A.n) (hj : j < X.ext) (m0 : Bool) :
    (cubeOf [A, X] s).get (A.cellSub i k ++ X.msub j)
      = .fin (specCount [A, X] s [i, k, j] [m0, false, false]) := by
  rw [cubeOf_get_pair A X s _ _ (by simp [Var.cellSub, Var.rank, hA.1])
    (X.msub_length j), specCount_ca_cm A X hA hX]
  congr 1
  apply wsum_congr
  intro r _
  match r.ans with
  | [aA, aX] => simp only [ca_mem_cellSub A hA aA i k hi hk, hX.mem_member aX j hj]
  | [] => rfl
  | [_] => rfl
  | _ :: _ :: _ :: _ => rfl

theorem rawT2_rowBases (k i j : Nat) (hk : k < A.np) (hi : i < A.n) (hj : j < X.ext) (m0 : Bool) :
    vsum X.np (fun u => (cubeOf [A, X] s).get (A.cellSub i k ++ X.sub j u))
      = .fin (specCount [A, X] s [i, k, j] [m0, false, true]) := by
  simp only [cubeOf_get_pair A X s _ _
    (show (A.cellSub i k).length = A.rank by simp [Var.cellSub, Var.rank, hA.1]) (X.sub_length j _),
    specCount_ca_cm A X hA hX]
  apply vsum_wsum
  · intro r _ t t' ht ht' h1 h2
    match hra : r.ans with
    | [aA, aX] =>
      rw [hra] at h1 h2
      simp only [Bool.and_eq_true] at h1 h2
      exact hX.mem_disj aX j t t' ht ht' h1.2 h2.2
    | [] => simp [hra] at h1
    | [_] => simp [hra] at h1
    | _ :: _ :: _ :: _ => simp [hra] at h1
  · intro r _
    match r.ans with
    | [aA, aX] => simp only [any_and_left, ca_mem_cellSub A hA aA i k hi hk, hX.mem_valid aX j hj]
    | [] => simp
    | [_] => simp
    | _ :: _ :: _ :: _ => simp

end caTXs

end CrCube

namespace CrCube

/-! ### (e) CA-as-0th: a lone array sliced into one categorical strand per item -/

theorem strandCA0_item (A : Var) (hA : A.IsCA) (s : Survey) (k : Nat) (hk : k < A.n) :
    strandCountsCA0 A (cubeOf [A] s) k
      = strandCounts [A.itemVar] (cubeOf [A.itemVar] (s.map (recodeItem k))) := by
  have h := sliceExpr_ca_item A [] hA.1 hA.2 s k hk
  simp only [sliceExpr, show ¬ (3 < 3) by omega, if_false, show ¬ (DK.arr = DK.mr) by decide] at h
  unfold strandCountsCA0
  rw [h]
  simp [strandCounts, apparentKinds, Var.dks, Var.itemVar]

theorem recode_specCount_one (A : Var) (hA : A.IsCA) (s : Survey) (k i : Nat) (m0 m : Bool) :
    specCount [A.itemVar] (s.map (recodeItem k)) [i] [m] = specCount [A] s [k, i] [m0, m] := by
  unfold specCount
  rw [wsum_map s (recodeItem k) (fun _ => rfl)]
  apply wsum_congr
  intro r _
  rw [specMemAll_ca A hA, specMemAll_one A.itemVar _ [i] [m] (by simp [(itemVar_CM A).nApparent])
    (by simp [(itemVar_CM A).nApparent])]
  unfold recodeItem
  match r.ans with
  | [] => rfl
  | [aA] =>
    simp only [caAnswer]
    cases aA[k]? with
    | none => simp [Var.specMem, Var.itemVar]
    | some c => simp [Var.specMem, Var.itemVar, Var.isValidPos, Var.vpos]
  | _ :: _ :: _ => rfl

end CrCube

namespace CrCube

/-! ### (f) [T, Aᵀ]: a transposed array under a categorical / multiple-response table variable -/

section tcaT
variable (T A : Var) (hT : T.CM) (raw : FT)
include hT

theorem sliceTT_counts (k i j : Nat) :
    (sliceCountsTT T A (raw.swapAt T.rank) k).counts i j = raw.get (T.msub k ++ A.cellSub j i) := by
  rcases hT with hT | ⟨hT, hmT, _⟩ <;>
  simp [sliceCountsTT, sliceCountsOf, Var.validAxesT, Var.dks, hT, *, Var.rank,
    MatCounts.factory, MatCounts.catXarr, sliceExpr, FT.take, FT.swapAt, swapAt,
    FT.slice0, Var.validAxes, List.getD, FT.dim, Var.msub, Var.cellSub]

theorem sliceTT_columnBases (k i j : Nat) :
    (sliceCountsTT T A (raw.swapAt T.rank) k).columnBases i j
      = vsum A.np (fun u => raw.get (T.msub k ++ A.cellSub j u)) := by
  rcases hT with hT | ⟨hT, hmT, _⟩ <;>
  simp [sliceCountsTT, sliceCountsOf, Var.validAxesT, Var.dks, hT, *, Var.rank,
    MatCounts.factory, MatCounts.catXarr, sliceExpr, FT.take, FT.swapAt, swapAt,
    FT.slice0, Var.validAxes, List.getD, FT.dim, Var.msub, Var.cellSub, Var.np]

theorem sliceTT_rowBases (k i j : Nat) (rawT : FT) :
    (sliceCountsTT T A rawT k).rowBases i j = (sliceCountsTT T A rawT k).counts i j := by
  rcases hT with hT | ⟨hT, hmT, _⟩ <;>
  simp [sliceCountsTT, sliceCountsOf, Var.dks, hT, *, MatCounts.factory, MatCounts.catXarr]

theorem sliceTT_tableBases (k i j : Nat) (rawT : FT) :
    (sliceCountsTT T A rawT k).tableBases i j = (sliceCountsTT T A rawT k).columnBases i j := by
  rcases hT with hT | ⟨hT, hmT, _⟩ <;>
  simp [sliceCountsTT, sliceCountsOf, Var.dks, hT, *, MatCounts.factory, MatCounts.catXarr]

theorem sliceTT_shape (k : Nat) (rawT : FT) :
    (sliceCountsTT T A rawT k).nrows = A.np ∧ (sliceCountsTT T A rawT k).ncols = A.n := by
  rcases hT with hT | ⟨hT, hmT, _⟩ <;> constructor <;>
  simp [sliceCountsTT, sliceCountsOf, Var.validAxesT, Var.dks, hT, *,
    MatCounts.factory, MatCounts.catXarr, sliceExpr, FT.take,
    FT.slice0, Var.validAxes, List.getD, FT.dim, Var.np]

end tcaT

theorem ca_mem_valid (A : Var) (hA : A.IsCA) (a : List Nat) (i j : Nat) (hi : i < A.n) :
    ((List.range A.np).any fun t => A.mem a (A.cellSub i t)) = caAnswer A a i j true := by
  simp only [Var.mem, hA.1, Var.cellSub, caAnswer, Var.isValidPos, Var.np, List.getElem?_range hi,
    Option.getD_some]
  cases h : a[i]? with
  | none => simp
  | some c =>
    have := any_range_getD_eq (validIdxs A.catMissing) c
    simpa using this

section tcaTs
variable (T A : Var) (hT : T.CM) (hA : A.IsCA) (s : Survey)
include hT hA

theorem specCount_cm_ca (k i j : Nat) (m0 m1 m2 : Bool) :
    specCount [T, A] s [k, i, j] [m0, m1, m2]
      = wsum s fun r => match r.ans with
          | [aT, aA] => T.specMem aT [k] [m0] && caAnswer A aA i j m2
          | _ => false := by
  unfold specCount
  apply wsum_congr
  intro r _
  exact specMemAll_cm_ca T A hT hA r.ans k i j m0 m1 m2

theorem rawTT_counts (k i j : Nat) (hk : k < T.ext) (hi : i < A.np) (hj : j < A.n) (m1 : Bool) :
    (cubeOf [T, A] s).get (T.msub k ++ A.cellSub j i)
      = .fin (specCount [T, A] s [k, j, i] [false, m1, false]) := by
  rw [cubeOf_get_pair T A s _ _ (T.msub_length k) (by simp [Var.cellSub, Var.rank, hA.1]),
    specCount_cm_ca T A hT hA]
  congr 1
  apply wsum_congr
  intro r _
  match r.ans with
  | [aT, aA] => simp only [ca_mem_cellSub A hA aA j i hj hi, hT.mem_member aT k hk]
  | [] => rfl
  | [_] => rfl
  | _ :: _ :: _ :: _ => rfl

theorem rawTT_columnBases (k i j : Nat) (hk : k < T.ext) (hj : j < A.n) (m1 : Bool) :
    vsum A.np (fun u => (cubeOf [T, A] s).get (T.msub k ++ A.cellSub j u))
      = .fin (specCount [T, A] s [k, j, i] [false, m1, true]) := by
  simp only [cubeOf_get_pair T A s _ _ (T.msub_length k)
    (show (A.cellSub j _).length = A.rank by simp [Var.cellSub, Var.rank, hA.1]),
    specCount_cm_ca T A hT hA]
  apply vsum_wsum
  · intro r _ t t' ht ht' h1 h2
    match hra : r.ans with
    | [aT, aA] =>
      rw [hra] at h1 h2
      simp only [Bool.and_eq_true] at h1 h2
      exact mr_mem_disj A hA.1 aA _ t t' ht ht' h1.2 h2.2
    | [] => simp [hra] at h1
    | [_] => simp [hra] at h1
    | _ :: _ :: _ :: _ => simp [hra] at h1
  · intro r _
    match r.ans with
    | [aT, aA] => simp only [any_and_left, ca_mem_valid A hA aA j i hj, hT.mem_member aT k hk]
    | [] => simp
    | [_] => simp
    | _ :: _ :: _ :: _ => simp

end tcaTs

end CrCube
