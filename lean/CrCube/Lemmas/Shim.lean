/-
  Helper lemmas for C19 / C18: list indices, the six rules of the cascade, the shim as a
  fixed point.
-/
import CrCube.Model.Shim
import CrCube.Spec.ShimSpec
import CrCube.Lemmas.PyInt

namespace CrCube.Shim
open CrCube.ShimSpec

/-! ### `idxOf` -/

theorem idxOf_some_get {α : Type} [DecidableEq α] {a : α} :
    ∀ {l : List α} {i : Nat}, idxOf a l = some i → l[i]? = some a
  | [], _, h => by simp [idxOf] at h
  | b :: l, i, h => by
    unfold idxOf at h
    by_cases hab : a = b
    · simp [hab] at h; subst h; simp [hab]
    · simp only [hab, if_false, Option.map_eq_some_iff] at h
      obtain ⟨j, hj, rfl⟩ := h
      simpa using idxOf_some_get hj

theorem idxOf_first {α : Type} [DecidableEq α] {a : α} :
    ∀ {l : List α} {i : Nat}, idxOf a l = some i → ∀ j, j < i → l[j]? ≠ some a
  | [], _, h => by simp [idxOf] at h
  | b :: l, i, h => by
    unfold idxOf at h
    by_cases hab : a = b
    · simp [hab] at h; subst h; intro j hj; omega
    · simp only [hab, if_false, Option.map_eq_some_iff] at h
      obtain ⟨i', hi', rfl⟩ := h
      intro j hj
      cases j with
      | zero => simp; exact fun h => hab h.symm
      | succ j => simpa using idxOf_first hi' j (by omega)

theorem idxOf_isSome_of_mem {α : Type} [DecidableEq α] {a : α} :
    ∀ {l : List α}, a ∈ l → ∃ i, idxOf a l = some i
  | [], h => by simp at h
  | b :: l, h => by
    unfold idxOf
    by_cases hab : a = b
    · exact ⟨0, by simp [hab]⟩
    · have : a ∈ l := by simpa [hab] using h
      obtain ⟨i, hi⟩ := idxOf_isSome_of_mem this
      exact ⟨i + 1, by simp [hab, hi]⟩

theorem idxOf_none_of_not_mem {α : Type} [DecidableEq α] {a : α} {l : List α} (h : a ∉ l) :
    idxOf a l = none := by
  cases hx : idxOf a l with
  | none => rfl
  | some i => exact absurd (List.mem_of_getElem? (idxOf_some_get hx)) h

theorem idxOf_lt {α : Type} [DecidableEq α] {a : α} {l : List α} {i : Nat}
    (h : idxOf a l = some i) : i < l.length := by
  have := idxOf_some_get h
  exact (List.getElem?_eq_some_iff.mp this).1

/-! ### items by index -/

theorem items_get {d : Dim} {i : Nat} (h : i < d.size) : d.items[i]? = some (item d i) := by
  unfold item Dim.size at *
  simp [List.getD, List.getElem?_eq_getElem h]

theorem aliases_get {d : Dim} {i : Nat} (h : i < d.size) : d.aliases[i]? = some (item d i).alias := by
  simp [Dim.aliases, items_get h]

theorem eids_get {d : Dim} {i : Nat} (h : i < d.size) : d.eids[i]? = some (item d i).eid := by
  simp [Dim.eids, items_get h]

theorem subvarIds_get {d : Dim} {i : Nat} (hns : d.noSubvarIds = false) (h : i < d.size) :
    d.subvarIds[i]? = some (item d i).subvarId := by
  simp [Dim.subvarIds, hns, items_get h]

theorem subvarIds_nil {d : Dim} (hns : d.noSubvarIds = true) : d.subvarIds = [] := by
  simp [Dim.subvarIds, hns]

theorem aliasAt_lt {d : Dim} {i : Nat} (h : i < d.size) : aliasAt d i = some (item d i).alias :=
  aliases_get h

theorem size_aliases (d : Dim) : d.aliases.length = d.size := by simp [Dim.aliases, Dim.size]
theorem size_eids (d : Dim) : d.eids.length = d.size := by simp [Dim.eids, Dim.size]
theorem size_subvarIds {d : Dim} (hns : d.noSubvarIds = false) : d.subvarIds.length = d.size := by
  simp [Dim.subvarIds, hns, Dim.size]

theorem mem_items_idx {d : Dim} {it : Item} (h : it ∈ d.items) : ∃ j, j < d.size ∧ item d j = it := by
  obtain ⟨j, hj, hget⟩ := List.getElem_of_mem h
  refine ⟨j, hj, ?_⟩
  have := items_get (d := d) hj
  rw [List.getElem?_eq_getElem hj] at this
  simpa [hget] using this.symm

/-- `byEid d n = some a`: `a` is the alias of the FIRST item whose element id is `n` -/
theorem byEid_some {d : Dim} {n : Int} {a : String} (h : byEid d n = some a) :
    ∃ j, j < d.size ∧ (item d j).eid = n ∧ (item d j).alias = a := by
  unfold byEid at h
  cases hi : idxOf n d.eids with
  | none => simp [hi] at h
  | some j =>
    have hj : j < d.size := by simpa [size_eids] using idxOf_lt hi
    have hg := idxOf_some_get hi
    rw [eids_get hj] at hg
    simp only [hi, Option.bind_some, aliasAt_lt hj] at h
    exact ⟨j, hj, by simpa using hg, by simpa using h⟩

theorem byEid_isSome_of_mem {d : Dim} {n : Int} (h : n ∈ d.eids) : ∃ a, byEid d n = some a := by
  obtain ⟨i, hi⟩ := idxOf_isSome_of_mem h
  have hj : i < d.size := by simpa [size_eids] using idxOf_lt hi
  exact ⟨(item d i).alias, by simp [byEid, hi, aliasAt_lt hj]⟩

theorem byEid_none_of_not_mem {d : Dim} {n : Int} (h : n ∉ d.eids) : byEid d n = none := by
  simp [byEid, idxOf_none_of_not_mem h]

theorem eid_mem {d : Dim} {j : Nat} (h : j < d.size) : (item d j).eid ∈ d.eids :=
  List.mem_of_getElem? (eids_get h)

theorem alias_mem {d : Dim} {j : Nat} (h : j < d.size) : (item d j).alias ∈ d.aliases :=
  List.mem_of_getElem? (aliases_get h)

theorem subvarId_mem {d : Dim} {j : Nat} (hns : d.noSubvarIds = false) (h : j < d.size) :
    (item d j).subvarId ∈ d.subvarIds :=
  List.mem_of_getElem? (subvarIds_get hns h)

theorem mem_aliases_idx {d : Dim} {s : String} (h : s ∈ d.aliases) :
    ∃ j, j < d.size ∧ (item d j).alias = s := by
  obtain ⟨j, hj, hget⟩ := List.getElem_of_mem h
  have hj' : j < d.size := by simpa [size_aliases] using hj
  refine ⟨j, hj', ?_⟩
  have := aliases_get hj'
  rw [List.getElem?_eq_getElem hj] at this
  simpa [hget] using this.symm

end CrCube.Shim

namespace CrCube.Shim
open CrCube.ShimSpec

/-! ### what a reference denotes -/

/-- item `j` is denoted by `r` (statement level) -/
def Den (d : Dim) (r : Ref) (j : Nat) : Prop := j < d.size ∧ denotesAt d r j = true

theorem denotesAt_iff {d : Dim} {r : Ref} {j : Nat} (hj : j < d.size) :
    denotesAt d r j = true ↔ (r ∈ spellings d (item d j) ∨ positionOf d r = some j) := by
  simp [denotesAt, items_get hj]

theorem mem_denotes {d : Dim} {r : Ref} {j : Nat} : j ∈ denotes d r ↔ Den d r j := by
  simp [denotes, Den, List.mem_filter]

theorem denotes_single {d : Dim} {r : Ref} {k : Nat} (h : denotes d r = [k]) :
    Den d r k ∧ ∀ j, Den d r j → j = k := by
  constructor
  · exact mem_denotes.mp (by simp [h])
  · intro j hj
    have := mem_denotes.mpr hj
    simpa [h] using this

theorem denotes_nil {d : Dim} {r : Ref} (h : denotes d r = []) : ∀ j, ¬ Den d r j := by
  intro j hj
  have := mem_denotes.mpr hj
  simp [h] at this

theorem eq_singleton_of_nodup {l : List Nat} {k : Nat} (hn : l.Nodup) (hm : ∀ x, x ∈ l ↔ x = k) :
    l = [k] := by
  match l, hn, hm with
  | [], _, hm => exact absurd ((hm k).mpr rfl) (by simp)
  | [a], _, hm => have := (hm a).mp (by simp); simp [this]
  | a :: b :: t, hn, hm =>
    have ha := (hm a).mp (by simp)
    have hb := (hm b).mp (by simp)
    simp [ha, hb] at hn

theorem denotes_eq_single {d : Dim} {r : Ref} {k : Nat} (hk : Den d r k)
    (hu : ∀ j, Den d r j → j = k) : denotes d r = [k] := by
  apply eq_singleton_of_nodup
  · exact (List.nodup_range).sublist List.filter_sublist
  · intro x
    rw [mem_denotes]
    exact ⟨hu x, fun h => h ▸ hk⟩

/-! ### the rules are sound w.r.t. `denotes` -/

theorem rule1_sound {d : Dim} {r : Ref} {a : String} (h : rule1 d r = some a) :
    ∃ j, Den d r j ∧ (item d j).alias = a := by
  cases r with
  | str s =>
    simp only [rule1] at h
    by_cases hs : s ∈ d.aliases
    · simp [hs] at h
      subst h
      obtain ⟨j, hj, hja⟩ := mem_aliases_idx hs
      exact ⟨j, ⟨hj, (denotesAt_iff hj).mpr (Or.inl (mem_spellings.mpr (Or.inl (by rw [hja]))))⟩, hja⟩
    · simp [hs] at h
  | int n => simp [rule1] at h
  | null => simp [rule1] at h

theorem rule1_str {d : Dim} {s : String} (hs : s ∈ d.aliases) : rule1 d (.str s) = some s := by
  simp [rule1, hs]

theorem rule2_sound {d : Dim} {r : Ref} {a : String} (h : rule2 d r = some a) :
    ∃ j, Den d r j ∧ (item d j).alias = a := by
  cases r with
  | int n =>
    obtain ⟨j, hj, he, ha⟩ := byEid_some (by simpa [rule2] using h)
    exact ⟨j, ⟨hj, (denotesAt_iff hj).mpr (Or.inl (mem_spellings.mpr (Or.inr (Or.inl (by rw [he])))))⟩, ha⟩
  | str s => simp [rule2] at h
  | null => simp [rule2] at h

theorem rule3_sound {d : Dim} {r : Ref} {a : String} (h : rule3 d r = some a) :
    ∃ j, Den d r j ∧ (item d j).alias = a := by
  cases r with
  | str s =>
    simp only [rule3] at h
    by_cases hm : d.mrIns = true
    · simp only [hm, if_true] at h
      cases hf : (d.items.filter (fun it => !it.anchor)).find? (fun it => decStr it.eid == s) with
      | none => simp [hf] at h
      | some it =>
        simp only [hf] at h
        have hp : (decStr it.eid == s) = true := by
          have := List.find?_some hf
          simpa using this
        obtain ⟨j, hj, he, ha⟩ := byEid_some h
        refine ⟨j, ⟨hj, (denotesAt_iff hj).mpr (Or.inl ?_)⟩, ha⟩
        have : decStr (item d j).eid = s := by rw [he]; simpa using hp
        exact mem_spellings.mpr (Or.inr (Or.inr (Or.inl (by rw [this]))))
    · simp [hm] at h
  | int n => simp [rule3] at h
  | null => simp [rule3] at h

theorem rule4_sound {d : Dim} {r : Ref} {a : String} (h : rule4 d r = some a) :
    ∃ j, Den d r j ∧ (item d j).alias = a := by
  cases r with
  | str s =>
    simp only [rule4] at h
    cases hns : d.noSubvarIds with
    | true => simp [subvarIds_nil hns, idxOf] at h
    | false =>
    cases hi : idxOf s d.subvarIds with
    | none => simp [hi] at h
    | some j =>
      have hj : j < d.size := by simpa [size_subvarIds hns] using idxOf_lt hi
      have hg := idxOf_some_get hi
      rw [subvarIds_get hns hj] at hg
      simp only [hi, Option.bind_some, aliasAt_lt hj] at h
      refine ⟨j, ⟨hj, (denotesAt_iff hj).mpr (Or.inl ?_)⟩, by simpa using h⟩
      have : (item d j).subvarId = s := by simpa using hg
      exact mem_spellings.mpr (Or.inr (Or.inr (Or.inr ⟨hns, by rw [this]⟩)))
  | int n => simp [rule4] at h
  | null => simp [rule4] at h

theorem rule4_str {d : Dim} {s : String} (hs : s ∈ d.subvarIds) : ∃ a, rule4 d (.str s) = some a := by
  obtain ⟨i, hi⟩ := idxOf_isSome_of_mem hs
  have hns : d.noSubvarIds = false := by
    cases h : d.noSubvarIds with
    | false => rfl
    | true => simp [subvarIds_nil h] at hs
  have hj : i < d.size := by simpa [size_subvarIds hns] using idxOf_lt hi
  exact ⟨(item d i).alias, by simp [rule4, hi, aliasAt_lt hj]⟩

/-! ### numbers -/

theorem asInt_of_canon {r : Ref} {n : Int} (h : canonNumber r = some n) : asInt r = some n := by
  cases r with
  | int m => simpa [canonNumber, asInt] using h
  | str s =>
    simp only [canonNumber] at h
    cases hp : pyInt s with
    | none => simp [hp] at h
    | some m =>
      simp only [hp] at h
      by_cases hd : decStr m = s
      · simp [hd] at h; simp [asInt, hp, h]
      · simp [hd] at h
  | null => simp [canonNumber] at h

theorem canon_spelling {r : Ref} {n : Int} (h : canonNumber r = some n) :
    r = .int n ∨ r = .str (decStr n) := by
  cases r with
  | int m => left; simpa [canonNumber] using h
  | str s =>
    right
    simp only [canonNumber] at h
    cases hp : pyInt s with
    | none => simp [hp] at h
    | some m =>
      simp only [hp] at h
      by_cases hd : decStr m = s
      · simp [hd] at h; subst h; simp [hd]
      · simp [hd] at h
  | null => simp [canonNumber] at h

theorem canon_decStr (n : Int) : canonNumber (.str (decStr n)) = some n := by
  simp [canonNumber, pyInt_decStr]

theorem canon_of_asInt {r : Ref} {n : Int} (h : asInt r = some n) (hc : nonCanonicalNumber r = false) :
    canonNumber r = some n := by
  cases r with
  | int m => simpa [canonNumber, asInt] using h
  | str s =>
    simp only [asInt] at h
    simp only [nonCanonicalNumber, h, Option.isSome_some, Bool.true_and] at hc
    simp only [canonNumber, h] at hc ⊢
    by_cases hd : decStr n = s
    · simp [hd]
    · simp [hd] at hc
  | null => simp [asInt] at h

theorem positionOf_some {d : Dim} {r : Ref} {k : Nat} (h : positionOf d r = some k) :
    ∃ n : Int, canonNumber r = some n ∧ n ∉ d.eids ∧ 0 ≤ n ∧ n < (d.size : Int) ∧ n.toNat = k := by
  unfold positionOf at h
  cases hc : canonNumber r with
  | none => simp [hc] at h
  | some n =>
    simp only [hc] at h
    by_cases hh : n ∉ d.eids ∧ 0 ≤ n ∧ n < (d.size : Int)
    · rw [if_pos hh] at h
      exact ⟨n, rfl, hh.1, hh.2.1, hh.2.2, by simpa using h⟩
    · simp [hh] at h

theorem positionOf_of {d : Dim} {r : Ref} {n : Int} (hc : canonNumber r = some n) (he : n ∉ d.eids)
    (h0 : 0 ≤ n) (hlt : n < (d.size : Int)) : positionOf d r = some n.toNat := by
  simp [positionOf, hc, he, h0, hlt]

theorem rule5_sound {d : Dim} {r : Ref} {a : String} (h : rule5 d r = some a)
    (hc : nonCanonicalNumber r = false) : ∃ j, Den d r j ∧ (item d j).alias = a := by
  unfold rule5 at h
  cases hn : asInt r with
  | none => simp [hn] at h
  | some n =>
    simp only [hn, Option.bind_some] at h
    obtain ⟨j, hj, he, ha⟩ := byEid_some h
    refine ⟨j, ⟨hj, (denotesAt_iff hj).mpr (Or.inl ?_)⟩, ha⟩
    rcases canon_spelling (canon_of_asInt hn hc) with hr | hr
    · exact mem_spellings.mpr (Or.inr (Or.inl (by rw [hr, he])))
    · exact mem_spellings.mpr (Or.inr (Or.inr (Or.inl (by rw [hr, he]))))

theorem rule6_some {d : Dim} {r : Ref} {a : String} (h : rule6 d r = some a) :
    ∃ n : Int, asInt r = some n ∧ 0 ≤ n ∧ n < (d.size : Int) ∧ (item d n.toNat).alias = a := by
  unfold rule6 at h
  cases hn : asInt r with
  | none => simp [hn] at h
  | some n =>
    simp only [hn, Option.bind_some] at h
    by_cases hh : 0 ≤ n ∧ n < (d.size : Int)
    · simp only [hh, and_self, if_true] at h
      have hlt : n.toNat < d.size := by omega
      rw [aliasAt_lt hlt] at h
      exact ⟨n, rfl, hh.1, hh.2, by simpa using h⟩
    · simp [hh] at h

theorem translate_unfold (d : Dim) (r : Ref) :
    translate d r = (rule1 d r).or ((rule2 d r).or ((rule3 d r).or ((rule4 d r).or ((rule5 d r).or (rule6 d r))))) := rfl

/-- every result of the cascade is the alias of a denoted item, for references whose numeric
    reading (if any) is canonical -/
theorem translate_sound {d : Dim} {r : Ref} {a : String} (h : translate d r = some a)
    (hc : nonCanonicalNumber r = false) : ∃ j, Den d r j ∧ (item d j).alias = a := by
  rw [translate_unfold] at h
  cases h1 : rule1 d r with
  | some x => simp [h1] at h; subst h; exact rule1_sound h1
  | none =>
  cases h2 : rule2 d r with
  | some x => simp [h1, h2] at h; subst h; exact rule2_sound h2
  | none =>
  cases h3 : rule3 d r with
  | some x => simp [h1, h2, h3] at h; subst h; exact rule3_sound h3
  | none =>
  cases h4 : rule4 d r with
  | some x => simp [h1, h2, h3, h4] at h; subst h; exact rule4_sound h4
  | none =>
  cases h5 : rule5 d r with
  | some x => simp [h1, h2, h3, h4, h5] at h; subst h; exact rule5_sound h5 hc
  | none =>
    simp [h1, h2, h3, h4, h5] at h
    obtain ⟨n, hn, h0, hlt, ha⟩ := rule6_some h
    have hne : n ∉ d.eids := by
      intro hmem
      obtain ⟨b, hb⟩ := byEid_isSome_of_mem hmem
      simp [rule5, hn, hb] at h5
    have hj : n.toNat < d.size := by omega
    exact ⟨n.toNat, ⟨hj, (denotesAt_iff hj).mpr (Or.inr (positionOf_of (canon_of_asInt hn hc) hne h0 hlt))⟩, ha⟩

/-- every result of the cascade is one of the dimension's aliases -/
theorem translate_mem {d : Dim} {r : Ref} {a : String} (h : translate d r = some a) : a ∈ d.aliases := by
  rw [translate_unfold] at h
  have key : ∀ j, j < d.size → (item d j).alias = a → a ∈ d.aliases := fun j hj ha => ha ▸ alias_mem hj
  cases h1 : rule1 d r with
  | some x => simp [h1] at h; subst h; obtain ⟨j, hj, ha⟩ := rule1_sound h1; exact key j hj.1 ha
  | none =>
  cases h2 : rule2 d r with
  | some x => simp [h1, h2] at h; subst h; obtain ⟨j, hj, ha⟩ := rule2_sound h2; exact key j hj.1 ha
  | none =>
  cases h3 : rule3 d r with
  | some x => simp [h1, h2, h3] at h; subst h; obtain ⟨j, hj, ha⟩ := rule3_sound h3; exact key j hj.1 ha
  | none =>
  cases h4 : rule4 d r with
  | some x => simp [h1, h2, h3, h4] at h; subst h; obtain ⟨j, hj, ha⟩ := rule4_sound h4; exact key j hj.1 ha
  | none =>
  cases h5 : rule5 d r with
  | some x =>
    simp [h1, h2, h3, h4, h5] at h; subst h
    unfold rule5 at h5
    cases hn : asInt r with
    | none => simp [hn] at h5
    | some n =>
      simp only [hn, Option.bind_some] at h5
      obtain ⟨j, hj, _, ha⟩ := byEid_some h5
      exact key j hj ha
  | none =>
    simp [h1, h2, h3, h4, h5] at h
    obtain ⟨n, _, h0, hlt, ha⟩ := rule6_some h
    exact key n.toNat (by omega) ha

end CrCube.Shim
