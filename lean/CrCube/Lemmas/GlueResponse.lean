/-
  The rendered RESPONSE: envelope removal, the dimension dicts `Cube._all_dimensions` sees,
  dimension types, valid idxs, ndim, slice count on it.
-/
import CrCube.Lemmas.GlueRoundTrip

set_option linter.unusedSimpArgs false

namespace CrCube.Glue
open CrCube

section resp
variable (vars : List RVar) (re te : List (String × J))

theorem cubeResponse_dict (loads : String → R J) (hte : te.lookup "value" = none) :
    cubeResponse loads (renderResponse vars re te) = .ok (renderResponse vars re te) := by
  simp [cubeResponse, renderResponse, get, List.lookup, hte]

theorem cubeResponse_text (loads : String → R J) (s : String)
    (hs : loads s = .ok (renderResponse vars re te)) (hte : te.lookup "value" = none) :
    cubeResponse loads (.str s) = .ok (renderResponse vars re te) := by
  simp [cubeResponse, hs, renderResponse, get, List.lookup, hte]

theorem cubeResponse_envelope (loads : String → R J) (r : J) (extra : List (String × J)) :
    cubeResponse loads (.obj (("value", r) :: extra)) = .ok r := by
  simp [cubeResponse, get, List.lookup]

theorem item_result : item (renderResponse vars re te) "result"
    = .ok (.obj (("dimensions", .arr (renderDims vars)) :: re)) := by
  simp [renderResponse, item, List.lookup]

theorem allDimensionDicts_render (ord : List String)
    (hna : numericArrayDimension ord (renderResponse vars re te) = .ok none) :
    allDimensionDicts ord (renderResponse vars re te) = .ok (renderDims vars) := by
  unfold allDimensionDicts
  rw [hna, item_result]
  simp [item, List.lookup, iter]

end resp

/-- a response whose measures are all known and none numeric (plain counts cubes) has no
    numeric-array dimension -/
theorem numericArrayDimension_counts_only (ord : List String) (resp : J) (result : J)
    (ms : List (String × J)) (h1 : get resp "result" J.empty = .ok result)
    (h2 : get result "measures" J.empty = .ok (.obj ms))
    (hk : ms.all (fun p => knownMeasures.contains p.1) = true)
    (hn : ∀ m ∈ numericMeasures, ms.lookup m = none) :
    numericArrayDimension ord resp = .ok none := by
  have hav : availableNumeric ord resp = .ok [] := by
    simp only [availableNumeric, measuresOf, h1, h2, R_bind_ok, hk, if_true, R_pure]
    congr 1
    rw [List.filter_eq_nil_iff]
    intro m hm
    have := (List.mem_filter.mp hm).2
    simp only [List.contains_iff_mem] at this
    simp [hn m this]
  simp [numericArrayDimension, numericSubvariables, numericMetadata, hav, J.truthy]

/-! ### dimension-level consequences of `fromDicts_render` -/

theorem allDimensions_render (vars : List RVar) (re te : List (String × J)) (ord : List String)
    (h : wfDesignB vars = true)
    (hna : numericArrayDimension ord (renderResponse vars re te) = .ok none) :
    allDimensions ord (renderResponse vars re te) = .ok (vars.flatMap RVar.finalDims) := by
  simp [allDimensions, allDimensionDicts_render vars re te ord hna, fromDicts_render vars h]

theorem finalDims_types (v : RVar) : v.finalDims.map (·.dt) = v.types := by
  unfold RVar.finalDims RVar.dims RVar.types
  cases v.kind <;> simp
  cases v.transposed <;> simp

theorem flatMap_finalDims_types (vars : List RVar) :
    (vars.flatMap RVar.finalDims).map (·.dt) = vars.flatMap RVar.types := by
  rw [List.map_flatMap]
  exact flatMap_congr' (fun v _ => finalDims_types v)

theorem typedOf_fst {x : Dim} {p : DT × List Bool} (h : typedOf x = .ok p) :
    p.1 = x.dt ∧ missingFlags x = .ok p.2 := by
  unfold typedOf at h
  cases hm : missingFlags x with
  | error e => simp [hm] at h
  | ok m =>
    simp only [hm, R_bind_ok, R_pure] at h
    cases h
    exact ⟨rfl, rfl⟩

theorem decodeDims_render (vars : List RVar) (h : wfDesignB vars = true) :
    decodeDims (renderDims vars) = .ok (designOf vars) := by
  obtain ⟨hw, _⟩ := wfDesign_unpack h
  have h3 : mapR typedOf (vars.flatMap RVar.finalDims) = .ok (vars.flatMap RVar.typed) :=
    mapR_flatMap_ok (fun v hv => typed_var v (hw v hv))
  simp [decodeDims, fromDicts_render vars h, h3, groupVars_typed]


/-- number of valid elements of the first dimension (`len(self.dimensions[0].valid_elements)`) -/
def headValidCount (dims : List Dim) : R Nat :=
  match dims with
  | [] => .error .indexError
  | d0 :: _ => d0.validIdxs.map List.length

theorem shape_of_missingFlags {x : Dim} {m : List Bool} (h : missingFlags x = .ok m) :
    x.shape = .ok m.length ∧ x.validIdxs = .ok (validIdxs m) := by
  unfold missingFlags at h
  cases he : allElements x with
  | error e => simp [he] at h
  | ok els =>
    simp only [he, R_bind_ok] at h
    refine ⟨?_, ?_⟩
    · simp [Dim.shape, he, mapR_length h]
    · simp [Dim.validIdxs, missingFlags, he, h]

theorem axes_of_typed {xs : List Dim} {ts : List (DT × List Bool)} (h : mapR typedOf xs = .ok ts) :
    mapR Dim.validIdxs xs = .ok (ts.map (fun p => validIdxs p.2)) ∧
    mapR Dim.shape xs = .ok (ts.map (fun p => p.2.length)) := by
  induction xs generalizing ts with
  | nil => simp only [mapR] at h; cases h; exact ⟨rfl, rfl⟩
  | cons x xs ih =>
    simp only [mapR] at h
    cases hx : typedOf x with
    | error e => simp [hx] at h
    | ok p =>
      cases hxs : mapR typedOf xs with
      | error e => simp [hx, hxs] at h
      | ok ps =>
        simp only [hx, hxs, R_bind_ok, R_pure] at h
        cases h
        obtain ⟨_, hm⟩ := typedOf_fst hx
        obtain ⟨hs, hv⟩ := shape_of_missingFlags hm
        obtain ⟨ih1, ih2⟩ := ih hxs
        exact ⟨by simp [mapR, hv, ih1], by simp [mapR, hs, ih2]⟩

theorem typed_all (vars : List RVar) (h : wfDesignB vars = true) :
    mapR typedOf (vars.flatMap RVar.finalDims) = .ok (vars.flatMap RVar.typed) :=
  mapR_flatMap_ok (fun v hv => typed_var v ((wfDesign_unpack h).1 v hv))

end CrCube.Glue
