/-
  Helper lemmas for C17: the fraction cascade on well-formed responses.
-/
import CrCube.Model.Population
import CrCube.Spec.PopulationSpec

namespace CrCube.Population
open CrCube CrCube.PopulationSpec

theorem pyGet_obj (kvs : List (String × J)) (k : String) (d : J) :
    (J.obj kvs).pyGet k d = .ok ((kvs.lookup k).getD d) := rfl

/-- `.get(k, {})` then `.get(k', d)` on an absent-or-object field never raises -/
theorem pyGet_objOrAbsent (o : Option J) (h : objOrAbsent o = true) (k : String) (d : J) :
    (o.getD J.empty).pyGet k d = .ok ((field? o k).getD d) := by
  cases o with
  | none => rfl
  | some j => cases j <;> simp [objOrAbsent] at h <;> rfl

/-- the guarded division on two leaves that are absent, null or numbers -/
theorem tryDiv_leaf (x y : Option J) (hx : leafOk x = true) (hy : leafOk y = true) :
    J.tryDiv (x.getD .null) (y.getD .null) =
      ratioOf (num? x) (num? y) := by
  cases x with
  | none => cases y with
    | none => rfl
    | some b => cases b <;> simp [leafOk] at hy <;> rfl
  | some a =>
    cases a <;> simp [leafOk] at hx <;> cases y with
    | none => rfl
    | some b => cases b <;> simp [leafOk] at hy <;> rfl

/-- old-style branch on a well-formed result -/
theorem oldStyle_wf (kvs : List (String × J))
    (h1 : objOrAbsent (kvs.lookup "filtered") = true)
    (h2 : leafOk (field? (kvs.lookup "filtered") "weighted_n") = true)
    (h3 : objOrAbsent (kvs.lookup "unfiltered") = true)
    (h4 : leafOk (field? (kvs.lookup "unfiltered") "weighted_n") = true) :
    oldStyle (.obj kvs) = .ok
      (ratioOf (num? (field? (kvs.lookup "filtered") "weighted_n"))
               (num? (field? (kvs.lookup "unfiltered") "weighted_n"))) := by
  unfold oldStyle
  rw [pyGet_obj, pyGet_obj]
  simp only [bind, Except.bind, pure, Except.pure]
  rw [pyGet_objOrAbsent _ h1, pyGet_objOrAbsent _ h3]
  simp only []
  rw [tryDiv_leaf _ _ h2 h4]

/-- new-style branch: truthy `weighted` object with numeric `selected` and `other` -/
theorem newStyle_wf (fkvs wkvs : List (String × J)) (sel oth : Rat)
    (hc : catDateOk (fkvs.lookup "is_cat_date") = true)
    (hs : wkvs.lookup "selected" = some (.num sel)) (ho : wkvs.lookup "other" = some (.num oth)) :
    newStyle (.obj fkvs) (.obj wkvs) = .ok
      (if flagOf (fkvs.lookup "is_cat_date") = true
       then Val.fin 1
       else if sel + oth = 0 then Val.nan else Val.fin (sel / (sel + oth))) := by
  unfold newStyle
  rw [pyGet_obj]
  simp only [bind, Except.bind, pure, Except.pure, J.pyItem, hs, ho]
  cases hi : fkvs.lookup "is_cat_date" with
  | none => simp [J.truthy, J.pyAdd, J.asNum?, J.tryDiv, flagOf]
  | some c =>
    rw [hi] at hc
    cases c <;> simp [catDateOk] at hc
    · simp [J.truthy, J.pyAdd, J.asNum?, J.tryDiv, flagOf]
    · rename_i b
      cases b <;> simp [J.truthy, J.pyAdd, J.asNum?, J.tryDiv, flagOf]

/-- what `weightedOk` says about a truthy `weighted` -/
theorem weightedOk_truthy (w : J) (hw : weightedOk (some w) = true) (ht : w.truthy = true) :
    ∃ wkvs sel oth, w = .obj wkvs ∧ wkvs.lookup "selected" = some (.num sel) ∧
      wkvs.lookup "other" = some (.num oth) := by
  cases w with
  | null => simp [J.truthy] at ht
  | bool b => simp [weightedOk] at hw
  | num q => simp [weightedOk] at hw
  | str s => simp [weightedOk] at hw
  | arr l => simp [weightedOk] at hw
  | obj wkvs =>
    cases wkvs with
    | nil => simp [J.truthy] at ht
    | cons kv rest =>
      simp only [weightedOk, Bool.and_eq_true] at hw
      obtain ⟨h1, h2⟩ := hw
      cases hs : List.lookup "selected" (kv :: rest) with
      | none => simp [hs] at h1
      | some x =>
        cases ho : List.lookup "other" (kv :: rest) with
        | none => simp [ho] at h2
        | some y =>
          cases x <;> simp [hs] at h1
          cases y <;> simp [ho] at h2
          exact ⟨_, _, _, rfl, hs, ho⟩

/-- what `weightedOk` says about a falsy `weighted`: the spec reads no complete-case statistics -/
theorem weightedOk_falsy (w : Option J) (hw : weightedOk w = true) (ht : (w.getD .null).truthy = false) :
    completeOf w = none := by
  cases w with
  | none => rfl
  | some j =>
    cases j with
    | null => rfl
    | bool b => simp [weightedOk] at hw
    | num q => simp [weightedOk] at hw
    | str s => simp [weightedOk] at hw
    | arr l => simp [weightedOk] at hw
    | obj wkvs =>
      cases wkvs with
      | nil => rfl
      | cons kv rest => simp [J.truthy] at ht

end CrCube.Population
