/-
  Respondent-level meaning of valid counts: the presence variable `numVar n` behaves like a
  multiple-response variable whose "selected" category is "has a value".
-/
import CrCube.Lemmas.NumericFlat
import CrCube.Lemmas.Slice2D

set_option linter.unusedSimpArgs false
set_option linter.unusedSectionVars false

namespace CrCube

theorem numVar_CM (n : Nat) : (numVar n).CM :=
  Or.inr ⟨rfl, rfl, by show 0 < (validIdxs [false, true]).length; decide⟩

theorem numVar_ext (n : Nat) : (numVar n).ext = n := rfl

theorem numVar_msub (n i : Nat) (hi : i < n) : (numVar n).msub i = [i, 0] := by
  have h0 : (validIdxs [false, true])[0]?.getD 0 = 0 := by decide
  simp [Var.msub, numVar, range_getD_lt n i hi, h0]

/-- "eligible on the item" and "has a value on the item" coincide: the only valid category of
    the presence variable is "has a value" -/
theorem numVar_specMem_valid_eq_member (n : Nat) (a : List Nat) (i : Nat) :
    (numVar n).specMem a [i] [true] = (numVar n).specMem a [i] [false] := by
  simp only [Var.specMem, numVar, Var.isValidPos, Var.vpos, if_true]
  cases a[i]? with
  | none => rfl
  | some c =>
    have hv : validIdxs [false, true] = [0] := by decide
    simp [hv]
    by_cases h : c = 0
    · subst h; rfl
    · have h' : ¬ (0 = c) := fun e => h e.symm
      simp [h, h']

theorem numSpecCount_eq (vars : List Var) (n : Nat) (s : Survey) (ge : List Nat) (gv : List Bool)
    (i : Nat) :
    numSpecCount vars n s ge gv i = specCount (vars ++ [numVar n]) s (ge ++ [i]) (gv ++ [false]) := rfl

section two
variable (C : Var) (hC : C.CM) (n : Nat) (s : Survey)
include hC

theorem validCounts2d_cell (i j : Nat) (hi : i < n) (hj : j < C.ext) :
    (validCountsOf [C] n s).get (C.msub j ++ [i])
      = .fin (numSpecCount [C] n s [j] [false] i) := by
  have := raw_counts C (numVar n) hC (numVar_CM n) s j i hj (by rw [numVar_ext]; exact hi)
  rw [numVar_msub n i hi] at this
  simp only [validCountsOf, List.append_assoc, List.cons_append, List.nil_append]
  exact this

theorem validCounts2d_rowBase (i j : Nat) (hi : i < n) (hj : j < C.ext) :
    vsum C.np (fun t => (validCountsOf [C] n s).get (C.sub j t ++ [i]))
      = .fin (numSpecCount [C] n s [j] [true] i) := by
  have := raw_colBases C (numVar n) hC (numVar_CM n) s j i hj (by rw [numVar_ext]; exact hi)
  rw [numVar_msub n i hi] at this
  simp only [validCountsOf, List.append_assoc, List.cons_append, List.nil_append]
  exact this

end two

theorem validCounts1d_cell (n : Nat) (s : Survey) (i : Nat) (hi : i < n) :
    (validCountsOf [] n s).get [i] = .fin (numSpecCount [] n s [] [] i) := by
  have h1 := strand_counts_raw (numVar n) (numVar_CM n) (cubeOf [numVar n] s) i
  have h2 := strand_counts_spec (numVar n) (numVar_CM n) s i (by rw [numVar_ext]; exact hi)
  rw [h1, numVar_msub n i hi] at h2
  simp only [validCountsOf, List.nil_append, List.cons_append]
  exact h2

/-- the (categorical / MR) 3-D count extractor reads the raw cell of the three sub-indices -/
theorem slice3d_counts_raw (T R C : Var) (hT : T.CM) (hR : R.CM) (hC : C.CM) (raw : FT)
    (k i j : Nat) :
    (sliceCounts [T, R, C] raw k).counts i j = raw.get (T.msub k ++ R.msub i ++ C.msub j) := by
  rcases hT with hT | ⟨hT, hmT, _⟩ <;> rcases hR with hR | ⟨hR, hmR, _⟩ <;>
    rcases hC with hC | ⟨hC, hmC, _⟩ <;>
  simp [sliceCounts, apparentKinds, Var.dks, hT, hR, hC, *, MatCounts.factory, MatCounts.catXcat,
    MatCounts.catXmr, MatCounts.mrXcat, MatCounts.mrXmr, sliceExpr, FT.slice0, validCube, FT.take,
    Var.validAxes, List.getD, FT.dim, Var.msub]

theorem slice3d_columnBases_raw (T R C : Var) (hT : T.CM) (hR : R.CM) (hC : C.CM) (raw : FT)
    (k i j : Nat) :
    (sliceCounts [T, R, C] raw k).columnBases i j
      = vsum R.np (fun t => raw.get (T.msub k ++ R.sub i t ++ C.msub j)) := by
  rcases hT with hT | ⟨hT, hmT, _⟩ <;> rcases hR with hR | ⟨hR, hmR, _⟩ <;>
    rcases hC with hC | ⟨hC, hmC, _⟩ <;>
  simp [sliceCounts, apparentKinds, Var.dks, hT, hR, hC, *, MatCounts.factory, MatCounts.catXcat,
    MatCounts.catXmr, MatCounts.mrXcat, MatCounts.mrXmr, sliceExpr, FT.slice0, validCube, FT.take,
    Var.validAxes, List.getD, FT.dim, Var.msub, Var.sub, Var.np]

/-- numeric measure over two variables: the row bases built on any raw array add over the valid
    categories (planes) of the column variable -/
theorem numeric2d_rowBases (R C : Var) (hR : R.CM) (hC : C.CM) (raw : FT) (i j : Nat) :
    ((NDesign.mk [R, C] none).sliceCounts raw 0).rowBases i j
      = vsum C.np (fun u => raw.get (R.msub i ++ C.sub j u)) := by
  rcases hR with hR | ⟨hR, hmR, _⟩ <;> rcases hC with hC | ⟨hC, hmC, _⟩ <;>
  simp [NDesign.sliceCounts, NDesign.sliceArr, NDesign.view, NDesign.order, NDesign.sizes,
    NDesign.valid, NDesign.kinds, NDesign.rk, NDesign.ck, NDesign.ndim, NDesign.hasNumArr,
    dimOrder_false, range_two, range_three, range_four, permTake, MatCounts.factory,
    MatCounts.catXcat, MatCounts.catXmr, MatCounts.mrXcat, MatCounts.mrXmr, sliceExpr, FT.dim,
    apparentKinds, Var.dks, Var.validAxes, rawShapeOf, Var.rawShape, Var.msub, Var.sub, Var.np,
    hR, hC, *, List.getD]

end CrCube
