/-
  Pruning bases of the CAT/MR pairings, at respondent level.
-/
import CrCube.Lemmas.SpecFacts

set_option linter.unusedSimpArgs false
set_option linter.unusedSectionVars false

namespace CrCube

def Var.isMRv (v : Var) : Bool := v.kind == .arr

section
variable (R C : Var) (hR : R.CM) (hC : C.CM) (raw : FT)
include hR hC

/-- what `_rows_pruning_base` reads from the raw array -/
theorem slice2d_rowsPruningBase (i : Nat) :
    (sliceCounts [R, C] raw 0).rowsPruningBase i =
      if R.kind = .arr ∧ C.kind = .cat then
        vsum R.np (fun t => vsum C.np (fun u => raw.get (R.sub i t ++ C.sub 0 u)))
      else
        vsum C.ext (fun j => vsum C.np (fun u => raw.get (R.msub i ++ C.sub j u))) := by
  rcases hR with hR | ⟨hR, hmR, _⟩ <;> rcases hC with hC | ⟨hC, hmC, _⟩ <;>
  simp [sliceCounts, apparentKinds, Var.dks, hR, hC, *, MatCounts.factory, MatCounts.catXcat,
    MatCounts.catXmr, MatCounts.mrXcat, MatCounts.mrXmr, sliceExpr, validCube, FT.take,
    Var.validAxes, List.getD, FT.dim, Var.sub, Var.msub, Var.np, Var.ext,
    MatCounts.defRowsPruning]

theorem slice2d_columnsPruningBase (j : Nat) :
    (sliceCounts [R, C] raw 0).columnsPruningBase j =
      if C.kind = .arr ∧ R.kind = .cat then
        vsum R.np (fun t => vsum C.np (fun u => raw.get (R.sub 0 t ++ C.sub j u)))
      else
        vsum R.ext (fun i => vsum R.np (fun t => raw.get (R.sub i t ++ C.msub j))) := by
  rcases hR with hR | ⟨hR, hmR, _⟩ <;> rcases hC with hC | ⟨hC, hmC, _⟩ <;>
  simp [sliceCounts, apparentKinds, Var.dks, hR, hC, *, MatCounts.factory, MatCounts.catXcat,
    MatCounts.catXmr, MatCounts.mrXcat, MatCounts.mrXmr, sliceExpr, validCube, FT.take,
    Var.validAxes, List.getD, FT.dim, Var.sub, Var.msub, Var.np, Var.ext,
    MatCounts.defColsPruning]

end

theorem list_sum_nonneg (l : List Rat) (h : ∀ x ∈ l, 0 ≤ x) : 0 ≤ l.sum := by
  induction l with
  | nil => simp
  | cons x l ih =>
    simp only [List.sum_cons]
    have := h x (by simp)
    have := ih (fun y hy => h y (by simp [hy]))
    linarith

theorem list_sum_pos (l : List Rat) (h : ∀ x ∈ l, 0 ≤ x) (y : Rat) (hy : y ∈ l) (hpos : 0 < y) :
    0 < l.sum := by
  induction l with
  | nil => simp at hy
  | cons x l ih =>
    simp only [List.sum_cons]
    have hx := h x (by simp)
    have hl := list_sum_nonneg l (fun z hz => h z (by simp [hz]))
    rcases List.mem_cons.mp hy with rfl | hy'
    · linarith
    · have := ih (fun z hz => h z (by simp [hz])) hy'
      linarith

theorem list_sum_zero (l : List Rat) (h : ∀ x ∈ l, x = 0) : l.sum = 0 := by
  induction l with
  | nil => simp
  | cons x l ih =>
    simp only [List.sum_cons, h x (by simp), ih (fun y hy => h y (by simp [hy]))]; ring

end CrCube
