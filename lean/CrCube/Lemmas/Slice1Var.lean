/-
  Cubes over ONE variable: 1-D strands (categorical / multiple response) and the 2-D slice of a
  single categorical-array variable (items × categories).
-/
import CrCube.Lemmas.SpecFacts

set_option linter.unusedSimpArgs false
set_option linter.unusedSectionVars false

namespace CrCube

theorem memCell_one (V : Var) (a : List (List Nat)) (x : List Nat) (hx : x.length = V.rank) :
    memCell [V] a x = match a with | [aV] => V.mem aV x | _ => false := by
  match a with
  | [] => simp [memCell]
  | [aV] =>
    have h := memCell_cons V [] [aV] x [] hx
    simp only [List.append_nil] at h
    rw [h]
    simp [memCell]
  | _ :: _ :: _ =>
    have h := memCell_cons V [] a x [] hx
    simp only [List.append_nil] at h
    rename_i a0 a1 as
    have h' := memCell_cons V [] (a0 :: a1 :: as) x [] hx
    simp only [List.append_nil] at h'
    rw [h']
    simp [memCell]

theorem specMemAll_one (V : Var) (a : List (List Nat)) (e : List Nat) (m : List Bool)
    (he : e.length = V.nApparent) (hm : m.length = V.nApparent) :
    specMemAll [V] a e m = match a with | [aV] => V.specMem aV e m | _ => false := by
  match a with
  | [] => simp [specMemAll]
  | [aV] =>
    simp only [specMemAll, ← he, List.take_length, List.drop_length]
    rw [show m.take e.length = m by rw [he, ← hm]; exact List.take_length]
    rw [show m.drop e.length = [] by rw [he, ← hm]; exact List.drop_length]
    simp [specMemAll]
  | _ :: _ :: _ =>
    simp [specMemAll]

theorem cubeOf_get_one (V : Var) (s : Survey) (x : List Nat) (hx : x.length = V.rank) :
    (cubeOf [V] s).get x = .fin (wsum s fun r => match r.ans with | [aV] => V.mem aV x | _ => false) := by
  simp only [cubeOf]
  congr 1
  apply wsum_congr
  intro r _
  exact memCell_one V r.ans x hx

/-! ### 1-D strands -/

section strand
variable (V : Var) (hV : V.CM) (s : Survey)
include hV

theorem strand_counts_raw (raw : FT) (i : Nat) :
    (strandCounts [V] raw).counts i = raw.get (V.msub i) := by
  rcases hV with h | ⟨h, hm, _⟩ <;>
  simp [strandCounts, apparentKinds, Var.dks, h, *, StripeCounts.cat, StripeCounts.mr, validCube,
    FT.take, Var.validAxes, List.getD, FT.dim, Var.msub]

theorem strand_bases_raw (raw : FT) (i : Nat) :
    (strandCounts [V] raw).bases i = vsum V.np (fun t => raw.get (V.sub i t)) := by
  rcases hV with h | ⟨h, hm, _⟩ <;>
  simp [strandCounts, apparentKinds, Var.dks, h, *, StripeCounts.cat, StripeCounts.mr, validCube,
    FT.take, Var.validAxes, List.getD, FT.dim, Var.sub, Var.np]

theorem strand_n (raw : FT) : (strandCounts [V] raw).n = V.ext := by
  rcases hV with h | ⟨h, hm, _⟩ <;>
  simp [strandCounts, apparentKinds, Var.dks, h, *, StripeCounts.cat, StripeCounts.mr, validCube,
    FT.take, Var.validAxes, List.getD, FT.dim, Var.ext]

theorem specCount_one (i : Nat) (m : Bool) :
    specCount [V] s [i] [m] = wsum s fun r => match r.ans with | [aV] => V.specMem aV [i] [m] | _ => false := by
  unfold specCount
  apply wsum_congr
  intro r _
  exact specMemAll_one V r.ans [i] [m] (by simp [hV.nApparent]) (by simp [hV.nApparent])

theorem strand_counts_spec (i : Nat) (hi : i < V.ext) :
    (strandCounts [V] (cubeOf [V] s)).counts i = .fin (specCount [V] s [i] [false]) := by
  rw [strand_counts_raw V hV, cubeOf_get_one V s _ (V.msub_length i), specCount_one V hV]
  congr 1
  apply wsum_congr
  intro r _
  match r.ans with
  | [aV] => simp only [hV.mem_member aV i hi]
  | [] => rfl
  | _ :: _ :: _ => rfl

theorem strand_bases_spec (i : Nat) (hi : i < V.ext) :
    (strandCounts [V] (cubeOf [V] s)).bases i = .fin (specCount [V] s [i] [true]) := by
  rw [strand_bases_raw V hV]
  simp only [cubeOf_get_one V s _ (V.sub_length i _), specCount_one V hV]
  apply vsum_wsum
  · intro r _ t t' ht ht' h1 h2
    match hra : r.ans with
    | [aV] =>
      rw [hra] at h1 h2
      exact hV.mem_disj aV i t t' ht ht' h1 h2
    | [] => simp [hra] at h1
    | _ :: _ :: _ => simp [hra] at h1
  · intro r _
    match r.ans with
    | [aV] => simp only [hV.mem_valid aV i hi]
    | [] => simp
    | _ :: _ :: _ => simp

end strand

end CrCube

namespace CrCube

/-! ### the 2-D slice of one categorical-array variable: items × categories -/

def Var.IsCA (v : Var) : Prop := v.kind = .arr ∧ v.isMR = false

section ca
variable (V : Var) (hV : V.IsCA) (s : Survey)
include hV

theorem ca_nApparent : V.nApparent = 2 := by simp [Var.nApparent, hV.1, hV.2]

theorem ca_counts_raw (raw : FT) (i j : Nat) :
    (sliceCounts [V] raw 0).counts i j
      = raw.get [(List.range V.n)[i]?.getD 0, (validIdxs V.catMissing)[j]?.getD 0] := by
  simp [sliceCounts, apparentKinds, Var.dks, hV.1, hV.2, MatCounts.factory, MatCounts.arrXcat,
    sliceExpr, validCube, FT.take, Var.validAxes, List.getD, FT.dim]

theorem ca_rowBases_raw (raw : FT) (i j : Nat) :
    (sliceCounts [V] raw 0).rowBases i j
      = vsum (validIdxs V.catMissing).length
          (fun u => raw.get [(List.range V.n)[i]?.getD 0, (validIdxs V.catMissing)[u]?.getD 0]) := by
  simp [sliceCounts, apparentKinds, Var.dks, hV.1, hV.2, MatCounts.factory, MatCounts.arrXcat,
    sliceExpr, validCube, FT.take, Var.validAxes, List.getD, FT.dim]

theorem ca_columnBases_eq_counts (raw : FT) (i j : Nat) :
    (sliceCounts [V] raw 0).columnBases i j = (sliceCounts [V] raw 0).counts i j := by
  simp [sliceCounts, apparentKinds, Var.dks, hV.1, hV.2, MatCounts.factory, MatCounts.arrXcat]

theorem ca_tableBases_eq_rowBases (raw : FT) (i j : Nat) :
    (sliceCounts [V] raw 0).tableBases i j = (sliceCounts [V] raw 0).rowBases i j := by
  simp [sliceCounts, apparentKinds, Var.dks, hV.1, hV.2, MatCounts.factory, MatCounts.arrXcat]

theorem ca_specCount (i j : Nat) (m1 m2 : Bool) :
    specCount [V] s [i, j] [m1, m2]
      = wsum s fun r => match r.ans with | [aV] => V.specMem aV [i, j] [m1, m2] | _ => false := by
  unfold specCount
  apply wsum_congr
  intro r _
  exact specMemAll_one V r.ans [i, j] [m1, m2] (by simp [ca_nApparent V hV]) (by simp [ca_nApparent V hV])

/-- counts of a categorical array: respondents whose answer on item i is valid category j -/
theorem ca_counts_spec (i j : Nat) (hi : i < V.n) (hj : j < (validIdxs V.catMissing).length)
    (m1 : Bool) :
    (sliceCounts [V] (cubeOf [V] s) 0).counts i j = .fin (specCount [V] s [i, j] [m1, false]) := by
  rw [ca_counts_raw V hV, cubeOf_get_one V s _ (by simp [Var.rank, hV.1]), ca_specCount V hV]
  congr 1
  apply wsum_congr
  intro r _
  match r.ans with
  | [aV] =>
    simp only [Var.mem, hV.1, Var.specMem, hV.2, Var.vpos, List.getElem?_range hi,
      List.getElem?_eq_getElem hj, Option.getD_some]
    cases aV[i]? with
    | none => simp
    | some c => simp [eq_comm]
  | [] => rfl
  | _ :: _ :: _ => rfl

/-- row (and table) bases of a categorical array: respondents with a VALID answer on item i -/
theorem ca_rowBases_spec (i j : Nat) (hi : i < V.n) (m1 : Bool) :
    (sliceCounts [V] (cubeOf [V] s) 0).rowBases i j = .fin (specCount [V] s [i, j] [m1, true]) := by
  rw [ca_rowBases_raw V hV]
  simp only [cubeOf_get_one V s _ (show [_, _].length = V.rank by simp [Var.rank, hV.1]),
    ca_specCount V hV]
  apply vsum_wsum
  · intro r _ t t' ht ht' h1 h2
    match hra : r.ans with
    | [aV] =>
      rw [hra] at h1 h2
      exact mr_mem_disj V hV.1 aV _ t t' ht ht' h1 h2
    | [] => simp [hra] at h1
    | _ :: _ :: _ => simp [hra] at h1
  · intro r _
    match r.ans with
    | [aV] =>
      simp only [Var.mem, hV.1, Var.specMem, hV.2, Var.isValidPos, List.getElem?_range hi,
        Option.getD_some]
      cases h : aV[i]? with
      | none => simp
      | some c =>
        have := any_range_getD_eq (validIdxs V.catMissing) c
        simpa using this
    | [] => simp
    | _ :: _ :: _ => simp

end ca

end CrCube
