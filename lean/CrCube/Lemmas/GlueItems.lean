/-
  Array items flagged missing never contribute: the cell the payload (ALL items) holds at the lifted
  index is the cell the tabulation of the reduced survey (valid items only) holds.
-/
import CrCube.Spec.GlueItems
import CrCube.Lemmas.Slice3D
import CrCube.Lemmas.NumericFlat

set_option linter.unusedSimpArgs false

namespace CrCube.Glue
open CrCube

theorem inRange_split (s1 s2 ix : List Nat) (h : InRange (s1 ++ s2) ix) :
    InRange s1 (ix.take s1.length) ∧ InRange s2 (ix.drop s1.length) := by
  induction s1 generalizing ix with
  | nil => simpa [InRange, inRangeB] using h
  | cons a as ih =>
    cases ix with
    | nil => simp [InRange, inRangeB] at h
    | cons i is =>
      simp only [List.cons_append, InRange, inRangeB, Bool.and_eq_true, decide_eq_true_eq] at h
      obtain ⟨h1, h2⟩ := ih is h.2
      simp only [List.length_cons, List.take_succ_cons, List.drop_succ_cons, InRange, inRangeB,
        Bool.and_eq_true, decide_eq_true_eq]
      exact ⟨⟨h.1, h1⟩, h2⟩

theorem inRange_length {sh ix : List Nat} (h : InRange sh ix) : ix.length = sh.length := by
  induction sh generalizing ix with
  | nil => cases ix <;> simp [InRange, inRangeB] at h ⊢
  | cons a as ih =>
    cases ix with
    | nil => simp [InRange, inRangeB] at h
    | cons i is =>
      simp only [InRange, inRangeB, Bool.and_eq_true, decide_eq_true_eq] at h
      simp [ih h.2]

theorem TVar.full_rank (t : TVar) : t.full.rank = t.var.rank := by
  unfold TVar.full Var.rank
  cases h : t.var.kind <;> simp [h]

theorem TVar.liftSub_length (t : TVar) (x : List Nat) (hx : x.length = t.var.rank) :
    (t.liftSub x).length = t.var.rank := by
  unfold TVar.liftSub
  cases hk : t.var.kind with
  | cat => simpa using hx
  | arr =>
    simp only [Var.rank, hk] at hx
    match x, hx with
    | [i, c], _ => simp [Var.rank, hk]

/-- one variable: membership in a reduced raw cell = membership in the lifted payload cell -/
theorem mem_reduce (t : TVar) (hok : t.ok) (a : List Nat) (hfit : t.full.fits a = true) (x : List Nat)
    (hx : InRange t.var.rawShape x) : t.var.mem (t.reduceAns a) x = t.full.mem a (t.liftSub x) := by
  cases hk : t.var.kind with
  | cat => simp [TVar.reduceAns, TVar.full, TVar.liftSub, hk]
  | arr =>
    obtain ⟨hn, hlt⟩ := hok hk
    have hlen := inRange_length hx
    simp only [Var.rawShape, hk, List.length_cons, List.length_nil] at hlen
    match x, hlen with
    | [i, c], _ =>
      simp only [Var.rawShape, hk, InRange, inRangeB, Bool.and_eq_true, decide_eq_true_eq, Bool.and_true] at hx
      have hi : i < t.itemPos.length := by omega
      have hfa : a.length = t.nItems := by
        simp only [Var.fits, TVar.full, hk, Bool.and_eq_true, beq_iff_eq] at hfit
        exact hfit.1
      have hk' : t.itemPos[i] < a.length := by rw [hfa]; exact hlt _ (List.getElem_mem hi)
      simp only [Var.mem, hk, TVar.reduceAns, TVar.full, TVar.liftSub, List.getElem?_map,
        List.getElem?_eq_getElem hi, Option.map_some, List.getD_eq_getElem?_getD,
        List.getElem?_eq_getElem hk', Option.getD_some]

theorem memCell_reduce : ∀ (tv : List TVar) (anss : List (List Nat)) (ix : List Nat),
    (∀ t ∈ tv, t.ok) → fitsDesign (tv.map TVar.full) anss = true →
    InRange (rawShapeOf (tv.map (·.var))) ix →
    memCell (tv.map (·.var)) (reduceAnss tv anss) ix = memCell (tv.map TVar.full) anss (liftIdx tv ix) := by
  intro tv
  induction tv with
  | nil =>
    intro anss ix _ hfit hix
    cases anss with
    | nil =>
      have : ix = [] := by
        cases ix with
        | nil => rfl
        | cons _ _ => simp [rawShapeOf, InRange, inRangeB] at hix
      subst this
      simp [reduceAnss, liftIdx, memCell]
    | cons _ _ => simp [fitsDesign] at hfit
  | cons t ts ih =>
    intro anss ix hok hfit hix
    cases anss with
    | nil => simp [fitsDesign] at hfit
    | cons a as =>
      simp only [List.map_cons, fitsDesign, Bool.and_eq_true] at hfit
      simp only [List.map_cons, rawShapeOf, List.flatMap_cons] at hix
      obtain ⟨hx1, hx2⟩ := inRange_split _ _ _ hix
      have hrl : t.var.rawShape.length = t.var.rank := by
        unfold Var.rawShape Var.rank; cases t.var.kind <;> simp
      rw [hrl] at hx1 hx2
      have hl1 : (ix.take t.var.rank).length = t.var.rank := by rw [inRange_length hx1, hrl]
      have ihh := ih as (ix.drop t.var.rank) (fun t' ht' => hok t' (List.mem_cons_of_mem _ ht')) hfit.2 hx2
      have hmem := mem_reduce t (hok t List.mem_cons_self) a hfit.1 _ hx1
      have hsplit : liftIdx (t :: ts) ix
          = t.liftSub (ix.take t.var.rank) ++ liftIdx ts (ix.drop t.var.rank) := rfl
      rw [hsplit]
      simp only [List.map_cons]
      rw [memCell_cons t.full (ts.map TVar.full) (a :: as) _ _
        (by rw [TVar.liftSub_length t _ hl1, TVar.full_rank])]
      simp only [reduceAnss, memCell, hmem, ihh]

/-- **the payload cell at the lifted index IS the reduced tabulation's cell** -/
theorem cubeOf_reduce (tv : List TVar) (hok : ∀ t ∈ tv, t.ok) (s : Survey)
    (hfit : SurveyFits (tv.map TVar.full) s) (ix : List Nat)
    (hix : InRange (rawShapeOf (tv.map (·.var))) ix) :
    (cubeOf (tv.map (·.var)) (reduceSurvey tv s)).get ix
      = (cubeOf (tv.map TVar.full) s).get (liftIdx tv ix) := by
  simp only [cubeOf, reduceSurvey]
  congr 1
  rw [wsum_map s (fun r => { w := r.w, ans := reduceAnss tv r.ans }) (fun _ => rfl)]
  apply wsum_congr
  intro r hr
  exact memCell_reduce tv r.ans ix hok (hfit r hr) hix

end CrCube.Glue
