import CrCube.Driver.Proto
import CrCube.Driver.Scale
import CrCube.Spec.ScaleSpecInt

open Lean

namespace CrCube.Driver.ScaleInt
open CrCube.Driver CrCube.Scale

/-- op `scale_median_int`: {vals, resps} with natural-number weights ↦ the median of the numeric
    values of the individual respondents the records stand for (`ScaleSpec.medianInt`; equal to
    the enumerated respondent-level median by `C14.median_int_spec`), NaN when none carries a value -/
def opMedianInt : Handler := fun j => do
  let vals ← (← getList (← getField j "vals")).mapM CrCube.Driver.Scale.optRatOfJson
  let rs ← (← getList (← getField j "resps")).mapM CrCube.Driver.Scale.respOfJson
  pure (jObj [("median", valToJson (ScaleSpec.medianInt vals rs)),
              ("nat_weights", .bool (rs.all ScaleSpec.natWeight)),
              ("n_valued", valToJson (.fin (ScaleSpec.nValuedInt vals rs)))])

def ops : List (String × Handler) := [("scale_median_int", opMedianInt)]

end CrCube.Driver.ScaleInt
