import CrCube.Driver.Proto
import CrCube.Model.Scale
import CrCube.Spec.ScaleSpec

open Lean

namespace CrCube.Driver.Scale
open CrCube.Driver CrCube.Scale

def soutToJson : SOut → Json
  | .v x => valToJson x
  | .sqrt x => Json.mkObj [("sqrt", valToJson x)]
  | .sqrtDivSqrt a b => Json.mkObj [("sqrtdivsqrt", .arr #[valToJson a, valToJson b])]
  | .none_ => .null

def subOfJson (j : Json) : Except String Sub := do
  pure { addends := ← getNats j "add", subtrahends := ← getNats j "sub" }

def subsOfJson (j : Json) : Except String (List Sub) := do (← getList j).mapM subOfJson

def vecToJson (s : VecStats) : Json :=
  jObj [("mean", valToJson s.mean), ("median", valToJson s.median),
        ("median_old", valToJson s.medianOld), ("stddev", soutToJson s.stddev),
        ("stderr", soutToJson s.stderr)]

/-- op `scale_vectors`: {values, counts, bases, subs, order} ↦ the ROWS-orientation marginals
    (mean / median / stddev / stderr) in display order, or null when undefined.
    For the COLUMNS orientation send the transposed counts and the transposed column bases. -/
def opVectors : Handler := fun j => do
  let values ← getVals j "values"
  let counts ← getMat j "counts"
  let bases ← getMat j "bases"
  let subs ← subsOfJson (← getField j "subs")
  let order ← getInts j "order"
  if !isDefined values then pure (jObj [("defined", .bool false)]) else
  let vs := sliceVectors values counts bases subs
  let dflt : VecStats := { mean := .nan, median := .nan, medianOld := .nan, stddev := .none_, stderr := .none_ }
  pure (jObj [("defined", .bool true),
              ("vectors", .arr ((takeSigned vs dflt order).map vecToJson).toArray)])

/-- op `scale_strand`: {values, counts} ↦ `_ScaledCounts` -/
def opStrand : Handler := fun j => do
  let values ← getVals j "values"
  let counts ← getVals j "counts"
  let s := strandStats values counts
  pure (jObj [("mean", soutToJson s.mean), ("median", soutToJson s.median),
              ("median_old", soutToJson s.medianOld), ("stddev", soutToJson s.stddev),
              ("stderr", soutToJson s.stderr)])

/-- op `scale_margin`: {values, margin} (display order) ↦ overall scale mean / median -/
def opMargin : Handler := fun j => do
  let values ← getVals j "values"
  let margin ← getVals j "margin"
  pure (jObj [("mean", soutToJson (marginMean values margin)),
              ("median", soutToJson (marginMedian values margin))])

def optRatOfJson : Json → Except String (Option Rat)
  | .null => pure none
  | j => do
    match ← valOfJson j with
    | .fin q => pure (some q)
    | _ => throw "non-finite numeric value"

def respOfJson (j : Json) : Except String ScaleSpec.SResp := do
  match ← getList j with
  | [w, c] =>
    match ← valOfJson w with
    | .fin q => pure { w := q, cat := ← c.getNat? }
    | _ => throw "non-finite weight"
  | _ => throw "respondent must be [w, cat]"

/-- op `scale_spec`: {vals, resps} ↦ respondent-level statistics of one vector -/
def opSpec : Handler := fun j => do
  let vals ← (← getList (← getField j "vals")).mapM optRatOfJson
  let rs ← (← getList (← getField j "resps")).mapM respOfJson
  let ps := ScaleSpec.valued vals rs
  pure (jObj [("any_values", .bool (vals.any Option.isSome)),
              ("mean", valToJson (ScaleSpec.mean ps)),
              ("stddev", soutToJson (ScaleSpec.stddev ps)),
              ("stderr", soutToJson (ScaleSpec.stderr ps (ScaleSpec.margin rs))),
              ("stderr_strand", soutToJson (ScaleSpec.stderrStrand ps)),
              ("median", valToJson (ScaleSpec.median (ScaleSpec.respValues vals rs))),
              ("n_valued", jNat ps.length),
              ("counts", jVals ((ScaleSpec.countsOf vals.length rs).map Val.fin))])

def ops : List (String × Handler) :=
  [("scale_vectors", opVectors), ("scale_strand", opStrand), ("scale_margin", opMargin),
   ("scale_spec", opSpec)]

end CrCube.Driver.Scale
