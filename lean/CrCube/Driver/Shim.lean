/-
  Driver ops for C19 / C18: `translate`, `shim_transforms`, `translate_dt`, `shim_dt`,
  `run_history`, `py_int`.  Every op returns the MODEL value (the cascade as coded) and the
  SPEC value (what the statement says), so the harness can tell the two kinds of
  disagreement apart.
-/
import CrCube.Driver.Proto
import CrCube.Model.Shim
import CrCube.Model.Lazy
import CrCube.Spec.ShimSpec

open Lean

namespace CrCube.Driver.Shim
open CrCube.Driver CrCube.Shim CrCube.ShimSpec CrCube.Lazy

def refOfJson : Json → Except String Ref
  | .null => pure .null
  | .str s => pure (.str s)
  | j => match j.getInt? with
         | .ok n => pure (.int n)
         | .error _ => throw s!"bad reference {j.compress}"

def refToJson : Ref → Json
  | .null => .null
  | .str s => .str s
  | .int n => jInt n

def optStrJson : Option String → Json
  | some s => .str s
  | none => .null

def optNatJson : Option Nat → Json
  | some n => jNat n
  | none => .null

def optField (j : Json) (k : String) : Option Json :=
  match j.getObjVal? k with
  | .ok .null => none
  | .ok v => some v
  | .error _ => none

def itemOfJson (j : Json) : Except String Item := do
  let eid ← getInt j "id"
  let alias ← getStr j "alias"
  let sv ← getStr j "subvar_id"
  let sa ← match optField j "subvar_alias" with
    | some v => do pure (some (← v.getStr?))
    | none => pure none
  pure { eid := eid, alias := alias, subvarId := sv, anchor := getBoolD j "anchor" false,
         derived := getBoolD j "derived" false, subvarAlias := sa }

def dimOfJson (j : Json) : Except String Dim := do
  let items ← (← getList (← getField j "items")).mapM itemOfJson
  pure { items := items, mrIns := getBoolD j "mr_ins" false, noSubvarIds := getBoolD j "no_subvar_ids" false }

def itemToJson (it : Item) : Json :=
  jObj [("id", jInt it.eid), ("alias", .str it.alias), ("subvar_id", .str it.subvarId),
        ("anchor", .bool it.anchor), ("derived", .bool it.derived),
        ("subvar_alias", optStrJson it.subvarAlias)]

def dimToJson (d : Dim) : Json :=
  jObj [("items", .arr (d.items.map itemToJson).toArray), ("mr_ins", .bool d.mrIns),
        ("no_subvar_ids", .bool d.noSubvarIds)]

def elXfOfJson (j : Json) : Except String ElXf := do
  let hide ← match optField j "hide" with
    | some v => do pure (some (← v.getBool?))
    | none => pure none
  let name ← match optField j "name" with
    | some v => do pure (some (← v.getStr?))
    | none => pure none
  pure { hide := hide, name := name }

def elXfToJson (x : ElXf) : Json :=
  jObj [("hide", match x.hide with | some b => .bool b | none => .null), ("name", optStrJson x.name)]

def modeOfString (s : String) : KeyMode :=
  if s == "alias" then .alias else if s == "subvar_id" then .subvarId else .absent

def modeToString : KeyMode → String
  | .absent => "absent" | .alias => "alias" | .subvarId => "subvar_id"

def entryOfJson (j : Json) : Except String (Ref × ElXf) := do
  match (← getList j) with
  | [k, v] => pure (← refOfJson k, ← elXfOfJson v)
  | _ => throw "entry must be [key, payload]"

def elemDictOfJson (j : Json) : Except String ElemDict := do
  let mode := match getStr j "mode" with | .ok s => modeOfString s | .error _ => .absent
  let es ← (← getList (← getField j "entries")).mapM entryOfJson
  pure { mode := mode, entries := es }

def elemDictToJson (e : ElemDict) : Json :=
  jObj [("mode", .str (modeToString e.mode)),
        ("entries", .arr (e.entries.map (fun kv => Json.arr #[refToJson kv.1, elXfToJson kv.2])).toArray)]

def refsOfJson (j : Json) : Except String (List Ref) := do (← getList j).mapM refOfJson
def refsToJson (l : List Ref) : Json := .arr (l.map refToJson).toArray

def optRefs (j : Json) (k : String) : Except String (Option (List Ref)) :=
  match optField j k with
  | some v => do pure (some (← refsOfJson v))
  | none => pure none

def dimXfOfJson (j : Json) : Except String DimXf := do
  let els ← match optField j "elements" with
    | some v => do pure (some (← elemDictOfJson v))
    | none => pure none
  let opp ← match optField j "opposing" with
    | some v => do pure (some (← refOfJson (← getField v "ref")))
    | none => pure none
  pure { elements := els, orderIds := ← optRefs j "order_ids", fixedTop := ← optRefs j "top",
         fixedBottom := ← optRefs j "bottom", opposing := opp }

def optRefsJson : Option (List Ref) → Json
  | some l => refsToJson l
  | none => .null

def dimXfToJson (x : DimXf) : Json :=
  jObj [("elements", match x.elements with | some e => elemDictToJson e | none => .null),
        ("order_ids", optRefsJson x.orderIds), ("top", optRefsJson x.fixedTop),
        ("bottom", optRefsJson x.fixedBottom),
        ("opposing", match x.opposing with | some r => jObj [("ref", refToJson r)] | none => .null)]

def specResJson : SpecRes → Json
  | .item k => jObj [("item", jNat k)]
  | .nothing => .str "nothing"
  | .ambiguous => .str "ambiguous"
  | .unspecified => .str "unspecified"

def viewToJson (v : View) : Json :=
  jObj [("element_ids", refsToJson v.elementIds),
        ("xforms", .arr (v.xforms.map elXfToJson).toArray),
        ("hidden", jNats v.hidden), ("order", jNats v.order), ("top", jNats v.top),
        ("bottom", jNats v.bottom),
        ("opposing", match v.opposing with
                     | some o => jObj [("idx", optNatJson o)]
                     | none => .null)]

/-- op `translate`: {dim, refs} ↦ model cascade result, spec resolution, NoCollision -/
def opTranslate : Handler := fun j => do
  let d ← dimOfJson (← getField j "dim")
  let rs ← refsOfJson (← getField j "refs")
  pure (jObj [("model", .arr (rs.map (fun r => optStrJson (translate d r))).toArray),
              ("spec", .arr (rs.map (fun r => specResJson (resolve d r))).toArray),
              ("aliases", .arr (d.aliases.map Json.str).toArray),
              ("nocollision", .bool (decide (NoCollision d)))])

def optListJson (f : α → Json) : Option (List α) → Json
  | some l => .arr (l.map f).toArray
  | none => .null

/-- spec-level view of a dimension + PRISTINE transforms: references resolved by `denotes`;
    a component is `null` when the statement leaves it open (ambiguous / unspecified reference) -/
def specViewJson (d : Dim) (x : DimXf) : Json :=
  -- after shimming an item is identified by its alias: with duplicate aliases the statement
  -- cannot tell the items apart, every component is left open
  if !(decide d.aliases.Nodup) then
    jObj [("xforms", .null), ("order", .null), ("top", .null), ("bottom", .null), ("opposing", .str "open")]
  else
  let xf : Json := match x.elements with
    | none => .arr ((List.range d.size).map (fun _ => elXfToJson {})).toArray
    | some e =>
      match e.mode with
      | .absent =>
        match resolveAll d (e.entries.map (·.1)) with
        | some ks => .arr ((specXforms d ks (e.entries.map (·.2))).map elXfToJson).toArray
        | none => .null
      | _ => .null   -- "key" marker: behaviour not described by the statement
  let lst (o : Option (List Ref)) (f : List (Option Nat) → List Nat) : Json :=
    match resolveAll d (o.getD []) with
    | some ks => jNats (f ks)
    | none => .null
  let opp : Json := match x.opposing with
    | none => .null
    | some r => match resolve d r with
                | .item k => jObj [("idx", jNat k)]
                | .nothing => jObj [("idx", .null)]
                | _ => .str "open"
  jObj [("xforms", xf), ("order", lst x.orderIds (specExplicit d)), ("top", lst x.fixedTop specFixed),
        ("bottom", lst x.fixedBottom specFixed), ("opposing", opp)]

/-- op `shim_transforms`: {dim, xf} ↦ dicts after one and after two shim passes, the model's
    view of the analysis, the spec view -/
def opShimTransforms : Handler := fun j => do
  let d ← dimOfJson (← getField j "dim")
  let x ← dimXfOfJson (← getField j "xf")
  let d1 := shimDim d
  let x1 := shimXf d x
  let x2 := shimXf d1 x1
  pure (jObj [("dim1", dimToJson d1), ("xf1", dimXfToJson x1), ("xf2", dimXfToJson x2),
              ("view", viewToJson (view d x)), ("view2", viewToJson (view d1 x1)),
              ("spec", specViewJson d x), ("nocollision", .bool (decide (NoCollision d)))])

/-! datetime -/

def dtItemOfJson (j : Json) : Except String DtItem := do
  let id ← getInt j "id"
  let v ← match optField j "value" with
    | some v => do pure (some (← v.getStr?))
    | none => pure none
  pure { id := id, value := v }

def dtDimOfJson (j : Json) : Except String DtDim := do
  pure { items := ← (← getList (← getField j "items")).mapM dtItemOfJson }

def isIntRef : Ref → Bool
  | .int _ => true
  | _ => false

/-- spec for datetime: a reference denotes the elements (with a string value) whose position
    id it is (int, or canonical decimal string of a non-negative number: position ids are
    positions) or whose value it is -/
def dtDenotes (d : DtDim) (r : Ref) : List Nat :=
  ((d.items.zipIdx).filter (fun p =>
      match p.1.value with
      | none => false
      | some v => r == .str v || (canonNumber r == some p.1.id && (isIntRef r || p.1.id ≥ 0)))).map (·.2)

def opTranslateDt : Handler := fun j => do
  let d ← dtDimOfJson (← getField j "dim")
  let rs ← refsOfJson (← getField j "refs")
  pure (jObj [("model", refsToJson (rs.map (translateDt d))),
              ("spec", .arr (rs.map (fun r => jNats (dtDenotes d r))).toArray),
              ("nocollision", .bool (decide (DtNoCollision d)))])

def opShimDt : Handler := fun j => do
  let d ← dtDimOfJson (← getField j "dim")
  let x ← dimXfOfJson (← getField j "xf")
  let x1 := shimDtXf d x
  let x2 := shimDtXf (shimDtDim d) x1
  pure (jObj [("xf1", dimXfToJson x1), ("xf2", dimXfToJson x2),
              ("element_ids", refsToJson ((shimDtDim d).items.map dtElementId)),
              ("nocollision", .bool (decide (DtNoCollision d)))])

/-- op `py_int`: {strs} ↦ Python `int(s)` (null = ValueError), `str.isnumeric`, and `str(int)` round trip -/
def opPyInt : Handler := fun j => do
  let ss ← (← getList (← getField j "strs")).mapM (·.getStr?)
  let ns := getFieldD j "ints" (.arr #[])
  let ints ← (← getList ns).mapM (·.getInt?)
  pure (jObj [("int", .arr (ss.map (fun s => match pyInt s with | some n => jInt n | none => .null)).toArray),
              ("isnumeric", jBools (ss.map isNumeric)),
              ("str", .arr (ints.map (fun n => Json.str (decStr n))).toArray)])

/-! history -/

def sideOfJson (j : Json) : Except String Side := do
  match optField j "dim" with
  | some dj =>
    let d ← dimOfJson dj
    let x ← match optField j "xf" with
      | some xj => dimXfOfJson xj
      | none => pure {}
    pure { dim := d, xf := x, isArray := true }
  | none => pure { dim := { items := [] }, xf := {}, isArray := false }

def sideToJson (s : Side) : Json :=
  if s.isArray then jObj [("dim", dimToJson s.dim), ("xf", dimXfToJson s.xf)] else .null

def opOfJson (j : Json) : Except String Op := do
  let k ← getStr j "op_kind"
  if k == "new" then pure .newCube
  else pure (.read (← getNat j "cube") (← getNat j "part") (← getNat j "prop"))

/-- the observables the harness compares at the `hist` seam: property `p` of partition `k`
    (the partition index is irrelevant to the dimension-level observables, as in the code) -/
def observe (p : Nat) (_k : Nat) (c : Caller) : Json :=
  let side := if p % 2 == 0 then c.rows else c.cols
  if !side.isArray then .null else
  let v := viewRaw side.dim side.xf
  match p / 2 with
  | 0 => refsToJson v.elementIds
  | 1 => jNats v.hidden
  | 2 => .arr (v.xforms.map (fun x => optStrJson x.name)).toArray
  | 3 => jNats v.order
  | 4 => jNats v.top
  | 5 => jNats v.bottom
  | _ => match v.opposing with
         | some o => jObj [("idx", optNatJson o)]
         | none => .null

/-- op `run_history`: {rows, cols, nparts, ops} ↦ value of every read (model: through the
    state machine; spec: fresh on pristine arguments) and the caller's dicts afterwards -/
def opRunHistory : Handler := fun j => do
  let rows ← sideOfJson (getFieldD j "rows" .null)
  let cols ← sideOfJson (getFieldD j "cols" .null)
  let nparts ← getNat j "nparts"
  let ops ← (← getList (← getField j "ops")).mapM opOfJson
  let pristine : Caller := { rows := rows, cols := cols }
  let isNone : Json → Bool := fun v => v == .null
  let needs : Nat → Bool × Bool := fun p => if p % 2 == 0 then (true, false) else (false, true)
  let (outs, st) := run observe needs isNone nparts ops (init pristine)
  let fresh := ops.map (fun o => match o with
    | .read _ k p => observe p k (shimCaller pristine)
    | .newCube => Json.str "new")
  pure (jObj [("reads", .arr ((ops.zip outs).map (fun oo => match oo with
                  | (.newCube, _) => Json.str "new"
                  | (_, some v) => v
                  | (_, none) => Json.str "invalid")).toArray),
              ("fresh", .arr fresh.toArray),
              ("rows_after", sideToJson st.caller.rows), ("cols_after", sideToJson st.caller.cols)])

def ops : List (String × Handler) :=
  [("translate", opTranslate), ("shim_transforms", opShimTransforms),
   ("translate_dt", opTranslateDt), ("shim_dt", opShimDt), ("py_int", opPyInt),
   ("run_history", opRunHistory)]

end CrCube.Driver.Shim
