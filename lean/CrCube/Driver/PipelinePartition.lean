import CrCube.Driver.Pipeline
import CrCube.Model.PipelinePartition

open Lean

/-!
  Driver op of property C06 on the end-to-end pipeline: the op takes the 3-D case exactly as
  `pipe_slice` does, RESTRICTS IT IN LEAN (`CubeData.partition2d`: the table variable dropped,
  every raw array replaced by its sub-tensor at the raw position of valid table element k) and runs
  the 2-D pipeline model on the result.  The harness compares that with partition k of the REAL
  library run on the 3-D response, output for output.  With a survey the op also restricts the
  SURVEY (`restrictSurvey` = `restrictTo`), tabulates it with `cubeOf` and reports whether the two
  2-D cube data agree (`C06.partition_cube_data`), and the respondent-level cells of the restricted
  survey; with "twins": true the executable twin of `C06.pipelineX_partition` (3-D pipeline output
  = 2-D pipeline output, as JSON).
-/

namespace CrCube.Driver.PipelinePartition
open CrCube.Driver CrCube.Driver.Pipeline CrCube.Collator CrCube.Pipeline

def optFlat (o : Option FT) : Json := match o with | some t => jVals t.flat | none => .null

/-- re-materialise a functional tensor as a flat array (O(1) cell access afterwards) -/
def refresh (t : FT) : FT := ftOfFlat t.shape t.flat

def CubeData.refresh (c : CubeData) : CubeData :=
  { c with wraw := PipelinePartition.refresh c.wraw, uraw := PipelinePartition.refresh c.uraw
           sums := c.sums.map PipelinePartition.refresh, means := c.means.map PipelinePartition.refresh
           stddevs := c.stddevs.map PipelinePartition.refresh, medians := c.medians.map PipelinePartition.refresh }

/-- op `pipe_slice_part`: the input of `pipe_slice` for a 3-D design ↦ the output of `pipe_slice` for the
    2-D cube data of table element k, plus
      "shape_2d" / "wdata_2d" / "udata_2d" / "sums_2d" …: the restricted raw arrays, flat,
      "restrict_equal": (with a survey) they are `cubeOf [R, C]` of the restricted (un)weighted survey,
      "n_restricted": number of respondents in table element k,
      "twin": (on request) the 3-D pipeline's output JSON equals the 2-D one -/
def opPipeSlicePart : Handler := fun j => do
  let vars ← Counts.varsOfJson (← getField j "vars")
  let wdata ← getVals j "wdata"
  let udata ← getVals j "udata"
  let k ← getNat j "k"
  let rows ← tdimOfJson (← getField j "rows")
  let cols ← tdimOfJson (← getField j "cols")
  let sh := rawShapeOf vars
  let c3 : CubeData := { vars := vars, wraw := ftOfFlat sh wdata, uraw := ftOfFlat sh udata, k := k
                         sums := ← optFT j "sums" sh, means := ← optFT j "means" sh
                         stddevs := ← optFT j "stddevs" sh, medians := ← optFT j "medians" sh }
  let population ← if hasField j "population" then getVal j "population" else pure (.fin 0)
  let fraction ← if hasField j "fraction" then getVal j "fraction" else pure (.fin 1)
  match vars with
  | [] => throw "pipe_slice_part: no variables"
  | T :: rest =>
    let c := CubeData.refresh (c3.partition2d T)
    let (spec, restrictEq, nrestr) ← if hasField j "survey" then do
        let s ← Counts.surveyOfJson (← getField j "survey")
        let rs := restrictSurvey T k s
        let eq := c.wraw.flat == (cubeOf rest rs).flat && c.uraw.flat == (cubeOf rest (unweight rs)).flat
                    && c.wraw.shape == rawShapeOf rest
        pure (specJson rest rs 0, Json.bool eq, jNat rs.length)
      else pure (Json.null, Json.null, Json.null)
    let rawJson := [("shape_2d", jNats c.wraw.shape), ("wdata_2d", jVals c.wraw.flat), ("udata_2d", jVals c.uraw.flat),
                    ("sums_2d", optFlat c.sums), ("means_2d", optFlat c.means), ("stddevs_2d", optFlat c.stddevs),
                    ("medians_2d", optFlat c.medians), ("restrict_equal", restrictEq), ("n_restricted", nrestr)]
    match rows.resolve, cols.resolve with
    | some r, some cl =>
      let out := runSliceX c r cl population fraction
      let out0 := runSlice c r.strip cl.strip
      let twins := getBoolD j "twins" false
      let twin := !twins ||
        (sliceOutJson c3 (runSliceX c3 r cl population fraction)).compress == (sliceOutJson c out).compress
      pure (jObj ([("t", sliceOutJson c out),
                  ("strip", jObj [("row_order", jInts out0.rowOrder), ("column_order", jInts out0.colOrder)]),
                  ("wf", .bool (decide (SliceWF c r cl))), ("blocks_equal", .bool true), ("reindex_equal", .bool true),
                  ("row_sort_keys", sortKeysJson (rowROrder (sliceBlocks c r cl) (sliceAvail c) (rowMarginalKeys c r cl) r cl)),
                  ("column_sort_keys", sortKeysJson (colROrder (sliceBlocks c r cl) (sliceAvail c) r cl)),
                  ("n_row_subtotals", jNat r.subtotals.length), ("n_col_subtotals", jNat cl.subtotals.length),
                  ("row_insertion_ids", jInts (bogusIds r.cdim.subs)),
                  ("column_insertion_ids", jInts (bogusIds cl.cdim.subs)),
                  ("rows_pruning_mask", jBools c.u.rowsPruningMask),
                  ("columns_pruning_mask", jBools c.u.columnsPruningMask),
                  ("twin", .bool twin), ("spec", spec)] ++ rawJson))
    | _, _ => pure (jObj ([("raises", .str "ValueError")] ++ rawJson))

def ops : List (String × Handler) := [("pipe_slice_part", opPipeSlicePart)]

end CrCube.Driver.PipelinePartition
