import CrCube.Driver.Proto
import CrCube.Model.DiffIdxs

open Lean

namespace CrCube.Driver.DiffIdxs
open CrCube.Driver CrCube.DiffIdxs

/-- op `c17_diff_idxs`: {n_valid, flags (is_difference per subtotal), order (signed display indexes)} ↦
    the blanked display positions of the model -/
def opDiffIdxs : Handler := fun j => do
  let n ← getNat j "n_valid"
  let flags ← getBools j "flags"
  let order ← getInts j "order"
  pure (jObj [("positions", jNats (diffIdxs n flags order))])

def ops : List (String × Handler) := [("c17_diff_idxs", opDiffIdxs)]

end CrCube.Driver.DiffIdxs
