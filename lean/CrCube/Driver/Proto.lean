/-
  JSON line protocol helpers shared by all driver modules.

  Numbers travel as exact rationals: JSON ints, or strings "p/q", "nan", "inf", "-inf".
  JSON `null` decodes to nan (numpy's view of None in a float array).
-/
import Lean.Data.Json
import CrCube.Model.Val

open Lean

namespace CrCube.Driver

abbrev Handler := Json → Except String Json

def ratOfJsonNumber (n : JsonNumber) : Rat :=
  (n.mantissa : Rat) / ((10 ^ n.exponent : Nat) : Rat)

def valOfString (s : String) : Except String Val :=
  if s == "nan" then pure .nan
  else if s == "inf" then pure .pinf
  else if s == "-inf" then pure .ninf
  else
    match s.splitOn "/" with
    | [p] => match p.toInt? with
      | some i => pure (.fin (i : Rat))
      | none => throw s!"bad number string {s}"
    | [p, q] => match p.toInt?, q.toNat? with
      | some i, some d => if d == 0 then throw "zero denominator" else pure (.fin ((i : Rat) / (d : Rat)))
      | _, _ => throw s!"bad rational string {s}"
    | _ => throw s!"bad number string {s}"

def valOfJson : Json → Except String Val
  | .null => pure .nan
  | .num n => pure (.fin (ratOfJsonNumber n))
  | .str s => valOfString s
  | j => throw s!"not a number: {j.compress}"

def valToJson (v : Val) : Json := .str v.toStr

partial def outToJson : Out → Json
  | .v x => valToJson x
  | .sqrt x => Json.mkObj [("sqrt", valToJson x)]
  | .divSqrt n d => Json.mkObj [("divsqrt", .arr #[valToJson n, valToJson d])]
  | .scale k o => Json.mkObj [("scale", .arr #[valToJson (.fin k), outToJson o])]
  | .normTail2 z => Json.mkObj [("normtail2", outToJson z)]
  | .tTail2 t df => Json.mkObj [("ttail2", .arr #[outToJson t, valToJson df])]
  | .none_ => .null

def getField (j : Json) (k : String) : Except String Json := j.getObjVal? k

def getFieldD (j : Json) (k : String) (d : Json) : Json :=
  match j.getObjVal? k with
  | .ok v => v
  | .error _ => d

def hasField (j : Json) (k : String) : Bool :=
  match j.getObjVal? k with
  | .ok _ => true
  | .error _ => false

def getList (j : Json) : Except String (List Json) := do
  let a ← j.getArr?
  pure a.toList

def getValList (j : Json) : Except String (List Val) := do
  let a ← getList j
  a.mapM valOfJson

def getValMat (j : Json) : Except String (List (List Val)) := do
  let a ← getList j
  a.mapM getValList

def getNatList (j : Json) : Except String (List Nat) := do
  let a ← getList j
  a.mapM (·.getNat?)

def getIntList (j : Json) : Except String (List Int) := do
  let a ← getList j
  a.mapM (·.getInt?)

def getBoolList (j : Json) : Except String (List Bool) := do
  let a ← getList j
  a.mapM (·.getBool?)

def getNatMat (j : Json) : Except String (List (List Nat)) := do
  let a ← getList j
  a.mapM getNatList

def getNat (j : Json) (k : String) : Except String Nat := do (← getField j k).getNat?
def getInt (j : Json) (k : String) : Except String Int := do (← getField j k).getInt?
def getStr (j : Json) (k : String) : Except String String := do (← getField j k).getStr?
def getBool (j : Json) (k : String) : Except String Bool := do (← getField j k).getBool?
def getBoolD (j : Json) (k : String) (d : Bool) : Bool :=
  match getBool j k with | .ok b => b | .error _ => d
def getVal (j : Json) (k : String) : Except String Val := do valOfJson (← getField j k)
def getVals (j : Json) (k : String) : Except String (List Val) := do getValList (← getField j k)
def getMat (j : Json) (k : String) : Except String (List (List Val)) := do getValMat (← getField j k)
def getNats (j : Json) (k : String) : Except String (List Nat) := do getNatList (← getField j k)
def getInts (j : Json) (k : String) : Except String (List Int) := do getIntList (← getField j k)
def getBools (j : Json) (k : String) : Except String (List Bool) := do getBoolList (← getField j k)

def jVals (l : List Val) : Json := .arr (l.map valToJson).toArray
def jMat (m : List (List Val)) : Json := .arr (m.map jVals).toArray
def jNats (l : List Nat) : Json := .arr (l.map (fun n => Json.num (JsonNumber.fromNat n))).toArray
def jInts (l : List Int) : Json := .arr (l.map (fun n => Json.num (JsonNumber.fromInt n))).toArray
def jBools (l : List Bool) : Json := .arr (l.map Json.bool).toArray
def jOuts (l : List Out) : Json := .arr (l.map outToJson).toArray
def jOutMat (m : List (List Out)) : Json := .arr (m.map jOuts).toArray
def jObj (l : List (String × Json)) : Json := Json.mkObj l
def jNat (n : Nat) : Json := Json.num (JsonNumber.fromNat n)
def jInt (n : Int) : Json := Json.num (JsonNumber.fromInt n)

end CrCube.Driver
