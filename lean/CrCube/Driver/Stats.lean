/-
  Driver ops for C11 (variance / std-err / moe), C12 (z-scores, p-values), C16 (column index).
  Every op returns the MODEL value (the library's formula on the primitives it is given, or
  on the raw cube array) and/or the SPEC value (respondent level, from the survey).
-/
import CrCube.Driver.Counts
import CrCube.Model.ColumnIndex
import CrCube.Spec.ColumnIndexSpec
import CrCube.Spec.VariancePrims
import CrCube.Model.Zscore
import CrCube.Spec.ZscoreSpec

open Lean

namespace CrCube.Driver.Stats
open CrCube.Driver CrCube.Driver.Counts

def sideOfJson (j : Json) : Except String Side := do
  let add ← getNats j "add"
  let sub ← getNats j "sub"
  pure { add := add, sub := sub, inserted := getBoolD j "inserted" false }

def sidesOfJson (j : Json) (k : String) : Except String (List Side) := do
  (← getList (← getField j k)).mapM sideOfJson

def designOf (vars : List Var) (k : Nat) : Except String SliceDesign :=
  match SliceDesign.ofVars vars k with
  | some d => pure d
  | none => throw "slice design needs 2 or 3 variables"

/-- op `c16_model`: {vars, data (RAW cube array incl. missing elements), k, rows, cols, fixed}
    ↦ baseline matrix over base cells and the displayed column-index matrix -/
def opC16Model : Handler := fun j => do
  let vars ← varsOfJson (← getField j "vars")
  let data ← getVals j "data"
  let k ← getNat j "k"
  let fixed := getBoolD j "fixed" true
  let rows ← sidesOfJson j "rows"
  let cols ← sidesOfJson j "cols"
  let raw := FT.ofFlat (rawShapeOf vars) data
  let m := sliceCounts vars raw k
  let b := baselineOfCube vars raw k fixed
  let mk (bl : Nat → Nat → Val) := rows.map (fun R => cols.map (fun C =>
    let i := R.add.headD 0
    let jx := C.add.headD 0
    columnIndexCell (R.inserted || C.inserted) (m.counts i jx) (m.columnBases i jx) (bl i jx)))
  -- `column_index_unfixed`: the code before fix F4 (only used to name the locus of a finding)
  pure (jObj [("baseline", jMat (tab2 m.nrows m.ncols b)), ("column_index", jMat (mk b)),
              ("column_index_unfixed", jMat (mk (baselineOfCube vars raw k false)))])

/-- op `c16_spec`: {vars, survey, k, rows, cols} ↦ respondent-level baseline per base row and
    the displayed column-index matrix -/
def opC16Spec : Handler := fun j => do
  let vars ← varsOfJson (← getField j "vars")
  let s ← surveyOfJson (← getField j "survey")
  let k ← getNat j "k"
  let rows ← sidesOfJson j "rows"
  let cols ← sidesOfJson j "cols"
  let d ← designOf vars k
  let nr := (apparentExtents vars).getD ((apparentExtents vars).length - 2) 0
  pure (jObj [("baseline", jVals (tab1 nr (baselineSpec d s))),
              ("column_index", jMat (rows.map (fun R => cols.map (fun C => columnIndexSpec d s R C))))])

/-! ### C11 -/

def dirOfString (s : String) : Dir := if s == "row" then .row else if s == "col" then .col else .table

def getValD (j : Json) (k : String) : Val :=
  match getVal j k with | .ok v => v | .error _ => .nan

def valsEq (a b : Val) : Bool := a == b

/-- do the primitives sent by the harness (computed in Python from the survey) agree with the
    respondent-level primitives computed here?  (wave terms only where the model reads them) -/
def primsAgree (a b : VarCell) : Bool :=
  valsEq a.np b.np && valsEq a.nn b.nn && valsEq a.base b.base
    && valsEq a.cA b.cA && valsEq a.bA b.bA && valsEq a.cS b.cS && valsEq a.bS b.bS

/-- op `c11_cells`: {vars, survey, k, rowsCatDate, colsCatDate, cells: [{dir, R, C, np, nn, base, cA, bA, cS, bS}]}
    ↦ per cell: model values on the primitives SENT, spec values from the survey -/
def opC11Cells : Handler := fun j => do
  let vars ← varsOfJson (← getField j "vars")
  let s ← surveyOfJson (← getField j "survey")
  let k ← getNat j "k"
  let rcd := getBoolD j "rowsCatDate" false
  let ccd := getBoolD j "colsCatDate" false
  let d ← designOf vars k
  let cells ← getList (← getField j "cells")
  let outs ← cells.mapM (fun cj => do
    let dir := dirOfString (← getStr cj "dir")
    let R ← sideOfJson (← getField cj "R")
    let C ← sideOfJson (← getField cj "C")
    let mc : VarCell := { dir := dir, R := R, C := C, rowsCatDate := rcd, colsCatDate := ccd
                          np := getValD cj "np", nn := getValD cj "nn", base := getValD cj "base"
                          cA := getValD cj "cA", bA := getValD cj "bA", cS := getValD cj "cS", bS := getValD cj "bS" }
    let sc := VarCell.ofSurvey d s dir R C rcd ccd
    let sv := varianceSpec d s dir R C rcd ccd
    let sb := baseSpec d s dir R C
    let se := stdErrSpec sv sb
    pure (jObj [
      ("model", jObj [("variance", valToJson mc.variance), ("std_dev", outToJson mc.stdDev),
                      ("std_err", outToJson mc.stdErr), ("moe", outToJson mc.moe),
                      ("proportion", valToJson mc.proportion)]),
      ("spec", jObj [("variance", valToJson sv), ("std_dev", outToJson (stdDevSpec sv)),
                     ("std_err", outToJson se), ("moe", outToJson (moeSpec se)),
                     ("base", valToJson (.fin sb))]),
      ("model_on_spec_prims", valToJson sc.variance),
      ("prims_agree", Json.bool (primsAgree mc sc))]))
  pure (Json.arr outs.toArray)

/-- op `c11_strand`: {vars: [v], survey, catDate, cells: [{S, np, nn, base, cA, bA, cS, bS}]} -/
def opC11Strand : Handler := fun j => do
  let vars ← varsOfJson (← getField j "vars")
  let s ← surveyOfJson (← getField j "survey")
  let cd := getBoolD j "catDate" false
  let v ← match vars with | [v] => pure v | _ => throw "strand needs one variable"
  let cells ← getList (← getField j "cells")
  let outs ← cells.mapM (fun cj => do
    let S ← sideOfJson (← getField cj "S")
    let mc : StrandCell := { S := S, catDate := cd
                             np := getValD cj "np", nn := getValD cj "nn", base := getValD cj "base"
                             cA := getValD cj "cA", bA := getValD cj "bA", cS := getValD cj "cS", bS := getValD cj "bS" }
    let sc := StrandCell.ofSurvey v s S cd
    let sv := strandVarianceSpec v s S cd
    let sb := wsum s (strandBase v S)
    let se := stdErrSpec sv sb
    pure (jObj [
      ("model", jObj [("variance", valToJson mc.variance), ("std_dev", outToJson mc.stdDev),
                      ("std_err", outToJson mc.stdErr), ("moe", outToJson mc.moe),
                      ("proportion", valToJson mc.proportion)]),
      ("spec", jObj [("variance", valToJson sv), ("std_dev", outToJson (stdDevSpec sv)),
                     ("std_err", outToJson se), ("moe", outToJson (moeSpec se)),
                     ("base", valToJson (.fin sb))]),
      ("model_on_spec_prims", valToJson sc.variance),
      ("prims_agree", Json.bool (valsEq mc.np sc.np && valsEq mc.nn sc.nn && valsEq mc.base sc.base
          && valsEq mc.cA sc.cA && valsEq mc.bA sc.bA && valsEq mc.cS sc.cS && valsEq mc.bS sc.bS))]))
  pure (Json.arr outs.toArray)

/-! ### C12 -/

/-- split a block-ordered (base…, inserted…) full matrix of cells into the four blocks, apply `f`
    (shape preserving) to each block, and stitch the results back into one block-ordered matrix -/
def perBlock {α β : Type} (nbR nbC : Nat) (cells : List (List α))
    (f : List (List α) → List (List β)) : List (List β) :=
  let top := cells.take nbR
  let bot := cells.drop nbR
  let b00 := f (top.map (·.take nbC))
  let b01 := f (top.map (·.drop nbC))
  let b10 := f (bot.map (·.take nbC))
  let b11 := f (bot.map (·.drop nbC))
  (List.zipWith (· ++ ·) b00 b01) ++ (List.zipWith (· ++ ·) b10 b11)

def nBase (sides : List Side) : Nat := (sides.filter (fun sd => !sd.inserted)).length

/-- op `c12_model`: {rows, cols, nr, nc, counts: base-block matrix, cells: block-ordered matrix of
    {np, nn, tb, rb, cb}} ↦ {defective, z, p} (block-ordered matrices of Out terms) -/
def opC12Model : Handler := fun j => do
  let rows ← sidesOfJson j "rows"
  let cols ← sidesOfJson j "cols"
  let nr ← getNat j "nr"
  let nc ← getNat j "nc"
  let counts ← getMat j "counts"
  let cellRows ← getList (← getField j "cells")
  let cells ← (cellRows.zip (List.range cellRows.length)).mapM (fun (rj, i) => do
    let cs ← getList rj
    (cs.zip (List.range cs.length)).mapM (fun (cj, jx) => do
      pure (ZCell.ofPrims (rows.getD i default) (cols.getD jx default)
        (getValD cj "np") (getValD cj "nn") (getValD cj "tb") (getValD cj "rb") (getValD cj "cb"))))
  let cf := fun i jx => (counts.getD i []).getD jx .nan
  let dfct := isDefective nr nc cf
  let z := perBlock (nBase rows) (nBase cols) cells (zBlock dfct)
  let pv := perBlock (nBase rows) (nBase cols) z pBlock
  pure (jObj [("defective", Json.bool dfct), ("z", jOutMat z), ("p", jOutMat pv)])

/-- op `c12_spec`: {vars, survey, k, rows, cols, nr, nc} ↦ respondent-level z and p -/
def opC12Spec : Handler := fun j => do
  let vars ← varsOfJson (← getField j "vars")
  let s ← surveyOfJson (← getField j "survey")
  let k ← getNat j "k"
  let rows ← sidesOfJson j "rows"
  let cols ← sidesOfJson j "cols"
  let nr ← getNat j "nr"
  let nc ← getNat j "nc"
  let d ← designOf vars k
  -- memoised base-count table (same values as `baseCountSpec d s`), so the defective flag is computed once
  let cm := tab2 nr nc (baseCountSpec d s)
  let cf := fun i jx => (cm.getD i []).getD jx 0
  let dfct := tableDefectiveOf nr nc cf
  let z := rows.map (fun R => cols.map (fun C => zSpecCell dfct d s R C))
  pure (jObj [("defective", Json.bool dfct),
              ("z", jOutMat z), ("p", jOutMat (z.map (fun row => row.map pSpec))),
              ("nan", Json.arr (z.map (fun row => jBools (row.map Out.evalsToNan))).toArray),
              ("counts", jMat (cm.map (fun row => row.map Val.fin)))])

/-- op `z975`: the model's constant -/
def opZ975 : Handler := fun _ => pure (valToJson (.fin Z975))

def ops : List (String × Handler) :=
  [("c16_model", opC16Model), ("c16_spec", opC16Spec),
   ("c11_cells", opC11Cells), ("c11_strand", opC11Strand), ("z975", opZ975),
   ("c12_model", opC12Model), ("c12_spec", opC12Spec)]

end CrCube.Driver.Stats
