/-
  Driver ops for C11 (variance / std-err / moe), C12 (z-scores, p-values), C16 (column index).
  Every op returns the MODEL value (the library's formula on the primitives it is given, or
  on the raw cube array) and/or the SPEC value (respondent level, from the survey).
-/
import CrCube.Driver.Counts
import CrCube.Model.ColumnIndex
import CrCube.Spec.ColumnIndexSpec

open Lean

namespace CrCube.Driver.Stats
open CrCube.Driver CrCube.Driver.Counts

def sideOfJson (j : Json) : Except String Side := do
  let add ← getNats j "add"
  let sub ← getNats j "sub"
  pure { add := add, sub := sub, inserted := getBoolD j "inserted" false }

def sidesOfJson (j : Json) (k : String) : Except String (List Side) := do
  (← getList (← getField j k)).mapM sideOfJson

def designOf (vars : List Var) (k : Nat) : Except String SliceDesign :=
  match SliceDesign.ofVars vars k with
  | some d => pure d
  | none => throw "slice design needs 2 or 3 variables"

/-- op `c16_model`: {vars, data (RAW cube array incl. missing elements), k, rows, cols, fixed}
    ↦ baseline matrix over base cells and the displayed column-index matrix -/
def opC16Model : Handler := fun j => do
  let vars ← varsOfJson (← getField j "vars")
  let data ← getVals j "data"
  let k ← getNat j "k"
  let fixed := getBoolD j "fixed" true
  let rows ← sidesOfJson j "rows"
  let cols ← sidesOfJson j "cols"
  let raw := FT.ofFlat (rawShapeOf vars) data
  let m := sliceCounts vars raw k
  let b := baselineOfCube vars raw k fixed
  let mk (bl : Nat → Nat → Val) := rows.map (fun R => cols.map (fun C =>
    let i := R.add.headD 0
    let jx := C.add.headD 0
    columnIndexCell (R.inserted || C.inserted) (m.counts i jx) (m.columnBases i jx) (bl i jx)))
  -- `column_index_unfixed`: the code before fix F4 (only used to name the locus of a finding)
  pure (jObj [("baseline", jMat (tab2 m.nrows m.ncols b)), ("column_index", jMat (mk b)),
              ("column_index_unfixed", jMat (mk (baselineOfCube vars raw k false)))])

/-- op `c16_spec`: {vars, survey, k, rows, cols} ↦ respondent-level baseline per base row and
    the displayed column-index matrix -/
def opC16Spec : Handler := fun j => do
  let vars ← varsOfJson (← getField j "vars")
  let s ← surveyOfJson (← getField j "survey")
  let k ← getNat j "k"
  let rows ← sidesOfJson j "rows"
  let cols ← sidesOfJson j "cols"
  let d ← designOf vars k
  let nr := (apparentExtents vars).getD ((apparentExtents vars).length - 2) 0
  pure (jObj [("baseline", jVals (tab1 nr (baselineSpec d s))),
              ("column_index", jMat (rows.map (fun R => cols.map (fun C => columnIndexSpec d s R C))))])

def ops : List (String × Handler) :=
  [("c16_model", opC16Model), ("c16_spec", opC16Spec)]

end CrCube.Driver.Stats
