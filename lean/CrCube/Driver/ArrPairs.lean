/-
  Driver ops for the MR × ARR / ARR × ARR pairings and the straddled categorical-array layouts —
  C01_ArrPairs / C02_ArrPairs.

  layouts:  "s1"    vars = [A, X]  payload categories(A) × X × items(A); partition k = valid category k
            "s2"    vars = [A, X]  payload items(A) × X × categories(A); partition k = item k
            "fused" vars = [M], q  payload M-axes × q variables; one slice
            "aa"    rv, cv         two array-items axes (valid element positions); one slice
-/
import CrCube.Driver.Arr
import CrCube.Model.SliceArrPairs
import CrCube.Spec.ArrPairsSpec

open Lean

namespace CrCube.Driver.ArrPairs
open CrCube.Driver CrCube.Driver.Counts CrCube.Driver.Arr

/-- op `ap_cubeof`: {layout, vars, survey[, q]} ↦ flat raw cube in PAYLOAD order -/
def opCubeOf : Handler := fun j => do
  let vars ← varsOfJson (← getField j "vars")
  let s ← surveyOfJson (← getField j "survey")
  let layout ← getStr j "layout"
  let mk (f : Survey → FT) : Json :=
    jObj [("weighted", jVals (f s).flat), ("unweighted", jVals (f (unweight s)).flat), ("shape", jNats (f s).shape)]
  match layout, vars with
  | "s1", [A, X] => pure (mk (cubeOfS1 A X))
  | "s2", [A, X] => pure (mk (cubeOfS2 A X))
  | "fused", [M] => do
    let q ← getNat j "q"
    pure (mk (cubeOfFused M q))
  | _, _ => throw s!"ap_cubeof: bad layout {layout} for {vars.length} variables"

/-- op `ap_spec`: {layout, vars, survey, k[, q]} ↦ respondent-level counts and bases of partition k -/
def opSpec : Handler := fun j => do
  let layout ← getStr j "layout"
  let vars ← varsOfJson (← getField j "vars")
  let s ← surveyOfJson (← getField j "survey")
  let k ← getNat j "k"
  let u := unweight s
  let out (nr nc np : Nat) (f : Survey → Nat → Nat → List Bool → Rat)
      (fc fr fcol ft : List Bool) : Json :=
    let mk (sv : Survey) (fl : List Bool) : Json := jMat (tab2 nr nc (fun a b => Val.fin (f sv a b fl)))
    jObj [("counts", mk s fc), ("row_bases", mk s fr), ("column_bases", mk s fcol), ("table_bases", mk s ft),
          ("ucounts", mk u fc), ("urow_bases", mk u fr), ("ucolumn_bases", mk u fcol),
          ("utable_bases", mk u ft), ("npartitions", jNat np)]
  match layout, vars with
  | "s1", [A, X] =>
    pure (out (vext X) A.n (vnp A) (fun sv a b fl => specCount [A, X] sv [b, k, a] fl)
      [false, false, false] [false, false, false] [false, false, true] [false, false, true])
  | "s2", [A, X] =>
    pure (out (vext X) (vnp A) A.n (fun sv a b fl => specCount [A, X] sv [k, b, a] fl)
      [false, false, false] [false, true, false] [false, false, true] [false, true, true])
  | "fused", [M] => do
    let q ← getNat j "q"
    pure (out (vext M) q 1 (fun sv a b fl => fusedCount M sv a b (fl.getD 0 false))
      [false] [false] [true] [true])
  | _, _ => throw s!"ap_spec: bad layout {layout} for {vars.length} variables"

/-- op `ap_model`: {layout, vars, shape, data, k[, q | rv, cv]} ↦ extractor outputs of partition k from
    the RAW payload array (payload order) -/
def opModel : Handler := fun j => do
  let layout ← getStr j "layout"
  let shape ← getNats j "shape"
  let data ← getVals j "data"
  let k ← getNat j "k"
  let raw := FT.ofFlat shape data
  if layout == "aa" then
    let rv ← getNats j "rv"
    let cv ← getNats j "cv"
    pure (jObj [("npartitions", jNat 1), ("xtr", matCountsJson (sliceCountsAA rv cv raw))])
  else
    let vars ← varsOfJson (← getField j "vars")
    match layout, vars with
    | "s1", [A, X] => pure (jObj [("npartitions", jNat (nPartitionsS1 A X)), ("xtr", matCountsJson (sliceCountsS1 A X raw k))])
    | "s2", [A, X] => pure (jObj [("npartitions", jNat (nPartitionsS2 A X)), ("xtr", matCountsJson (sliceCountsS2 A X raw k))])
    | "fused", [M] => do
      let q ← getNat j "q"
      pure (jObj [("npartitions", jNat 1), ("xtr", matCountsJson (sliceCountsFused M q raw))])
    | _, _ => throw s!"ap_model: bad layout {layout} for {vars.length} variables"

def ops : List (String × Handler) :=
  [("ap_cubeof", opCubeOf), ("ap_spec", opSpec), ("ap_model", opModel)]

end CrCube.Driver.ArrPairs
