/-
  Driver op for C11 on categorical-array designs (layouts of `Driver/Arr.lean`).
-/
import CrCube.Driver.Arr
import CrCube.Spec.VarianceArrSpec

open Lean

namespace CrCube.Driver.StatsArr
open CrCube.Driver CrCube.Driver.Counts CrCube.Driver.Arr

def statsJson (spec : Val) (base : Rat) (mc : VarCell) : Json :=
  let se := stdErrSpec spec base
  jObj [("spec", jObj [("variance", valToJson spec), ("std_dev", outToJson (stdDevSpec spec)),
                       ("std_err", outToJson se), ("moe", outToJson (moeSpec se)),
                       ("base", valToJson (.fin base))]),
        ("model", jObj [("variance", valToJson mc.variance), ("std_dev", outToJson mc.stdDev),
                        ("std_err", outToJson mc.stdErr), ("moe", outToJson mc.moe)])]

/-- op `c11_arr`: {layout, vars, survey, k} ↦ {nr, nc, row|col|table: matrix of
    {spec: {variance, std_dev, std_err, moe, base}, model: {…}}} of partition k, every value from the SURVEY -/
def opC11Arr : Handler := fun j => do
  let layout ← getStr j "layout"
  let vars ← varsOfJson (← getField j "vars")
  let s ← surveyOfJson (← getField j "survey")
  let k ← getNat j "k"
  let r ← readingOf layout vars k
  let cell (dir : Dir) (f : List Bool) (i jx : Nat) : Json :=
    statsJson (arrVarianceSpec vars s (r.elems i jx) r.fCounts f) (arrBaseSpec vars s (r.elems i jx) f)
      (VarCell.ofArr vars s dir (r.elems i jx) r.fCounts f)
  let mk (dir : Dir) (f : List Bool) : Json :=
    Json.arr ((List.range r.nr).map (fun i =>
      Json.arr ((List.range r.nc).map (fun jx => cell dir f i jx)).toArray)).toArray
  pure (jObj [("nr", jNat r.nr), ("nc", jNat r.nc),
              ("row", mk .row r.fRow), ("col", mk .col r.fCol), ("table", mk .table r.fTable)])

def ops : List (String × Handler) := [("c11_arr", opC11Arr)]

end CrCube.Driver.StatsArr
