import CrCube.Driver.Proto
import CrCube.Model.Slice
import CrCube.Spec.SliceSpec

open Lean

namespace CrCube.Driver.Counts
open CrCube.Driver

def varOfJson (j : Json) : Except String Var := do
  let kind ← getStr j "kind"
  let n ← getNat j "n"
  let cm ← getBools j "catMissing"
  let isMR := getBoolD j "isMR" false
  pure { kind := if kind == "arr" then .arr else .cat, n := n, catMissing := cm, isMR := isMR }

def varsOfJson (j : Json) : Except String (List Var) := do
  (← getList j).mapM varOfJson

def respOfJson (j : Json) : Except String Resp := do
  let w ← getVal j "w"
  let a ← getNatMat (← getField j "ans")
  match w with
  | .fin q => pure { w := q, ans := a }
  | _ => throw "non-finite weight"

def surveyOfJson (j : Json) : Except String Survey := do
  (← getList j).mapM respOfJson

def dkOfString (s : String) : DK := if s == "mr" then .mr else if s == "arr" then .arr else .cat

def optVec (n : Nat) (o : Option (Nat → Val)) : Json :=
  match o with
  | none => .null
  | some f => jVals (tab1 n f)

def matCountsJson (m : MatCounts) : Json :=
  jObj [
    ("counts", jMat (tab2 m.nrows m.ncols m.counts)),
    ("row_bases", jMat (tab2 m.nrows m.ncols m.rowBases)),
    ("column_bases", jMat (tab2 m.nrows m.ncols m.columnBases)),
    ("table_bases", jMat (tab2 m.nrows m.ncols m.tableBases)),
    ("rows_base", optVec m.nrows m.rowsBase),
    ("columns_base", optVec m.ncols m.columnsBase),
    ("rows_table_base", optVec m.nrows m.rowsTableBase),
    ("columns_table_base", optVec m.ncols m.columnsTableBase),
    ("table_base", match m.tableBase with | none => .null | some v => valToJson v),
    ("rows_pruning_mask", jBools m.rowsPruningMask),
    ("columns_pruning_mask", jBools m.columnsPruningMask)]

/-- op `cubeof`: {vars, survey} ↦ flat raw cube (the tabulation contract, for the tabulator check) -/
def opCubeOf : Handler := fun j => do
  let vars ← varsOfJson (← getField j "vars")
  let s ← surveyOfJson (← getField j "survey")
  pure (jObj [("weighted", jVals (cubeFlat vars s)), ("unweighted", jVals (cubeFlat vars (unweight s))),
              ("shape", jNats (rawShapeOf vars))])

/-- op `xtr`: {rk, ck, shape, data} ↦ everything the extractor class exposes -/
def opXtr : Handler := fun j => do
  let rk := dkOfString (← getStr j "rk")
  let ck := dkOfString (← getStr j "ck")
  let shape ← getNats j "shape"
  let data ← getVals j "data"
  pure (matCountsJson (MatCounts.factory rk ck (FT.ofFlat shape data)))

/-- op `slice_counts`: {vars, data, k} ↦ extractor outputs of partition k from the RAW cube array -/
def opSliceCounts : Handler := fun j => do
  let vars ← varsOfJson (← getField j "vars")
  let data ← getVals j "data"
  let k ← getNat j "k"
  let raw := FT.ofFlat (rawShapeOf vars) data
  pure (jObj [("npartitions", jNat (nPartitions vars)),
              ("xtr", matCountsJson (sliceCounts vars raw k))])

/-- number of valid elements per apparent dimension -/
def apparentExtents (vars : List Var) : List Nat :=
  vars.flatMap (fun v => match v.kind with
    | .cat => [(validIdxs v.catMissing).length]
    | .arr => if v.isMR then [v.n] else [v.n, (validIdxs v.catMissing).length])

/-- op `slice_spec`: {vars, survey, k} ↦ respondent-level counts and bases of partition k
    (weighted and unweighted), straight from the property statements C01/C02 -/
def opSliceSpec : Handler := fun j => do
  let vars ← varsOfJson (← getField j "vars")
  let s ← surveyOfJson (← getField j "survey")
  let k ← getNat j "k"
  let ext := apparentExtents vars
  let nd := ext.length
  let nr := ext.getD (nd - 2) 0
  let nc := ext.getD (nd - 1) 0
  let pre : List Nat := if nd ≥ 3 then [k] else []
  let preM : List Bool := if nd ≥ 3 then [false] else []
  let mk (sv : Survey) (mr mc : Bool) : Json :=
    jMat (tab2 nr nc (fun i j => Val.fin (specCount vars sv (pre ++ [i, j]) (preM ++ [mr, mc]))))
  let u := unweight s
  pure (jObj [("counts", mk s false false), ("row_bases", mk s false true),
              ("column_bases", mk s true false), ("table_bases", mk s true true),
              ("ucounts", mk u false false), ("urow_bases", mk u false true),
              ("ucolumn_bases", mk u true false), ("utable_bases", mk u true true)])

def ops : List (String × Handler) :=
  [("cubeof", opCubeOf), ("xtr", opXtr), ("slice_counts", opSliceCounts),
   ("slice_spec", opSliceSpec)]

end CrCube.Driver.Counts
