import CrCube.Driver.Pipeline
import CrCube.Model.MinBaseMask

open Lean

/-!
  Driver ops for the minimum-base masks of C02 on DISPLAYED partitions (transforms applied):
  the end-to-end pipeline model (Model/Pipeline.lean) assembles the unweighted bases, the mask
  model (Model/MinBaseMask.lean) compares them with the threshold.

    `mask_slice`  : {vars, wdata, udata, k, rows: dim, cols: dim, size, survey?}
    `mask_strand` : {vars, wdata, udata, rows: dim, size, survey?}
    `mask_vec`    : {bases: [val], size}            (plain mask model on given bases)
-/

namespace CrCube.Driver.Mask
open CrCube.Driver CrCube.Collator CrCube.Pipeline CrCube.Driver.Pipeline

def valMatOfJson (j : Json) : Except String (List (List Val)) := do
  (← getList j).mapM (fun r => do (← getList r).mapM valOfJson)

def opMaskSlice : Handler := fun j => do
  let vars ← Counts.varsOfJson (← getField j "vars")
  let wdata ← getVals j "wdata"
  let udata ← getVals j "udata"
  let k ← getNat j "k"
  let size ← getVal j "size"
  let rows ← tdimOfJson (← getField j "rows")
  let cols ← tdimOfJson (← getField j "cols")
  let sh := rawShapeOf vars
  let c : CubeData := { vars := vars, wraw := ftOfFlat sh wdata, uraw := ftOfFlat sh udata, k := k
                        sums := none, means := none, stddevs := none, medians := none }
  let spec ← if hasField j "survey" then do
      let s ← Counts.surveyOfJson (← getField j "survey")
      pure (specJson vars s k)
    else pure .null
  match rows.resolve, cols.resolve with
  | some r, some cl =>
    let o := runSlice c r cl
    let rb := o.mat .rowBasesU
    let cb := o.mat .colBasesU
    let tb := o.mat .tableBasesU
    pure (jObj [("row_order", jInts o.rowOrder), ("column_order", jInts o.colOrder),
                ("diff_row_idxs", jNats o.diffRowIdxs), ("diff_column_idxs", jNats o.diffColIdxs),
                ("row_unweighted_bases", jMat rb), ("column_unweighted_bases", jMat cb),
                ("table_unweighted_bases", jMat tb),
                ("row_mask", jBoolMat (MinBaseMask.matMask rb size)),
                ("column_mask", jBoolMat (MinBaseMask.matMask cb size)),
                ("table_mask", jBoolMat (MinBaseMask.matMask tb size)),
                ("wf", .bool (decide (SliceWF c r cl))),
                ("spec", spec)])
  | _, _ => pure (jObj [("raises", .str "ValueError")])

def opMaskStrand : Handler := fun j => do
  let vars ← Counts.varsOfJson (← getField j "vars")
  let wdata ← getVals j "wdata"
  let udata ← getVals j "udata"
  let size ← getVal j "size"
  let d ← tdimOfJson (← getField j "rows")
  let sh := rawShapeOf vars
  let c : StrandData := { vars := vars, wraw := ftOfFlat sh wdata, uraw := ftOfFlat sh udata
                          sums := none, means := none, stddevs := none, medians := none }
  let spec ← if hasField j "survey" then do
      let s ← Counts.surveyOfJson (← getField j "survey")
      pure (strandSpecJson vars s)
    else pure .null
  match d.resolve with
  | some r =>
    let o := runStrand c r
    let ub := o.vec .basesU
    pure (jObj [("row_order", jInts o.rowOrder), ("diff_row_idxs", jNats o.diffRowIdxs),
                ("unweighted_bases", jVals ub),
                ("mask", jBools (MinBaseMask.vecMask ub size)),
                ("wf", .bool (decide (StrandWF c r))),
                ("spec", spec)])
  | none => pure (jObj [("raises", .str "ValueError")])

def opMaskVec : Handler := fun j => do
  let bases ← getVals j "bases"
  let size ← getVal j "size"
  pure (jObj [("mask", jBools (MinBaseMask.vecMask bases size))])

def opMaskMat : Handler := fun j => do
  let bases ← valMatOfJson (← getField j "bases")
  let size ← getVal j "size"
  pure (jObj [("mask", jBoolMat (MinBaseMask.matMask bases size))])

def ops : List (String × Handler) :=
  [("mask_slice", opMaskSlice), ("mask_strand", opMaskStrand), ("mask_vec", opMaskVec), ("mask_mat", opMaskMat)]

end CrCube.Driver.Mask
