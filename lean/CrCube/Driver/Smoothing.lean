import CrCube.Driver.Proto
import CrCube.Model.Smoothing
import CrCube.Spec.SmoothingSpec

open Lean

namespace CrCube.Driver.Smoothing
open CrCube.Driver CrCube.Smoothing

/-- optional field: absent or null ↦ none -/
def optField (j : Json) (k : String) : Option Json :=
  match j.getObjVal? k with
  | .ok .null => none
  | .ok v => some v
  | .error _ => none

def dictOfJson (j : Json) : Except String SmoothingDict := do
  let f ← match optField j "function" with
    | none => pure none
    | some v => do pure (some (← v.getStr?))
  let w ← match optField j "window" with
    | none => pure none
    | some v => do pure (some (← v.getInt?))
  pure { function := f, window := w }

def getMats (j : Json) (k : String) : Except String (List (List (List Val))) := do
  (← getList (← getField j k)).mapM getValMat

def blocksOfJson (j : Json) : Except String Blocks := do
  pure { base := ← getMat j "base", subCols := ← getMat j "sub_cols",
         subRows := ← getMat j "sub_rows", inter := ← getMat j "inter" }

def blocksToJson (b : Blocks) : Json :=
  jObj [("base", jMat b.base), ("sub_cols", jMat b.subCols), ("sub_rows", jMat b.subRows),
        ("inter", jMat b.inter)]

/-- op `smooth`: {smoother: {function?, window?}, cat_date, series: [1-D…], mats: [2-D…]}
    ↦ model (`smooth1`/`smooth2` after `factory`) and spec (`smoothed`/`smoothedRows`) for each array,
    or {"raises": …} when the factory raises. -/
def opSmooth : Handler := fun j => do
  let d ← dictOfJson (← getField j "smoother")
  let cd ← getBool j "cat_date"
  let series ← (← getList (← getField j "series")).mapM getValList
  let mats ← getMats j "mats"
  let w := SmoothingSpec.windowOf d.window
  let spec := jObj [
    ("window", jInt w),
    ("series", .arr (series.map (fun v => jVals (SmoothingSpec.smoothed cd w v))).toArray),
    ("mats", .arr (mats.map (fun m => jMat (SmoothingSpec.smoothedRows cd w m))).toArray)]
  match factory d cd with
  | .error e => pure (jObj [("raises", .str e), ("spec", spec)])
  | .ok s =>
    pure (jObj [
      ("window", jInt s.window),
      ("series", .arr (series.map (fun v => jVals (s.smooth1 v))).toArray),
      ("mats", .arr (mats.map (fun m => jMat (s.smooth2 m))).toArray),
      ("spec", spec)])

/-- op `smoothed_measures`: {smoother, cat_date, colprops: Blocks, body: 2-D (column index or means),
    nr, nc, values: numeric values of the rows dimension, strand: 1-D means}
    ↦ model + spec of the smoothed measure variants. -/
def opSmoothedMeasures : Handler := fun j => do
  let d ← dictOfJson (← getField j "smoother")
  let cd ← getBool j "cat_date"
  let cp ← blocksOfJson (← getField j "colprops")
  let body ← getMat j "body"
  let nr ← getNat j "nr"
  let nc ← getNat j "nc"
  let values ← getVals j "values"
  let strand ← getVals j "strand"
  let w := SmoothingSpec.windowOf d.window
  let specCp : Blocks := { cp with base := SmoothingSpec.smoothedRows cd w cp.base,
                                   subRows := SmoothingSpec.smoothedRows cd w cp.subRows }
  let specBody := SmoothingSpec.smoothedRows cd w body
  let specSm := (List.range (lastDim specCp.base)).map
    (fun c => SmoothingSpec.scaleMean values (column specCp.base c))
  let spec := jObj [("colprops", blocksToJson specCp), ("body", jMat specBody),
                    ("scale_mean", jVals specSm),
                    ("strand", jVals (SmoothingSpec.smoothed cd w strand))]
  match factory d cd with
  | .error e => pure (jObj [("raises", .str e), ("spec", spec)])
  | .ok s =>
    let sm := smoothedColumnsScaleMean s values cp
    let nb := smoothedNanSubtotals s body body.length (lastDim body) nr nc
    pure (jObj [
      ("colprops", blocksToJson (smoothedColumnProportions s cp)),
      ("body", blocksToJson nb),
      ("scale_mean", jVals sm.1), ("scale_mean_subcols", jVals sm.2),
      ("strand", jVals (smoothedMeansStripe s strand)),
      ("spec", spec)])

def ops : List (String × Handler) :=
  [("smooth", opSmooth), ("smoothed_measures", opSmoothedMeasures)]

end CrCube.Driver.Smoothing
