/-
  Driver ops for the glue model (Model/Glue.lean, Model/CubeSet.lean, Spec/GlueRender.lean):
    glue_dims     {dicts}                                  dimension-level seams
    glue_cube     {arg, ord, cube_idx}                     cube-level seams + the decoded typed design
    glue_render   {vars}                                   the response-format specification, rendered
    glue_inflate  {resp, ord}    glue_augment {summary, resp}
    glue_cubeset  {responses, transforms, ord}             CubeSet seams
-/
import CrCube.Driver.Proto
import CrCube.Driver.Population
import CrCube.Model.Glue
import CrCube.Model.CubeSet
import CrCube.Spec.GlueRender

open Lean

namespace CrCube.Driver.Glue
open CrCube CrCube.Driver CrCube.Glue
open CrCube.Driver.Population (jOfJson)

/-- model JSON → Lean JSON; non-integral numbers travel as {"__rat__": "p/q"} -/
partial def jToJson : J → Json
  | .null => .null
  | .bool b => .bool b
  | .num q => if q.den == 1 then .num (JsonNumber.fromInt q.num)
              else Json.mkObj [("__rat__", .str (Val.fin q).toStr)]
  | .str s => .str s
  | .arr l => .arr (l.map jToJson).toArray
  | .obj kvs => Json.mkObj (kvs.map (fun p => (p.1, jToJson p.2)))

def raises (e : GErr) : Json := jObj [("raises", .str e.name)]

def rJson (f : α → Json) : R α → Json
  | .ok a => f a
  | .error e => raises e

def jStrs (l : List String) : Json := .arr (l.map Json.str).toArray

def typesJson (l : List DT) : Json := jStrs (l.map DT.name)

/-- `json.loads` as executed by the driver -/
def loads (s : String) : R J :=
  match Json.parse s with
  | .ok j => .ok (jOfJson j)
  | .error _ => .error .jsonDecodeError

def dkName : DK → String
  | .cat => "cat"
  | .mr => "mr"
  | .arr => "arr"

def tvarJson (t : TVar) : Json :=
  jObj [("kind", .str (match t.var.kind with | .cat => "cat" | .arr => "arr")),
        ("n", jNat t.var.n), ("catMissing", jBools t.var.catMissing), ("isMR", .bool t.var.isMR),
        ("transposed", .bool t.transposed), ("itemPos", jNats t.itemPos), ("nItems", jNat t.nItems)]

def tvarsJson (l : List TVar) : Json := .arr (l.map tvarJson).toArray

def dimJson (x : Dim) : Json :=
  jObj [("type", .str x.dt.name),
        ("shape", rJson jNat x.shape),
        ("valid_idxs", rJson jNats x.validIdxs),
        ("missing", rJson jBools (missingFlags x)),
        ("alias", rJson jToJson x.alias)]

/-- op `glue_dims` -/
def opDims : Handler := fun j => do
  let dicts := (← getList (← getField j "dicts")).map jOfJson
  let fd := fromDicts dicts
  pure (jObj [
    ("types_each", .arr (dicts.map (fun d => rJson (fun t => Json.str t.name) (dimensionType d))).toArray),
    ("from_dicts", rJson (fun ds => typesJson (ds.map (·.dt))) fd),
    ("dims", rJson (fun ds => .arr (ds.map dimJson).toArray) fd),
    ("shape", rJson jNats (fd >>= dimsShape)),
    ("apparent", rJson (fun ds => typesJson ((apparent ds).map (·.dt))) fd),
    ("decode", rJson tvarsJson (decodeDims dicts))])

/-- the order in which the library lists the numeric measures: declaration order (fix F40) -/
def ordOf (_ : Json) : Except String (List String) := pure numericMeasures

def cubeIdxOf (j : Json) : Option Nat :=
  match j.getObjVal? "cube_idx" with
  | .ok v => match v.getNat? with | .ok n => some n | .error _ => none
  | .error _ => none

def partsJson (l : List (PClass × Nat)) : Json :=
  .arr (l.map (fun p => jObj [("cls", .str p.1.name), ("k", jNat p.2)])).toArray

/-- op `glue_cube` -/
def opCube : Handler := fun j => do
  let arg := jOfJson (← getField j "arg")
  let ord ← ordOf j
  let ci := cubeIdxOf j
  let resp := cubeResponse loads arg
  let on {α} (f : J → R α) : R α := resp >>= f
  pure (jObj [
    ("response", rJson jToJson resp),
    ("dimension_types", rJson typesJson (on (dimensionTypes ord))),
    ("all_types", rJson (fun ds => typesJson (ds.map (·.dt))) (on (allDimensions ord))),
    ("ndim", rJson jNat (on (ndim ord))),
    ("shape", rJson jNats (on fun r => do dimsShape (← allDimensions ord r))),
    ("valid_idxs", rJson (fun l => .arr (l.map jNats).toArray)
        (on fun r => do mapR Dim.validIdxs (← allDimensions ord r))),
    ("numeric_array_dim", rJson (fun o => match o with | some d => jToJson d | none => .null)
        (on (numericArrayDimension ord))),
    ("ca_as_0th", rJson Json.bool (on (caAs0th ord ci))),
    ("partitions", rJson partsJson (on (partitions ord ci))),
    ("is_single_filter_col_cube", rJson Json.bool (on isSingleFilterCol)),
    ("n_responses", rJson jToJson (on nResponses)),
    ("decode", rJson tvarsJson (decode loads ord arg)),
    ("kinds", rJson (fun l => jStrs (l.map dkName)) (libraryKinds loads ord arg))])

/-! ### the response-format specification -/

def optBoolOf (j : Json) (k : String) : Except String (Option (Option Bool)) :=
  match j.getObjVal? k with
  | .error _ => pure none
  | .ok .null => pure (some none)
  | .ok v => do pure (some (some (← v.getBool?)))

def extraOf (j : Json) (k : String) : Except String (List (String × J)) :=
  match j.getObjVal? k with
  | .error _ => pure []
  | .ok (.obj kvs) => pure (kvs.toList.map (fun (p : String × Json) => (p.1, jOfJson p.2)))
  | .ok _ => throw "extra must be an object"

def rcatOf (j : Json) : Except String RCat := do
  pure { id := ← getInt j "id", missing := ← optBoolOf j "missing",
         selected := getBoolD j "selected" false,
         date := match j.getObjVal? "date" with | .ok (.str s) => some s | _ => none,
         extra := ← extraOf j "extra" }

def relemOf (j : Json) : Except String RElem := do
  pure { id := ← getInt j "id", missing := ← optBoolOf j "missing",
         value := jOfJson (← getField j "value"), extra := ← extraOf j "extra" }

def ritemOf (j : Json) : Except String RItem := do
  pure { id := ← getInt j "id", missing := ← optBoolOf j "missing",
         refs := ← extraOf j "refs", valueExtra := ← extraOf j "value_extra",
         extra := ← extraOf j "extra" }

def rkindOf (s : String) : Except String RKind :=
  match s with
  | "cat" => pure .cat | "cat_date" => pure .catDate | "logical" => pure .logical
  | "datetime" => pure .datetime | "text" => pure .text | "binned" => pure .binned
  | "mr" => pure .mr | "ca" => pure .ca
  | _ => throw s!"bad kind {s}"

def rvarOf (j : Json) : Except String RVar := do
  let cats ← (← getList (getFieldD j "cats" (.arr #[]))).mapM rcatOf
  let perm ← match j.getObjVal? "typedef_perm" with
    | .ok .null => pure none
    | .ok v => do pure (some (← getNatList v))
    | .error _ => pure none
  pure { kind := ← rkindOf (← getStr j "kind"), alias := ← getStr j "alias",
         cats := cats, typedefPerm := perm,
         elems := ← (← getList (getFieldD j "elems" (.arr #[]))).mapM relemOf,
         items := ← (← getList (getFieldD j "items" (.arr #[]))).mapM ritemOf,
         transposed := getBoolD j "transposed" false,
         refsExtra := ← extraOf j "refs_extra", typeExtra := ← extraOf j "type_extra",
         subtypeExtra := ← extraOf j "subtype_extra",
         catTypeExtra := ← extraOf j "cat_type_extra", dimExtra := ← extraOf j "dim_extra" }

/-- op `glue_render`: {vars, result_extra} ↦ the rendered dimension dicts, whether the design is
    well-formed (the hypothesis of the round-trip theorem), and the typed design the SPEC assigns -/
def opRender : Handler := fun j => do
  let vars ← (← getList (← getField j "vars")).mapM rvarOf
  pure (jObj [("dims", .arr ((renderDims vars).map jToJson).toArray),
              ("well_formed", .bool (wfDesignB vars)),
              ("design", tvarsJson (designOf vars)),
              ("kinds", jStrs ((designKinds vars).map dkName))])

/-! ### CubeSet -/

def cubeStJson (c : CubeSt) (ord : List String) : Json :=
  let resp := c.resp loads
  jObj [("cube_idx", match c.cubeIdx with | some n => jNat n | none => .null),
        ("response", rJson jToJson resp),
        ("dimension_types", rJson typesJson (resp >>= dimensionTypes ord)),
        ("ndim", rJson jNat (resp >>= ndim ord)),
        ("partitions", rJson partsJson (resp >>= partitions ord c.cubeIdx))]

def partJson (p : Part) : Json := jObj [("cube", jNat p.cube), ("cls", .str p.cls.name), ("k", jNat p.sliceIdx)]

/-- op `glue_inflate` -/
def opInflate : Handler := fun j => do
  let resp := jOfJson (← getField j "resp")
  let ord ← ordOf j
  let once := inflateDict ord resp
  pure (jObj [("once", rJson jToJson once), ("twice", rJson jToJson (once >>= inflateDict ord))])

/-- op `glue_augment` -/
def opAugment : Handler := fun j => do
  let resp := jOfJson (← getField j "resp")
  let summary := jOfJson (← getField j "summary")
  pure (jObj [("result", rJson (fun o => match o with | some d => jToJson d | none => .str "self")
                (augmentDict loads summary resp))])

/-- op `glue_cubeset` -/
def opCubeSet : Handler := fun j => do
  let rs := (← getList (← getField j "responses")).map jOfJson
  let ts := jOfJson (← getField j "transforms")
  let ord ← ordOf j
  let cs := cubes loads ord rs ts
  pure (jObj [
    ("multi", .bool (isMultiCube rs)),
    ("numeric", rJson Json.bool (isNumericMeasure loads ord rs)),
    ("cubes", rJson (fun l => .arr (l.map (cubeStJson · ord)).toArray) cs),
    ("objs_after", rJson (fun l => .arr (l.map jToJson).toArray) (objsAfter loads ord rs ts)),
    ("partition_sets", rJson (fun ps => .arr (ps.map (fun s => .arr (s.map partJson).toArray)).toArray)
        (partitionSets loads ord rs ts)),
    ("is_ca_as_0th", rJson Json.bool (setIsCaAs0th loads ord rs ts)),
    ("has_weighted_counts", rJson Json.bool (setHasWeightedCounts loads ord rs ts)),
    ("n_responses", rJson jToJson (setNResponses loads ord rs ts)),
    ("population_fraction", rJson valToJson (setPopulationFraction loads ord rs ts)),
    -- like-for-like re-use: a second CubeSet over the caller's objects as the first one left them
    ("reuse_cubes", rJson (fun l => .arr (l.map (cubeStJson · ord)).toArray)
        (objsAfter loads ord rs ts >>= fun rs' => cubes loads ord rs' ts))])

/-! ### cell values of the partitions of a CubeSet through the EXISTING count extractors -/

def valsOfJ (j : J) : Option (List Val) :=
  match j with
  | .arr l => l.mapM (fun x => match x with
      | .num q => some (Val.fin q)
      | .null => some Val.nan
      | _ => none)
  | _ => none

/-- positions kept on every raw axis when the items flagged missing are dropped (what the typed
    design assumes): arrays keep their valid items and ALL categories -/
def dropAxes (tv : List TVar) : List (List Nat) :=
  tv.flatMap (fun t => match t.var.kind with
    | .cat => [List.range t.var.n]
    | .arr => [t.itemPos, List.range t.var.catMissing.length])

def countsJson (cls : PClass) (ca0 : Bool) (vars : List Var) (raw : FT) (k : Nat) : Json :=
  match cls with
  | .nub => valToJson (raw.get [])
  | .strand =>
    let sc := if ca0 then StripeCounts.cat ((validCube vars raw).slice0 k) else strandCounts vars raw
    jVals (tab1 sc.n sc.counts)
  | .slice =>
    let m := sliceCounts vars raw k
    jMat (tab2 m.nrows m.ncols m.counts)

/-- counts (unweighted from `result.counts`, weighted from `measures.count.data` when present) of one
    partition of one cube, computed by decoding the cube's (possibly inflated / augmented) response and
    running the existing count extractors on the decoded design -/
def partCounts (ord : List String) (c : CubeSt) (p : Part) : R Json := do
  let resp ← c.resp loads
  let tv ← decodeDims (← allDimensionDicts ord resp)
  let shape ← dimsShape (← allDimensions ord resp)
  let ca0 ← caAs0th ord c.cubeIdx resp
  let result ← item resp "result"
  let ucounts ← item result "counts"
  let ms ← Glue.get result "measures" J.empty
  let wdata ← Glue.get (← Glue.get ms "count" J.empty) "data" .null
  let vars := tv.map (·.var)
  let mk (data : J) : Json :=
    match valsOfJ data with
    | none => .null
    | some vals =>
      if vals.length != prodL shape then .null
      else countsJson p.cls ca0 vars ((FT.ofFlat shape vals).take (dropAxes tv)) p.sliceIdx
  pure (jObj [("cube", jNat p.cube), ("cls", .str p.cls.name), ("k", jNat p.sliceIdx),
              ("unweighted", mk ucounts), ("weighted", if isNull wdata then mk ucounts else mk wdata)])

/-- op `glue_part_counts`: {responses, transforms, ord} ↦ for every partition set, for every member,
    its counts through decode + the existing extractors -/
def opPartCounts : Handler := fun j => do
  let rs := (← getList (← getField j "responses")).map jOfJson
  let ts := jOfJson (← getField j "transforms")
  let ord ← ordOf j
  let r : R Json := do
    let cs ← cubes loads ord rs ts
    let sets ← partitionSets loads ord rs ts
    let out ← mapR (fun (st : List Part) => do
        let l ← mapR (fun (p : Part) => match cs[p.cube]? with
          | some c => (match partCounts ord c p with
            | .error .unsupported => .ok Json.null      -- outside the typed design space (numeric arrays)
            | r => r)
          | none => .error .indexError) st
        pure (Json.arr l.toArray)) sets
    pure (Json.arr out.toArray)
  pure (jObj [("sets", rJson id r)])

def ops : List (String × Handler) :=
  [("glue_dims", opDims), ("glue_cube", opCube), ("glue_render", opRender),
   ("glue_inflate", opInflate), ("glue_augment", opAugment), ("glue_cubeset", opCubeSet),
   ("glue_part_counts", opPartCounts)]

end CrCube.Driver.Glue
