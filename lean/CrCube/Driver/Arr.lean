/-
  Driver ops for categorical arrays crossed with another variable and for the transposed
  (categories × items) layout — C01_Arr / C02_Arr.

  layouts:  "tXca"  vars = [T, A]        partition k = element k of T          (ARR×CAT slice)
            "caXx"  vars = [A, X]        partition k = item k                  (CAT×CAT / CAT×MR)
            "ca"    vars = [A]           one slice                             (ARR×CAT)
            "caT"   vars = [A]  transposed payload, one slice                  (CAT×ARR)
            "caTXx" vars = [A, X] transposed payload, partition k = category k (ARR×CAT / ARR×MR)
            "tXcaT" vars = [T, A] A transposed, partition k = element k of T   (CAT×ARR)
            "ca0"   vars = [A]  CA-as-0th: strand k = item k
-/
import CrCube.Driver.Counts
import CrCube.Model.SliceArr

open Lean

namespace CrCube.Driver.Arr
open CrCube.Driver CrCube.Driver.Counts

def stripeJson (m : StripeCounts) : Json :=
  jObj [("counts", jVals (tab1 m.n m.counts)), ("bases", jVals (tab1 m.n m.bases)),
        ("table_base", match m.tableBase with | none => .null | some v => valToJson v),
        ("pruning_base", jVals (tab1 m.n m.pruningBase))]

/-- the respondent-level statement of each output, per layout:
    (nrows, ncols, elems of cell (i, j) of partition k, flags of counts / row / column / table base) -/
structure Reading where
  nr : Nat
  nc : Nat
  elems : Nat → Nat → List Nat
  fCounts : List Bool
  fRow : List Bool
  fCol : List Bool
  fTable : List Bool

def vext (v : Var) : Nat := match v.kind with | .cat => (validIdxs v.catMissing).length | .arr => v.n
def vnp (v : Var) : Nat := (validIdxs v.catMissing).length

def readingOf (layout : String) (vars : List Var) (k : Nat) : Except String Reading :=
  match layout, vars with
  | "tXca", [_, A] => pure ⟨A.n, vnp A, fun i j => [k, i, j],
      [false, false, false], [false, false, true], [false, true, false], [false, true, true]⟩
  | "caXx", [A, X] => pure ⟨vnp A, vext X, fun i j => [k, i, j],
      [false, false, false], [false, false, true], [false, true, false], [false, true, true]⟩
  | "ca", [A] => pure ⟨A.n, vnp A, fun i j => [i, j],
      [false, false], [false, true], [true, false], [true, true]⟩
  | "caT", [A] => pure ⟨vnp A, A.n, fun i j => [j, i],
      [false, false], [true, false], [false, true], [true, true]⟩
  | "tXcaT", [_, A] => pure ⟨vnp A, A.n, fun i j => [k, j, i],
      [false, false, false], [false, true, false], [false, false, true], [false, true, true]⟩
  | "caTXx", [A, X] => pure ⟨A.n, vext X, fun i j => [i, k, j],
      [false, false, false], [false, false, true], [false, false, false], [false, false, true]⟩
  | _, _ => throw s!"arr: bad layout {layout} for {vars.length} variables"

/-- op `arr_spec`: {layout, vars, survey, k} ↦ respondent-level counts and bases of partition k -/
def opArrSpec : Handler := fun j => do
  let layout ← getStr j "layout"
  let vars ← varsOfJson (← getField j "vars")
  let s ← surveyOfJson (← getField j "survey")
  let k ← getNat j "k"
  let u := unweight s
  if layout == "ca0" then
    match vars with
    | [A] =>
      let n := vnp A
      let mk (sv : Survey) (m : Bool) : Json :=
        jVals (tab1 n (fun i => Val.fin (specCount [A] sv [k, i] [false, m])))
      pure (jObj [("counts", mk s false), ("bases", mk s true),
                  ("ucounts", mk u false), ("ubases", mk u true), ("npartitions", jNat A.n)])
    | _ => throw "arr: ca0 needs one variable"
  else
    let r ← readingOf layout vars k
    let mk (sv : Survey) (f : List Bool) : Json :=
      jMat (tab2 r.nr r.nc (fun i j => Val.fin (specCount vars sv (r.elems i j) f)))
    let np : Nat := match layout, vars with
      | "tXca", [T, _] => vext T
      | "tXcaT", [T, _] => vext T
      | "caXx", [A, _] => A.n
      | "caTXx", [A, _] => vnp A
      | _, _ => 1
    pure (jObj [("counts", mk s r.fCounts), ("row_bases", mk s r.fRow),
                ("column_bases", mk s r.fCol), ("table_bases", mk s r.fTable),
                ("ucounts", mk u r.fCounts), ("urow_bases", mk u r.fRow),
                ("ucolumn_bases", mk u r.fCol), ("utable_bases", mk u r.fTable),
                ("npartitions", jNat np)])

/-- op `arr_cubeof`: {layout, vars, survey} ↦ flat raw cube in PAYLOAD order
    (the tabulation contract incl. its transposed rendering, for the tabulator check) -/
def opArrCubeOf : Handler := fun j => do
  let vars ← varsOfJson (← getField j "vars")
  let s ← surveyOfJson (← getField j "survey")
  let layout ← getStr j "layout"
  let mk (f : Survey → FT) : Json :=
    jObj [("weighted", jVals (f s).flat), ("unweighted", jVals (f (unweight s)).flat), ("shape", jNats (f s).shape)]
  match layout, vars with
  | "tXcaT", [T, A] => pure (mk (cubeOfTT T A))
  | "caT", [A] => pure (mk (cubeOfT A []))
  | "caTXx", [A, X] => pure (mk (cubeOfT A [X]))
  | _, _ => pure (mk (cubeOf vars))

/-- op `arr_model`: {layout, vars, shape, data, k} ↦ extractor outputs of partition k from the RAW
    payload array (payload order, i.e. transposed for the `caT…` layouts) -/
def opArrModel : Handler := fun j => do
  let layout ← getStr j "layout"
  let vars ← varsOfJson (← getField j "vars")
  let shape ← getNats j "shape"
  let data ← getVals j "data"
  let k ← getNat j "k"
  let raw := FT.ofFlat shape data
  match layout, vars with
  | "caT", [A] => pure (jObj [("npartitions", jNat (nPartitionsT A [])), ("xtr", matCountsJson (sliceCountsT A [] raw k))])
  | "tXcaT", [T, A] => pure (jObj [("npartitions", jNat (vext T)), ("xtr", matCountsJson (sliceCountsTT T A raw k))])
  | "caTXx", [A, X] => pure (jObj [("npartitions", jNat (nPartitionsT A [X])), ("xtr", matCountsJson (sliceCountsT A [X] raw k))])
  | "ca0", [A] => pure (jObj [("npartitions", jNat A.n), ("stripe", stripeJson (strandCountsCA0 A raw k))])
  | _, _ => pure (jObj [("npartitions", jNat (nPartitions vars)), ("xtr", matCountsJson (sliceCounts vars raw k))])

def ops : List (String × Handler) :=
  [("arr_spec", opArrSpec), ("arr_cubeof", opArrCubeOf), ("arr_model", opArrModel)]

end CrCube.Driver.Arr
