import CrCube.Driver.SliceApi
import CrCube.Model.NumericMeasures
import CrCube.Spec.NumericSpec
import CrCube.Model.ValidCountsSummary
import CrCube.Spec.ValidCountsSummarySpec

open Lean

namespace CrCube.Driver.Numeric
open CrCube.Driver CrCube.Driver.Counts CrCube.Driver.SliceApi

def pcellOfJson (j : Json) : Except String PCell :=
  match j with
  | .null => pure .null
  | .obj _ => do
    let c ← (← getField j "?").getInt?
    pure (.unavail c)
  | _ => do
    match ← valOfJson j with
    | .fin q => pure (.num q)
    | _ => throw "non-finite payload number"

def optField (j : Json) (k : String) : Option Json :=
  match j.getObjVal? k with
  | .ok .null => none
  | .ok v => some v
  | .error _ => none

def optCells (j : Json) (k : String) : Except String (Option (List PCell)) :=
  match optField j k with
  | none => pure none
  | some v => do
    let l ← getList v
    pure (some (← l.mapM pcellOfJson))

def optVals (j : Json) (k : String) : Except String (Option (List Val)) :=
  match optField j k with
  | none => pure none
  | some v => do pure (some (← getValList v))

def optNat (j : Json) (k : String) : Except String (Option Nat) :=
  match optField j k with
  | none => pure none
  | some v => do pure (some (← v.getNat?))

def payloadsOfJson (j : Json) : Except String Payloads := do
  pure { counts := ← getVals j "counts"
         count := ← optVals j "count"
         mean := ← optCells j "mean"
         sum := ← optCells j "sum"
         stddev := ← optCells j "stddev"
         median := ← optCells j "median"
         vcu := ← optVals j "vcu"
         vcw := ← optVals j "vcw"
         missing := ← optNat j "missing"
         vcuNMissing := ← optNat j "vcu_n_missing"
         meanNMissing := ← optNat j "mean_n_missing"
         medianNMissing := ← optNat j "median_n_missing" }

def designOfJson (j : Json) : Except String NDesign := do
  let vars ← varsOfJson (← getField j "vars")
  let n ← optNat j "n_items"
  pure { vars := vars, numItems := n }

/-- nested-list rendering of a tensor -/
def ftJson (shape : List Nat) (get : List Nat → Val) : Json :=
  match shape with
  | [] => valToJson (get [])
  | s :: ss => .arr ((List.range s).map (fun i => ftJson ss (fun ix => get (i :: ix)))).toArray

def optFT (o : Option FT) : Json :=
  match o with
  | none => .null
  | some t => ftJson t.shape t.get

def optJ (o : Option Json) : Json := o.getD .null

def matJ (nr nc : Nat) (f : Nat → Nat → Val) : Json := jMat (tab2 nr nc f)

/-- public outputs of one `_Slice`.  Every assembled output goes through the display order,
    which needs the pruning mask of the UNWEIGHTED cube counts: when that array is unavailable
    (`Cube.unweighted_counts` indexes None) every output raises (rendered `null`). -/
def sliceJson (d : NDesign) (a : RawArrays) (k : Nat) (size : Val) : Json :=
  let orderOk := a.unweightedCubeCountsSrc.isSome
  let wc := (a.assembled a.weightedCubeCountsSrc).map (fun t => d.sliceCounts t k)
  let uc := (a.assembled a.unweightedCubeCountsSrc).map (fun t => d.sliceCounts t k)
  let num (src : Option FT) : Json :=
    match a.assembled src with
    | none => .null
    | some t =>
      let c := d.sliceArr t k
      matJ (c.dim 0) (numericNCols d.rk c) (d.sliceNumeric t k)
  let w (f : MatCounts → Json) : Json := optJ (wc.map f)
  let u (f : MatCounts → Json) : Json := optJ (uc.map f)
  -- not assembled (no display order involved): the ranges and a SCALAR table margin
  let wRaw := a.weightedCubeCountsSrc.map (fun t => d.sliceCounts t k)
  let tableMargin : Json :=
    match wRaw with
    | none => .null
    | some m => match m.tableMargin with
      | .scalar v => valToJson v
      | other => if orderOk then margJson other else .null
  jObj [
    ("counts", w fun m => jMat (m.mat m.counts)),
    ("unweighted_counts", u fun m => jMat (m.mat m.counts)),
    ("means", num a.means), ("sums", num a.sums), ("stddev", num a.stddev),
    ("medians", num a.medians),
    ("row_weighted_bases", w fun m => jMat (m.mat m.rowBases)),
    ("column_weighted_bases", w fun m => jMat (m.mat m.columnBases)),
    ("table_weighted_bases", w fun m => jMat (m.mat m.tableBases)),
    ("row_unweighted_bases", u fun m => jMat (m.mat m.rowBases)),
    ("column_unweighted_bases", u fun m => jMat (m.mat m.columnBases)),
    ("table_unweighted_bases", u fun m => jMat (m.mat m.tableBases)),
    ("rows_margin", w fun m => margJson m.rowsMargin),
    ("columns_margin", w fun m => margJson m.columnsMargin),
    ("rows_base", u fun m => margJson m.rowsMargin),
    ("columns_base", u fun m => margJson m.columnsMargin),
    ("table_margin", tableMargin),
    ("table_base", u fun m => margJson m.tableMargin),
    ("table_base_range", u fun m => jVals m.tableBasesRange),
    ("table_margin_range", optJ (wRaw.map fun m => jVals m.tableBasesRange)),
    ("row_mask", u fun m => jBoolMat (m.maskOf m.rowBases size)),
    ("column_mask", u fun m => jBoolMat (m.maskOf m.columnBases size)),
    ("table_mask", u fun m => jBoolMat (m.maskOf m.tableBases size))]

/-- public outputs of a `_Strand` -/
def strandJson (d : NDesign) (a : RawArrays) : Json :=
  let wc := (a.assembled a.weightedCubeCountsSrc).map d.strandCounts
  let uc := (a.assembled a.unweightedCubeCountsSrc).map d.strandCounts
  let num (src : Option FT) : Json :=
    match a.assembled src with
    | none => .null
    | some t => jVals (tab1 ((d.view t).dim 0) (d.strandNumeric t))
  let w (f : StripeCounts → Json) : Json := optJ (wc.map f)
  let u (f : StripeCounts → Json) : Json := optJ (uc.map f)
  let rng (c : StripeCounts) : Json :=
    let b := tab1 c.n c.bases
    jVals [MatCounts.vmin b, MatCounts.vmax b]
  jObj [
    ("counts", w fun c => jVals (tab1 c.n c.counts)),
    ("rows_margin", w fun c => jVals (tab1 c.n c.counts)),
    ("unweighted_counts", u fun c => jVals (tab1 c.n c.counts)),
    ("rows_base", u fun c => jVals (tab1 c.n c.counts)),
    ("means", num a.means), ("sums", num a.sums), ("stddev", num a.stddev),
    ("medians", num a.medians),
    ("weighted_bases", w fun c => jVals (tab1 c.n c.bases)),
    ("unweighted_bases", u fun c => jVals (tab1 c.n c.bases)),
    ("table_base_range", u rng),
    ("table_margin_range", optJ ((a.weightedCubeCountsSrc.map d.strandCounts).map rng))]

/-- public outputs of a `_Nub`; `table_base` is (pinned by the test-suite) the MEAN -/
def nubJson (d : NDesign) (a : RawArrays) : Json :=
  let sc (o : Option FT) : Json := optJ (o.map (fun t => valToJson (d.nubValue t)))
  let uc := a.unweightedCountsSrc.map d.nubValue
  jObj [
    ("means", sc a.means),
    ("table_base", sc a.means),
    ("unweighted_count", optJ (uc.map valToJson)),
    ("is_empty", optJ (uc.map (fun c => Json.bool (c.le (.fin 0) || c.isNan))))]

/-- op `num_api`: {vars, n_items, payload, size} ↦ every public output named in C01/C02
    for numeric measures / numeric arrays, on Cube and on each partition -/
def opNumApi : Handler := fun j => do
  let d ← designOfJson j
  let p ← payloadsOfJson (← getField j "payload")
  let size ← (match optField j "size" with | none => pure (Val.fin 0) | some v => valOfJson v)
  let shape := d.shape
  let a := p.arrays shape
  let cubeArr (o : Option FT) : Json := optFT (o.map d.view)
  let cube := jObj [
    ("counts", cubeArr a.countsWithMissings),
    ("unweighted_counts", cubeArr a.unweightedCountsSrc),
    ("weighted_counts", cubeArr a.weightedCountsSrc),
    ("has_weighted_counts", Json.bool a.hasWeightedCounts),
    ("means", cubeArr a.means), ("sums", cubeArr a.sums), ("stddev", cubeArr a.stddev),
    ("medians", cubeArr a.medians),
    ("unweighted_valid_counts", cubeArr a.uvalid),
    ("weighted_valid_counts", cubeArr a.wvalid),
    ("missing", jNat (p.missingCount a)),
    ("valid_counts_summary_range",
      match d.validCountsSummaryRange a with
      | none => .null
      | some (lo, hi) => jVals [lo, hi])]
  let nd := d.ndim
  let parts : List Json :=
    if nd = 0 then [nubJson d a]
    else if nd = 1 then [strandJson d a]
    else (List.range d.nPartitions).map (fun k => sliceJson d a k size)
  pure (jObj [("ndim", jNat nd), ("npartitions", jNat (if nd < 2 then 1 else d.nPartitions)),
              ("shape", jNats shape), ("order", jNats d.order),
              ("cube", cube), ("parts", .arr parts.toArray)])

/-- raw sub-index (back-end layout) of the apparent element positions `elems` of the grouping
    variables: valid category position, the item itself, the SELECTED plane of an MR variable -/
def rawIdxOf : List Var → List Nat → List Nat
  | [], _ => []
  | v :: vs, es =>
    let vi := validIdxs v.catMissing
    match v.kind with
    | .cat => [vi.getD (es.getD 0 0) 0] ++ rawIdxOf vs (es.drop 1)
    | .arr =>
      if v.isMR then [es.getD 0 0, vi.getD 0 0] ++ rawIdxOf vs (es.drop 1)
      else [es.getD 0 0, vi.getD (es.getD 1 0) 0] ++ rawIdxOf vs (es.drop 2)

/-- op `num_spec`: {vars, n_items, array, survey?, cells?: {name: [PCell]}} ↦ per partition the
    values properties C01/C02 demand:
      * `cells`: for every named payload list, the value the response carries for the cell
        (read from the BACK-END layout: (group raw index ++ [item]) -- no library permutation);
      * with a survey (answers to `vars` followed by the presence answer): respondent-level
        valid counts and bases, weighted and unweighted. -/
def opNumSpec : Handler := fun j => do
  let vars ← varsOfJson (← getField j "vars")
  let nOpt ← optNat j "n_items"
  let isArr := nOpt.isSome
  let n := nOpt.getD 1
  let ext := (if isArr then [n] else []) ++ apparentExtents vars
  let nd := ext.length
  let nparts := if nd < 3 then 1 else ext.getD 0 0
  -- apparent index list of a cell → (group element positions, item)
  let split (a : List Nat) : List Nat × Nat := if isArr then (a.tail, a.headD 0) else (a, 0)
  let splitB (a : List Bool) : List Bool := if isArr then a.tail else a
  let bshape := backendShape vars nOpt
  let cellsJ : List (String × List PCell) ←
    (match optField j "cells" with
     | none => pure []
     | some (.obj kvs) => (kvs.toList.mapM fun (k, v) => do
         let l ← getList v
         pure (k, ← l.mapM pcellOfJson))
     | some _ => throw "cells must be an object")
  let survey ← (match optField j "survey" with
    | none => pure none
    | some v => do pure (some (← surveyOfJson v)))
  let cellVal (data : List PCell) (a : List Nat) : Val :=
    let (g, item) := split a
    let ix := rawIdxOf vars g ++ (if isArr then [item] else [])
    ((data.getD (ravel bshape ix) (.unavail 0)).decode)
  let countVal (s : Survey) (a : List Nat) (fl : List Bool) : Val :=
    let (g, item) := split a
    .fin (numSpecCount vars n s g (splitB fl) item)
  let render (f : List Nat → Val) (k : Nat) : Json :=
    if nd = 0 then valToJson (f [])
    else if nd = 1 then jVals (tab1 (ext.getD 0 0) (fun i => f [i]))
    else
      let pre : List Nat := if nd ≥ 3 then [k] else []
      jMat (tab2 (ext.getD (nd - 2) 0) (ext.getD (nd - 1) 0) (fun i jx => f (pre ++ [i, jx])))
  let flags (k : Nat) (mr mc : Bool) : List Bool :=
    let _ := k
    if nd = 0 then [] else if nd = 1 then [mc] else (if nd ≥ 3 then [false] else []) ++ [mr, mc]
  let part (k : Nat) : Json :=
    let cj := cellsJ.map (fun (name, data) => (name, render (cellVal data) k))
    let sj : List (String × Json) :=
      match survey with
      | none => []
      | some s =>
        let u := unweight s
        let mk (sv : Survey) (mr mc : Bool) := render (fun a => countVal sv a (flags k mr mc)) k
        [("counts", mk s false false), ("row_bases", mk s false true),
         ("column_bases", mk s true false), ("table_bases", mk s true true),
         ("ucounts", mk u false false), ("urow_bases", mk u false true),
         ("ucolumn_bases", mk u true false), ("utable_bases", mk u true true)]
    jObj (cj ++ sj)
  let summary : Json :=
    match survey with
    | none => .null
    | some s =>
      match summarySpecRange vars nOpt (unweight s) with
      | none => .null
      | some (lo, hi) => jVals [lo, hi]
  pure (jObj [("ndim", jNat nd), ("npartitions", jNat nparts), ("summary_range", summary),
              ("parts", .arr ((List.range nparts).map part).toArray)])

def ops : List (String × Handler) :=
  [("num_api", opNumApi), ("num_spec", opNumSpec)]

end CrCube.Driver.Numeric
