import CrCube.Driver.Proto
import CrCube.Driver.Counts
import CrCube.Model.Slice
import CrCube.Model.Subtotals
import CrCube.Model.SubtotalMeasures
import CrCube.Spec.SubtotalSpec

open Lean

namespace CrCube.Driver.Subtotals
open CrCube.Driver

/-! JSON shapes
  subtotal   : [[addend idxs], [subtrahend idxs]]
  insertion  : {"fn": bool, "hide": bool, "an": bool, "kwpos": [int], "args": [int], "neg": [int]}
  dimension  : {"validIds": [int], "view": [insertion], "transform": [insertion] | null,
                "array": bool, "catdate": bool}
-/

def subOfJson (j : Json) : Except String Subtotal := do
  match (← getNatMat j) with
  | [a, s] => pure ⟨a, s⟩
  | _ => throw "subtotal must be [[addends],[subtrahends]]"

def subsOfJson (j : Json) : Except String (List Subtotal) := do
  (← getList j).mapM subOfJson

def subToJson (s : Subtotal) : Json := .arr #[jNats s.addendIdxs, jNats s.subtrahendIdxs]
def subsToJson (l : List Subtotal) : Json := .arr (l.map subToJson).toArray

def insOfJson (j : Json) : Except String Insertion := do
  pure { isSubtotalFn := getBoolD j "fn" true
         hide := getBoolD j "hide" false
         hasAnchorName := getBoolD j "an" true
         kwPositive := ← (if hasField j "kwpos" then getInts j "kwpos" else pure [])
         args := ← (if hasField j "args" then getInts j "args" else pure [])
         negative := ← (if hasField j "neg" then getInts j "neg" else pure []) }

def insListOfJson (j : Json) : Except String (List Insertion) := do
  (← getList j).mapM insOfJson

structure DimJ where
  validIds : List Int
  view : List Insertion
  transform : Option (List Insertion)
  isArray : Bool
  catDate : Bool

def dimOfJson (j : Json) : Except String DimJ := do
  let validIds ← getInts j "validIds"
  let view ← (if hasField j "view" then do insListOfJson (← getField j "view") else pure [])
  let tr ← match j.getObjVal? "transform" with
    | .ok .null => pure none
    | .ok t => do pure (some (← insListOfJson t))
    | .error _ => pure none
  pure { validIds := validIds, view := view, transform := tr
         isArray := getBoolD j "array" false, catDate := getBoolD j "catdate" false }

def DimJ.subtotals (d : DimJ) : List Subtotal :=
  dimensionSubtotals d.isArray d.validIds d.transform d.view

/-- subtotal list given explicitly under `k`, or resolved from a dimension under `kd` -/
def subsOrDim (j : Json) (k kd : String) : Except String (List Subtotal) := do
  if hasField j k then subsOfJson (← getField j k)
  else do
    let d ← dimOfJson (← getField j kd)
    pure d.subtotals

def catDateOf (j : Json) (k kd : String) : Except String Bool := do
  if hasField j k then getBool j k
  else if hasField j kd then do
    let d ← dimOfJson (← getField j kd)
    pure d.catDate
  else pure false

def matFn (m : List (List Val)) : Nat → Nat → Val := fun i j => (m.getD i []).getD j .nan
def vecFn (v : List Val) : Nat → Val := fun i => v.getD i .nan

def blocksJson (b : Blocks) : Json :=
  jObj [("body", jMat b.bodyL), ("ins_cols", jMat b.insColsL),
        ("ins_rows", jMat b.insRowsL), ("inter", jMat b.interL)]

def sblocksJson (b : StripeMsr.SBlocks) : Json :=
  jObj [("base", jVals b.baseL), ("subs", jVals b.subsL)]

/-- op `resolve_subtotals`: {dim} ↦ addend / subtrahend idxs, is_difference of each surviving insertion,
    and the Spec's view of each insertion that survives -/
def opResolve : Handler := fun j => do
  let d ← dimOfJson (← getField j "dim")
  let subs := d.subtotals
  pure (jObj [("subtotals", subsToJson subs), ("is_difference", jBools (subs.map Subtotal.isDiff))])

/-- op `blocks`: {cls, base, nr, nc, rowSubs, colSubs, dcn, drn} ↦ the four blocks of a subtotal class -/
def opBlocks : Handler := fun j => do
  let cls ← getStr j "cls"
  let base ← getMat j "base"
  let nr ← getNat j "nr"
  let nc ← getNat j "nc"
  let rs ← subsOrDim j "rowSubs" "rows"
  let cs ← subsOrDim j "colSubs" "cols"
  let dcn := getBoolD j "dcn" false
  let drn := getBoolD j "drn" false
  let b := matFn base
  let out ←
    if cls == "sum" then pure (SumSub.blocks b nr nc rs cs dcn drn)
    else if cls == "pos" then pure (PosSub.blocks b nr nc rs cs)
    else if cls == "neg" then pure (NegSub.blocks b nr nc rs cs)
    else if cls == "nan" then pure (NanSub.blocks b nr nc rs cs)
    else if cls == "overlap" then pure (OverlapSub.blocks b nr nc rs cs dcn drn)
    else throw s!"unknown class {cls}"
  -- the intersections accumulated in the other direction (for the symmetry check)
  let interT := tab2 rs.length cs.length (fun k l => SumSub.interColsFirst b dcn drn (subAt rs k) (subAt cs l))
  pure (jObj [("blocks", blocksJson out), ("inter_cols_first", jMat interT)])

/-- op `wavediff`: {bases, counts, nr, nc, defCols (nr × ncs), defRows (nrs × nc), rowSubs, colSubs,
    rowsCatDate, colsCatDate} ↦ WaveDiffSubtotal.subtotal_columns / subtotal_rows -/
def opWaveDiff : Handler := fun j => do
  let bases := matFn (← getMat j "bases")
  let counts := matFn (← getMat j "counts")
  let nr ← getNat j "nr"
  let nc ← getNat j "nc"
  let defCols := matFn (← getMat j "defCols")
  let defRows := matFn (← getMat j "defRows")
  let rs ← subsOrDim j "rowSubs" "rows"
  let cs ← subsOrDim j "colSubs" "cols"
  let rcd ← catDateOf j "rowsCatDate" "rows"
  let ccd ← catDateOf j "colsCatDate" "cols"
  let cols := tab2 nr cs.length (fun i l => WaveDiff.col bases counts ccd (subAt cs l) (fun i' => defCols i' l) i)
  let rows := tab2 rs.length nc (fun k jj => WaveDiff.row bases counts rcd (subAt rs k) (fun j' => defRows k j') jj)
  pure (jObj [("cols", jMat cols), ("rows", jMat rows)])

/-- op `stripe_blocks`: {cls, base, subs, counts?, defaults?, catdate?} ↦ subtotal values -/
def opStripeBlocks : Handler := fun j => do
  let cls ← getStr j "cls"
  let base := vecFn (← getVals j "base")
  let subs ← subsOrDim j "subs" "rows"
  let out ←
    if cls == "sum" then pure (subs.map (Stripe.sumVal base))
    else if cls == "pos" then pure (subs.map (Stripe.posVal base))
    else if cls == "neg" then pure (subs.map (Stripe.negVal base))
    else if cls == "nan" then pure (subs.map (Stripe.nanVal base))
    else if cls == "wave" then do
      let counts := vecFn (← getVals j "counts")
      let defs ← getVals j "defaults"
      let cd ← catDateOf j "catdate" "rows"
      pure ((List.range subs.length).map (fun k =>
        Stripe.waveVal base counts cd (subAt subs k) (defs.getD k .nan)))
    else throw s!"unknown class {cls}"
  pure (jObj [("subs", jVals out)])

/-- cube-sum extractor (`_BaseCubeSums.factory`): MR axes keep the selected plane -/
def sumsOf (rk ck : DK) (c : FT) : Nat → Nat → Val :=
  match rk, ck with
  | .mr, .mr => fun i j => c.get [i, 0, j, 0]
  | .mr, _ => fun i j => c.get [i, 0, j]
  | _, .mr => fun i j => c.get [i, j, 0]
  | _, _ => fun i j => c.get [i, j]

/-- second-order measure blocks of a slice -/
def sliceMeasures (w u : MatCounts) (wDiffNans uDiffNans : Bool) (x : SubCtx)
    (sums : Option (Nat → Nat → Val)) : List (String × Json) :=
  let nr := w.nrows; let nc := w.ncols
  let base :=
    [("counts", blocksJson (Msr.counts w wDiffNans x)),
     ("unweighted_counts", blocksJson (Msr.counts u uDiffNans x)),
     ("row_weighted_bases", blocksJson (Msr.rowWeightedBases w x)),
     ("row_unweighted_bases", blocksJson (Msr.rowUnweightedBases u x)),
     ("column_weighted_bases", blocksJson (Msr.columnWeightedBases w x)),
     ("column_unweighted_bases", blocksJson (Msr.columnUnweightedBases u x)),
     ("table_weighted_bases", blocksJson (Msr.tableBases w x)),
     ("table_unweighted_bases", blocksJson (Msr.tableBases u x)),
     ("row_proportions", blocksJson (Msr.rowProportions w wDiffNans x)),
     ("column_proportions", blocksJson (Msr.columnProportions w wDiffNans x)),
     ("table_proportions", blocksJson (Msr.tableProportions w wDiffNans x))]
  match sums with
  | none => base
  | some v =>
    base ++
    [("sums", blocksJson (Msr.sums v nr nc x)),
     ("row_share_sum", blocksJson (Msr.rowShareSum v nr nc x)),
     ("column_share_sum", blocksJson (Msr.columnShareSum v nr nc x)),
     ("total_share_sum", blocksJson (Msr.totalShareSum v nr nc x)),
     ("row_share_sum_legacy", blocksJson (Msr.rowShareSumLegacy v nr nc x)),
     ("column_share_sum_legacy", blocksJson (Msr.columnShareSumLegacy v nr nc x)),
     ("total_share_sum_legacy", blocksJson (Msr.totalShareSumLegacy v nr nc x))]

/-- Spec values for the assembled share-of-sum tables -/
def shareSpecJson (v : Nat → Nat → Val) (nr nc : Nat) (x : SubCtx) : List (String × Json) :=
  let s := Msr.sums v nr nc x
  let E := s.ext
  let R := nr + s.nrs; let C := nc + s.ncs
  [("spec_row_share", jMat (tab2 R C (ShareSpec.rowShare E nc))),
   ("spec_column_share", jMat (tab2 R C (ShareSpec.colShare E nr))),
   ("spec_total_share", jMat (tab2 R C (ShareSpec.totalShare E nr nc)))]

/-- Spec: per live insertion, the positions of the existing elements listed as positive / negative -/
def termsJson (validIds : List Int) (l : List Insertion) : Json :=
  .arr ((l.map (fun i => Json.arr #[jNats (SubSpec.listedPos validIds i.positive),
                                     jNats (SubSpec.listedPos validIds i.negative)])).toArray)

/-- Spec: counts of the inserted rows / columns / intersections as signed merges BY IDS -/
def signedSpecJson (counts : Nat → Nat → Val) (nr nc : Nat) (rd cd : DimJ) : List (String × Json) :=
  let live (d : DimJ) : List Insertion :=
    if d.isArray then [] else
    ((match d.transform with | some t => t | none => d.view)).filter (Insertion.passes d.validIds)
  let ri := live rd; let ci := live cd
  let rowVal (i : Insertion) (j : Nat) : Val :=
    SubSpec.signedMerge rd.validIds i.positive i.negative (fun a => counts a j)
  let colVal (i : Insertion) (r : Nat) : Val :=
    SubSpec.signedMerge cd.validIds i.positive i.negative (fun b => counts r b)
  [("spec_ins_rows", jMat (ri.map (fun i => tab1 nc (rowVal i)))),
   ("spec_ins_cols", jMat (tab1 nr (fun r => ci.map (fun i => colVal i r)))),
   ("spec_inter_rows_first", jMat (ri.map (fun i => ci.map (fun c =>
      SubSpec.signedMerge cd.validIds c.positive c.negative (rowVal i))))),
   ("spec_inter_cols_first", jMat (ri.map (fun i => ci.map (fun c =>
      SubSpec.signedMerge rd.validIds i.positive i.negative (colVal c))))),
   ("spec_row_is_diff", jBools (ri.map (fun i => SubSpec.isDifference rd.validIds i.negative))),
   ("spec_col_is_diff", jBools (ci.map (fun i => SubSpec.isDifference cd.validIds i.negative))),
   ("spec_row_terms", termsJson rd.validIds ri),
   ("spec_col_terms", termsJson cd.validIds ci)]

/-- op `slice_sub`: {vars, wdata, udata, k, rows: dim, cols: dim, wvalid, uvalid, sums: data | null}
    ↦ model blocks of every C04/C15 measure of partition k + the Spec's values -/
def opSliceSub : Handler := fun j => do
  let vars ← Counts.varsOfJson (← getField j "vars")
  let wdata ← getVals j "wdata"
  let udata ← getVals j "udata"
  let k ← getNat j "k"
  let rd ← dimOfJson (← getField j "rows")
  let cd ← dimOfJson (← getField j "cols")
  let wvalid := getBoolD j "wvalid" false
  let uvalid := getBoolD j "uvalid" false
  let shape := rawShapeOf vars
  let w := sliceCounts vars (FT.ofFlat shape wdata) k
  let u := sliceCounts vars (FT.ofFlat shape udata) k
  let x : SubCtx := { rowSubs := rd.subtotals, colSubs := cd.subtotals
                      rowsCatDate := rd.catDate, colsCatDate := cd.catDate }
  let kinds := apparentKinds vars
  let nd := kinds.length
  let rk := kinds.getD (nd - 2) .cat
  let ck := kinds.getD (nd - 1) .cat
  let sums ← match j.getObjVal? "sums" with
    | .ok .null => pure none
    | .ok sj => do
      let sdata ← getValList sj
      pure (some (sumsOf rk ck (sliceExpr nd (kinds.getD 0 .cat) k (validCube vars (FT.ofFlat shape sdata)))))
    | .error _ => pure none
  let specShare := match sums with
    | some v => shareSpecJson v w.nrows w.ncols x
    | none => []
  pure (jObj ([("row_subtotals", subsToJson x.rowSubs), ("col_subtotals", subsToJson x.colSubs)]
    ++ sliceMeasures w u wvalid uvalid x sums
    ++ signedSpecJson w.counts w.nrows w.ncols rd cd
    ++ [("spec_u_ins_rows", (jObj (signedSpecJson u.counts u.nrows u.ncols rd cd)).getObjValD "spec_ins_rows"),
        ("spec_u_ins_cols", (jObj (signedSpecJson u.counts u.nrows u.ncols rd cd)).getObjValD "spec_ins_cols"),
        ("spec_u_inter", (jObj (signedSpecJson u.counts u.nrows u.ncols rd cd)).getObjValD "spec_inter_rows_first")]
    ++ specShare))

/-- op `strand_sub`: {vars, wdata, udata, rows: dim, sums: data | null} ↦ stripe measure blocks -/
def opStrandSub : Handler := fun j => do
  let vars ← Counts.varsOfJson (← getField j "vars")
  let wdata ← getVals j "wdata"
  let udata ← getVals j "udata"
  let rd ← dimOfJson (← getField j "rows")
  let shape := rawShapeOf vars
  let w := strandCounts vars (FT.ofFlat shape wdata)
  let u := strandCounts vars (FT.ofFlat shape udata)
  let subs := rd.subtotals
  let isMR := apparentKinds vars == [.mr]
  let sumsJ ← match j.getObjVal? "sums" with
    | .ok .null => pure []
    | .ok sj => do
      let sdata ← getValList sj
      let c := validCube vars (FT.ofFlat shape sdata)
      let v : Nat → Val := if isMR then (fun i => c.get [i, 0]) else (fun i => c.get [i])
      let sm := StripeMsr.sumMeasure v w.n subs
      let sh := StripeMsr.shareSum v w.n subs
      let E : Nat → Val := fun i => if i < w.n then sm.base i else sm.subs (i - w.n)
      pure [("sums", sblocksJson sm), ("share_sum", sblocksJson sh),
            ("spec_share", jVals (tab1 (w.n + subs.length) (ShareSpec.strandShare E w.n)))]
    | .error _ => pure []
  let live : List Insertion :=
    if rd.isArray then [] else
    ((match rd.transform with | some t => t | none => rd.view)).filter (Insertion.passes rd.validIds)
  pure (jObj ([("subtotals", subsToJson subs),
    ("counts", sblocksJson (StripeMsr.sumMeasure w.counts w.n subs)),
    ("unweighted_counts", sblocksJson (StripeMsr.sumMeasure u.counts u.n subs)),
    ("weighted_bases", sblocksJson (StripeMsr.bases w subs)),
    ("unweighted_bases", sblocksJson (StripeMsr.bases u subs)),
    ("table_proportions", sblocksJson (StripeMsr.tableProportions w rd.catDate subs)),
    ("spec_counts", jVals (live.map (fun i =>
        SubSpec.signedMerge rd.validIds i.positive i.negative w.counts))),
    ("spec_ucounts", jVals (live.map (fun i =>
        SubSpec.signedMerge rd.validIds i.positive i.negative u.counts))),
    ("spec_is_diff", jBools (live.map (fun i => SubSpec.isDifference rd.validIds i.negative))),
    ("spec_terms", termsJson rd.validIds live)]
    ++ sumsJ))

/-- op `share_sum`: {v, nr, nc, rowSubs, colSubs} ↦ model blocks (fixed and legacy) + Spec tables -/
def opShareSum : Handler := fun j => do
  let v := matFn (← getMat j "v")
  let nr ← getNat j "nr"
  let nc ← getNat j "nc"
  let rs ← subsOrDim j "rowSubs" "rows"
  let cs ← subsOrDim j "colSubs" "cols"
  let x : SubCtx := { rowSubs := rs, colSubs := cs }
  pure (jObj ([("row_subtotals", subsToJson rs), ("col_subtotals", subsToJson cs),
     ("sums", blocksJson (Msr.sums v nr nc x)),
     ("row_share_sum", blocksJson (Msr.rowShareSum v nr nc x)),
     ("column_share_sum", blocksJson (Msr.columnShareSum v nr nc x)),
     ("total_share_sum", blocksJson (Msr.totalShareSum v nr nc x)),
     ("row_share_sum_legacy", blocksJson (Msr.rowShareSumLegacy v nr nc x)),
     ("column_share_sum_legacy", blocksJson (Msr.columnShareSumLegacy v nr nc x)),
     ("total_share_sum_legacy", blocksJson (Msr.totalShareSumLegacy v nr nc x))]
     ++ shareSpecJson v nr nc x))

/-- op `strand_share`: {v, subs | rows} ↦ stripe `_Sums`, `_ShareSum` blocks and the Spec vector -/
def opStrandShare : Handler := fun j => do
  let vl ← getVals j "v"
  let v := vecFn vl
  let n := vl.length
  let subs ← subsOrDim j "subs" "rows"
  let sm := StripeMsr.sumMeasure v n subs
  let sh := StripeMsr.shareSum v n subs
  let E : Nat → Val := fun i => if i < n then sm.base i else sm.subs (i - n)
  pure (jObj [("subtotals", subsToJson subs), ("sums", sblocksJson sm), ("share_sum", sblocksJson sh),
              ("spec_share", jVals (tab1 (n + subs.length) (ShareSpec.strandShare E n)))])

/-- op `merge_cube`: {vars (two categorical variables), wdata, rows: dim, cols: dim} ↦ for every subtotal
    WITHOUT subtrahends the Spec's merged table `mergeAxis (valid cube) axis addends` and the CAT × CAT
    extractor's primitives on it (the right-hand side of `C04.merge_equiv_rows / _cols`) -/
def opMergeCube : Handler := fun j => do
  let vars ← Counts.varsOfJson (← getField j "vars")
  let wdata ← getVals j "wdata"
  let rd ← dimOfJson (← getField j "rows")
  let cd ← dimOfJson (← getField j "cols")
  let c := validCube vars (FT.ofFlat (rawShapeOf vars) wdata)
  let one (ax : Nat) (subs : List Subtotal) : Json :=
    .arr ((subs.map (fun s =>
      if s.isDiff || s.addendIdxs.isEmpty then Json.null
      else
        let c' := SubSpec.mergeAxis c ax s.addendIdxs
        let m := MatCounts.catXcat c'
        jObj [("counts", jMat (tab2 m.nrows m.ncols m.counts)),
              ("row_bases", jMat (tab2 m.nrows m.ncols m.rowBases)),
              ("column_bases", jMat (tab2 m.nrows m.ncols m.columnBases)),
              ("table_bases", jMat (tab2 m.nrows m.ncols m.tableBases)),
              ("merged_pos", jNat (SubSpec.mergedPos (c.dim ax) s.addendIdxs))])).toArray)
  pure (jObj [("rows", one 0 rd.subtotals), ("cols", one 1 cd.subtotals)])

/-- op `merge_matrix`: {base, nr, nc, rowsA, colsA} ↦ Spec merged matrix (rows merged, then columns) -/
def opMergeMatrix : Handler := fun j => do
  let b := matFn (← getMat j "base")
  let nr ← getNat j "nr"
  let nc ← getNat j "nc"
  let ra ← getNats j "rowsA"
  let ca ← getNats j "colsA"
  let mergeR := !ra.isEmpty
  let mergeC := !ca.isEmpty
  let b1 := if mergeR then SubSpec.mergeRows b nr ra else b
  let nr1 := if mergeR then SubSpec.mergedPos nr ra + 1 else nr
  let b2 := if mergeC then SubSpec.mergeCols b1 nc ca else b1
  let nc1 := if mergeC then SubSpec.mergedPos nc ca + 1 else nc
  pure (jObj [("merged", jMat (tab2 nr1 nc1 b2))])

def ops : List (String × Handler) :=
  [("resolve_subtotals", opResolve), ("blocks", opBlocks), ("wavediff", opWaveDiff),
   ("stripe_blocks", opStripeBlocks), ("slice_sub", opSliceSub), ("strand_sub", opStrandSub),
   ("share_sum", opShareSum), ("strand_share", opStrandShare), ("merge_cube", opMergeCube), ("merge_matrix", opMergeMatrix)]

end CrCube.Driver.Subtotals
