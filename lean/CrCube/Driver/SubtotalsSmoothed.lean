import CrCube.Driver.Proto
import CrCube.Driver.Counts
import CrCube.Driver.Subtotals
import CrCube.Driver.Smoothing
import CrCube.Model.Smoothing
import CrCube.Model.SubtotalsSmoothed
import CrCube.Spec.SubtotalSmoothedSpec

open Lean

namespace CrCube.Driver.SubtotalsSmoothed
open CrCube.Driver CrCube.Driver.Subtotals

def smBlocksJson (b : Smoothing.Blocks) : Json :=
  jObj [("body", jMat b.base), ("ins_cols", jMat b.subCols), ("ins_rows", jMat b.subRows),
        ("inter", jMat b.inter)]

def ruleJson : SubSmoothSpec.Rule → Json
  | .merged => .str "merged"
  | .allNan => .str "all-nan"
  | .waveDiff _ _ => .str "wave-diff"
  | .silent => .str "silent"

/-- op `slice_sub_smoothed`: {vars, wdata, k, rows: dim, cols: dim, wvalid, smoother: {function?, window?}}
    ↦ model: `_ColumnProportionsSmoothed.blocks` (= `smoothedColumnProportions` of the model's
      `_ColumnProportions.blocks`) and the NaN-subtotal blocks' shape, or "raises";
      spec: for every live row insertion the rule the statement applies and the row it demands at the
      base columns; the smoothed body. -/
def opSliceSubSmoothed : Handler := fun j => do
  let vars ← Counts.varsOfJson (← getField j "vars")
  let wdata ← getVals j "wdata"
  let k ← getNat j "k"
  let rd ← dimOfJson (← getField j "rows")
  let cd ← dimOfJson (← getField j "cols")
  let wvalid := getBoolD j "wvalid" false
  let d ← Smoothing.dictOfJson (← getField j "smoother")
  let shape := rawShapeOf vars
  let w := sliceCounts vars (FT.ofFlat shape wdata) k
  let x : SubCtx := { rowSubs := rd.subtotals, colSubs := cd.subtotals
                      rowsCatDate := rd.catDate, colsCatDate := cd.catDate }
  let cp := Msr.columnProportions w wvalid x
  let win := SmoothingSpec.windowOf d.window
  let nc := w.ncols
  let body : Nat → List Val := fun a => tab1 nc (fun jj => cp.body a jj)
  let live : List Insertion :=
    if rd.isArray then [] else
    ((match rd.transform with | some t => t | none => rd.view)).filter (Insertion.passes rd.validIds)
  let rules := live.map (fun i =>
    SubSmoothSpec.ruleOf rd.catDate (SubSpec.listedPos rd.validIds i.positive)
      (SubSpec.listedPos rd.validIds i.negative))
  let mergedRow (i : Insertion) : List Val :=
    let pos := SubSpec.listedPos rd.validIds i.positive
    tab1 nc (fun jj =>
      SubSpec.signedMerge rd.validIds i.positive [] (fun a => w.counts a jj) / w.columnBases (pos.headD 0) jj)
  let wants := (live.zip rules).map (fun (i, r) =>
    match SubSmoothSpec.demandedRow cd.catDate win nc body (mergedRow i) r with
    | some row => jVals row
    | none => Json.null)
  let spec := [("rules", Json.arr (rules.map ruleJson).toArray), ("spec_rows", Json.arr wants.toArray),
               ("spec_body", jMat (SmoothingSpec.smoothedRows cd.catDate win (tab1 w.nrows body))),
               ("applies", .bool (SmoothingSpec.applies cd.catDate win nc)),
               ("window", jInt win)]
  match Smoothing.factory d cd.catDate with
  | .error e => pure (jObj ([("raises", .str e)] ++ spec))
  | .ok s =>
    pure (jObj ([("model", smBlocksJson (Msr.smoothedColumnProportions s w wvalid x))] ++ spec))

def ops : List (String × Handler) := [("slice_sub_smoothed", opSliceSubSmoothed)]

end CrCube.Driver.SubtotalsSmoothed
