import CrCube.Driver.Counts
import CrCube.Model.SliceApi

open Lean

namespace CrCube.Driver.SliceApi
open CrCube.Driver CrCube.Driver.Counts

def margJson : Marg → Json
  | .scalar v => valToJson v
  | .vec l => jVals l
  | .mat m => jMat m

def jBoolMat (m : List (List Bool)) : Json := .arr (m.map jBools).toArray

/-- op `slice_api`: {vars, wdata, udata, k, size} ↦ bases / margins / ranges / mask / proportions
    of partition k on base cells, from the RAW weighted and unweighted cube arrays -/
def opSliceApi : Handler := fun j => do
  let vars ← varsOfJson (← getField j "vars")
  let wdata ← getVals j "wdata"
  let udata ← getVals j "udata"
  let k ← getNat j "k"
  let size ← getVal j "size"
  let sh := rawShapeOf vars
  let w := sliceCounts vars (FT.ofFlat sh wdata) k
  let u := sliceCounts vars (FT.ofFlat sh udata) k
  let kinds := apparentKinds vars
  let nd := kinds.length
  let rk := kinds.getD (nd - 2) .cat
  let ck := kinds.getD (nd - 1) .cat
  pure (jObj [
    ("counts", jMat (w.mat w.counts)),
    ("unweighted_counts", jMat (u.mat u.counts)),
    ("row_weighted_bases", jMat (w.mat w.rowBases)),
    ("column_weighted_bases", jMat (w.mat w.columnBases)),
    ("table_weighted_bases", jMat (w.mat w.tableBases)),
    ("row_unweighted_bases", jMat (u.mat u.rowBases)),
    ("column_unweighted_bases", jMat (u.mat u.columnBases)),
    ("table_unweighted_bases", jMat (u.mat u.tableBases)),
    ("rows_margin", margJson w.rowsMargin),
    ("columns_margin", margJson w.columnsMargin),
    ("rows_base", margJson u.rowsMargin),
    ("columns_base", margJson u.columnsMargin),
    ("table_margin", margJson w.tableMargin),
    ("table_base", margJson u.tableMargin),
    ("table_base_range", jVals u.tableBasesRange),
    ("table_margin_range", jVals w.tableBasesRange),
    ("row_mask", jBoolMat (u.maskOf u.rowBases size)),
    ("column_mask", jBoolMat (u.maskOf u.columnBases size)),
    ("table_mask", jBoolMat (u.maskOf u.tableBases size)),
    ("row_proportions", jMat (w.mat w.rowProportions)),
    ("column_proportions", jMat (w.mat w.columnProportions)),
    ("table_proportions", jMat (w.mat w.tableProportions)),
    ("row_percentages", jMat (w.mat (MatCounts.pct w.rowProportions))),
    ("column_percentages", jMat (w.mat (MatCounts.pct w.columnProportions))),
    ("table_percentages", jMat (w.mat (MatCounts.pct w.tableProportions))),
    ("rows_margin_proportion", margJson (w.rowsMarginProportion ck)),
    ("columns_margin_proportion", margJson (w.columnsMarginProportion rk)),
    ("rows_pruning_mask", jBools u.rowsPruningMask),
    ("columns_pruning_mask", jBools u.columnsPruningMask)])

/-- op `strand_api`: {vars, wdata, udata} ↦ counts / bases / ranges / proportions of a 1-D cube -/
def opStrandApi : Handler := fun j => do
  let vars ← varsOfJson (← getField j "vars")
  let wdata ← getVals j "wdata"
  let udata ← getVals j "udata"
  let sh := rawShapeOf vars
  let w := strandCounts vars (FT.ofFlat sh wdata)
  let u := strandCounts vars (FT.ofFlat sh udata)
  let wb := tab1 w.n w.bases
  let ub := tab1 u.n u.bases
  let props := tab1 w.n (fun i => w.counts i / w.bases i)
  pure (jObj [
    ("counts", jVals (tab1 w.n w.counts)),
    ("unweighted_counts", jVals (tab1 u.n u.counts)),
    ("weighted_bases", jVals wb),
    ("unweighted_bases", jVals ub),
    ("table_base_range", jVals [MatCounts.vmin ub, MatCounts.vmax ub]),
    ("table_margin_range", jVals [MatCounts.vmin wb, MatCounts.vmax wb]),
    ("table_proportions", jVals props),
    ("table_percentages", jVals (props.map (· * .fin 100))),
    ("pruning_mask", jBools (tab1 u.n (fun i => u.pruningBase i == .fin 0)))])

/-- op `strand_spec`: {vars, survey} ↦ respondent-level counts and bases of a 1-D cube -/
def opStrandSpec : Handler := fun j => do
  let vars ← varsOfJson (← getField j "vars")
  let s ← surveyOfJson (← getField j "survey")
  let n := (apparentExtents vars).getD 0 0
  let u := unweight s
  let mk (sv : Survey) (m : Bool) : Json := jVals (tab1 n (fun i => Val.fin (specCount vars sv [i] [m])))
  pure (jObj [("counts", mk s false), ("bases", mk s true), ("ucounts", mk u false), ("ubases", mk u true)])

def ops : List (String × Handler) :=
  [("slice_api", opSliceApi), ("strand_api", opStrandApi), ("strand_spec", opStrandSpec)]

end CrCube.Driver.SliceApi
