import CrCube.Driver.Pipeline
import CrCube.Model.PipelineTranspose

open Lean

/-!
  Driver op of property C10 on the end-to-end pipeline: the op takes the A × B case exactly as
  `pipe_slice` does, TRANSPOSES IT IN LEAN (`CubeData.transpose`: variables exchanged, every raw
  array with its axis groups exchanged; the two transforms exchanged with their direction-specific
  keywords mirrored) and runs the pipeline model on the result.  The harness compares that with the
  real library run on the B × A response, output for output, and the transposed raw arrays with the
  tabulated B × A payload.  With "twins": true the executable twin of `C10.slice_output_transposes`
  is evaluated as well.
-/

namespace CrCube.Driver.PipelineTranspose
open CrCube.Driver CrCube.Driver.Pipeline CrCube.Collator CrCube.Pipeline

/-- the hypotheses of `C10.slice_output_transposes` that are not structural -/
def hypOk (r cl : RDim) : Bool :=
  r.order.mirrored && cl.order.mirrored
    && (match r.order.key? with | some k => keyTransposes r.catDate cl.catDate k | none => true)
    && (match cl.order.key? with | some k => keyTransposes r.catDate cl.catDate k | none => true)

def optFlat (o : Option FT) : Json := match o with | some t => jVals t.flat | none => .null

/-- op `pipe_slice_t`: the input of `pipe_slice` ↦ the output of `pipe_slice` for the TRANSPOSED case
    (no respondent-level part), plus
      "transposable": the design is one the theorems speak about,
      "hyp": the order hypotheses of `slice_output_transposes` hold,
      "twin": (on request) the transposed run IS the transpose of the original run (`SliceOut.transposeOf`),
      "vars_t"/"wdata_t"/"udata_t"/…: the transposed design and raw arrays, flat -/
def opPipeSliceT : Handler := fun j => do
  let vars ← Counts.varsOfJson (← getField j "vars")
  let wdata ← getVals j "wdata"
  let udata ← getVals j "udata"
  let k ← getNat j "k"
  let rows ← tdimOfJson (← getField j "rows")
  let cols ← tdimOfJson (← getField j "cols")
  let sh := rawShapeOf vars
  let c0 : CubeData := { vars := vars, wraw := ftOfFlat sh wdata, uraw := ftOfFlat sh udata, k := k
                         sums := ← optFT j "sums" sh, means := ← optFT j "means" sh
                         stddevs := ← optFT j "stddevs" sh, medians := ← optFT j "medians" sh }
  let population ← if hasField j "population" then getVal j "population" else pure (.fin 0)
  let fraction ← if hasField j "fraction" then getVal j "fraction" else pure (.fin 1)
  let c := c0.transpose
  let rowsT := cols.mirror
  let colsT := rows.mirror
  let rawJson := [("transposable", Json.bool (decide c0.Transposable)),
                  ("shape_t", jNats c.wraw.shape), ("wdata_t", jVals c.wraw.flat), ("udata_t", jVals c.uraw.flat),
                  ("sums_t", optFlat c.sums), ("means_t", optFlat c.means), ("stddevs_t", optFlat c.stddevs)]
  match rowsT.resolve, colsT.resolve, rows.resolve, cols.resolve with
  | some r, some cl, some r0, some cl0 =>
    let out := runSliceX c r cl population fraction
    let out0 := runSlice c r.strip cl.strip
    let twins := getBoolD j "twins" false
    let keys := MKey.all.filter (keyTransposes r0.catDate cl0.catDate)
    let twin := !twins || out.core.transposeOf (runSlice c0 r0 cl0) keys
    pure (jObj ([("t", sliceOutJson c out),
                ("strip", jObj [("row_order", jInts out0.rowOrder), ("column_order", jInts out0.colOrder)]),
                ("wf", .bool (decide (SliceWF c r cl))), ("blocks_equal", .bool true), ("reindex_equal", .bool true),
                ("row_sort_keys", sortKeysJson (rowROrder (sliceBlocks c r cl) (sliceAvail c) (rowMarginalKeys c r cl) r cl)),
                ("column_sort_keys", sortKeysJson (colROrder (sliceBlocks c r cl) (sliceAvail c) r cl)),
                ("n_row_subtotals", jNat r.subtotals.length), ("n_col_subtotals", jNat cl.subtotals.length),
                ("row_insertion_ids", jInts (bogusIds r.cdim.subs)),
                ("column_insertion_ids", jInts (bogusIds cl.cdim.subs)),
                ("rows_pruning_mask", jBools c.u.rowsPruningMask),
                ("columns_pruning_mask", jBools c.u.columnsPruningMask),
                ("hyp", .bool (hypOk r0 cl0)), ("twin", .bool twin), ("spec", .null)] ++ rawJson))
  | _, _, _, _ => pure (jObj ([("raises", .str "ValueError")] ++ rawJson))

def ops : List (String × Handler) := [("pipe_slice_t", opPipeSliceT)]

end CrCube.Driver.PipelineTranspose
