import CrCube.Driver.Proto
import CrCube.Model.PairwiseLegacy
import CrCube.Spec.PairwiseLegacySpec

open Lean

namespace CrCube.Driver.PairwiseLegacy
open CrCube.Driver CrCube.Pairwise CrCube.PairwiseLegacy

def subOfJson (j : Json) : Except String Pairwise.Sub := do
  pure { addends := ← getNats j "add", subtrahends := ← getNats j "sub" }

def subsOf (j : Json) (k : String) : Except String (List Pairwise.Sub) := do
  (← getList (← getField j k)).mapM subOfJson

def fullInOfJson (j : Json) : Except String FullIn := do
  pure { nr := ← getNat j "nr", nc := ← getNat j "nc", counts := ← getMat j "counts"
         rowValues := ← getVals j "row_values", ucolsBase := ← getVals j "ucols_base"
         tableMargin := ← getVal j "table_margin"
         rowSubs := ← subsOf j "row_subs", colSubs := ← subsOf j "col_subs" }

def sq2 (n : Nat) (f : Nat → Nat → Out) : Json :=
  jOutMat ((List.range n).map (fun a => (List.range n).map (fun b => f a b)))

def sq2v (n : Nat) (f : Nat → Nat → Val) : Json :=
  jMat ((List.range n).map (fun a => (List.range n).map (fun b => f a b)))

def legJson (d : LegIn) : Json :=
  let n := d.ncols
  let cs := List.range n
  jObj [("has_values", .bool d.hasValues), ("ncols", jNat n),
        ("values", jVals d.values), ("counts", jMat d.counts),
        ("means", jVals (cs.map d.mean)), ("n", jVals (cs.map d.n)), ("variance", jVals (cs.map d.variance)),
        ("cols_base", jVals d.colsBase),
        ("t", sq2 n d.tScale), ("p", sq2 n d.pScale), ("df", sq2v n d.dfScale),
        ("st", sq2 n d.summaryT), ("sp", sq2 n d.summaryP), ("sdf", sq2v n d.summaryDf),
        ("tneg", .arr ((cs.map (fun a => jBools (cs.map (fun b => divSqrtNeg (d.tScale a b))))).toArray))]

/-- op `pwleg`: tabulated slice + display orders ↦ the displayed primitives and, for every selected
    display column a (outer) and compared display column b (inner), the scale-mean and summary
    t / p / df – as found (`found`: displayed rows) and repaired (`fixed`: every valid row) -/
def opLeg : Handler := fun j => do
  let x ← fullInOfJson j
  let ro ← getInts j "row_order"
  let co ← getInts j "col_order"
  pure (jObj [("found", legJson (x.display ro co)), ("fixed", legJson (x.displayFixed co))])

/-- op `pwleg_ol`: {"kind": "absent" | "false" | "other"} ↦ only_larger -/
def opOl : Handler := fun j => do
  let k ← getStr j "kind"
  let a ← match k with
    | "absent" => pure OlArg.absent
    | "false" => pure OlArg.isFalse
    | "other" => pure OlArg.other
    | _ => throw "bad kind"
  pure (jObj [("only_larger", .bool (onlyLarger a))])

open CrCube.PairwiseLegacySpec in
def respOfJson (j : Json) : Except String LResp := do
  let w ← match ← getVal j "w" with
    | .fin q => pure q
    | _ => throw "non-finite weight"
  let v ← match ← getVal j "v" with
    | .fin q => pure (some q)
    | .nan => pure none
    | _ => throw "bad value"
  pure { w := w, value := v, colIn := ← getBools j "cin" }

/-- op `pwleg_spec`: respondents ↦ respondent-level n / mean / variance of every full column and
    the pooled statistic / p-value of every pair: [a][b] -/
def opSpec : Handler := fun j => do
  let rs ← (← getList (← getField j "resps")).mapM respOfJson
  let n ← getNat j "nfc"
  let cs := List.range n
  pure (jObj [("n", jVals (cs.map (PairwiseLegacySpec.nSpec rs))),
              ("mean", jVals (cs.map (PairwiseLegacySpec.meanSpec rs))),
              ("var", jVals (cs.map (PairwiseLegacySpec.varSpec rs))),
              ("t", sq2 n (PairwiseLegacySpec.tScaleSpec rs)),
              ("p", sq2 n (PairwiseLegacySpec.pScaleSpec rs))])

def ops : List (String × Handler) :=
  [("pwleg", opLeg), ("pwleg_ol", opOl), ("pwleg_spec", opSpec)]

end CrCube.Driver.PairwiseLegacy
