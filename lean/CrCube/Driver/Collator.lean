import CrCube.Driver.Proto
import CrCube.Model.Collator
import CrCube.Spec.Order

open Lean

namespace CrCube.Driver.Collator
open CrCube.Driver CrCube.Collator CrCube.OrderSpec

/-! JSON decoding -/

def eidOfJson : Json → Except String Eid
  | .null => pure .null
  | .str s => pure (.str s)
  | j => match j.getInt? with
    | .ok n => pure (.int n)
    | .error _ => throw s!"bad element id {j.compress}"

def getEids (j : Json) (k : String) : Except String (List Eid) := do
  (← getList (← getField j k)).mapM eidOfJson

def getEidsD (j : Json) (k : String) : Except String (List Eid) :=
  if hasField j k then getEids j k else pure []

def rawAnchorOfJson : Json → Except String RawAnchor
  | .null => pure .null
  | .str s => match s.toInt? with
    | some n => pure (.numStr n)
    | none => pure (.word s)
  | j => match j.getInt? with
    | .ok n => pure (.int n)
    | .error _ => throw s!"bad anchor {j.compress}"

def danchorOfJson (j : Json) : Except String DAnchor :=
  match j with
  | .null => pure .none
  | .str "top" => pure .top
  | .str "bottom" => pure .bottom
  | .str s => throw s!"bad derived anchor {s}"
  | _ => do
    let alias ← eidOfJson (getFieldD j "alias" .null)
    let pos := match getFieldD j "position" .null with | .str "before" => true | _ => false
    pure (.rel alias pos)

def elemOfJson (j : Json) : Except String Elem := do
  let id ← eidOfJson (← getField j "id")
  let derived := getBoolD j "derived" false
  let da ← danchorOfJson (getFieldD j "anchor" .null)
  pure { id := id, derived := derived, danchor := da }

def rawInsOfJson (j : Json) : Except String RawIns := do
  let pos ← getEidsD j "positive"
  let neg ← getEidsD j "negative"
  let anchor ← rawAnchorOfJson (getFieldD j "anchor" .null)
  let id ← match getFieldD j "id" .null with
    | .null => pure none
    | x => match x.getInt? with | .ok n => pure (some n) | .error e => throw e
  pure { isDict := getBoolD j "is_dict" true, isSubtotalFn := getBoolD j "is_subtotal" true,
         hide := getBoolD j "hide" false, hasKeys := getBoolD j "has_keys" true,
         positive := pos, negative := neg, anchor := anchor, id := id }

def getRawInsList (j : Json) (k : String) : Except String (List RawIns) := do
  (← getList (← getField j k)).mapM rawInsOfJson

/-! JSON encoding -/

def jItem : Item → Json
  | .el i => jNat i
  | .ins id => .str s!"ins_{id}"

def jItems (l : List Item) : Json := .arr (l.map jItem).toArray

def jOptItems : Option (List Item) → Json
  | some l => jItems l
  | none => jObj [("raises", .str "KeyError")]

def jOptInt : Option Int → Json
  | some n => jInt n
  | none => .null

/-- `Dimension.subtotals` / `.subtotals_in_payload_order` from view and transform insertions. -/
def dimSubtotals (arraySubvar : Bool) (ids : List Eid) (view : List RawIns) (tr : Option (List RawIns)) :
    Option (List Sub) :=
  if arraySubvar then some []
  else match tr with
    | some t => subtotalsOf false ids t
    | none => subtotalsOf true ids view

def dimSubtotalsPayload (arraySubvar : Bool) (ids : List Eid) (view : List RawIns) (tr : Option (List RawIns)) :
    Option (List Sub) :=
  if arraySubvar then some []
  else if !view.isEmpty then subtotalsOf true ids view
  else subtotalsOf false ids (tr.getD [])

/-- `subtotals_in_payload_order` with the un-repaired crosswalk (only used to recognise the
    known defect F18 in combination with F5 on an unfixed tree). -/
def dimViewSubsUnfixed (arraySubvar : Bool) (ids : List Eid) (view : List RawIns) (tr : Option (List RawIns)) :
    Option (List Sub) :=
  if arraySubvar then some []
  else if !view.isEmpty then mkSubs ids (withIdsUnfixed true ids view)
  else mkSubs ids (withIdsUnfixed false ids (tr.getD []))

def anchorOfJson : Json → Except String Anchor
  | .str "top" => pure .top
  | .str "bottom" => pure .bottom
  | j => match j.getInt? with
    | .ok n => pure (.elem n)
    | .error _ => throw s!"bad normalised anchor {j.compress}"

def subOfJson (j : Json) : Except String Sub := do
  let a ← anchorOfJson (← getField j "anchor")
  let i ← getInt j "id"
  pure { anchor := a, insId := i }

/-- decode the dimension-like part shared by the collation ops. -/
def dimOfJson (j : Json) : Except String (Option Dim) := do
  let elems ← (← getList (← getField j "elems")).mapM elemOfJson
  if hasField j "subs" then
    -- synthetic seam: `_Subtotal`-like objects given directly
    let subs ← (← getList (← getField j "subs")).mapM subOfJson
    let vs ← if hasField j "view_subs" then (← getList (← getField j "view_subs")).mapM subOfJson else pure subs
    let hidden ← if hasField j "hidden" then getNats j "hidden" else pure []
    return some { elems := elems, subs := subs, viewSubs := vs, hidden := hidden, prune := getBoolD j "prune" false }
  let ids := elems.map (·.id)
  let view ← if hasField j "view" then getRawInsList j "view" else pure []
  let tr ← if hasField j "insertions" then
      match (← getField j "insertions") with
      | .null => pure none
      | _ => do pure (some (← getRawInsList j "insertions"))
    else pure none
  let arr := getBoolD j "array_subvar" false
  let hidden ← if hasField j "hidden" then getNats j "hidden" else pure []
  let prune := getBoolD j "prune" false
  match dimSubtotals arr ids view tr, dimSubtotalsPayload arr ids view tr with
  | some s, some vs => pure (some { elems := elems, subs := s, viewSubs := vs, hidden := hidden, prune := prune })
  | _, _ => pure none

def viewSubsUnfixedOfJson (j : Json) : Except String (List Sub) := do
  if hasField j "subs" then
    return (← if hasField j "view_subs" then (← getList (← getField j "view_subs")).mapM subOfJson
              else (← getList (← getField j "subs")).mapM subOfJson)
  let elems ← (← getList (← getField j "elems")).mapM elemOfJson
  let ids := elems.map (·.id)
  let view ← if hasField j "view" then getRawInsList j "view" else pure []
  let tr ← if hasField j "insertions" then
      match (← getField j "insertions") with
      | .null => pure none
      | _ => do pure (some (← getRawInsList j "insertions"))
    else pure none
  pure ((dimViewSubsUnfixed (getBoolD j "array_subvar" false) ids view tr).getD [])

/-- op `subtotal_ids`: {ids, insertions, from_view} ↦ ids given to the valid insertions:
    repaired model, model of the code as it stands, and the property's numbering. -/
def opSubtotalIds : Handler := fun j => do
  let ids ← getEids j "ids"
  let ins ← getRawInsList j "insertions"
  let fromView ← getBool j "from_view"
  let fixed := withIds fromView ids ins
  let unfixed := withIdsUnfixed fromView ids ins
  let valid := ins.filter (RawIns.valid ids)
  let anchors := valid.map (fun r => (normAnchor ids r.anchor).getD .bottom)
  let spec : List (Option Int) := valid.zipIdx.map (fun (r, i) =>
    match r.id with
    | some k => some k
    | none => if fromView then payloadRank ids anchors i else some ((i : Int) + 1))
  pure (jObj [("model", .arr (fixed.map (fun p => jOptInt p.2)).toArray),
              ("unfixed", .arr (unfixed.map (fun p => jOptInt p.2)).toArray),
              ("spec", .arr (spec.map jOptInt).toArray),
              ("n_valid", jNat valid.length),
              ("anchors_ok", .bool (valid.all (fun r => (normAnchor ids r.anchor).isSome)))])

/-- op `collate_anchored`: {elems, view, insertions, hidden, prune, empties, explicit: null | [ids]} -/
def opCollateAnchored : Handler := fun j => do
  let empties ← if hasField j "empties" then getNats j "empties" else pure []
  let explicit ← match getFieldD j "explicit" .null with
    | .null => pure none
    | _ => do pure (some (← getEids j "explicit"))
  match (← dimOfJson j) with
  | none => pure (jObj [("raises", .str "ValueError")])
  | some d =>
    let signed := match explicit with
      | none => payloadOrderSigned d empties
      | some ex => explicitOrderSigned d ex empties
    let bogus := match explicit with
      | none => payloadOrderBogus d empties
      | some ex => explicitOrderBogus d ex empties
    let bogusUnfixed := match explicit with
      | none => payloadOrderBogusUnfixed d empties
      | some ex => explicitOrderBogus d ex empties
    let vsu ← viewSubsUnfixedOfJson j
    let bogusUnfixed2 := match explicit with
      | none => payloadOrderBogusUnfixed { d with viewSubs := vsu } empties
      | some ex => explicitOrderBogus d ex empties
    pure (jObj [("signed", jInts signed), ("bogus", jOptItems bogus),
                ("bogus_unfixed", jOptItems bogusUnfixed), ("bogus_unfixed2", jOptItems bogusUnfixed2),
                ("payload_order", jOptItems (payloadOrderProp d empties)),
                ("spec_signed", jInts (specSigned d explicit empties)),
                ("spec_bogus", jItems (specItems d explicit empties)),
                ("sub_ids", jInts (bogusIds d.subs)),
                ("view_sub_ids", jInts (bogusIds d.viewSubs)),
                ("ids_nodup", .bool (decide d.ids.Nodup))])

def checkJson (c : SortCheck) : Json :=
  jObj [("ok", .bool c.ok), ("groups", .bool c.groups), ("fixed_top", .bool c.fixedTop),
        ("fixed_bottom", .bool c.fixedBottom), ("body_members", .bool c.bodyMembers),
        ("body_sorted", .bool c.bodySorted), ("subs_members", .bool c.subsMembers),
        ("subs_sorted", .bool c.subsSorted)]

def getStrs (j : Json) (k : String) : Except String (List String) := do
  (← getList (← getField j k)).mapM (·.getStr?)

/-- op `collate_sortval`: {elems, …dimension part…, empties, top, bottom, descending,
    kind: "num" | "str", vals, svals (null vals = key unresolved → fallback), order?: reported order}
    ↦ model orders, and the C08 predicate applied to the model order and to the reported one. -/
def opCollateSortval : Handler := fun j => do
  let empties ← if hasField j "empties" then getNats j "empties" else pure []
  let top ← getEidsD j "top"
  let bottom ← getEidsD j "bottom"
  let desc := getBoolD j "descending" true
  let kind := match getStr j "kind" with | .ok s => s | .error _ => "num"
  let reported ← if hasField j "order" then
      match (← getField j "order") with
      | .null => pure none
      | _ => do pure (some (← getInts j "order"))
    else pure none
  match (← dimOfJson j) with
  | none => pure (jObj [("raises", .str "ValueError")])
  | some d =>
    let hid := d.hid empties
    let unresolved := match getFieldD j "vals" .null with | .null => true | _ => false
    if unresolved then
      let signed := payloadOrderSigned d empties
      pure (jObj [("fallback", .bool true), ("signed", jInts signed),
                  ("bogus", jOptItems (payloadOrderBogus d empties)),
                  ("spec_signed", jInts (specSigned d none empties))])
    else
      let run {α : Type} (ops : ValOps α) (vals svals : List α) : Json :=
        let signed := sortOrderSigned ops d.ids hid top bottom desc vals svals
        let unfixed := sortOrderSignedUnfixed ops d.ids hid top bottom desc vals svals
        let chk := sortCheck ops d.ids hid top bottom desc vals svals
        jObj [("fallback", .bool false), ("signed", jInts signed), ("unfixed", jInts unfixed),
              ("bogus", jOptItems (sortOrderBogus ops d empties top bottom desc vals svals)),
              ("model_check", checkJson (chk signed)),
              ("reported_check", match reported with | some o => checkJson (chk o) | none => .null),
              ("sub_ids", jInts (bogusIds d.subs))]
      if kind == "str" then
        let vals ← getStrs j "vals"
        let svals ← getStrs j "svals"
        pure (run strOps vals svals)
      else
        let vals ← getVals j "vals"
        let svals ← getVals j "svals"
        pure (run valOps vals svals)

/-- op `order_helper`: {axis: "rows"|"cols"|"strand", type: kw|null, opp_prune, n_opp_empty, n_opp}
    ↦ whether the axis sorts by value for that collation keyword; subtotal pruning flag. -/
def opOrderHelper : Handler := fun j => do
  let axis := match getStr j "axis" with
    | .ok "cols" => Axis.sliceCols | .ok "strand" => Axis.strand | _ => Axis.sliceRows
  let kw := match getFieldD j "type" .null with | .str s => some s | _ => none
  let c := collationOf kw
  let oppPrune := getBoolD j "opp_prune" false
  let ne := match getNat j "n_opp_empty" with | .ok n => n | .error _ => 0
  let no := match getNat j "n_opp" with | .ok n => n | .error _ => 1
  let measure := match getStr j "measure" with | .ok s => some s | .error _ => none
  let prop : Option String := match measure with
    | none => none
    | some m => match axis, c with
      | .strand, .univariate => stripeMeasureProp m
      | .sliceRows, .marginal => marginalProp m
      | _, _ => matrixMeasureProp m
  let pub : Option String := match measure with
    | none => none
    | some m => match axis, c with
      | .strand, .univariate => (stripePublic m).map (·.1)
      | .sliceRows, .marginal => marginalPublic m
      | _, _ => (matrixPublic m).map (·.1)
  pure (jObj [("explicit", .bool (c == .explicit)), ("sorts_by_value", .bool (sortsByValue axis c)),
              ("prune_subtotals", .bool (pruneSubtotals oppPrune ne no)),
              ("measure_prop", match prop with | some s => .str s | none => .null),
              ("public_prop", match pub with | some s => .str s | none => .null)])

def ops : List (String × Handler) :=
  [("subtotal_ids", opSubtotalIds), ("collate_anchored", opCollateAnchored),
   ("collate_sortval", opCollateSortval), ("order_helper", opOrderHelper)]

end CrCube.Driver.Collator
