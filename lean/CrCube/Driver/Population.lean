import CrCube.Driver.Proto
import CrCube.Driver.Counts
import CrCube.Model.Population
import CrCube.Spec.PopulationSpec

open Lean

namespace CrCube.Driver.Population
open CrCube.Driver CrCube.Population CrCube.PopulationSpec

/-- Lean JSON → the model's raw-JSON values (numbers exact) -/
partial def jOfJson : Json → J
  | .null => .null
  | .bool b => .bool b
  | .num n => .num (ratOfJsonNumber n)
  | .str s => .str s
  | .arr a => .arr (a.toList.map jOfJson)
  | .obj kvs => .obj (kvs.toList.map (fun (p : String × Json) => (p.1, jOfJson p.2)))

def resultToJson (r : Except PyErr Val) : Json :=
  match r with
  | .ok v => valToJson v
  | .error e => jObj [("raises", .str e.name)]

/-- op `pop_fraction`: {results: [raw `result` dict, …]} ↦ per result the model outcome (value or raises),
    well-formedness and the spec value; plus the CubeSet fraction (first cube's). -/
def opPopFraction : Handler := fun j => do
  let rs := (← getList (← getField j "results")).map jOfJson
  let per := rs.map (fun r => jObj [
    ("model", resultToJson (populationFraction r)),
    ("well_formed", .bool (wellFormed r)),
    ("spec", valToJson (fractionOf (viewOf r)))])
  pure (jObj [("per", .arr per.toArray), ("cubeset", resultToJson (cubeSetFraction rs))])

def lineOfJson (j : Json) : Except String Line := do
  match j.getObjVal? "mr" with
  | .ok k => pure (.mr (← k.getNat?))
  | .error _ =>
    let c ← getField j "cat"
    pure (.cat (← getNats c "members") (← getNats c "valid"))

def linesOfJson (j : Json) : Except String (List Line) := do
  (← getList j).mapM lineOfJson

def ratOfVal (v : Val) : Except String Rat :=
  match v with
  | .fin q => pure q
  | _ => throw "population must be finite"

def outOrNull (isDiff : Bool) (o : Out) : Json := if isDiff then .null else outToJson o

/-- op `pop_slice`: respondent-level survey + the row / column lines of one partition ↦
    Spec estimates and margins of error, and the Model's (`SliceIn` fed with the respondent-level
    proportion / std-err matrices of all three kinds). -/
def opPopSlice : Handler := fun j => do
  let sv ← CrCube.Driver.Counts.surveyOfJson (← getField j "survey")
  let rv ← getNat j "rv"
  let cv ← getNat j "cv"
  let rls ← linesOfJson (← getField j "row_lines")
  let cls ← linesOfJson (← getField j "col_lines")
  let rcd ← getBool j "rows_cat_date"
  let ccd ← getBool j "cols_cat_date"
  let diffRows ← getNats j "diff_rows"
  let diffCols ← getNats j "diff_cols"
  let pop ← ratOfVal (← getVal j "population")
  let frac ← getVal j "fraction"
  let rl (i : Nat) : Line := rls.getD i (.cat [] [])
  let cl (k : Nat) : Line := cls.getD k (.cat [] [])
  let prop (w : Within) (i k : Nat) : Val := popProportion sv rv cv (rl i) (cl k) w
  let se (w : Within) (i k : Nat) : Out := stdErr (prop w i k) (cellBase sv rv cv (rl i) (cl k) w)
  let s : SliceIn := {
    rowsCatDate := rcd, colsCatDate := ccd,
    rowProps := prop .rowDate, colProps := prop .colDate, tableProps := prop .table,
    rowSE := se .rowDate, colSE := se .colDate, tableSE := se .table,
    diffRows := diffRows, diffCols := diffCols }
  let nr := rls.length
  let nc := cls.length
  let w := withinOf rcd ccd
  let isDiff (i k : Nat) : Bool := diffRows.contains i || diffCols.contains k
  let specCounts := tab2 nr nc (fun i k => estimate (isDiff i k) (prop w i k) pop frac)
  let specMoe := tab2 nr nc (fun i k => outOrNull (isDiff i k) (marginOfError pop frac (se w i k)))
  let modelCounts := tab2 nr nc (fun i k => s.popCounts (.fin pop) frac i k)
  let modelMoe := tab2 nr nc (fun i k => outOrNull (isDiff i k) (s.popMoe (.fin pop) frac i k))
  let modelProps := tab2 nr nc (fun i k => s.popProps i k)
  pure (jObj [
    ("model", jObj [("counts", jMat modelCounts), ("props", jMat modelProps),
                    ("moe", .arr (modelMoe.map (fun r => Json.arr r.toArray)).toArray)]),
    ("spec", jObj [("counts", jMat specCounts),
                   ("moe", .arr (specMoe.map (fun r => Json.arr r.toArray)).toArray)])])

/-- op `pop_strand`: the 1-D twin -/
def opPopStrand : Handler := fun j => do
  let sv ← CrCube.Driver.Counts.surveyOfJson (← getField j "survey")
  let rls ← linesOfJson (← getField j "row_lines")
  let rcd ← getBool j "rows_cat_date"
  let diffRows ← getNats j "diff_rows"
  let pop ← ratOfVal (← getVal j "population")
  let frac ← getVal j "fraction"
  let rl (i : Nat) : Line := rls.getD i (.cat [] [])
  let tp (i : Nat) : Val := strandProportion sv (rl i) false
  let tse (i : Nat) : Out := stdErr (tp i) (wsum sv (fun r => (rl i).base (PopulationSpec.ans r 0)))
  let s : StrandIn := { rowsCatDate := rcd, tableProps := tp, tableSE := tse, diffRows := diffRows }
  let nr := rls.length
  let specSE (i : Nat) : Out := if rcd then Out.v (.fin 0) else tse i
  let specCounts := tab1 nr (fun i => estimate (diffRows.contains i) (strandProportion sv (rl i) rcd) pop frac)
  let specMoe := tab1 nr (fun i => outOrNull (diffRows.contains i) (marginOfError pop frac (specSE i)))
  let modelCounts := tab1 nr (fun i => s.popCounts (.fin pop) frac i)
  let modelMoe := tab1 nr (fun i => outOrNull (diffRows.contains i) (s.popMoe (.fin pop) frac i))
  pure (jObj [
    ("model", jObj [("counts", jVals modelCounts), ("moe", .arr modelMoe.toArray)]),
    ("spec", jObj [("counts", jVals specCounts), ("moe", .arr specMoe.toArray)])])

def ops : List (String × Handler) :=
  [("pop_fraction", opPopFraction), ("pop_slice", opPopSlice), ("pop_strand", opPopStrand)]

end CrCube.Driver.Population
