import CrCube.Driver.Proto
import CrCube.Model.Pairwise
import CrCube.Spec.PairwiseSpec

open Lean

namespace CrCube.Driver.Pairwise
open CrCube.Driver CrCube.Pairwise

def subOfJson (j : Json) : Except String Sub := do
  pure { addends := ← getNats j "add", subtrahends := ← getNats j "sub" }

def subsOf (j : Json) (k : String) : Except String (List Sub) := do
  (← getList (← getField j k)).mapM subOfJson

def pwInOfJson (j : Json) : Except String PwIn := do
  let sq ← match getFieldD j "sqbases" .null with
    | .null => pure none
    | m => do pure (some (← getValMat m))
  pure { nr := ← getNat j "nr", nc := ← getNat j "nc"
         counts := ← getMat j "counts", wbases := ← getMat j "wbases", ubases := ← getMat j "ubases"
         ucolsBase := ← getVals j "ucols_base", sqbases := sq
         rowSubs := ← subsOf j "row_subs", colSubs := ← subsOf j "col_subs" }

def jOut3 (t : List (List (List Out))) : Json := .arr (t.map jOutMat).toArray

/-- op `pw`: slice inputs + display orders ↦ for every display column c the assembled t / p
    matrices (`pairwise_significance_t_stats(c)`, `_p_vals(c)`), the exact sign flags of t, and the
    np.block'd column proportions / bases they were computed from -/
def opPw : Handler := fun j => do
  let x ← pwInOfJson j
  let ro ← getInts j "row_order"
  let co ← getInts j "col_order"
  let cs := List.range co.length
  let ts := cs.map (tStatsAt x ro co)
  let ps := cs.map (pValsAt x ro co)
  pure (jObj [("t", jOut3 ts), ("p", jOut3 ps),
              ("tneg", .arr (ts.map (fun m => Json.arr (m.map (fun r => jBools (r.map divSqrtNeg))).toArray)).toArray),
              ("props", jMat x.props), ("bases", jMat x.bases)])

def itemOfJson : Json → AlphaItem
  | .str s => match valOfString s with
    | .ok (.fin q) => .float q
    | _ => .other
  | _ => .other

/-- op `alpha`: {"arg": {"kind": "falsy"|"float"|"list"|"other", "x": "p/q", "xs": ["p/q" | null …]}} -/
def opAlpha : Handler := fun j => do
  let a ← getField j "arg"
  let kind ← getStr a "kind"
  let arg ← match kind with
    | "falsy" => pure AlphaArg.falsy
    | "other" => pure AlphaArg.other
    | "float" => do
      match ← getVal a "x" with
      | .fin q => pure (AlphaArg.float q)
      | _ => throw "bad float"
    | "list" => do pure (AlphaArg.list ((← getList (← getField a "xs")).map itemOfJson))
    | _ => throw "bad kind"
  pure (match alphaValues arg with
    | .error .typeError => jObj [("raises", .str "TypeError")]
    | .error .valueError => jObj [("raises", .str "ValueError")]
    | .ok (x, none) => jObj [("alpha", valToJson (.fin x)), ("alt", .null)]
    | .ok (x, some y) => jObj [("alpha", valToJson (.fin x)), ("alt", valToJson (.fin y))])

def meansInOfJson (j : Json) : Except String MeansIn := do
  pure { nr := ← getNat j "nr", nc := ← getNat j "nc", means := ← getMat j "means"
         stddev := ← getMat j "stddev", counts := ← getMat j "counts"
         nRowSubs := ← getNat j "n_row_subs", nColSubs := ← getNat j "n_col_subs" }

/-- op `pw_means`: Welch inputs + display orders ↦ assembled t / p per display column -/
def opMeans : Handler := fun j => do
  let x ← meansInOfJson j
  let ro ← getInts j "row_order"
  let co ← getInts j "col_order"
  let cs := List.range co.length
  pure (jObj [("t", jOut3 (cs.map (meansTAt x ro co))), ("p", jOut3 (cs.map (meansPAt x ro co)))])

def get3Json (j : Json) (k : String) : Except String (List (List (List Val))) := do
  (← getList (← getField j k)).mapM getValMat

/-- op `pw_overlap`: {props, sel, valid} over the rows concerned ↦ t / p (as found) for every
    selected subvariable a: [a][row][b] -/
def opOverlap : Handler := fun j => do
  let x : OvIn := { props := ← getMat j "props", sel := ← get3Json j "sel", valid := ← get3Json j "valid" }
  let n ← getNat j "nsub"
  let rows := List.range x.props.length
  let subs := List.range n
  pure (jObj [("t", jOut3 (subs.map (fun a => rows.map (fun i => subs.map (fun b => x.t i a b))))),
              ("p", jOut3 (subs.map (fun a => rows.map (fun i => subs.map (fun b => x.p i a b)))))])

open CrCube.PairwiseSpec in
def respOfJson (j : Json) : Except String PResp := do
  match ← getVal j "w" with
  | .fin q => pure { w := q, rowIn := ← getBools j "rin", rowValid := ← getBools j "rvalid", colIn := ← getBools j "cin" }
  | _ => throw "non-finite weight"

/-- op `pw_spec`: respondents with row / column membership flags ↦ respondent-level p_x, n_x and
    the property's t / p for every (selected a, row, compared b): [a][row][b] -/
def opSpec : Handler := fun j => do
  let rs ← (← getList (← getField j "resps")).mapM respOfJson
  let useSq ← getBool j "use_sq"
  let nfr ← getNat j "nfr"
  let nfc ← getNat j "nfc"
  let rows := List.range nfr
  let cols := List.range nfc
  pure (jObj [
    ("props", jMat (rows.map (fun i => cols.map (fun c => PairwiseSpec.prop rs i c)))),
    ("bases", jMat (rows.map (fun i => cols.map (fun c => PairwiseSpec.nBase rs useSq i c)))),
    ("t", jOut3 (cols.map (fun a => rows.map (fun i => cols.map (fun b => PairwiseSpec.tSpec rs useSq i a b))))),
    ("p", jOut3 (cols.map (fun a => rows.map (fun i => cols.map (fun b => PairwiseSpec.pSpec rs useSq i a b)))))])

/-- op `pw_path`: {cols_mr, overlap, valid_overlap} ↦ does the overlap-corrected variant run? -/
def opPath : Handler := fun j => do
  pure (jObj [("overlap_path", .bool (usesOverlapPath (← getBool j "cols_mr") (← getBool j "overlap")
                                                         (← getBool j "valid_overlap")))])

def ops : List (String × Handler) :=
  [("pw", opPw), ("pw_alpha", opAlpha), ("pw_means", opMeans), ("pw_overlap", opOverlap), ("pw_spec", opSpec), ("pw_path", opPath)]

end CrCube.Driver.Pairwise
