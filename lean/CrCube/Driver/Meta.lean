/-
  Driver op for the metadata model (Model/Meta.lean, Spec/MetaSpec.lean):

    meta_dim {dicts, which, xf: {elements: [[key, dict], …] | null, mode, insertions?, name?, description?},
              orders: [[signed idx …] …], table_k?}

  returns the dimension-level lists, the assembled outputs for every probe order, and the SPEC values
  (labels / hidden / fills through `MetaSpec.entryFor`, defined only on array dimensions whose keys are all
  determinate).
-/
import CrCube.Driver.Proto
import CrCube.Driver.Population
import CrCube.Driver.Glue
import CrCube.Driver.Shim
import CrCube.Model.Meta
import CrCube.Spec.MetaSpec

open Lean

namespace CrCube.Driver.Meta
open CrCube CrCube.Driver CrCube.Glue CrCube.Meta
open CrCube.Driver.Population (jOfJson)
open CrCube.Driver.Glue (jToJson rJson raises)
open CrCube.Driver.Shim (refOfJson)

def jList (l : List J) : Json := .arr (l.map jToJson).toArray

def optJ : Option J → Json
  | some v => jToJson v
  | none => .str "nan"

def jOptList (l : List (Option J)) : Json := .arr (l.map optJ).toArray

def kdOfJson (j : Json) : Except String KD := do
  let ps ← getList j
  let kvs ← ps.mapM (fun p => do
    match ← getList p with
    | [k, v] => pure (← refOfJson k, jOfJson v)
    | _ => throw "bad [key, value] pair")
  -- a Python dict: a repeated key keeps its first position and takes the last value
  pure (kvs.foldl (fun acc kv => kdSet kv.1 kv.2 acc) [])

def optKey (j : Json) (k : String) : Option J :=
  match j.getObjVal? k with
  | .ok v => some (jOfJson v)
  | .error _ => none

def xfOfJson (j : Json) : Except String DimXf := do
  let elements ← match j.getObjVal? "elements" with
    | .ok .null => pure none
    | .ok v => do pure (some (← kdOfJson v))
    | .error _ => pure none
  let mode := match j.getObjVal? "mode" with
    | .ok (.str s) => CrCube.Driver.Shim.modeOfString s
    | _ => .absent
  pure { elements := elements, mode := mode, insertions := optKey j "insertions",
         name := optKey j "name", description := optKey j "description",
         other := (optKey j "other").getD J.empty }

def fmt : J → String := pyStr

def assembledJson (x : Glue.Dim) (t : DimXf) (o : List Int) : Json :=
  jObj [("labels", rJson jList (labelsOut fmt x t o)),
        ("aliases", rJson jList (aliasesOut fmt x t o)),
        ("codes", rJson jList (codesOut x t o)),
        ("fills", rJson jList (fillsOut x t o)),
        ("numeric", rJson jOptList (numericOut x t o))]

/-- spec values for an array dimension (labels / hidden / fills per valid item, through `entryFor`) -/
def specJson (x : Glue.Dim) (t : DimXf) : Json :=
  let r : R Json := do
    if !x.dt.isArray then pure .null
    else
      let sd ← shimDimOf x
      let es := t.elements.getD []
      if t.mode != .absent || !decide (MetaSpec.Determinate sd es) || !decide sd.aliases.Nodup then pure .null
      else
        let els ← iter (← item (← item x.d "type") "elements")
        let rows ← mapR (fun (p : J × Nat) => do
            let miss ← elemMissing p.1
            let v ← get p.1 "value" J.empty
            let r ← get v "references" J.empty
            let nm ← get r "name" .null
            let xf := MetaSpec.entryFor sd es p.2
            pure (miss, orEmpty nm, xf)) els.zipIdx
        let valid := rows.filter (fun r => !r.1)
        pure (jObj [("labels", jList (valid.map (fun r => MetaSpec.label r.2.1 r.2.2))),
                    ("hidden", jBools (valid.map (fun r => MetaSpec.hidden r.2.2))),
                    ("fills", jList (valid.map (fun r => MetaSpec.fill r.2.2)))])
  match r with
  | .ok j => j
  | .error _ => .null

def opDim : Handler := fun j => do
  let dicts := (← getList (← getField j "dicts")).map jOfJson
  let which ← getNat j "which"
  let t ← xfOfJson (← getField j "xf")
  let orders ← (← getList (← getField j "orders")).mapM getIntList
  match fromDicts dicts with
  | .error e => pure (raises e)
  | .ok dims =>
    match dims[which]? with
    | none => throw "which out of range"
    | some x =>
      let tk := match j.getObjVal? "table_k" with
        | .ok v => match v.getNat? with | .ok n => some n | .error _ => none
        | .error _ => none
      pure (jObj [
        ("type", .str x.dt.name),
        ("ids", rJson jList (elementIds x t)),
        ("labels", rJson jList (elementLabels fmt x t)),
        ("aliases", rJson jList (elementAliases fmt x t)),
        ("fills", rJson jList (elementFills x t)),
        ("hidden_idxs", rJson jNats (hiddenIdxs x t)),
        ("numeric", rJson jOptList (numericValues x t)),
        ("sub_labels", rJson jList (subtotalLabels x t)),
        ("sub_aliases", rJson jList (subtotalAliases x t)),
        ("sub_fills", rJson jList (subtotalFills x t)),
        ("ins_ids", rJson jInts (insertionIds x t)),
        ("name", rJson jToJson (dimName x t)),
        ("description", rJson jToJson (dimDescription x t)),
        ("alias", rJson jToJson (dimAlias x)),
        ("selected", rJson jList (selectedLabels x)),
        ("table_name", match tk with
          | some k => rJson (fun o => match o with | some s => Json.str s | none => .null) (tableName fmt x k)
          | none => .null),
        ("assembled", .arr (orders.map (assembledJson x t)).toArray),
        ("spec", specJson x t)])

def ops : List (String × Handler) := [("meta_dim", opDim)]

end CrCube.Driver.Meta
