import CrCube.Driver.Proto
import CrCube.Driver.Counts
import CrCube.Driver.SliceApi
import CrCube.Driver.Collator
import CrCube.Model.PipelineMeasures
import CrCube.Driver.Scale

open Lean

/-!
  Driver ops of the end-to-end pipeline: ONE op takes the whole case (typed design, raw arrays,
  both dimensions with their transforms) and returns every assembled output.

  JSON shapes
    dim    : {"kind": "cat"|"mr"|"arr", "catdate": bool, "elems": [{"id", "derived", "anchor"}],
              "labels": [str], "view": [ins], "insertions": null | [ins], "hide": [bool],
              "prune": bool, "order": null | order}
    ins    : {"fn","hide","an": bool, "kwpos","args","neg": [int], "anchor": null|int|str,
              "id": null|int, "label": str}
    order  : {"type": COLLATION_METHOD keyword, "ids": [eid] (explicit), "kw": measure / marginal keyword,
              "id": eid (opposing_element), "ins_id": int (opposing_insertion),
              "desc": bool, "top": [eid], "bottom": [eid]}
-/

namespace CrCube.Driver.Pipeline
open CrCube.Driver CrCube.Collator CrCube.Pipeline

def tinsOfJson (j : Json) : Except String TIns := do
  let anchor ← Collator.rawAnchorOfJson (getFieldD j "anchor" .null)
  let id ← match getFieldD j "id" .null with
    | .null => pure none
    | x => match x.getInt? with | .ok n => pure (some n) | .error e => throw e
  let label := match getFieldD j "label" .null with | .str s => s | _ => ""
  pure { isSubtotalFn := getBoolD j "fn" true, hide := getBoolD j "hide" false
         hasAnchorName := getBoolD j "an" true
         kwPositive := ← (if hasField j "kwpos" then getInts j "kwpos" else pure [])
         args := ← (if hasField j "args" then getInts j "args" else pure [])
         negative := ← (if hasField j "neg" then getInts j "neg" else pure [])
         anchor := anchor, id := id, label := label }

def tinsListOfJson (j : Json) : Except String (List TIns) := do (← getList j).mapM tinsOfJson

def dirName : Dir → String
  | .row => "row"
  | .col => "column"
  | .table => "table"

/-- public property name of a Val-valued measure; "key:…" = the blocks are a sort surrogate -/
def MKey.name : MKey → String
  | .countsW => "counts"
  | .countsU => "unweighted_counts"
  | .rowBasesW => "row_weighted_bases"
  | .rowBasesU => "row_unweighted_bases"
  | .colBasesW => "column_weighted_bases"
  | .colBasesU => "column_unweighted_bases"
  | .tableBasesW => "table_weighted_bases"
  | .tableBasesU => "table_unweighted_bases"
  | .rowProps => "row_proportions"
  | .colProps => "column_proportions"
  | .tableProps => "table_proportions"
  | .variance d => dirName d ++ "_proportion_variances"
  | .stdErr d => "key:" ++ dirName d ++ "_std_err"
  | .zscores => "key:zscores"
  | .pvalues => "key:pvals"
  | .colIndex => "column_index"
  | .popProps => "key:population_proportions"
  | .popStdErr => "key:population_std_err"
  | .sums => "sums"
  | .means => "means"
  | .stddev => "stddev"
  | .medians => "medians"
  | .rowShare => "row_share_sum"
  | .colShare => "column_share_sum"
  | .totalShare => "total_share_sum"

def OKey.name : OKey → String
  | .stdDev d => dirName d ++ "_std_dev"
  | .stdErr d => dirName d ++ "_std_err"
  | .moe d => dirName d ++ "_proportions_moe"
  | .zscores => "zscores"
  | .pvals => "pvals"
  | .popStdErr => "population_std_err"

def SKey.name : SKey → String
  | .countsW => "counts"
  | .countsU => "unweighted_counts"
  | .basesW => "weighted_bases"
  | .basesU => "unweighted_bases"
  | .tableProps => "table_proportions"
  | .stddevs => "key:table_proportion_stddevs"
  | .stderrs => "key:table_proportion_stderrs"
  | .popProps => "key:population_proportions"
  | .popStderrs => "key:population_proportion_stderrs"
  | .means => "means"
  | .sums => "sums"
  | .stddev => "stddev"
  | .medians => "medians"
  | .shareSum => "share_sum"

def OSKey.name : OSKey → String
  | .stddevs => "table_proportion_stddevs"
  | .stderrs => "table_proportion_stderrs"
  | .moes => "table_proportion_moes"
  | .popStderrs => "population_proportion_stderrs"

/-- property name of `SecondOrderMeasures` → the pipeline's measure (every value of the keyword
    table `Collator.matrixMeasureProp`) -/
def mkeyOfProp : String → Option MKey
  | "weighted_counts" => some .countsW
  | "unweighted_counts" => some .countsU
  | "row_weighted_bases" => some .rowBasesW
  | "row_unweighted_bases" => some .rowBasesU
  | "column_weighted_bases" => some .colBasesW
  | "column_unweighted_bases" => some .colBasesU
  | "table_weighted_bases" => some .tableBasesW
  | "table_unweighted_bases" => some .tableBasesU
  | "row_proportions" => some .rowProps
  | "column_proportions" => some .colProps
  | "table_proportions" => some .tableProps
  | "row_proportion_variances" => some (.variance .row)
  | "column_proportion_variances" => some (.variance .col)
  | "table_proportion_variances" => some (.variance .table)
  | "row_std_err" => some (.stdErr .row)
  | "column_std_err" => some (.stdErr .col)
  | "table_std_err" => some (.stdErr .table)
  | "zscores" => some .zscores
  | "pvalues" => some .pvalues
  | "column_index" => some .colIndex
  | "population_proportions" => some .popProps
  | "population_std_err" => some .popStdErr
  | "sums" => some .sums
  | "means" => some .means
  | "stddev" => some .stddev
  | "row_share_sum" => some .rowShare
  | "column_share_sum" => some .colShare
  | "total_share_sum" => some .totalShare
  | _ => none

def skeyOfProp : String → Option SKey
  | "weighted_counts" => some .countsW
  | "unweighted_counts" => some .countsU
  | "weighted_bases" => some .basesW
  | "unweighted_bases" => some .basesU
  | "table_proportions" => some .tableProps
  | "table_proportion_stddevs" => some .stddevs
  | "table_proportion_stderrs" => some .stderrs
  | "population_proportions" => some .popProps
  | "population_proportion_stderrs" => some .popStderrs
  | "means" => some .means
  | "sums" => some .sums
  | "share_sum" => some .shareSum
  | _ => none

def margKeyOfProp : String → Option MargKey
  | "rows_unweighted_base" => some .baseU
  | "rows_weighted_base" => some .baseW
  | "rows_table_proportion" => some .tableProp
  | "rows_scale_mean" => some .scaleMean
  | "rows_scale_mean_stddev" => some .scaleStddev
  | "rows_scale_mean_stderr" => some .scaleStderr
  | "rows_scale_median" => some .scaleMedian
  | _ => none

/-- keyword → modelled key through the collator model's keyword table (`tbl`): a keyword the
    table does not know is `none` (ValueError → payload fallback in the helpers); a keyword it
    knows but the pipeline does not model is a driver error (the generator must not emit it) -/
def resolveKw {κ : Type} (tbl : String → Option String) (ofProp : String → Option κ) (j : Json) :
    Except String (Option κ) :=
  match getFieldD j "kw" .null with
  | .str kw =>
    match tbl kw with
    | none => pure none
    | some prop =>
      match ofProp prop with
      | some k => pure (some k)
      | none => throw s!"keyword {kw} ({prop}) is not modelled by the pipeline"
  | _ => throw "order: missing kw"

def sortOptsOfJson (j : Json) : Except String SortOpts := do
  pure { desc := getBoolD j "desc" true, top := ← Collator.getEidsD j "top"
         bottom := ← Collator.getEidsD j "bottom" }

/-- the `order` dict: {"type": collation keyword, "ids" | "kw" | "id" | "ins_id", "desc", "top", "bottom"};
    the collation keyword goes through `Collator.collationOf` -/
def orderOfJson (j : Json) : Except String OrderSpec := do
  match j with
  | .null => pure .payload
  | _ =>
    let ty := match getFieldD j "type" .null with | .str s => some s | _ => none
    let o ← sortOptsOfJson j
    match collationOf ty with
    | .explicit => pure (.explicit (← Collator.getEidsD j "ids"))
    | .label => pure (.label o)
    | .marginal => pure (.marginal (← resolveKw marginalProp margKeyOfProp j) o)
    | .opposingElement =>
      pure (.oppElement (← Collator.eidOfJson (← getField j "id")) (← resolveKw matrixMeasureProp mkeyOfProp j) o)
    | .opposingInsertion =>
      pure (.oppInsertion (← getInt j "ins_id") (← resolveKw matrixMeasureProp mkeyOfProp j) o)
    | .univariate => pure (.univariate (← resolveKw stripeMeasureProp skeyOfProp j) o)
    | .payload => pure .payload

def tdimOfJson (j : Json) : Except String TDim := do
  let elems ← (← getList (← getField j "elems")).mapM Collator.elemOfJson
  let labels ← if hasField j "labels" then (← getList (← getField j "labels")).mapM (·.getStr?) else pure []
  let view ← if hasField j "view" then tinsListOfJson (← getField j "view") else pure []
  let tr ← match getFieldD j "insertions" .null with
    | .null => pure none
    | t => do pure (some (← tinsListOfJson t))
  let hide ← if hasField j "hide" then getBools j "hide" else pure []
  let order ← orderOfJson (getFieldD j "order" .null)
  let numVals ← if hasField j "numvals" then getVals j "numvals" else pure []
  pure { kind := Counts.dkOfString (← getStr j "kind"), catDate := getBoolD j "catdate" false
         elems := elems, labels := labels, numVals := numVals, viewIns := view, trIns := tr, hide := hide
         prune := getBoolD j "prune" false, order := order }

def jBoolMat (m : List (List Bool)) : Json := .arr (m.map jBools).toArray

def jOptVals (o : Option (List Val)) : Json := match o with | some l => jVals l | none => .null

def scaleJson (o : Option (List Scale.VecStats)) (stderrDefined : Bool) : Json :=
  match o with
  | none => .null
  | some vs =>
    jObj [("mean", jVals (vs.map (·.mean))), ("median", jVals (vs.map (·.median))),
          ("stddev", .arr (vs.map (fun v => Scale.soutToJson v.stddev)).toArray),
          ("stderr", if stderrDefined then .arr (vs.map (fun v => Scale.soutToJson v.stderr)).toArray else .null)]

/-- the sort keys an order was computed from (base values ++ subtotal values), for the
    harness' near-tie analysis; null for payload / explicit / label orders -/
def sortKeysJson : ROrder → Json
  | .byValue _ v sv => jVals (v ++ sv)
  | _ => .null

def sliceOutJson (c : CubeData) (x : SliceOutX) : Json :=
  let o := x.core
  jObj ([("row_order", jInts o.rowOrder), ("column_order", jInts o.colOrder),
         ("shape", jNats [o.shape.1, o.shape.2]),
         ("inserted_row_idxs", jNats o.insertedRowIdxs), ("inserted_column_idxs", jNats o.insertedColIdxs),
         ("diff_row_idxs", jNats o.diffRowIdxs), ("diff_column_idxs", jNats o.diffColIdxs),
         ("derived_row_idxs", jNats o.derivedRowIdxs), ("derived_column_idxs", jNats o.derivedColIdxs),
         ("row_label_idxs", jNats o.rowLabelIdxs), ("column_label_idxs", jNats o.colLabelIdxs),
         ("rows_margin", SliceApi.margJson o.rowsMargin), ("columns_margin", SliceApi.margJson o.columnsMargin),
         ("rows_base", SliceApi.margJson o.rowsBase), ("columns_base", SliceApi.margJson o.columnsBase),
         ("table_margin", SliceApi.margJson o.tableMargin), ("table_base", SliceApi.margJson o.tableBase),
         ("population_proportions", jMat x.popProps), ("population_counts", jMat x.popCounts),
         ("population_counts_moe", jOutMat x.popMoe),
         ("rows_scale", scaleJson x.rowsScale x.rowsStderrDefined),
         ("columns_scale", scaleJson x.colsScale x.colsStderrDefined),
         ("rows_margin_proportion", jOptVals x.rowsMarginProp),
         ("columns_margin_proportion", jOptVals x.colsMarginProp)]
        ++ (MKey.all.filter (fun k => !(MKey.name k).startsWith "key:")).map
            (fun k => (MKey.name k, if sliceAvail c k then jMat (o.mat k) else .null))
        ++ OKey.all.map (fun k => (OKey.name k, jOutMat (x.omat k))))

def strandOutJson (c : StrandData) (x : StrandOutX) : Json :=
  let o := x.core
  jObj ([("row_order", jInts o.rowOrder), ("shape", jNats [o.shape]),
         ("inserted_row_idxs", jNats o.insertedRowIdxs), ("diff_row_idxs", jNats o.diffRowIdxs),
         ("derived_row_idxs", jNats o.derivedRowIdxs), ("row_label_idxs", jNats o.rowLabelIdxs),
         ("population_proportions", jVals x.popProps), ("population_counts", jVals x.popCounts),
         ("population_counts_moe", jOuts x.popMoe),
         ("scale_mean", Scale.soutToJson x.scale.mean), ("scale_median", Scale.soutToJson x.scale.median),
         ("scale_std_dev", Scale.soutToJson x.scale.stddev), ("scale_std_err", Scale.soutToJson x.scale.stderr)]
        ++ (SKey.all.filter (fun k => !(SKey.name k).startsWith "key:")).map
            (fun k => (SKey.name k, if strandAvail c k then jVals (o.vec k) else .null))
        ++ OSKey.all.map (fun k => (OSKey.name k, jOuts (x.ovec k))))

def blocksJson (b : Blocks) : Json :=
  jObj [("body", jMat b.bodyL), ("ins_cols", jMat b.insColsL),
        ("ins_rows", jMat b.insRowsL), ("inter", jMat b.interL)]

/-- respondent-level counts and bases of the BASE cells of partition k (property statements
    C01 / C02), in element (payload) positions; the harness reads them at the positions the
    library's reported display orders name -/
def specJson (vars : List Var) (s : Survey) (k : Nat) : Json :=
  let ext := Counts.apparentExtents vars
  let nd := ext.length
  let nr := ext.getD (nd - 2) 0
  let nc := ext.getD (nd - 1) 0
  let pre : List Nat := if nd ≥ 3 then [k] else []
  let preM : List Bool := if nd ≥ 3 then [false] else []
  let mk (sv : Survey) (mr mc : Bool) : Json :=
    jMat (tab2 nr nc (fun i j => Val.fin (specCount vars sv (pre ++ [i, j]) (preM ++ [mr, mc]))))
  let u := unweight s
  jObj [("counts", mk s false false), ("row_weighted_bases", mk s false true),
        ("column_weighted_bases", mk s true false), ("table_weighted_bases", mk s true true),
        ("unweighted_counts", mk u false false), ("row_unweighted_bases", mk u false true),
        ("column_unweighted_bases", mk u true false), ("table_unweighted_bases", mk u true true)]

def strandSpecJson (vars : List Var) (s : Survey) : Json :=
  let n := (Counts.apparentExtents vars).getD 0 0
  let u := unweight s
  let mk (sv : Survey) (m : Bool) : Json := jVals (tab1 n (fun i => Val.fin (specCount vars sv [i] [m])))
  jObj [("counts", mk s false), ("weighted_bases", mk s true),
        ("unweighted_counts", mk u false), ("unweighted_bases", mk u true)]

/-- `FT.ofFlat` with O(1) cell access (the same function of the multi-index: an array lookup
    instead of a list walk; the interpreter spends its time here otherwise) -/
def ftOfFlat (shape : List Nat) (data : List Val) : FT :=
  let a := data.toArray
  ⟨shape, fun ix => a.getD (ravel shape ix) .nan⟩

def optFT (j : Json) (k : String) (sh : List Nat) : Except String (Option FT) :=
  match getFieldD j k .null with
  | .null => pure none
  | x => do pure (some (ftOfFlat sh (← getValList x)))

/-- op `pipe_slice`: {vars, wdata, udata, k, rows: dim, cols: dim, survey?} ↦
    {"t": outputs under the transforms, "strip": the display orders under strip(transforms),
     "wf": side conditions hold, "spec": respondent-level cells; with "twins": true also
     "blocks_equal" (the blocks of every measure agree under t and strip(t)) and "reindex_equal"
     (every output under t = the output under strip(t) re-indexed): executable twins of
     `C05.slice_blocks_independent` / `slice_output_reindexed` / `slice_margins_reindexed`} -/
def opPipeSlice : Handler := fun j => do
  let vars ← Counts.varsOfJson (← getField j "vars")
  let wdata ← getVals j "wdata"
  let udata ← getVals j "udata"
  let k ← getNat j "k"
  let rows ← tdimOfJson (← getField j "rows")
  let cols ← tdimOfJson (← getField j "cols")
  let sh := rawShapeOf vars
  let c : CubeData := { vars := vars, wraw := ftOfFlat sh wdata, uraw := ftOfFlat sh udata, k := k
                        sums := ← optFT j "sums" sh, means := ← optFT j "means" sh
                        stddevs := ← optFT j "stddevs" sh, medians := ← optFT j "medians" sh }
  let population ← if hasField j "population" then getVal j "population" else pure (.fin 0)
  let fraction ← if hasField j "fraction" then getVal j "fraction" else pure (.fin 1)
  let spec ← if hasField j "survey" then do
      let s ← Counts.surveyOfJson (← getField j "survey")
      pure (specJson vars s k)
    else pure .null
  match rows.resolve, cols.resolve with
  | some r, some cl =>
    let out := runSliceX c r cl population fraction
    let out0 := runSlice c r.strip cl.strip
    let wf := decide (SliceWF c r cl)
    -- executable twins of `C05.slice_blocks_independent` / `slice_output_reindexed` (on request: they
    -- recompute every block twice more)
    let twins := getBoolD j "twins" false
    let same := !twins || MKey.all.all (fun key =>
      let b := sliceBlocks c r cl key
      let b0 := sliceBlocks c r.strip cl.strip key
      b.bodyL == b0.bodyL && b.insColsL == b0.insColsL && b.insRowsL == b0.insRowsL && b.interL == b0.interL)
    let reidx := !twins || out.core.reindexedFrom out0 c
    pure (jObj [("t", sliceOutJson c out),
                ("strip", jObj [("row_order", jInts out0.rowOrder), ("column_order", jInts out0.colOrder)]),
                ("wf", .bool wf), ("blocks_equal", .bool same), ("reindex_equal", .bool reidx),
                ("row_sort_keys", sortKeysJson (rowROrder (sliceBlocks c r cl) (sliceAvail c) (rowMarginalKeys c r cl) r cl)),
                ("column_sort_keys", sortKeysJson (colROrder (sliceBlocks c r cl) (sliceAvail c) r cl)),
                ("n_row_subtotals", jNat r.subtotals.length), ("n_col_subtotals", jNat cl.subtotals.length),
                ("row_insertion_ids", jInts (bogusIds r.cdim.subs)),
                ("column_insertion_ids", jInts (bogusIds cl.cdim.subs)),
                ("rows_pruning_mask", jBools c.u.rowsPruningMask),
                ("columns_pruning_mask", jBools c.u.columnsPruningMask),
                ("spec", spec)])
  | _, _ => pure (jObj [("raises", .str "ValueError")])

/-- op `pipe_strand`: {vars, wdata, udata, rows: dim, survey?} -/
def opPipeStrand : Handler := fun j => do
  let vars ← Counts.varsOfJson (← getField j "vars")
  let wdata ← getVals j "wdata"
  let udata ← getVals j "udata"
  let d ← tdimOfJson (← getField j "rows")
  let sh := rawShapeOf vars
  let c : StrandData := { vars := vars, wraw := ftOfFlat sh wdata, uraw := ftOfFlat sh udata
                          sums := ← optFT j "sums" sh, means := ← optFT j "means" sh
                          stddevs := ← optFT j "stddevs" sh, medians := ← optFT j "medians" sh }
  let population ← if hasField j "population" then getVal j "population" else pure (.fin 0)
  let fraction ← if hasField j "fraction" then getVal j "fraction" else pure (.fin 1)
  let spec ← if hasField j "survey" then do
      let s ← Counts.surveyOfJson (← getField j "survey")
      pure (strandSpecJson vars s)
    else pure .null
  match d.resolve with
  | some r =>
    let out := runStrandX c r population fraction
    let out0 := runStrand c r.strip
    let twins := getBoolD j "twins" false
    let same := !twins || SKey.all.all (fun key =>
      let b := strandBlocks c r key
      let b0 := strandBlocks c r.strip key
      b.baseL == b0.baseL && b.subsL == b0.subsL)
    pure (jObj [("t", strandOutJson c out), ("strip", jObj [("row_order", jInts out0.rowOrder)]),
                ("wf", .bool (decide (StrandWF c r))), ("blocks_equal", .bool same),
                ("reindex_equal", .bool (!twins || out.core.reindexedFrom out0)),
                ("row_sort_keys", sortKeysJson (strandROrder (strandBlocks c r) (strandAvail c) r)),
                ("n_row_subtotals", jNat r.subtotals.length),
                ("row_insertion_ids", jInts (bogusIds r.cdim.subs)),
                ("pruning_mask", jBools (tab1 c.u.n (fun i => c.u.pruningBase i == .fin 0))),
                ("spec", spec)])
  | none => pure (jObj [("raises", .str "ValueError")])

def ops : List (String × Handler) :=
  [("pipe_slice", opPipeSlice), ("pipe_strand", opPipeStrand)]

end CrCube.Driver.Pipeline
