/-
  The primitives of `Model/Variance.lean` computed at RESPONDENT level: what the count / base
  blocks of the library hold for one cell when the cube is the tabulation of a survey
  (C01, C02, C04).  `VarCell.ofSurvey` feeds them to the model; `Props/C11.lean` proves that the
  result is the specified indicator variance.
-/
import CrCube.Model.Variance
import CrCube.Spec.VarianceSpec

namespace CrCube

def ratSum (l : List Rat) : Rat := l.sum

/-- Σ over the elements `es` of the ROW side of f(base element) -/
def sumOver (es : List Nat) (f : Side → Rat) : Rat := ratSum (es.map (fun e => f (Side.base e)))

/-- the respondent-level primitives of cell (R, C) in direction `dir` -/
def VarCell.ofSurvey (d : SliceDesign) (s : Survey) (dir : Dir) (R C : Side)
    (rowsCatDate colsCatDate : Bool) : VarCell :=
  let cnt := fun (R' C' : Side) => wsum s (d.isPos R' C')
  let bas := fun (R' C' : Side) => wsum s (d.inBase dir R' C')
  let onRows := R.inserted && !C.inserted
  { dir := dir, R := R, C := C, rowsCatDate := rowsCatDate, colsCatDate := colsCatDate
    np := .fin (wsum s (d.isPos R C))
    nn := .fin (wsum s (d.isNeg R C))
    base := .fin (wsum s (d.inBase dir R C))
    cA := .fin (if onRows then sumOver R.add (fun e => cnt e C) else sumOver C.add (fun e => cnt R e))
    bA := .fin (if onRows then sumOver R.add (fun e => bas e C) else sumOver C.add (fun e => bas R e))
    cS := .fin (if onRows then sumOver R.sub (fun e => cnt e C) else sumOver C.sub (fun e => cnt R e))
    bS := .fin (if onRows then sumOver R.sub (fun e => bas e C) else sumOver C.sub (fun e => bas R e)) }

def StrandCell.ofSurvey (v : Var) (s : Survey) (S : Side) (catDate : Bool) : StrandCell :=
  let cnt := fun (S' : Side) => wsum s (strandPos v S')
  let bas := fun (S' : Side) => wsum s (strandBase v S')
  { S := S, catDate := catDate
    np := .fin (wsum s (strandPos v S))
    nn := .fin (wsum s (strandNeg v S))
    base := .fin (wsum s (strandBase v S))
    cA := .fin (sumOver S.add cnt)
    bA := .fin (sumOver S.add bas)
    cS := .fin (sumOver S.sub cnt)
    bS := .fin (sumOver S.sub bas) }

end CrCube
