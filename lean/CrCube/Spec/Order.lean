/-
  Specification of display ordering, written from the STATEMENTS of C07 and C08
  (not from the code).  Executable, no Mathlib.

  C07: base elements in payload order, or – explicit order – the listed ids (first mention
  wins, unknown ignored) then the unlisted in payload order; each subtotal immediately after
  its anchor element, or at top/bottom for those anchors and for anchors that no longer
  exist; same-anchor subtotals in definition order; hidden elements removed.
  Derived multiple-response items (explicit order only): before / after their anchor item,
  top, or bottom (bottom also when the anchor no longer exists); "after" ones follow the
  subtotals of that anchor.

  C08: [subtotal group if descending] ++ fixed-top ++ body ++ fixed-bottom ++
  [subtotal group if ascending]; body = the non-fixed elements, non-NaN ones monotone in the
  requested direction, NaN ones last in payload order; the subtotal group likewise.
  Ties are unconstrained, so C08 is a predicate on an order (`sortSpecHolds`), while C07
  is a function (`specSigned`).
-/
import CrCube.Model.Collator

namespace CrCube.OrderSpec
open CrCube.Collator

/-! ## C07 -/

/-- first mention wins: keep an entry iff it was not seen before. -/
def firstMentions : List Nat → List Nat → List Nat
  | _, [] => []
  | seen, x :: xs =>
    if seen.contains x then firstMentions seen xs else x :: firstMentions (x :: seen) xs

/-- offset of the element carrying `id` (ids are distinct in a well-formed dimension). -/
def idxOfId (ids : List Eid) (id : Eid) : Option Nat :=
  ids.findIdx? (fun e => e == id)

/-- offsets of the elements that take part in the base order: all of them in payload order,
    the non-derived ones under an explicit order. -/
def baseIdxs (elems : List Elem) (explicit : Option (List Eid)) : List Nat :=
  match explicit with
  | none => List.range elems.length
  | some _ => (List.range elems.length).filter (fun i => !(elems[i]?.map (·.derived)).getD false)

/-- the order of the base elements. -/
def specElemOrder (elems : List Elem) (explicit : Option (List Eid)) : List Nat :=
  let base := baseIdxs elems explicit
  match explicit with
  | none => base
  | some ex =>
    let listed := firstMentions []
      (ex.filterMap (fun id => (idxOfId (elems.map (·.id)) id).filter (fun i => base.contains i)))
    listed ++ base.filter (fun i => !listed.contains i)

/-- where a subtotal / derived item goes. -/
inductive Place where
  | top
  | bottom
  | before (e : Nat)
  | after (e : Nat)
  deriving DecidableEq, Repr

/-- subtotal: after its anchor element when that element (still) exists among the ordered
    base elements, else top / bottom as anchored, bottom for a vanished anchor. -/
def subPlace (ids : List Eid) (order : List Nat) (s : Sub) : Place :=
  match s.anchor with
  | .top => .top
  | .bottom => .bottom
  | .elem n =>
    match idxOfId ids (.int n) with
    | some e => if order.contains e then .after e else .bottom
    | none => .bottom

/-- derived item under explicit order. -/
def derivedPlace (ids : List Eid) (order : List Nat) (a : DAnchor) : Place :=
  match a with
  | .none => .bottom
  | .top => .top
  | .bottom => .bottom
  | .rel alias before =>
    match idxOfId ids alias with
    | some e => if order.contains e then (if before then .before e else .after e) else .bottom
    | none => .bottom

/-- the derived items (offset, place) that are re-anchored: none in payload order. -/
def derivedPlaces (elems : List Elem) (explicit : Option (List Eid)) (order : List Nat) :
    List (Nat × Place) :=
  match explicit with
  | none => []
  | some _ =>
    elems.zipIdx.filterMap (fun (e, i) =>
      if e.derived then some (i, derivedPlace (elems.map (·.id)) order e.danchor) else none)

def subsAt (places : List Place) (p : Place) : List Int :=
  ((places.zip (negIdxs places.length)).filter (fun q => q.1 = p)).map (·.2)

def dersAt (dps : List (Nat × Place)) (p : Place) : List Int :=
  (dps.filter (fun q => q.2 = p)).map (fun q => (q.1 : Int))

/-- the display sequence before hiding. -/
def specSequence (order : List Nat) (places : List Place) (dps : List (Nat × Place)) : List Int :=
  subsAt places .top ++ dersAt dps .top
    ++ order.flatMap (fun e =>
        dersAt dps (.before e) ++ [(e : Int)] ++ subsAt places (.after e) ++ dersAt dps (.after e))
    ++ (subsAt places .bottom ++ dersAt dps .bottom)

/-- C07, signed rendering. `explicit = none`: payload order. -/
def specSigned (d : Dim) (explicit : Option (List Eid)) (empties : List Nat) : List Int :=
  let order := specElemOrder d.elems explicit
  let places := d.subs.map (subPlace d.ids order)
  (specSequence order places (derivedPlaces d.elems explicit order)).filter
    (fun idx => !isHidden (d.hid empties) idx)

/-- C07, 'ins_N' rendering: the same sequence, each subtotal named by its insertion id. -/
def specItems (d : Dim) (explicit : Option (List Eid)) (empties : List Nat) : List Item :=
  (specSigned d explicit empties).map (fun idx =>
    if idx < 0 then Item.ins ((d.subs[(idx + (d.subs.length : Int)).toNat]?.map (·.insId)).getD 0)
    else Item.el idx.toNat)

/-- 1-based rank, in payload display order, of the insertion defined at position `pos`
    (what the front end numbers an id-less view insertion by). -/
def payloadRank (ids : List Eid) (anchors : List Anchor) (pos : Nat) : Option Int :=
  let d : Dim := { elems := ids.map (fun i => { id := i }), subs := anchors.map (fun a => { anchor := a, insId := 0 }) }
  let subsOnly := (specSigned d none []).filter (fun idx => idx < 0)
  (subsOnly.findIdx? (fun idx => idx == (pos : Int) - (anchors.length : Int))).map (fun k => (k : Int) + 1)

/-! ## C08 -/

/-- listed order, first mention wins, unknown ids ignored; `seen` = already placed. -/
def fixedSpec (ids : List Eid) (seen : List Nat) (fixed : List Eid) : List Nat :=
  firstMentions seen (fixed.filterMap (idxOfId ids))

/-- `l` is monotone in the requested direction (every earlier value ≥ / ≤ every later one). -/
def monotone (ops : ValOps α) (desc : Bool) : List α → Bool
  | [] => true
  | x :: xs => xs.all (fun y => if desc then ops.le y x else ops.le x y) && monotone ops desc xs

def increasing : List Int → Bool
  | [] => true
  | x :: xs => xs.all (fun y => decide (x < y)) && increasing xs

/-- a group is "sorted the same way": non-NaN members first, monotone; NaN members last in
    payload (index) order. `valOf` reads the sort value of a member. -/
def groupSorted (ops : ValOps α) (desc : Bool) (valOf : Int → Option α) (g : List Int) : Bool :=
  let isNan (i : Int) : Bool := match valOf i with | some v => ops.isNan v | none => true
  let keys := g.filter (fun i => !isNan i)
  let nans := g.filter isNan
  g == keys ++ nans && monotone ops desc (keys.filterMap valOf) && increasing nans

def sameMembers (a b : List Int) : Bool :=
  a.all (fun x => b.contains x) && b.all (fun x => a.contains x)

def nodupB : List Int → Bool
  | [] => true
  | x :: xs => !xs.contains x && nodupB xs

structure SortCheck where
  groups : Bool          -- subtotal group first (descending) / last (ascending)
  fixedTop : Bool        -- visible fixed-top ids lead the base part in listed order
  fixedBottom : Bool     -- visible fixed-bottom ids close it in listed order
  bodyMembers : Bool     -- between them: exactly the visible non-fixed elements, once each
  bodySorted : Bool      -- monotone, NaN last in payload order
  subsMembers : Bool     -- every subtotal once
  subsSorted : Bool
  deriving Repr

def SortCheck.ok (c : SortCheck) : Bool :=
  c.groups && c.fixedTop && c.fixedBottom && c.bodyMembers && c.bodySorted && c.subsMembers && c.subsSorted

/-- C08 as a predicate on a reported signed order. -/
def sortCheck (ops : ValOps α) (ids : List Eid) (hid : List Nat) (top bottom : List Eid) (desc : Bool)
    (vals svals : List α) (order : List Int) : SortCheck :=
  let vis (i : Nat) : Bool := !hid.contains i
  let subsPart := order.filter (fun i => i < 0)
  let basePart := order.filter (fun i => 0 ≤ i)
  let t := fixedSpec ids [] top
  let b := fixedSpec ids t bottom
  let tv := (t.filter vis).map (fun (i : Nat) => (i : Int))
  let bv := (b.filter vis).map (fun (i : Nat) => (i : Int))
  let body := (basePart.drop tv.length).take (basePart.length - tv.length - bv.length)
  let expectBody := (((List.range ids.length).filter (fun i => vis i && !t.contains i && !b.contains i))).map
    (fun (i : Nat) => (i : Int))
  let valOf (i : Int) : Option α := if 0 ≤ i then vals[i.toNat]? else none
  let svalOf (i : Int) : Option α :=
    let k := i + (svals.length : Int)
    if 0 ≤ k ∧ i < 0 then svals[k.toNat]? else none
  { groups := order == (if desc then subsPart ++ basePart else basePart ++ subsPart)
    fixedTop := basePart.take tv.length == tv
    fixedBottom := basePart.drop (basePart.length - bv.length) == bv && tv.length + bv.length ≤ basePart.length
    bodyMembers := sameMembers body expectBody && nodupB body
    bodySorted := groupSorted ops desc valOf body
    subsMembers := sameMembers subsPart (negIdxs svals.length) && nodupB subsPart
    subsSorted := groupSorted ops desc svalOf subsPart }

/-! ## C08: which public measure a sort keyword names -/

/-- relation between the value the library sorts on and the public measure of that name:
    the same array, its square root (variance ↦ std-dev), or a positive constant multiple
    (std-err ↦ margin of error ×1.959964; proportion ↦ population count ×population×fraction). -/
inductive Surrogate where
  | same
  | sqrtOf
  | scaled
  deriving DecidableEq, Repr

/-- matrix keywords (`order.measure` of opposing_element / opposing_insertion):
    public `_Slice` property and relation to the sort value. -/
def matrixPublic : String → Option (String × Surrogate)
  | "col_base_unweighted" => some ("column_unweighted_bases", .same)
  | "col_base_weighted" => some ("column_weighted_bases", .same)
  | "col_index" => some ("column_index", .same)
  | "col_percent" => some ("column_proportions", .same)
  | "col_percent_moe" => some ("column_proportions_moe", .scaled)
  | "col_share_sum" => some ("column_share_sum", .same)
  | "col_std_dev" => some ("column_std_dev", .sqrtOf)
  | "col_std_err" => some ("column_std_err", .same)
  | "mean" => some ("means", .same)
  | "population" => some ("population_counts", .scaled)
  | "population_moe" => some ("population_counts_moe", .scaled)
  | "p_value" => some ("pvals", .same)
  | "row_base_unweighted" => some ("row_unweighted_bases", .same)
  | "row_base_weighted" => some ("row_weighted_bases", .same)
  | "row_percent" => some ("row_proportions", .same)
  | "row_percent_moe" => some ("row_proportions_moe", .scaled)
  | "row_share_sum" => some ("row_share_sum", .same)
  | "row_std_dev" => some ("row_std_dev", .sqrtOf)
  | "row_std_err" => some ("row_std_err", .same)
  | "stddev" => some ("stddev", .same)
  | "sum" => some ("sums", .same)
  | "table_percent" => some ("table_proportions", .same)
  | "table_percent_moe" => some ("table_proportions_moe", .scaled)
  | "table_std_dev" => some ("table_std_dev", .sqrtOf)
  | "table_std_err" => some ("table_std_err", .same)
  | "table_base_unweighted" => some ("table_unweighted_bases", .same)
  | "table_base_weighted" => some ("table_weighted_bases", .same)
  | "total_share_sum" => some ("total_share_sum", .same)
  | "count_unweighted" => some ("unweighted_counts", .same)
  | "count_weighted" => some ("counts", .same)
  | "z_score" => some ("zscores", .same)
  | _ => none

def matrixKeywords : List String :=
  ["col_base_unweighted", "col_base_weighted", "col_index", "col_percent", "col_percent_moe", "col_share_sum",
   "col_std_dev", "col_std_err", "mean", "population", "population_moe", "p_value", "row_base_unweighted",
   "row_base_weighted", "row_percent", "row_percent_moe", "row_share_sum", "row_std_dev", "row_std_err", "stddev",
   "sum", "table_percent", "table_percent_moe", "table_std_dev", "table_std_err", "table_base_unweighted",
   "table_base_weighted", "total_share_sum", "count_unweighted", "count_weighted", "z_score"]

/-- the sort property (model table) each relation predicts for a public property -/
def expectedSortProp (kw : String) : Option String :=
  match matrixPublic kw with
  | some ("column_proportions_moe", .scaled) => some "column_std_err"
  | some ("row_proportions_moe", .scaled) => some "row_std_err"
  | some ("table_proportions_moe", .scaled) => some "table_std_err"
  | some ("population_counts", .scaled) => some "population_proportions"
  | some ("population_counts_moe", .scaled) => some "population_std_err"
  | some ("column_std_dev", .sqrtOf) => some "column_proportion_variances"
  | some ("row_std_dev", .sqrtOf) => some "row_proportion_variances"
  | some ("table_std_dev", .sqrtOf) => some "table_proportion_variances"
  | some ("pvals", .same) => some "pvalues"
  | some ("counts", .same) => some "weighted_counts"
  | some (p, .same) => some p
  | _ => none

def marginalPublic : String → Option String
  | "unweighted_base" => some "rows_base"
  | "weighted_base" => some "rows_margin"
  | "table_proportion" => some "rows_margin_proportion"
  | "scale_mean" => some "rows_scale_mean"
  | "scale_mean_stddev" => some "rows_scale_mean_stddev"
  | "scale_mean_stderr" => some "rows_scale_mean_stderr"
  | "scale_median" => some "rows_scale_median"
  | _ => none

def marginalKeywords : List String :=
  ["unweighted_base", "weighted_base", "table_proportion", "scale_mean", "scale_mean_stddev",
   "scale_mean_stderr", "scale_median"]

def stripePublic : String → Option (String × Surrogate)
  | "base_unweighted" => some ("unweighted_bases", .same)
  | "base_weighted" => some ("weighted_bases", .same)
  | "count_unweighted" => some ("unweighted_counts", .same)
  | "count_weighted" => some ("weighted_counts", .same)
  | "mean" => some ("means", .same)
  | "percent" => some ("table_proportions", .same)
  | "percent_moe" => some ("table_proportion_moes", .scaled)
  | "percent_stddev" => some ("table_proportion_stddevs", .same)
  | "percent_stderr" => some ("table_proportion_stderrs", .same)
  | "population" => some ("population_counts", .scaled)
  | "population_moe" => some ("population_counts_moe", .scaled)
  | "share_sum" => some ("share_sum", .same)
  | "sum" => some ("sums", .same)
  | _ => none

def stripeKeywords : List String :=
  ["base_unweighted", "base_weighted", "count_unweighted", "count_weighted", "mean", "percent", "percent_moe",
   "percent_stddev", "percent_stderr", "population", "population_moe", "share_sum", "sum"]

end CrCube.OrderSpec
