/-
  C16 — what the property SAYS, at respondent level.

  "Each base cell's column index equals 100 times its column proportion divided by the row
   element's unconditional share: the weighted number of respondents belonging to the row
   element over the weighted number eligible for it, counted regardless of whether their
   column answer is valid or missing.  It is NaN for inserted subtotals and where either
   share is undefined."

  In a 3-variable cube every partition is the table restricted to the respondents of one
  table element; the unconditional share is taken among those respondents.
-/
import CrCube.Spec.CellSpec

namespace CrCube

/-- W(belongs to row element i ∧ in table element) — the column answer is NOT looked at -/
def rowMembersW (d : SliceDesign) (s : Survey) (i : Nat) : Rat :=
  wsum s (fun r => d.inTable r && d.rowV.inElem (d.rowAns r) i)

/-- W(eligible for row element i ∧ in table element) — the column answer is NOT looked at -/
def rowEligibleW (d : SliceDesign) (s : Survey) (i : Nat) : Rat :=
  wsum s (fun r => d.inTable r && d.rowV.eligibleFor (d.rowAns r) i)

/-- the row element's unconditional share (undefined = NaN when nobody is eligible) -/
def baselineSpec (d : SliceDesign) (s : Survey) (i : Nat) : Val :=
  Val.div (.fin (rowMembersW d s i)) (.fin (rowEligibleW d s i))

/-- column proportion of base cell (i, j): W(cell) / W(eligible on rows ∧ in column j) -/
def colPropSpec (d : SliceDesign) (s : Survey) (i j : Nat) : Val :=
  Val.div (.fin (wsum s (d.isPos (.base i) (.base j))))
          (.fin (wsum s (d.inBase .col (.base i) (.base j))))

/-- the column index of a displayed cell -/
def columnIndexSpec (d : SliceDesign) (s : Survey) (R C : Side) : Val :=
  if R.inserted || C.inserted then .nan
  else
    let i := R.add.headD 0
    let j := C.add.headD 0
    (.fin 100) * (colPropSpec d s i j / baselineSpec d s i)

end CrCube
